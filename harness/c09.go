package main

// C09: every renderer is total - it never panics, and failure is an error
// with no text.

import (
	"encoding/json"
	"fmt"
	"strings"

	"go.pennock.tech/tabular"
	"go.pennock.tech/tabular/auto"
	"go.pennock.tech/tabular/csv"
	"go.pennock.tech/tabular/html"
	tjson "go.pennock.tech/tabular/json"
	"go.pennock.tech/tabular/markdown"
	"go.pennock.tech/tabular/texttable"
	"go.pennock.tech/tabular/texttable/decoration"
)

// text-like items incl. ones whose declared size disagrees with their text
func c09Item(r *RNG) ItemSpec {
	switch r.Intn(10) {
	case 0:
		return ItemSpec{K: "nil"}
	case 1:
		return ItemSpec{K: "rune", R: pick(r, []int32{'x', 0x65e5, 0, -1, 0xd800})}
	case 2:
		return ItemSpec{K: "int", I: int64(r.Intn(1000)) - 5}
	case 3, 4:
		// String() plus Height() and/or TerminalCellWidth() overrides
		mask := 1 + 8*r.Intn(2) + 16*r.Intn(2)
		s := pick(r, []string{"", "x", "one\ntwo", "a\nb\nc\n", "\x1b[1mbold\x1b[0m", "日本語", "\n"})
		return ItemSpec{K: "obj", Mask: mask, S: []byte(s), H: pick(r, []int{-1, 0, 1, 2, 5}), W: pick(r, []int{-3, 0, 1, 2, 40})}
	default:
		return Str(pick(r, []string{"", "a", "bb", "x y", "l1\nl2", "l1\nl2\n", "\n", "\n\n", "é", "日本", "q\"r", "p|q", "<i>", "t\tb", "a\r\nb", "\xff\xfe"}))
	}
}

type c09Target struct {
	Code   int
	Name   string
	Render func(t tabular.Table) (string, error)
}

func c09Targets() []c09Target {
	ts := []c09Target{
		{0, "csv", func(t tabular.Table) (string, error) { return csv.Wrap(t).Render() }},
		{1, "html", func(t tabular.Table) (string, error) { return html.Wrap(t).Render() }},
		{2, "json", func(t tabular.Table) (string, error) { return tjson.Wrap(t).Render() }},
		{3, "markdown", func(t tabular.Table) (string, error) { return markdown.Wrap(t).Render() }},
		{4, "texttable", func(t tabular.Table) (string, error) { return texttable.Wrap(t).Render() }},
	}
	code := 10
	for _, d := range decoration.RegisteredDecorationNames() {
		d := d
		ts = append(ts, c09Target{code, "texttable:" + d, func(t tabular.Table) (string, error) {
			tt := texttable.Wrap(t)
			tt.SetDecorationNamed(d)
			return tt.Render()
		}})
		code++
	}
	code = 30
	for _, s := range auto.ListStyles() {
		s := s
		ts = append(ts, c09Target{code, "auto:" + s, func(t tabular.Table) (string, error) { return auto.Render(t, s) }})
		code++
	}
	ts = append(ts, c09Target{60, "auto:no-such-style", func(t tabular.Table) (string, error) { return auto.Render(t, "no-such-style") }})
	return ts
}

// C09Spec: a table and how it is rendered: a fresh table for every target, or
// ONE table rendered under every target in turn (twice over), which is how an
// application offering a choice of styles behaves.
type C09Spec struct {
	Table  TableSpec `json:"table"`
	Shared bool      `json:"shared,omitempty"`
	Perm   uint64    `json:"perm,omitempty"` // order of the first round over the targets
}

func c09Parse(spec json.RawMessage) C09Spec {
	var probe map[string]json.RawMessage
	var sp C09Spec
	if err := json.Unmarshal(spec, &probe); err == nil {
		if _, ok := probe["table"]; ok {
			if err := json.Unmarshal(spec, &sp); err != nil {
				panic(err)
			}
			return sp
		}
	}
	if err := json.Unmarshal(spec, &sp.Table); err != nil { // corpus files hold a bare TableSpec
		panic(err)
	}
	return sp
}

func init() {
	register(&Prop{
		ID:       "C09",
		Imports:  "From Tab Require Import Run.Glue Run.C09Run.",
		CaseType: "(view * list (nat * nat * list N))",
		CaseFn:   "C09_case",
		ModelFn:  "C09_model",
		Rule: "tables built through the public API only (AddHeaders at any point / AddRowItems / NewRow+Add+AddRow / NewRowSizedFor / AppendNewRow then Add on the attached row / AddSeparator): every shape with header in {none,0,1,2 cells} and up to 3 rows over {separator,0,1,2 cells} with every row-building method, " +
			"plus random tables to 6x5 with text-like items (strings incl. multi-line, trailing newlines, invalid UTF-8; runes; ints; nil; Stringers that declare a height and/or width disagreeing with their text, negative and zero included); " +
			"each table is rendered under recover() by csv, html, json, markdown, texttable with every registered decoration, auto.Render for every listed style and an unknown style; " +
			"a case is one table with all its renders; non-trivial when the table has at least one column; distinct = distinct (view, outcome classes)",
		Exhaustive: "shapes (header x row-sequence up to length 3, each row by each building method) x all renderers and styles",
		Gen: func(r *RNG, tier string) []json.RawMessage {
			var out []json.RawMessage
			n2 := 0
			add := func(ts TableSpec) {
				n2++
				out = append(out, mustJSON(C09Spec{Table: ts, Shared: n2%3 == 0, Perm: r.U64() % 1000003}))
			}
			// columns of boundary widths (glyph runs, padding runs) under every decoration
			for _, w := range []int{62, 63, 64, 65, 100, 127, 128, 129, 190, 191, 192, 256, 300} {
				for _, ch := range []string{"a", "\u65e5"} {
					k := w
					if ch != "a" {
						k = w / 2
					}
					h := []ItemSpec{Str("h"), Str(strings.Repeat(ch, k))}
					add(TableSpec{Header: &h, Rows: []RowSpec{{Cells: []ItemSpec{Str("x")}}, {Sep: true}, {Cells: []ItemSpec{Str(strings.Repeat(ch, k) + "\nshort"), Str("y")}}}})
				}
			}
			maxRows := 3
			if tier == "thorough" {
				maxRows = 4
			}
			for _, how := range []int{0, 1, 2, 3} {
				how := how
				enumShapes(maxRows, 2, func(h int, rows []int) {
					if how != 0 && len(rows) == 0 {
						return
					}
					add(shapeSpec(r, h, rows, c09Item, []int{how}))
				})
			}
			n := 300
			if tier == "thorough" {
				n = 10000
			}
			for i := 0; i < n; i++ {
				add(randTable(r, 6, 5, c09Item, []int{0, 1, 2, 2, 3}))
			}
			return out
		},
		Run: func(spec json.RawMessage) CaseOut {
			sp := c09Parse(spec)
			ts := sp.Table
			probe := tabular.New()
			ts.Build(probe)
			view := extractView(probe)
			var outs []string
			type bad struct {
				Target string
				Got    Outcome
			}
			var bads []bad
			sig := ""
			classes := ""
			targets := c09Targets()
			var shared tabular.Table
			if sp.Shared {
				shared = tabular.New()
				ts.Build(shared)
				// a first round over every target on the same table; the second round is the one judged
				order := make([]int, len(targets))
				for i := range order {
					order[i] = i
				}
				pr := NewRNG(sp.Perm)
				for i := len(order) - 1; i > 0; i-- {
					j := pr.Intn(i + 1)
					order[i], order[j] = order[j], order[i]
				}
				for _, i := range order {
					tg := targets[i]
					capture(func() (string, error) { return tg.Render(shared) })
				}
			}
			for _, tg := range targets {
				t := shared
				if t == nil {
					t = tabular.New() // fresh table per render
					ts.Build(t)
				}
				o := capture(func() (string, error) { return tg.Render(t) })
				kind := map[string]int{"ok": 0, "err": 1, "panic": 2}[o.Kind]
				classes += fmt.Sprint(kind)
				s := o.Out
				if kind == 0 && tg.Code != 0 {
					s = nil // successful output is not needed by the verdict (except csv, compared with the model)
				}
				outs = append(outs, fmt.Sprintf("(%s, %s, %s)", cqNat(tg.Code), cqNat(kind), cqBytes(s)))
				if kind == 2 || (kind == 1 && len(o.Out) > 0) {
					if len(bads) < 4 {
						bads = append(bads, bad{tg.Name, o})
					}
					if sig == "" {
						sig = map[int]string{2: "panic:", 1: "text-with-error:"}[kind] + tg.Name
					}
				}
			}
			vc := view.Coq(true)
			tags := append(shapeTags(view), "classes="+classes[:5])
			if sp.Shared {
				tags = append(tags, "one-table-all-targets-twice")
			}
			for _, rw := range ts.Rows {
				if rw.How == 2 && len(rw.Cells) > 0 {
					tags = append(tags, "row-extended-after-attach")
					break
				}
			}
			return CaseOut{
				Coq:        cqPair(vc, cqList(outs)),
				Desc:       map[string]interface{}{"failing_shown": bads, "outcome_classes": classes, "sig": sig},
				Size:       ts.Size(),
				Tags:       tags,
				Key:        vc + classes,
				Nontrivial: view.NCols > 0,
			}
		},
		Shrink: func(spec json.RawMessage) []json.RawMessage {
			sp := c09Parse(spec)
			var out []json.RawMessage
			for _, c := range shrinkTable(sp.Table) {
				out = append(out, mustJSON(C09Spec{Table: c, Shared: sp.Shared, Perm: sp.Perm}))
			}
			if sp.Shared {
				out = append(out, mustJSON(C09Spec{Table: sp.Table}))
			}
			return out
		},
	})
}
