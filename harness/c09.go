package main

// C09: every renderer is total - it never panics, and failure is an error
// with no text.

import (
	"encoding/json"
	"fmt"
	"strings"

	"go.pennock.tech/tabular"
	"go.pennock.tech/tabular/auto"
	"go.pennock.tech/tabular/csv"
	"go.pennock.tech/tabular/html"
	tjson "go.pennock.tech/tabular/json"
	"go.pennock.tech/tabular/markdown"
	"go.pennock.tech/tabular/texttable"
	"go.pennock.tech/tabular/texttable/decoration"
)

// text-like items incl. ones whose declared size disagrees with their text
func c09Item(r *RNG) ItemSpec {
	switch r.Intn(10) {
	case 0:
		return ItemSpec{K: "nil"}
	case 1:
		return ItemSpec{K: "rune", R: pick(r, []int32{'x', 0x65e5, 0, -1, 0xd800})}
	case 2:
		return ItemSpec{K: "int", I: int64(r.Intn(1000)) - 5}
	case 3, 4:
		// String() plus Height() and/or TerminalCellWidth() overrides
		mask := 1 + 8*r.Intn(2) + 16*r.Intn(2)
		if r.Pct(30) {
			// other method sets: none at all (%v of the value), GoString only, Error only, combinations
			mask = pick(r, []int{0, 2, 4, 6, 3, 5, 7, 8, 16, 24, 10, 20})
		}
		s := pick(r, []string{"", "x", "one\ntwo", "a\nb\nc\n", "\x1b[1mbold\x1b[0m", "日本語", "\n"})
		return ItemSpec{K: "obj", Mask: mask, S: []byte(s), G: []byte("g:" + s), E: []byte(s + ":e"), H: pick(r, []int{-1, 0, 1, 2, 5}), W: pick(r, []int{-3, 0, 1, 2, 40})}
	default:
		return Str(pick(r, []string{"", "a", "bb", "x y", "l1\nl2", "l1\nl2\n", "\n", "\n\n", "é", "日本", "q\"r", "p|q", "<i>", "t\tb", "a\r\nb", "\xff\xfe"}))
	}
}

type c09Target struct {
	Code   int
	Name   string
	Render func(t tabular.Table) (string, error)
	Wrap   func(t tabular.Table) RenderW // the wrapper alone (kept across a build in staged mode)
}

func c09Targets() []c09Target {
	ts := []c09Target{
		{0, "csv", func(t tabular.Table) (string, error) { return csv.Wrap(t).Render() }, func(t tabular.Table) RenderW { return csv.Wrap(t) }},
		{1, "html", func(t tabular.Table) (string, error) { return html.Wrap(t).Render() }, func(t tabular.Table) RenderW { return html.Wrap(t) }},
		{2, "json", func(t tabular.Table) (string, error) { return tjson.Wrap(t).Render() }, func(t tabular.Table) RenderW { return tjson.Wrap(t) }},
		{3, "markdown", func(t tabular.Table) (string, error) { return markdown.Wrap(t).Render() }, func(t tabular.Table) RenderW { return markdown.Wrap(t) }},
		{4, "texttable", func(t tabular.Table) (string, error) { return texttable.Wrap(t).Render() }, func(t tabular.Table) RenderW { return texttable.Wrap(t) }},
	}
	code := 10
	for _, d := range decoration.RegisteredDecorationNames() {
		d := d
		ts = append(ts, c09Target{code, "texttable:" + d, func(t tabular.Table) (string, error) {
			tt := texttable.Wrap(t)
			tt.SetDecorationNamed(d)
			return tt.Render()
		}, func(t tabular.Table) RenderW {
			tt := texttable.Wrap(t)
			tt.SetDecorationNamed(d)
			return tt
		}})
		code++
	}
	code = 30
	for _, s := range auto.ListStyles() {
		s := s
		ts = append(ts, c09Target{code, "auto:" + s, func(t tabular.Table) (string, error) { return auto.Render(t, s) },
			func(t tabular.Table) RenderW { return auto.Wrap(t, s) }})
		code++
	}
	ts = append(ts, c09Target{60, "auto:no-such-style", func(t tabular.Table) (string, error) { return auto.Render(t, "no-such-style") },
		func(t tabular.Table) RenderW { return auto.Wrap(t, "no-such-style") }})
	// styles an application writes by hand and sets WITHOUT Populate: any
	// subset of the glyph fields may be empty (SetDecoration takes any value)
	code = 70
	for _, hd := range c09HandDecorations() {
		hd := hd
		ts = append(ts, c09Target{code, "texttable:hand-written:" + hd.name, func(t tabular.Table) (string, error) {
			tt := texttable.Wrap(t)
			tt.SetDecoration(hd.d)
			return tt.Render()
		}, func(t tabular.Table) RenderW {
			tt := texttable.Wrap(t)
			tt.SetDecoration(hd.d)
			return tt
		}})
		code++
	}
	return ts
}

type c09Hand struct {
	name string
	d    decoration.Decoration
}

// c09HandDecorations: hand-written decorations that were never Populate()d -
// single fields, the vertical pieces in every combination, the horizontal
// pieces alone, everything but one field.
func c09HandDecorations() []c09Hand {
	var out []c09Hand
	for m := 1; m < 8; m++ {
		var d decoration.Decoration
		name := "v"
		if m&1 != 0 {
			d.VHeader = "#"
			name += "H"
		}
		if m&2 != 0 {
			d.VBodyBorder = "!"
			name += "B"
		}
		if m&4 != 0 {
			d.VBodyInner = "|"
			name += "I"
		}
		out = append(out, c09Hand{name, d})
	}
	out = append(out,
		c09Hand{"horizontal-only", decoration.Decoration{Horizontal: "-", HOuter: "=", HRule: "-"}},
		c09Hand{"corners-only", decoration.Decoration{TopLeft: "/", TopRight: "\\", BottomLeft: "\\", BottomRight: "/"}},
		c09Hand{"crosses-only", decoration.Decoration{CrossPiece: "+", HTopDown: "+", HBCross: "+", BTopDown: "+", BBottomUp: "+"}},
		c09Hand{"placeholders-only", decoration.Decoration{Horizontal: "-", Vertical: "|", CrossPiece: "+"}},
	)
	full := decoration.Decoration{Horizontal: "-", Vertical: "|", CrossPiece: "+"}
	full.Populate()
	noInnerRule := full
	noInnerRule.VBodyBorder = ""
	out = append(out, c09Hand{"populated-then-border-cleared", noInnerRule})
	noRight := full
	noRight.VHeader = ""
	noRight.HOuter = ""
	out = append(out, c09Hand{"populated-then-header-bar-and-outer-cleared", noRight})
	return out
}

// C09Spec: a table and how it is rendered: a fresh table for every target, or
// ONE table rendered under every target in turn (twice over), which is how an
// application offering a choice of styles behaves.
type C09Spec struct {
	Table  TableSpec `json:"table"`
	Shared bool      `json:"shared,omitempty"`
	Perm   uint64    `json:"perm,omitempty"` // order of the first round over the targets
	// Staged: additionally, for every target, ONE wrapper is made around the
	// still empty table and rendered after every row that joins it (and before
	// and after a second AddHeaders): a long-lived wrapper of a growing table.
	Staged bool `json:"staged,omitempty"`
	// Grow (staged mode): after the build the table is widened that many times
	// under the same wrappers (header extended by one name, a wider row, an
	// attached row extended), with a render after every step.
	Grow int `json:"grow,omitempty"`
	// TwoTables: the first pre-built row is also attached to a second table and
	// then extended by one cell (the second table learns of the new column, the
	// first does not: its row is now longer than its column count).
	TwoTables bool `json:"two_tables,omitempty"`
	// Cbs: property callbacks the application registers on the table, its
	// columns, rows and cells at given points of the build (c09_callbacks.go).
	Cbs []C09Cb `json:"cbs,omitempty"`
	// ContentOnly: a table of the content streams (c09_r6.go): many cells, what
	// matters is their text; the build is not also shipped as a history of the
	// table machine (two more copies of every text in the Coq term).
	ContentOnly bool `json:"content_only,omitempty"`
}

// c09Build builds the spec's table through the public API (with the
// registrations of sp.Cbs at their turns; only != nil: exactly those that
// were made on the probe table).
func c09Build(sp C09Spec, t tabular.Table, only []bool) *c09CbRun {
	cr := c09BuildHook(sp, t, only, nil)
	c09TwoTables(sp, t)
	return cr
}

// c09BuildHook: the building calls alone, hook called after every body row
// (when non-nil).
func c09BuildHook(sp C09Spec, t tabular.Table, only []bool, hook func()) *c09CbRun {
	if len(sp.Cbs) > 0 {
		return c09BuildCb(sp.Table, sp.Cbs, only, t, hook)
	}
	if hook == nil {
		sp.Table.Build(t)
		return nil
	}
	every := sp.Table
	every.Stages = nil
	for i := range sp.Table.Rows {
		every.Stages = append(every.Stages, i)
	}
	every.BuildStaged(t, hook)
	return nil
}

func c09TwoTables(sp C09Spec, t tabular.Table) {
	if sp.TwoTables {
		for _, row := range t.AllRows() {
			if row.IsSeparator() {
				continue
			}
			other := tabular.New()
			other.AddRow(row)
			row.Add(tabular.NewCell("extra"))
			break
		}
	}
}

func c09Parse(spec json.RawMessage) C09Spec {
	var probe map[string]json.RawMessage
	var sp C09Spec
	if err := json.Unmarshal(spec, &probe); err == nil {
		if _, ok := probe["table"]; ok {
			if err := json.Unmarshal(spec, &sp); err != nil {
				panic(err)
			}
			return sp
		}
	}
	if err := json.Unmarshal(spec, &sp.Table); err != nil { // corpus files hold a bare TableSpec
		panic(err)
	}
	return sp
}

func init() {
	register(&Prop{
		ID:       "C09",
		Imports:  "From Tab Require Import Run.Glue Run.C09Run.",
		CaseType: "c09case",
		CaseFn:   "C09_case",
		ModelFn:  "C09_model",
		Rule: "tables built through the public API only (AddHeaders at any point / AddRowItems / NewRow+Add+AddRow / NewRowSizedFor / AppendNewRow then Add on the attached row / AddSeparator): every shape with header in {none,0,1,2 cells} and up to 3 rows over {separator,0,1,2 cells} with every row-building method, " +
			"plus random tables to 6x5 with text-like items (strings incl. multi-line, trailing newlines, invalid UTF-8; runes; ints; nil; Stringers that declare a height and/or width disagreeing with their text, negative and zero included); " +
			"a second, shorter or empty header; tables reaching 9..47 columns by the header, by one row or cell by cell; fields of 15..129 escapable characters; a row also attached to a second table and then extended (longer than the column count); " +
			"each table is rendered under recover() by csv, html, json, markdown, texttable with every registered decoration, auto.Render for every listed style and an unknown style - on a fresh table each, on ONE table under every target twice (a third of the cases), and (a quarter) through ONE wrapper per target made around the empty table and rendered after every row, before and after a second AddHeaders, and after up to 3 further widenings (header extended by one name, a wider row, an attached row extended); " +
			"tables carrying property callbacks of the application (228 cases in the quick tier): registered on the table, a wrapper standing for it, columns (0 included), rows (separators included), cells and header cells, for add time and the three render times, aimed at the owner itself / its cells / its rows, before, between and after the building calls; the registered values are of 14 Go types, comparable and not (empty struct, pointer, struct value, function behind an adapter type, structs holding a slice / a map / a func / an interface holding a slice, named slice / map / array-of-func / string / chan types, a struct holding NaN) - for every type x every time two callbacks of the type in every list of a small table at once; three of a type plus the very same value again in the per-cell lists; one of every type in one list; random tables (items of uncomparable types included) with 1-12 random registrations; a callback logs, then sets a property (values of comparable and uncomparable types), reads its target, aligns its column, or returns an error (of a comparable or an uncomparable type); the build is also shipped as a history of the callback machine (Model/Callbacks.v) whose refusals, add-time log and one-pass render log must equal the logs of the real build and of every render; " +
			"a case is one table with all its renders; non-trivial when the table has at least one column; distinct = distinct (view, outcome classes, callback history)",
		Exhaustive: "shapes (header x row-sequence up to length 3, each row by each building method) x all renderers and styles",
		Gen: func(r *RNG, tier string) []json.RawMessage {
			var out []json.RawMessage
			n2 := 0
			add := func(ts TableSpec) {
				n2++
				out = append(out, mustJSON(C09Spec{Table: ts, Shared: n2%3 == 0, Perm: r.U64() % 1000003, Staged: n2%4 == 1, Grow: n2 % 3, TwoTables: n2%7 == 2}))
			}
			// a second, shorter (or empty) header: the table stays as wide as it was
			for _, k := range []int{0, 1, 2} {
				h := []ItemSpec{Str("a"), Str("b"), Str("c")}
				h2 := h[:k]
				for _, rows := range [][]RowSpec{nil, {{Cells: []ItemSpec{Str("1")}}}, {{Cells: []ItemSpec{Str("1")}}, {Sep: true}, {Cells: []ItemSpec{Str("x"), Str("y")}}}} {
					add(TableSpec{Header: &h, Rows: rows, Header2: &h2})
				}
			}
			// tables that reach 9..47 columns (by the header, by one row, cell by cell)
			for _, k := range []int{9, 10, 11, 12, 21, 22, 23, 45, 46, 47} {
				for how := 0; how < 3; how++ {
					add(wideSpec(k, how, c09Item, r))
				}
			}
			// fields made (almost) only of characters that an escaper expands, at the sizes of small scratch buffers, alone and after a longer plain field
			for _, n := range []int{15, 16, 17, 31, 32, 33, 63, 64, 65, 127, 128, 129} {
				for _, ch := range []string{`"`, "|", "<", "\n"} {
					dense := strings.Repeat(ch, n)
					h := []ItemSpec{Str("h"), Str(dense[:n/2] + "x")}
					add(TableSpec{Header: &h, Rows: []RowSpec{{Cells: []ItemSpec{Str(dense), Str("y")}}, {Cells: []ItemSpec{Str(strings.Repeat("p", n)), Str(strings.Repeat(ch, n+1))}}, {Cells: []ItemSpec{Str(ch + dense), Str(dense[len(ch):])}}}})
				}
			}
			// rows that grow by one column each, under a long-lived wrapper
			{
				var grow TableSpec
				for k := 1; k <= 9; k++ {
					cs := make([]ItemSpec, k)
					for i := range cs {
						cs[i] = c09Item(r)
					}
					grow.Rows = append(grow.Rows, RowSpec{How: k % 4, Cells: cs})
				}
				out = append(out, mustJSON(C09Spec{Table: grow, Staged: true, Grow: 2}))
				h := []ItemSpec{Str("h")}
				grow.Header = &h
				grow.HeaderAt = 4
				out = append(out, mustJSON(C09Spec{Table: grow, Staged: true, Grow: 3}))
				h2 := []ItemSpec{Str("name"), Str("size")}
				out = append(out, mustJSON(C09Spec{Table: TableSpec{Header: &h2, Rows: []RowSpec{{Cells: []ItemSpec{Str("a"), Str("1")}}}}, Staged: true, Grow: 3}))
			}
			// columns of boundary widths (glyph runs, padding runs) under every decoration
			for _, w := range []int{62, 63, 64, 65, 100, 127, 128, 129, 190, 191, 192, 256, 300} {
				for _, ch := range []string{"a", "\u65e5"} {
					k := w
					if ch != "a" {
						k = w / 2
					}
					h := []ItemSpec{Str("h"), Str(strings.Repeat(ch, k))}
					add(TableSpec{Header: &h, Rows: []RowSpec{{Cells: []ItemSpec{Str("x")}}, {Sep: true}, {Cells: []ItemSpec{Str(strings.Repeat(ch, k) + "\nshort"), Str("y")}}}})
				}
			}
			maxRows := 3
			if tier == "thorough" {
				maxRows = 4
			}
			for _, how := range []int{0, 1, 2, 3} {
				how := how
				enumShapes(maxRows, 2, func(h int, rows []int) {
					if how != 0 && len(rows) == 0 {
						return
					}
					add(shapeSpec(r, h, rows, c09Item, []int{how}))
				})
			}
			n := 300
			if tier == "thorough" {
				n = 10000
			}
			for i := 0; i < n; i++ {
				ts := randTable(r, 6, 5, c09Item, []int{0, 1, 2, 2, 3})
				enrichSpec(r, &ts, c09Item)
				add(ts)
			}
			// tables carrying property callbacks of the application (c09_callbacks.go)
			for _, sp := range c09GenCallbacks(r, tier) {
				out = append(out, mustJSON(sp))
			}
			// the byte content of the texts (c09_r6.go); last, so that the streams above keep their draws
			for _, sp := range c09GenTexts(r, tier) {
				out = append(out, mustJSON(sp))
			}
			return out
		},
		Run: func(spec json.RawMessage) CaseOut {
			sp := c09Parse(spec)
			ts := sp.Table
			probe := tabular.New()
			var probeCbs *c09CbRun
			c09CbLog = nil
			if o := capture(func() (string, error) { probeCbs = c09Build(sp, probe, nil); return "", nil }); o.Kind == "panic" {
				if len(sp.Cbs) > 0 {
					// registering a callback, or running the add-time callbacks, panicked where the callback
					// machine of the model runs through: the case is set aside as a broken correspondence
					panic("building a table with registered callbacks panicked: " + o.Panic)
				}
				// the building calls themselves panicked: there is no table to render (not this property's concern)
				return CaseOut{Coq: "(mkView 0%nat None [] [None] [None], [], None, None, None)", Desc: map[string]interface{}{"skipped": "build panicked: " + o.Panic},
					Size: ts.Size(), Tags: []string{"skipped=build-panicked"}, Key: string(spec), Nontrivial: false}
			}
			addLog := append([]int{}, c09CbLog...)
			var only []bool
			if probeCbs != nil {
				only = probeCbs.Applied
			}
			// the distinct render-time logs of the judged renders, each with an outcome class that produced it
			var traces []string
			traceSeen := map[string]bool{}
			noteTrace := func(kind int) {
				if probeCbs == nil {
					return
				}
				term := fmt.Sprintf("(%s, %s)", cqNat(kind), cqNats(c09CbLog))
				if !traceSeen[term] {
					traceSeen[term] = true
					traces = append(traces, term)
				}
			}
			var view View
			readBack := true
			if o := capture(func() (string, error) { view = extractView(probe); return "", nil }); o.Kind == "panic" {
				view = ts.SpecView() // reading the table back panicked (the renders below will show why)
				readBack = false
			}
			var csvOut Outcome
			var outs []string
			type bad struct {
				Target string
				Got    Outcome
			}
			var bads []bad
			sig := ""
			classes := ""
			targets := c09Targets()
			var shared tabular.Table
			if sp.Shared {
				shared = tabular.New()
				c09Build(sp, shared, only)
				// a first round over every target on the same table; the second round is the one judged
				order := make([]int, len(targets))
				for i := range order {
					order[i] = i
				}
				pr := NewRNG(sp.Perm)
				for i := len(order) - 1; i > 0; i-- {
					j := pr.Intn(i + 1)
					order[i], order[j] = order[j], order[i]
				}
				for _, i := range order {
					tg := targets[i]
					capture(func() (string, error) { return tg.Render(shared) })
				}
			}
			for _, tg := range targets {
				t := shared
				if t == nil {
					t = tabular.New() // fresh table per render
					c09Build(sp, t, only)
				}
				c09CbLog = nil
				o := capture(func() (string, error) { return tg.Render(t) })
				if tg.Code == 0 {
					csvOut = o
				}
				kind := map[string]int{"ok": 0, "err": 1, "panic": 2}[o.Kind]
				noteTrace(kind)
				classes += fmt.Sprint(kind)
				s := o.Out
				if kind == 0 && tg.Code != 0 {
					s = nil // successful output is not needed by the verdict (except csv, compared with the model)
				}
				outs = append(outs, fmt.Sprintf("(%s, %s, %s)", cqNat(tg.Code), cqNat(kind), cqBytes(s)))
				if kind == 2 || (kind == 1 && len(o.Out) > 0) {
					if len(bads) < 4 {
						bads = append(bads, bad{tg.Name, o})
					}
					if sig == "" {
						sig = map[int]string{2: "panic:", 1: "text-with-error:"}[kind] + tg.Name
					}
				}
			}
			if sp.Staged {
				for _, tg := range targets {
					tg := tg
					t := tabular.New()
					var w RenderW
					if mk := capture(func() (string, error) { w = tg.Wrap(t); return "", nil }); mk.Kind != "ok" || w == nil {
						continue
					}
					stage := func() {
						o := capture(w.Render)
						kind := map[string]int{"ok": 0, "err": 1, "panic": 2}[o.Kind]
						if kind == 0 {
							o.Out = nil
						}
						if kind != 0 { // a successful intermediate render needs no verdict
							outs = append(outs, fmt.Sprintf("(%s, %s, %s)", cqNat(100+tg.Code), cqNat(kind), cqBytes(o.Out)))
						}
						if kind == 2 || (kind == 1 && len(o.Out) > 0) {
							if len(bads) < 4 {
								bads = append(bads, bad{tg.Name + " (long-lived wrapper)", o})
							}
							if sig == "" {
								sig = map[int]string{2: "panic:", 1: "text-with-error:"}[kind] + tg.Name
							}
						}
					}
					stage()
					c09BuildHook(sp, t, only, stage)
					stage()
					// the table keeps growing under the same wrapper: the header is
					// extended (same leading names, one more), a wider row arrives,
					// an attached row is extended - a render after each step
					for g := 0; g < sp.Grow; g++ {
						if h := t.Headers(); h != nil {
							names := make([]interface{}, 0, len(h)+1)
							for i := range h {
								names = append(names, h[i].Item())
							}
							t.AddHeaders(append(names, fmt.Sprintf("grown%d", g))...)
							stage()
						}
						wide := make([]interface{}, t.NColumns()+1)
						for i := range wide {
							wide[i] = fmt.Sprintf("w%d.%d", g, i)
						}
						t.AddRowItems(wide...)
						stage()
						for _, row := range t.AllRows() {
							if !row.IsSeparator() {
								for want := t.NColumns() + 1; len(row.Cells()) < want; {
									row.Add(tabular.NewCell("x"))
								}
								break
							}
						}
						stage()
					}
				}
			}
			vc := view.Coq(true)
			tags := append(shapeTags(view), "classes="+classes[:5])
			// the pipeline case: the same build as a history of the table machine,
			// judged against the view read back from the real table
			pipe := "None"
			if readBack && !sp.TwoTables && !sp.ContentOnly {
				if pterm, ok := pipeCase(ts, view, csvOut); ok {
					pipe = cqSome(pterm)
					tags = append(tags, "pipeline-case")
				}
			}
			// ... and the same table on a real table of its own, some of whose mutable
			// items are then changed in place and some of the cells holding them updated
			pipeMut := "None"
			if !sp.TwoTables && !sp.ContentOnly {
				if mterm, ok := pipeMutCase(ts, uint64(len(spec))*2654435761+uint64(len(outs))); ok {
					pipeMut = cqSome(mterm)
					tags = append(tags, "pipeline-mutation-case")
				}
			}
			cbTerm := "None"
			cbKey := ""
			if probeCbs != nil {
				tags = append(tags, "callbacks-registered")
				perList := map[string]int{}
				for i, cb := range probeCbs.cbs {
					if !probeCbs.Applied[i] || probeCbs.Refused[i] {
						continue
					}
					tags = append(tags, "callback-type="+cb.Kind)
					ow := cb.Owner
					if ow == "wrapper" {
						ow = "table"
					}
					perList[fmt.Sprintf("%s/%d/%d/%d/%d/%d/%s", ow, cb.Row, cb.Col, cb.Time, cb.Target, 0, cb.Kind)]++
				}
				for _, n := range perList {
					if n >= 2 {
						tags = append(tags, "several-callbacks-of-one-type-in-one-list")
						break
					}
				}
				tags = dedup(tags)
				if !sp.TwoTables {
					if ops, refused, ok := c09CbHistory(ts, probeCbs); ok {
						cbTerm = cqSome(fmt.Sprintf("(%s, %s, %s, %s)", cqList(ops), cqList(refused), cqNats(addLog), cqList(traces)))
						cbKey = cqList(ops)
						tags = append(tags, "callback-machine-case")
					}
				}
			}
			if sp.Staged {
				tags = append(tags, "long-lived-wrappers")
			}
			if sp.TwoTables {
				tags = append(tags, "row-in-two-tables")
			}
			if view.NCols >= 10 {
				tags = append(tags, "ten-or-more-columns")
			}
			if sp.Shared {
				tags = append(tags, "one-table-all-targets-twice")
			}
			for _, rw := range ts.Rows {
				if rw.How == 2 && len(rw.Cells) > 0 {
					tags = append(tags, "row-extended-after-attach")
					break
				}
			}
			return CaseOut{
				Coq:        "(" + vc + ", " + cqList(outs) + ", " + pipe + ", " + cbTerm + ", " + pipeMut + ")",
				Desc:       map[string]interface{}{"failing_shown": bads, "outcome_classes": classes, "sig": sig},
				Size:       ts.Size() + c09CbsSize(sp.Cbs),
				Tags:       tags,
				Key:        vc + classes + cbKey,
				Nontrivial: view.NCols > 0,
			}
		},
		Shrink: func(spec json.RawMessage) []json.RawMessage {
			sp := c09Parse(spec)
			var out []json.RawMessage
			if big := c09ShrinkBig(sp); big != nil { // large tables: halves first (c09_r6.go)
				for _, c := range big {
					out = append(out, mustJSON(c))
				}
				return out
			}
			with := func(f func(c *C09Spec)) {
				c := sp
				f(&c)
				out = append(out, mustJSON(c))
			}
			for _, cbs := range c09ShrinkCbs(sp.Cbs) {
				cbs := cbs
				with(func(c *C09Spec) { c.Cbs = cbs })
			}
			for _, t := range shrinkTable(sp.Table) {
				t := t
				with(func(c *C09Spec) { c.Table = t })
			}
			if sp.Shared {
				with(func(c *C09Spec) { c.Shared, c.Perm = false, 0 })
			}
			if sp.Staged {
				with(func(c *C09Spec) { c.Staged, c.Grow = false, 0 })
				if sp.Grow > 0 {
					with(func(c *C09Spec) { c.Grow-- })
				}
			}
			if sp.TwoTables {
				with(func(c *C09Spec) { c.TwoTables = false })
			}
			return out
		},
	})
}
