package main

// C07, render histories in a fresh process ("jx" cases).
//
// A case is a short history of JSON renders - several tables, or one table
// rendered again after it grew - that is executed in a CHILD PROCESS of its
// own (this binary re-executed in mode "C07child"), so that the case is the
// whole history of the library in that process: whatever the library remembers
// between renders (per type, per value, per wrapper, in package-level state) is
// part of the case, a failing case is self-contained, and it replays.  Every
// render of the history is judged on its own (Run/C07Run.v: CMany) against the
// view computed from the spec alone.
//
// The tables are built from an item language wider than the shared ItemSpec:
// every integer and float kind of Go with boundary and non-finite values,
// named types, pointers (nil ones too), floats nested in slices / maps /
// structs / interfaces, structs whose encoding is an empty object or not
// depending on the VALUE (omitempty fields, nil-able members, maps), custom
// MarshalJSON / MarshalText methods whose result (an object, {}, another kind
// of value, an error, ill-formed bytes) depends on the value, json.Number,
// json.RawMessage, types encoding/json refuses.  Rows include zero-value
// tabular.Row values handed to AddRow (no cell slice at all, yet not
// separators) and the caller trying to add cells to those and to separators.

import (
	"bytes"
	"context"
	"encoding/json"
	"errors"
	"fmt"
	"math"
	"os"
	"os/exec"
	"strconv"
	"strings"
	"time"

	"go.pennock.tech/tabular"
	tjson "go.pennock.tech/tabular/json"
	"go.pennock.tech/tabular/properties"
)

// ---------------------------------------------------------------- item types

type jxInt int
type jxU64 uint64
type jxBool bool
type jxF64 float64
type jxF32 float32

type jxFStruct struct {
	X float64 `json:"x"`
	Y string  `json:"y,omitempty"`
}

// a Stringer with an exported float field: its text is what String() says
type jxFStringer struct {
	F float64
	s string
}

func (x jxFStringer) String() string { return x.s }

type jxAny struct {
	V interface{} `json:"v"`
}

// every field optional: the zero value encodes as {}
type jxOpt struct {
	A string `json:"a,omitempty"`
	B string `json:"b,omitempty"`
	N int    `json:"n,omitempty"`
}

// the same with a text form of its own
type jxOptS struct {
	A string `json:"a,omitempty"`
	N int    `json:"n,omitempty"`
}

func (o jxOptS) String() string { return "opt:" + o.A }

type jxOuter struct {
	In   *jxOpt   `json:"in,omitempty"`
	Tags []string `json:"tags,omitempty"`
}

func jxMarshalBy(mode int, text string) ([]byte, error) {
	switch mode {
	case 0:
		return []byte("{}"), nil
	case 1:
		b, _ := json.Marshal(text)
		return []byte(`{"v":` + string(b) + `}`), nil
	case 2:
		return nil, errors.New("jxMarsh: this value has no JSON form")
	case 3:
		return []byte("{"), nil // ill-formed: json.Marshal reports an error
	case 4:
		return []byte(" { } "), nil // json.Marshal compacts it to {}
	case 5:
		return []byte("null"), nil
	case 6:
		return []byte("[]"), nil
	case 7:
		return json.Marshal(text)
	default:
		return []byte(`{"a":{}}`), nil
	}
}

// custom encoders whose result depends on the value, not on the type
type jxMarsh struct {
	mode int
	text string
}

func (m jxMarsh) String() string               { return m.text }
func (m jxMarsh) MarshalJSON() ([]byte, error) { return jxMarshalBy(m.mode, m.text) }

type jxPMarsh struct {
	mode int
	text string
}

func (m *jxPMarsh) String() string               { return m.text }
func (m *jxPMarsh) MarshalJSON() ([]byte, error) { return jxMarshalBy(m.mode, m.text) }

type jxTextM struct {
	text string
	fail bool
}

func (m jxTextM) MarshalText() ([]byte, error) {
	if m.fail {
		return nil, errors.New("jxTextM: no text form")
	}
	return []byte(m.text), nil
}

type jxCyc struct {
	Next *jxCyc `json:"next"`
}

// jxItem describes a value to store in a cell (strings are valid UTF-8).
//
//	nil, str S, bool I (T 1: a named bool type)
//	int   I, as Go type T: 0 int, 1 int8, 2 int16, 3 int32 (= rune), 4 int64, 5 a named int type, 6 *int, 7 a nil *int
//	uint  U, as Go type T: 0 uint, 1 uint8, 2 uint16, 3 uint32, 4 uint64, 5 uintptr, 6 a named uint64 type
//	float F (strconv syntax, NaN / +Inf / -Inf included), as T: 0 float64, 1 float32, 2 named float64, 3 named float32,
//	      4 *float64, 5 []float64{1, F}, 6 map[string]float64{"k": F}, 7 struct{X float64; Y string}{F, S}, 8 []interface{}{"a", F},
//	      9 pointer to that struct, 10 a Stringer (text S) with an exported float field F, 11 struct{V interface{}}{F}
//	opt   a value whose encoding is {} or not depending on its content (A = S, N = I; "empty" is S == "" && I == 0), as T:
//	      0 struct with omitempty fields, 1 pointer to one, 2 map[string]int of I entries, 3 struct with a nil-able member,
//	      4 omitempty struct with a String method, 5 pointer to one, 6 map[string]interface{} of I entries
//	marsh a MarshalJSON method answering by mode T (0 {}, 1 {"v":S}, 2 an error, 3 ill-formed bytes, 4 " { } ", 5 null, 6 [],
//	      7 the string S, 8 {"a":{}}) with text S; P: pointer receiver
//	tmarsh a MarshalText method giving S (T 1: an error)
//	num   json.Number(S); raw json.RawMessage(S); bytes []byte(S)
//	stringer  a Stringer without exported fields (always {}; text S); estruct struct{}{}
//	time  time.Unix(I, 0).UTC() (a year beyond 9999 has no JSON form)
//	bad   what encoding/json refuses by type or shape, T: 0 chan, 1 func, 2 complex128, 3 a pointer cycle, 4 map[float64]int, 5 map[bool]int
type jxItem struct {
	K string `json:"k"`
	S string `json:"s,omitempty"`
	I int64  `json:"i,omitempty"`
	U uint64 `json:"u,omitempty"`
	F string `json:"f,omitempty"`
	T int    `json:"t,omitempty"`
	P bool   `json:"p,omitempty"`
}

func (it jxItem) float() float64 {
	if it.F == "" {
		return 0
	}
	f, err := strconv.ParseFloat(it.F, 64)
	if err != nil && !errors.Is(err, strconv.ErrRange) {
		panic("jxItem: bad float " + it.F)
	}
	return f
}

func (it jxItem) optEmpty() bool { return it.S == "" && it.I == 0 }

func (it jxItem) Make() interface{} {
	switch it.K {
	case "nil":
		return nil
	case "str":
		return it.S
	case "bool":
		if it.T == 1 {
			return jxBool(it.I != 0)
		}
		return it.I != 0
	case "int":
		switch it.T {
		case 1:
			return int8(it.I)
		case 2:
			return int16(it.I)
		case 3:
			return int32(it.I)
		case 4:
			return it.I
		case 5:
			return jxInt(it.I)
		case 6:
			v := int(it.I)
			return &v
		case 7:
			return (*int)(nil)
		}
		return int(it.I)
	case "uint":
		switch it.T {
		case 1:
			return uint8(it.U)
		case 2:
			return uint16(it.U)
		case 3:
			return uint32(it.U)
		case 4:
			return it.U
		case 5:
			return uintptr(it.U)
		case 6:
			return jxU64(it.U)
		}
		return uint(it.U)
	case "float":
		f := it.float()
		switch it.T {
		case 1:
			return float32(f)
		case 2:
			return jxF64(f)
		case 3:
			return jxF32(f)
		case 4:
			return &f
		case 5:
			return []float64{1, f}
		case 6:
			return map[string]float64{"k": f}
		case 7:
			return jxFStruct{X: f, Y: it.S}
		case 8:
			return []interface{}{"a", f}
		case 9:
			return &jxFStruct{X: f, Y: it.S}
		case 10:
			return jxFStringer{F: f, s: it.S}
		case 11:
			return jxAny{V: f}
		}
		return f
	case "opt":
		switch it.T {
		case 1:
			return &jxOpt{A: it.S, N: int(it.I)}
		case 2:
			m := map[string]int{}
			for k := 0; k < int(it.I); k++ {
				m[fmt.Sprintf("k%d", k)] = k
			}
			return m
		case 3:
			if it.optEmpty() {
				return jxOuter{}
			}
			return jxOuter{In: &jxOpt{A: it.S, N: int(it.I)}}
		case 4:
			return jxOptS{A: it.S, N: int(it.I)}
		case 5:
			return &jxOptS{A: it.S, N: int(it.I)}
		case 6:
			m := map[string]interface{}{}
			for k := 0; k < int(it.I); k++ {
				m[fmt.Sprintf("k%d", k)] = it.S
			}
			return m
		}
		return jxOpt{A: it.S, N: int(it.I)}
	case "marsh":
		if it.P {
			return &jxPMarsh{mode: it.T, text: it.S}
		}
		return jxMarsh{mode: it.T, text: it.S}
	case "tmarsh":
		return jxTextM{text: it.S, fail: it.T == 1}
	case "num":
		return json.Number(it.S)
	case "raw":
		return json.RawMessage(it.S)
	case "bytes":
		return []byte(it.S)
	case "stringer":
		return valStringer{it.S}
	case "estruct":
		return struct{}{}
	case "time":
		return time.Unix(it.I, 0).UTC()
	case "bad":
		switch it.T {
		case 1:
			return func() {}
		case 2:
			return complex(1, 2)
		case 3:
			c := &jxCyc{}
			c.Next = c
			return c
		case 4:
			return map[float64]int{1.5: 1}
		case 5:
			return map[bool]int{true: 1}
		}
		return sharedChan
	}
	panic("jxItem: unknown kind " + it.K)
}

// jxDocumentedText: the documented text form of an item (C01), decided by Go's
// own type assertions - never asked of the table under test
func jxDocumentedText(item interface{}) string {
	switch x := item.(type) {
	case nil:
		return ""
	case string:
		return x
	case rune:
		return string(x)
	case fmt.Stringer:
		return x.String()
	case fmt.GoStringer:
		return x.GoString()
	case error:
		return x.Error()
	}
	return fmt.Sprintf("%v", item)
}

// jxCell: what a renderer must see of a cell holding this item; the encoding is
// encoding/json's own answer for the item (None when it refuses)
func (it jxItem) cell() VCell {
	item := it.Make()
	text := jxDocumentedText(item)
	vc := VCell{Text: text, Empty: text == "", H: 1}
	if b, err := json.Marshal(item); err == nil {
		s := string(b)
		vc.JSON = &s
	}
	return vc
}

// ---------------------------------------------------------------- specs

// jxRow: K "row" (How 0 AddRowItems, 1 NewRow+Add+AddRow, 2 AppendNewRow then
// Add, 3 NewRowSizedFor+Add+AddRow), "sep" (AddSeparator), "zero" (a zero-value
// tabular.Row handed to AddRow: How%3 = 0 new(tabular.Row), 1 &tabular.Row{},
// 2 a declared variable).  Cells of a "sep" / "zero" row are cells the caller
// tries to Add to it (How/3 = 1: before AddRow); the library refuses them (the
// row has no cell slice), so the row stays what it was.
type jxRow struct {
	K     string   `json:"k"`
	How   int      `json:"how,omitempty"`
	Cells []jxItem `json:"cells,omitempty"`
}

// jxTable: one step of the history: a table is built (or, Cont, the previous
// step's table is extended - same table, same wrapper) and rendered.  Via:
// 0 json.Render(t), 1 json.Wrap(t).Render(), 2 Render() of the wrapper made
// before the first building call, 3 that wrapper's RenderTo into a plain
// collecting writer.  Skip: column -> 1 true, 2 false, 3 non-bool, set after the rows.
type jxTable struct {
	Hdr   []string    `json:"hdr,omitempty"`
	NoHdr bool        `json:"no_hdr,omitempty"` // no AddHeaders call in this step
	Rows  []jxRow     `json:"rows"`
	Skip  map[int]int `json:"skip,omitempty"`
	Via   int         `json:"via,omitempty"`
	Cont  bool        `json:"cont,omitempty"`
}

type jxSpec struct {
	Jx []jxTable `json:"jx"`
}

func (js jxSpec) normalise() jxSpec {
	if len(js.Jx) > 0 && js.Jx[0].Cont {
		c := js.clone()
		c.Jx[0].Cont = false
		return c
	}
	return js
}

func (js jxSpec) clone() jxSpec {
	var c jxSpec
	if err := json.Unmarshal(mustJSON(js), &c); err != nil {
		panic(err)
	}
	return c
}

// jxObs: what one render of the history returned
type jxObs struct {
	Kind    string `json:"kind"` // ok | err | panic
	Out     []byte `json:"out,omitempty"`
	ErrS    string `json:"err,omitempty"`
	Panic   string `json:"panic,omitempty"`
	ErrText []byte `json:"err_text,omitempty"` // text Render returned together with an error
}

type jxChildOut struct {
	Obs   []jxObs `json:"obs"`
	Crash string  `json:"crash,omitempty"` // a panic outside the observed renders (building calls)
}

var jxSkipVals = map[int]interface{}{1: true, 2: false, 3: "yes"}

// execute runs the history on the real library through the public API.
func (js jxSpec) execute() []jxObs {
	var obs []jxObs
	var t *tabular.ATable
	var w *tjson.JSONTable
	for _, tb := range js.Jx {
		if !tb.Cont || t == nil {
			t = tabular.New()
			w = tjson.Wrap(t)
		}
		if !tb.NoHdr {
			items := make([]interface{}, len(tb.Hdr))
			for i, s := range tb.Hdr {
				items[i] = s
			}
			t.AddHeaders(items...)
		}
		for _, r := range tb.Rows {
			switch r.K {
			case "sep":
				t.AddSeparator()
				if len(r.Cells) > 0 {
					rows := t.AllRows()
					for _, it := range r.Cells {
						rows[len(rows)-1].Add(tabular.NewCell(it.Make()))
					}
				}
			case "zero":
				var row *tabular.Row
				switch r.How % 3 {
				case 0:
					row = new(tabular.Row)
				case 1:
					row = &tabular.Row{}
				default:
					var v tabular.Row
					row = &v
				}
				if r.How/3 == 1 {
					for _, it := range r.Cells {
						row.Add(tabular.NewCell(it.Make()))
					}
					t.AddRow(row)
				} else {
					t.AddRow(row)
					for _, it := range r.Cells {
						row.Add(tabular.NewCell(it.Make()))
					}
				}
			default:
				items := make([]interface{}, len(r.Cells))
				for i, it := range r.Cells {
					items[i] = it.Make()
				}
				switch r.How {
				case 1, 3:
					var row *tabular.Row
					if r.How == 1 {
						row = tabular.NewRow()
					} else {
						row = t.NewRowSizedFor()
					}
					for _, it := range items {
						row.Add(tabular.NewCell(it))
					}
					t.AddRow(row)
				case 2:
					row := t.AppendNewRow()
					for _, it := range items {
						row.Add(tabular.NewCell(it))
					}
				default:
					t.AddRowItems(items...)
				}
			}
		}
		for c, s := range tb.Skip {
			if col := t.Column(c); col != nil {
				col.SetProperty(properties.Skipable, jxSkipVals[s])
			}
		}
		var o Outcome
		toWriter := false
		switch tb.Via {
		case 1:
			o = capture(func() (string, error) { return tjson.Wrap(t).Render() })
		case 2:
			o = capture(w.Render)
		case 3:
			toWriter = true
			cw := &collectWriter{failAt: -1}
			o = capture(func() (string, error) {
				if err := w.RenderTo(cw); err != nil {
					return "", err
				}
				return string(cw.acc), nil
			})
		default:
			o = capture(func() (string, error) { return tjson.Render(t) })
		}
		jo := jxObs{Kind: o.Kind, ErrS: o.ErrS, Panic: o.Panic}
		switch {
		case o.Kind == "ok":
			jo.Out = o.Out
		case o.Kind == "err" && !toWriter:
			jo.ErrText = o.Out
		}
		obs = append(obs, jo)
	}
	return obs
}

// views: what the table of each step must present when it is rendered,
// computed from the spec alone
func (js jxSpec) views() []View {
	var out []View
	var header *[]VCell
	var rows []*[]VCell
	ncols := 0
	skip := map[int]int{}
	for _, tb := range js.Jx {
		if !tb.Cont || len(out) == 0 {
			header, rows, ncols, skip = nil, nil, 0, map[int]int{}
		}
		if !tb.NoHdr {
			cells := make([]VCell, len(tb.Hdr))
			for i, s := range tb.Hdr {
				cells[i] = jxItem{K: "str", S: s}.cell()
			}
			header = &cells
			if len(cells) > ncols {
				ncols = len(cells)
			}
		}
		for _, r := range tb.Rows {
			switch r.K {
			case "sep":
				rows = append(rows, nil)
			case "zero":
				rows = append(rows, &[]VCell{}) // not a separator: a row without cells
			default:
				cells := make([]VCell, len(r.Cells))
				for i, it := range r.Cells {
					cells[i] = it.cell()
				}
				rows = append(rows, &cells)
				if len(cells) > ncols {
					ncols = len(cells)
				}
			}
		}
		for c, s := range tb.Skip {
			if c >= 0 && c <= ncols { // else Column(c) is nil and nothing is set
				skip[c] = s
			}
		}
		v := View{NCols: ncols, Rows: append([]*[]VCell{}, rows...)}
		if header != nil {
			h := *header
			v.Header = &h
		}
		for i := 0; i <= ncols; i++ {
			v.Align = append(v.Align, 0)
			v.Skip = append(v.Skip, skip[i])
		}
		out = append(out, v)
	}
	return out
}

// ---------------------------------------------------------------- the child process

func jxChild() {
	var js jxSpec
	if err := json.NewDecoder(os.Stdin).Decode(&js); err != nil {
		fmt.Fprintln(os.Stderr, "C07child: bad input:", err)
		os.Exit(3)
	}
	var res jxChildOut
	func() {
		defer func() {
			if r := recover(); r != nil {
				res.Crash = fmt.Sprint(r)
			}
		}()
		res.Obs = js.execute()
	}()
	os.Stdout.Write(mustJSON(res))
}

func init() {
	if len(os.Args) >= 2 && os.Args[1] == "C07child" {
		jxChild()
		os.Exit(0)
	}
}

// jxObserve runs the history in a fresh child process.  A child that cannot be
// started or is killed from outside is tried again and, failing that, the
// history runs in this process (the unchanged library keeps nothing between
// renders, so nothing is lost there).  A child that crashed on its own is a
// crash of the library outside the observed renders.
func jxObserve(js jxSpec) []jxObs {
	exe, err := os.Executable()
	if err != nil {
		exe = os.Args[0]
	}
	for attempt := 0; attempt < 2; attempt++ {
		ctx, cancel := context.WithTimeout(context.Background(), 120*time.Second)
		cmd := exec.CommandContext(ctx, exe, "C07child")
		cmd.Stdin = bytes.NewReader(mustJSON(js))
		var stdout, stderr bytes.Buffer
		cmd.Stdout, cmd.Stderr = &stdout, &stderr
		err := cmd.Run()
		cancel()
		if err == nil {
			var res jxChildOut
			if json.Unmarshal(stdout.Bytes(), &res) == nil && (res.Crash != "" || len(res.Obs) == len(js.Jx)) {
				if res.Crash != "" {
					panic("the library panicked while the tables of a C07 render history were built: " + res.Crash)
				}
				return res.Obs
			}
			continue
		}
		if msg := stderr.String(); strings.Contains(msg, "fatal error:") || strings.Contains(msg, "panic:") || strings.Contains(msg, "goroutine ") {
			if len(msg) > 1500 {
				msg = msg[:1500]
			}
			panic("the child process running a C07 render history crashed: " + msg)
		}
	}
	return js.execute()
}

// ---------------------------------------------------------------- the case

type jxDesc struct {
	Kind    string    `json:"kind"`
	Sig     string    `json:"sig"`
	Renders []c07Desc `json:"renders"`
}

func (it jxItem) weight() int {
	if it.K == "str" && len(it.S) <= 1 {
		return 1
	}
	return 2 + len(it.S)/4 + len(it.F)/4
}

func (js jxSpec) size() int {
	n := 0
	for _, tb := range js.Jx {
		n += 3 + len(tb.Hdr) + 2*len(tb.Skip) + tb.Via
		if tb.Cont {
			n++
		}
		for _, r := range tb.Rows {
			n += 1 + r.How
			for _, it := range r.Cells {
				n += it.weight()
			}
		}
	}
	return n
}

func runJxCase(js jxSpec) CaseOut {
	js = js.normalise()
	obs := jxObserve(js)
	views := js.views()
	if len(obs) != len(views) {
		panic(fmt.Sprintf("C07 render history: %d renders observed, %d expected", len(obs), len(views)))
	}
	d := jxDesc{Kind: "render-history"}
	var parts []string
	var key strings.Builder
	nontrivial := false
	tagset := map[string]bool{"render-history": true, fmt.Sprintf("render-history:renders=%d", min(len(views), 4)): true}
	for i, v := range views {
		o := Outcome{Kind: obs[i].Kind, Out: obs[i].Out, ErrS: obs[i].ErrS, Panic: obs[i].Panic}
		if o.Kind == "ok" {
			o.OutQ = fmt.Sprintf("%q", o.Out)
		}
		vt, tbl := compactParts(v)
		parts = append(parts, "("+vt+", "+tbl+", "+o.Coq()+", "+cqBytes(obs[i].ErrText)+")")
		key.WriteString(vt + o.Kind + ";")
		rd := c07Desc{Outcome: o}
		nObj := 0
		for _, r := range v.Rows {
			if r != nil {
				nObj++
			}
		}
		switch o.Kind {
		case "ok":
			ok := json.Valid(o.Out)
			rd.JSONValid = &ok
			if !ok {
				rd.Sig = "invalid-json"
			}
			if nObj > 0 {
				nontrivial = true
			}
		case "panic":
			rd.Sig = "panic"
		case "err":
			if len(obs[i].ErrText) != 0 {
				rd.Sig = "text-with-error"
				rd.OutQ = fmt.Sprintf("%q", obs[i].ErrText)
			}
		}
		if rd.Sig != "" && d.Sig == "" {
			d.Sig = rd.Sig
		}
		d.Renders = append(d.Renders, rd)
		tagset["outcome="+o.Kind] = true
	}
	for ti, tb := range js.Jx {
		if tb.Cont {
			tagset["render-history:table-extended-and-rendered-again"] = true
		}
		for _, r := range tb.Rows {
			if r.K == "zero" {
				tagset["zero-value-row"] = true
			}
			if (r.K == "zero" || r.K == "sep") && len(r.Cells) > 0 {
				tagset["cells-refused-by-a-cell-less-row"] = true
			}
			for _, it := range r.Cells {
				switch it.K {
				case "float":
					if f := it.float(); math.IsNaN(f) || math.IsInf(f, 0) {
						tagset["item:non-finite-float"] = true
					} else {
						tagset["item:finite-float"] = true
					}
				case "opt", "marsh", "raw":
					tagset["item:empty-object-or-not-by-value"] = true
					if ti > 0 {
						tagset["item:empty-object-or-not-by-value:in-a-later-render"] = true
					}
				case "int", "uint":
					tagset["item:integer-kinds"] = true
				case "bad", "tmarsh", "num", "time":
					tagset["item:"+it.K] = true
				}
			}
		}
	}
	var tags []string
	for tg := range tagset {
		tags = append(tags, tg)
	}
	return CaseOut{
		Coq:        "(CMany " + cqList(parts) + ")",
		Desc:       d,
		Size:       js.size(),
		Tags:       tags,
		Key:        key.String(),
		Nontrivial: nontrivial,
	}
}

// ---------------------------------------------------------------- shrinking

func (js jxSpec) shrinks() []jxSpec {
	var out []jxSpec
	simple := jxItem{K: "str", S: "x"}
	for ti, tb := range js.Jx {
		if len(js.Jx) > 1 {
			c := js.clone()
			c.Jx = append(c.Jx[:ti], c.Jx[ti+1:]...)
			out = append(out, c.normalise())
		}
		for ri, r := range tb.Rows {
			c := js.clone()
			c.Jx[ti].Rows = append(c.Jx[ti].Rows[:ri], c.Jx[ti].Rows[ri+1:]...)
			out = append(out, c)
			if r.How != 0 {
				c := js.clone()
				c.Jx[ti].Rows[ri].How = 0
				out = append(out, c)
			}
			if r.K != "row" && len(r.Cells) > 0 {
				c := js.clone()
				c.Jx[ti].Rows[ri].Cells = nil
				out = append(out, c)
			}
			for ci, it := range r.Cells {
				if it != simple {
					c := js.clone()
					c.Jx[ti].Rows[ri].Cells[ci] = simple
					out = append(out, c)
				}
				if it.K != "str" && it.S != "" {
					c := js.clone()
					c.Jx[ti].Rows[ri].Cells[ci].S = ""
					out = append(out, c)
				}
			}
		}
		// drop a whole column: its header and that cell of every row which has it
		width := len(tb.Hdr)
		for _, r := range tb.Rows {
			if r.K == "row" && len(r.Cells) > width {
				width = len(r.Cells)
			}
		}
		for col := 0; col < width; col++ {
			c := js.clone()
			if col < len(c.Jx[ti].Hdr) {
				c.Jx[ti].Hdr = append(c.Jx[ti].Hdr[:col], c.Jx[ti].Hdr[col+1:]...)
			}
			for ri := range c.Jx[ti].Rows {
				if r := &c.Jx[ti].Rows[ri]; r.K == "row" && col < len(r.Cells) {
					r.Cells = append(r.Cells[:col], r.Cells[col+1:]...)
				}
			}
			c.Jx[ti].Skip = nil
			out = append(out, c)
		}
		for k := range tb.Skip {
			c := js.clone()
			delete(c.Jx[ti].Skip, k)
			out = append(out, c)
		}
		if tb.Via != 0 {
			c := js.clone()
			c.Jx[ti].Via = 0
			out = append(out, c)
		}
		if tb.Cont {
			c := js.clone()
			c.Jx[ti].Cont = false
			if c.Jx[ti].NoHdr {
				c.Jx[ti].NoHdr = false
				if len(c.Jx[ti].Hdr) == 0 {
					c.Jx[ti].Hdr = jxHeader(3)
				}
			}
			out = append(out, c)
		}
	}
	return out
}

// ---------------------------------------------------------------- generators

func jS(s string) jxItem                   { return jxItem{K: "str", S: s} }
func jInt(t int, i int64) jxItem           { return jxItem{K: "int", T: t, I: i} }
func jUint(t int, u uint64) jxItem         { return jxItem{K: "uint", T: t, U: u} }
func jF(t int, f string) jxItem            { return jxItem{K: "float", T: t, F: f} }
func jOpt(t int, s string, i int64) jxItem { return jxItem{K: "opt", T: t, S: s, I: i} }
func jMarsh(mode int, s string, p bool) jxItem {
	return jxItem{K: "marsh", T: mode, S: s, P: p}
}
func jRow(how int, cells ...jxItem) jxRow { return jxRow{K: "row", How: how, Cells: cells} }
func jZero(how int) jxRow                 { return jxRow{K: "zero", How: how} }

var jSepRow = jxRow{K: "sep"}

func jxHeader(n int) []string {
	h := make([]string, n)
	for i := range h {
		h[i] = fmt.Sprintf("h%d", i+1)
	}
	return h
}

func jTab(ncols, via int, rows ...jxRow) jxTable {
	return jxTable{Hdr: jxHeader(ncols), Rows: rows, Via: via}
}

func jContinue(via int, rows ...jxRow) jxTable {
	return jxTable{NoHdr: true, Cont: true, Rows: rows, Via: via}
}

var jxNonFinite = []string{"NaN", "+Inf", "-Inf"}

// values at the edges of encoding/json's number formatting (exponent form below 1e-6 and from 1e21,
// shortest round-trip digits, the float32 variants of the same rules)
var jxFiniteFloats = []string{"0", "-0", "1", "-1.5", "100", "1e6", "123456789.125", "0.000001", "0.0000009999", "1e-7", "-2.5e-9", "1e-10",
	"999999999999999900000", "1e21", "1.5e21", "-1e22", "1e100", "1.7976931348623157e308", "5e-324", "3.4028234663852886e38", "1e-45", "0.1", "0.30000000000000004", "16777216", "1e20"}

var jxIntEdges = []int64{0, 1, -1, 127, -128, 255, 32767, -32768, 65535, 2147483647, -2147483648, 4294967295, 9007199254740993, math.MaxInt64, math.MinInt64}
var jxUintEdges = []uint64{0, 1, 255, 65535, 4294967295, 1 << 53, 1 << 63, math.MaxUint64}

// an item that encoding/json refuses (or a user method refuses) because of its value or type
func jxRefused() []jxItem {
	var out []jxItem
	for t := 0; t <= 11; t++ {
		for _, f := range jxNonFinite {
			it := jF(t, f)
			if t == 10 {
				it.S = "txt"
			}
			out = append(out, it)
		}
	}
	out = append(out, jMarsh(2, "m", false), jMarsh(3, "m", false), jMarsh(2, "", true), jMarsh(3, "m", true),
		jxItem{K: "tmarsh", S: "t", T: 1}, jxItem{K: "num", S: "abc"}, jxItem{K: "num", S: "1e"}, jxItem{K: "raw", S: "{"}, jxItem{K: "raw", S: "NaN"},
		jxItem{K: "time", I: 253402300800})
	for t := 0; t <= 5; t++ {
		out = append(out, jxItem{K: "bad", T: t})
	}
	return out
}

// the same kinds holding values that do encode
func jxEncodable(r *RNG) jxItem {
	switch r.Intn(13) {
	case 12:
		return jxItem{K: "time", I: pick(r, []int64{0, 1000000000, 253402300799, -62135596800})}
	case 0, 1, 2, 3:
		it := jF(r.Intn(12), pick(r, jxFiniteFloats))
		if it.T == 10 || it.T == 7 || it.T == 9 {
			it.S = pick(r, []string{"", "txt", "y"})
		}
		return it
	case 4, 5:
		return jInt(r.Intn(8), pick(r, jxIntEdges))
	case 6:
		return jUint(r.Intn(7), pick(r, jxUintEdges))
	case 7:
		return jxItem{K: "num", S: pick(r, []string{"1", "-0", "1e5", "12345678901234567890", "0.10", ""})}
	case 8:
		return jxItem{K: "raw", S: pick(r, []string{"1", `"s"`, `[1, 2]`, `{"a": 1}`, "null", " true "})}
	case 9:
		return jxItem{K: "tmarsh", S: pick(r, []string{"", "t", `q"<`})}
	case 10:
		return jxItem{K: "bool", I: int64(r.Intn(2)), T: r.Intn(2)}
	default:
		return jxItem{K: "bytes", S: pick(r, []string{"", "a", "hello"})}
	}
}

// items whose encoding is the empty object or not depending on the value: (empty, populated, another populated)
func jxByValueFamilies() [][3]jxItem {
	var out [][3]jxItem
	for _, t := range []int{0, 1, 3, 4, 5} {
		out = append(out, [3]jxItem{jOpt(t, "", 0), jOpt(t, "500m", 64), jOpt(t, "", 7)})
	}
	out = append(out, [3]jxItem{jOpt(2, "", 0), jOpt(2, "", 2), jOpt(2, "", 1)})
	out = append(out, [3]jxItem{jOpt(6, "", 0), jOpt(6, "v", 1), jOpt(6, "", 2)})
	for _, p := range []bool{false, true} {
		out = append(out, [3]jxItem{jMarsh(0, "text", p), jMarsh(1, "text", p), jMarsh(8, "other", p)})
		out = append(out, [3]jxItem{jMarsh(4, "text", p), jMarsh(7, "text", p), jMarsh(6, "text", p)})
	}
	out = append(out, [3]jxItem{{K: "raw", S: "{}"}, {K: "raw", S: `{"a":1}`}, {K: "raw", S: "[]"}})
	out = append(out, [3]jxItem{{K: "raw", S: " { } "}, {K: "raw", S: `{"b":{}}`}, {K: "raw", S: `"{}"`}})
	return out
}

func jxRandItem(r *RNG) jxItem {
	switch k := r.Intn(100); {
	case k < 16:
		return jS(pick(r, []string{"x", "y", "", "", "0", "{}", "null", "é<", "a\nb", `q"`}))
	case k < 22:
		return jxItem{K: "nil"}
	case k < 52:
		return jxEncodable(r)
	case k < 60:
		return pick(r, jxRefused())
	case k < 78:
		fam := pick(r, jxByValueFamilies())
		return fam[r.Intn(3)]
	case k < 84:
		return jMarsh(r.Intn(9), pick(r, []string{"", "", "m", "{}"}), r.Bool())
	case k < 88:
		return jxItem{K: "stringer", S: pick(r, []string{"", "s", "{}"})}
	case k < 90:
		return jxItem{K: "estruct"}
	case k < 94:
		// a Stringer with a non-finite field and an empty text: omitted where skipable, refused elsewhere
		return jxItem{K: "float", T: 10, F: pick(r, jxNonFinite), S: pick(r, []string{"", "", "t"})}
	default:
		return jOpt(r.Intn(7), pick(r, []string{"", "a"}), int64(r.Intn(3)))
	}
}

func jxRandTable(r *RNG, cont bool) jxTable {
	ncols := 1 + r.Intn(3)
	tb := jxTable{Hdr: jxHeader(ncols), Via: r.Intn(4)}
	if cont {
		tb.Cont, tb.NoHdr, tb.Hdr = true, true, nil
		if r.Pct(15) {
			tb.NoHdr, tb.Hdr = false, jxHeader(ncols)
		}
	}
	nrows := 1 + r.Intn(4)
	for i := 0; i < nrows; i++ {
		switch k := r.Intn(100); {
		case k < 12:
			row := jSepRow
			if r.Pct(15) {
				row.Cells = []jxItem{jxRandItem(r)}
			}
			tb.Rows = append(tb.Rows, row)
		case k < 24:
			row := jZero(r.Intn(3))
			if r.Pct(25) {
				row.How += 3 * r.Intn(2)
				row.Cells = []jxItem{jxRandItem(r)}
			}
			tb.Rows = append(tb.Rows, row)
		default:
			n := ncols
			if r.Pct(20) {
				n = r.Intn(ncols + 1)
			}
			row := jRow(r.Intn(4))
			for c := 0; c < n; c++ {
				row.Cells = append(row.Cells, jxRandItem(r))
			}
			tb.Rows = append(tb.Rows, row)
		}
	}
	if r.Pct(40) {
		tb.Skip = map[int]int{}
		for c := 0; c <= ncols; c++ {
			if r.Pct(40) {
				tb.Skip[c] = pick(r, []int{1, 1, 1, 1, 2, 2, 3})
				if tb.Skip[c] == 3 && r.Pct(70) {
					tb.Skip[c] = 1
				}
			}
		}
	}
	return tb
}

func jxRandSpec(r *RNG) jxSpec {
	n := pick(r, []int{1, 1, 2, 2, 2, 3})
	var js jxSpec
	for i := 0; i < n; i++ {
		js.Jx = append(js.Jx, jxRandTable(r, i > 0 && r.Pct(30)))
	}
	return js
}

// jxFamilies: the enumerated histories
func jxFamilies(r *RNG, tier string) []jxSpec {
	var out []jxSpec
	one := func(tb jxTable) { out = append(out, jxSpec{Jx: []jxTable{tb}}) }

	// (1) every row sequence up to length 4 over {separator, zero-value row, row without cells, row of one
	// cell} that holds a zero-value row: one object per non-separator row, wherever they stand
	var rec func(rows []jxRow, hasZero bool)
	n := 0
	rec = func(rows []jxRow, hasZero bool) {
		if len(rows) > 0 && hasZero {
			n++
			one(jTab(1, n%4, rows...))
		}
		if len(rows) == 4 {
			return
		}
		for k := 0; k < 4; k++ {
			var row jxRow
			switch k {
			case 0:
				row = jSepRow
			case 1:
				row = jZero((n + len(rows)) % 3)
			case 2:
				row = jRow(1 + (n+len(rows))%3) // a row without cells made by NewRow / AppendNewRow / NewRowSizedFor
			default:
				row = jRow((n+len(rows))%4, jInt(0, int64(len(rows))))
			}
			rec(append(append([]jxRow{}, rows...), row), hasZero || k == 1)
		}
	}
	rec(nil, false)
	// the caller tries to add cells to a zero-value row (before / after AddRow) and to a separator
	for how := 0; how < 6; how++ {
		z := jZero(how)
		z.Cells = []jxItem{jS("x"), jInt(0, 1)}
		s := jSepRow
		s.Cells = []jxItem{jS("y")}
		one(jTab(2, how%4, jRow(how%4, jS("a"), jS("b")), z, s, jRow(0, jS("c"))))
		one(jTab(2, (how+1)%4, z, s))
	}

	// (2) an item that has no encoding because of its VALUE (non-finite floats of every float kind, bare or
	// nested; user encoders refusing; ill-formed numbers and raw messages) or its type, at several places
	for i, bad := range jxRefused() {
		good := jxEncodable(r)
		switch i % 4 {
		case 0:
			one(jTab(1, i%4, jRow(i%4, bad)))
			one(jTab(2, (i+1)%4, jRow(0, jS("ok"), good), jRow(i%4, jS("x"), bad)))
		case 1:
			one(jTab(2, i%4, jRow(i%4, bad, good), jSepRow, jRow(0, jS("after"), good)))
		case 2:
			tb := jTab(2, i%4, jRow(0, good, jS("")), jRow(i%4, good, bad))
			tb.Skip = map[int]int{2: 1}
			one(tb)
		default:
			one(jTab(3, i%4, jRow(0, jS("a")), jZero(i%3), jRow(i%4, jS("b"), good, bad), jSepRow))
			one(jTab(1, (i+2)%4, jRow(0, good), jRow(0, good), jRow(i%4, bad)))
		}
	}
	// ... which is no error when the cell is omitted (an empty text in a skipable column), and is one otherwise
	for _, f := range jxNonFinite {
		for _, text := range []string{"", "t"} {
			for _, sk := range []map[int]int{nil, {2: 1}, {0: 1}, {0: 1, 2: 2}} {
				tb := jTab(2, len(out)%4, jRow(0, jS("a"), jxItem{K: "float", T: 10, F: f, S: text}), jRow(0, jS("b"), jS("")))
				tb.Skip = sk
				one(tb)
			}
		}
	}

	// (3) numbers of every kind at the edges of the number formatting, a column each
	for t := 0; t <= 11; t++ {
		var rows []jxRow
		for i, f := range jxFiniteFloats {
			if tier != "thorough" && (i+t)%2 == 1 && t > 1 {
				continue
			}
			it := jF(t, f)
			if t == 10 {
				it.S = "txt"
			}
			rows = append(rows, jRow(i%4, it))
		}
		one(jTab(1, t%4, rows...))
	}
	for t := 0; t <= 6; t++ {
		var rows []jxRow
		for i, v := range jxIntEdges {
			rows = append(rows, jRow(i%4, jInt(t, v), jUint(t, jxUintEdges[i%len(jxUintEdges)])))
		}
		one(jTab(2, t%4, rows...))
	}
	one(jTab(1, 0, jRow(0, jInt(7, 0)), jRow(0, jInt(6, 5)), jRow(0, jxItem{K: "nil"})))

	// (4) items whose encoding is {} or not by VALUE: an empty one and populated ones of the same type in one
	// table and in tables rendered one after the other - each cell is what ITS item says
	fams := jxByValueFamilies()
	for fi, fam := range fams {
		e, p, p2 := fam[0], fam[1], fam[2]
		v := fi % 4
		out = append(out,
			jxSpec{Jx: []jxTable{jTab(1, v, jRow(0, e), jRow(0, p))}},
			jxSpec{Jx: []jxTable{jTab(2, v, jRow(0, jS("n"), p), jRow(1, jS("n"), e), jSepRow, jRow(2, jS("n"), p2), jRow(0, jS("n"), p))}},
			jxSpec{Jx: []jxTable{jTab(1, v, jRow(0, e)), jTab(1, (v+1)%4, jRow(0, p))}},
			jxSpec{Jx: []jxTable{jTab(1, v, jRow(0, p)), jTab(2, (v+1)%4, jRow(0, jS("k"), e)), jTab(1, (v+2)%4, jRow(0, p2), jRow(0, p))}},
			jxSpec{Jx: []jxTable{jTab(1, 2, jRow(0, e)), jContinue(2+fi%2, jRow(fi%4, p))}},
			// the earlier render fails part-way (after the empty value was written)
			jxSpec{Jx: []jxTable{jTab(1, v, jRow(0, e), jRow(0, jF(fi%4, "NaN"))), jTab(1, v, jRow(0, p))}},
			jxSpec{Jx: []jxTable{jTab(1, v, jRow(0, p)), jTab(1, v, jRow(0, p2), jRow(0, e), jRow(0, p))}},
		)
		// the empty one seen under another type of the same family (value / pointer), then a populated one
		other := fams[(fi+1)%len(fams)]
		out = append(out, jxSpec{Jx: []jxTable{jTab(1, v, jRow(0, e), jRow(0, other[0])), jTab(2, v, jRow(0, other[1], p))}})
		// the empty one omitted (skipable, empty text) or shown by its text, then a populated one
		if e.K == "marsh" {
			e0 := e
			e0.S = ""
			tb := jTab(2, v, jRow(0, jS("a"), e0), jRow(0, jS("b"), p))
			tb.Skip = map[int]int{2: 1}
			out = append(out, jxSpec{Jx: []jxTable{tb}}, jxSpec{Jx: []jxTable{tb, jTab(1, v, jRow(0, p2))}})
		}
	}
	// the same for "has an encoding or not, by value": a finite value first, then a non-finite one, and back
	for t := 0; t <= 11; t++ {
		fin, bad := jF(t, pick(r, jxFiniteFloats)), jF(t, jxNonFinite[t%3])
		out = append(out,
			jxSpec{Jx: []jxTable{jTab(1, t%4, jRow(0, fin)), jTab(1, t%4, jRow(0, bad)), jTab(1, t%4, jRow(0, fin))}},
			jxSpec{Jx: []jxTable{jTab(1, t%4, jRow(0, fin), jRow(0, fin), jRow(0, bad))}},
		)
	}
	for _, pr := range [][2]jxItem{{jMarsh(1, "m", false), jMarsh(2, "m", false)}, {jMarsh(7, "m", true), jMarsh(3, "m", true)},
		{{K: "num", S: "1"}, {K: "num", S: "x"}}, {{K: "time", I: 1}, {K: "time", I: 253402300800}}, {{K: "raw", S: "1"}, {K: "raw", S: "]"}}, {{K: "tmarsh", S: "t"}, {K: "tmarsh", S: "t", T: 1}}} {
		out = append(out,
			jxSpec{Jx: []jxTable{jTab(1, 0, jRow(0, pr[0])), jTab(1, 1, jRow(0, pr[1])), jTab(1, 2, jRow(0, pr[0]))}},
			jxSpec{Jx: []jxTable{jTab(1, 3, jRow(0, pr[1])), jTab(1, 0, jRow(0, pr[0]), jRow(0, pr[0]))}},
		)
	}
	return out
}
