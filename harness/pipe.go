package main

// The pipeline correspondence (coq/Run/PipeRun.v): the build of a TableSpec
// written as a history of the table machine's operations (coq/Model/Table.v),
// items as the caller gives them, together with the oracles the machine needs
// (display width of every text line, descriptors of the object items obtained
// with Go's own type assertions, encoding/json of strings and runes) and the
// view read back from the REAL table through the public API.

import (
	"encoding/json"
	"fmt"
	"sort"
	"strings"

	"go.pennock.tech/tabular"
	"go.pennock.tech/tabular/length"
)

type pipeCtx struct {
	nextObj int
	env     []string
	strj    map[string]string
	runej   map[int32]string
	// where each object item sits: (index into TableSpec.Rows or -1 for the
	// header, cell index) -> object id; and the spec each id was made from
	ids   map[[2]int]int
	specs map[int]ItemSpec
	at    *[2]int
}

// item: the Coq term (Model/Cell.v item) of one item as given to the library
func (pc *pipeCtx) item(it ItemSpec) string {
	switch it.K {
	case "nil":
		return "INil"
	case "str":
		b, _ := json.Marshal(string(it.B))
		pc.strj[string(it.B)] = string(b)
		return "(IString " + cqBytes(it.B) + ")"
	case "rune":
		b, _ := json.Marshal(rune(it.R))
		pc.runej[it.R] = string(b)
		return "(IRune " + cqZ(int64(it.R)) + ")"
	case "cell":
		// tabular.NewCell(inner), stored by value
		return "(ICell (new_cell W e " + pc.item(*it.Inner) + "))"
	}
	v, _ := it.Make()
	d := describe(v)
	id := pc.nextObj
	pc.nextObj++
	if pc.at != nil && pc.ids != nil {
		pc.ids[*pc.at] = id
		pc.specs[id] = it
	}
	pc.env = append(pc.env, fmt.Sprintf("(%s, %s)", cqN(uint64(id)), d.Coq()))
	return "(IObj " + cqN(uint64(id)) + ")"
}

// itemAt: as item, remembering the position of a top-level object item
func (pc *pipeCtx) itemAt(row, col int, it ItemSpec) string {
	k := [2]int{row, col}
	if it.K == "obj" {
		pc.at = &k
	}
	s := pc.item(it)
	pc.at = nil
	return s
}

func (pc *pipeCtx) itemsAt(row, base int, specs []ItemSpec) string {
	xs := make([]string, len(specs))
	for i := range specs {
		xs[i] = pc.itemAt(row, base+i, specs[i])
	}
	return cqList(xs)
}

func (pc *pipeCtx) items(specs []ItemSpec) string {
	xs := make([]string, len(specs))
	for i := range specs {
		xs[i] = pc.item(specs[i])
	}
	return cqList(xs)
}

var pipeAlign = []string{"None", "(Some ALeft)", "(Some ARight)", "(Some ACenter)"}

// pipeHistory mirrors TableSpec.buildStaged call by call.  ok is false when
// the spec uses something the machine's histories do not contain (items
// mutated and updated in place; a pre-built row attached twice).
func pipeHistory(ts TableSpec, pc *pipeCtx) (ops []string, ok bool) {
	if len(ts.Mutations) > 0 {
		return nil, false
	}
	for _, r := range ts.Rows {
		if r.Twice && !r.Sep && (r.How == 1 || r.How == 3) {
			return nil, false
		}
	}
	core := func(s string) { ops = append(ops, "TCore "+s) }
	setProps := func(al, sk map[int]int) {
		var ks []int
		for c := range al {
			ks = append(ks, c)
		}
		sort.Ints(ks)
		for _, c := range ks {
			if c >= 0 && al[c] >= 0 && al[c] <= 3 {
				ops = append(ops, fmt.Sprintf("TSetAlign %s %s", cqNat(c), pipeAlign[al[c]]))
			}
		}
		ks = ks[:0]
		for c := range sk {
			ks = append(ks, c)
		}
		sort.Ints(ks)
		for _, c := range ks {
			if c >= 0 && sk[c] >= 1 && sk[c] <= 3 {
				ops = append(ops, fmt.Sprintf("TSetSkip %s %s", cqNat(c), cqSkip[sk[c]]))
			}
		}
	}
	addHeader := func() {
		if ts.Header != nil {
			core("(AddHeaders " + pc.itemsAt(-1, 0, *ts.Header) + ")")
		}
	}
	type pending struct {
		row, left  int
		cells      []ItemSpec
		spec, base int
	}
	var late []pending
	nrows := 0
	flush := func(all bool) {
		keep := late[:0]
		for _, p := range late {
			if all || p.left <= 0 {
				if p.row < nrows {
					for j, it := range p.cells {
						core(fmt.Sprintf("(RowAdd (RIdx %s) %s)", cqNat(p.row), pc.itemAt(p.spec, p.base+j, it)))
					}
				}
			} else {
				p.left--
				keep = append(keep, p)
			}
		}
		late = keep
	}
	first := ts.HeaderAt <= 0 && len(ts.AlignEarly)+len(ts.SkipEarly) > 0 && ts.Header != nil
	if first {
		addHeader()
	}
	setProps(ts.AlignEarly, ts.SkipEarly)
	done := first
	nextVar := 1
	for i, r := range ts.Rows {
		if !done && ts.HeaderAt <= i {
			addHeader()
			done = true
		}
		switch {
		case r.Sep:
			core("AddSeparator")
			nrows++
		case r.How == 1 || r.How == 3:
			v := nextVar
			nextVar++
			if r.How == 1 {
				core("(NewRow " + cqNat(v) + ")")
			} else {
				core("(NewRowSizedFor " + cqNat(v) + ")")
			}
			for j, it := range r.Cells {
				core(fmt.Sprintf("(RowAdd (RName %s) %s)", cqNat(v), pc.itemAt(i, j, it)))
			}
			core("(AddRow " + cqNat(v) + ")")
			nrows++
		case r.How == 2:
			v := nextVar
			nextVar++
			core("(AppendNewRow " + cqNat(v) + ")")
			nrows++
			for j, it := range r.Cells {
				core(fmt.Sprintf("(RowAdd (RName %s) %s)", cqNat(v), pc.itemAt(i, j, it)))
			}
		default:
			core("(AddRowItems " + pc.itemsAt(i, 0, r.Cells) + ")")
			nrows++
		}
		flush(false)
		if len(r.Late) > 0 {
			late = append(late, pending{nrows - 1, r.LateAfter, r.Late, i, len(r.Cells)})
			flush(false)
		}
	}
	flush(true)
	if !done {
		addHeader()
	}
	if ts.Header2 != nil {
		core("(AddHeaders " + pc.itemsAt(-1, 0, *ts.Header2) + ")")
	}
	setProps(ts.Align, ts.Skip)
	for _, op := range ts.PropOps {
		if op.Col < 0 {
			continue
		}
		switch op.Key {
		case 0:
			if op.Val >= 0 && op.Val <= 3 {
				ops = append(ops, fmt.Sprintf("TSetAlign %s %s", cqNat(op.Col), pipeAlign[op.Val]))
			}
		case 1:
			// map[int]interface{}{1: true, 2: false, 3: "yes"}[op.Val]: a missing key is nil
			if op.Val >= 0 && op.Val <= 3 {
				ops = append(ops, fmt.Sprintf("TSetSkip %s %s", cqNat(op.Col), cqSkip[op.Val]))
			}
		}
	}
	return ops, true
}

// oracleTerm: the oracles of one case (coq/Run/PipeRun.v pipe_oracle): display
// width of every line of every text the table shows, the object descriptors,
// encoding/json of the strings and runes.
func (pc *pipeCtx) oracleTerm(obs View, seed uint64, extraTexts []string) string {
	wk := map[string]int{}
	addText := func(s string) {
		for _, l := range strings.Split(s, "\n") {
			wk[l] = length.StringCells(l)
		}
	}
	each := func(cs []VCell) {
		for _, c := range cs {
			addText(c.Text)
		}
	}
	if obs.Header != nil {
		each(*obs.Header)
	}
	for _, r := range obs.Rows {
		if r != nil {
			each(*r)
		}
	}
	for _, t := range extraTexts {
		addText(t)
	}
	var keys []string
	for k := range wk {
		keys = append(keys, k)
	}
	sort.Strings(keys)
	wt := make([]string, len(keys))
	for i, k := range keys {
		wt[i] = cqPair(cqStr(k), cqNat(wk[k]))
	}
	// strings the table does not hold, for the encoder model alone (Model/JsonString.v):
	// every class of byte encoding/json treats specially, and a few random byte strings
	hr := NewRNG(seed)
	if hr.Intn(24) == 0 {
		for _, h := range pipeHostile {
			b, _ := json.Marshal(h)
			pc.strj[h] = string(b)
		}
	}
	for i := 0; i < 3; i++ {
		n := 1 + hr.Intn(9)
		bs := make([]byte, n)
		for j := range bs {
			bs[j] = pipeByteClasses[hr.Intn(len(pipeByteClasses))]
		}
		b, _ := json.Marshal(string(bs))
		pc.strj[string(bs)] = string(b)
	}
	keys = keys[:0]
	for k := range pc.strj {
		keys = append(keys, k)
	}
	sort.Strings(keys)
	sj := make([]string, len(keys))
	for i, k := range keys {
		sj[i] = cqPair(cqStr(k), cqStr(pc.strj[k]))
	}
	var rk []int
	for k := range pc.runej {
		rk = append(rk, int(k))
	}
	sort.Ints(rk)
	rj := make([]string, len(rk))
	for i, k := range rk {
		rj[i] = cqPair(cqZ(int64(k)), cqStr(pc.runej[int32(k)]))
	}
	return fmt.Sprintf("(mkPO %s %s %s %s)", cqList(wt), cqList(pc.env), cqList(sj), cqList(rj))
}

// pipeCase: the Coq term of the pipeline case for a table built from ts, whose
// real counterpart presented obs through the public API and rendered to csv
// as csvOut.
func pipeCase(ts TableSpec, obs View, csvOut Outcome) (string, bool) {
	pc := &pipeCtx{strj: map[string]string{}, runej: map[int32]string{}}
	ops, ok := pipeHistory(ts, pc)
	if !ok {
		return "", false
	}
	oracle := pc.oracleTerm(obs, uint64(len(ops))*1000003+uint64(len(csvOut.Out))*7919+uint64(len(obs.Rows)), nil)
	hist := "(fun (W : list N -> nat) (e : env) => " + cqList(ops) + ")"
	return fmt.Sprintf("(%s, %s, %s, %s)", oracle, hist, obs.Coq(false), csvOut.Coq()), true
}

// pipeMutCase: a program that builds the table of ts on a REAL table of its
// own, then changes some of its mutable items in place and asks some of the
// cells holding them to Update (coq/Model/TableMut.v); the term of the case:
// oracles, the program, and the view read back from that table at the end.
func pipeMutCase(ts TableSpec, seed uint64) (string, bool) {
	pc := &pipeCtx{strj: map[string]string{}, runej: map[int32]string{}, ids: map[[2]int]int{}, specs: map[int]ItemSpec{}}
	plain := ts
	plain.Mutations = nil
	ops, ok := pipeHistory(plain, pc)
	if !ok || len(pc.ids) == 0 {
		return "", false
	}
	t := tabular.New()
	objs := plain.buildStaged(t, nil)
	var cands [][2]int
	for k := range pc.ids {
		if objs[k] != nil {
			cands = append(cands, k)
		}
	}
	if len(cands) == 0 {
		return "", false
	}
	sort.Slice(cands, func(i, j int) bool {
		return cands[i][0] < cands[j][0] || (cands[i][0] == cands[j][0] && cands[i][1] < cands[j][1])
	})
	r := NewRNG(seed)
	mops := make([]string, len(ops))
	for i, o := range ops {
		mops[i] = "MOp (" + o + ")"
	}
	var texts []string
	steps := 1 + r.Intn(4)
	for s := 0; s < steps; s++ {
		k := cands[r.Intn(len(cands))]
		id := pc.ids[k]
		sp := pc.specs[id]
		nw := pick(r, []string{"", "M", "changed", "two\nlines", "wide \u65e5\u672c", "q\"<&", "  padded  ", string(sp.S) + "+"})
		sp.S = []byte(nw)
		pc.specs[id] = sp
		objs[k].s = nw // the caller changes the item in place
		v, _ := sp.Make()
		mops = append(mops, fmt.Sprintf("MMutate %s %s", cqN(uint64(id)), describe(v).Coq()))
		texts = append(texts, nw, describe(v).V)
		if r.Intn(2) == 0 {
			continue // not updated: the cell must keep showing what it cached
		}
		if k[0] < 0 {
			if h := t.Headers(); k[1] < len(h) {
				h[k[1]].Update()
				mops = append(mops, "MUpdateHeader "+cqNat(k[1]))
			}
		} else {
			row := plain.tableRow(k[0])
			if c, err := t.CellAt(tabular.CellLocation{Row: row + 1, Column: k[1] + 1}); err == nil {
				c.Update()
				mops = append(mops, fmt.Sprintf("MUpdateAt %s %s", cqNat(row), cqNat(k[1])))
			}
		}
	}
	obs := extractView(t)
	oracle := pc.oracleTerm(obs, seed+17, texts)
	hist := "(fun (W : list N -> nat) (e : env) => " + cqList(mops) + ")"
	return fmt.Sprintf("(%s, %s, %s)", oracle, hist, obs.Coq(false)), true
}

var _ = tabular.New

// bytes that matter to a UTF-8 decoder and to encoding/json's escaper
var pipeByteClasses = []byte{0x00, 0x08, 0x09, 0x0a, 0x0c, 0x0d, 0x1f, 0x20, '"', '\\', '<', '>', '&', '/', 'a', 0x7f,
	0x80, 0xa0, 0xa8, 0xa9, 0xbf, 0xc0, 0xc1, 0xc2, 0xdf, 0xe0, 0xe2, 0xed, 0xef, 0xf0, 0xf4, 0xf5, 0xff}

var pipeHostile = []string{
	"\x00", "\x01\x02\x07", "\b\f\n\r\t", "\x0b\x0e\x1f", "\x7f", "\"quoted\"", "back\\slash", "<script>&amp;</script>", "a/b",
	"\u2028", "\u2029", "x\u2028y\u2029z", "\u2027\u202a", "\ufffd", "\u00e9", "\u65e5\u672c", "\U0001F600", "\U0010FFFF",
	"\x80", "\xbf", "\xc0\x80", "\xc1\xbf", "\xc2", "\xc2\x41", "\xe0\x80\x80", "\xe0\xa0", "\xe2\x80", "\xed\xa0\x80", "\xed\xbf\xbf",
	"\xef\xbf\xbd", "\xf0\x80\x80\x80", "\xf0\x90\x80", "\xf4\x8f\xbf\xbf", "\xf4\x90\x80\x80", "\xf5\x80\x80\x80", "\xff\xfe",
	"ok\xe2\x82\xacend", "\xe2\x80\xa8", "\xe2\x80\xa9\xe2\x80\xa7",
}
