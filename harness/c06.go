package main

// C06: HTML output has a fixed tag skeleton and text can never become markup.
// Runs (*HTMLTable).Render of the real library, twice or more from ONE
// wrapper (the second render takes the cached-template path) with Id / Class /
// Caption / the row-class generator changed in between, and ships inputs,
// observed bytes, the recorded generator calls and return values, and a few
// corruptions of each output (the Coq tokenizer must refuse those: spec
// self-test) to Coq.  A second kind of case checks the Coq entity decoder
// against the standard library (html.UnescapeString, html.EscapeString,
// template.HTMLEscapeString).

import (
	"bytes"
	"encoding/json"
	"errors"
	"fmt"
	stdhtml "html"
	"html/template"
	"io"
	"os"
	"strings"
	"unicode/utf8"

	"go.pennock.tech/tabular"
	"go.pennock.tech/tabular/html"
)

type c06Gen struct {
	Vals [][]byte `json:"vals"` // call k returns Vals[k % len]; no values = ""
	Q    []string `json:"q,omitempty"`
}

type c06Render struct {
	Id      []byte  `json:"id"`
	Class   []byte  `json:"class"`
	Caption []byte  `json:"caption"`
	Gen     *c06Gen `json:"gen"` // nil = SetRowClassGenerator not called (or called with nil)
	Q       string  `json:"q,omitempty"`
	// Fault: this render is made to FAIL and is not judged: "writer" = RenderTo
	// into a writer whose call number At fails; "short" = that call accepts half
	// of the bytes (io.ErrShortWrite); "gen-panic" = the generator panics on
	// its call number At.  The next render of the same wrapper is judged.
	Fault *c06Fault `json:"fault,omitempty"`
	// Inner: a re-entrant render of another table from inside the generator
	Inner *c06Inner `json:"inner,omitempty"`
}

// c06Inner: on its call number At the generator of this render renders
// ANOTHER table (its own shape, texts and generator) through ANOTHER html
// wrapper with the same TemplateName, before returning.  Warm: that other
// wrapper has already rendered once before the outer render starts.
type c06Inner struct {
	At     int        `json:"at"`
	Table  TableSpec  `json:"table"`
	Render *c06Render `json:"render"`
	Warm   bool       `json:"warm,omitempty"`
}

type c06Fault struct {
	Kind string `json:"kind"`
	At   int    `json:"at"`
}

type c06Dec struct {
	Mode string `json:"mode"` // unescape | html.EscapeString | template.HTMLEscapeString
	S    []byte `json:"s"`
	Q    string `json:"q,omitempty"`
}

type c06Spec struct {
	Table        TableSpec   `json:"table"`
	Renders      []c06Render `json:"renders"`
	TemplateName string      `json:"template_name,omitempty"`
	CorruptSeed  uint64      `json:"corrupt_seed"`
	Dec          *c06Dec     `json:"dec,omitempty"`
	// Share: after the build and the first render, the listed rows (indices
	// into AllRows(), non-separators) are also added, in this order, to a
	// second table that already holds Pad rows (separators and one-cell rows
	// alternating); the remaining renders of the first table follow.
	Share *c06Share `json:"share,omitempty"`
	// ZeroRows: after the first judged render this many zero-value rows
	// (new(tabular.Row) / &tabular.Row{}) are appended with AddRow
	ZeroRows int `json:"zero_rows,omitempty"`
	// Hist: instead of all of the above, a history over several tables and
	// several long-lived wrappers (c06_hist.go)
	Hist *c06Hist `json:"hist,omitempty"`
}

type c06Share struct {
	Rows []int `json:"rows"`
	Pad  int   `json:"pad"`
}

// markup-hostile alphabet
var c06Atoms = []string{
	"<", ">", `"`, "'", "&", "+", "=", "/", " ", "\n", "`", ";", "#",
	"&amp;", "&#60;", "&lt;", "&#x3c;", "&#34;", "</td>", "</th>", "<script>", "</script>", "--><!--", "<!--", "{{.}}",
	"\xff", "\xc0\x80", "\xe2\x82", "\u00e9", "\u2028", "\ufdd0", "a", "b", "", "<b>", "</table>", "]]>", "\t", "\r",
	`" onclick="x`, `' onmouseover='x`, "javascript:alert(1)", "&#", "&#34", "&amp", "x y", "<td>", "<tr class=\"q\">",
}

func c06Str(r *RNG, nul bool) string {
	switch {
	case r.Pct(8):
		return ""
	case r.Pct(75):
		n := 1 + r.Intn(4)
		var sb strings.Builder
		for i := 0; i < n; i++ {
			sb.WriteString(pick(r, c06Atoms))
		}
		if nul {
			k := r.Intn(sb.Len() + 1)
			s := sb.String()
			return s[:k] + "\x00" + s[k:]
		}
		return sb.String()
	default:
		n := r.Intn(10)
		b := make([]byte, n)
		for i := range b {
			if r.Pct(50) {
				b[i] = []byte{'<', '>', '"', '\'', '&', '+', '=', '/', ' ', '\n', '`', ';', '#', 'a'}[r.Intn(14)]
			} else {
				b[i] = byte(1 + r.Intn(255))
			}
			if nul && r.Pct(15) {
				b[i] = 0
			}
		}
		return string(b)
	}
}

// mostly Go strings; sometimes a fmt.Stringer or an error whose text is
// hostile, or a nested Cell (the template only ever sees Cell.String())
func c06Text(nul bool) func(*RNG) ItemSpec {
	return func(r *RNG) ItemSpec {
		s := c06Str(r, nul && r.Pct(30))
		switch r.Intn(12) {
		case 0:
			return ItemSpec{K: "valstr", B: []byte(s), Q: fmt.Sprintf("%q", s)}
		case 1:
			return ItemSpec{K: "strerr", B: []byte(s), Q: fmt.Sprintf("%q", s)}
		case 2:
			in := Str(s)
			return ItemSpec{K: "cell", Inner: &in}
		}
		return Str(s)
	}
}

func c06RandRender(r *RNG, nul bool) c06Render {
	rd := c06Render{}
	opt := func() []byte {
		if r.Pct(35) {
			return nil
		}
		return []byte(c06Str(r, nul && r.Pct(30)))
	}
	rd.Id, rd.Class, rd.Caption = opt(), opt(), opt()
	switch r.Intn(4) {
	case 0: // absent
	case 1:
		rd.Gen = &c06Gen{} // returns ""
	default:
		g := &c06Gen{}
		n := 1 + r.Intn(4)
		for i := 0; i < n; i++ {
			g.Vals = append(g.Vals, []byte(c06Str(r, nul && r.Pct(30))))
		}
		rd.Gen = g
	}
	return rd
}

// sometimes the generator renders another table through another wrapper
func c06MaybeInner(r *RNG, rd *c06Render, nul bool) {
	if rd.Gen == nil || rd.Fault != nil || !r.Pct(12) {
		return
	}
	ird := c06RandRender(r, nul)
	rd.Inner = &c06Inner{At: r.Intn(4), Table: randTable(r, 3, 3, c06Text(nul), []int{0, 0, 1, 2, 3}), Render: &ird, Warm: r.Bool()}
}

func c06Renders(r *RNG, nul bool) []c06Render {
	n := 2
	if r.Pct(15) {
		n = 3
	}
	out := make([]c06Render, n)
	for i := range out {
		out[i] = c06RandRender(r, nul)
	}
	if r.Pct(20) { // identical second render: pure cache path
		out[1] = out[0]
	}
	for i := range out {
		c06MaybeInner(r, &out[i], nul)
	}
	if r.Pct(20) { // a render that fails, between two judged ones
		f := c06RandRender(r, nul)
		f.Fault = &c06Fault{Kind: pick(r, []string{"writer", "short", "gen-panic"}), At: r.Intn(4)}
		if f.Fault.Kind == "gen-panic" && f.Gen == nil {
			f.Gen = &c06Gen{Vals: [][]byte{[]byte("g")}}
		}
		out = append([]c06Render{out[0], f}, out[1:]...)
	}
	return out
}

func (s *c06Spec) fillQ() {
	for i := range s.Renders {
		rd := &s.Renders[i]
		rd.Q = fmt.Sprintf("id=%q class=%q caption=%q", rd.Id, rd.Class, rd.Caption)
		if rd.Gen != nil {
			rd.Gen.Q = nil
			for _, v := range rd.Gen.Vals {
				rd.Gen.Q = append(rd.Gen.Q, fmt.Sprintf("%q", v))
			}
		}
	}
	if s.Dec != nil {
		s.Dec.Q = fmt.Sprintf("%q", s.Dec.S)
	}
	if s.Hist != nil {
		s.Hist.fillQ()
	}
}

// multi-step features on top of a generated table: the shared ones (second
// header after a staged render, early column properties, rows attached twice)
// plus cells added long after the row joined the table, intermediate renders
// through the reused wrapper, and rows shared with a second table
func c06Enrich(r *RNG, s *c06Spec, nul bool) {
	ts := &s.Table
	enrichSpec(r, ts, c06Text(nul))
	for i := range ts.Rows {
		if !ts.Rows[i].Sep && r.Pct(8) {
			n := 1 + r.Intn(2)
			for k := 0; k < n; k++ {
				ts.Rows[i].Late = append(ts.Rows[i].Late, c06Text(nul)(r))
			}
			ts.Rows[i].LateAfter = r.Intn(3)
		}
		if !ts.Rows[i].Sep && (ts.Rows[i].How == 1 || ts.Rows[i].How == 3) && r.Pct(8) {
			ts.Rows[i].Twice = true
		}
	}
	if len(ts.Rows) > 0 && len(ts.Stages) == 0 && r.Pct(20) {
		ts.Stages = []int{r.Intn(len(ts.Rows))}
	}
	if r.Pct(5) {
		s.ZeroRows = 1 + r.Intn(2)
	}
	if len(ts.Rows) > 0 && r.Pct(15) {
		sh := &c06Share{Pad: r.Intn(5)}
		n := 1 + r.Intn(2)
		for k := 0; k < n; k++ {
			sh.Rows = append(sh.Rows, r.Intn(len(ts.Rows)+1)) // positions after a twice-attached row shift by one
		}
		s.Share = sh
	}
}

func c06Gen_(r *RNG, tier string) []json.RawMessage {
	var heavy, light []json.RawMessage
	add := func(s c06Spec) {
		s.CorruptSeed = r.U64()
		s.fillQ()
		if s.Dec != nil {
			light = append(light, mustJSON(s))
		} else {
			heavy = append(heavy, mustJSON(s))
		}
	}
	hows := []int{0, 0, 1, 2, 3}

	// (a) every shape: header in {none,0,1,2 cells} x row sequences over {separator,0,1,2 cells}
	maxRows := 3
	if tier == "thorough" {
		maxRows = 4
	}
	enumShapes(maxRows, 2, func(h int, rows []int) {
		ts := shapeSpec(r, h, rows, c06Text(false), hows)
		enrichSpec(r, &ts, c06Text(false))
		add(c06Spec{Table: ts, Renders: c06Renders(r, false)})
	})

	// (a2) row objects that occupy more than one position: every row sequence
	// up to length 3 over {separator, row, row attached twice} with at least one
	// twice-attached row, with and without a header, the generator set in every
	// render (a row's number is its POSITION in the table being rendered)
	genOn := func() []c06Render {
		return []c06Render{
			{Gen: &c06Gen{Vals: [][]byte{[]byte("a"), []byte("b")}}},
			{Id: []byte("i"), Gen: &c06Gen{}},
		}
	}
	var seqs func(prefix []int)
	seqs = func(prefix []int) {
		twice := false
		for _, k := range prefix {
			twice = twice || k == 2
		}
		if twice {
			for h := 0; h < 2; h++ {
				ts := TableSpec{}
				if h == 1 {
					hs := []ItemSpec{Str("h")}
					ts.Header = &hs
				}
				for n, k := range prefix {
					switch k {
					case 0:
						ts.Rows = append(ts.Rows, RowSpec{Sep: true})
					default:
						ts.Rows = append(ts.Rows, RowSpec{How: 1 + 2*(n%2), Cells: []ItemSpec{c06Text(false)(r)}, Twice: k == 2})
					}
				}
				add(c06Spec{Table: ts, Renders: genOn()})
			}
		}
		if len(prefix) == 3 {
			return
		}
		for k := 0; k < 3; k++ {
			seqs(append(append([]int{}, prefix...), k))
		}
	}
	seqs(nil)
	// (a3) row objects shared with a second table at another position, between
	// two renders of the first table
	for n := 1; n <= 3; n++ {
		for j := 0; j < n; j++ {
			for _, pad := range []int{0, 1, 2, 4} {
				if pad == j {
					continue // same position in both tables: nothing to see
				}
				hs := []ItemSpec{Str("h")}
				ts := TableSpec{Header: &hs}
				for i := 0; i < n; i++ {
					ts.Rows = append(ts.Rows, RowSpec{How: []int{1, 0, 2, 3}[(i+j)%4], Cells: []ItemSpec{c06Text(false)(r)}})
				}
				ts.Rows[j].How = 1
				add(c06Spec{Table: ts, Renders: genOn(), Share: &c06Share{Rows: []int{j}, Pad: pad}})
			}
		}
	}

	// (a4) a cell's text changed in place between two renders of the one
	// wrapper (the item is mutated and the cell Update()d through CellAt /
	// Headers; the row keeps its cell count): every cell position of small
	// tables, body and header, with and without a generator
	obj := func(txt string) ItemSpec { return ItemSpec{K: "obj", Mask: 1, S: []byte(txt)} }
	for n := 1; n <= 3; n++ {
		for j := 0; j < n; j++ {
			for col := 0; col < 2; col++ {
				hs := []ItemSpec{obj("h<1>"), obj("h2")}
				ts := TableSpec{Header: &hs}
				for i := 0; i < n; i++ {
					ts.Rows = append(ts.Rows, RowSpec{How: (i + j + col) % 4, Cells: []ItemSpec{obj(fmt.Sprintf("a%d", i)), obj("b&" + c06Str(r, false))}})
				}
				if n == 3 {
					ts.Rows[(j+1)%3] = RowSpec{Sep: true}
					if ts.Rows[j].Sep {
						continue
					}
				}
				ts.Mutations = []Mutation{{Row: j, Col: col, S: []byte("<new>" + c06Str(r, false))}}
				if (n+j+col)%3 == 0 {
					ts.Mutations = append(ts.Mutations, Mutation{Row: -1, Col: col, S: []byte("H'new")})
				}
				if col == 1 {
					ts.Stages = []int{0}
				}
				rs := genOn()
				if (j+col)%2 == 1 {
					rs[0].Gen = nil
				}
				add(c06Spec{Table: ts, Renders: rs})
			}
		}
	}
	// (a5) a render that FAILS (the writer errs or accepts half of the bytes
	// on its first / a later call; the generator panics on its first / a later
	// call) followed by successful renders of the same wrapper
	for _, f := range []c06Fault{{"writer", 0}, {"writer", 1}, {"writer", 7}, {"short", 0}, {"short", 1}, {"short", 5},
		{"gen-panic", 0}, {"gen-panic", 1}, {"gen-panic", 2}} {
		for n := 0; n <= 2; n++ {
			hs := []ItemSpec{Str("h")}
			ts := TableSpec{Header: &hs}
			for i := 0; i < n; i++ {
				ts.Rows = append(ts.Rows, RowSpec{How: i % 4, Cells: []ItemSpec{c06Text(false)(r), Str("x")}})
			}
			ff := f
			rs := []c06Render{
				{Gen: &c06Gen{Vals: [][]byte{[]byte("a")}}},
				{Caption: []byte("failing"), Gen: &c06Gen{Vals: [][]byte{[]byte("f")}}, Fault: &ff},
				{Id: []byte("after"), Gen: &c06Gen{Vals: [][]byte{[]byte("b")}}},
				{},
			}
			if n == 1 {
				ts.Stages, ts.StageFaults = []int{0}, true
			}
			add(c06Spec{Table: ts, Renders: rs})
		}
	}
	// (a7) re-entrant renders: on its call number At the outer table's
	// generator renders ANOTHER table (other shape, other texts, its own
	// generator or none) through ANOTHER wrapper of the same TemplateName; the
	// outer output and calls must be those of the outer table alone, the inner
	// output those of the inner table
	for nOut := 0; nOut <= 3; nOut++ {
		for at := 0; at <= nOut; at++ {
			for nIn := 0; nIn <= 2; nIn++ {
				hs := []ItemSpec{Str("OUTER"), Str("o<2>")}
				ots := TableSpec{Header: &hs}
				for i := 0; i < nOut; i++ {
					ots.Rows = append(ots.Rows, RowSpec{How: i % 4, Sep: nOut == 3 && i == 1, Cells: []ItemSpec{Str(fmt.Sprintf("o%d", i)), c06Text(false)(r)}})
				}
				ihs := []ItemSpec{Str("inner&")}
				its := TableSpec{Header: &ihs}
				if (nOut+at+nIn)%4 == 3 {
					its.Header = nil
				}
				for i := 0; i < nIn; i++ {
					its.Rows = append(its.Rows, RowSpec{How: (i + 1) % 4, Cells: []ItemSpec{Str(fmt.Sprintf("i%d", i)), c06Text(false)(r), Str("'x")}})
				}
				ird := c06Render{Id: []byte("in"), Caption: []byte("inner caption"), Gen: &c06Gen{Vals: [][]byte{[]byte("I")}}}
				if (at+nIn)%3 == 2 {
					ird.Gen = nil
				}
				in := &c06Inner{At: at, Table: its, Render: &ird, Warm: (nOut+nIn)%2 == 1}
				in2 := *in
				rs := []c06Render{
					{Class: []byte("out"), Gen: &c06Gen{Vals: [][]byte{[]byte("A"), []byte("B")}}, Inner: in},
					{Gen: &c06Gen{Vals: [][]byte{[]byte("C")}}, Inner: &in2},
					{},
				}
				sp := c06Spec{Table: ots, Renders: rs}
				if (nOut+at)%3 == 1 {
					sp.TemplateName = "t"
				}
				add(sp)
			}
		}
	}
	// (a6) zero-value rows appended between two renders
	for n := 0; n <= 2; n++ {
		for z := 1; z <= 2; z++ {
			hs := []ItemSpec{Str("h")}
			ts := TableSpec{Header: &hs}
			for i := 0; i < n; i++ {
				ts.Rows = append(ts.Rows, RowSpec{Sep: i == 1, Cells: []ItemSpec{Str("c")}})
			}
			add(c06Spec{Table: ts, Renders: genOn(), ZeroRows: z})
		}
	}

	// (a8) histories over several tables and several long-lived wrappers
	c06GenHist(r, tier, add)

	// (b) every byte value in every context (cell, header, caption, id, class, generator value)
	oneIn := func(s string) c06Spec {
		h := []ItemSpec{Str("h" + s), Str(s)}
		b := []byte(s)
		return c06Spec{
			Table: TableSpec{Header: &h, Rows: []RowSpec{{Cells: []ItemSpec{Str(s), Str("a" + s + "z")}}, {Sep: true}, {Cells: []ItemSpec{Str(s + s)}}}},
			Renders: []c06Render{
				{Id: b, Class: b, Caption: b, Gen: &c06Gen{Vals: [][]byte{b, []byte("r" + s)}}},
				{Id: []byte("i" + s), Class: []byte(s + "c"), Caption: []byte(s + s)},
			},
		}
	}
	for b := 0; b < 256; b++ {
		add(oneIn(string([]byte{byte(b)})))
	}
	// (c) every pair over the hostile ASCII bytes
	alpha := []byte{'<', '>', '"', '\'', '&', '+', '=', '/', ' ', '\n', ';', '#'}
	for _, x := range alpha {
		for _, y := range alpha {
			add(oneIn(string([]byte{x, y})))
		}
	}
	// (d) every atom alone in every context
	for _, a := range c06Atoms {
		if a != "" {
			add(oneIn(a))
		}
	}

	// (e) random tables, hostile texts; NUL in a separate counted stream
	n, nn, nd := 220, 40, 300
	if tier == "thorough" {
		n, nn, nd = 12000, 1500, 3000
	}
	for i := 0; i < n; i++ {
		s := c06Spec{Table: randTable(r, 5, 5, c06Text(false), hows), Renders: c06Renders(r, false)}
		c06Enrich(r, &s, false)
		if r.Pct(30) {
			s.TemplateName = pick(r, []string{"t", "table", "{{.}}", "<x>"})
		}
		add(s)
	}
	for i := 0; i < nn; i++ {
		s := c06Spec{Table: randTable(r, 4, 4, c06Text(true), hows), Renders: c06Renders(r, true)}
		c06Enrich(r, &s, true)
		add(s)
	}

	// (f) decoder against the standard library
	entAtoms := []string{"&", "amp;", "lt;", "gt;", "#34;", "#39;", "#43;", "#x3c;", "#60;", "#38;", "quot;", "apos;", "a", ";", "#",
		"&amp", "&lt", "&amp;", "&lt;", "&gt;", "&#34;", "&#39;", "&#43;", "<", "\"", "'", "+", ">", "\xff", "\x00", "&#", "&#3", "&#34", "&a", "&l", "&g", " ", "&#034;", "&#x22;", "&AMP;"}
	for i := 0; i < nd; i++ {
		var sb strings.Builder
		k := 1 + r.Intn(5)
		for j := 0; j < k; j++ {
			sb.WriteString(pick(r, entAtoms))
		}
		add(c06Spec{Dec: &c06Dec{Mode: "unescape", S: []byte(sb.String())}})
		s := c06Str(r, r.Pct(10))
		add(c06Spec{Dec: &c06Dec{Mode: pick(r, []string{"html.EscapeString", "template.HTMLEscapeString"}), S: []byte(s)}})
	}
	// the decoder cases are cheap to evaluate, the render cases are not:
	// spread them evenly so that the evaluation shards are balanced
	var out []json.RawMessage
	li := 0
	for i, h := range heavy {
		out = append(out, h)
		for li < len(light) && li*len(heavy) < (i+1)*len(light) {
			out = append(out, light[li])
			li++
		}
	}
	out = append(out, light[li:]...)
	return out
}

func cqSplice(p, d int, ins string) string {
	return fmt.Sprintf("(%s, %s, %s)", cqNat(p), cqNat(d), cqStr(ins))
}

func allIndex(b []byte, sub string) []int {
	var out []int
	for i := 0; i+len(sub) <= len(b); i++ {
		if string(b[i:i+len(sub)]) == sub {
			out = append(out, i)
		}
	}
	return out
}

// corruptions of a rendered output that a strict tokenizer must refuse (or
// read as something other than the skeleton), whatever the table was -- given
// that the uncorrupted output is accepted (Coq checks that precondition)
func c06Corruptions(out []byte, r *RNG) (splices []string, kinds []string) {
	addAt := func(kind string, pos []int, f func(p int) string) {
		if len(pos) == 0 {
			return
		}
		splices = append(splices, f(pos[r.Intn(len(pos))]))
		kinds = append(kinds, kind)
	}
	// drop a '>'
	addAt("drop-gt", allIndex(out, ">"), func(p int) string { return cqSplice(p, 1, "") })
	// inject an unescaped tag into a cell (or, without cells, the body)
	cellStarts := append(allIndex(out, "<td>"), allIndex(out, "<th>")...)
	if len(cellStarts) > 0 {
		addAt("inject-tag", cellStarts, func(p int) string { return cqSplice(p+4, 0, "<b>") })
	} else {
		addAt("inject-tag", allIndex(out, "<tbody>"), func(p int) string { return cqSplice(p+7, 0, "<b>") })
	}
	// unescape one entity (not &#43;: a raw + means the same)
	type ent struct {
		e string
		c string
	}
	var epos []int
	var erep []ent
	for _, e := range []ent{{"&lt;", "<"}, {"&gt;", ">"}, {"&#34;", "\""}, {"&#39;", "'"}, {"&amp;", "&"}} {
		for _, p := range allIndex(out, e.e) {
			epos = append(epos, p)
			erep = append(erep, e)
		}
	}
	if len(epos) > 0 {
		k := r.Intn(len(epos))
		splices = append(splices, cqSplice(epos[k], len(erep[k].e), erep[k].c))
		kinds = append(kinds, "unescape-entity")
		// truncate an entity: drop its ';'
		k = r.Intn(len(epos))
		splices = append(splices, cqSplice(epos[k]+len(erep[k].e)-1, 1, ""))
		kinds = append(kinds, "truncate-entity")
	}
	// add an attribute
	tagStarts := append(append(allIndex(out, "<td"), allIndex(out, "<tr")...), allIndex(out, "<table")...)
	addAt("add-attribute", tagStarts, func(p int) string {
		n := 3
		if string(out[p:p+3]) == "<ta" {
			n = 6
		}
		return cqSplice(p+n, 0, ` x="y"`)
	})
	// lose the end of the document
	if ends := allIndex(out, "</table>"); len(ends) > 0 {
		p := ends[len(ends)-1]
		splices = append(splices, cqSplice(p, len(out)-p, ""))
		kinds = append(kinds, "truncate-document")
	}
	// stray text between rows
	addAt("stray-text", allIndex(out, "</tr>"), func(p int) string { return cqSplice(p+5, 0, "x") })
	if os.Getenv("VERIF_C06_BREAK_SELFTEST") != "" {
		// demonstration only: an identity "corruption" is accepted by any
		// tokenizer, so the self-test must fail and the run must exit 2
		return []string{cqSplice(0, 0, "")}, []string{"identity"}
	}
	// a random three of them per render (evaluation cost); every kind is counted in the distribution
	for len(splices) > 3 {
		k := r.Intn(len(splices))
		splices = append(splices[:k], splices[k+1:]...)
		kinds = append(kinds[:k], kinds[k+1:]...)
	}
	return
}

type c06RenderObs struct {
	Outcome
	Calls   []int    `json:"calls"`
	Returns []string `json:"returns,omitempty"`
	Corrupt []string `json:"corruptions,omitempty"`
}

func c06Classes(ss ...[]byte) []string {
	seen := map[string]bool{}
	for _, s := range ss {
		if bytes.ContainsAny(s, "<>") {
			seen["text:angle"] = true
		}
		if bytes.ContainsAny(s, "\"'") {
			seen["text:quote"] = true
		}
		if bytes.ContainsAny(s, "&") {
			seen["text:amp"] = true
		}
		if bytes.ContainsAny(s, "+") {
			seen["text:plus"] = true
		}
		if bytes.IndexByte(s, 0) >= 0 {
			seen["text:NUL"] = true
		}
		if !utf8Valid(s) {
			seen["text:invalid-utf8"] = true
		}
	}
	var out []string
	for k := range seen {
		out = append(out, k)
	}
	return out
}

func utf8Valid(b []byte) bool { return utf8.Valid(b) }

func c06RunDec(d *c06Dec) CaseOut {
	var raw, want string
	must := false
	switch d.Mode {
	case "html.EscapeString":
		raw, want, must = stdhtml.EscapeString(string(d.S)), string(d.S), true
	case "template.HTMLEscapeString":
		raw, want, must = template.HTMLEscapeString(string(d.S)), strings.ReplaceAll(string(d.S), "\x00", "\ufffd"), true
	default:
		raw, want = string(d.S), stdhtml.UnescapeString(string(d.S))
	}
	term := fmt.Sprintf("(let raw := %s in let go := %s in CDecode %s raw go ltac:(vm_cast_no_check (@eq_refl bool true)))",
		cqStr(raw), cqStr(want), cqBool(must))
	return CaseOut{
		Coq:  term,
		Desc: map[string]interface{}{"selftest": "decoder", "mode": d.Mode, "raw": fmt.Sprintf("%q", raw), "stdlib": fmt.Sprintf("%q", want)},
		Size: len(d.S), Tags: []string{"selftest:decoder:" + d.Mode}, Key: "dec" + d.Mode + raw, Nontrivial: false,
	}
}

// expected generator calls, positionally: 0 for the header row, then the
// 1-based position (separators counted) of every non-separator row
func c06Positional(v View) []int {
	out := []int{0}
	for i, r := range v.Rows {
		if r != nil {
			out = append(out, i+1)
		}
	}
	return out
}

func intsEqual(a, b []int) bool {
	if len(a) != len(b) {
		return false
	}
	for i := range a {
		if a[i] != b[i] {
			return false
		}
	}
	return true
}

// c06Rec: what one Render / RenderTo call of the wrapper did
type c06Rec struct {
	calls []int
	rets  [][]byte
	out   []byte // bytes returned by Render, or accepted by RenderTo's writer
	// a render of ANOTHER table through ANOTHER wrapper made from inside this
	// render's generator (re-entrant), and that wrapper's record of it
	innerOut *Outcome
	innerRec *c06Rec
}

// c06Wrapper is the ONE html wrapper of a case and the generator bookkeeping
// around it; it is what BuildRenderW drives (Render and RenderTo), and every
// call gets its own record.
type c06Wrapper struct {
	ht      *html.HTMLTable
	cur     *c06Rec
	hist    []*c06Rec
	panicAt int // the generator panics on its call number panicAt (-1 never)
}

// begin opens the record of one Render / RenderTo call; the returned function
// closes it.  Calls nest (TableSpec.Reenter renders this same wrapper again
// from a render-time callback of the outer render): when the nested call is
// over, the generator calls of the outer render go to the outer record again.
func (w *c06Wrapper) begin() (rec *c06Rec, end func()) {
	prev := w.cur
	rec = &c06Rec{}
	w.cur = rec
	w.hist = append(w.hist, rec)
	return rec, func() { w.cur = prev }
}

func (w *c06Wrapper) Render() (string, error) {
	rec, end := w.begin()
	defer end()
	s, err := w.ht.Render()
	rec.out = []byte(s)
	return s, err
}

type c06Tee struct {
	to  io.Writer
	rec *c06Rec
}

func (t *c06Tee) Write(p []byte) (int, error) {
	n, err := t.to.Write(p)
	if n > 0 && n <= len(p) {
		t.rec.out = append(t.rec.out, p[:n]...)
	}
	return n, err
}

func (w *c06Wrapper) RenderTo(x io.Writer) error {
	rec, end := w.begin()
	defer end()
	return w.ht.RenderTo(&c06Tee{x, rec})
}

// the record of the call that produced outcome o (BuildRenderW may run a
// side render after the one it reports)
func (w *c06Wrapper) match(o Outcome) *c06Rec {
	if len(w.hist) == 0 {
		return &c06Rec{}
	}
	if o.Kind == "ok" {
		for k := len(w.hist) - 1; k >= 0; k-- {
			if bytes.Equal(w.hist[k].out, o.Out) {
				return w.hist[k]
			}
		}
	}
	return w.hist[len(w.hist)-1]
}

func (w *c06Wrapper) configure(rd c06Render) {
	w.ht.Id, w.ht.Class, w.ht.Caption = string(rd.Id), string(rd.Class), string(rd.Caption)
	w.panicAt = -1
	if rd.Fault != nil && rd.Fault.Kind == "gen-panic" {
		w.panicAt = rd.Fault.At
	}
	if rd.Gen == nil {
		w.ht.SetRowClassGenerator(nil, nil)
		return
	}
	vals := rd.Gen.Vals
	// the other table and its own wrapper, for a re-entrant render
	var iw *c06Wrapper
	innerAt := -1
	if in := rd.Inner; in != nil && in.Render != nil {
		it := tabular.New()
		in.Table.Build(it)
		iw = &c06Wrapper{ht: html.Wrap(it), panicAt: -1}
		iw.ht.TemplateName = w.ht.TemplateName
		ird := *in.Render
		ird.Inner, ird.Fault = nil, nil
		iw.configure(ird)
		if in.Warm {
			capture(iw.Render)
		}
		innerAt = in.At
	}
	w.ht.SetRowClassGenerator(func(n int, ctx interface{}) template.HTMLAttr {
		if w.panicAt >= 0 && len(w.cur.calls) == w.panicAt {
			panic("c06: scripted panic of the row-class generator")
		}
		if iw != nil && len(w.cur.calls) == innerAt {
			// in the middle of this table's render, render the other one
			cur := w.cur
			o := capture(iw.Render)
			cur.innerOut, cur.innerRec = &o, iw.match(o)
		}
		var ret []byte
		if len(vals) > 0 {
			ret = vals[len(w.cur.calls)%len(vals)]
		}
		w.cur.calls = append(w.cur.calls, n)
		w.cur.rets = append(w.cur.rets, ret)
		return template.HTMLAttr(ret)
	}, nil)
}

// c06FaultWriter fails (or accepts only half of the bytes) on call number at
type c06FaultWriter struct {
	at, calls int
	short     bool
}

func (f *c06FaultWriter) Write(p []byte) (int, error) {
	i := f.calls
	f.calls++
	if i == f.at {
		if f.short {
			return len(p) / 2, io.ErrShortWrite
		}
		return 0, errors.New("c06: scripted write failure")
	}
	return len(p), nil
}

// a render that is meant to FAIL (not judged; what matters is that the next
// render of the same wrapper is unaffected by it)
func (w *c06Wrapper) faulty(f *c06Fault) Outcome {
	switch f.Kind {
	case "writer":
		return capture(func() (string, error) { return "", w.RenderTo(&c06FaultWriter{at: f.At}) })
	case "short":
		return capture(func() (string, error) { return "", w.RenderTo(&c06FaultWriter{at: f.At, short: true}) })
	default: // gen-panic: configured into the generator
		return capture(w.Render)
	}
}

// the Coq record of one render and its human-readable description
func c06RenderTerm(rd c06Render, o Outcome, rec *c06Rec, crng *RNG) (term string, ro c06RenderObs) {
	ro = c06RenderObs{Outcome: o, Calls: rec.calls}
	var obsTerm string
	var splices []string
	switch o.Kind {
	case "ok":
		cs := make([]string, len(rec.calls))
		for i, c := range rec.calls {
			if c < 0 {
				c = 1 << 20 // never expected; keeps the term a nat
			}
			cs[i] = cqNat(c)
		}
		obsTerm = "(Ok (" + cqBytes(o.Out) + ", " + cqList(cs) + "))"
		splices, ro.Corrupt = c06Corruptions(o.Out, crng)
	case "err":
		obsTerm = "Err"
	default:
		obsTerm = "Panic"
	}
	rs := make([]string, len(rec.rets))
	for i, x := range rec.rets {
		rs[i] = cqBytes(x)
		ro.Returns = append(ro.Returns, fmt.Sprintf("%q", x))
	}
	term = fmt.Sprintf("mkR %s %s %s %s %s %s %s", cqBytes(rd.Id), cqBytes(rd.Class), cqBytes(rd.Caption),
		cqBool(rd.Gen != nil), cqList(rs), obsTerm, cqList(splices))
	return
}

func c06CaseTerm(vc string, rterms []string) string {
	return "(let v := " + vc + " in\n   let rs := [" + strings.Join(rterms, ";\n     ") + "] in\n   CRenders v rs ltac:(vm_cast_no_check (@eq_refl bool true)))"
}

func c06ViewTexts(v View) [][]byte {
	var all [][]byte
	if v.Header != nil {
		for _, c := range *v.Header {
			all = append(all, []byte(c.Text))
		}
	}
	for _, r := range v.Rows {
		if r != nil {
			for _, c := range *r {
				all = append(all, []byte(c.Text))
			}
		}
	}
	return all
}

func c06Run(spec json.RawMessage) CaseOut {
	var s c06Spec
	if err := json.Unmarshal(spec, &s); err != nil {
		panic(err)
	}
	if s.Dec != nil {
		return c06RunDec(s.Dec)
	}
	if s.Hist != nil {
		return c06RunHist(s.Hist)
	}
	if len(s.Renders) == 0 {
		s.Renders = []c06Render{{}}
	}
	s.Renders[0].Fault = nil // the render at the end of the build is always a judged one
	// What the output is judged against comes from the SPEC alone (what was
	// put in, with the final texts of mutated items), never read back from the
	// table under test.
	v := s.Table.SpecView()
	crng := NewRNG(s.CorruptSeed)

	// Build through the shared builder: whenever earlier renders are part of
	// the history (stages, mutations, faults) the ONE wrapper is made before the
	// first building call; staged renders (some into failing writers), the
	// render before a mutation, the final render (Render, or RenderTo into a
	// non-buffer writer) and the single-fault side render all go through it,
	// with the configuration of render 0.
	t := tabular.New()
	w := &c06Wrapper{panicAt: -1}
	o0 := s.Table.BuildRenderW(t, func(t tabular.Table) RenderW {
		w.ht = html.Wrap(t)
		w.ht.TemplateName = s.TemplateName
		w.configure(s.Renders[0])
		return w
	})

	type group struct {
		vc     string
		rterms []string
	}
	groups := []*group{{vc: v.Coq(true)}}
	var obs []interface{}
	tags := shapeTags(v)
	all := c06ViewTexts(v)
	size := s.Table.Size()
	okAll, callsOK := true, true
	want := c06Positional(v)
	var innerTerms []string
	note := func(k int, rd c06Render, o Outcome, rec *c06Rec) {
		term, ro := c06RenderTerm(rd, o, rec, crng)
		g := groups[len(groups)-1]
		g.rterms = append(g.rterms, term)
		obs = append(obs, ro)
		tags = append(tags, "outcome="+o.Kind)
		for _, kd := range ro.Corrupt {
			tags = append(tags, "selftest:corrupt:"+kd)
		}
		if o.Kind != "ok" {
			okAll = false
		} else if rd.Gen != nil && !intsEqual(rec.calls, want) {
			callsOK = false
		}
		if rec.innerOut != nil && rd.Inner != nil {
			// the other table, rendered re-entrantly, is judged on its own
			iv := rd.Inner.Table.SpecView()
			ird := *rd.Inner.Render
			iterm, iro := c06RenderTerm(ird, *rec.innerOut, rec.innerRec, crng)
			innerTerms = append(innerTerms, c06CaseTerm(iv.Coq(true), []string{iterm}))
			obs = append(obs, map[string]interface{}{"reentrant_render_of_other_table": iro, "from_generator_call": rd.Inner.At})
			tags = append(tags, "reentrant-render-from-generator")
			if rec.innerOut.Kind != "ok" {
				okAll = false
			} else if ird.Gen != nil && !intsEqual(rec.innerRec.calls, c06Positional(iv)) {
				callsOK = false
			}
			all = append(all, c06ViewTexts(iv)...)
			size += 3 + rd.Inner.Table.Size() + rd.Inner.At
		}
		all = append(all, rec.rets...)
		all = append(all, rd.Id, rd.Class, rd.Caption)
		size += len(rd.Id) + len(rd.Class) + len(rd.Caption) + 1
		if rd.Gen != nil {
			size += 1
			for _, x := range rd.Gen.Vals {
				size += 1 + len(x)
			}
			if len(rd.Gen.Vals) == 0 {
				tags = append(tags, "gen=empty-string")
			} else {
				tags = append(tags, "gen=hostile")
			}
		} else {
			tags = append(tags, "gen=absent")
		}
		if len(rd.Caption) > 0 {
			tags = append(tags, "caption")
		}
		if len(rd.Id) > 0 {
			tags = append(tags, "id")
		}
		if len(rd.Class) > 0 {
			tags = append(tags, "class")
		}
		if k > 0 {
			p := s.Renders[k-1]
			if !bytes.Equal(p.Id, rd.Id) || !bytes.Equal(p.Class, rd.Class) || !bytes.Equal(p.Caption, rd.Caption) || (p.Gen == nil) != (rd.Gen == nil) {
				tags = append(tags, "rerender:changed-fields")
			} else {
				tags = append(tags, "rerender:same-fields")
			}
		}
	}
	note(0, s.Renders[0], o0, w.match(o0))

	// Zero-value rows (new(tabular.Row), &tabular.Row{}) appended after the
	// first judged render: rows with no cells.  (DESIGN 13.10 keeps zero-value
	// literals out of "built through the public API"; HEAD emits <tr></tr> for
	// them and numbers them like any row, and that is what is expected here -
	// positionally, without asking the library's IsSeparator.)
	if s.ZeroRows > 0 && len(s.Renders) > 1 {
		v2 := v
		v2.Rows = append([]*[]VCell{}, v.Rows...)
		for i := 0; i < s.ZeroRows; i++ {
			if i%2 == 0 {
				t.AddRow(new(tabular.Row))
			} else {
				t.AddRow(&tabular.Row{})
			}
			v2.Rows = append(v2.Rows, &[]VCell{})
		}
		v = v2
		want = c06Positional(v)
		groups = append(groups, &group{vc: v.Coq(true)})
		tags = append(tags, "zero-value-row")
		size += 2 * s.ZeroRows
	}

	// Between the first and the later renders some of the table's row objects
	// are ALSO added to a second table, at other positions: whatever a *Row
	// remembers about "its" position now belongs to that other table, while
	// this table's rows, and so the expected numbering, are unchanged.
	var otherTerm string
	if s.Share != nil {
		other := tabular.New()
		ov := View{}
		for i := 0; i < s.Share.Pad; i++ {
			if i%2 == 0 {
				other.AddSeparator()
				ov.Rows = append(ov.Rows, nil)
			} else {
				other.AddRowItems("p")
				ov.Rows = append(ov.Rows, &[]VCell{{Text: "p"}})
			}
		}
		rows := t.AllRows()
		shared := 0
		for _, i := range s.Share.Rows {
			if i < 0 || i >= len(rows) || i >= len(v.Rows) || v.Rows[i] == nil || rows[i] == nil {
				continue
			}
			other.AddRow(rows[i])
			ov.Rows = append(ov.Rows, v.Rows[i])
			shared++
		}
		if shared > 0 {
			tags = append(tags, "row-shared-with-second-table")
			for _, r := range ov.Rows {
				if r != nil && len(*r) > ov.NCols {
					ov.NCols = len(*r)
				}
			}
			for i := 0; i <= ov.NCols; i++ {
				ov.Align = append(ov.Align, 0)
				ov.Skip = append(ov.Skip, 0)
			}
			// the second table is rendered (and judged) too, through its own wrapper
			ow := &c06Wrapper{ht: html.Wrap(other), panicAt: -1}
			ord := c06Render{Gen: &c06Gen{Vals: [][]byte{[]byte("o")}}}
			ow.configure(ord)
			oo := capture(ow.Render)
			term, ro := c06RenderTerm(ord, oo, ow.match(oo), crng)
			obs = append(obs, ro)
			if oo.Kind != "ok" {
				okAll = false
			} else if !intsEqual(ow.match(oo).calls, c06Positional(ov)) {
				callsOK = false
			}
			otherTerm = c06CaseTerm(ov.Coq(true), []string{term})
			size += 2 + shared + s.Share.Pad
		}
	}
	for k := 1; k < len(s.Renders); k++ {
		rd := s.Renders[k]
		w.configure(rd)
		if rd.Fault != nil {
			// a render that fails: the writer errs or accepts half, or the
			// generator panics mid-table; not judged itself
			fo := w.faulty(rd.Fault)
			obs = append(obs, map[string]interface{}{"faulty_render": rd.Fault, "kind": fo.Kind, "err": fo.ErrS, "panic": fo.Panic})
			tags = append(tags, "failed-render:"+rd.Fault.Kind)
			size += 2
			continue
		}
		o := capture(w.Render)
		note(k, rd, o, w.match(o))
	}

	for _, r := range s.Table.Rows {
		if r.Twice && (r.How == 1 || r.How == 3) && !r.Sep {
			tags = append(tags, "row-attached-twice")
		}
		if len(r.Late) > 0 {
			tags = append(tags, "late-cells")
		}
	}
	if len(s.Table.Stages) > 0 {
		tags = append(tags, "staged-renders")
	}
	if s.Table.StageFaults {
		tags = append(tags, "staged-renders-into-failing-writer")
	}
	if s.Table.Header2 != nil {
		tags = append(tags, "second-header")
	}
	if len(s.Table.Mutations) > 0 {
		tags = append(tags, "cell-text-mutated-between-renders")
	}
	if s.Table.Scribble {
		tags = append(tags, "caller-scribbles-allrows")
	}
	if s.Table.FinalVia == 1 {
		tags = append(tags, "final-via-renderto")
	}
	if s.Table.FaultAt > 0 {
		tags = append(tags, "single-write-fault-side-run")
	}
	if s.Table.Reenter > 0 {
		tags = append(tags, "same-wrapper-reentered-from-render-callback")
	}
	cls := c06Classes(all...)
	tags = append(tags, cls...)
	tags = append(tags, fmt.Sprintf("renders=%d", len(s.Renders)))
	// de-duplicate tags (a tag counts once per case)
	seen := map[string]bool{}
	var utags []string
	for _, tg := range tags {
		if !seen[tg] {
			seen[tg] = true
			utags = append(utags, tg)
		}
	}
	var terms []string
	for _, g := range groups {
		if len(g.rterms) > 0 {
			terms = append(terms, c06CaseTerm(g.vc, g.rterms))
		}
	}
	if otherTerm != "" {
		terms = append(terms, otherTerm)
	}
	terms = append(terms, innerTerms...)
	term := terms[0]
	for _, x := range terms[1:] {
		term = "(CBoth " + term + "\n  " + x + ")"
	}
	sig := "html-render"
	switch {
	case !okAll:
		sig = "html-render-fails"
	case !callsOK:
		sig = "rowclass-call-numbers"
	}
	return CaseOut{
		Coq:        term,
		Desc:       map[string]interface{}{"renders": obs, "sig": sig, "expected_calls_when_generator_set": want},
		Size:       size,
		Tags:       utags,
		Key:        term,
		Nontrivial: len(cls) > 0,
	}
}

func c06Shrink(spec json.RawMessage) []json.RawMessage {
	var s c06Spec
	if err := json.Unmarshal(spec, &s); err != nil || s.Dec != nil {
		return nil
	}
	if s.Hist != nil {
		return c06ShrinkHist(s.Hist)
	}
	var out []json.RawMessage
	emit := func(c c06Spec) {
		c.fillQ()
		out = append(out, mustJSON(c))
	}
	clone := func() c06Spec {
		var c c06Spec
		json.Unmarshal(mustJSON(s), &c)
		return c
	}
	for _, ts := range shrinkTable(s.Table) {
		c := clone()
		c.Table = ts
		emit(c)
	}
	for i := range s.Table.Rows {
		if s.Table.Rows[i].Twice {
			c := clone()
			c.Table.Rows[i].Twice = false
			emit(c)
		}
	}
	if s.Table.Header2 != nil {
		c := clone()
		c.Table.Header2 = nil
		emit(c)
	}
	if s.ZeroRows > 0 {
		c := clone()
		c.ZeroRows--
		emit(c)
	}
	for i := range s.Table.Mutations {
		c := clone()
		c.Table.Mutations = append(append([]Mutation{}, s.Table.Mutations[:i]...), s.Table.Mutations[i+1:]...)
		emit(c)
	}
	for _, f := range []func(*TableSpec) bool{
		func(t *TableSpec) bool { x := t.Scribble; t.Scribble = false; return x },
		func(t *TableSpec) bool { x := t.StageFaults; t.StageFaults = false; return x },
		func(t *TableSpec) bool { x := t.FinalVia != 0; t.FinalVia = 0; return x },
		func(t *TableSpec) bool { x := t.FaultAt != 0; t.FaultAt = 0; return x },
		func(t *TableSpec) bool { x := len(t.PropOps) > 0; t.PropOps = nil; return x },
	} {
		c := clone()
		if f(&c.Table) {
			emit(c)
		}
	}
	for i := range s.Renders {
		if in := s.Renders[i].Inner; in != nil {
			c := clone()
			c.Renders[i].Inner = nil
			emit(c)
			if in.At > 0 {
				c := clone()
				c.Renders[i].Inner.At--
				emit(c)
			}
			if in.Warm {
				c := clone()
				c.Renders[i].Inner.Warm = false
				emit(c)
			}
			for _, ts := range shrinkTable(in.Table) {
				c := clone()
				c.Renders[i].Inner.Table = ts
				emit(c)
			}
		}
	}
	for i := range s.Renders {
		if f := s.Renders[i].Fault; f != nil && f.At > 0 {
			c := clone()
			c.Renders[i].Fault.At--
			emit(c)
		}
	}
	if sh := s.Share; sh != nil {
		c := clone()
		c.Share = nil
		emit(c)
		for i := range sh.Rows {
			if len(sh.Rows) > 1 {
				c := clone()
				c.Share.Rows = append(append([]int{}, sh.Rows[:i]...), sh.Rows[i+1:]...)
				emit(c)
			}
			if sh.Rows[i] > 0 {
				c := clone()
				c.Share.Rows[i]--
				emit(c)
			}
		}
		if sh.Pad > 0 {
			c := clone()
			c.Share.Pad--
			emit(c)
		}
	}
	for i := range s.Renders {
		if len(s.Renders) > 1 {
			c := clone()
			c.Renders = append(append([]c06Render{}, c.Renders[:i]...), c.Renders[i+1:]...)
			emit(c)
		}
		fields := []func(*c06Render) *[]byte{
			func(r *c06Render) *[]byte { return &r.Id },
			func(r *c06Render) *[]byte { return &r.Class },
			func(r *c06Render) *[]byte { return &r.Caption },
		}
		for _, f := range fields {
			cur := *f(&s.Renders[i])
			if len(cur) == 0 {
				continue
			}
			for _, nv := range [][]byte{nil, cur[:len(cur)/2], cur[1:]} {
				c := clone()
				*f(&c.Renders[i]) = append([]byte{}, nv...)
				emit(c)
			}
		}
		if g := s.Renders[i].Gen; g != nil {
			c := clone()
			c.Renders[i].Gen = nil
			emit(c)
			for j := range g.Vals {
				c := clone()
				c.Renders[i].Gen.Vals = append(append([][]byte{}, g.Vals[:j]...), g.Vals[j+1:]...)
				emit(c)
				if len(g.Vals[j]) > 0 {
					c := clone()
					c.Renders[i].Gen.Vals[j] = append([]byte{}, g.Vals[j][:len(g.Vals[j])/2]...)
					emit(c)
					c2 := clone()
					c2.Renders[i].Gen.Vals[j] = append([]byte{}, g.Vals[j][1:]...)
					emit(c2)
				}
			}
		}
	}
	if s.TemplateName != "" {
		c := clone()
		c.TemplateName = ""
		emit(c)
	}
	return out
}

func init() {
	register(&Prop{
		ID:       "C06",
		Imports:  "From Tab Require Import Run.Glue Run.C06Run.",
		CaseType: "c06_case",
		CaseFn:   "C06_case",
		ModelFn:  "C06_model",
		Rule: "the output is judged against the view computed from the SPEC (never read back from the table under test); tables built through the public API (incl. a second AddHeaders, cells added to a row long after it was attached, a pre-built row attached twice, rows also added to a second table at another position between two renders, intermediate renders of the partial table through the one reused wrapper - some into failing writers -, a cell text changed in place (item mutated, Cell.Update through CellAt/Headers, same cell count) between two renders, the final render through RenderTo into a non-buffer writer, the caller scribbling over its AllRows() copy; renders that FAIL - writer error or short write on its first / a later call, generator panicking on its first / a later call - followed by judged renders of the same wrapper; zero-value rows appended between renders, expected positionally as rows without cells; re-entrant renders: the generator, on its k-th call, renders another table of another shape through another wrapper of the same TemplateName - both outputs and both call lists are judged, each against its own table), wrapped once by html.Wrap and rendered 2-3 times from that wrapper with Id/Class/Caption/TemplateName and the row-class generator (absent / returning \"\" / returning hostile strings as template.HTMLAttr) changed between renders; " +
			"every shape with header in {none,0,1,2 cells} and up to 3 rows over {separator,0,1,2 cells}; every single byte value 0..255, every pair over 12 hostile ASCII bytes and every hostile atom, each in cell, header, caption, id, class and generator-value position; " +
			"random tables to 5x5 with texts from a markup-hostile alphabet (< > \" ' & + = / space LF backtick, entity look-alikes, tag text, comment text, template syntax, invalid UTF-8), NUL in a separate stream judged against U+FFFD; " +
			"each accepted output is also corrupted (dropped '>', injected tag, unescaped / truncated entity, added attribute, truncated document, stray text) and the Coq tokenizer must refuse every corruption; the Coq entity decoder is compared with html.UnescapeString / html.EscapeString / template.HTMLEscapeString; " +
			"HISTORIES OF LONG-LIVED WRAPPERS (c06_hist.go; Model/HtmlWrap.v, Spec/HtmlWrapSpec.v): several tables and several *HTMLTable objects, events html.Wrap / html.New (table built through the wrapper) / by-value copy of a wrapper / the exported Table field pointed at another table (or at another wrapper around it) / Id, Class, Caption, TemplateName and the row-class generator WITH ITS CONTEXT set again (the generator's values come from the context it is registered with; a fresh closure per registration, or one shared function under different contexts) / tables built further or re-headed between renders, directly or through a wrapper pointing at them / Render and RenderTo / renders that fail part-way; EVERY successful render of a history is judged against the spec view of the table the wrapper points at at that moment and the settings it has at that moment, Coq reading the expectation off the history without any memory of earlier renders; " +
			"a case is non-trivial when some supplied string contains a byte that needs escaping or invalid UTF-8; distinct = distinct (view, renders, outcomes)",
		Exhaustive: "shapes (header x row-sequence up to length 3); all row sequences up to length 3 over {separator, row, twice-attached row} with a generator; all 256 single bytes, all 144 pairs over 12 hostile bytes and all atoms in six contexts; every word up to length 3 (thorough: 4) with at least one render over the eight wrapper-life events {render, failing render, point at the other table, copy by value, switch wrapper, set fields/generator, build the table further, fresh wrapper} on two tables of different shapes, each followed by a render of every wrapper; the second use of a wrapper (pointed at / copied and pointed at another table after a render) for every shape of the second table with header in {none,0,1,2 cells} and up to 2 rows",
		Gen:        c06GenTpl,
		Run:        c06RunTpl,
		Shrink:     c06Shrink,
	})
}

// the first case of every run: the template as the SOURCE of the repository
// under test has it (htmltpl.go), which Coq compares with the tree the theorem
// c06_template_is_model is about
func c06GenTpl(r *RNG, tier string) []json.RawMessage {
	return append([]json.RawMessage{json.RawMessage(`{"template_from_source":true}`)}, c06Gen_(r, tier)...)
}

func c06RunTpl(spec json.RawMessage) CaseOut {
	var probe map[string]json.RawMessage
	if err := json.Unmarshal(spec, &probe); err == nil {
		if _, ok := probe["template_from_source"]; ok {
			term, err := htmlTemplateAST()
			if err != nil {
				// the template is no longer in the modelled subset (or not found): the theorem cannot speak about it
				term = "[NText (B 0%nat [])]"
				return CaseOut{Coq: "(CTpl " + term + ")", Desc: map[string]interface{}{"template_error": err.Error(), "sig": "template-outside-modelled-subset"},
					Size: 1, Tags: []string{"template-from-source"}, Key: "tpl-error", Nontrivial: true}
			}
			return CaseOut{Coq: "(CTpl " + term + ")", Desc: map[string]interface{}{"template_from_source": true, "sig": "template-differs-from-recorded"},
				Size: 1, Tags: []string{"template-from-source"}, Key: "tpl", Nontrivial: true}
		}
	}
	return c06Run(spec)
}
