package main

import (
	"bytes"
	"encoding/json"
	"errors"
	"fmt"
	"io"
	"strings"

	"go.pennock.tech/tabular"
	"go.pennock.tech/tabular/length"
	"go.pennock.tech/tabular/properties"
	"go.pennock.tech/tabular/properties/align"
)

// ---------------------------------------------------------------- items

// ItemSpec describes a value to store in a cell.
type ItemSpec struct {
	K     string    `json:"k"` // nil str rune int bool float obj cell pcell slice map structx valstr strerr
	B     []byte    `json:"b,omitempty"`
	Q     string    `json:"q,omitempty"` // human-readable preview of B
	R     int32     `json:"r,omitempty"`
	I     int64     `json:"i,omitempty"`
	F     float64   `json:"f,omitempty"`
	Mask  int       `json:"mask,omitempty"`
	S     []byte    `json:"s,omitempty"`
	G     []byte    `json:"g,omitempty"`
	E     []byte    `json:"e,omitempty"`
	H     int       `json:"h,omitempty"`
	W     int       `json:"w,omitempty"`
	Inner *ItemSpec `json:"inner,omitempty"`
}

func Str(s string) ItemSpec { return ItemSpec{K: "str", B: []byte(s), Q: fmt.Sprintf("%q", s)} }

var sharedChan = make(chan int)

type valStringer struct{ s string }

func (v valStringer) String() string { return v.s }

type strErr string

func (e strErr) Error() string { return string(e) }

type exportedStruct struct {
	A int
	B string
}

// Make builds the Go value; the second result lets a test mutate it.
func (it ItemSpec) Make() (interface{}, *objData) {
	switch it.K {
	case "nil":
		return nil, nil
	case "str":
		return string(it.B), nil
	case "rune":
		return rune(it.R), nil
	case "int":
		return int(it.I), nil
	case "bool":
		return it.I != 0, nil
	case "float":
		return it.F, nil
	case "obj":
		return newObj(it.Mask, objData{s: string(it.S), g: string(it.G), e: string(it.E), h: it.H, w: it.W})
	case "cell":
		v, _ := it.Inner.Make()
		return tabular.NewCell(v), nil
	case "pcell":
		v, _ := it.Inner.Make()
		c := tabular.NewCell(v)
		return &c, nil
	case "slice":
		return []int{int(it.I), 2}, nil
	case "map":
		return map[string]int{string(it.B): int(it.I)}, nil
	case "structx":
		return exportedStruct{A: int(it.I), B: string(it.B)}, nil
	case "valstr":
		return valStringer{string(it.B)}, nil
	case "strerr":
		return strErr(it.B), nil
	case "chan":
		// one shared channel: %v of a channel is its address, and the same spec
		// must give the same text every time it is made
		return sharedChan, nil
	}
	panic("unknown item kind " + it.K)
}

// ---------------------------------------------------------------- tables

// RowSpec: How = 0 AddRowItems; 1 NewRow, Add..., AddRow; 2 AppendNewRow then
// Add... (cells added after the row joined the table); 3 NewRowSizedFor,
// Add..., AddRow.
type RowSpec struct {
	Sep   bool       `json:"sep,omitempty"`
	How   int        `json:"how,omitempty"`
	Cells []ItemSpec `json:"cells"`
	// Late cells are appended through AllRows()[i].Add(...) once LateAfter
	// further rows have joined the table (or at the end of the build).
	Late      []ItemSpec `json:"late,omitempty"`
	LateAfter int        `json:"late_after,omitempty"`
	// Twice: the pre-built row (How 1 or 3) is passed to AddRow a second time
	// right away, so that it occupies two consecutive positions.
	Twice bool `json:"twice,omitempty"`
}

type TableSpec struct {
	Header   *[]ItemSpec `json:"header"`              // nil = no AddHeaders call
	HeaderAt int         `json:"header_at,omitempty"` // AddHeaders is called before body row #HeaderAt
	Rows     []RowSpec   `json:"rows"`
	Align    map[int]int `json:"align,omitempty"` // column -> 1 left, 2 right, 3 centre
	Skip     map[int]int `json:"skip,omitempty"`  // column -> 1 true, 2 false, 3 non-bool
	// Stages: after the body rows with these indices an intermediate render
	// happens through a wrapper that lives across the whole build (harnesses
	// that opt in: BuildRender).
	Stages []int `json:"stages,omitempty"`
	// Header2: AddHeaders is called a second time, after all rows (and after a
	// staged render when Stages is non-empty), replacing the header row.
	Header2 *[]ItemSpec `json:"header2,omitempty"`
	// AlignEarly / SkipEarly: column properties set before any row is added, on
	// the columns that exist by then; Align / Skip (set last) override them.
	AlignEarly map[int]int `json:"align_early,omitempty"`
	SkipEarly  map[int]int `json:"skip_early,omitempty"`
	// Mutations: after the last staged render the (mutable "obj") items of
	// these cells get a new text and the cell is updated through CellAt (or
	// Headers for Row -1) - the documented way to change a cell's content.
	Mutations []Mutation `json:"mutations,omitempty"`
	// Scribble: before the final render the slice handed out by AllRows() is
	// reversed and partly nil-ed by the caller (it is documented as a copy).
	Scribble bool `json:"scribble,omitempty"`
	// StageFaults: staged renders go through RenderTo into a writer that
	// fails part-way (a transient failure of an earlier render).
	StageFaults bool `json:"stage_faults,omitempty"`
	// FinalVia: 0 = Render(); 1 = RenderTo into a plain collecting io.Writer
	// that is not a *bytes.Buffer.  FaultAt k > 0: additionally RenderTo runs
	// against a writer failing only on call k-1; should it return nil although
	// a write failed, what that writer accepted is reported as the output.
	FinalVia int `json:"final_via,omitempty"`
	FaultAt  int `json:"fault_at,omitempty"`
	// PropOps: a history of SetProperty calls on columns, applied in order after Align/Skip
	PropOps []PropOp `json:"prop_ops,omitempty"`
	// Reenter: the table carries a render-time callback (registered after the
	// build) that renders the SAME wrapper once more while the outer render is
	// in progress (1: Render() from a table-level pre-cell callback, 2: RenderTo
	// into a collecting writer from a table-level post-cell callback, 3: Render()
	// from a callback run for every cell); it changes nothing, and the outer
	// render must still produce the table.
	Reenter int `json:"reenter,omitempty"`
}

// reenterCB is a render-time callback that runs f unless it is already running.
type reenterCB struct {
	depth *int
	f     func()
}

func (c reenterCB) UpdateProperties(tabular.PropertyOwner) error {
	if *c.depth > 0 {
		return nil
	}
	*c.depth++
	defer func() { *c.depth-- }()
	c.f()
	return nil
}

// PropOp: one SetProperty on a column after everything else: Key 0 = alignment
// (Val 0 nil, 1 left, 2 right, 3 centre), 1 = skipable (0 nil, 1 true, 2
// false, 3 non-bool), 2.. = some other key of the application (Val 0 = nil).
type PropOp struct {
	Col int `json:"col"`
	Key int `json:"key"`
	Val int `json:"val"`
}

type Mutation struct {
	Row int    `json:"row"` // index into Rows; -1 = header
	Col int    `json:"col"`
	S   []byte `json:"s"`
}

// RenderW is what every rendering wrapper offers.
type RenderW interface {
	Render() (string, error)
	RenderTo(io.Writer) error
}

type collectWriter struct {
	acc    []byte
	calls  int
	failAt int // -1 never; k = fail only on call k; -2 = fail on every call from the second on
	failed bool
}

func (w *collectWriter) Write(p []byte) (int, error) {
	i := w.calls
	w.calls++
	if i == w.failAt || (w.failAt == -2 && i >= 1) {
		w.failed = true
		return 0, errors.New("collectWriter: scripted failure")
	}
	w.acc = append(w.acc, p...)
	return len(p), nil
}

// BuildRenderW builds the table and renders it through ONE wrapper made by mk
// (before the first building call when the spec has stages, mutations or
// faults, i.e. whenever earlier renders are part of the history).
func (ts TableSpec) BuildRenderW(t tabular.Table, mk func(tabular.Table) RenderW) Outcome {
	var w RenderW
	history := len(ts.Stages) > 0 || len(ts.Mutations) > 0 || ts.StageFaults
	if history {
		w = mk(t)
	}
	nStage := 0
	objs := ts.buildStaged(t, func() {
		nStage++
		if ts.StageFaults && nStage%2 == 1 {
			capture(func() (string, error) { return "", w.RenderTo(&collectWriter{failAt: -2}) })
			return
		}
		capture(w.Render)
	})
	if len(ts.Mutations) > 0 {
		capture(w.Render) // a render that sees the old texts
		for _, m := range ts.Mutations {
			od := objs[[2]int{m.Row, m.Col}]
			if od == nil {
				continue
			}
			od.s = string(m.S)
			if m.Row < 0 {
				if h := t.Headers(); m.Col < len(h) {
					h[m.Col].Update()
				}
			} else if c, err := t.CellAt(tabular.CellLocation{Row: ts.tableRow(m.Row) + 1, Column: m.Col + 1}); err == nil {
				c.Update()
			}
		}
	}
	if ts.Scribble {
		rows := t.AllRows()
		for i, j := 0, len(rows)-1; i < j; i, j = i+1, j-1 {
			rows[i], rows[j] = rows[j], rows[i]
		}
		if len(rows) > 0 {
			rows[0] = nil
		}
	}
	if w == nil {
		w = mk(t)
	}
	if ts.Reenter > 0 {
		depth := 0
		inner := func() { capture(w.Render) }
		if ts.Reenter == 2 {
			inner = func() {
				capture(func() (string, error) { return "", w.RenderTo(&collectWriter{failAt: -1}) })
			}
		}
		switch ts.Reenter {
		case 1:
			t.RegisterPropertyCallback(t, tabular.CB_AT_RENDER_PRECELL, tabular.CB_ON_ITSELF, reenterCB{&depth, inner})
		case 2:
			t.RegisterPropertyCallback(t, tabular.CB_AT_RENDER_POSTCELL, tabular.CB_ON_ITSELF, reenterCB{&depth, inner})
		default:
			t.RegisterPropertyCallback(t, tabular.CB_AT_RENDER, tabular.CB_ON_CELL, reenterCB{&depth, inner})
		}
	}
	var o Outcome
	if ts.FinalVia == 1 {
		cw := &collectWriter{failAt: -1}
		o = capture(func() (string, error) { err := w.RenderTo(cw); return string(cw.acc), err })
	} else {
		o = capture(w.Render)
	}
	if ts.FaultAt > 0 && o.Kind == "ok" {
		fw := &collectWriter{failAt: ts.FaultAt - 1}
		f := capture(func() (string, error) { err := w.RenderTo(fw); return string(fw.acc), err })
		if fw.failed && f.Kind == "ok" && !bytes.Equal(fw.acc, o.Out) {
			// RenderTo reported success although a write failed and the output is incomplete
			f.ErrS = "RenderTo returned nil after a failed write; this is what the writer accepted"
			return f
		}
		if fw.failed && f.Kind == "panic" {
			return f
		}
	}
	return o
}

// tableRow maps an index into Rows to the row's index in the table (rows
// attached twice occupy two positions).
func (ts TableSpec) tableRow(i int) int {
	n := 0
	for k := 0; k < i && k < len(ts.Rows); k++ {
		n++
		if ts.Rows[k].Twice && !ts.Rows[k].Sep && (ts.Rows[k].How == 1 || ts.Rows[k].How == 3) {
			n++
		}
	}
	return n
}

func makeItems(specs []ItemSpec) []interface{} {
	out := make([]interface{}, len(specs))
	for i := range specs {
		out[i], _ = specs[i].Make()
	}
	return out
}

var alignVals = map[int]interface{}{1: align.Left, 2: align.Right, 3: align.Center}

// Build replays the spec on t through the public API only.
func (ts TableSpec) Build(t tabular.Table) { ts.BuildStaged(t, nil) }

// BuildRender builds the table and renders it.  With stages, the wrapper (made
// by mk before any building call) is reused: it renders the partial table at
// every stage and the complete one at the end; what is returned is the last
// render.  Without stages the wrapper is made after the build.
func (ts TableSpec) BuildRender(t tabular.Table, mk func(tabular.Table) func() (string, error)) Outcome {
	var render func() (string, error)
	if len(ts.Stages) > 0 {
		render = mk(t)
	}
	ts.BuildStaged(t, func() { capture(render) })
	if render == nil {
		render = mk(t)
	}
	return capture(render)
}

// BuildStaged is Build with a hook called after each body row listed in Stages.
func (ts TableSpec) BuildStaged(t tabular.Table, hook func()) { ts.buildStaged(t, hook) }

// buildStaged also returns the mutable state of the "obj" items it stored,
// keyed by (index into Rows or -1 for the header, cell index).
func (ts TableSpec) buildStaged(t tabular.Table, hook func()) map[[2]int]*objData {
	objs := map[[2]int]*objData{}
	keepItems := func(row int, specs []ItemSpec, base int) []interface{} {
		out := make([]interface{}, len(specs))
		for i := range specs {
			var od *objData
			out[i], od = specs[i].Make()
			if od != nil {
				objs[[2]int{row, base + i}] = od
			}
		}
		return out
	}
	type pending struct {
		row, left  int
		cells      []ItemSpec
		spec, base int
	}
	var late []pending
	flush := func(all bool) {
		keep := late[:0]
		for _, p := range late {
			if all || p.left <= 0 {
				if rows := t.AllRows(); p.row < len(rows) {
					for _, it := range keepItems(p.spec, p.cells, p.base) {
						rows[p.row].Add(tabular.NewCell(it))
					}
				}
			} else {
				p.left--
				keep = append(keep, p)
			}
		}
		late = keep
	}
	staged := map[int]bool{}
	for _, s := range ts.Stages {
		staged[s] = true
	}
	addHeader := func() {
		if ts.Header != nil {
			t.AddHeaders(keepItems(-1, *ts.Header, 0)...)
		}
	}
	setProps := func(al, sk map[int]int) {
		for c, a := range al {
			if col := t.Column(c); col != nil {
				col.SetProperty(align.PropertyType, alignVals[a])
			}
		}
		for c, s := range sk {
			if col := t.Column(c); col != nil {
				switch s {
				case 1:
					col.SetProperty(properties.Skipable, true)
				case 2:
					col.SetProperty(properties.Skipable, false)
				case 3:
					col.SetProperty(properties.Skipable, "yes")
				}
			}
		}
	}
	if ts.HeaderAt <= 0 && len(ts.AlignEarly)+len(ts.SkipEarly) > 0 && ts.Header != nil {
		// the header first, so that its columns exist when the early properties are set
		t.AddHeaders(keepItems(-1, *ts.Header, 0)...)
		setProps(ts.AlignEarly, ts.SkipEarly)
	} else {
		setProps(ts.AlignEarly, ts.SkipEarly)
	}
	done := ts.HeaderAt <= 0 && len(ts.AlignEarly)+len(ts.SkipEarly) > 0 && ts.Header != nil
	for i, r := range ts.Rows {
		if !done && ts.HeaderAt <= i {
			addHeader()
			done = true
		}
		switch {
		case r.Sep:
			t.AddSeparator()
		case r.How == 1 || r.How == 3:
			var row *tabular.Row
			if r.How == 1 {
				row = tabular.NewRow()
			} else {
				row = t.NewRowSizedFor()
			}
			for _, it := range keepItems(i, r.Cells, 0) {
				row.Add(tabular.NewCell(it))
			}
			t.AddRow(row)
			if r.Twice {
				t.AddRow(row)
			}
		case r.How == 2:
			row := t.AppendNewRow()
			for _, it := range keepItems(i, r.Cells, 0) {
				row.Add(tabular.NewCell(it))
			}
		default:
			t.AddRowItems(keepItems(i, r.Cells, 0)...)
		}
		flush(false)
		if len(r.Late) > 0 {
			late = append(late, pending{t.NRows() - 1, r.LateAfter, r.Late, i, len(r.Cells)})
			flush(false)
		}
		if hook != nil && staged[i] {
			hook()
		}
	}
	flush(true)
	if !done {
		addHeader()
	}
	if ts.Header2 != nil {
		if hook != nil && len(ts.Stages) > 0 {
			hook()
		}
		t.AddHeaders(keepItems(-1, *ts.Header2, 0)...)
	}
	// column properties are set last, when the columns exist
	setProps(ts.Align, ts.Skip)
	for _, op := range ts.PropOps {
		col := t.Column(op.Col)
		if col == nil {
			continue
		}
		switch op.Key {
		case 0:
			col.SetProperty(align.PropertyType, alignVals[op.Val])
		case 1:
			col.SetProperty(properties.Skipable, map[int]interface{}{1: true, 2: false, 3: "yes"}[op.Val])
		default:
			var v interface{}
			if op.Val != 0 {
				v = op.Val
			}
			col.SetProperty(fmt.Sprintf("app-key-%d", op.Key), v)
		}
	}
	return objs
}

// enrichSpec adds, with small probabilities, the multi-step features a plain
// shape lacks: a second AddHeaders after the rows (preceded by a staged render
// so that a reused wrapper has seen the first header), column properties set
// before the rows and overridden afterwards, a pre-built row attached twice.
func enrichSpec(r *RNG, ts *TableSpec, text func(*RNG) ItemSpec) {
	if ts.Header != nil && r.Pct(10) {
		n := len(*ts.Header)
		if r.Pct(30) {
			n = r.Intn(n + 2)
		}
		h2 := make([]ItemSpec, n)
		for i := range h2 {
			h2[i] = text(r)
		}
		ts.Header2 = &h2
		if len(ts.Stages) == 0 && len(ts.Rows) > 0 {
			ts.Stages = []int{len(ts.Rows) - 1}
		}
	}
	if r.Pct(10) {
		ts.AlignEarly = map[int]int{0: 1 + r.Intn(3)}
		if r.Bool() {
			ts.AlignEarly[1+r.Intn(2)] = 1 + r.Intn(3)
		}
		if ts.Align == nil {
			ts.Align = map[int]int{}
		}
		if r.Bool() {
			ts.Align[0] = 1 + r.Intn(3) // the default is changed after the columns exist
		}
	}
	if r.Pct(6) {
		ts.SkipEarly = map[int]int{0: 1 + r.Intn(2)}
		if r.Bool() {
			if ts.Skip == nil {
				ts.Skip = map[int]int{}
			}
			ts.Skip[0] = 1 + r.Intn(2)
		}
	}
	for i := range ts.Rows {
		if !ts.Rows[i].Sep && (ts.Rows[i].How == 1 || ts.Rows[i].How == 3) && r.Pct(5) {
			ts.Rows[i].Twice = true
		}
	}
	// an own alignment set first, another property after it, then the alignment unset again
	if r.Pct(6) {
		c := r.Intn(3)
		if ts.AlignEarly == nil {
			ts.AlignEarly = map[int]int{}
		}
		if ts.SkipEarly == nil {
			ts.SkipEarly = map[int]int{}
		}
		if ts.Align == nil {
			ts.Align = map[int]int{}
		}
		ts.AlignEarly[c] = 1 + r.Intn(3)
		ts.SkipEarly[c] = 1 + r.Intn(2)
		ts.Align[c] = 0 // SetProperty(align.PropertyType, nil)
	}
	// a history of property settings on one or two columns: set, another key, set again, unset ...
	if r.Pct(12) {
		n := 3 + r.Intn(4)
		c1, c2 := r.Intn(3), r.Intn(3)
		for k := 0; k < n; k++ {
			c := c1
			if r.Pct(30) {
				c = c2
			}
			op := PropOp{Col: c, Key: r.Intn(4), Val: r.Intn(4)}
			if op.Key <= 1 && r.Pct(35) {
				op.Val = 0
			}
			if op.Key == 1 && op.Val == 3 && r.Pct(80) {
				op.Val = 1
			}
			ts.PropOps = append(ts.PropOps, op)
		}
	}
	// the caller scribbles over its copy of the row list; the last render goes
	// through RenderTo into a non-buffer writer; a write fails once
	if r.Pct(10) {
		ts.Scribble = true
	}
	if r.Pct(15) {
		ts.FinalVia = 1
	}
	if r.Pct(15) {
		ts.FaultAt = 1 + r.Intn(4)
		if r.Pct(30) {
			ts.FaultAt = 1 + r.Intn(40)
		}
	}
	if len(ts.Stages) > 0 && r.Pct(40) {
		ts.StageFaults = true
	}
	// a mutable item gets another text between two renders (same size, or not)
	if r.Pct(12) {
		var cand [][2]int
		for i, rw := range ts.Rows {
			for j := range rw.Cells {
				cand = append(cand, [2]int{i, j})
			}
		}
		if len(cand) > 0 {
			c := cand[r.Intn(len(cand))]
			old := ts.Rows[c[0]].Cells[c[1]]
			txt := old.B
			if old.K == "obj" {
				txt = old.S
			}
			ts.Rows[c[0]].Cells[c[1]] = ItemSpec{K: "obj", Mask: 1, S: txt}
			nw := []byte(strings.Map(func(x rune) rune {
				if x >= 'a' && x < 'z' {
					return x + 1
				}
				return x
			}, string(txt)))
			if string(nw) == string(txt) || r.Pct(30) {
				nw = append([]byte("M"), txt...)
			}
			ts.Mutations = append(ts.Mutations, Mutation{Row: c[0], Col: c[1], S: nw})
		}
	}
	// a render-time callback renders the same wrapper again, re-entrantly
	if r.Pct(6) {
		ts.Reenter = 1 + r.Intn(3)
	}
}

func (ts TableSpec) Size() int {
	n := 0
	if ts.Header != nil {
		n += 1 + len(*ts.Header)
	}
	for _, r := range ts.Rows {
		n += 1 + len(r.Cells) + 2*len(r.Late)
		for _, c := range r.Cells {
			n += len(c.B) + len(c.S)
		}
	}
	if ts.Header2 != nil {
		n += 2 + len(*ts.Header2)
	}
	if ts.Scribble {
		n++
	}
	if ts.StageFaults {
		n++
	}
	n += 2 * ts.Reenter
	return n + len(ts.Align) + len(ts.Skip) + 3*len(ts.Stages) + 2*len(ts.AlignEarly) + 2*len(ts.SkipEarly) + 3*len(ts.Mutations) + ts.FinalVia + ts.FaultAt + 2*len(ts.PropOps)
}

// ---------------------------------------------------------------- view

type VCell struct {
	Text    string
	Empty   bool
	JSON    *string
	TW, H   int
	Widther bool
}

type View struct {
	NCols  int
	Header *[]VCell
	Rows   []*[]VCell // nil entry = separator
	Align  []int      // 0 unset
	Skip   []int      // 0 unset, 1 true, 2 false, 3 other
}

func viewCells(cs []tabular.Cell) []VCell {
	out := make([]VCell, len(cs))
	for i := range cs {
		c := &cs[i]
		vc := VCell{Text: c.String(), Empty: c.Empty(), TW: c.TerminalCellWidth(), H: c.Height()}
		if b, err := json.Marshal(c.Item()); err == nil {
			s := string(b)
			vc.JSON = &s
		}
		_, vc.Widther = c.Item().(tabular.TerminalCellWidther)
		out[i] = vc
	}
	return out
}

// SpecView computes the view a table built from this spec must present, from
// the spec alone (fresh cells made from the items; the shape, the column count
// and the column properties as the building calls define them) - never read
// back from the table under test, so that a renderer's output is judged
// against what was put in, not against whatever the table now holds.
func (ts TableSpec) SpecView() View {
	if len(ts.Mutations) > 0 {
		// the view of the final state: mutated items carry their new text
		b, _ := json.Marshal(ts)
		var c TableSpec
		json.Unmarshal(b, &c)
		for _, m := range c.Mutations {
			var it *ItemSpec
			switch {
			case m.Row < 0 && c.Header2 != nil && m.Col < len(*c.Header2):
				it = &(*c.Header2)[m.Col]
			case m.Row < 0 && c.Header2 == nil && c.Header != nil && m.Col < len(*c.Header):
				it = &(*c.Header)[m.Col]
			case m.Row >= 0 && m.Row < len(c.Rows) && m.Col < len(c.Rows[m.Row].Cells):
				it = &c.Rows[m.Row].Cells[m.Col]
			case m.Row >= 0 && m.Row < len(c.Rows) && m.Col-len(c.Rows[m.Row].Cells) < len(c.Rows[m.Row].Late):
				it = &c.Rows[m.Row].Late[m.Col-len(c.Rows[m.Row].Cells)]
			}
			if it != nil && it.K == "obj" {
				it.S = m.S
			}
		}
		c.Mutations = nil
		return c.SpecView()
	}
	mk := func(items []ItemSpec) *[]VCell {
		cs := make([]tabular.Cell, len(items))
		for i := range items {
			it, _ := items[i].Make()
			cs[i] = tabular.NewCell(it)
		}
		vc := viewCells(cs)
		for i := range vc {
			if items[i].K == "str" {
				vc[i].Text = string(items[i].B) // a string item is its own text
			}
			vc[i].Empty = vc[i].Text == "" // empty exactly when the text is (C01)
			// sizes: the item's own declaration when it has one (Go's type
			// assertion decides), else the number of lines and the widest
			// line under the library's per-line measure (C18) - not whatever
			// the cell's cached fields say
			lines := strings.Split(vc[i].Text, "\n")
			if lines[len(lines)-1] == "" {
				lines = lines[:len(lines)-1]
			}
			it := cs[i].Item()
			if _, ok := it.(tabular.TerminalCellWidther); !ok {
				vc[i].TW = 0
				for _, l := range lines {
					if w := length.StringCells(l); w > vc[i].TW {
						vc[i].TW = w
					}
				}
			}
			if _, ok := it.(tabular.Heighter); !ok {
				vc[i].H = len(lines)
			}
		}
		return &vc
	}
	v := View{}
	if ts.Header != nil {
		v.Header = mk(*ts.Header)
		v.NCols = len(*ts.Header)
	}
	if ts.Header2 != nil {
		// the last header is the header; the column count never shrinks
		v.Header = mk(*ts.Header2)
		if len(*ts.Header2) > v.NCols {
			v.NCols = len(*ts.Header2)
		}
	}
	for _, r := range ts.Rows {
		if r.Sep {
			v.Rows = append(v.Rows, nil)
			continue
		}
		all := append(append([]ItemSpec{}, r.Cells...), r.Late...)
		if len(all) > v.NCols {
			v.NCols = len(all)
		}
		v.Rows = append(v.Rows, mk(all))
		if r.Twice && (r.How == 1 || r.How == 3) {
			v.Rows = append(v.Rows, mk(all))
		}
	}
	// columns that exist when the early properties are set: column 0, plus the
	// first header's when it is added first
	early := 0
	if ts.HeaderAt <= 0 && ts.Header != nil {
		early = len(*ts.Header)
	}
	for i := 0; i <= v.NCols; i++ {
		a, s := 0, 0
		if i <= early {
			a, s = ts.AlignEarly[i], ts.SkipEarly[i]
		}
		if x, ok := ts.Align[i]; ok {
			a = x
		}
		if x, ok := ts.Skip[i]; ok {
			s = x
		}
		for _, op := range ts.PropOps { // last write wins, nil removes
			if op.Col == i && op.Key == 0 {
				a = op.Val
			}
			if op.Col == i && op.Key == 1 {
				s = op.Val
			}
		}
		v.Align = append(v.Align, a)
		v.Skip = append(v.Skip, s)
	}
	return v
}

// extractView reads, through the public API only, everything a renderer can
// see of a table.
func extractView(t tabular.Table) View {
	v := View{NCols: t.NColumns()}
	if h := t.Headers(); h != nil {
		hc := viewCells(h)
		v.Header = &hc
	}
	for _, r := range t.AllRows() {
		if r.IsSeparator() {
			v.Rows = append(v.Rows, nil)
			continue
		}
		rc := viewCells(r.Cells())
		v.Rows = append(v.Rows, &rc)
	}
	for i := 0; i <= v.NCols; i++ {
		a, s := 0, 0
		if col := t.Column(i); col != nil {
			switch col.GetProperty(align.PropertyType) {
			case nil:
			case align.Left:
				a = 1
			case align.Right:
				a = 2
			case align.Center:
				a = 3
			default:
				a = 9
			}
			switch sv := col.GetProperty(properties.Skipable).(type) {
			case nil:
			case bool:
				if sv {
					s = 1
				} else {
					s = 2
				}
			default:
				s = 3
			}
		}
		v.Align = append(v.Align, a)
		v.Skip = append(v.Skip, s)
	}
	return v
}

func (c VCell) Coq(textOnly bool) string {
	if textOnly {
		return "(T " + cqStr(c.Text) + ")"
	}
	return fmt.Sprintf("(mkVCell %s %s %s %s %s %s)", cqStr(c.Text), cqBool(c.Empty), cqOptStr(c.JSON),
		cqZ(int64(c.TW)), cqZ(int64(c.H)), cqBool(c.Widther))
}

func cqCells(cs []VCell, textOnly bool) string {
	xs := make([]string, len(cs))
	for i, c := range cs {
		xs[i] = c.Coq(textOnly)
	}
	return cqList(xs)
}

var cqAlign = []string{"None", "(Some ALeft)", "(Some ARight)", "(Some ACenter)"}
var cqSkip = []string{"None", "(Some (SkBool true))", "(Some (SkBool false))", "(Some SkOther)"}

func (v View) Coq(textOnly bool) string {
	var sb strings.Builder
	sb.WriteString("(mkView " + cqNat(v.NCols) + " ")
	if v.Header == nil {
		sb.WriteString("None ")
	} else {
		sb.WriteString(cqSome(cqCells(*v.Header, textOnly)) + " ")
	}
	rows := make([]string, len(v.Rows))
	for i, r := range v.Rows {
		if r == nil {
			rows[i] = "None"
		} else {
			rows[i] = cqSome(cqCells(*r, textOnly))
		}
	}
	sb.WriteString(cqList(rows) + " ")
	as := make([]string, len(v.Align))
	for i, a := range v.Align {
		if a > 3 {
			a = 0
		}
		as[i] = cqAlign[a]
	}
	ss := make([]string, len(v.Skip))
	for i, s := range v.Skip {
		ss[i] = cqSkip[s]
	}
	sb.WriteString(cqList(as) + " " + cqList(ss) + ")")
	return sb.String()
}
