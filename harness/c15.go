package main

// C15: a failing writer always surfaces as an error and output stops there.
// Fault enumeration against the real renderers: for each table x target the
// fault-free run is recorded as the list of Write payloads; then, for EVERY
// call index k (and one past the end) and four fault modes, RenderTo is run
// against a scripted writer and (error?, accepted bytes) observed.

import (
	"bytes"
	"encoding/json"
	"errors"
	"fmt"
	htmltemplate "html/template"
	"io"
	"os"
	"strings"
	"syscall"

	"go.pennock.tech/tabular"
	"go.pennock.tech/tabular/auto"
	"go.pennock.tech/tabular/csv"
	"go.pennock.tech/tabular/html"
	tjson "go.pennock.tech/tabular/json"
	"go.pennock.tech/tabular/markdown"
	"go.pennock.tech/tabular/texttable"
)

var errFault = errors.New("scripted writer fault")

// the error values a destination may fail with: what they say about
// themselves (temporary, timeout, a well-known sentinel) changes nothing
type tempErr struct{ timeout bool }

func (e tempErr) Error() string   { return "scripted fault (describes itself as temporary)" }
func (e tempErr) Temporary() bool { return true }
func (e tempErr) Timeout() bool   { return e.timeout }

var c15Errs = []error{
	errFault,
	tempErr{},
	fmt.Errorf("write pipe: %w", syscall.EAGAIN),
	tempErr{timeout: true},
	io.ErrShortWrite,
	io.EOF,
	&os.PathError{Op: "write", Path: "/dev/full", Err: syscall.ENOSPC},
	syscall.EINTR,
}

type scriptWriter struct {
	mode, k int
	calls   int
	acc     []byte
	chunks  [][]byte
	err     error
}

func (w *scriptWriter) Write(p []byte) (int, error) {
	fault := w.err
	if fault == nil {
		fault = errFault
	}
	i := w.calls
	w.calls++
	accept := func(n int) { w.acc = append(w.acc, p[:n]...) }
	switch w.mode {
	case 0:
		w.chunks = append(w.chunks, append([]byte{}, p...))
		accept(len(p))
		return len(p), nil
	case 1:
		if i >= w.k {
			return 0, fault
		}
	case 2:
		if i == w.k {
			return 0, fault
		}
	case 3:
		if i == w.k {
			accept(len(p) / 2)
			return len(p) / 2, fault
		}
		if i > w.k {
			return 0, fault
		}
	case 4:
		if i == w.k {
			accept(len(p) / 2)
			return len(p) / 2, fault
		}
	case 5:
		// everything taken AND an error (the data went out, then the connection
		// broke / the flush failed): n == len(p), err != nil
		if i == w.k {
			accept(len(p))
			return len(p), fault
		}
		if i > w.k {
			return 0, fault
		}
	case 6:
		if i == w.k {
			accept(len(p))
			return len(p), fault
		}
	}
	accept(len(p))
	return len(p), nil
}

// richer destinations: the same script behind the optional interfaces an
// io.Writer may also offer (the *os.File / *bufio.Writer / bytes.Buffer family)
type stringScriptWriter struct{ *scriptWriter }

func (w stringScriptWriter) WriteString(s string) (int, error) { return w.Write([]byte(s)) }

type fullScriptWriter struct{ *scriptWriter }

func (w fullScriptWriter) WriteString(s string) (int, error) { return w.Write([]byte(s)) }
func (w fullScriptWriter) WriteByte(c byte) error {
	_, err := w.Write([]byte{c})
	return err
}
func (w fullScriptWriter) ReadFrom(r io.Reader) (int64, error) {
	var total int64
	buf := make([]byte, 512)
	for {
		n, rerr := r.Read(buf)
		if n > 0 {
			m, werr := w.Write(buf[:n])
			total += int64(m)
			if werr != nil {
				return total, werr
			}
		}
		if rerr == io.EOF {
			return total, nil
		}
		if rerr != nil {
			return total, rerr
		}
	}
}

func (w *scriptWriter) as(kind int) io.Writer {
	switch kind {
	case 1:
		return stringScriptWriter{w}
	case 2:
		return fullScriptWriter{w}
	}
	return w
}

type C15Target struct {
	Fmt   string `json:"fmt"`             // csv json markdown html text
	Decor string `json:"decor,omitempty"` // text only
	Entry int    `json:"entry"`           // 0 wrapper method, 1 package-level RenderTo, 2 auto.RenderTo
}

type C15Spec struct {
	Table  TableSpec `json:"table"`
	Target C15Target `json:"target"`
	Only   *[2]int   `json:"only,omitempty"` // restrict to one (mode, k)
	// Writer: 0 the destination offers Write only; 1 also WriteString; 2 also
	// WriteString, WriteByte and ReadFrom (all behind the same script).
	// ErrKind: index into c15Errs, the error value the script fails with.
	Writer  int `json:"writer,omitempty"`
	ErrKind int `json:"err_kind,omitempty"`
	// OnlyErr: with Only, the error value of that one run (index into c15Errs)
	// when it is not ErrKind.
	OnlyErr *int `json:"only_err,omitempty"`
	// Wide: besides the four modes with ErrKind at every call index, the two
	// modes "whole payload accepted and an error" (5: then keeps failing, 6:
	// only at k), and at every call index one more run whose error value and
	// mode rotate with the index, so that every write site of every renderer
	// meets every kind of error value.  Beyond c15Dense writes these extra
	// runs are made at every c15Stride-th index (and the first and last three).
	Wide bool `json:"wide,omitempty"`
	// Reuse: ONE table and ONE wrapper serve the fault-free run and every
	// scripted run of the case, in order (a long-lived wrapper whose earlier
	// renders failed, or succeeded, at every possible place).
	Reuse bool `json:"reuse,omitempty"`
}

const c15Dense, c15Stride = 160, 16

func c15RenderTo(t tabular.Table, tg C15Target, w io.Writer) error {
	return c15Renderer(t, tg)(w)
}

// c15Renderer: the way into the renderer, with the wrapper (where the entry
// has one) made once
func c15Renderer(t tabular.Table, tg C15Target) func(io.Writer) error {
	if tg.Entry != 0 {
		return func(w io.Writer) error { return c15RenderOnce(t, tg, w) }
	}
	switch tg.Fmt {
	case "csv":
		return csv.Wrap(t).RenderTo
	case "json":
		return tjson.Wrap(t).RenderTo
	case "markdown":
		return markdown.Wrap(t).RenderTo
	case "html":
		ht := html.Wrap(t)
		ht.Id, ht.Class, ht.Caption = "i<d", "c\"l", "cap & tion"
		ht.SetRowClassGenerator(func(n int, _ interface{}) htmltemplate.HTMLAttr {
			return htmltemplate.HTMLAttr(fmt.Sprintf("r%d", n))
		}, nil)
		return ht.RenderTo
	case "text":
		tt := texttable.Wrap(t)
		if tg.Decor != "" {
			tt.SetDecorationNamed(tg.Decor)
		}
		return tt.RenderTo
	}
	panic("unknown target " + tg.Fmt)
}

func c15RenderOnce(t tabular.Table, tg C15Target, w io.Writer) error {
	switch tg.Fmt {
	case "csv":
		switch tg.Entry {
		case 1:
			return csv.RenderTo(t, w)
		case 2:
			return auto.RenderTo(t, w, "csv")
		}
		return csv.Wrap(t).RenderTo(w)
	case "json":
		switch tg.Entry {
		case 1:
			return tjson.RenderTo(t, w)
		case 2:
			return auto.RenderTo(t, w, "JSON")
		}
		return tjson.Wrap(t).RenderTo(w)
	case "markdown":
		switch tg.Entry {
		case 1:
			return markdown.RenderTo(t, w)
		case 2:
			return auto.RenderTo(t, w, "markdown")
		}
		return markdown.Wrap(t).RenderTo(w)
	case "html":
		if tg.Entry == 2 {
			return auto.RenderTo(t, w, "html")
		}
		ht := html.Wrap(t)
		if tg.Entry == 0 {
			ht.Id, ht.Class, ht.Caption = "i<d", "c\"l", "cap & tion"
			ht.SetRowClassGenerator(func(n int, _ interface{}) htmltemplate.HTMLAttr {
				return htmltemplate.HTMLAttr(fmt.Sprintf("r%d", n))
			}, nil)
		}
		return ht.RenderTo(w)
	case "text":
		switch tg.Entry {
		case 1:
			return texttable.RenderTo(t, w)
		case 2:
			return auto.RenderTo(t, w, tg.Decor)
		}
		tt := texttable.Wrap(t)
		if tg.Decor != "" {
			tt.SetDecorationNamed(tg.Decor)
		}
		return tt.RenderTo(w)
	}
	panic("unknown target " + tg.Fmt)
}

var c15Targets = []C15Target{
	{"csv", "", 0}, {"csv", "", 1}, {"csv", "", 2},
	{"json", "", 0}, {"json", "", 2},
	{"markdown", "", 0}, {"markdown", "", 1}, {"markdown", "", 2},
	{"html", "", 0}, {"html", "", 1},
	{"text", "", 0}, {"text", "", 1}, {"text", "ascii-simple", 2}, {"text", "none", 0}, {"text", "utf8-light-curved", 0},
}

func c15Text(r *RNG) ItemSpec {
	return Str(pick(r, []string{"a", "bb", "x y", "", "q\"r", "l1\nl2", "é", "<&>", "p|q", "1,2", "日本"}))
}

func c15Tables(r *RNG, n int) []TableSpec {
	hdr := func(names ...string) *[]ItemSpec {
		h := make([]ItemSpec, len(names))
		for i, s := range names {
			h[i] = Str(s)
		}
		return &h
	}
	row := func(cells ...string) RowSpec {
		cs := make([]ItemSpec, len(cells))
		for i, s := range cells {
			cs[i] = Str(s)
		}
		return RowSpec{Cells: cs}
	}
	sep := RowSpec{Sep: true}
	out := []TableSpec{
		{Header: hdr("a", "b", "c"), Rows: []RowSpec{row("1", "2", "3"), sep, row("x"), row("p", "q", "r")}},
		{Header: hdr("a", "b", "c"), Rows: []RowSpec{row("1", "2", "3"), row(), row("p", "q")}},             // zero-cell row, padding columns
		{Header: hdr("only"), Rows: []RowSpec{row("v")}},                                                    // single column
		{Header: hdr("h1", "h2"), Rows: nil},                                                                // header only
		{Header: nil, Rows: []RowSpec{row("n1", "n2"), sep, row("n3")}},                                     // no header (json/markdown refuse)
		{Header: hdr("k", "v"), Rows: []RowSpec{sep, row("m\nl", "1"), sep, sep, row("z", "w\nw\nw"), sep}}, // separators everywhere, multi-line
		{Header: hdr("a", "b"), Rows: []RowSpec{row("", ""), row("\"", "|")}, Align: map[int]int{0: 2, 2: 3}, Skip: map[int]int{1: 1}},
		{Header: hdr(), Rows: []RowSpec{row("u")}}, // empty header
	}
	for i := 0; i < n; i++ {
		ts := randTable(r, 4, 3, c15Text, []int{0, 0, 1, 3})
		// give it usable headers most of the time
		if r.Pct(80) {
			w := 0
			for _, rw := range ts.Rows {
				if len(rw.Cells) > w {
					w = len(rw.Cells)
				}
			}
			if w == 0 {
				w = 1
			}
			h := make([]ItemSpec, w)
			for j := range h {
				h[j] = Str(fmt.Sprintf("h%d", j))
			}
			ts.Header = &h
		}
		out = append(out, ts)
	}
	return out
}

func c15Words(ws []string) string {
	if len(ws) == 0 {
		return "[]%uint63"
	}
	return "[" + strings.Join(ws, ";") + "]%uint63"
}

func init() {
	register(&Prop{
		ID:       "C15",
		Imports:  "From Tab Require Import Run.Glue Run.C15Run.",
		CaseType: "(list (list N) * list int * list (list N))",
		CaseFn:   "C15_wcase",
		ModelFn:  "C15_wmodel",
		Rule: "fault enumeration: for each table (8 fixed shapes covering header, delimiter row, body, padding columns, separators in every position, zero-cell rows, multi-line cells, no header, empty header; 5 fixed tables over the item kinds - nil, booleans, numbers, Stringers / errors / plain structs, nested cells, slices, maps - in first / middle / last / only position with and without skipable columns; random tables of texts and random tables over every item kind; one 5000-byte cell; 120 rows) x 15 targets " +
			"(csv/json/markdown/html/texttable in 4 decorations incl. boxless, through the wrapper method, the package-level RenderTo and auto.RenderTo) the fault-free run is recorded as its list of Write payloads, then RenderTo runs against a scripted writer for EVERY call index k in 0..#writes (the last one is past the end: no fault) " +
			"x 6 modes (fails from k on; fails only at k; partial write of half the payload + error at k then keeps failing; partial only at k; WHOLE payload accepted + error at k then keeps failing; whole payload + error only at k), plus at every k one run whose error value and mode rotate with k; the destination offers Write only, or also WriteString, or also WriteString/WriteByte/ReadFrom (all behind the same script), and fails with one of 19 error values " +
			"(plain, self-described temporary / timeout, wrapped EAGAIN, io.ErrShortWrite, io.EOF, *os.PathError{ENOSPC}, EINTR; values of types NOT comparable with ==: slice-, map-, func-typed errors, a by-value struct holding a slice, an array of interfaces holding a slice, a nil slice; a nil pointer in a non-nil interface; errors.Join; an error with Unwrap() []error; one whose Is answers true to everything; one with an empty text); " +
			"in a quarter of the cases ONE table and ONE wrapper serve the fault-free run and all scripted runs in order (a long-lived wrapper after failures at every place); beyond 160 writes the two whole-payload modes and the rotating run are made at every 16th index and the first / last three; a case is one (table, target) with all its scripted runs; non-trivial when the fault-free render succeeds and makes at least one write; tables whose fault-free render errs or panics are counted and skipped (that is C09's concern)",
		Exhaustive: "every write index x 4 fault modes (x 6 and a rotating error value up to 160 writes) for every (table, target) of the run",
		Gen: func(r *RNG, tier string) []json.RawMessage {
			n := 6
			if tier == "thorough" {
				n = 150
			}
			var out []json.RawMessage
			tables := c15Tables(r, n)
			nText := len(tables)
			// the item kinds: fixed tables, and random ones over every kind of item
			tables = append(tables, c15KindTables()...)
			nk := 4
			if tier == "thorough" {
				nk = 100
			}
			for i := 0; i < nk; i++ {
				ts := randTable(r, 3, 3, c15Item, []int{0, 0, 1, 2, 3})
				w := 1
				for _, rw := range ts.Rows {
					if len(rw.Cells) > w {
						w = len(rw.Cells)
					}
				}
				h := make([]ItemSpec, w)
				for j := range h {
					h[j] = Str(fmt.Sprintf("h%d", j))
				}
				ts.Header = &h
				if r.Pct(30) {
					ts.Skip = map[int]int{r.Intn(w + 1): 1}
				}
				tables = append(tables, ts)
			}
			for ti, ts := range tables {
				for gi, tg := range c15Targets {
					if ti >= nText && tg.Entry != 0 && (ti+gi)%2 == 0 {
						continue // the item-kind tables: every format through its wrapper, the other entries alternate
					}
					// destination kind and error value rotate so that each target meets each of them
					out = append(out, mustJSON(C15Spec{Table: ts, Target: tg, Writer: (ti + 2*gi) % 3, ErrKind: (ti + gi) % len(c15Errs), Wide: true, Reuse: (ti+gi)%4 == 3}))
				}
			}
			// sizes at which buffering layers change behaviour: one cell beyond 4 KiB, and a table of 120 rows
			{
				h := []ItemSpec{Str("k"), Str("v")}
				big := TableSpec{Header: &h, Rows: []RowSpec{{Cells: []ItemSpec{Str("a"), Str(strings.Repeat("x", 5000))}}, {Cells: []ItemSpec{Str(strings.Repeat("\u65e5", 1500)), Str("b")}}}}
				long := TableSpec{Header: &h}
				for i := 0; i < 120; i++ {
					long.Rows = append(long.Rows, RowSpec{Cells: []ItemSpec{Str(fmt.Sprintf("r%d", i)), Str("v")}})
				}
				for gi, tg := range []C15Target{{"csv", "", 0}, {"json", "", 0}, {"json", "", 1}, {"markdown", "", 0}, {"html", "", 0}, {"html", "", 1}, {"text", "", 0}, {"text", "none", 0}} {
					out = append(out, mustJSON(C15Spec{Table: big, Target: tg, Writer: gi % 3, ErrKind: gi % len(c15Errs), Wide: true, Reuse: gi%2 == 1}))
					out = append(out, mustJSON(C15Spec{Table: long, Target: tg, Writer: (gi + 1) % 3, ErrKind: (gi + 3) % len(c15Errs), Wide: true, Reuse: gi%4 == 2}))
				}
			}
			return out
		},
		Run: func(spec json.RawMessage) CaseOut {
			var sp C15Spec
			if err := json.Unmarshal(spec, &sp); err != nil {
				panic(err)
			}
			type runObs struct {
				Mode, K  int
				ErrValue string
				Err      bool
				Panic    string `json:",omitempty"`
				Accepted string
				Calls    int
				Verdict  string `json:",omitempty"`
			}
			desc := map[string]interface{}{}
			tags := []string{"fmt=" + sp.Target.Fmt, fmt.Sprintf("entry=%d", sp.Target.Entry), fmt.Sprintf("writer-kind=%d", sp.Writer), fmt.Sprintf("error-kind=%d", sp.ErrKind%len(c15Errs))}
			if sp.Target.Decor != "" {
				tags = append(tags, "decor="+sp.Target.Decor)
			}
			nErr := len(c15Errs)
			mainErr := sp.ErrKind % nErr
			// the way into the renderer: made anew for every run, or (Reuse) once
			var shared func(io.Writer) error
			enter := func() func(io.Writer) error {
				if sp.Reuse && shared != nil {
					return shared
				}
				t := tabular.New()
				sp.Table.Build(t)
				f := c15Renderer(t, sp.Target)
				if sp.Reuse {
					shared = f
				}
				return f
			}
			one := func(mode, k, ei int) (w *scriptWriter, err error, pan string) {
				w = &scriptWriter{mode: mode, k: k, err: c15Errs[ei]}
				defer func() {
					if r := recover(); r != nil {
						pan = fmt.Sprint(r)
					}
				}()
				err = enter()(w.as(sp.Writer))
				return
			}
			w0, err0, pan0 := one(0, 0, mainErr)
			if pan0 != "" || err0 != nil {
				kind := "faultfree-error"
				if pan0 != "" {
					kind = "faultfree-panic"
				}
				desc["skipped"] = kind
				return CaseOut{Coq: "([], []%uint63, [])", Desc: desc, Size: sp.Table.Size(), Tags: append(tags, "skipped="+kind),
					Key: string(spec), Nontrivial: false}
			}
			full := bytes.Join(w0.chunks, nil)
			nW := len(w0.chunks)
			// the scripted runs of this case: (mode, call index, error value)
			type plan struct{ mode, k, ei int }
			var plans []plan
			if sp.Only != nil {
				ei := mainErr
				if sp.OnlyErr != nil {
					ei = ((*sp.OnlyErr % nErr) + nErr) % nErr
				}
				plans = append(plans, plan{sp.Only[0], sp.Only[1], ei})
			} else {
				for k := 0; k <= nW; k++ {
					for mode := 1; mode <= 4; mode++ {
						plans = append(plans, plan{mode, k, mainErr})
					}
					if !sp.Wide || (nW > c15Dense && k%c15Stride != 0 && k >= 3 && k+3 < nW) {
						continue
					}
					plans = append(plans, plan{5, k, mainErr}, plan{6, k, mainErr})
					if k < nW {
						plans = append(plans, plan{1 + (k+sp.ErrKind)%6, k, (mainErr + 1 + k) % nErr})
					}
				}
			}
			var runs, side []string
			var robs []runObs
			sig := ""
			errKindsMet := map[int]bool{}
			for _, pl := range plans {
				mode, k := pl.mode, pl.k
				w, err, pan := one(mode, k, pl.ei)
				errKindsMet[pl.ei] = true
				ro := runObs{Mode: mode, K: k, ErrValue: fmt.Sprintf("%T", c15Errs[pl.ei]), Err: err != nil, Panic: pan, Accepted: fmt.Sprintf("%q", w.acc), Calls: w.calls}
				word := uint64(mode) | uint64(k)<<6
				if err != nil {
					word |= 1 << 3
				}
				switch {
				case pan != "":
					word |= 2 << 4
					ro.Verdict = "panic"
				case bytes.HasPrefix(full, w.acc):
					word |= uint64(len(w.acc)) << 26
				default:
					word |= 1 << 4
					side = append(side, cqBytes(w.acc))
					ro.Verdict = "accepted-not-a-prefix"
				}
				faultWithin := k < nW
				if pan == "" && faultWithin && err == nil {
					ro.Verdict = strings.TrimPrefix(ro.Verdict+"+nil-error-after-failed-write", "+")
				}
				if pan == "" && !faultWithin && (err != nil || !bytes.Equal(full, w.acc)) {
					ro.Verdict = "fault-free-run-differs"
				}
				if ro.Verdict != "" && sig == "" {
					sig = sp.Target.Fmt + ":" + ro.Verdict
				}
				if ro.Verdict != "" || len(robs) < 3 {
					if len(robs) < 12 {
						robs = append(robs, ro)
					}
				}
				runs = append(runs, fmt.Sprint(word))
			}
			if sp.Wide {
				tags = append(tags, "wide", fmt.Sprintf("error-kinds-met=%d", min(len(errKindsMet)/4*4, 16)))
			}
			if sp.Reuse {
				tags = append(tags, "one-wrapper-for-all-runs")
			}
			for _, t := range c15KindTags(sp.Table) {
				tags = append(tags, t)
			}
			chunks := make([]string, len(w0.chunks))
			for i, c := range w0.chunks {
				chunks[i] = cqBytes(c)
			}
			desc["writes"] = len(w0.chunks)
			desc["fault_free_output"] = fmt.Sprintf("%q", full)
			desc["runs_shown"] = robs
			desc["sig"] = sig
			tags = append(tags, fmt.Sprintf("writes=%d", min(len(w0.chunks)/10*10, 60)))
			return CaseOut{
				Coq:        fmt.Sprintf("(%s, %s, %s)", cqList(chunks), c15Words(runs), cqList(side)),
				Desc:       desc,
				Size:       sp.Table.Size()*10 + len(runs),
				Tags:       tags,
				Key:        fmt.Sprintf("%s|%d|%s|%x", sp.Target.Fmt, sp.Target.Entry, sp.Target.Decor, full),
				Nontrivial: len(w0.chunks) > 0,
			}
		},
		Shrink: func(spec json.RawMessage) []json.RawMessage {
			var sp C15Spec
			if err := json.Unmarshal(spec, &sp); err != nil {
				return nil
			}
			var out []json.RawMessage
			for _, ts := range shrinkTable(sp.Table) {
				c := sp
				c.Table = ts
				out = append(out, mustJSON(c))
			}
			if sp.Reuse {
				c := sp
				c.Reuse = false
				out = append(out, mustJSON(c))
			}
			if sp.Only == nil {
				for k := 0; k < 40; k++ {
					for mode := 1; mode <= 6; mode++ {
						c := sp
						c.Reuse, c.Only = false, &[2]int{mode, k}
						out = append(out, mustJSON(c))
						if sp.Wide && mode == 1+(k+sp.ErrKind)%6 {
							e := (sp.ErrKind%len(c15Errs) + 1 + k) % len(c15Errs)
							c.OnlyErr = &e
							out = append(out, mustJSON(c))
						}
					}
				}
			}
			return out
		},
	})
}
