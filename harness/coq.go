package main

// Emitters for Coq terms.  Byte strings are shipped packed seven to a 63-bit
// primitive integer (Run/Glue.v: B len words).

import (
	"fmt"
	"strings"
)

func cqBytes(b []byte) string {
	if len(b) == 0 {
		return "(B 0%nat [])"
	}
	var sb strings.Builder
	fmt.Fprintf(&sb, "(B %d%%nat [", len(b))
	for i := 0; i < len(b); i += 7 {
		var w uint64
		for j := 6; j >= 0; j-- {
			w <<= 8
			if i+j < len(b) {
				w |= uint64(b[i+j])
			}
		}
		if i > 0 {
			sb.WriteString(";")
		}
		fmt.Fprintf(&sb, "%d", w)
	}
	sb.WriteString("]%uint63)")
	return sb.String()
}

func cqStr(s string) string { return cqBytes([]byte(s)) }

func cqNat(n int) string {
	if n < 0 {
		panic("negative nat")
	}
	return fmt.Sprintf("%d%%nat", n)
}

func cqZ(n int64) string {
	if n < 0 {
		return fmt.Sprintf("(%d)%%Z", n)
	}
	return fmt.Sprintf("%d%%Z", n)
}

func cqN(n uint64) string { return fmt.Sprintf("%d%%N", n) }

func cqBool(b bool) string {
	if b {
		return "true"
	}
	return "false"
}

func cqList(xs []string) string {
	if len(xs) == 0 {
		return "[]"
	}
	return "[" + strings.Join(xs, "; ") + "]"
}

func cqSome(x string) string { return "(Some " + x + ")" }

func cqOptStr(s *string) string {
	if s == nil {
		return "None"
	}
	return cqSome(cqStr(*s))
}

func cqPair(a, b string) string { return "(" + a + ", " + b + ")" }

// Outcome of a render-like call
type Outcome struct {
	Kind  string `json:"kind"` // ok | err | panic
	Out   []byte `json:"-"`
	OutQ  string `json:"out,omitempty"` // quoted, for humans
	OutX  string `json:"out_hex,omitempty"`
	ErrS  string `json:"err,omitempty"`
	Panic string `json:"panic,omitempty"`
}

func (o Outcome) Coq() string {
	switch o.Kind {
	case "ok":
		return "(Ok " + cqBytes(o.Out) + ")"
	case "err":
		return "Err"
	default:
		return "Panic"
	}
}

// capture runs f under recover()
func capture(f func() (string, error)) (o Outcome) {
	defer func() {
		if r := recover(); r != nil {
			o = Outcome{Kind: "panic", Panic: fmt.Sprint(r)}
		}
	}()
	s, err := f()
	if err != nil {
		return Outcome{Kind: "err", ErrS: err.Error(), Out: []byte(s), OutQ: fmt.Sprintf("%q", s)}
	}
	return Outcome{Kind: "ok", Out: []byte(s), OutQ: fmt.Sprintf("%q", s), OutX: fmt.Sprintf("%x", s)}
}
