package main

// C02, second part.
//
// (1) Items of any dynamic type.  AddRowItems / AddHeaders take
// ...interface{} and Row.Add takes NewCell(anything): ONE argument is ONE
// cell whatever its type - a []string, a []interface{}, a typed nil slice, a
// []tabular.Cell, an array, a pointer to a slice, a map, a struct, nil, a
// number, a Stringer, an error.  c02OtherItem makes the value for an item
// kind >= 4, c02OtherItemID tells which cell a value of such a type is.
//
// (2) Programs whose add-time callbacks make building calls themselves.  A
// callback registered on the table for rows (CB_ON_ROW) or cells (CB_ON_CELL),
// on a row for itself or for its cells, or on a column for its cells is run
// by AddRow / AddRowItems / AppendNewRow / AddHeaders / Row.Add from inside
// the call; when it fires it appends cells to the very row being added (a
// computed "total" cell), to another row, adds a separator or a row, replaces
// the header.  Every such nested call is a table-building call like any
// other.  The executor below makes the calls on the real table and logs each
// one - the program's and the callbacks' - at the moment it is made: that log
// is the history (Base/Ops.v) the table has to follow.  The table can only be
// looked at when the program has control, so it is dumped after every call
// the PROGRAM makes (a segment of the history, Spec/HistorySegs.v).
//
// The header row has no accessor, but AddHeaders hands it to the table's row
// callbacks: they may append to it then, or keep the pointer and append later
// (op HeaderAdd), also after a later AddHeaders has replaced it.  Row.Add on
// the row which IS the header is, for everything C02 observes, AddHeaders
// with one more item; on a replaced header row of n cells it only makes sure
// the table has n+1 columns, which is AddHeaders(n+1 items) followed by
// AddHeaders(the current items) (Proofs/CoreSegsProofs.v,
// core_header_row_add, core_stale_header_row_add).

import (
	"encoding/json"
	"errors"
	"fmt"
	"strings"

	"go.pennock.tech/tabular"
)

// ---------------------------------------------------------------- items of any dynamic type

const c02MaxKind = 18

type c02Stringer struct{ s string }

func (v c02Stringer) String() string { return v.s }

type c02Pair struct{ A, B string }

func c02IsContainerKind(kind int) bool {
	switch kind {
	case 4, 5, 7, 8, 9, 10, 11, 12, 17, 18:
		return true
	}
	return false
}

// c02OtherItem: the value of kind k (>= 4) selected by x, and the id of the
// ONE cell it makes.  Containers hold x%4 (x%3) elements, the empty container
// included; their ids say type and length (201..230), never an element.
func c02OtherItem(kind, x int) (interface{}, int) {
	if x < 0 {
		x = -x
	}
	n, n3 := x%4, x%3
	texts := func(n int) []string {
		out := make([]string, n)
		for j := range out {
			out[j] = c02Text((x+j)%200 + 1)
		}
		return out
	}
	switch kind {
	case 4:
		return texts(n), 201 + n
	case 5:
		its := make([]interface{}, n)
		for j := range its {
			switch j % 3 {
			case 0:
				its[j] = c02Text((x+j)%200 + 1)
			case 1:
				its[j] = (x+j)%200 + 1
			}
		}
		return its, 205 + n
	case 6:
		return nil, 0
	case 7:
		cs := make([]tabular.Cell, n3)
		for j := range cs {
			cs[j] = tabular.NewCell(c02Text((x+j)%200 + 1))
		}
		return cs, 209 + n3
	case 8:
		is := make([]int, n)
		for j := range is {
			is[j] = (x+j)%200 + 1
		}
		return is, 213 + n
	case 9:
		return [2]string{c02Text(x%200 + 1), c02Text((x+1)%200 + 1)}, 217
	case 10:
		p := texts(n)
		return &p, 218 + n
	case 11:
		return map[string]int{c02Text(x%200 + 1): x}, 222
	case 12:
		ss := make([][]string, n3)
		for j := range ss {
			ss[j] = texts(j + 1)
		}
		return ss, 223 + n3
	case 13:
		return c02Pair{c02Text(x%200 + 1), c02Text((x+1)%200 + 1)}, 227
	case 14:
		v := x%200 + 1
		return v, v
	case 15:
		return c02Stringer{c02Text(x % 201)}, x % 201
	case 16:
		return errors.New(c02Text(x % 201)), x % 201
	case 17:
		return []byte(strings.Repeat("7", n3)), 228 + n3
	case 18:
		return []string(nil), 201
	}
	return c02Text(x % 201), x % 201
}

// the id of a cell whose item is one of the containers above
func c02OtherItemID(it interface{}) (int, bool) {
	in := func(base, n, max int) (int, bool) {
		if n > max {
			return 244, true
		}
		return base + n, true
	}
	switch v := it.(type) {
	case []string:
		return in(201, len(v), 3)
	case []interface{}:
		return in(205, len(v), 3)
	case []tabular.Cell:
		return in(209, len(v), 2)
	case []int:
		return in(213, len(v), 3)
	case [2]string:
		return 217, true
	case *[]string:
		if v == nil {
			return 244, true
		}
		return in(218, len(*v), 3)
	case map[string]int:
		return 222, true
	case [][]string:
		return in(223, len(v), 2)
	case c02Pair:
		return 227, true
	case []byte:
		return in(228, len(v), 2)
	}
	return 0, false
}

// every item kind, every container length, as the lone argument and beside a
// plain one, for AddHeaders / AddRowItems / Row.Add, on an empty table, before
// and after a narrow row, and beside rows as wide as the container is long
func c02OtherItems(add func([]C02Op)) {
	for kind := 4; kind <= c02MaxKind; kind++ {
		sels := []int{0, 1, 2, 3}
		switch kind {
		case 7, 12, 17:
			sels = []int{0, 1, 2}
		case 8, 10:
			sels = []int{0, 2}
		case 6, 9, 11, 13, 18:
			sels = []int{1}
		case 14, 15, 16:
			sels = []int{0, 5}
		}
		for _, x := range sels {
			for _, o := range []string{"AddHeaders", "AddRowItems"} {
				lone := C02Op{O: o, Xs: []int{x}, Ks: []int{kind}}
				add([]C02Op{lone, {O: "AddRowItems", Xs: []int{1}}, {O: "AddSeparator"}, {O: "AddRowItems", Xs: []int{2, 3}}})
				if c02IsContainerKind(kind) {
					add([]C02Op{{O: "AddRowItems", Xs: []int{1}}, lone, lone})
					add([]C02Op{{O: "AddHeaders", Xs: []int{1, 2}}, lone, {O: "AddRowItems", Xs: []int{3, 4, 5}}})
				}
				// beside other arguments, in either position, and twice
				add([]C02Op{{O: o, Xs: []int{x, 8}, Ks: []int{kind, 0}}, {O: o, Xs: []int{8, x}, Ks: []int{0, kind}}, {O: o, Xs: []int{x, x}, Ks: []int{kind, kind}}})
			}
			add([]C02Op{{O: "AppendNewRow", R: 1}, {O: "RowAdd", R: 1, X: x, K: kind}, {O: "RowAdd", I: 0, X: x, K: kind}})
			add([]C02Op{{O: "NewRow", R: 1}, {O: "RowAdd", R: 1, X: x, K: kind}, {O: "AddRow", R: 1}})
		}
	}
}

// ---------------------------------------------------------------- callbacks that make building calls

func c02HasCallbacks(ops []C02Op) bool {
	for _, op := range ops {
		if op.O == "OnAdd" || op.O == "HeaderAdd" {
			return true
		}
	}
	return false
}

var c02CBWhere = []string{
	0: "t, tabular.CB_AT_ADD, tabular.CB_ON_ROW",
	1: "r%d, tabular.CB_AT_ADD, tabular.CB_ON_ITSELF",
	2: "t, tabular.CB_AT_ADD, tabular.CB_ON_CELL",
	3: "t.Column(%d), tabular.CB_AT_ADD, tabular.CB_ON_CELL",
	4: "r%d, tabular.CB_AT_ADD, tabular.CB_ON_CELL",
	5: "r%d, tabular.CB_AT_ADD, tabular.CB_ON_ROW",
}

var c02CBAction = []string{
	0: "row.Add(NewCell(fresh)) on the row it is called for (for a cell: the row the cell is being added to)",
	1: "that row.Add(NewCell(fresh)) twice",
	2: "t.AddSeparator()",
	3: "t.AddRowItems(fresh)",
	4: "r%d.Add(NewCell(fresh)) (AllRows()[0] while r%d is unset)",
	5: "t.AddHeaders(fresh, fresh)",
	6: "that row.Add(NewCell(fresh)); t.AddSeparator()",
	7: "t.AppendNewRow().Add(NewCell(fresh))",
	8: "t.AddRow(r%d) if r%d is a row that is in no table yet",
	9: "no building call",
}

var c02CBReturns = []string{0: "nil", 1: "an error, for every target it is for", 2: "an error, for every second target it is for"}

var c02CBFilter = []string{0: "every target", 1: "every target but header rows and header cells", 2: "header rows and header cells only"}

func c02CBGoLine(op C02Op) string {
	if op.O == "HeaderAdd" {
		return fmt.Sprintf("hdr[%d].Add(tabular.NewCell(%q)) /* hdr[k]: the k-th latest header row which AddHeaders handed to the table's add-time row callbacks */", op.I, c02Text(op.X))
	}
	w, a, f := op.W, op.A, op.F
	if w < 0 || w >= len(c02CBWhere) || a < 0 || a >= len(c02CBAction) || f < 0 || f >= len(c02CBFilter) {
		return "// ? OnAdd"
	}
	where := c02CBWhere[w]
	switch w {
	case 1, 4, 5:
		where = fmt.Sprintf(where, op.R)
	case 3:
		where = fmt.Sprintf(where, op.C)
	}
	act := c02CBAction[a]
	if a == 4 || a == 8 {
		act = fmt.Sprintf(act, op.R2, op.R2)
	}
	ret := ""
	if op.E > 0 && op.E < len(c02CBReturns) {
		ret = "; returns: " + c02CBReturns[op.E]
	}
	return fmt.Sprintf("t.RegisterPropertyCallback(%s, callback{does: %s; for: %s; at most %d times in all%s})", where, act, c02CBFilter[f], op.B, ret)
}

// which row a call is about
type c02Ref struct {
	kind int // 1 a row variable, 2 AllRows()[i], 3 a header row
	r, i int
	h    *c02Hdr
}

type c02Hdr struct {
	items []int
	row   *tabular.Row // nil until a row callback was handed it
}

type c02CBExec struct {
	t      tabular.Table // the value the building calls are made on
	obs    tabular.Table // the value the table is looked at through
	vars   map[int]*tabular.Row
	in     map[int]bool
	nrows  int // rows and separators added, by the program or by callbacks
	hdrs   []*c02Hdr
	frames []c02Ref // the building calls in progress, innermost last
	log    []C02Op  // every building call made, in the order made
	nextX  int
	nextV  int
	calls  int
	nested int
	errs   int // errors returned by the callbacks
}

func (e *c02CBExec) cur() *c02Hdr {
	if len(e.hdrs) == 0 {
		return nil
	}
	return e.hdrs[len(e.hdrs)-1]
}

func (e *c02CBExec) note(op C02Op) {
	e.log = append(e.log, op)
	e.calls++
	if len(e.frames) > 0 {
		e.nested++
	}
}

func (e *c02CBExec) fresh() int {
	e.nextX++
	return 100 + e.nextX%100
}

func (e *c02CBExec) within(ref c02Ref, f func()) {
	e.frames = append(e.frames, ref)
	defer func() { e.frames = e.frames[:len(e.frames)-1] }()
	f()
}

func (e *c02CBExec) rowOf(ref c02Ref) *tabular.Row {
	switch ref.kind {
	case 1:
		return e.vars[ref.r]
	case 2:
		if rr := e.t.AllRows(); ref.i >= 0 && ref.i < len(rr) {
			return rr[ref.i]
		}
	case 3:
		return ref.h.row
	}
	return nil
}

func (e *c02CBExec) rowAdd(ref c02Ref, row *tabular.Row, x int) {
	if row == nil {
		return
	}
	switch ref.kind {
	case 1:
		e.note(C02Op{O: "RowAdd", R: ref.r, X: x})
	case 2:
		e.note(C02Op{O: "RowAdd", I: ref.i, X: x})
	case 3:
		ref.h.items = append(ref.h.items, x)
		e.note(C02Op{O: "AddHeaders", Xs: append([]int{}, ref.h.items...)})
		if c := e.cur(); c != ref.h {
			e.log = append(e.log, C02Op{O: "AddHeaders", Xs: append([]int{}, c.items...)})
		}
	}
	e.within(ref, func() { row.Add(tabular.NewCell(c02Text(x))) })
}

func (e *c02CBExec) addRow(r int) {
	row := e.vars[r]
	if row == nil || e.in[r] {
		return
	}
	e.note(C02Op{O: "AddRow", R: r})
	e.in[r] = true
	e.nrows++
	e.within(c02Ref{kind: 1, r: r}, func() { e.t.AddRow(row) })
}

func (e *c02CBExec) appendNewRow(r int) {
	if e.vars[r] != nil {
		return
	}
	e.note(C02Op{O: "AppendNewRow", R: r})
	idx := e.nrows
	e.nrows++
	var row *tabular.Row
	e.within(c02Ref{kind: 2, i: idx}, func() { row = e.t.AppendNewRow() })
	e.vars[r] = row
	e.in[r] = true
}

func (e *c02CBExec) addRowItems(xs []int) {
	e.note(C02Op{O: "AddRowItems", Xs: append([]int{}, xs...)})
	idx := e.nrows
	e.nrows++
	its := make([]interface{}, len(xs))
	for i, x := range xs {
		its[i] = c02Text(x)
	}
	e.within(c02Ref{kind: 2, i: idx}, func() { e.t.AddRowItems(its...) })
}

func (e *c02CBExec) addSeparator() {
	e.note(C02Op{O: "AddSeparator"})
	e.nrows++
	e.t.AddSeparator()
}

func (e *c02CBExec) addHeaders(xs []int) {
	e.note(C02Op{O: "AddHeaders", Xs: append([]int{}, xs...)})
	h := &c02Hdr{items: append([]int{}, xs...)}
	e.hdrs = append(e.hdrs, h)
	its := make([]interface{}, len(xs))
	for i, x := range xs {
		its[i] = c02Text(x)
	}
	e.within(c02Ref{kind: 3, h: h}, func() { e.t.AddHeaders(its...) })
}

type c02CB struct {
	e    *c02CBExec
	spec C02Op
	left int
	seen int
}

// what the callback returns for one more target it is for (spec.E)
func (cb *c02CB) result() error {
	cb.seen++
	if cb.spec.E == 1 || (cb.spec.E == 2 && cb.seen%2 == 0) {
		cb.e.errs++
		return fmt.Errorf("callback: target %d refused", cb.seen)
	}
	return nil
}

func (cb *c02CB) UpdateProperties(po tabular.PropertyOwner) error {
	e := cb.e
	if len(e.frames) == 0 {
		return nil
	}
	top := e.frames[len(e.frames)-1]
	var row *tabular.Row
	switch v := po.(type) {
	case *tabular.Row:
		row = v
		if top.kind == 3 && top.h.row == nil {
			top.h.row = v
		}
	case *tabular.Cell:
		row = e.rowOf(top)
	default:
		return nil
	}
	isHeader := top.kind == 3
	if (cb.spec.F == 1 && isHeader) || (cb.spec.F == 2 && !isHeader) {
		return nil
	}
	ret := cb.result()
	if cb.left <= 0 || e.calls >= 300 {
		return ret
	}
	cb.left--
	switch cb.spec.A {
	case 0:
		e.rowAdd(top, row, e.fresh())
	case 1:
		e.rowAdd(top, row, e.fresh())
		e.rowAdd(top, row, e.fresh())
	case 2:
		e.addSeparator()
	case 3:
		e.addRowItems([]int{e.fresh()})
	case 4:
		if r := e.vars[cb.spec.R2]; r != nil {
			e.rowAdd(c02Ref{kind: 1, r: cb.spec.R2}, r, e.fresh())
		} else if rr := e.t.AllRows(); len(rr) > 0 && e.nrows > 0 {
			e.rowAdd(c02Ref{kind: 2, i: 0}, rr[0], e.fresh())
		}
	case 5:
		e.addHeaders([]int{e.fresh(), e.fresh()})
	case 6:
		e.rowAdd(top, row, e.fresh())
		e.addSeparator()
	case 7:
		e.nextV++
		v := 100 + e.nextV
		e.appendNewRow(v)
		e.rowAdd(c02Ref{kind: 1, r: v}, e.vars[v], e.fresh())
	case 8:
		e.addRow(cb.spec.R2)
	}
	return ret
}

func (e *c02CBExec) register(op C02Op) {
	cb := &c02CB{e: e, spec: op, left: op.B}
	switch op.W {
	case 0:
		e.t.RegisterPropertyCallback(e.t, tabular.CB_AT_ADD, tabular.CB_ON_ROW, cb)
	case 2:
		e.t.RegisterPropertyCallback(e.t, tabular.CB_AT_ADD, tabular.CB_ON_CELL, cb)
	case 3:
		if col := e.t.Column(op.C); col != nil {
			e.t.RegisterPropertyCallback(col, tabular.CB_AT_ADD, tabular.CB_ON_CELL, cb)
		}
	case 1, 4, 5:
		row := e.vars[op.R]
		if row == nil {
			return
		}
		switch op.W {
		case 1:
			e.t.RegisterPropertyCallback(row, tabular.CB_AT_ADD, tabular.CB_ON_ITSELF, cb)
		case 4:
			e.t.RegisterPropertyCallback(row, tabular.CB_AT_ADD, tabular.CB_ON_CELL, cb)
		case 5:
			e.t.RegisterPropertyCallback(row, tabular.CB_AT_ADD, tabular.CB_ON_ROW, cb)
		}
	}
}

// one call of the program
func (e *c02CBExec) step(op C02Op) {
	switch op.O {
	case "NewRow":
		if e.vars[op.R] == nil && op.R >= 1 {
			e.vars[op.R] = tabular.NewRow()
			e.note(op)
		}
	case "NewRowSizedFor":
		if e.vars[op.R] == nil && op.R >= 1 {
			e.vars[op.R] = e.t.NewRowSizedFor()
			e.note(op)
		}
	case "AppendNewRow":
		if op.R >= 1 {
			e.appendNewRow(op.R)
		}
	case "RowAdd":
		ref := c02Ref{kind: 1, r: op.R}
		if op.R == 0 {
			ref = c02Ref{kind: 2, i: op.I}
		}
		e.rowAdd(ref, e.rowOf(ref), op.X)
	case "AddRow":
		e.addRow(op.R)
	case "AddRowItems":
		e.addRowItems(op.Xs)
	case "AddSeparator":
		e.addSeparator()
	case "AddHeaders":
		e.addHeaders(op.Xs)
	case "MutateAllRowsCopy":
		rr := e.t.AllRows()
		for i, j := 0, len(rr)-1; i < j; i, j = i+1, j-1 {
			rr[i], rr[j] = rr[j], rr[i]
		}
		if len(rr) > 0 {
			rr[0] = nil
		}
		e.note(C02Op{O: "MutateAllRowsCopy"})
	case "OnAdd":
		e.register(op)
	case "HeaderAdd":
		// the op.I-th latest header row the callbacks have been handed
		var held []*c02Hdr
		for i := len(e.hdrs) - 1; i >= 0; i-- {
			if e.hdrs[i].row != nil {
				held = append(held, e.hdrs[i])
			}
		}
		if op.I >= 0 && op.I < len(held) {
			h := held[op.I]
			e.rowAdd(c02Ref{kind: 3, h: h}, h.row, op.X)
		}
	}
}

func c02HistoryText(ops []C02Op, segs []int) string {
	var sb strings.Builder
	k := 0
	for _, n := range segs {
		sb.WriteString("[")
		for j := 0; j < n && k < len(ops); j++ {
			if j > 0 {
				sb.WriteString("; ")
			}
			sb.WriteString(c02CoqOp(ops[k]))
			k++
		}
		sb.WriteString("] ")
		if sb.Len() > 1500 {
			sb.WriteString("...")
			break
		}
	}
	return sb.String()
}

// c02RunCB runs a program with callbacks on a real table; the case is the
// logged history, its segments, and the dump after every segment.
func c02RunCB(cs C02Spec, spec json.RawMessage) CaseOut {
	tb, ob, mk := cs.Via.make("t")
	e := &c02CBExec{t: tb, obs: ob, vars: map[int]*tabular.Row{}, in: map[int]bool{}}
	var res c02Result
	lines := []string{mk}
	for _, op := range cs.Ops {
		lines = append(lines, c02GoLine(op))
	}
	res.Go = strings.Join(lines, "; ")
	var dumps []byte
	var segs []int
	panicked := false
	func() {
		k := 0
		defer func() {
			if r := recover(); r != nil {
				panicked = true
				res.Panic = fmt.Sprint(r)
				res.PanicAt = k
				res.Sig = "panic"
			}
		}()
		for k = 0; k < len(cs.Ops); k++ {
			start := len(e.log)
			e.frames = e.frames[:0]
			e.step(cs.Ops[k])
			n := len(e.log) - start
			if n == 0 {
				continue
			}
			segs = append(segs, n)
			d := dumpTable(e.obs)
			dumps = append(dumps, d.bytes...)
			if res.Sig == "" {
				res.Sig = d.sig()
			}
			res.Last = &d
		}
	}()
	res.Nested = e.nested
	res.CBErrors = e.errs
	res.History = c02HistoryText(e.log, segs)
	ns := make([]string, len(segs))
	for i, n := range segs {
		ns[i] = cqNat(n)
	}
	obs := "(Ok " + cqBytes(dumps) + ")"
	if panicked {
		obs = "Panic"
	}
	tags := append(c02Tags(cs.Ops, res), cs.Via.tags()...)
	return CaseOut{
		Coq:        "[(" + c02CoqHistory(e.log) + ", After " + cqList(ns) + ", " + obs + ")]",
		Desc:       res,
		Size:       c02Size(cs.Ops),
		Tags:       tags,
		Key:        string(spec),
		Nontrivial: res.Last != nil && (res.Last.NRows > 0 || res.Last.Header != nil) && (e.nested > 0 || e.errs > 0),
	}
}

// ---------------------------------------------------------------- generators

// every valid continuation of exactly n ops after the prefix (plus, in the
// alphabet, what extra returns for the scope)
func c02EnumFrom(prefix []C02Op, n int, full bool, extra []C02Op, keep func([]C02Op) bool, f func([]C02Op)) {
	s0 := newC02Scope()
	for _, op := range prefix {
		s0.apply(op)
	}
	var rec func(s *c02Scope, h []C02Op)
	rec = func(s *c02Scope, h []C02Op) {
		if len(h) == n {
			if keep == nil || keep(h) {
				f(c02Cat(prefix, h))
			}
			return
		}
		for _, op := range append(s.alphabet(full), extra...) {
			if op.O == "MutateAllRowsCopy" || op.O == "NewRowSizedFor" {
				continue // what these do is settled without callbacks
			}
			s2 := s.clone()
			s2.apply(op)
			rec(s2, append(h, op))
		}
	}
	rec(s0, nil)
}

func c02Callbacks(r *RNG, add func([]C02Op), thorough bool) {
	reg := func(w, a, f, b int) C02Op { return C02Op{O: "OnAdd", W: w, A: a, F: f, B: b, R2: 1} }
	has := func(names ...string) func([]C02Op) bool {
		return func(h []C02Op) bool {
			for _, op := range h {
				for _, n := range names {
					if op.O == n {
						return true
					}
				}
			}
			return false
		}
	}
	rowish := has("AddHeaders", "AddRowItems", "AppendNewRow", "AddRow")
	deep := 0
	if thorough {
		deep = 1
	}
	// on the table, for rows: fires in AddRow (all its forms) and AddHeaders
	for f := 0; f <= 2; f++ {
		c02EnumFrom([]C02Op{reg(0, 0, f, 9)}, 2, f != 2, nil, rowish, add)
	}
	c02EnumFrom([]C02Op{reg(0, 0, 1, 9)}, 3+deep, false, nil, rowish, add)
	for a := 1; a <= 7; a++ {
		b := 9
		if a == 3 || a == 5 || a == 7 {
			b = 3 // these run the row callbacks again
		}
		fs := []int{0, 1}
		switch a {
		case 5:
			fs = []int{2, 1} // a header callback which replaces the header; one which does so for body rows
		case 2, 3, 4, 7:
			fs = []int{0} // what these do does not depend on the row they are called for
		}
		for _, f := range fs {
			c02EnumFrom([]C02Op{reg(0, a, f, b)}, 2+deep, false, nil, rowish, add)
		}
	}
	// a callback which adds a pre-built row from inside another AddRow
	for _, w := range []int{0, 2} {
		o := reg(w, 8, 0, 9)
		pre := []C02Op{{O: "NewRow", R: 1}, {O: "RowAdd", R: 1, X: 5}, {O: "RowAdd", R: 1, X: 6}, o}
		add(c02Cat(pre, []C02Op{{O: "AddRowItems", Xs: []int{1}}, {O: "RowAdd", R: 1, X: 7}}))
		add(c02Cat(pre, []C02Op{{O: "AddHeaders", Xs: []int{1}}, {O: "AddRow", R: 1}}))
		add(c02Cat(pre, []C02Op{{O: "AppendNewRow", R: 2}, {O: "RowAdd", R: 2, X: 7}, {O: "RowAdd", R: 1, X: 8}}))
	}
	// two callbacks at once: one widens body rows, the other rules them off
	c02EnumFrom([]C02Op{reg(0, 0, 1, 9), reg(0, 2, 1, 9)}, 2, false, nil, rowish, add)
	// on a pre-built row, for itself: fires in AddRow(r)
	for _, mk := range []string{"NewRow", "NewRowSizedFor"} {
		for k := 0; k <= 1; k++ {
			for a := 0; a <= 3; a++ {
				if mk == "NewRowSizedFor" && a != 0 {
					continue
				}
				w := 1
				if k == 1 && a == 0 {
					w = 5
				}
				o := reg(w, a, 0, 3)
				o.R = 1
				pre := c02Cat([]C02Op{{O: mk, R: 1}}, c02Adds(1, 0, []int{1, 2}[:k]), []C02Op{o})
				c02EnumFrom(pre, 2+deep, false, nil, has("AddRow"), add)
			}
		}
	}
	// on the table, for cells: fires per cell in AddRow / AddHeaders, and in
	// Row.Add on a row of the table; a cell added by it is a cell it fires for
	for _, ab := range [][2]int{{0, 1}, {0, 3}, {2, 2}, {3, 2}} {
		if ab[0] == 3 && !thorough {
			continue
		}
		c02EnumFrom([]C02Op{reg(2, ab[0], 0, ab[1])}, 2+deep, false, nil, nil, add)
	}
	c02EnumFrom([]C02Op{reg(2, 0, 1, 2)}, 2, true, nil, nil, add)
	// on a column, for its cells
	for _, ca := range [][2]int{{1, 0}, {1, 2}, {2, 0}} {
		o := reg(3, ca[1], 0, 2)
		o.C = ca[0]
		c02EnumFrom([]C02Op{{O: "AddHeaders", Xs: []int{1, 2}}, o}, 2, ca[0] == 2, nil, nil, add)
	}
	// on a row, for its cells: fires in r.Add, detached or attached
	for _, mk := range []string{"NewRow", "AppendNewRow"} {
		for _, ab := range [][2]int{{0, 1}, {0, 3}, {2, 2}, {3, 2}} {
			if ab[0] == 3 && !thorough {
				continue
			}
			o := reg(4, ab[0], 0, ab[1])
			o.R = 1
			c02EnumFrom([]C02Op{{O: mk, R: 1}, o}, 2+deep, false, nil, has("RowAdd"), add)
		}
	}
	// the header row, kept by a callback and added to later (also after it
	// has been replaced)
	capture := reg(0, 0, 0, 0)
	hadd := []C02Op{{O: "HeaderAdd", I: 0, X: 91}, {O: "HeaderAdd", I: 1, X: 92}}
	for _, pre := range [][]C02Op{
		{capture, {O: "AddHeaders", Xs: []int{1}}},
		{capture, {O: "AddHeaders", Xs: []int{1, 2}}, {O: "AddHeaders", Xs: []int{3}}},
		{capture, {O: "AddRowItems", Xs: []int{1, 2}}, {O: "AddHeaders", Xs: []int{}}},
		{reg(0, 0, 2, 9), {O: "AddHeaders", Xs: []int{1}}, {O: "AddHeaders", Xs: []int{2}}},
	} {
		c02EnumFrom(pre, 2+deep, false, hadd, has("HeaderAdd"), add)
	}
	// random programs: a random history with one to three callbacks put in
	n := 94
	if thorough {
		n = 3000
	}
	for i := 0; i < n; i++ {
		h := c02Random(r, 16, 6)
		for j := range h {
			h[j].K, h[j].Ks = 0, nil
		}
		for k := 1 + r.Intn(3); k > 0; k-- {
			o := reg(pick(r, []int{0, 0, 0, 1, 2, 2, 3, 4, 5}), pick(r, []int{0, 0, 0, 1, 2, 3, 4, 5, 6, 7, 8}), pick(r, []int{0, 0, 1, 1, 2}), 1+r.Intn(6))
			o.C = r.Intn(4)
			o.R2 = 1 + r.Intn(3)
			pos := r.Intn(len(h) + 1)
			if o.W == 1 || o.W == 4 || o.W == 5 {
				// after the creation of a row variable
				var at []int
				for j, op := range h {
					if op.O == "NewRow" || op.O == "NewRowSizedFor" || op.O == "AppendNewRow" {
						at = append(at, j)
					}
				}
				if len(at) == 0 {
					o.W = 0
				} else {
					j := pick(r, at)
					o.R = h[j].R
					pos = j + 1 + r.Intn(len(h)-j)
				}
			}
			h = c02Cat(h[:pos], []C02Op{o}, h[pos:])
		}
		for k := r.Intn(3); k > 0; k-- {
			pos := r.Intn(len(h) + 1)
			h = c02Cat(h[:pos], []C02Op{{O: "HeaderAdd", I: r.Intn(2), X: 90 + k}}, h[pos:])
		}
		if c02Valid(h) {
			add(h)
		}
	}
}
