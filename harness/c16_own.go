package main

// C16 - decorations of a goroutine's own.
//
// "In any formats and decorations" includes the decorations an application
// registers for itself.  In the cases with own_decorations > 0 every goroutine,
// besides building and rendering its tables, gives some of them a house style:
// it registers a decoration under a name nobody else uses
// (decoration.RegisterDecorationName), selects it by name in every way the
// library offers (Named, SetDecorationNamed, auto.Render with the name, with
// "texttable."+name and with a trailing sub-style section, which makes auto
// probe a longer name first that is not registered), asks whether the name is
// listed, sometimes re-registers the name with another decoration and selects
// it again - all while the other goroutines do the same with their names and
// the readers list and look up.  The goroutines share nothing but the registry,
// and in the registry no name.
//
// What is compared is what is always compared (every output with the same
// programme's outputs alone); the names differ from phase to phase (a name is
// fresh whenever it is registered, so a registration that got lost cannot hide
// behind an earlier one) and are not part of any output.  In addition every
// goroutine logs what it did to the registry about its own names and the
// answers it got (c16OwnOp); Coq judges the log against the goroutine's solo
// run on the registry model (Run/C16Run.v: own_ok).

import (
	"fmt"
	"os"
	"runtime"
	"sort"
	"strings"
	"sync/atomic"
	"time"

	"go.pennock.tech/tabular"
	"go.pennock.tech/tabular/auto"
	"go.pennock.tech/tabular/texttable"
	"go.pennock.tech/tabular/texttable/decoration"
)

// one entry of a goroutine's log about its own names
type c16OwnOp struct {
	K byte   // 'W' registered, 'R' looked up, 'L' listed
	N uint64 // name: (g+1)<<20 | i for the goroutine's i-th own name; below 1<<20: a name nobody registers
	D uint64 // W: the decoration registered (1, 2, ...: the goroutine's own numbering); R: the one found, 0 = none, c16Foreign = not one of its own
	B bool   // L: the name was listed
}

const c16Foreign = 999999

func (o c16OwnOp) Coq() string {
	switch o.K {
	case 'W':
		return fmt.Sprintf("OpW %d %d", o.N, o.D)
	case 'R':
		return fmt.Sprintf("OpR %d %d", o.N, o.D)
	}
	return fmt.Sprintf("OpL %d %s", o.N, cqBool(o.B))
}

// c16OwnLog belongs to one goroutine for the whole concurrent phase.
type c16OwnLog struct {
	g      int
	ops    []c16OwnOp
	nextID uint64
	// what the goroutine registered: name -> the decoration registered last
	final map[string]decoration.Decoration
	order []string
}

func newC16OwnLog(g int) *c16OwnLog {
	return &c16OwnLog{g: g, final: map[string]decoration.Decoration{}}
}

// c16Own: one pass of one goroutine's programme (alone or concurrently).
type c16Own struct {
	seed  uint64
	g     int
	salt  string     // distinguishes the names of this pass from those of every other pass in the process
	log   *c16OwnLog // nil: not logged (the passes alone)
	n     int        // own names made so far in this pass
	decs  []decoration.Decoration
	ids   map[string]uint64
	quiet bool
}

var c16OwnMarks = []string{"*", "#", "o", "x", "%", "@", "&", "$", "=", "~", ":", "╳", "·", "•"}

// decor: the goroutine's i-th own decoration; consecutive ones differ.
func (o *c16Own) decor(i int) (decoration.Decoration, uint64) {
	for len(o.decs) <= i {
		j := len(o.decs)
		r := NewRNG(o.seed*7340033 + uint64(o.g)*104729 + uint64(j)*31 + 5)
		m := func(k int) string { return c16OwnMarks[(o.g*5+j*3+k+r.Intn(2)*7)%len(c16OwnMarks)] }
		var d decoration.Decoration
		switch (j + o.g) % 4 {
		case 0:
			d = decoration.Decoration{Horizontal: m(0), Vertical: m(1), CrossPiece: m(2)}
			d.Populate()
		case 1:
			d = decoration.UTF8BoxLight()
			d.TopLeft, d.BottomRight, d.CrossPiece = m(0), m(1), m(2)
		case 2:
			d = decoration.ASCIIBoxSimple()
			d.CrossPiece, d.HBCross, d.VBodyInner = m(0), m(1), m(2)
		default:
			d = decoration.UTF8BoxHeavy()
			d.HBCross, d.LeftBodyRule, d.RightBodyRule = m(0), m(1), m(2)
		}
		// the serial number makes every own decoration of a goroutine a distinct value
		d.Horizontal = fmt.Sprintf("%s%d", d.Horizontal, j) // unused for rendering
		o.decs = append(o.decs, d)
	}
	return o.decs[i], uint64(i + 1)
}

func (o *c16Own) which(d decoration.Decoration) uint64 {
	if d == decoration.EmptyDecoration {
		return 0
	}
	for i, x := range o.decs {
		if x == d {
			return uint64(i + 1)
		}
	}
	return c16Foreign
}

// fresh: a name nobody else uses and nobody has used before in this process.
func (o *c16Own) fresh() string {
	i := o.n
	o.n++
	var name string
	switch i % 5 {
	case 3:
		name = fmt.Sprintf("c16-%s-g%d.n%d", o.salt, o.g, i) // applications may register dotted names
	case 4:
		name = fmt.Sprintf("C16-%s-G%d-N%d", o.salt, o.g, i)
	default:
		name = fmt.Sprintf("c16-%s-g%d-n%d", o.salt, o.g, i)
	}
	if o.log != nil {
		if o.ids == nil {
			o.ids = map[string]uint64{}
		}
		o.ids[name] = uint64(o.g+1)<<20 | o.log.nextID
		o.log.nextID++
	}
	return name
}

func (o *c16Own) note(k byte, name string, d uint64, b bool) {
	c16Tick()
	if o.log == nil {
		return
	}
	id, ok := o.ids[name]
	if !ok {
		id = 1 // a name nobody registers
	}
	o.log.ops = append(o.log.ops, c16OwnOp{K: k, N: id, D: d, B: b})
}

func (o *c16Own) register(name string, i int) decoration.Decoration {
	d, id := o.decor(i)
	decoration.RegisterDecorationName(name, d)
	o.note('W', name, id, false)
	if o.log != nil {
		if _, seen := o.log.final[name]; !seen {
			o.log.order = append(o.log.order, name)
		}
		o.log.final[name] = d
	}
	return d
}

// lookup: decoration.Named(name), described relative to what this goroutine
// registered under it (want: the decoration it registered last, EmptyDecoration
// if it has not registered the name).
func (o *c16Own) lookup(name string, want decoration.Decoration) string {
	got := decoration.Named(name)
	o.note('R', name, o.which(got), false)
	switch {
	case got == want && got == decoration.EmptyDecoration:
		return "named\x00unknown"
	case got == want:
		return "named\x00the decoration registered last"
	case got == decoration.EmptyDecoration:
		return "named\x00UNKNOWN although registered"
	case o.which(got) != c16Foreign:
		return "named\x00an EARLIER decoration of this goroutine"
	}
	return "named\x00a decoration this goroutine never registered"
}

func c16Contains(sorted []string, name string) bool {
	for _, s := range sorted {
		if s == name {
			return true
		}
	}
	return false
}

// selectAndRender: the ways of selecting a decoration by name, on a table of
// the goroutine's own.
func (o *c16Own) selectAndRender(t tabular.Table, name string, how int) (out, labels []string) {
	add := func(label, s string) {
		out = append(out, s)
		labels = append(labels, label)
	}
	switch how % 4 {
	case 0:
		oc := capture(func() (string, error) {
			tt, err := texttable.Wrap(t).SetDecorationNamed(name)
			if err != nil {
				return "", err
			}
			return tt.Render()
		})
		c16Tick()
		add("own decoration: SetDecorationNamed + Render", oc.Kind+"\x00"+string(oc.Out))
	case 1:
		add("own decoration: format auto:<own name>", c16Render(t, "auto:"+name))
	case 2:
		add("own decoration: format auto:texttable.<own name>", c16Render(t, "auto:texttable."+name))
	default:
		// auto first probes the whole dotted style, which is not a registered name
		add("own decoration: format auto:<own name>.wide", c16Render(t, "auto:"+name+".wide"))
	}
	return out, labels
}

// round: one house style from registration to use.  i numbers the rounds of
// this pass; what is done varies with it.
func (o *c16Own) round(t tabular.Table, i int) (out, labels []string) {
	add := func(label, s string) {
		out = append(out, s)
		labels = append(labels, label)
	}
	name := o.fresh()
	if i%3 == 1 {
		// not registered yet: unknown, and a table that asks for it does not render
		add("own name before it is registered: Named", o.lookup(name, decoration.EmptyDecoration))
		o1, l1 := o.selectAndRender(t, name, i)
		out, labels = append(out, o1...), append(labels, l1...)
	}
	d := o.register(name, 2*i)
	add("own name just registered: Named", o.lookup(name, d))
	o1, l1 := o.selectAndRender(t, name, i+o.g)
	out, labels = append(out, o1...), append(labels, l1...)
	if i%2 == 0 {
		o1, l1 = o.selectAndRender(t, name, 3) // the probing form every other round
		out, labels = append(out, o1...), append(labels, l1...)
	}
	if i%2 == 0 {
		listed := c16Contains(decoration.RegisteredDecorationNames(), name)
		o.note('L', name, 0, listed)
		add("own name just registered: listed by RegisteredDecorationNames", fmt.Sprintf("listed\x00%v", listed))
	} else if i%4 == 1 {
		add("own name just registered: listed by auto.ListStyles", fmt.Sprintf("listed\x00%v", c16Contains(auto.ListStyles(), name)))
	}
	if i%3 == 0 {
		// the name is given another decoration; from now on that one is selected
		d = o.register(name, 2*i+1)
		add("own name re-registered: Named", o.lookup(name, d))
		o1, l1 = o.selectAndRender(t, name, i+o.g+1)
		out, labels = append(out, o1...), append(labels, l1...)
	}
	if i%4 == 2 {
		add("a name nobody registers: Named", o.lookup(name+"-never", decoration.EmptyDecoration))
	}
	return out, labels
}

func c16OwnTinyTable(g int) tabular.Table {
	t := tabular.New()
	t.AddHeaders("g", "item")
	t.AddRowItems(g, "first")
	t.AddSeparator()
	t.AddRowItems("total", strings.Repeat("=", g%5))
	return t
}

// ---------------------------------------------------------------- the readers' view while names are being registered

// c16ListingGrows: a listing taken while goroutines register names of their own
// must be strictly sorted, contain every name of base and every name of the
// listing this reader took before (nothing is ever unregistered), and may have
// grown since then only by the goroutines' own names.
func c16ListingGrows(prev, cur, base []string) bool {
	for i := 1; i < len(cur); i++ {
		if cur[i-1] >= cur[i] {
			return false
		}
	}
	have := make(map[string]bool, len(cur))
	for _, s := range cur {
		have[s] = true
	}
	for _, s := range base {
		if !have[s] {
			return false
		}
	}
	had := make(map[string]bool, len(prev)+len(base))
	for _, s := range prev {
		if !have[s] {
			return false
		}
		had[s] = true
	}
	if prev == nil {
		return true
	}
	for _, s := range base {
		had[s] = true
	}
	for _, s := range cur {
		if !had[s] && !strings.HasPrefix(s, "c16-") && !strings.HasPrefix(s, "C16-") {
			return false
		}
	}
	return true
}

// ---------------------------------------------------------------- goroutines that stop for good

var c16Progress int64

func c16Tick() { atomic.AddInt64(&c16Progress, 1) }

// c16BlockedForGood: does this dump of all goroutines show every goroutine of
// the run (programme goroutines and readers) waiting - none running, runnable,
// sleeping or in a system call?  A goroutine that is merely slow, or waiting
// for a lock somebody is working under, fails this test because that somebody
// is running or runnable.
func c16BlockedForGood(dump string) bool {
	n := 0
	for _, blk := range strings.Split(dump, "\n\n") {
		if !strings.Contains(blk, "main.c16RunProgramme") && !strings.Contains(blk, "main.c16Worker.func") {
			continue
		}
		if strings.Contains(blk, "main.c16Watchdog") {
			continue
		}
		i, j := strings.IndexByte(blk, '['), strings.IndexAny(blk, ",]")
		if i < 0 || j < i {
			return false
		}
		state := blk[i+1 : j]
		switch {
		case state == "running", state == "runnable", state == "syscall", state == "sleep", state == "IO wait",
			strings.HasPrefix(state, "GC"), strings.HasPrefix(state, "preempted"), strings.HasPrefix(state, "copystack"):
			return false
		}
		n++
	}
	return n > 0
}

func c16AllStacks() string {
	buf := make([]byte, 1<<20)
	for {
		n := runtime.Stack(buf, true)
		if n < len(buf) {
			return string(buf[:n])
		}
		buf = make([]byte, 2*len(buf))
	}
}

// c16Watchdog: lives while the goroutines run.  When no render (and no
// registry operation of the own-decoration rounds) has finished for a while it
// takes a dump of all goroutines; if every goroutine of the run is blocked, and
// still is a second later with nothing finished in between, the run is stuck:
// the child reports that (exit code 67) instead of waiting for ever.
func c16Watchdog(spec C16Spec, joined *int32) {
	quiet := time.Duration(spec.StuckAfter) * time.Second
	if quiet <= 0 {
		quiet = 3 * time.Second
	}
	last, since := int64(-1), time.Now()
	for atomic.LoadInt32(joined) == 0 {
		time.Sleep(200 * time.Millisecond)
		if p := atomic.LoadInt64(&c16Progress); p != last {
			last, since = p, time.Now()
			continue
		}
		if time.Since(since) < quiet {
			continue
		}
		if !c16BlockedForGood(c16AllStacks()) {
			time.Sleep(time.Second)
			continue
		}
		time.Sleep(time.Second)
		dump := c16AllStacks()
		if atomic.LoadInt64(&c16Progress) != last || atomic.LoadInt32(joined) != 0 || !c16BlockedForGood(dump) {
			continue
		}
		res := C16Result{Rows: make([]c16Row, spec.G), Outcomes: map[string]int{}, Procs: runtime.GOMAXPROCS(0),
			Stuck: fmt.Sprintf("nothing finished for %v and every goroutine of the run is blocked:\n%s", time.Since(since).Round(time.Second), c16StuckSummary(dump))}
		os.Stdout.Write(mustJSON(res))
		os.Exit(67)
	}
}

// c16StuckSummary: the blocked goroutines of the run, grouped by where they wait
// (the top frames), most frequent first.
func c16StuckSummary(dump string) string {
	count := map[string]int{}
	var order []string
	for _, blk := range strings.Split(dump, "\n\n") {
		if !strings.Contains(blk, "main.c16RunProgramme") && !strings.Contains(blk, "main.c16Worker.func") || strings.Contains(blk, "main.c16Watchdog") {
			continue
		}
		lines := strings.Split(blk, "\n")
		var fr []string
		if i, j := strings.IndexByte(lines[0], '['), strings.IndexAny(lines[0], ",]"); i >= 0 && j > i {
			fr = append(fr, "["+lines[0][i+1:j]+"]")
		}
		for _, ln := range lines[1:] {
			if strings.HasPrefix(ln, "\t") || strings.HasPrefix(ln, "created by") {
				continue
			}
			if k := strings.LastIndexByte(ln, '('); k > 0 {
				ln = ln[:k]
			}
			if strings.HasPrefix(ln, "sync.") || strings.HasPrefix(ln, "runtime.") || strings.HasPrefix(ln, "internal/") {
				continue
			}
			fr = append(fr, ln)
			if len(fr) >= 7 {
				break
			}
		}
		key := strings.Join(fr, " < ")
		if count[key] == 0 {
			order = append(order, key)
		}
		count[key]++
	}
	sort.SliceStable(order, func(i, j int) bool { return count[order[i]] > count[order[j]] })
	var sb strings.Builder
	for i, k := range order {
		if i >= 8 {
			fmt.Fprintf(&sb, "... and %d more places\n", len(order)-i)
			break
		}
		fmt.Fprintf(&sb, "%d goroutine(s) %s\n", count[k], k)
	}
	return sb.String()
}

// c16OnlyBase: a "\x00"-joined listing without the goroutines' own names.
func c16OnlyBase(listing string, base []string) string {
	var keep []string
	for _, s := range strings.Split(listing, "\x00") {
		if !strings.HasPrefix(s, "c16-") && !strings.HasPrefix(s, "C16-") {
			keep = append(keep, s)
		}
	}
	return strings.Join(keep, "\x00")
}

// c16OwnJudge: how many answers in one goroutine's log differ from what the
// goroutine gets alone (a lookup finds what it registered last under the
// name, nothing if it has not; a listing has the name iff it has registered
// it).  Coq judges the same log (own_ok); this count is for the signature and
// the report.
func c16OwnJudge(ops []c16OwnOp) int {
	reg := map[uint64]uint64{}
	bad := 0
	for _, o := range ops {
		switch o.K {
		case 'W':
			reg[o.N] = o.D
		case 'R':
			if o.D != reg[o.N] {
				bad++
			}
		case 'L':
			if _, have := reg[o.N]; have != o.B {
				bad++
			}
		}
	}
	return bad
}

func c16OwnOpsCoq(ops []c16OwnOp) string {
	parts := make([]string, len(ops))
	for i, o := range ops {
		parts[i] = o.Coq()
	}
	return "[" + strings.Join(parts, "; ") + "]"
}
