package main

// C13 - callbacks fire once per target, on the live object, in the documented
// order.  The harness replays a history (build operations interleaved with
// registrations of recording callbacks, then 1..k render passes) on the real
// library, logs every invocation as (callback id, identity of the object
// received), reads the property each callback set back through the table, and
// ships (history, observation) to Coq (Run/C13Run.v).

import (
	"encoding/json"
	"fmt"
	"reflect"
	"sort"
	"strings"

	"go.pennock.tech/tabular"
	"go.pennock.tech/tabular/csv"
)

// ---------------------------------------------------------------- spec

type C13Op struct {
	K string `json:"k"`           // newrow | rowadd | addrow | append | items | sep | headers | reg | hcol
	R int    `json:"r,omitempty"` // row id (rowadd, addrow; reg on row / cell)
	N int    `json:"n,omitempty"` // number of items (items, headers); column number (reg on column, hcol); cell column (reg on cell)
	// reg only
	Owner  string `json:"owner,omitempty"`  // table | column | row | cell
	Time   string `json:"time,omitempty"`   // add | pre | render | post
	Target string `json:"target,omitempty"` // itself | cell | row
	CB     int    `json:"cb,omitempty"`
	// What kind of callback object: "" = pointer to a recorder carrying its id
	// (all such objects differ); "twin" = pointer to a recorder with no state of
	// its own (every two twins are distinct objects with equal contents, its id
	// is found by address); "val" = a recorder struct passed by value (two
	// registrations of one id are equal values).  A registration naming an id
	// that was registered before passes the very same object again.
	Kind string `json:"kind,omitempty"`
	// the callback returns an error from every invocation (the invocation is
	// still logged and the property still set: the trace does not depend on it)
	Fail bool `json:"fail,omitempty"`
	// reg on a column only: 1+index of the earlier hcol operation whose handle
	// (t.Column(n) taken back then) is passed as the owner; 0 = t.Column(n) now
	H int `json:"h,omitempty"`
}

type C13Spec struct {
	Ops    []C13Op `json:"ops"`
	Passes int     `json:"passes"`
	Via    string  `json:"via,omitempty"` // "" = t.InvokeRenderCallbacks(); "csv" = csv.Render(t), which invokes it once
}

var c13Owners = []string{"table", "column", "row", "cell"}
var c13Times = []string{"add", "pre", "render", "post"}
var c13Targets = []string{"itself", "cell", "row"}

func (o C13Op) allocates() bool {
	switch o.K {
	case "newrow", "append", "items", "sep", "headers":
		return true
	}
	return false
}

func (o C13Op) String() string {
	switch o.K {
	case "rowadd", "addrow":
		return fmt.Sprintf("%s(%d)", o.K, o.R)
	case "items", "headers":
		return fmt.Sprintf("%s(%d)", o.K, o.N)
	case "hcol":
		return fmt.Sprintf("h:=column%d", o.N)
	case "reg":
		ow := o.Owner
		switch o.Owner {
		case "column":
			ow = fmt.Sprintf("column%d", o.N)
		case "row":
			ow = fmt.Sprintf("row%d", o.R)
		case "cell":
			ow = fmt.Sprintf("cell%d.%d", o.R, o.N)
		}
		if o.H > 0 {
			ow += fmt.Sprintf("@h%d", o.H-1)
		}
		extra := ""
		if o.Kind != "" {
			extra += "," + o.Kind
		}
		if o.Fail {
			extra += ",fails"
		}
		return fmt.Sprintf("reg#%d(%s,%s,%s%s)", o.CB, ow, o.Time, o.Target, extra)
	}
	return o.K
}

// ---------------------------------------------------------------- identities

type c13Tgt struct {
	K    string // table col row cell unknown
	A, B int
	Note string // for unknown: what it was
}

func (x c13Tgt) Coq() string {
	switch x.K {
	case "table":
		return "XTable"
	case "col":
		return "(XCol " + cqNat(x.A) + ")"
	case "row":
		return "(XRow " + cqNat(x.A) + ")"
	case "cell":
		return "(XCell " + cqNat(x.A) + " " + cqNat(x.B) + ")"
	}
	return "XUnknown"
}

func (x c13Tgt) String() string {
	switch x.K {
	case "table":
		return "table"
	case "col":
		return fmt.Sprintf("column%d", x.A)
	case "row":
		return fmt.Sprintf("row%d", x.A)
	case "cell":
		return fmt.Sprintf("cell%d.%d", x.A, x.B)
	}
	return "UNKNOWN(" + x.Note + ")"
}

func (x c13Tgt) key() string { return x.K + fmt.Sprint(x.A, ".", x.B) }

type c13Ev struct {
	CB int
	X  c13Tgt
}

func (e c13Ev) String() string { return fmt.Sprintf("#%d@%s", e.CB, e.X) }
func (e c13Ev) Coq() string    { return "(" + cqNat(e.CB) + ", " + e.X.Coq() + ")" }
func (e c13Ev) key() string    { return fmt.Sprint(e.CB, "@", e.X.key()) }

// ---------------------------------------------------------------- a small shape simulator (owners that exist, wf, expected trace for grouping)

type c13SimRow struct {
	cells    int
	sep      bool
	attached bool
	header   bool
	late     map[int]bool // cells added after the row joined the table
}

type c13Sim struct {
	rows       []c13SimRow
	order      []int
	header     int // -1 none
	ncols      int
	regs       []C13Op // accepted registrations in order
	add        []c13Ev // expected add-time events
	regerr     []int
	lateAttach bool
	handles    []int // column number of each hcol so far
}

func newC13Sim() *c13Sim { return &c13Sim{header: -1} }

func c13Accepts(owner, target string) bool {
	switch owner {
	case "table", "row":
		return true
	case "column", "cell":
		return target != "row"
	}
	return false
}

func (s *c13Sim) ownerExists(o C13Op) bool {
	switch o.Owner {
	case "table":
		return true
	case "column":
		return o.N >= 0 && o.N <= s.ncols
	case "row":
		return o.R >= 0 && o.R < len(s.rows)
	case "cell":
		return o.R >= 0 && o.R < len(s.rows) && !s.rows[o.R].sep && o.N >= 1 && o.N <= s.rows[o.R].cells
	}
	return false
}

// a header row that a later AddHeaders replaced is no longer reachable through
// the public API; the harness cannot name it (or its cells) as an owner
func (s *c13Sim) replacedHeader(r int) bool {
	return r >= 0 && r < len(s.rows) && s.rows[r].header && r != s.header
}

func (s *c13Sim) wf(o C13Op) bool {
	if (o.K == "rowadd" || (o.K == "reg" && (o.Owner == "row" || o.Owner == "cell"))) && s.replacedHeader(o.R) {
		return false
	}
	switch o.K {
	case "rowadd":
		return o.R >= 0 && o.R < len(s.rows)
	case "addrow":
		return o.R >= 0 && o.R < len(s.rows) && !s.rows[o.R].attached
	case "reg":
		if o.H != 0 && (o.Owner != "column" || o.H < 0 || o.H > len(s.handles) || s.handles[o.H-1] != o.N) {
			return false
		}
		return s.ownerExists(o)
	case "hcol":
		return o.N >= 0 && o.N <= s.ncols
	case "items", "headers":
		return o.N >= 0
	}
	return true
}

func c13Norm(owner, target string) string {
	if owner == "row" && target == "row" {
		return "itself"
	}
	if owner == "cell" && target == "cell" {
		return "itself"
	}
	return target
}

// fire: callbacks of (owner kind, a, b) aimed at target (normal form) at time tm, handed x
func (s *c13Sim) fire(owner string, a, b int, target, tm string, x c13Tgt) []c13Ev {
	var out []c13Ev
	for _, r := range s.regs {
		if r.Owner != owner || r.Time != tm || c13Norm(r.Owner, r.Target) != target {
			continue
		}
		switch owner {
		case "column":
			if r.N != a {
				continue
			}
		case "row":
			if r.R != a {
				continue
			}
		case "cell":
			if r.R != a || r.N != b {
				continue
			}
		}
		out = append(out, c13Ev{r.CB, x})
	}
	return out
}

func (s *c13Sim) joinCells(id, from, to int) {
	for c := from; c <= to; c++ {
		x := c13Tgt{K: "cell", A: id, B: c}
		s.add = append(s.add, s.fire("column", c, 0, "cell", "add", x)...)
		s.add = append(s.add, s.fire("table", 0, 0, "cell", "add", x)...)
	}
}

func (s *c13Sim) joinRow(id int) {
	x := c13Tgt{K: "row", A: id}
	s.add = append(s.add, s.fire("row", id, 0, "itself", "add", x)...)
	s.add = append(s.add, s.fire("table", 0, 0, "row", "add", x)...)
}

func (s *c13Sim) addCells(id, from, to int) {
	for c := from; c <= to; c++ {
		s.add = append(s.add, s.fire("row", id, 0, "cell", "add", c13Tgt{K: "cell", A: id, B: c})...)
	}
}

func (s *c13Sim) step(o C13Op) {
	id := len(s.rows)
	switch o.K {
	case "newrow":
		s.rows = append(s.rows, c13SimRow{})
	case "rowadd":
		r := &s.rows[o.R]
		if r.sep {
			return
		}
		r.cells++
		s.addCells(o.R, r.cells, r.cells)
		if r.attached {
			if r.late == nil {
				r.late = map[int]bool{}
			}
			r.late[r.cells] = true
			s.lateAttach = true
			if r.cells > s.ncols {
				s.ncols = r.cells
			}
			s.joinCells(o.R, r.cells, r.cells)
		}
	case "addrow":
		r := &s.rows[o.R]
		r.attached = true
		s.order = append(s.order, o.R)
		if r.cells > s.ncols {
			s.ncols = r.cells
		}
		s.joinRow(o.R)
		s.joinCells(o.R, 1, r.cells)
	case "append", "items":
		n := 0
		if o.K == "items" {
			n = o.N
		}
		s.rows = append(s.rows, c13SimRow{cells: n, attached: true})
		s.order = append(s.order, id)
		if n > s.ncols {
			s.ncols = n
		}
		s.addCells(id, 1, n)
		s.joinRow(id)
		s.joinCells(id, 1, n)
	case "sep":
		s.rows = append(s.rows, c13SimRow{sep: true, attached: true})
		s.order = append(s.order, id)
	case "headers":
		s.rows = append(s.rows, c13SimRow{cells: o.N, attached: true, header: true})
		s.header = id
		if o.N > s.ncols {
			s.ncols = o.N
		}
		s.addCells(id, 1, o.N)
		s.joinRow(id)
		s.joinCells(id, 1, o.N)
	case "hcol":
		s.handles = append(s.handles, o.N)
	case "reg":
		if c13Accepts(o.Owner, o.Target) {
			s.regs = append(s.regs, o)
			s.regerr = append(s.regerr, 0)
		} else {
			s.regerr = append(s.regerr, 1)
		}
	}
}

func (s *c13Sim) renderRow(id int) []c13Ev {
	var out []c13Ev
	xr := c13Tgt{K: "row", A: id}
	out = append(out, s.fire("row", id, 0, "itself", "pre", xr)...)
	for c := 1; c <= s.rows[id].cells; c++ {
		x := c13Tgt{K: "cell", A: id, B: c}
		out = append(out, s.fire("table", 0, 0, "cell", "pre", x)...)
		out = append(out, s.fire("column", c, 0, "cell", "pre", x)...)
		out = append(out, s.fire("row", id, 0, "cell", "pre", x)...)
		out = append(out, s.fire("table", 0, 0, "cell", "render", x)...)
		out = append(out, s.fire("cell", id, c, "itself", "render", x)...)
		out = append(out, s.fire("row", id, 0, "cell", "post", x)...)
		out = append(out, s.fire("column", c, 0, "cell", "post", x)...)
		out = append(out, s.fire("table", 0, 0, "cell", "post", x)...)
	}
	out = append(out, s.fire("row", id, 0, "itself", "post", xr)...)
	return out
}

func (s *c13Sim) renderPass() []c13Ev {
	var out []c13Ev
	out = append(out, s.fire("table", 0, 0, "itself", "pre", c13Tgt{K: "table"})...)
	for n := 0; n <= s.ncols; n++ {
		out = append(out, s.fire("column", n, 0, "itself", "pre", c13Tgt{K: "col", A: n})...)
	}
	if s.header >= 0 {
		out = append(out, s.renderRow(s.header)...)
	}
	for _, id := range s.order {
		out = append(out, s.renderRow(id)...)
	}
	for n := 0; n <= s.ncols; n++ {
		out = append(out, s.fire("column", n, 0, "itself", "post", c13Tgt{K: "col", A: n})...)
	}
	out = append(out, s.fire("table", 0, 0, "itself", "post", c13Tgt{K: "table"})...)
	return out
}

// c13WF: is the whole history inside the property's quantifier
func c13WF(ops []C13Op) bool {
	s := newC13Sim()
	for _, o := range ops {
		if !s.wf(o) {
			return false
		}
		s.step(o)
	}
	return true
}

// ---------------------------------------------------------------- executing on the real library

type c13Key int // property key of recording callback #id

type c13Env struct {
	t       *tabular.ATable
	rows    []*tabular.Row // by id; nil while the pointer is not known to the harness
	order   []int
	hdrID   int
	render  bool
	addLog  []c13Ev
	rndLog  []c13Ev
	copyCol bool // a callback received a *column that is none of the table's columns

	handles []c13Handle                      // column handles taken by hcol operations
	objs    map[int]tabular.PropertyCallback // callback object of each id
	twins   map[*c13Twin]c13TwinInfo
}

type c13Handle struct {
	n int
	h tabular.PropertyOwner // the *column t.Column(n) returned back then
}

// invoked: what every recording callback does
func (e *c13Env) invoked(id int, fail bool, o tabular.PropertyOwner) error {
	x := e.identify(o)
	ev := c13Ev{id, x}
	if e.render {
		e.rndLog = append(e.rndLog, ev)
	} else {
		e.addLog = append(e.addLog, ev)
	}
	o.SetProperty(c13Key(id), id)
	if fail {
		return fmt.Errorf("recording callback #%d fails", id)
	}
	return nil
}

type c13Recorder struct {
	id   int
	fail bool
	env  *c13Env
}

func (c *c13Recorder) UpdateProperties(o tabular.PropertyOwner) error {
	return c.env.invoked(c.id, c.fail, o)
}

// c13Twin: all twins of a run have equal contents (== on the pointees and
// reflect.DeepEqual hold between any two) and yet are different callbacks
type c13Twin struct{ env *c13Env }

type c13TwinInfo struct {
	id   int
	fail bool
}

func (c *c13Twin) UpdateProperties(o tabular.PropertyOwner) error {
	in := c.env.twins[c]
	return c.env.invoked(in.id, in.fail, o)
}

// c13Val: a callback that is a plain value
type c13Val struct {
	id   int
	fail bool
	env  *c13Env
}

func (c c13Val) UpdateProperties(o tabular.PropertyOwner) error {
	return c.env.invoked(c.id, c.fail, o)
}

// callback returns the object for a registration: the same object again when
// the id was registered before
func (e *c13Env) callback(o C13Op) tabular.PropertyCallback {
	if cb, ok := e.objs[o.CB]; ok {
		return cb
	}
	var cb tabular.PropertyCallback
	switch o.Kind {
	case "twin":
		tw := &c13Twin{e}
		e.twins[tw] = c13TwinInfo{o.CB, o.Fail}
		cb = tw
	case "val":
		cb = c13Val{o.CB, o.Fail, e}
	default:
		cb = &c13Recorder{o.CB, o.Fail, e}
	}
	e.objs[o.CB] = cb
	return cb
}

// c13Capture only learns the header row's pointer (there is no accessor for
// it); it logs nothing and sets nothing
type c13Capture struct{ env *c13Env }

func (c *c13Capture) UpdateProperties(o tabular.PropertyOwner) error {
	c.env.identify(o)
	return nil
}

func (e *c13Env) identify(o tabular.PropertyOwner) c13Tgt {
	switch p := o.(type) {
	case *tabular.ATable:
		if p == e.t {
			return c13Tgt{K: "table"}
		}
		return c13Tgt{K: "unknown", Note: "another table"}
	case *tabular.Row:
		return e.identifyRow(p)
	case *tabular.Cell:
		return e.identifyCell(p)
	}
	for n := 0; n <= e.t.NColumns(); n++ {
		if c := e.t.Column(n); c != nil && o == tabular.PropertyOwner(c) {
			// the column as the table has it now must also still be the one
			// every handle taken earlier denotes
			for _, h := range e.handles {
				if h.n == n && h.h != o {
					return c13Tgt{K: "unknown", Note: fmt.Sprintf("column %d as the table has it now, which is not the object a handle taken earlier denotes", n)}
				}
			}
			return c13Tgt{K: "col", A: n}
		}
	}
	for _, h := range e.handles {
		if h.h == o {
			return c13Tgt{K: "unknown", Note: fmt.Sprintf("the object of a handle to column %d taken earlier, no longer the table's column", h.n)}
		}
	}
	tn := reflect.TypeOf(o).String()
	if strings.HasSuffix(tn, ".column") {
		e.copyCol = true
		return c13Tgt{K: "unknown", Note: "a column that is none of t.Column(0..n): a copy"}
	}
	return c13Tgt{K: "unknown", Note: tn}
}

func (e *c13Env) identifyRow(p *tabular.Row) c13Tgt {
	for id, q := range e.rows {
		if q == p {
			return c13Tgt{K: "row", A: id}
		}
	}
	for pos, q := range e.t.AllRows() {
		if q == p && pos < len(e.order) {
			e.rows[e.order[pos]] = p
			return c13Tgt{K: "row", A: e.order[pos]}
		}
	}
	// the header row: recognised by its cell storage being the table's header cells
	if e.hdrID >= 0 && e.hdrID < len(e.rows) && e.rows[e.hdrID] == nil {
		hs := e.t.Headers()
		cs := p.Cells()
		if hs != nil && cs != nil && len(hs) == len(cs) && (len(cs) == 0 || &hs[0] == &cs[0]) {
			e.rows[e.hdrID] = p
			return c13Tgt{K: "row", A: e.hdrID}
		}
	}
	return c13Tgt{K: "unknown", Note: "a row that is none of the table's"}
}

func (e *c13Env) identifyCell(p *tabular.Cell) c13Tgt {
	for id, q := range e.rows {
		if q == nil {
			continue
		}
		cs := q.Cells()
		for i := range cs {
			if &cs[i] == p {
				return c13Tgt{K: "cell", A: id, B: i + 1}
			}
		}
	}
	for pos, q := range e.t.AllRows() {
		if pos >= len(e.order) {
			break
		}
		cs := q.Cells()
		for i := range cs {
			if &cs[i] == p {
				return c13Tgt{K: "cell", A: e.order[pos], B: i + 1}
			}
		}
	}
	if e.hdrID >= 0 {
		hs := e.t.Headers()
		for i := range hs {
			if &hs[i] == p {
				return c13Tgt{K: "cell", A: e.hdrID, B: i + 1}
			}
		}
	}
	return c13Tgt{K: "unknown", Note: "a cell that is none of the table's"}
}

// rowPtr: the *Row for an id, through the table when the harness did not create it
func (e *c13Env) rowPtr(id int) *tabular.Row {
	if id < 0 || id >= len(e.rows) {
		return nil
	}
	if e.rows[id] != nil {
		return e.rows[id]
	}
	all := e.t.AllRows()
	for pos, rid := range e.order {
		if rid == id && pos < len(all) {
			e.rows[id] = all[pos]
			return all[pos]
		}
	}
	return nil
}

func (e *c13Env) posOf(id int) int {
	for pos, rid := range e.order {
		if rid == id {
			return pos
		}
	}
	return -1
}

// cellPtr: through the table (CellAt / Headers) when the row is in it
func (e *c13Env) cellPtr(id, c int) *tabular.Cell {
	if id == e.hdrID {
		hs := e.t.Headers()
		if c >= 1 && c <= len(hs) {
			return &hs[c-1]
		}
		return nil
	}
	if pos := e.posOf(id); pos >= 0 {
		p, err := e.t.CellAt(tabular.CellLocation{Row: pos + 1, Column: c})
		if err != nil {
			return nil
		}
		return p
	}
	if r := e.rowPtr(id); r != nil {
		cs := r.Cells()
		if c >= 1 && c <= len(cs) {
			return &cs[c-1]
		}
	}
	return nil
}

type c13Obs struct {
	Kind    string   `json:"kind"` // ok | panic
	Panic   string   `json:"panic,omitempty"`
	Reg     []int    `json:"reg"`
	Add     []string `json:"add"`
	Render  []string `json:"render"`
	Props   []string `json:"props"`
	ExpAdd  []string `json:"expected_add"`
	ExpRnd  []string `json:"expected_render"`
	Sig     string   `json:"sig"`
	History string   `json:"history"`
	Snippet string   `json:"go,omitempty"`

	add, rnd []c13Ev
	props    []c13Ev // (key, target)
}

func c13Exec(sp C13Spec) (ob c13Obs) {
	env := &c13Env{t: tabular.New(), hdrID: -1, objs: map[int]tabular.PropertyCallback{}, twins: map[*c13Twin]c13TwinInfo{}}
	ob.Kind = "ok"
	defer func() {
		if r := recover(); r != nil {
			ob.Kind = "panic"
			ob.Panic = fmt.Sprint(r)
		}
		ob.add, ob.rnd = env.addLog, env.rndLog
	}()
	t := env.t

	// does the history name a header row as owner (or extend one)?  Then its pointer must be captured.
	{
		var isHdr []bool
		need := false
		for _, o := range sp.Ops {
			if o.allocates() {
				isHdr = append(isHdr, o.K == "headers")
			}
			if (o.K == "rowadd" || (o.K == "reg" && o.Owner == "row")) && o.R >= 0 && o.R < len(isHdr) && isHdr[o.R] {
				need = true
			}
		}
		if need {
			t.RegisterPropertyCallback(t, tabular.CB_AT_ADD, tabular.CB_ON_ROW, &c13Capture{env})
		}
	}

	alloc := func() int {
		env.rows = append(env.rows, nil)
		return len(env.rows) - 1
	}
	cids := []int{}
	for _, o := range sp.Ops {
		switch o.K {
		case "newrow":
			id := alloc()
			env.rows[id] = tabular.NewRow()
		case "rowadd":
			if r := env.rowPtr(o.R); r != nil {
				r.Add(tabular.NewCell("x"))
			} else {
				panic("harness: row pointer unknown")
			}
		case "addrow":
			env.order = append(env.order, o.R)
			t.AddRow(env.rowPtr(o.R))
		case "append":
			id := alloc()
			env.order = append(env.order, id)
			env.rows[id] = t.AppendNewRow()
		case "items":
			id := alloc()
			env.order = append(env.order, id)
			items := make([]interface{}, o.N)
			for i := range items {
				items[i] = "x"
			}
			t.AddRowItems(items...)
			env.rowPtr(id)
		case "sep":
			id := alloc()
			env.order = append(env.order, id)
			t.AddSeparator()
			env.rowPtr(id)
		case "headers":
			id := alloc()
			env.hdrID = id
			items := make([]interface{}, o.N)
			for i := range items {
				items[i] = "h"
			}
			t.AddHeaders(items...)
		case "hcol":
			if c := t.Column(o.N); c != nil {
				env.handles = append(env.handles, c13Handle{o.N, c})
			} else {
				env.handles = append(env.handles, c13Handle{o.N, nil})
			}
		case "reg":
			cids = append(cids, o.CB)
			var owner tabular.PropertyOwner
			switch o.Owner {
			case "table":
				owner = t
			case "column":
				if o.H > 0 {
					owner = env.handles[o.H-1].h
				} else if c := t.Column(o.N); c != nil {
					owner = c
				}
			case "row":
				if r := env.rowPtr(o.R); r != nil {
					owner = r
				}
			case "cell":
				if c := env.cellPtr(o.R, o.N); c != nil {
					owner = c
				}
			}
			if owner == nil {
				ob.Reg = append(ob.Reg, 2)
				continue
			}
			var err error
			rec := env.callback(o)
			tg := tabular.CB_ON_ITSELF
			switch o.Target {
			case "cell":
				tg = tabular.CB_ON_CELL
			case "row":
				tg = tabular.CB_ON_ROW
			}
			switch o.Time {
			case "add":
				err = t.RegisterPropertyCallback(owner, tabular.CB_AT_ADD, tg, rec)
			case "pre":
				err = t.RegisterPropertyCallback(owner, tabular.CB_AT_RENDER_PRECELL, tg, rec)
			case "render":
				err = t.RegisterPropertyCallback(owner, tabular.CB_AT_RENDER, tg, rec)
			default:
				err = t.RegisterPropertyCallback(owner, tabular.CB_AT_RENDER_POSTCELL, tg, rec)
			}
			if err != nil {
				ob.Reg = append(ob.Reg, 1)
			} else {
				ob.Reg = append(ob.Reg, 0)
			}
		}
	}

	env.render = true
	for i := 0; i < sp.Passes; i++ {
		if sp.Via == "csv" {
			// error (no columns), or even a panic further down in the renderer
			// (C05/C09's subject): the callbacks ran first
			func() {
				defer func() { recover() }()
				csv.Render(t)
			}()
		} else {
			t.InvokeRenderCallbacks()
		}
	}
	env.render = false

	// liveness: read every callback's property back, through the table
	sort.Ints(cids)
	{
		var u []int
		for i, id := range cids {
			if i == 0 || id != cids[i-1] {
				u = append(u, id)
			}
		}
		cids = u
	}
	has := func(o tabular.PropertyOwner, id int) bool { return o.GetProperty(c13Key(id)) != nil }
	for _, id := range cids {
		if has(t, id) {
			ob.props = append(ob.props, c13Ev{id, c13Tgt{K: "table"}})
		}
		for n := 0; n <= t.NColumns(); n++ {
			if c := t.Column(n); c != nil && has(c, id) {
				// ... and through every handle to that column taken earlier
				live := true
				for _, h := range env.handles {
					if h.n == n && (h.h == nil || !has(h.h, id)) {
						live = false
					}
				}
				if live {
					ob.props = append(ob.props, c13Ev{id, c13Tgt{K: "col", A: n}})
				}
			}
		}
		for rid := range env.rows {
			r := env.rowPtr(rid)
			if r == nil {
				continue
			}
			if has(r, id) {
				ob.props = append(ob.props, c13Ev{id, c13Tgt{K: "row", A: rid}})
			}
			for c := 1; c <= len(r.Cells()); c++ {
				if p := env.cellPtr(rid, c); p != nil && has(p, id) {
					ob.props = append(ob.props, c13Ev{id, c13Tgt{K: "cell", A: rid, B: c}})
				}
			}
		}
		// a header row whose pointer no callback ever received: its cells are still reachable
		if env.hdrID >= 0 && env.rows[env.hdrID] == nil {
			hs := t.Headers()
			for i := range hs {
				if has(&hs[i], id) {
					ob.props = append(ob.props, c13Ev{id, c13Tgt{K: "cell", A: env.hdrID, B: i + 1}})
				}
			}
		}
	}
	return ob
}

// ---------------------------------------------------------------- grouping of failures (the verdict itself is Coq's)

func c13Multiset(evs []c13Ev) map[string]int {
	m := map[string]int{}
	for _, e := range evs {
		m[e.key()]++
	}
	return m
}

func c13Sig(sp C13Spec, ob *c13Obs, sim *c13Sim, expRender []c13Ev, copyCol bool) string {
	if ob.Kind == "panic" {
		return "panic"
	}
	regOf := map[int]C13Op{}
	for _, r := range sim.regs {
		regOf[r.CB] = r
	}
	if copyCol {
		return "column-itself-callback-receives-a-copy"
	}
	hasFail, hasHandle := false, false
	for _, o := range sp.Ops {
		if o.K == "hcol" {
			hasHandle = true
		}
		if o.K == "reg" && o.Fail {
			hasFail = true
		}
	}
	for _, e := range append(append([]c13Ev{}, ob.add...), ob.rnd...) {
		if e.X.K == "unknown" && strings.Contains(e.X.Note, "handle") {
			return "column-handle-taken-earlier-is-not-the-live-column"
		}
	}
	// registrations that share their slot with an equal callback (equal contents, or the same object)
	slotOf := func(r C13Op) string {
		return fmt.Sprint(r.Owner, "/", r.R, "/", r.N, "/", c13Norm(r.Owner, r.Target), "/", r.Time)
	}
	equalInSlot := map[int]bool{}
	for i, a := range sim.regs {
		for j, b := range sim.regs {
			if i != j && slotOf(a) == slotOf(b) && (a.CB == b.CB || (a.Kind == "twin" && b.Kind == "twin")) {
				equalInSlot[a.CB] = true
			}
		}
	}
	classify := func(e c13Ev, what string) string {
		r, ok := regOf[e.CB]
		if !ok {
			return what + ":unregistered-callback"
		}
		if equalInSlot[e.CB] {
			return what + "-invocation-of-a-callback-equal-to-another-in-its-slot"
		}
		if r.Owner == "column" && (r.H > 0 || hasHandle) {
			return "column-handle-taken-earlier-is-not-the-live-column"
		}
		if hasFail {
			return what + "-invocation-in-a-history-with-a-callback-that-returns-an-error"
		}
		if what == "missing" {
			if r.Owner == "table" && r.Time == "post" && c13Norm(r.Owner, r.Target) == "cell" {
				return "table-post-cell-callbacks-never-invoked"
			}
			if r.Owner == "column" && r.Target == "cell" && e.X.K == "cell" && e.X.A < len(sim.rows) && sim.rows[e.X.A].header {
				return "header-cell-never-reaches-column-cell-callbacks"
			}
			if r.Time == "add" && (r.Owner == "table" || r.Owner == "column") && r.Target == "cell" && e.X.K == "cell" &&
				e.X.A < len(sim.rows) && sim.rows[e.X.A].late[e.X.B] {
				return "cell-added-to-attached-row-fires-no-table-or-column-add-callbacks"
			}
		}
		return fmt.Sprintf("%s:%s/%s/%s", what, r.Owner, r.Time, r.Target)
	}
	for i, c := range ob.Reg {
		if i < len(sim.regerr) && c != sim.regerr[i] {
			if c == 2 {
				if sim.lateAttach {
					return "column-of-cell-added-to-attached-row-does-not-exist"
				}
				return "owner-unavailable"
			}
			return "registration-result"
		}
	}
	got := c13Multiset(append(append([]c13Ev{}, ob.add...), ob.rnd...))
	want := c13Multiset(append(append([]c13Ev{}, sim.add...), expRender...))
	for _, e := range append(append([]c13Ev{}, sim.add...), expRender...) {
		if got[e.key()] < want[e.key()] {
			return classify(e, "missing")
		}
	}
	for _, e := range append(append([]c13Ev{}, ob.add...), ob.rnd...) {
		if got[e.key()] > want[e.key()] {
			return classify(e, "extra")
		}
	}
	if len(ob.rnd) == len(expRender) {
		for i := range ob.rnd {
			if ob.rnd[i].key() != expRender[i].key() {
				return "render-order"
			}
		}
	}
	pm := map[string]bool{}
	for _, p := range ob.props {
		pm[p.key()] = true
	}
	for _, e := range append(append([]c13Ev{}, sim.add...), expRender...) {
		if !pm[e.key()] {
			if e.X.K == "col" && hasHandle {
				return "column-handle-taken-earlier-is-not-the-live-column"
			}
			return "property-set-by-callback-not-visible:" + e.X.K
		}
	}
	for _, p := range ob.props {
		if want[p.key()] == 0 {
			return "property-on-wrong-object:" + p.X.K
		}
	}
	return ""
}

func c13Snippet(sp C13Spec) string {
	var sb strings.Builder
	sb.WriteString("t := tabular.New(); ")
	id := 0
	hcount := 0
	for _, o := range sp.Ops {
		switch o.K {
		case "newrow":
			fmt.Fprintf(&sb, "r%d := tabular.NewRow(); ", id)
		case "rowadd":
			fmt.Fprintf(&sb, "r%d.Add(tabular.NewCell(\"x\")); ", o.R)
		case "addrow":
			fmt.Fprintf(&sb, "t.AddRow(r%d); ", o.R)
		case "append":
			fmt.Fprintf(&sb, "r%d := t.AppendNewRow(); ", id)
		case "items":
			fmt.Fprintf(&sb, "t.AddRowItems(%d items) /*r%d*/; ", o.N, id)
		case "sep":
			fmt.Fprintf(&sb, "t.AddSeparator() /*r%d*/; ", id)
		case "headers":
			fmt.Fprintf(&sb, "t.AddHeaders(%d items) /*r%d*/; ", o.N, id)
		case "hcol":
			fmt.Fprintf(&sb, "h%d := t.Column(%d); ", hcount, o.N)
			hcount++
		case "reg":
			ow := "t"
			switch o.Owner {
			case "column":
				ow = fmt.Sprintf("t.Column(%d)", o.N)
				if o.H > 0 {
					ow = fmt.Sprintf("h%d", o.H-1)
				}
			case "row":
				ow = fmt.Sprintf("r%d", o.R)
			case "cell":
				ow = fmt.Sprintf("&r%d.Cells()[%d]", o.R, o.N-1)
			}
			rec := fmt.Sprintf("rec(%d)", o.CB)
			switch {
			case o.Kind == "twin" && o.Fail:
				rec = fmt.Sprintf("failingTwin(%d)", o.CB)
			case o.Kind == "twin":
				rec = fmt.Sprintf("twin(%d)", o.CB)
			case o.Kind == "val" && o.Fail:
				rec = fmt.Sprintf("failingValueRec(%d)", o.CB)
			case o.Kind == "val":
				rec = fmt.Sprintf("valueRec(%d)", o.CB)
			case o.Fail:
				rec = fmt.Sprintf("failingRec(%d)", o.CB)
			}
			fmt.Fprintf(&sb, "t.RegisterPropertyCallback(%s, %s, %s, %s); ", ow,
				map[string]string{"add": "CB_AT_ADD", "pre": "CB_AT_RENDER_PRECELL", "render": "CB_AT_RENDER", "post": "CB_AT_RENDER_POSTCELL"}[o.Time],
				map[string]string{"itself": "CB_ON_ITSELF", "cell": "CB_ON_CELL", "row": "CB_ON_ROW"}[o.Target], rec)
		}
		if o.allocates() {
			id++
		}
	}
	call := "t.InvokeRenderCallbacks()"
	if sp.Via == "csv" {
		call = "csv.Render(t)"
	}
	fmt.Fprintf(&sb, "%d x %s  // rec(i) logs (i, object received) and sets property i on it; the same i twice = the same object twice; twins are distinct objects with equal contents; failing ones also return an error", sp.Passes, call)
	return sb.String()
}

// ---------------------------------------------------------------- Coq emission

func (o C13Op) Coq() string {
	switch o.K {
	case "newrow":
		return "ONewRow"
	case "rowadd":
		return "ORowAdd " + cqNat(o.R)
	case "addrow":
		return "OAddRow " + cqNat(o.R)
	case "append":
		return "OAppendNewRow"
	case "items":
		return "OAddRowItems " + cqNat(o.N)
	case "sep":
		return "OAddSeparator"
	case "headers":
		return "OAddHeaders " + cqNat(o.N)
	}
	ow := "OTable"
	switch o.Owner {
	case "column":
		ow = "(OColumn " + cqNat(o.N) + ")"
	case "row":
		ow = "(ORow " + cqNat(o.R) + ")"
	case "cell":
		ow = "(OCell " + cqNat(o.R) + " " + cqNat(o.N) + ")"
	}
	tm := map[string]string{"add": "TAdd", "pre": "TPre", "render": "TRender", "post": "TPost"}[o.Time]
	tg := map[string]string{"itself": "GItself", "cell": "GCell", "row": "GRow"}[o.Target]
	return fmt.Sprintf("ORegister %s %s %s %s", ow, tm, tg, cqNat(o.CB))
}

func c13Events(evs []c13Ev) string {
	xs := make([]string, len(evs))
	for i, e := range evs {
		xs[i] = e.Coq()
	}
	return cqList(xs)
}

func c13Strs(evs []c13Ev) []string {
	xs := make([]string, len(evs))
	for i, e := range evs {
		xs[i] = e.String()
	}
	return xs
}

func c13Run(spec json.RawMessage) CaseOut {
	var sp C13Spec
	if err := json.Unmarshal(spec, &sp); err != nil {
		panic(err)
	}
	var ops []string
	names := make([]string, len(sp.Ops))
	for i, o := range sp.Ops {
		if o.K != "hcol" { // a handle is a column number: taking one is no operation of the history
			ops = append(ops, o.Coq())
		}
		names[i] = o.String()
	}
	input := cqPair(cqList(ops), cqNat(sp.Passes))
	size := len(sp.Ops)*4 + sp.Passes
	for _, o := range sp.Ops {
		size += o.N
	}
	if sp.Via != "" {
		size++
	}
	wf := c13WF(sp.Ops)
	if !wf {
		// outside the quantifier (only a shrink candidate can get here): not executed
		return CaseOut{Coq: cqPair(cqPair("[]", cqNat(0)), "(Ok (mkObs [] [] [] []))"), Desc: map[string]interface{}{"sig": "", "skipped": "history outside the property's quantifier"},
			Size: size, Tags: []string{"not-wf"}, Key: "notwf" + input, Nontrivial: false}
	}
	sim := newC13Sim()
	for _, o := range sp.Ops {
		sim.step(o)
	}
	var expRender []c13Ev
	for i := 0; i < sp.Passes; i++ {
		expRender = append(expRender, sim.renderPass()...)
	}

	ob := c13Exec(sp)
	copyCol := false
	for _, e := range append(append([]c13Ev{}, ob.add...), ob.rnd...) {
		if e.X.K == "unknown" && strings.Contains(e.X.Note, "copy") {
			copyCol = true
		}
	}
	ob.Add, ob.Render = c13Strs(ob.add), c13Strs(ob.rnd)
	ob.Props = c13Strs(ob.props)
	ob.ExpAdd, ob.ExpRnd = c13Strs(sim.add), c13Strs(expRender)
	ob.History = strings.Join(names, "; ")
	ob.Sig = c13Sig(sp, &ob, sim, expRender, copyCol)
	if ob.Sig != "" {
		ob.Snippet = c13Snippet(sp)
	}

	var obsCoq string
	if ob.Kind == "panic" {
		obsCoq = "Panic"
	} else {
		regs := make([]string, len(ob.Reg))
		for i, c := range ob.Reg {
			regs[i] = cqNat(c)
		}
		props := make([]string, len(ob.props))
		for i, p := range ob.props {
			props[i] = "(" + p.X.Coq() + ", " + cqNat(p.CB) + ")"
		}
		obsCoq = fmt.Sprintf("(Ok (mkObs %s %s %s %s))", cqList(regs), c13Events(ob.add), c13Events(ob.rnd), cqList(props))
	}

	// tags: the input distribution
	ncolsTag := fmt.Sprintf("ncols=%d", sim.ncols)
	if sim.ncols >= 10 {
		ncolsTag = "ncols>=10"
	}
	tags := []string{fmt.Sprintf("passes=%d", sp.Passes), "via=" + map[string]string{"": "direct", "csv": "csv"}[sp.Via],
		ncolsTag, fmt.Sprintf("rows=%d", len(sim.order))}
	{
		seenCB := map[int]bool{}
		slots := map[string][]C13Op{}
		for _, o := range sp.Ops {
			if o.K == "hcol" {
				tags = append(tags, "column-handle-taken")
			}
			if o.K != "reg" {
				continue
			}
			if o.Kind != "" {
				tags = append(tags, "callback-kind="+o.Kind)
			}
			if o.Fail {
				tags = append(tags, "callback-returns-error")
			}
			if o.H > 0 {
				tags = append(tags, "registered-through-earlier-handle")
			}
			if seenCB[o.CB] {
				tags = append(tags, "same-callback-object-registered-twice")
			}
			seenCB[o.CB] = true
			k := fmt.Sprint(o.Owner, "/", o.R, "/", o.N, "/", c13Norm(o.Owner, o.Target), "/", o.Time)
			for _, q := range slots[k] {
				if q.CB == o.CB || (q.Kind == "twin" && o.Kind == "twin") {
					tags = append(tags, "equal-callbacks-in-one-slot")
				} else {
					tags = append(tags, "two-callbacks-in-one-slot")
				}
			}
			slots[k] = append(slots[k], o)
		}
	}
	if sim.header >= 0 {
		tags = append(tags, "header")
	}
	nreg := 0
	sawRow := false
	for _, o := range sp.Ops {
		if o.allocates() {
			sawRow = true
		}
		if o.K == "reg" {
			nreg++
			tags = append(tags, "reg="+o.Owner+"/"+o.Time+"/"+o.Target)
			if sawRow {
				tags = append(tags, "registered-after-rows-exist")
			} else {
				tags = append(tags, "registered-before-rows-exist")
			}
		}
	}
	tags = append(tags, fmt.Sprintf("registrations=%d", nreg))
	for _, r := range sim.rows {
		if r.sep {
			tags = append(tags, "separator")
		} else if r.cells == 0 {
			tags = append(tags, "zero-cell-row")
		}
		if len(r.late) > 0 {
			tags = append(tags, "row-extended-after-attach")
		}
		if !r.attached {
			tags = append(tags, "detached-row")
		}
	}
	tags = dedupe(tags)
	if ob.Sig != "" {
		tags = append(tags, "sig="+ob.Sig)
	}
	return CaseOut{
		Coq:        cqPair(input, obsCoq),
		Desc:       ob,
		Size:       size,
		Tags:       tags,
		Key:        string(spec),
		Nontrivial: len(sim.add)+len(expRender) > 0 || nreg > len(sim.regs),
	}
}

func dedupe(xs []string) []string {
	seen := map[string]bool{}
	var out []string
	for _, x := range xs {
		if !seen[x] {
			seen[x] = true
			out = append(out, x)
		}
	}
	return out
}

// ---------------------------------------------------------------- generation

func opK(k string) C13Op        { return C13Op{K: k} }
func opR(k string, r int) C13Op { return C13Op{K: k, R: r} }
func opN(k string, n int) C13Op { return C13Op{K: k, N: n} }

// the table shapes of the exhaustive part: everything up to 2x2, with and
// without header, with a separator, a zero-cell row, a row built detached, a
// row extended after it joined the table
var c13Shapes = [][]C13Op{
	{},
	{opN("items", 1)},
	{opN("items", 2)},
	{opN("items", 1), opN("items", 1)},
	{opN("items", 2), opN("items", 2)},
	{opN("items", 1), opN("items", 2)},
	{opN("headers", 2), opN("items", 2), opN("items", 2)},
	{opN("headers", 1)},
	{opN("headers", 0), opN("items", 1)},
	{opN("items", 1), opK("sep"), opN("items", 2)},
	{opN("items", 0), opN("items", 2)},
	{opK("newrow"), opR("rowadd", 0), opR("rowadd", 0), opR("addrow", 0)},
	{opK("append"), opR("rowadd", 0), opR("rowadd", 0)},
	{opN("headers", 2), opN("items", 1), opK("append"), opR("rowadd", 2)},
	{opN("items", 1), opK("newrow"), opR("rowadd", 1), opR("addrow", 1), opR("rowadd", 1)},
	{opN("items", 2), opN("headers", 1)},
}

type c13Combo struct{ owner, time, target string }

func c13Combos() []c13Combo {
	var out []c13Combo
	for _, o := range c13Owners {
		for _, t := range c13Times {
			for _, g := range c13Targets {
				out = append(out, c13Combo{o, t, g})
			}
		}
	}
	return out
}

// owner instances of a kind that exist after the whole shape is built, each
// with the earliest position (number of ops executed) at which it exists
type c13Inst struct {
	r, n  int
	since int
}

func c13Instances(shape []C13Op, kind string) []c13Inst {
	var out []c13Inst
	seen := map[string]bool{}
	s := newC13Sim()
	visit := func(pos int) {
		add := func(r, n int) {
			k := fmt.Sprint(r, ".", n)
			if !seen[k] {
				seen[k] = true
				out = append(out, c13Inst{r, n, pos})
			}
		}
		switch kind {
		case "table":
			add(0, 0)
		case "column":
			for n := 0; n <= s.ncols; n++ {
				add(0, n)
			}
		case "row":
			for r := range s.rows {
				add(r, 0)
			}
		case "cell":
			for r := range s.rows {
				for c := 1; c <= s.rows[r].cells; c++ {
					add(r, c)
				}
			}
		}
	}
	visit(0)
	for i, o := range shape {
		s.step(o)
		visit(i + 1)
	}
	return out
}

func c13Insert(shape []C13Op, pos int, regs ...C13Op) []C13Op {
	out := append([]C13Op{}, shape[:pos]...)
	out = append(out, regs...)
	return append(out, shape[pos:]...)
}

func c13RegOp(c c13Combo, in c13Inst, cb int) C13Op {
	return C13Op{K: "reg", Owner: c.owner, Time: c.time, Target: c.target, R: in.r, N: in.n, CB: cb}
}

func c13RandHistory(r *RNG, maxOps, maxRegs int) C13Spec {
	var ops []C13Op
	s := newC13Sim()
	nreg := 0
	combos := c13Combos()
	n := 1 + r.Intn(maxOps)
	for i := 0; i < n; i++ {
		var o C13Op
		switch k := r.Intn(13); {
		case k == 12:
			o = C13Op{K: "hcol", N: r.Intn(s.ncols + 1)}
		case k < 2:
			o = opN("items", r.Intn(4))
			if r.Pct(12) {
				o.N = 9 + r.Intn(5) // past the column capacity
			}
		case k == 2:
			o = opK("newrow")
		case k == 3 || k == 4:
			if len(s.rows) == 0 {
				continue
			}
			o = opR("rowadd", r.Intn(len(s.rows)))
			if s.rows[o.R].header || s.rows[o.R].sep {
				// extending a header row / adding to a separator: rare
				if !r.Pct(20) {
					continue
				}
			}
		case k == 5:
			if len(s.rows) == 0 {
				continue
			}
			o = opR("addrow", r.Intn(len(s.rows)))
		case k == 6:
			o = opK("append")
		case k == 7:
			if !r.Pct(40) {
				continue
			}
			o = opK("sep")
		case k == 8:
			if !r.Pct(50) {
				continue
			}
			o = opN("headers", r.Intn(4))
		default:
			if nreg >= maxRegs {
				continue
			}
			c := pick(r, combos)
			in := c13Inst{}
			switch c.owner {
			case "column":
				in.n = r.Intn(s.ncols + 1)
			case "row":
				if len(s.rows) == 0 {
					continue
				}
				in.r = r.Intn(len(s.rows))
			case "cell":
				if len(s.rows) == 0 {
					continue
				}
				in.r = r.Intn(len(s.rows))
				if s.rows[in.r].cells == 0 {
					continue
				}
				in.n = 1 + r.Intn(s.rows[in.r].cells)
			}
			nreg++
			o = c13RegOp(c, in, nreg)
			o.Kind = pick(r, []string{"", "", "twin", "twin", "val"})
			o.Fail = r.Pct(25)
			if nreg > 1 && r.Pct(15) { // an earlier callback object again
				o.CB = 1 + r.Intn(nreg-1)
			}
			if c.owner == "column" && r.Pct(40) { // through a handle taken earlier, if there is one for this column
				for h, n := range s.handles {
					if n == in.n {
						o.H = h + 1
					}
				}
			}
		}
		if !s.wf(o) {
			continue
		}
		s.step(o)
		ops = append(ops, o)
	}
	sp := C13Spec{Ops: ops, Passes: 1 + r.Intn(3)}
	if r.Pct(30) {
		sp.Via = "csv"
	}
	return sp
}

func c13Gen(r *RNG, tier string) []json.RawMessage {
	var out []json.RawMessage
	count := 0
	add := func(ops []C13Op) {
		sp := C13Spec{Ops: ops, Passes: 1 + count%3}
		if count%4 == 3 {
			sp.Via = "csv"
		}
		count++
		out = append(out, mustJSON(sp))
	}
	combos := c13Combos()
	// every (owner kind x time x target) registration, singly, upon every owner
	// instance of every shape, registered as early as the owner exists and
	// after the whole table exists
	for _, shape := range c13Shapes {
		for _, c := range combos {
			for _, in := range c13Instances(shape, c.owner) {
				add(c13Insert(shape, in.since, c13RegOp(c, in, 1)))
				if in.since != len(shape) {
					add(c13Insert(shape, len(shape), c13RegOp(c, in, 1)))
				}
			}
		}
	}
	if tier == "thorough" {
		// all ordered pairs of combinations (2,304) on every shape; owner instances and positions drawn
		for _, shape := range c13Shapes {
			for _, c1 := range combos {
				i1s := c13Instances(shape, c1.owner)
				for _, c2 := range combos {
					i2s := c13Instances(shape, c2.owner)
					if len(i1s) == 0 || len(i2s) == 0 {
						continue
					}
					in1, in2 := pick(r, i1s), pick(r, i2s)
					p1 := in1.since
					if r.Bool() {
						p1 = in1.since + r.Intn(len(shape)-in1.since+1)
					}
					p2 := in2.since
					if r.Bool() {
						p2 = in2.since + r.Intn(len(shape)-in2.since+1)
					}
					// insert the later one first so that positions stay valid
					r1, r2 := c13RegOp(c1, in1, 1), c13RegOp(c2, in2, 2)
					var ops []C13Op
					if p1 <= p2 {
						ops = c13Insert(c13Insert(shape, p2, r2), p1, r1)
					} else {
						ops = c13Insert(c13Insert(shape, p1, r1), p2, r2)
					}
					add(ops)
				}
			}
		}
	} else {
		// a seeded sample of pairs
		for i := 0; i < 400; i++ {
			shape := pick(r, c13Shapes)
			c1, c2 := pick(r, combos), pick(r, combos)
			i1s, i2s := c13Instances(shape, c1.owner), c13Instances(shape, c2.owner)
			if len(i1s) == 0 || len(i2s) == 0 {
				continue
			}
			in1, in2 := pick(r, i1s), pick(r, i2s)
			p1 := in1.since + r.Intn(len(shape)-in1.since+1)
			p2 := in2.since + r.Intn(len(shape)-in2.since+1)
			r1, r2 := c13RegOp(c1, in1, 1), c13RegOp(c2, in2, 2)
			if p1 <= p2 {
				add(c13Insert(c13Insert(shape, p2, r2), p1, r1))
			} else {
				add(c13Insert(c13Insert(shape, p1, r1), p2, r2))
			}
		}
	}
	c13GenEqual(r, tier, add)
	c13GenHandles(r, tier, add)
	c13GenFailing(r, tier, add)
	// random histories
	n := 400
	if tier == "thorough" {
		n = 6000
	}
	for i := 0; i < n; i++ {
		out = append(out, mustJSON(c13RandHistory(r, 12, 4)))
	}
	return out
}

// c13Fires: does the history expect at least one invocation (one render pass)
func c13Fires(ops []C13Op) bool {
	s := newC13Sim()
	for _, o := range ops {
		if !s.wf(o) {
			return false
		}
		s.step(o)
	}
	return len(s.add)+len(s.renderPass()) > 0
}

func c13Alias(owner, target string) string {
	switch {
	case owner == "row" && target == "itself":
		return "row"
	case owner == "row" && target == "row":
		return "itself"
	case owner == "cell" && target == "itself":
		return "cell"
	case owner == "cell" && target == "cell":
		return "itself"
	}
	return target
}

// Equal callbacks in one slot: two distinct callback objects with equal
// contents, the same object twice, two equal values - on every combination
// that can fire, registered next to each other and apart.  One invocation per
// registration is expected whatever the callbacks' contents.
func c13GenEqual(r *RNG, tier string, add func([]C13Op)) {
	for _, shape := range c13Shapes {
		for _, c := range c13Combos() {
			ins := c13Instances(shape, c.owner)
			if tier != "thorough" && len(ins) > 2 {
				ins = []c13Inst{ins[0], ins[len(ins)-1]}
			}
			for _, in := range ins {
				first := c13RegOp(c, in, 1)
				if !c13Fires(c13Insert(shape, in.since, first)) {
					continue
				}
				mk := func(kind string, cb int, target string) C13Op {
					o := c13RegOp(c, in, cb)
					o.Kind, o.Target = kind, target
					return o
				}
				variants := [][2]C13Op{
					{mk("twin", 1, c.target), mk("twin", 2, c.target)}, // distinct objects, equal contents
					{mk("", 1, c.target), mk("", 1, c.target)},         // the same object twice
					{mk("val", 1, c.target), mk("val", 1, c.target)},   // two equal values
					{mk("twin", 1, c.target), mk("", 2, c.target)},     // different contents (control)
				}
				if a := c13Alias(c.owner, c.target); a != c.target {
					variants = append(variants, [2]C13Op{mk("twin", 1, c.target), mk("twin", 2, a)})
				}
				for k, v := range variants {
					if k%2 == 0 || in.since == len(shape) {
						add(c13Insert(shape, in.since, v[0], v[1]))
					} else {
						add(c13Insert(c13Insert(shape, len(shape), v[1]), in.since, v[0]))
					}
				}
			}
		}
	}
}

// Column handles: t.Column(n) taken while the table is narrow, the table
// widened to 9 / 10 / 12 columns in four ways, column callbacks registered
// through the old handle before and after the growth and through a fresh
// handle after it; a further row is added afterwards so that add-time column
// callbacks have something to fire on.
func c13GenHandles(r *RNG, tier string, add func([]C13Op)) {
	colCombos := []c13Combo{{"column", "pre", "itself"}, {"column", "post", "itself"}, {"column", "add", "cell"},
		{"column", "pre", "cell"}, {"column", "post", "cell"}}
	widths := []int{10, 12}
	if tier == "thorough" {
		widths = []int{9, 10, 11, 12, 25}
		colCombos = nil
		for _, c := range c13Combos() {
			if c.owner == "column" {
				colCombos = append(colCombos, c)
			}
		}
	}
	widen := func(method, w, nextID int) []C13Op {
		switch method {
		case 0:
			return []C13Op{opN("items", w)}
		case 1:
			return []C13Op{opN("headers", w)}
		case 2:
			ops := []C13Op{opK("append")}
			for i := 0; i < w; i++ {
				ops = append(ops, opR("rowadd", nextID))
			}
			return ops
		}
		ops := []C13Op{opK("newrow")}
		for i := 0; i < w; i++ {
			ops = append(ops, opR("rowadd", nextID))
		}
		return append(ops, opR("addrow", nextID))
	}
	for method := 0; method < 4; method++ {
		for _, w := range widths {
			for col := 0; col <= 2; col++ {
				for _, c := range colCombos {
					reg := func(cb, h int, kind string) C13Op {
						return C13Op{K: "reg", Owner: "column", Time: c.time, Target: c.target, N: col, CB: cb, H: h, Kind: kind}
					}
					base := []C13Op{opN("items", 2), {K: "hcol", N: col}}
					tail := []C13Op{opN("items", 3)}
					cat := func(parts ...[]C13Op) []C13Op {
						var out []C13Op
						for _, p := range parts {
							out = append(out, p...)
						}
						return out
					}
					wd := widen(method, w, 1)
					add(cat(base, []C13Op{reg(1, 1, "")}, wd, tail))                                                // through the handle, before the growth
					add(cat(base, wd, []C13Op{reg(1, 1, "")}, tail))                                                // through the old handle, after the growth
					add(cat(base, wd, []C13Op{reg(1, 0, "")}, tail))                                                // through a fresh handle, after the growth
					add(cat(base, []C13Op{reg(1, 1, "twin")}, wd, []C13Op{reg(2, 1, "twin"), reg(3, 0, "")}, tail)) // all three
				}
			}
		}
	}
}

// Callbacks that return an error.  The trace does not depend on what a
// callback returns: every firing single registration in a failing variant, and
// every failing pre-cell registration that matches a cell paired with every
// registration that fires later (or in the same phase) for that cell, its row,
// its column or the table, in both registration orders.
func c13GenFailing(r *RNG, tier string, add func([]C13Op)) {
	for _, shape := range c13Shapes {
		for _, c := range c13Combos() {
			for _, in := range c13Instances(shape, c.owner) {
				o := c13RegOp(c, in, 1)
				o.Fail = true
				ops := c13Insert(shape, in.since, o)
				if c13Fires(ops) {
					add(ops)
				}
			}
		}
		cells := c13Instances(shape, "cell")
		if tier != "thorough" && len(cells) > 2 {
			cells = []c13Inst{cells[0], cells[len(cells)-1]}
		}
		failTimes := []string{"pre"}
		if tier == "thorough" {
			failTimes = []string{"add", "pre", "render", "post"}
		}
		for _, cell := range cells {
			row, col := cell.r, cell.n
			owners := []C13Op{
				{K: "reg", Owner: "table", Target: "cell"},
				{K: "reg", Owner: "column", N: col, Target: "cell"},
				{K: "reg", Owner: "row", R: row, Target: "cell"},
				{K: "reg", Owner: "cell", R: row, N: col, Target: "itself"},
				{K: "reg", Owner: "cell", R: row, N: col, Target: "cell"},
				{K: "reg", Owner: "row", R: row, Target: "itself"},
				{K: "reg", Owner: "column", N: col, Target: "itself"},
				{K: "reg", Owner: "table", Target: "itself"},
			}
			for _, ft := range failTimes {
				for _, f := range owners[:3] {
					f.Time, f.Fail, f.CB = ft, true, 1
					for _, g := range owners {
						for _, gt := range []string{"pre", "render", "post"} {
							g.Time, g.CB = gt, 2
							g.Fail = false
							both := append(append([]C13Op{}, shape...), f, g)
							if !c13WF(both) || !c13Fires(append(append([]C13Op{}, shape...), g)) || !c13Fires(append(append([]C13Op{}, shape...), f)) {
								continue
							}
							add(both)
							add(append(append([]C13Op{}, shape...), g, f))
						}
					}
				}
			}
		}
	}
}

// ---------------------------------------------------------------- shrinking

// dropOp removes op i; when it allocated a row, everything naming that row goes
// too and later ids move down
func c13DropOp(ops []C13Op, i int) []C13Op {
	id := -1
	if ops[i].allocates() {
		id = 0
		for _, o := range ops[:i] {
			if o.allocates() {
				id++
			}
		}
	}
	hidx := -1 // index of the dropped handle
	if ops[i].K == "hcol" {
		hidx = 0
		for _, o := range ops[:i] {
			if o.K == "hcol" {
				hidx++
			}
		}
	}
	var out []C13Op
	for j, o := range ops {
		if j == i {
			continue
		}
		if hidx >= 0 && o.K == "reg" && o.H > 0 {
			if o.H-1 == hidx {
				continue
			}
			if o.H-1 > hidx {
				o.H--
			}
		}
		if id >= 0 {
			names := o.K == "rowadd" || o.K == "addrow" || (o.K == "reg" && (o.Owner == "row" || o.Owner == "cell"))
			if names {
				if o.R == id {
					continue
				}
				if o.R > id {
					o.R--
				}
			}
		}
		out = append(out, o)
	}
	return out
}

func c13Shrink(spec json.RawMessage) []json.RawMessage {
	var sp C13Spec
	if err := json.Unmarshal(spec, &sp); err != nil {
		return nil
	}
	var out []json.RawMessage
	emit := func(c C13Spec) {
		if c13WF(c.Ops) {
			out = append(out, mustJSON(c))
		}
	}
	for i := range sp.Ops {
		emit(C13Spec{Ops: c13DropOp(sp.Ops, i), Passes: sp.Passes, Via: sp.Via})
	}
	for i, o := range sp.Ops {
		if (o.K == "items" || o.K == "headers") && o.N > 0 {
			ops := append([]C13Op{}, sp.Ops...)
			ops[i].N--
			emit(C13Spec{Ops: ops, Passes: sp.Passes, Via: sp.Via})
		}
		if o.K == "headers" {
			ops := append([]C13Op{}, sp.Ops...)
			ops[i].K = "items"
			emit(C13Spec{Ops: ops, Passes: sp.Passes, Via: sp.Via})
		}
	}
	if sp.Passes > 0 {
		emit(C13Spec{Ops: sp.Ops, Passes: sp.Passes - 1, Via: sp.Via})
	}
	if sp.Via != "" {
		emit(C13Spec{Ops: sp.Ops, Passes: sp.Passes})
	}
	return out
}

func init() {
	register(&Prop{
		ID:       "C13",
		Imports:  "From Tab Require Import Run.Glue Run.C13Run.",
		CaseType: "(input * res obs)",
		CaseFn:   "C13_case",
		ModelFn:  "C13_model",
		Rule: "histories through the public API: NewRow / Row.Add (detached and attached rows) / AddRow / AppendNewRow / AddRowItems / AddSeparator / AddHeaders " +
			"interleaved with RegisterPropertyCallback of recording callbacks, then 1-3 render passes (t.InvokeRenderCallbacks() or csv.Render); " +
			"all 48 (owner kind x time x target) registrations singly upon every owner instance (table, columns 0..n, every row incl. header and separator, every cell) " +
			"of 16 table shapes up to 2x2 (+header, empty header, separator, zero-cell row, detached build, row extended after attach), registered as soon as the owner exists and after the table is complete; " +
			"pairs of registrations (sampled in quick, all 2,304 ordered pairs per shape in thorough); " +
			"callback objects of three kinds (pointer with own contents, pointer with contents equal to every other of its kind, plain value), two equal callbacks and the same object twice in one slot (also through the Row itself/row and Cell itself/cell aliases) on every combination that can fire; " +
			"column handles taken while the table is narrow, the table widened to 10+ columns in four ways (wide row, wide header, cells added late to an attached row, wide detached row), column callbacks registered through the old handle before and after the growth and through a fresh handle, identities and properties compared through old handles too; " +
			"callbacks that return an error: every firing single registration, and every failing pre-cell cell-targeted registration paired, in both orders, with every registration that fires for the same cell / its row / its column / the table; " +
			"seeded random histories of up to 12 operations with up to 4 registrations (kinds, failures, re-registered objects, handles, rows past the column capacity); " +
			"a case is non-trivial when at least one invocation is expected or a registration must be refused; distinct = distinct spec",
		Exhaustive: "all 48 owner-kind x time x target combinations x every owner instance x {earliest, last} registration point on 16 shapes; equal-callback pairs on every firing combination x shape; handle scenarios 4 widening methods x {10,12} columns x columns 0..2 x 5 column combinations x 4 registration points; failing pre-cell x 24 partner registrations x 2 orders on first and last cell of every shape",
		Gen:        c13Gen,
		Run:        c13Run,
		Shrink:     c13Shrink,
	})
}
