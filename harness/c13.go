package main

// C13 - callbacks fire once per target, on the live object, in the documented
// order.  The harness replays a history (build operations interleaved with
// registrations of recording callbacks, then 1..k render passes) on the real
// library, logs every invocation as (callback id, identity of the object
// received), reads the property each callback set back through the table, and
// ships (history, observation) to Coq (Run/C13Run.v).

import (
	"bytes"
	"encoding/json"
	"fmt"
	"io"
	"reflect"
	"sort"
	"strings"

	"go.pennock.tech/tabular"
	"go.pennock.tech/tabular/auto"
	"go.pennock.tech/tabular/csv"
	"go.pennock.tech/tabular/html"
	json2 "go.pennock.tech/tabular/json"
	"go.pennock.tech/tabular/markdown"
	"go.pennock.tech/tabular/texttable"
)

// ---------------------------------------------------------------- spec

type C13Op struct {
	K string `json:"k"`           // newrow | rowadd | addrow | append | items | sep | headers | reg | hcol | stamp | rowaddfrom | peer | take
	R int    `json:"r,omitempty"` // row id (rowadd, addrow; reg on row / cell)
	N int    `json:"n,omitempty"` // number of items (items, headers); column number (reg on column, hcol); cell column (reg on cell)
	// reg only
	Owner  string `json:"owner,omitempty"`  // table | column | row | cell | stamp (a local Cell variable, N = its number)
	Time   string `json:"time,omitempty"`   // add | pre | render | post
	Target string `json:"target,omitempty"` // itself | cell | row
	CB     int    `json:"cb,omitempty"`
	// What kind of callback object: "" = pointer to a recorder carrying its id
	// (all such objects differ); "twin" = pointer to a recorder with no state of
	// its own (every two twins are distinct objects with equal contents, its id
	// is found by address); "val" = a recorder struct passed by value (two
	// registrations of one id are equal values).  A registration naming an id
	// that was registered before passes the very same object again.
	Kind string `json:"kind,omitempty"`
	// the callback returns an error from every invocation (the invocation is
	// still logged and the property still set: the trace does not depend on it)
	Fail bool `json:"fail,omitempty"`
	// reg on a column only: 1+index of the earlier hcol operation whose handle
	// (t.Column(n) taken back then) is passed as the owner; 0 = t.Column(n) now
	H int `json:"h,omitempty"`
	// whose RegisterPropertyCallback method is called: "" = the table's own,
	// "other" = that of a different, otherwise unused *ATable (helper code that
	// prepares rows with a table of its own), "wrapper" = a rendering wrapper's
	// (the embedded table's method)
	Through string `json:"through,omitempty"`
	// render-time reg only: each invocation runs a pass over the inner table
	Nest bool `json:"nest,omitempty"`
	// render-time reg only: the callback panics (after logging and setting its
	// property) when invoked in render pass number Panic (1-based); the harness
	// recovers, that pass is void, the property is judged on the other passes
	Panic int `json:"panic,omitempty"`
	// rowaddfrom: rows[R].Add(v) where v is a Cell VALUE that already has a
	// history: From = "stamp" (the local Cell variable #S, possibly with
	// callbacks registered upon it), "cell" (the value of cell (SR,SC) taken out
	// of the table through CellAt / Cells() / Headers()), "foreign" (the value of
	// cell SC of a row of another table)
	From string `json:"from,omitempty"`
	S    int    `json:"s,omitempty"`
	SR   int    `json:"sr,omitempty"`
	SC   int    `json:"sc,omitempty"`

	origin int // index of the operation that made this registration (set by the simulator)
}

type C13Spec struct {
	Ops    []C13Op `json:"ops"`
	Passes int     `json:"passes"`
	Via    string  `json:"via,omitempty"` // "" = t.InvokeRenderCallbacks(); otherwise one of c13Vias
	// Another table B with recording callbacks of its own (its Passes is
	// ignored): every render-time invocation of a callback registered with
	// "nest" runs one complete pass over B (through Inner.Via) from inside the
	// callback - a table in a cell.  Both logs are judged, each against its own
	// table's expected trace.
	Inner *C13Spec `json:"inner,omitempty"`
	// A second table B that shares rows with this one (c13_more.go): B's
	// operations run where this table's history says "peer" (the rest after
	// this table's last operation), B's operation "take" makes a row of this
	// table a row of B's too (B then adds it with addrow like any row it built).
	// Both tables have recording callbacks of their own, both undergo their
	// passes (Order: "" = this table's passes first, "peerfirst", "alt" =
	// alternating), both logs are judged, each against its own table's history.
	Peer  *C13Spec `json:"peer,omitempty"`
	Order string   `json:"order,omitempty"`
}

var c13Owners = []string{"table", "column", "row", "cell"}
var c13Times = []string{"add", "pre", "render", "post"}
var c13Targets = []string{"itself", "cell", "row"}

func (o C13Op) allocates() bool {
	switch o.K {
	case "newrow", "append", "items", "sep", "headers", "take":
		return true
	}
	return false
}

func (o C13Op) String() string {
	switch o.K {
	case "rowadd", "addrow":
		return fmt.Sprintf("%s(%d)", o.K, o.R)
	case "items", "headers":
		return fmt.Sprintf("%s(%d)", o.K, o.N)
	case "hcol":
		return fmt.Sprintf("h:=column%d", o.N)
	case "take":
		return fmt.Sprintf("take(row%d of the other table)", o.R)
	case "stamp":
		switch o.From {
		case "cell":
			how := "*CellAt"
			if o.S == 1 {
				how = "Cells()[i] of"
			}
			return fmt.Sprintf("s:=%s cell%d.%d", how, o.SR, o.SC)
		case "foreign":
			return fmt.Sprintf("s:=value of cell %d of another table", o.SC)
		}
		return "s:=NewCell"
	case "rowaddfrom":
		switch o.From {
		case "stamp":
			return fmt.Sprintf("rowadd(%d,value of stamp%d)", o.R, o.S)
		case "cell":
			return fmt.Sprintf("rowadd(%d,value of cell%d.%d)", o.R, o.SR, o.SC)
		}
		return fmt.Sprintf("rowadd(%d,value of cell %d of another table)", o.R, o.SC)
	case "reg":
		ow := o.Owner
		switch o.Owner {
		case "stamp":
			ow = fmt.Sprintf("stamp%d", o.N)
		case "column":
			ow = fmt.Sprintf("column%d", o.N)
		case "row":
			ow = fmt.Sprintf("row%d", o.R)
		case "cell":
			ow = fmt.Sprintf("cell%d.%d", o.R, o.N)
		}
		if o.H > 0 {
			ow += fmt.Sprintf("@h%d", o.H-1)
		}
		extra := ""
		if o.Kind != "" {
			extra += "," + o.Kind
		}
		if o.Fail {
			extra += ",fails"
		}
		if o.Panic > 0 {
			extra += fmt.Sprintf(",panics in pass %d", o.Panic)
		}
		if o.Through != "" {
			extra += ",registered through " + o.Through
		}
		if o.Nest {
			extra += ",renders the inner table"
		}
		return fmt.Sprintf("reg#%d(%s,%s,%s%s)", o.CB, ow, o.Time, o.Target, extra)
	}
	return o.K
}

// ---------------------------------------------------------------- identities

type c13Tgt struct {
	K    string // table col row cell unknown
	A, B int
	Note string // for unknown: what it was
}

func (x c13Tgt) Coq() string {
	switch x.K {
	case "table":
		return "XTable"
	case "col":
		return "(XCol " + cqNat(x.A) + ")"
	case "row":
		return "(XRow " + cqNat(x.A) + ")"
	case "cell":
		return "(XCell " + cqNat(x.A) + " " + cqNat(x.B) + ")"
	}
	return "XUnknown"
}

func (x c13Tgt) String() string {
	switch x.K {
	case "table":
		return "table"
	case "col":
		return fmt.Sprintf("column%d", x.A)
	case "row":
		return fmt.Sprintf("row%d", x.A)
	case "cell":
		return fmt.Sprintf("cell%d.%d", x.A, x.B)
	}
	return "UNKNOWN(" + x.Note + ")"
}

func (x c13Tgt) key() string { return x.K + fmt.Sprint(x.A, ".", x.B) }

type c13Ev struct {
	CB int
	X  c13Tgt
	V  int // what the callback could see: the number of cells of the target's row at that moment
}

func (e c13Ev) String() string {
	if e.X.K == "row" || e.X.K == "cell" {
		return fmt.Sprintf("#%d@%s(row has %d cells)", e.CB, e.X, e.V)
	}
	return fmt.Sprintf("#%d@%s", e.CB, e.X)
}
func (e c13Ev) Coq() string { return "(" + cqNat(e.CB) + ", " + e.X.Coq() + ")" }
func (e c13Ev) key() string { return fmt.Sprint(e.CB, "@", e.X.key()) }

// ---------------------------------------------------------------- a small shape simulator (owners that exist, wf, expected trace for grouping)

type c13SimRow struct {
	cells    int
	sep      bool
	attached bool
	header   bool
	late     map[int]bool // cells added after the row joined the table
}

type c13Sim struct {
	rows       []c13SimRow
	order      []int
	header     int // -1 none
	ncols      int
	regs       []C13Op // accepted registrations in order
	add        []c13Ev // expected add-time events
	regerr     []int
	lateAttach bool
	handles    []int // column number of each hcol so far

	stamps       [][]C13Op // registrations made upon each local Cell variable
	opIndex      int
	coq          []string // the history in the model's operation language
	coqRegOrigin []int    // for each ORegister of coq: the operation that made the registration
}

// ownRegs: the accepted registrations a cell value carries
func (s *c13Sim) ownRegs(o C13Op) []C13Op {
	var out []C13Op
	switch o.From {
	case "stamp":
		if o.S >= 0 && o.S < len(s.stamps) {
			out = append(out, s.stamps[o.S]...)
		}
	case "cell":
		for _, q := range s.regs {
			if q.Owner == "cell" && q.R == o.SR && q.N == o.SC {
				out = append(out, q)
			}
		}
	}
	return out
}

func newC13Sim() *c13Sim { return &c13Sim{header: -1} }

func c13Accepts(owner, target string) bool {
	switch owner {
	case "table", "row":
		return true
	case "column", "cell":
		return target != "row"
	}
	return false
}

func (s *c13Sim) ownerExists(o C13Op) bool {
	switch o.Owner {
	case "table":
		return true
	case "column":
		return o.N >= 0 && o.N <= s.ncols
	case "row":
		return o.R >= 0 && o.R < len(s.rows)
	case "cell":
		return o.R >= 0 && o.R < len(s.rows) && !s.rows[o.R].sep && o.N >= 1 && o.N <= s.rows[o.R].cells
	}
	return false
}

// a header row that a later AddHeaders replaced is no longer reachable through
// the public API; the harness cannot name it (or its cells) as an owner
func (s *c13Sim) replacedHeader(r int) bool {
	return r >= 0 && r < len(s.rows) && s.rows[r].header && r != s.header
}

func (s *c13Sim) wf(o C13Op) bool {
	if (o.K == "rowadd" || (o.K == "reg" && (o.Owner == "row" || o.Owner == "cell"))) && s.replacedHeader(o.R) {
		return false
	}
	switch o.K {
	case "rowadd":
		return o.R >= 0 && o.R < len(s.rows)
	case "addrow":
		return o.R >= 0 && o.R < len(s.rows) && !s.rows[o.R].attached
	case "reg":
		if o.Panic < 0 || (o.Panic > 0 && o.Time == "add") {
			return false
		}
		if o.Owner == "stamp" {
			return o.N >= 0 && o.N < len(s.stamps) && o.H == 0 && (o.Target == "itself" || o.Target == "cell")
		}
		if o.H != 0 && (o.Owner != "column" || o.H < 0 || o.H > len(s.handles) || s.handles[o.H-1] != o.N) {
			return false
		}
		return s.ownerExists(o)
	case "hcol":
		return o.N >= 0 && o.N <= s.ncols
	case "stamp":
		// a local Cell variable: fresh from NewCell, or the VALUE of a cell that
		// exists (of this table's rows, or of another table) copied out
		switch o.From {
		case "":
			return true
		case "cell":
			return !s.replacedHeader(o.SR) && s.ownerExists(C13Op{Owner: "cell", R: o.SR, N: o.SC}) && (o.S == 0 || o.S == 1)
		case "foreign":
			return o.SC >= 1 && o.SC <= 3
		}
		return false
	case "rowaddfrom":
		if o.R < 0 || o.R >= len(s.rows) || s.replacedHeader(o.R) {
			return false
		}
		switch o.From {
		case "stamp":
			if o.S < 0 || o.S >= len(s.stamps) {
				return false
			}
		case "cell":
			if s.replacedHeader(o.SR) || !s.ownerExists(C13Op{Owner: "cell", R: o.SR, N: o.SC}) {
				return false
			}
		case "foreign":
			if o.SC < 1 || o.SC > 3 {
				return false
			}
		default:
			return false
		}
		// (Values carrying 3 or more callbacks in one time list used to be
		// excluded here: on the pinned tree append left spare capacity in such
		// a list, so two by-value copies of the cell shared the next slot and a
		// later registration on one copy overwrote the other's - a genuine
		// defect of the library, found by this harness and repaired in /repo;
		// see KNOWN_FINDINGS.txt.  The class is generated like any other now.)
		return true
	case "items", "headers":
		return o.N >= 0
	}
	return true
}

func c13Norm(owner, target string) string {
	if owner == "row" && target == "row" {
		return "itself"
	}
	if owner == "cell" && target == "cell" {
		return "itself"
	}
	return target
}

// fire: callbacks of (owner kind, a, b) aimed at target (normal form) at time tm, handed x
func (s *c13Sim) fire(owner string, a, b int, target, tm string, x c13Tgt) []c13Ev {
	var out []c13Ev
	for _, r := range s.regs {
		if r.Owner != owner || r.Time != tm || c13Norm(r.Owner, r.Target) != target {
			continue
		}
		switch owner {
		case "column":
			if r.N != a {
				continue
			}
		case "row":
			if r.R != a {
				continue
			}
		case "cell":
			if r.R != a || r.N != b {
				continue
			}
		}
		out = append(out, c13Ev{CB: r.CB, X: x})
	}
	return out
}

func (s *c13Sim) joinCells(id, from, to int) {
	for c := from; c <= to; c++ {
		x := c13Tgt{K: "cell", A: id, B: c}
		s.add = append(s.add, s.fire("column", c, 0, "cell", "add", x)...)
		s.add = append(s.add, s.fire("table", 0, 0, "cell", "add", x)...)
	}
}

func (s *c13Sim) joinRow(id int) {
	x := c13Tgt{K: "row", A: id}
	s.add = append(s.add, s.fire("row", id, 0, "itself", "add", x)...)
	s.add = append(s.add, s.fire("table", 0, 0, "row", "add", x)...)
}

func (s *c13Sim) addCells(id, from, to int) {
	for c := from; c <= to; c++ {
		s.add = append(s.add, s.fire("row", id, 0, "cell", "add", c13Tgt{K: "cell", A: id, B: c})...)
	}
}

func (s *c13Sim) viewOf(x c13Tgt) int {
	if (x.K == "row" || x.K == "cell") && x.A >= 0 && x.A < len(s.rows) {
		return s.rows[x.A].cells
	}
	return 0
}

func (s *c13Sim) step(o C13Op) {
	// "a row with its cells": every invocation of the operation sees the row as the operation leaves it
	n0 := len(s.add)
	defer func() {
		for i := n0; i < len(s.add); i++ {
			s.add[i].V = s.viewOf(s.add[i].X)
		}
	}()
	id := len(s.rows)
	idx := s.opIndex
	s.opIndex++
	switch o.K {
	case "hcol", "stamp", "rowaddfrom", "peer", "take":
	case "reg":
		if o.Owner != "stamp" {
			s.coq = append(s.coq, o.Coq())
			s.coqRegOrigin = append(s.coqRegOrigin, idx)
		}
	default:
		s.coq = append(s.coq, o.Coq())
	}
	switch o.K {
	case "take":
		// a row that exists already (built on behalf of another table) becomes
		// known to this table: in this table's history, a row built detached
		// with the o.N cells it has
		s.coq = append(s.coq, C13Op{K: "newrow"}.Coq())
		s.rows = append(s.rows, c13SimRow{cells: o.N})
		for i := 0; i < o.N; i++ {
			s.coq = append(s.coq, C13Op{K: "rowadd", R: id}.Coq())
		}
	case "stamp":
		// the value starts with the callbacks the cell it was copied from
		// carried at that moment (a fresh cell, a foreign one: none); from then
		// on it is an object of its own
		s.stamps = append(s.stamps, append([]C13Op(nil), s.ownRegs(o)...))
	case "rowaddfrom":
		// what it means for a Cell to be a value: the copy is a new cell of the
		// row that starts with the callbacks the value carried
		src := s.ownRegs(o)
		r := &s.rows[o.R]
		s.coq = append(s.coq, C13Op{K: "rowadd", R: o.R}.Coq())
		if r.sep {
			return
		}
		s.step1RowAdd(o.R)
		for _, q := range src {
			q.Owner, q.R, q.N, q.H = "cell", o.R, r.cells, 0
			s.regs = append(s.regs, q)
			s.regerr = append(s.regerr, 0)
			s.coq = append(s.coq, q.Coq())
			s.coqRegOrigin = append(s.coqRegOrigin, q.origin)
		}
	case "newrow":
		s.rows = append(s.rows, c13SimRow{})
	case "rowadd":
		if s.rows[o.R].sep {
			return
		}
		s.step1RowAdd(o.R)
	case "addrow":
		r := &s.rows[o.R]
		r.attached = true
		s.order = append(s.order, o.R)
		if r.cells > s.ncols {
			s.ncols = r.cells
		}
		s.joinRow(o.R)
		s.joinCells(o.R, 1, r.cells)
	case "append", "items":
		n := 0
		if o.K == "items" {
			n = o.N
		}
		s.rows = append(s.rows, c13SimRow{cells: n, attached: true})
		s.order = append(s.order, id)
		if n > s.ncols {
			s.ncols = n
		}
		s.addCells(id, 1, n)
		s.joinRow(id)
		s.joinCells(id, 1, n)
	case "sep":
		s.rows = append(s.rows, c13SimRow{sep: true, attached: true})
		s.order = append(s.order, id)
	case "headers":
		s.rows = append(s.rows, c13SimRow{cells: o.N, attached: true, header: true})
		s.header = id
		if o.N > s.ncols {
			s.ncols = o.N
		}
		s.addCells(id, 1, o.N)
		s.joinRow(id)
		s.joinCells(id, 1, o.N)
	case "hcol":
		s.handles = append(s.handles, o.N)
	case "reg":
		o.origin = idx
		if o.Owner == "stamp" {
			s.stamps[o.N] = append(s.stamps[o.N], o)
			return
		}
		if c13Accepts(o.Owner, o.Target) {
			s.regs = append(s.regs, o)
			s.regerr = append(s.regerr, 0)
		} else {
			s.regerr = append(s.regerr, 1)
		}
	}
}

// mirror: a registration made through the other table of a pair upon a row
// (or a cell of a row) that this table holds too.  The callback is stored on
// the row, so it is one of this table's registrations from now on; it is not
// one of this table's operations.
func (s *c13Sim) mirror(q C13Op) {
	q.H, q.origin = 0, -1
	s.regs = append(s.regs, q)
	s.regerr = append(s.regerr, 0)
	s.coq = append(s.coq, q.Coq())
	s.coqRegOrigin = append(s.coqRegOrigin, -1)
}

// otherAddRow: the other table of a pair adds row r, which this table knows
// too.  Nothing of this table changes (Props/C13.v, c13_other_table); the
// history says that it happened, and when.
func (s *c13Sim) otherAddRow(r int) {
	s.coq = append(s.coq, "OOtherAddRow "+cqNat(r))
}

func (s *c13Sim) step1RowAdd(rid int) {
	r := &s.rows[rid]
	r.cells++
	s.addCells(rid, r.cells, r.cells)
	if r.attached {
		if r.late == nil {
			r.late = map[int]bool{}
		}
		r.late[r.cells] = true
		s.lateAttach = true
		if r.cells > s.ncols {
			s.ncols = r.cells
		}
		s.joinCells(rid, r.cells, r.cells)
	}
}

func (s *c13Sim) renderRow(id int) []c13Ev {
	var out []c13Ev
	xr := c13Tgt{K: "row", A: id}
	out = append(out, s.fire("row", id, 0, "itself", "pre", xr)...)
	for c := 1; c <= s.rows[id].cells; c++ {
		x := c13Tgt{K: "cell", A: id, B: c}
		out = append(out, s.fire("table", 0, 0, "cell", "pre", x)...)
		out = append(out, s.fire("column", c, 0, "cell", "pre", x)...)
		out = append(out, s.fire("row", id, 0, "cell", "pre", x)...)
		out = append(out, s.fire("table", 0, 0, "cell", "render", x)...)
		out = append(out, s.fire("cell", id, c, "itself", "render", x)...)
		out = append(out, s.fire("row", id, 0, "cell", "post", x)...)
		out = append(out, s.fire("column", c, 0, "cell", "post", x)...)
		out = append(out, s.fire("table", 0, 0, "cell", "post", x)...)
	}
	out = append(out, s.fire("row", id, 0, "itself", "post", xr)...)
	return out
}

func (s *c13Sim) renderPass() []c13Ev {
	var out []c13Ev
	out = append(out, s.fire("table", 0, 0, "itself", "pre", c13Tgt{K: "table"})...)
	for n := 0; n <= s.ncols; n++ {
		out = append(out, s.fire("column", n, 0, "itself", "pre", c13Tgt{K: "col", A: n})...)
	}
	if s.header >= 0 {
		out = append(out, s.renderRow(s.header)...)
	}
	for _, id := range s.order {
		out = append(out, s.renderRow(id)...)
	}
	for n := 0; n <= s.ncols; n++ {
		out = append(out, s.fire("column", n, 0, "itself", "post", c13Tgt{K: "col", A: n})...)
	}
	out = append(out, s.fire("table", 0, 0, "itself", "post", c13Tgt{K: "table"})...)
	for i := range out {
		out[i].V = s.viewOf(out[i].X)
	}
	return out
}

// c13WF: is the whole history inside the property's quantifier
func c13WF(ops []C13Op) bool {
	s := newC13Sim()
	for _, o := range ops {
		if !s.wf(o) {
			return false
		}
		s.step(o)
	}
	return true
}

// ---------------------------------------------------------------- executing on the real library

type c13Key int // property key of recording callback #id

type c13Env struct {
	t       *tabular.ATable
	rows    []*tabular.Row // by id; nil while the pointer is not known to the harness
	order   []int
	hdrID   int
	render  bool
	addLog  []c13Ev
	rndLog  []c13Ev
	copyCol bool // a callback received a *column that is none of the table's columns

	handles []c13Handle                      // column handles taken by hcol operations
	objs    map[int]tabular.PropertyCallback // callback object of each id
	twins   map[*c13Twin]c13TwinInfo

	pass      int             // render pass under way (1-based)
	stamps    []*tabular.Cell // local Cell variables
	other     *tabular.ATable // another table, a source of cell values
	helper    *tabular.ATable // another table, whose RegisterPropertyCallback method is used
	inner     *c13Env         // the table that "nest" callbacks render
	innerVia  string
	nested    int                      // passes this table underwent from inside another table's callbacks
	finish    func()                   // build-only mode: reads the properties back, completes the observation
	wrappers  map[string]c13Renderer   // rendering wrappers made once per run
	inherited map[[2]int]map[int]bool  // properties a cell had already when its value was added
	seenCells map[[2]int]*tabular.Cell // the object each cell-target invocation received

	// two tables sharing rows: the rows (by id) that the other table of the pair
	// holds too, and the pair's common state
	shared map[int]bool
	group  *c13Group
}

// c13Group: two tables that share rows.  A callback stored on a shared row (or
// on one of its cells) fires in the passes and additions of both tables, so an
// invocation belongs to the table the harness is operating at that moment:
// that table's log takes it and that table's ids name the object received.
type c13Group struct{ active *c13Env }

type c13Renderer interface {
	Render() (string, error)
	RenderTo(io.Writer) error
}

// every entry point through which a render pass can be asked for: "" =
// t.InvokeRenderCallbacks(); "<pkg>.Render" / "<pkg>.RenderTo" = the
// package-level functions; "<pkg>.Wrap.Render" / "<pkg>.Wrap.RenderTo" = the
// methods of a wrapper made once and reused for every pass;
// "auto.<fn>:<style>" = the auto package with a style
var c13Vias = func() []string {
	out := []string{}
	for _, pkg := range []string{"csv", "json", "markdown", "texttable"} {
		out = append(out, pkg+".Render", pkg+".RenderTo", pkg+".Wrap.Render", pkg+".Wrap.RenderTo")
	}
	out = append(out, "html.Wrap.Render", "html.Wrap.RenderTo")
	for _, style := range []string{"csv", "html", "json", "markdown", "texttable", "utf8-light", "texttable.ascii-simple"} {
		out = append(out, "auto.Render:"+style, "auto.RenderTo:"+style, "auto.Wrap.Render:"+style, "auto.Wrap.RenderTo:"+style)
	}
	return out
}()

func (e *c13Env) renderVia(via string) {
	t := e.t
	if via == "" {
		t.InvokeRenderCallbacks()
		return
	}
	if via == "csv" { // older specs
		via = "csv.Render"
	}
	style := ""
	if i := strings.Index(via, ":"); i >= 0 {
		via, style = via[:i], via[i+1:]
	}
	wrapped := func(key string, mk func() c13Renderer) c13Renderer {
		if e.wrappers == nil {
			e.wrappers = map[string]c13Renderer{}
		}
		if w, ok := e.wrappers[key]; ok {
			return w
		}
		w := mk()
		e.wrappers[key] = w
		return w
	}
	var sink bytes.Buffer
	switch via {
	case "csv.Render":
		csv.Render(t)
	case "csv.RenderTo":
		csv.RenderTo(t, &sink)
	case "csv.Wrap.Render":
		wrapped("csv", func() c13Renderer { return csv.Wrap(t) }).Render()
	case "csv.Wrap.RenderTo":
		wrapped("csv", func() c13Renderer { return csv.Wrap(t) }).RenderTo(&sink)
	case "json.Render":
		json2.Render(t)
	case "json.RenderTo":
		json2.RenderTo(t, &sink)
	case "json.Wrap.Render":
		wrapped("json", func() c13Renderer { return json2.Wrap(t) }).Render()
	case "json.Wrap.RenderTo":
		wrapped("json", func() c13Renderer { return json2.Wrap(t) }).RenderTo(&sink)
	case "markdown.Render":
		markdown.Render(t)
	case "markdown.RenderTo":
		markdown.RenderTo(t, &sink)
	case "markdown.Wrap.Render":
		wrapped("markdown", func() c13Renderer { return markdown.Wrap(t) }).Render()
	case "markdown.Wrap.RenderTo":
		wrapped("markdown", func() c13Renderer { return markdown.Wrap(t) }).RenderTo(&sink)
	case "texttable.Render":
		texttable.Render(t)
	case "texttable.RenderTo":
		texttable.RenderTo(t, &sink)
	case "texttable.Wrap.Render":
		wrapped("texttable", func() c13Renderer { return texttable.Wrap(t) }).Render()
	case "texttable.Wrap.RenderTo":
		wrapped("texttable", func() c13Renderer { return texttable.Wrap(t) }).RenderTo(&sink)
	case "html.Wrap.Render":
		wrapped("html", func() c13Renderer { return html.Wrap(t) }).Render()
	case "html.Wrap.RenderTo":
		wrapped("html", func() c13Renderer { return html.Wrap(t) }).RenderTo(&sink)
	case "auto.Render":
		auto.Render(t, style)
	case "auto.RenderTo":
		auto.RenderTo(t, &sink, style)
	case "auto.Wrap.Render":
		wrapped("auto:"+style, func() c13Renderer { return auto.Wrap(t, style) }).Render()
	case "auto.Wrap.RenderTo":
		wrapped("auto:"+style, func() c13Renderer { return auto.Wrap(t, style) }).RenderTo(&sink)
	default:
		panic("harness: unknown render path " + via)
	}
}

// c13Boom is what a panicking recorder panics with
type c13Boom struct{ id int }

type c13Handle struct {
	n int
	h tabular.PropertyOwner // the *column t.Column(n) returned back then
}

// invoked: what every recording callback does
// nestedPass: one complete pass over this table, asked for from inside a callback of another table
func (e *c13Env) nestedPass(via string) {
	saved := e.render
	e.render = true
	func() {
		defer func() {
			if r := recover(); r != nil && via == "" {
				panic(r)
			}
		}()
		e.renderVia(via)
	}()
	e.render = saved
	e.nested++
}

func (e *c13Env) invoked(id int, fail bool, boom int, nest bool, o tabular.PropertyOwner) error {
	if e.group != nil && e.group.active != nil {
		e = e.group.active
	}
	x := e.identify(o)
	if p, ok := o.(*tabular.Cell); ok && x.K == "cell" {
		if e.seenCells == nil {
			e.seenCells = map[[2]int]*tabular.Cell{}
		}
		e.seenCells[[2]int{x.A, x.B}] = p
	}
	ev := c13Ev{CB: id, X: x}
	switch p := o.(type) {
	case *tabular.Row:
		ev.V = len(p.Cells())
	case *tabular.Cell:
		if x.K == "cell" {
			if x.A == e.hdrID {
				ev.V = len(e.t.Headers())
			} else if r := e.rowPtr(x.A); r != nil {
				ev.V = len(r.Cells())
			}
		}
	}
	if e.render {
		e.rndLog = append(e.rndLog, ev)
	} else {
		e.addLog = append(e.addLog, ev)
	}
	o.SetProperty(c13Key(id), id)
	if nest && e.render && e.inner != nil {
		e.inner.nestedPass(e.innerVia)
	}
	if e.render && boom > 0 && boom == e.pass {
		panic(c13Boom{id})
	}
	if fail {
		return fmt.Errorf("recording callback #%d fails", id)
	}
	return nil
}

type c13Recorder struct {
	id   int
	fail bool
	boom int
	nest bool
	env  *c13Env
}

func (c *c13Recorder) UpdateProperties(o tabular.PropertyOwner) error {
	return c.env.invoked(c.id, c.fail, c.boom, c.nest, o)
}

// c13Twin: all twins of a run have equal contents (== on the pointees and
// reflect.DeepEqual hold between any two) and yet are different callbacks
type c13Twin struct{ env *c13Env }

type c13TwinInfo struct {
	id   int
	fail bool
	boom int
	nest bool
}

func (c *c13Twin) UpdateProperties(o tabular.PropertyOwner) error {
	in := c.env.twins[c]
	return c.env.invoked(in.id, in.fail, in.boom, in.nest, o)
}

// c13Val: a callback that is a plain value
type c13Val struct {
	id   int
	fail bool
	boom int
	nest bool
	env  *c13Env
}

func (c c13Val) UpdateProperties(o tabular.PropertyOwner) error {
	return c.env.invoked(c.id, c.fail, c.boom, c.nest, o)
}

// callback returns the object for a registration: the same object again when
// the id was registered before
func (e *c13Env) callback(o C13Op) tabular.PropertyCallback {
	if cb, ok := e.objs[o.CB]; ok {
		return cb
	}
	var cb tabular.PropertyCallback
	switch o.Kind {
	case "twin":
		tw := &c13Twin{e}
		e.twins[tw] = c13TwinInfo{o.CB, o.Fail, o.Panic, o.Nest}
		cb = tw
	case "val":
		cb = c13Val{o.CB, o.Fail, o.Panic, o.Nest, e}
	default:
		cb = &c13Recorder{o.CB, o.Fail, o.Panic, o.Nest, e}
	}
	e.objs[o.CB] = cb
	return cb
}

// c13Capture only learns the header row's pointer (there is no accessor for
// it); it logs nothing and sets nothing
type c13Capture struct{ env *c13Env }

func (c *c13Capture) UpdateProperties(o tabular.PropertyOwner) error {
	c.env.identify(o)
	return nil
}

func (e *c13Env) identify(o tabular.PropertyOwner) c13Tgt {
	switch p := o.(type) {
	case *tabular.ATable:
		if p == e.t {
			return c13Tgt{K: "table"}
		}
		return c13Tgt{K: "unknown", Note: "another table"}
	case *tabular.Row:
		return e.identifyRow(p)
	case *tabular.Cell:
		return e.identifyCell(p)
	}
	for n := 0; n <= e.t.NColumns(); n++ {
		if c := e.t.Column(n); c != nil && o == tabular.PropertyOwner(c) {
			// the column as the table has it now must also still be the one
			// every handle taken earlier denotes
			for _, h := range e.handles {
				if h.n == n && h.h != o {
					return c13Tgt{K: "unknown", Note: fmt.Sprintf("column %d as the table has it now, which is not the object a handle taken earlier denotes", n)}
				}
			}
			return c13Tgt{K: "col", A: n}
		}
	}
	for _, h := range e.handles {
		if h.h == o {
			return c13Tgt{K: "unknown", Note: fmt.Sprintf("the object of a handle to column %d taken earlier, no longer the table's column", h.n)}
		}
	}
	tn := reflect.TypeOf(o).String()
	if strings.HasSuffix(tn, ".column") {
		e.copyCol = true
		return c13Tgt{K: "unknown", Note: "a column that is none of t.Column(0..n): a copy"}
	}
	return c13Tgt{K: "unknown", Note: tn}
}

func (e *c13Env) identifyRow(p *tabular.Row) c13Tgt {
	for id, q := range e.rows {
		if q == p {
			return c13Tgt{K: "row", A: id}
		}
	}
	for pos, q := range e.t.AllRows() {
		if q == p && pos < len(e.order) {
			e.rows[e.order[pos]] = p
			return c13Tgt{K: "row", A: e.order[pos]}
		}
	}
	// the header row: recognised by its cell storage being the table's header cells
	if e.hdrID >= 0 && e.hdrID < len(e.rows) && e.rows[e.hdrID] == nil {
		hs := e.t.Headers()
		cs := p.Cells()
		if hs != nil && cs != nil && len(hs) == len(cs) && (len(cs) == 0 || &hs[0] == &cs[0]) {
			e.rows[e.hdrID] = p
			return c13Tgt{K: "row", A: e.hdrID}
		}
	}
	return c13Tgt{K: "unknown", Note: "a row that is none of the table's"}
}

func (e *c13Env) identifyCell(p *tabular.Cell) c13Tgt {
	for id, q := range e.rows {
		if q == nil {
			continue
		}
		cs := q.Cells()
		for i := range cs {
			if &cs[i] == p {
				return c13Tgt{K: "cell", A: id, B: i + 1}
			}
		}
	}
	for pos, q := range e.t.AllRows() {
		if pos >= len(e.order) {
			break
		}
		cs := q.Cells()
		for i := range cs {
			if &cs[i] == p {
				return c13Tgt{K: "cell", A: e.order[pos], B: i + 1}
			}
		}
	}
	if e.hdrID >= 0 {
		hs := e.t.Headers()
		for i := range hs {
			if &hs[i] == p {
				return c13Tgt{K: "cell", A: e.hdrID, B: i + 1}
			}
		}
	}
	return c13Tgt{K: "unknown", Note: "a cell that is none of the table's"}
}

// rowPtr: the *Row for an id, through the table when the harness did not create it
func (e *c13Env) rowPtr(id int) *tabular.Row {
	if id < 0 || id >= len(e.rows) {
		return nil
	}
	if e.rows[id] != nil {
		return e.rows[id]
	}
	all := e.t.AllRows()
	for pos, rid := range e.order {
		if rid == id && pos < len(all) {
			e.rows[id] = all[pos]
			return all[pos]
		}
	}
	return nil
}

func (e *c13Env) posOf(id int) int {
	for pos, rid := range e.order {
		if rid == id {
			return pos
		}
	}
	return -1
}

// cellPtr: through the table (CellAt / Headers) when the row is in it
func (e *c13Env) cellPtr(id, c int) *tabular.Cell {
	if id == e.hdrID {
		hs := e.t.Headers()
		if c >= 1 && c <= len(hs) {
			return &hs[c-1]
		}
		return nil
	}
	if pos := e.posOf(id); pos >= 0 {
		p, err := e.t.CellAt(tabular.CellLocation{Row: pos + 1, Column: c})
		if err != nil {
			return nil
		}
		return p
	}
	if r := e.rowPtr(id); r != nil {
		cs := r.Cells()
		if c >= 1 && c <= len(cs) {
			return &cs[c-1]
		}
	}
	return nil
}

type c13Obs struct {
	Kind    string   `json:"kind"` // ok | panic
	Panic   string   `json:"panic,omitempty"`
	Reg     []int    `json:"reg"`
	Add     []string `json:"add"`
	Render  []string `json:"render"`
	Props   []string `json:"props"`
	ExpAdd  []string `json:"expected_add"`
	ExpRnd  []string `json:"expected_render"`
	Sig     string   `json:"sig"`
	History string   `json:"history"`
	Snippet string   `json:"go,omitempty"`

	Aborted      []string `json:"events_of_passes_aborted_by_a_panicking_callback,omitempty"`
	NormalPasses int      `json:"passes_completed"`
	Inner        *c13Obs  `json:"inner_table,omitempty"`

	add, rnd []c13Ev
	props    []c13Ev // (key, target)
	regCode  map[int]int
}

// c13Runner replays one table's history step by step on the real library
// (c13Exec drives one runner; a pair of tables sharing rows is two runners
// driven in an interleaved order, c13_more.go).
type c13Runner struct {
	sp   C13Spec
	env  *c13Env
	ob   *c13Obs
	cids []int
	// pairs of tables only: the peer table executes its next operation; the
	// *Row behind row id R of the other table
	onPeer  func()
	takeRow func(R int) *tabular.Row
}

func c13NewRunner(sp C13Spec, inner *c13Env) *c13Runner {
	env := &c13Env{t: tabular.New(), hdrID: -1, objs: map[int]tabular.PropertyCallback{}, twins: map[*c13Twin]c13TwinInfo{}, inherited: map[[2]int]map[int]bool{}}
	env.inner = inner
	if sp.Inner != nil {
		env.innerVia = sp.Inner.Via
	}
	ob := &c13Obs{}
	ob.Kind = "ok"
	ob.regCode = map[int]int{}
	x := &c13Runner{sp: sp, env: env, ob: ob}
	t := env.t
	// does the history name a header row as owner (or extend one)?  Then its pointer must be captured.
	{
		var isHdr []bool
		need := false
		for _, o := range sp.Ops {
			if o.allocates() {
				isHdr = append(isHdr, o.K == "headers")
			}
			if (o.K == "rowadd" || o.K == "rowaddfrom" || (o.K == "reg" && o.Owner == "row")) && o.R >= 0 && o.R < len(isHdr) && isHdr[o.R] {
				need = true
			}
		}
		if need {
			t.RegisterPropertyCallback(t, tabular.CB_AT_ADD, tabular.CB_ON_ROW, &c13Capture{env})
		}
	}
	return x
}

func (x *c13Runner) alloc() int {
	x.env.rows = append(x.env.rows, nil)
	return len(x.env.rows) - 1
}

// doOp executes operation number opi of the history
func (x *c13Runner) doOp(opi int, o C13Op) {
	env, ob, t := x.env, x.ob, x.env.t
	alloc := x.alloc
	switch o.K {
	case "peer":
		if x.onPeer != nil {
			x.onPeer()
		}
	case "take":
		id := alloc()
		if x.takeRow == nil {
			panic("harness: no table to take a row from")
		}
		env.rows[id] = x.takeRow(o.R)
		if env.rows[id] == nil {
			panic("harness: row pointer unknown")
		}
		if env.shared == nil {
			env.shared = map[int]bool{}
		}
		env.shared[id] = true
	case "stamp":
		var c tabular.Cell
		switch o.From {
		case "":
			c = tabular.NewCell("s")
		case "cell":
			c = env.cellValue(o.SR, o.SC, o.S == 1)
		default:
			c = *env.foreignCell(o.SC)
		}
		env.stamps = append(env.stamps, &c)
	case "rowaddfrom":
		dest := env.rowPtr(o.R)
		if dest == nil {
			panic("harness: row pointer unknown")
		}
		var v tabular.Cell
		switch o.From {
		case "stamp":
			v = *env.stamps[o.S]
		case "cell":
			p := env.cellPtr(o.SR, o.SC)
			if p == nil {
				panic("harness: source cell not reachable")
			}
			v = *p
		default:
			v = *env.foreignCell(o.SC)
		}
		if dest.Cells() != nil {
			inh := map[int]bool{}
			for _, id := range x.cids {
				if v.GetProperty(c13Key(id)) != nil {
					inh[id] = true
				}
			}
			env.inherited[[2]int{o.R, len(dest.Cells()) + 1}] = inh
		}
		dest.Add(v)
	case "newrow":
		id := alloc()
		env.rows[id] = tabular.NewRow()
	case "rowadd":
		if r := env.rowPtr(o.R); r != nil {
			r.Add(tabular.NewCell("x"))
		} else {
			panic("harness: row pointer unknown")
		}
	case "addrow":
		env.order = append(env.order, o.R)
		t.AddRow(env.rowPtr(o.R))
	case "append":
		id := alloc()
		env.order = append(env.order, id)
		env.rows[id] = t.AppendNewRow()
	case "items":
		id := alloc()
		env.order = append(env.order, id)
		items := make([]interface{}, o.N)
		for i := range items {
			items[i] = "x"
		}
		t.AddRowItems(items...)
		env.rowPtr(id)
	case "sep":
		id := alloc()
		env.order = append(env.order, id)
		t.AddSeparator()
		env.rowPtr(id)
	case "headers":
		id := alloc()
		env.hdrID = id
		items := make([]interface{}, o.N)
		for i := range items {
			items[i] = "h"
		}
		t.AddHeaders(items...)
	case "hcol":
		if c := t.Column(o.N); c != nil {
			env.handles = append(env.handles, c13Handle{o.N, c})
		} else {
			env.handles = append(env.handles, c13Handle{o.N, nil})
		}
	case "reg":
		x.cids = append(x.cids, o.CB)
		var owner tabular.PropertyOwner
		switch o.Owner {
		case "table":
			owner = t
		case "stamp":
			owner = env.stamps[o.N]
		case "column":
			if o.H > 0 {
				owner = env.handles[o.H-1].h
			} else if c := t.Column(o.N); c != nil {
				owner = c
			}
		case "row":
			if r := env.rowPtr(o.R); r != nil {
				owner = r
			}
		case "cell":
			if c := env.cellPtr(o.R, o.N); c != nil {
				owner = c
			}
		}
		if owner == nil {
			ob.regCode[opi] = 2
			return
		}
		var err error
		rec := env.callback(o)
		tg := tabular.CB_ON_ITSELF
		switch o.Target {
		case "cell":
			tg = tabular.CB_ON_CELL
		case "row":
			tg = tabular.CB_ON_ROW
		}
		var via tabular.Table = t
		switch o.Through {
		case "other":
			if env.helper == nil {
				env.helper = tabular.New()
			}
			via = env.helper
		case "wrapper":
			via = csv.Wrap(t)
		}
		switch o.Time {
		case "add":
			err = via.RegisterPropertyCallback(owner, tabular.CB_AT_ADD, tg, rec)
		case "pre":
			err = via.RegisterPropertyCallback(owner, tabular.CB_AT_RENDER_PRECELL, tg, rec)
		case "render":
			err = via.RegisterPropertyCallback(owner, tabular.CB_AT_RENDER, tg, rec)
		default:
			err = via.RegisterPropertyCallback(owner, tabular.CB_AT_RENDER_POSTCELL, tg, rec)
		}
		if err != nil {
			ob.regCode[opi] = 1
		} else {
			ob.regCode[opi] = 0
		}
	}
}

// renderPass asks for render pass number i (0-based) through sp.Via
func (x *c13Runner) renderPass(i int) {
	env, ob, sp := x.env, x.ob, x.sp
	env.pass = i + 1
	before := len(env.rndLog)
	aborted := false
	func() {
		defer func() {
			if r := recover(); r != nil {
				if _, ok := r.(c13Boom); ok {
					aborted = true // a recording callback panicked on purpose; the caller (we) recovers
					return
				}
				if sp.Via != "" {
					// a panic further down in the renderer (C05/C09's subject): the callbacks ran first
					return
				}
				panic(r)
			}
		}()
		env.renderVia(sp.Via) // error (e.g. no columns) or not: one pass of the callbacks ran first
	}()
	if aborted {
		ob.Aborted = append(ob.Aborted, c13Strs(env.rndLog[before:])...)
		env.rndLog = env.rndLog[:before]
	} else {
		ob.NormalPasses++
	}
}

// readBack - liveness: read every callback's property back, through the table
func (x *c13Runner) readBack() {
	env, ob, t := x.env, x.ob, x.env.t
	cids := x.cids
	sort.Ints(cids)
	{
		var u []int
		for i, id := range cids {
			if i == 0 || id != cids[i-1] {
				u = append(u, id)
			}
		}
		cids = u
	}
	has := func(o tabular.PropertyOwner, id int) bool { return o.GetProperty(c13Key(id)) != nil }
	logged := map[string]bool{}
	for _, e := range env.addLog {
		logged[e.key()] = true
	}
	for _, e := range env.rndLog {
		logged[e.key()] = true
	}
	for _, id := range cids {
		if has(t, id) {
			ob.props = append(ob.props, c13Ev{CB: id, X: c13Tgt{K: "table"}})
		}
		for n := 0; n <= t.NColumns(); n++ {
			if c := t.Column(n); c != nil && has(c, id) {
				// ... and through every handle to that column taken earlier
				live := true
				for _, h := range env.handles {
					if h.n == n && (h.h == nil || !has(h.h, id)) {
						live = false
					}
				}
				if live {
					ob.props = append(ob.props, c13Ev{CB: id, X: c13Tgt{K: "col", A: n}})
				}
			}
		}
		for rid := range env.rows {
			r := env.rowPtr(rid)
			if r == nil {
				continue
			}
			if has(r, id) {
				ev := c13Ev{CB: id, X: c13Tgt{K: "row", A: rid}}
				// a row that another table holds too also carries what that
				// table's passes set: only what this table's own invocations
				// set is read back
				if !(env.shared[rid] && !logged[ev.key()]) {
					ob.props = append(ob.props, ev)
				}
			}
			for c := 1; c <= len(r.Cells()); c++ {
				if p := env.cellPtr(rid, c); p != nil && has(p, id) {
					ev := c13Ev{CB: id, X: c13Tgt{K: "cell", A: rid, B: c}}
					if env.inherited[[2]int{rid, c}][id] && !logged[ev.key()] {
						continue // the value carried this property when it was added: no callback set it here
					}
					if env.shared[rid] && !logged[ev.key()] {
						continue
					}
					ob.props = append(ob.props, ev)
				}
			}
		}
		// cells of a header row that a later AddHeaders replaced and whose row
		// pointer the harness never learnt: no longer reachable through the
		// table; read through the object the callbacks were handed
		for rc, p := range env.seenCells {
			if rc[0] != env.hdrID && rc[0] < len(env.rows) && env.rowPtr(rc[0]) == nil && has(p, id) {
				ob.props = append(ob.props, c13Ev{CB: id, X: c13Tgt{K: "cell", A: rc[0], B: rc[1]}})
			}
		}
		// a header row whose pointer no callback ever received: its cells are still reachable
		if env.hdrID >= 0 && env.rows[env.hdrID] == nil {
			hs := t.Headers()
			for i := range hs {
				if has(&hs[i], id) {
					ob.props = append(ob.props, c13Ev{CB: id, X: c13Tgt{K: "cell", A: env.hdrID, B: i + 1}})
				}
			}
		}
	}
}

// c13Exec replays the history on a fresh table.  With buildOnly it stops after
// the operations (the table is then rendered from inside another table's
// callbacks) and env.finish completes the observation.
func c13Exec(sp C13Spec, inner *c13Env, buildOnly bool) (ob *c13Obs, env *c13Env) {
	x := c13NewRunner(sp, inner)
	ob, env = x.ob, x.env
	defer func() {
		if r := recover(); r != nil {
			ob.Kind = "panic"
			ob.Panic = fmt.Sprint(r)
		}
		ob.add, ob.rnd = env.addLog, env.rndLog
	}()
	for opi, o := range sp.Ops {
		x.doOp(opi, o)
	}
	if buildOnly {
		env.finish = func() {
			defer func() {
				if r := recover(); r != nil {
					ob.Kind = "panic"
					ob.Panic = fmt.Sprint(r)
				}
				ob.add, ob.rnd = env.addLog, env.rndLog
			}()
			ob.NormalPasses = env.nested
			x.readBack()
		}
	}
	env.render = true
	for i := 0; i < sp.Passes && !buildOnly; i++ {
		x.renderPass(i)
	}
	env.render = false
	if !buildOnly {
		x.readBack()
	}
	return ob, env
}

// ---------------------------------------------------------------- grouping of failures (the verdict itself is Coq's)

func c13Multiset(evs []c13Ev) map[string]int {
	m := map[string]int{}
	for _, e := range evs {
		m[e.key()]++
	}
	return m
}

func c13Sig(sp C13Spec, ob *c13Obs, sim *c13Sim, expRender []c13Ev, copyCol bool) string {
	if ob.Kind == "panic" {
		return "panic"
	}
	regOf := map[int]C13Op{}
	for _, r := range sim.regs {
		regOf[r.CB] = r
	}
	if copyCol {
		return "column-itself-callback-receives-a-copy"
	}
	hasBoom := false
	for _, o := range sp.Ops {
		if o.K == "reg" && o.Panic > 0 {
			hasBoom = true
		}
	}
	hasFail, hasHandle := false, false
	for _, o := range sp.Ops {
		if o.K == "hcol" {
			hasHandle = true
		}
		if o.K == "reg" && o.Fail {
			hasFail = true
		}
	}
	for _, e := range append(append([]c13Ev{}, ob.add...), ob.rnd...) {
		if e.X.K == "unknown" && strings.Contains(e.X.Note, "handle") {
			return "column-handle-taken-earlier-is-not-the-live-column"
		}
	}
	// registrations that share their slot with an equal callback (equal contents, or the same object)
	slotOf := func(r C13Op) string {
		return fmt.Sprint(r.Owner, "/", r.R, "/", r.N, "/", c13Norm(r.Owner, r.Target), "/", r.Time)
	}
	equalInSlot := map[int]bool{}
	for i, a := range sim.regs {
		for j, b := range sim.regs {
			if i != j && slotOf(a) == slotOf(b) && (a.CB == b.CB || (a.Kind == "twin" && b.Kind == "twin")) {
				equalInSlot[a.CB] = true
			}
		}
	}
	// cells that came into their row as a value with a history, and the cells such values were taken from
	valueCells := map[[2]int]bool{}
	{
		cells := map[int]int{}
		sep := map[int]bool{}
		id := 0
		for _, o := range sp.Ops {
			switch o.K {
			case "items", "headers":
				cells[id] = o.N
			case "sep":
				sep[id] = true
			case "rowadd":
				if !sep[o.R] {
					cells[o.R]++
				}
			case "rowaddfrom":
				if !sep[o.R] {
					cells[o.R]++
					valueCells[[2]int{o.R, cells[o.R]}] = true
					if o.From == "cell" {
						valueCells[[2]int{o.SR, o.SC}] = true
					}
				}
			}
			if o.allocates() {
				id++
			}
		}
	}
	classify := func(e c13Ev, what string) string {
		r, ok := regOf[e.CB]
		if !ok {
			return what + ":unregistered-callback"
		}
		if hasBoom {
			return what + "-invocation-in-a-pass-other-than-the-one-a-callback-panicked-in"
		}
		if what == "extra" && sp.Via != "" && len(ob.rnd) > len(expRender) && len(expRender) > 0 && len(ob.rnd)%len(expRender) == 0 {
			return "one-render-call-runs-more-than-one-pass"
		}
		if r.Through != "" {
			return what + "-invocation-of-a-callback-registered-through-another-table-object"
		}
		if equalInSlot[e.CB] {
			return what + "-invocation-of-a-callback-equal-to-another-in-its-slot"
		}
		if r.Owner == "column" && (r.H > 0 || hasHandle) {
			return "column-handle-taken-earlier-is-not-the-live-column"
		}
		if hasFail {
			return what + "-invocation-in-a-history-with-a-callback-that-returns-an-error"
		}
		if r.origin >= 0 && r.origin < len(sp.Ops) && (sp.Ops[r.origin].Owner == "stamp" || valueCells[[2]int{r.R, r.N}] || valueCells[[2]int{e.X.A, e.X.B}]) ||
			(e.X.K == "cell" && valueCells[[2]int{e.X.A, e.X.B}]) {
			return what + "-invocation-involving-a-cell-added-as-a-value-with-a-history"
		}
		if what == "missing" {
			if r.Owner == "table" && r.Time == "post" && c13Norm(r.Owner, r.Target) == "cell" {
				return "table-post-cell-callbacks-never-invoked"
			}
			if r.Owner == "column" && r.Target == "cell" && e.X.K == "cell" && e.X.A < len(sim.rows) && sim.rows[e.X.A].header {
				return "header-cell-never-reaches-column-cell-callbacks"
			}
			if r.Time == "add" && (r.Owner == "table" || r.Owner == "column") && r.Target == "cell" && e.X.K == "cell" &&
				e.X.A < len(sim.rows) && sim.rows[e.X.A].late[e.X.B] {
				return "cell-added-to-attached-row-fires-no-table-or-column-add-callbacks"
			}
		}
		return fmt.Sprintf("%s:%s/%s/%s", what, r.Owner, r.Time, r.Target)
	}
	for i, c := range ob.Reg {
		if i < len(sim.regerr) && c != sim.regerr[i] {
			if c == 2 {
				if sim.lateAttach {
					return "column-of-cell-added-to-attached-row-does-not-exist"
				}
				return "owner-unavailable"
			}
			return "registration-result"
		}
	}
	got := c13Multiset(append(append([]c13Ev{}, ob.add...), ob.rnd...))
	want := c13Multiset(append(append([]c13Ev{}, sim.add...), expRender...))
	for _, e := range append(append([]c13Ev{}, sim.add...), expRender...) {
		if got[e.key()] < want[e.key()] {
			return classify(e, "missing")
		}
	}
	for _, e := range append(append([]c13Ev{}, ob.add...), ob.rnd...) {
		if got[e.key()] > want[e.key()] {
			return classify(e, "extra")
		}
	}
	if len(ob.rnd) == len(expRender) {
		for i := range ob.rnd {
			if ob.rnd[i].key() != expRender[i].key() {
				return "render-order"
			}
		}
	}
	{
		// same invocations: did each see its row as the operation leaves it
		wantV := map[string][]int{}
		for _, e := range append(append([]c13Ev{}, sim.add...), expRender...) {
			wantV[e.key()] = append(wantV[e.key()], e.V)
		}
		for _, e := range append(append([]c13Ev{}, ob.add...), ob.rnd...) {
			ok := false
			for _, v := range wantV[e.key()] {
				if v == e.V {
					ok = true
				}
			}
			if !ok {
				return "callback-sees-its-row-without-all-its-cells:" + e.X.K
			}
		}
	}
	pm := map[string]bool{}
	for _, p := range ob.props {
		pm[p.key()] = true
	}
	for _, e := range append(append([]c13Ev{}, sim.add...), expRender...) {
		if !pm[e.key()] {
			if e.X.K == "col" && hasHandle {
				return "column-handle-taken-earlier-is-not-the-live-column"
			}
			return "property-set-by-callback-not-visible:" + e.X.K
		}
	}
	for _, p := range ob.props {
		if want[p.key()] == 0 {
			return "property-on-wrong-object:" + p.X.K
		}
	}
	return ""
}

func c13Snippet(sp C13Spec) string {
	var sb strings.Builder
	if sp.Inner != nil {
		in := *sp.Inner
		in.Passes = 0
		sb.WriteString("/* inner table B: " + c13Snippet(in) + " */ /* callbacks marked \"renders the inner table\" run one pass over B (" + map[bool]string{true: "B.InvokeRenderCallbacks()", false: in.Via}[in.Via == ""] + ") each time they are invoked */ ")
	}
	sb.WriteString("t := tabular.New(); ")
	id := 0
	hcount := 0
	scount := 0
	for _, o := range sp.Ops {
		switch o.K {
		case "newrow":
			fmt.Fprintf(&sb, "r%d := tabular.NewRow(); ", id)
		case "rowadd":
			fmt.Fprintf(&sb, "r%d.Add(tabular.NewCell(\"x\")); ", o.R)
		case "addrow":
			fmt.Fprintf(&sb, "t.AddRow(r%d); ", o.R)
		case "append":
			fmt.Fprintf(&sb, "r%d := t.AppendNewRow(); ", id)
		case "items":
			fmt.Fprintf(&sb, "t.AddRowItems(%d items) /*r%d*/; ", o.N, id)
		case "sep":
			fmt.Fprintf(&sb, "t.AddSeparator() /*r%d*/; ", id)
		case "headers":
			fmt.Fprintf(&sb, "t.AddHeaders(%d items) /*r%d*/; ", o.N, id)
		case "hcol":
			fmt.Fprintf(&sb, "h%d := t.Column(%d); ", hcount, o.N)
			hcount++
		case "stamp":
			switch o.From {
			case "cell":
				fmt.Fprintf(&sb, "s%d := r%d.Cells()[%d] /*a copy of the value*/; ", scount, o.SR, o.SC-1)
			case "foreign":
				fmt.Fprintf(&sb, "s%d := otherTable.AllRows()[0].Cells()[%d] /*a copy of the value*/; ", scount, o.SC-1)
			default:
				fmt.Fprintf(&sb, "s%d := tabular.NewCell(\"s\"); ", scount)
			}
			scount++
		case "rowaddfrom":
			switch o.From {
			case "stamp":
				fmt.Fprintf(&sb, "r%d.Add(s%d); ", o.R, o.S)
			case "cell":
				fmt.Fprintf(&sb, "r%d.Add(r%d.Cells()[%d]); ", o.R, o.SR, o.SC-1)
			default:
				fmt.Fprintf(&sb, "r%d.Add(otherTable.AllRows()[0].Cells()[%d]); ", o.R, o.SC-1)
			}
		case "reg":
			ow := "t"
			switch o.Owner {
			case "stamp":
				ow = fmt.Sprintf("&s%d", o.N)
			case "column":
				ow = fmt.Sprintf("t.Column(%d)", o.N)
				if o.H > 0 {
					ow = fmt.Sprintf("h%d", o.H-1)
				}
			case "row":
				ow = fmt.Sprintf("r%d", o.R)
			case "cell":
				ow = fmt.Sprintf("&r%d.Cells()[%d]", o.R, o.N-1)
			}
			rec := fmt.Sprintf("rec(%d)", o.CB)
			switch {
			case o.Kind == "twin" && o.Fail:
				rec = fmt.Sprintf("failingTwin(%d)", o.CB)
			case o.Kind == "twin":
				rec = fmt.Sprintf("twin(%d)", o.CB)
			case o.Kind == "val" && o.Fail:
				rec = fmt.Sprintf("failingValueRec(%d)", o.CB)
			case o.Kind == "val":
				rec = fmt.Sprintf("valueRec(%d)", o.CB)
			case o.Fail:
				rec = fmt.Sprintf("failingRec(%d)", o.CB)
			}
			if o.Panic > 0 {
				rec = fmt.Sprintf("panickingInPass%d(%s)", o.Panic, rec)
			}
			if o.Nest {
				rec = fmt.Sprintf("renderingTheInnerTable(%s)", rec)
			}
			fmt.Fprintf(&sb, "t.RegisterPropertyCallback(%s, %s, %s, %s); ", ow,
				map[string]string{"add": "CB_AT_ADD", "pre": "CB_AT_RENDER_PRECELL", "render": "CB_AT_RENDER", "post": "CB_AT_RENDER_POSTCELL"}[o.Time],
				map[string]string{"itself": "CB_ON_ITSELF", "cell": "CB_ON_CELL", "row": "CB_ON_ROW"}[o.Target], rec)
		}
		if o.allocates() {
			id++
		}
	}
	call := "t.InvokeRenderCallbacks()"
	if sp.Via != "" {
		call = sp.Via + " (Wrap = one wrapper for all passes)"
	}
	fmt.Fprintf(&sb, "%d x %s (each under recover())  // rec(i) logs (i, object received) and sets property i on it; the same i twice = the same object twice; twins are distinct objects with equal contents; failing ones also return an error", sp.Passes, call)
	return sb.String()
}

// ---------------------------------------------------------------- Coq emission

func (o C13Op) Coq() string {
	switch o.K {
	case "newrow":
		return "ONewRow"
	case "rowadd":
		return "ORowAdd " + cqNat(o.R)
	case "addrow":
		return "OAddRow " + cqNat(o.R)
	case "append":
		return "OAppendNewRow"
	case "items":
		return "OAddRowItems " + cqNat(o.N)
	case "sep":
		return "OAddSeparator"
	case "headers":
		return "OAddHeaders " + cqNat(o.N)
	}
	ow := "OTable"
	switch o.Owner {
	case "column":
		ow = "(OColumn " + cqNat(o.N) + ")"
	case "row":
		ow = "(ORow " + cqNat(o.R) + ")"
	case "cell":
		ow = "(OCell " + cqNat(o.R) + " " + cqNat(o.N) + ")"
	}
	tm := map[string]string{"add": "TAdd", "pre": "TPre", "render": "TRender", "post": "TPost"}[o.Time]
	tg := map[string]string{"itself": "GItself", "cell": "GCell", "row": "GRow"}[o.Target]
	return fmt.Sprintf("ORegister %s %s %s %s", ow, tm, tg, cqNat(o.CB))
}

func c13Events(evs []c13Ev) string {
	xs := make([]string, len(evs))
	for i, e := range evs {
		xs[i] = e.Coq()
	}
	return cqList(xs)
}

func c13Strs(evs []c13Ev) []string {
	xs := make([]string, len(evs))
	for i, e := range evs {
		xs[i] = e.String()
	}
	return xs
}

// c13Prep: what is known of a history before it is executed
type c13Prep struct {
	sp        C13Spec
	names     []string
	size      int
	wf        bool
	sim       *c13Sim
	pass      []c13Ev // one complete render pass
	expRender []c13Ev
}

func c13Prepare(sp C13Spec) *c13Prep {
	// a callback id registered again is the same object again: it behaves as first described
	{
		first := map[int]C13Op{}
		for i, o := range sp.Ops {
			if o.K != "reg" {
				continue
			}
			if f, ok := first[o.CB]; ok {
				sp.Ops[i].Kind, sp.Ops[i].Fail, sp.Ops[i].Panic, sp.Ops[i].Nest = f.Kind, f.Fail, f.Panic, f.Nest
				if sp.Ops[i].Time == "add" {
					sp.Ops[i].Panic = 0 // the flag only matters at render time
				}
			} else {
				first[o.CB] = o
			}
		}
	}
	pr := &c13Prep{sp: sp, sim: newC13Sim()}
	pr.names = make([]string, len(sp.Ops))
	for i, o := range sp.Ops {
		pr.names[i] = o.String()
	}
	pr.size = len(sp.Ops)*4 + sp.Passes
	for _, o := range sp.Ops {
		pr.size += o.N
	}
	if sp.Via != "" {
		pr.size++
	}
	pr.wf = c13WF(sp.Ops)
	if pr.wf {
		for _, o := range sp.Ops {
			pr.sim.step(o)
		}
		// passes in which a panicking callback is due are void; the others must be complete
		pr.pass = pr.sim.renderPass()
		fires := map[int]bool{}
		for _, e := range pr.pass {
			fires[e.CB] = true
		}
		anyBoom := false
		normalPred := 0
		for p := 1; p <= sp.Passes; p++ {
			aborted := false
			for _, q := range pr.sim.regs {
				if q.Panic == p && fires[q.CB] {
					aborted = true
				}
			}
			if aborted {
				anyBoom = true
			} else {
				normalPred++
				pr.expRender = append(pr.expRender, pr.pass...)
			}
		}
		if anyBoom && normalPred == 0 {
			pr.wf = false // nothing left to judge
		}
	}
	return pr
}

// c13Complete turns an observation into the Coq case "(input, observed)";
// passes < 0: the number of passes that completed, as observed
func c13Complete(pr *c13Prep, ob *c13Obs, passes int) string {
	sp, sim := pr.sp, pr.sim
	// registration results, in the order of the model's registrations
	ob.Reg = nil
	for _, origin := range sim.coqRegOrigin {
		code, ok := ob.regCode[origin]
		if !ok {
			code = 2
		}
		if origin < 0 {
			code = 0 // made (and accepted) through the other table of a pair
		}
		ob.Reg = append(ob.Reg, code)
	}
	if passes < 0 {
		passes = sp.Passes
		if ob.Kind == "ok" {
			passes = ob.NormalPasses
		}
	}
	input := cqPair(cqList(sim.coq), cqNat(passes))
	copyCol := false
	for _, e := range append(append([]c13Ev{}, ob.add...), ob.rnd...) {
		if e.X.K == "unknown" && strings.Contains(e.X.Note, "copy") {
			copyCol = true
		}
	}
	ob.Add, ob.Render = c13Strs(ob.add), c13Strs(ob.rnd)
	for _, p := range ob.props {
		ob.Props = append(ob.Props, fmt.Sprintf("#%d@%s", p.CB, p.X))
	}
	ob.ExpAdd, ob.ExpRnd = c13Strs(sim.add), c13Strs(pr.expRender)
	ob.History = strings.Join(pr.names, "; ")
	ob.Sig = c13Sig(sp, ob, sim, pr.expRender, copyCol)

	var obsCoq string
	if ob.Kind == "panic" {
		obsCoq = "Panic"
	} else {
		regs := make([]string, len(ob.Reg))
		for i, c := range ob.Reg {
			regs[i] = cqNat(c)
		}
		props := make([]string, len(ob.props))
		for i, p := range ob.props {
			props[i] = "(" + p.X.Coq() + ", " + cqNat(p.CB) + ")"
		}
		views := func(evs []c13Ev) string {
			xs := make([]string, len(evs))
			for i, e := range evs {
				xs[i] = cqNat(e.V)
			}
			return cqList(xs)
		}
		obsCoq = fmt.Sprintf("(Ok (mkObs %s %s %s %s %s %s))", cqList(regs), c13Events(ob.add), c13Events(ob.rnd), cqList(props), views(ob.add), views(ob.rnd))
	}
	return cqPair(input, obsCoq)
}

func c13Run(spec json.RawMessage) CaseOut {
	var sp C13Spec
	if err := json.Unmarshal(spec, &sp); err != nil {
		panic(err)
	}
	if sp.Peer != nil {
		return c13RunPair(sp, spec)
	}
	pr := c13Prepare(sp)
	sp = pr.sp
	sim, expRender, size := pr.sim, pr.expRender, pr.size
	wf := pr.wf
	var prB *c13Prep
	nestedPasses := 0
	if wf && sp.Inner != nil {
		// the inner table: a plain history; nothing panics on either side
		in := *sp.Inner
		in.Inner = nil
		for _, o := range append(append([]C13Op{}, in.Ops...), sp.Ops...) {
			if o.K == "reg" && o.Panic != 0 {
				wf = false
			}
		}
		for _, o := range in.Ops {
			if o.K == "reg" && o.Nest {
				wf = false
			}
		}
		// it undergoes one pass per render-time invocation of a nesting callback
		nests := map[int]bool{}
		for _, q := range sim.regs {
			if q.Nest {
				nests[q.CB] = true
			}
		}
		for _, e := range expRender {
			if nests[e.CB] {
				nestedPasses++
			}
		}
		in.Passes = nestedPasses
		prB = c13Prepare(in)
		if !prB.wf {
			wf = false
		}
		size += prB.size
	}
	if !wf {
		// outside the quantifier (only a shrink candidate can get here): not executed
		return CaseOut{Coq: cqPair(cqPair(cqPair("[]", cqNat(0)), "(Ok (mkObs [] [] [] [] [] []))"), "[]"), Desc: map[string]interface{}{"sig": "", "skipped": "history outside the property's quantifier"},
			Size: size, Tags: []string{"not-wf"}, Key: "notwf" + string(spec), Nontrivial: false}
	}

	var obB *c13Obs
	var envB *c13Env
	if prB != nil {
		obB, envB = c13Exec(prB.sp, nil, true)
	}
	ob, _ := c13Exec(sp, envB, false)
	caseCoq := c13Complete(pr, ob, -1)
	subs := "[]"
	if prB != nil {
		envB.finish()
		subs = "[" + c13Complete(prB, obB, nestedPasses) + "]"
		ob.Inner = obB
		if ob.Sig != "" || obB.Sig != "" {
			// whatever is wrong on either side: the class is the nesting
			ob.Sig = "render-pass-with-a-nested-pass-over-another-table"
		}
	}
	if ob.Sig != "" {
		ob.Snippet = c13Snippet(sp)
	}
	caseCoq = cqPair(caseCoq, subs)

	// tags: the input distribution
	ncolsTag := fmt.Sprintf("ncols=%d", sim.ncols)
	if sim.ncols >= 10 {
		ncolsTag = "ncols>=10"
	}
	nestTags := []string{}
	if prB != nil {
		nestTags = append(nestTags, "nested-pass-over-another-table", fmt.Sprintf("nested-passes=%d", min(nestedPasses, 10)))
		switch ib, oa := len(prB.sim.order), len(sim.order); {
		case ib < oa:
			nestTags = append(nestTags, "inner-table-shorter")
		case ib == oa:
			nestTags = append(nestTags, "inner-table-as-long")
		default:
			nestTags = append(nestTags, "inner-table-longer")
		}
		if prB.sp.Via != "" {
			nestTags = append(nestTags, "inner-via-renderer")
		}
	}
	tags := []string{fmt.Sprintf("passes=%d", sp.Passes), "via=" + map[bool]string{true: "direct", false: sp.Via}[sp.Via == ""],
		ncolsTag, fmt.Sprintf("rows=%d", len(sim.order))}
	{
		seenCB := map[int]bool{}
		slots := map[string][]C13Op{}
		for _, o := range sp.Ops {
			if o.K == "hcol" {
				tags = append(tags, "column-handle-taken")
			}
			if o.K != "reg" {
				continue
			}
			if o.Kind != "" {
				tags = append(tags, "callback-kind="+o.Kind)
			}
			if o.Fail {
				tags = append(tags, "callback-returns-error")
			}
			if o.H > 0 {
				tags = append(tags, "registered-through-earlier-handle")
			}
			if seenCB[o.CB] {
				tags = append(tags, "same-callback-object-registered-twice")
			}
			seenCB[o.CB] = true
			k := fmt.Sprint(o.Owner, "/", o.R, "/", o.N, "/", c13Norm(o.Owner, o.Target), "/", o.Time)
			for _, q := range slots[k] {
				if q.CB == o.CB || (q.Kind == "twin" && o.Kind == "twin") {
					tags = append(tags, "equal-callbacks-in-one-slot")
				} else {
					tags = append(tags, "two-callbacks-in-one-slot")
				}
			}
			slots[k] = append(slots[k], o)
		}
	}
	if sim.header >= 0 {
		tags = append(tags, "header")
	}
	nreg := 0
	sawRow := false
	for _, o := range sp.Ops {
		if o.allocates() {
			sawRow = true
		}
		if o.K == "reg" {
			nreg++
			tags = append(tags, "reg="+o.Owner+"/"+o.Time+"/"+o.Target)
			if sawRow {
				tags = append(tags, "registered-after-rows-exist")
			} else {
				tags = append(tags, "registered-before-rows-exist")
			}
		}
	}
	tags = append(tags, fmt.Sprintf("registrations=%d", nreg))
	for _, r := range sim.rows {
		if r.sep {
			tags = append(tags, "separator")
		} else if r.cells == 0 {
			tags = append(tags, "zero-cell-row")
		}
		if len(r.late) > 0 {
			tags = append(tags, "row-extended-after-attach")
		}
		if !r.attached {
			tags = append(tags, "detached-row")
		}
	}
	tags = dedupe(append(tags, nestTags...))
	if ob.Sig != "" {
		tags = append(tags, "sig="+ob.Sig)
	}
	return CaseOut{
		Coq:        caseCoq,
		Desc:       ob,
		Size:       size,
		Tags:       tags,
		Key:        string(spec),
		Nontrivial: len(sim.add)+len(expRender) > 0 || nreg > len(sim.regs),
	}
}

func dedupe(xs []string) []string {
	seen := map[string]bool{}
	var out []string
	for _, x := range xs {
		if !seen[x] {
			seen[x] = true
			out = append(out, x)
		}
	}
	return out
}

// ---------------------------------------------------------------- generation

func opK(k string) C13Op        { return C13Op{K: k} }
func opR(k string, r int) C13Op { return C13Op{K: k, R: r} }
func opN(k string, n int) C13Op { return C13Op{K: k, N: n} }

// the table shapes of the exhaustive part: everything up to 2x2, with and
// without header, with a separator, a zero-cell row, a row built detached, a
// row extended after it joined the table
var c13Shapes = [][]C13Op{
	{},
	{opN("items", 1)},
	{opN("items", 2)},
	{opN("items", 1), opN("items", 1)},
	{opN("items", 2), opN("items", 2)},
	{opN("items", 1), opN("items", 2)},
	{opN("headers", 2), opN("items", 2), opN("items", 2)},
	{opN("headers", 1)},
	{opN("headers", 0), opN("items", 1)},
	{opN("items", 1), opK("sep"), opN("items", 2)},
	{opN("items", 0), opN("items", 2)},
	{opK("newrow"), opR("rowadd", 0), opR("rowadd", 0), opR("addrow", 0)},
	{opK("append"), opR("rowadd", 0), opR("rowadd", 0)},
	{opN("headers", 2), opN("items", 1), opK("append"), opR("rowadd", 2)},
	{opN("items", 1), opK("newrow"), opR("rowadd", 1), opR("addrow", 1), opR("rowadd", 1)},
	{opN("items", 2), opN("headers", 1)},
}

type c13Combo struct{ owner, time, target string }

func c13Combos() []c13Combo {
	var out []c13Combo
	for _, o := range c13Owners {
		for _, t := range c13Times {
			for _, g := range c13Targets {
				out = append(out, c13Combo{o, t, g})
			}
		}
	}
	return out
}

// owner instances of a kind that exist after the whole shape is built, each
// with the earliest position (number of ops executed) at which it exists
type c13Inst struct {
	r, n  int
	since int
}

func c13Instances(shape []C13Op, kind string) []c13Inst {
	var out []c13Inst
	seen := map[string]bool{}
	s := newC13Sim()
	visit := func(pos int) {
		add := func(r, n int) {
			k := fmt.Sprint(r, ".", n)
			if !seen[k] {
				seen[k] = true
				out = append(out, c13Inst{r, n, pos})
			}
		}
		switch kind {
		case "table":
			add(0, 0)
		case "column":
			for n := 0; n <= s.ncols; n++ {
				add(0, n)
			}
		case "row":
			for r := range s.rows {
				add(r, 0)
			}
		case "cell":
			for r := range s.rows {
				for c := 1; c <= s.rows[r].cells; c++ {
					add(r, c)
				}
			}
		}
	}
	visit(0)
	for i, o := range shape {
		s.step(o)
		visit(i + 1)
	}
	return out
}

func c13Insert(shape []C13Op, pos int, regs ...C13Op) []C13Op {
	out := append([]C13Op{}, shape[:pos]...)
	out = append(out, regs...)
	return append(out, shape[pos:]...)
}

func c13RegOp(c c13Combo, in c13Inst, cb int) C13Op {
	return C13Op{K: "reg", Owner: c.owner, Time: c.time, Target: c.target, R: in.r, N: in.n, CB: cb}
}

func c13RandHistory(r *RNG, maxOps, maxRegs int) C13Spec {
	var ops []C13Op
	s := newC13Sim()
	nreg := 0
	combos := c13Combos()
	n := 1 + r.Intn(maxOps)
	for i := 0; i < n; i++ {
		var o C13Op
		kinds := 15
		if c13RandCopies {
			kinds = 17 // 15, 16: more cell values and additions of them
		}
		switch k := r.Intn(kinds); {
		case k == 15:
			o = c13RandStamp(r, s)
		case k == 13:
			o = opK("stamp")
			if c13RandCopies {
				o = c13RandStamp(r, s)
			}
		case k == 14 || k == 16:
			if len(s.rows) == 0 {
				continue
			}
			o = C13Op{K: "rowaddfrom", R: r.Intn(len(s.rows))}
			switch r.Intn(3) {
			case 0:
				if len(s.stamps) == 0 {
					continue
				}
				o.From, o.S = "stamp", r.Intn(len(s.stamps))
			case 1:
				o.From, o.SR = "cell", r.Intn(len(s.rows))
				if s.rows[o.SR].cells == 0 {
					continue
				}
				o.SC = 1 + r.Intn(s.rows[o.SR].cells)
			default:
				o.From, o.SC = "foreign", 1+r.Intn(3)
			}
		case k == 12:
			o = C13Op{K: "hcol", N: r.Intn(s.ncols + 1)}
		case k < 2:
			o = opN("items", r.Intn(4))
			if r.Pct(12) {
				o.N = 9 + r.Intn(5) // past the column capacity
			}
		case k == 2:
			o = opK("newrow")
		case k == 3 || k == 4:
			if len(s.rows) == 0 {
				continue
			}
			o = opR("rowadd", r.Intn(len(s.rows)))
			if s.rows[o.R].header || s.rows[o.R].sep {
				// extending a header row / adding to a separator: rare
				if !r.Pct(20) {
					continue
				}
			}
		case k == 5:
			if len(s.rows) == 0 {
				continue
			}
			o = opR("addrow", r.Intn(len(s.rows)))
		case k == 6:
			o = opK("append")
		case k == 7:
			if !r.Pct(40) {
				continue
			}
			o = opK("sep")
		case k == 8:
			if !r.Pct(50) {
				continue
			}
			o = opN("headers", r.Intn(4))
		default:
			if nreg >= maxRegs {
				continue
			}
			c := pick(r, combos)
			in := c13Inst{}
			switch c.owner {
			case "column":
				in.n = r.Intn(s.ncols + 1)
			case "row":
				if len(s.rows) == 0 {
					continue
				}
				in.r = r.Intn(len(s.rows))
			case "cell":
				if len(s.rows) == 0 {
					continue
				}
				in.r = r.Intn(len(s.rows))
				if s.rows[in.r].cells == 0 {
					continue
				}
				in.n = 1 + r.Intn(s.rows[in.r].cells)
			}
			nreg++
			o = c13RegOp(c, in, nreg)
			o.Kind = pick(r, []string{"", "", "twin", "twin", "val"})
			o.Fail = r.Pct(25)
			if len(s.stamps) > 0 && c13Accepts("cell", c.target) && r.Pct(25) { // upon a local Cell variable
				o.Owner, o.N, o.R = "stamp", r.Intn(len(s.stamps)), 0
			}
			if c.time != "add" && r.Pct(8) {
				o.Panic = 1 + r.Intn(2)
			}
			if r.Pct(20) {
				o.Through = pick(r, []string{"other", "other", "wrapper"})
			}
			if nreg > 1 && r.Pct(15) { // an earlier callback object again
				o.CB = 1 + r.Intn(nreg-1)
			}
			if c.owner == "column" && r.Pct(40) { // through a handle taken earlier, if there is one for this column
				for h, n := range s.handles {
					if n == in.n {
						o.H = h + 1
					}
				}
			}
		}
		if !s.wf(o) {
			continue
		}
		s.step(o)
		ops = append(ops, o)
	}
	sp := C13Spec{Ops: ops, Passes: 1 + r.Intn(3)}
	if r.Pct(30) {
		sp.Via = pick(r, c13Vias)
	}
	if maxRegs > 0 && r.Pct(12) {
		// a table in a cell: the render-time callbacks that do not panic may render an inner table
		in := c13RandHistory(r, 8, 0)
		in.Inner = nil
		in.Ops = append(in.Ops, C13Op{K: "reg", Owner: "table", Time: pick(r, []string{"pre", "render", "post"}), Target: "cell", CB: 1},
			C13Op{K: "reg", Owner: "table", Time: "post", Target: "itself", CB: 2})
		any := false
		for i := range sp.Ops {
			if sp.Ops[i].K == "reg" {
				sp.Ops[i].Panic = 0
				if sp.Ops[i].Time != "add" && r.Pct(60) {
					sp.Ops[i].Nest = true
					any = true
				}
			}
		}
		if any {
			sp.Inner = &in
		}
	}
	return sp
}

func c13Gen(r *RNG, tier string) []json.RawMessage {
	var out []json.RawMessage
	count := 0
	add := func(ops []C13Op) {
		sp := C13Spec{Ops: ops, Passes: 1 + count%3}
		if count%4 == 3 {
			sp.Via = c13Vias[(count/4)%len(c13Vias)] // every entry point of every renderer, in turn
		}
		count++
		out = append(out, mustJSON(sp))
	}
	combos := c13Combos()
	// every (owner kind x time x target) registration, singly, upon every owner
	// instance of every shape, registered as early as the owner exists and
	// after the whole table exists
	for _, shape := range c13Shapes {
		for _, c := range combos {
			for _, in := range c13Instances(shape, c.owner) {
				add(c13Insert(shape, in.since, c13RegOp(c, in, 1)))
				if in.since != len(shape) {
					add(c13Insert(shape, len(shape), c13RegOp(c, in, 1)))
				}
			}
		}
	}
	if tier == "thorough" {
		// all ordered pairs of combinations (2,304) on every shape; owner instances and positions drawn
		for _, shape := range c13Shapes {
			for _, c1 := range combos {
				i1s := c13Instances(shape, c1.owner)
				for _, c2 := range combos {
					i2s := c13Instances(shape, c2.owner)
					if len(i1s) == 0 || len(i2s) == 0 {
						continue
					}
					in1, in2 := pick(r, i1s), pick(r, i2s)
					p1 := in1.since
					if r.Bool() {
						p1 = in1.since + r.Intn(len(shape)-in1.since+1)
					}
					p2 := in2.since
					if r.Bool() {
						p2 = in2.since + r.Intn(len(shape)-in2.since+1)
					}
					// insert the later one first so that positions stay valid
					r1, r2 := c13RegOp(c1, in1, 1), c13RegOp(c2, in2, 2)
					var ops []C13Op
					if p1 <= p2 {
						ops = c13Insert(c13Insert(shape, p2, r2), p1, r1)
					} else {
						ops = c13Insert(c13Insert(shape, p1, r1), p2, r2)
					}
					add(ops)
				}
			}
		}
	} else {
		// a seeded sample of pairs
		for i := 0; i < 400; i++ {
			shape := pick(r, c13Shapes)
			c1, c2 := pick(r, combos), pick(r, combos)
			i1s, i2s := c13Instances(shape, c1.owner), c13Instances(shape, c2.owner)
			if len(i1s) == 0 || len(i2s) == 0 {
				continue
			}
			in1, in2 := pick(r, i1s), pick(r, i2s)
			p1 := in1.since + r.Intn(len(shape)-in1.since+1)
			p2 := in2.since + r.Intn(len(shape)-in2.since+1)
			r1, r2 := c13RegOp(c1, in1, 1), c13RegOp(c2, in2, 2)
			if p1 <= p2 {
				add(c13Insert(c13Insert(shape, p2, r2), p1, r1))
			} else {
				add(c13Insert(c13Insert(shape, p1, r1), p2, r2))
			}
		}
	}
	c13GenEqual(r, tier, add)
	c13GenHandles(r, tier, add)
	c13GenFailing(r, tier, add)
	c13GenValues(r, tier, add)
	c13GenValueCopies(r, tier, add)
	c13GenPanics(r, tier, func(sp C13Spec) { out = append(out, mustJSON(sp)) })
	c13GenThrough(r, tier, add)
	c13GenNested(r, tier, func(sp C13Spec) { out = append(out, mustJSON(sp)) })
	var long []json.RawMessage
	c13GenLong(r, tier, func(sp C13Spec) { long = append(long, mustJSON(sp)) })
	// the dense histories and the pairs of tables are large cases too: spread like the long tables
	{
		saved := out
		out = nil
		c13GenDense(r, tier, add)
		c13GenShared(r, tier, func(sp C13Spec) { out = append(out, mustJSON(sp)) })
		// one family after the other, then dealt out with a stride so that
		// every stretch of the run gets its share of each
		all := append(long, out...)
		n := len(all)
		gcd := func(a, b int) int {
			for b != 0 {
				a, b = b, a%b
			}
			return a
		}
		p := n*618/1000 + 1
		for gcd(p, n) != 1 {
			p++
		}
		mixed := make([]json.RawMessage, n)
		for k := 0; k < n; k++ {
			mixed[k] = all[(k*p)%n]
		}
		long = mixed
		out = saved
	}
	// random histories
	n := 400
	if tier == "thorough" {
		n = 6000
	}
	for i := 0; i < n; i++ {
		out = append(out, mustJSON(c13RandHistory(r, 12, 4)))
	}
	// ... and as many again (a third in quick) in which local Cell variables
	// are also made from the values of existing cells (c13_r6.go)
	c13RandCopies = true
	for i := 0; i < n/3+n/3*2*b2i(tier == "thorough"); i++ {
		out = append(out, mustJSON(c13RandHistory(r, 12, 4)))
	}
	c13RandCopies = false
	// the long tables are spread evenly over the run (the evaluation is sharded in order)
	merged := make([]json.RawMessage, 0, len(out)+len(long))
	li := 0
	for i, c := range out {
		for li < len(long) && (li+1)*len(out)/(len(long)+1) <= i {
			merged = append(merged, long[li])
			li++
		}
		merged = append(merged, c)
	}
	merged = append(merged, long[li:]...)
	return merged
}

// Cells are values.  (a) A local Cell variable with 0-2 callbacks registered
// upon it is added twice - to one row, to two rows, to a detached row that is
// attached later - and further callbacks are registered on each stored copy,
// in both orders: every copy starts with the callbacks the value carried and
// from then on has its own.  (b) The value of a cell of the table (body or
// header) or of another table is added at a different position - to a row of
// the table or to a detached row attached later - with column-level cell
// callbacks of every time on both columns involved: the new cell belongs to
// the column it now stands in.
func c13GenValues(r *RNG, tier string, add func([]C13Op)) {
	cat := func(parts ...[]C13Op) []C13Op {
		var out []C13Op
		for _, p := range parts {
			out = append(out, p...)
		}
		return out
	}
	from := func(dest int, kind string, a, b int) C13Op {
		switch kind {
		case "stamp":
			return C13Op{K: "rowaddfrom", R: dest, From: "stamp", S: a}
		case "cell":
			return C13Op{K: "rowaddfrom", R: dest, From: "cell", SR: a, SC: b}
		}
		return C13Op{K: "rowaddfrom", R: dest, From: "foreign", SC: b}
	}
	cellReg := func(row, col, cb int, time, target, kind string) C13Op {
		return C13Op{K: "reg", Owner: "cell", R: row, N: col, Time: time, Target: target, CB: cb, Kind: kind}
	}
	// (a)
	times := []string{"render"}
	if tier == "thorough" {
		times = c13Times
	}
	for _, tm := range times {
		for prior := 0; prior <= 5; prior++ {
			for _, target := range []string{"itself", "cell"} {
				for _, kind := range []string{"", "twin"} {
					var pre []C13Op
					pre = append(pre, opK("stamp"))
					for i := 0; i < prior; i++ {
						pre = append(pre, C13Op{K: "reg", Owner: "stamp", N: 0, Time: tm, Target: target, CB: 10 + i, Kind: kind})
					}
					layouts := [][]C13Op{
						{opK("append"), from(0, "stamp", 0, 0), from(0, "stamp", 0, 0)},                                    // twice into one row: cells 0.1 0.2
						{opK("append"), from(0, "stamp", 0, 0), opK("append"), from(1, "stamp", 0, 0)},                     // two rows: 0.1 1.1
						{opK("newrow"), from(0, "stamp", 0, 0), opR("addrow", 0), opN("items", 1), from(1, "stamp", 0, 0)}, // detached then attached; late into another row: 0.1 1.2
					}
					second := [][2]int{{0, 2}, {1, 1}, {1, 2}}
					for li, lay := range layouts {
						c1 := cellReg(0, 1, 1, tm, target, kind)
						c2 := cellReg(second[li][0], second[li][1], 2, tm, target, kind)
						add(cat(pre, lay, []C13Op{c1, c2}))
						add(cat(pre, lay, []C13Op{c2, c1}))
						// a registration on the variable between the two adds reaches only the later copy
						if li == 1 {
							mid := C13Op{K: "reg", Owner: "stamp", N: 0, Time: tm, Target: target, CB: 20, Kind: kind}
							if prior < 2 {
								add(cat(pre, lay[:2], []C13Op{mid}, lay[2:], []C13Op{c1, c2}))
							}
						}
					}
					// the value of a stored cell that has callbacks of its own, added again
					add(cat([]C13Op{opN("items", 1)}, []C13Op{cellReg(0, 1, 1, tm, target, kind)}, []C13Op{opK("append"), from(1, "cell", 0, 1)},
						[]C13Op{cellReg(0, 1, 2, tm, target, kind), cellReg(1, 1, 3, tm, target, kind)}))
				}
			}
		}
	}
	// (b)
	for _, tm := range []string{"add", "pre", "post"} {
		colRegs := []C13Op{
			{K: "reg", Owner: "column", N: 1, Time: tm, Target: "cell", CB: 1},
			{K: "reg", Owner: "column", N: 2, Time: tm, Target: "cell", CB: 2},
		}
		type src struct {
			base []C13Op
			kind string
			a, b int
		}
		srcs := []src{
			{[]C13Op{opN("items", 2)}, "cell", 0, 1},
			{[]C13Op{opN("items", 2)}, "cell", 0, 2},
			{[]C13Op{opN("headers", 2)}, "cell", 0, 1},
			{[]C13Op{opN("headers", 2)}, "cell", 0, 2},
			{[]C13Op{opN("items", 2)}, "foreign", 0, 1},
			{[]C13Op{opN("items", 2)}, "foreign", 0, 2},
		}
		for _, sc := range srcs {
			for _, shift := range []int{0, 1} { // the value lands in column 1 (shift 0) or column 2 (shift 1)
				if sc.kind == "cell" && sc.b == 1+shift && tier != "thorough" {
					continue // same column number: only in thorough
				}
				plain := []C13Op{}
				if shift == 1 {
					plain = []C13Op{opR("rowadd", 1)}
				}
				for _, regsFirst := range []bool{true, false} {
					pre, post := colRegs, []C13Op(nil)
					if !regsFirst {
						pre, post = nil, colRegs
					}
					// into a row that is in the table
					add(cat(sc.base, pre, []C13Op{opK("append")}, plain, []C13Op{from(1, sc.kind, sc.a, sc.b)}, post, []C13Op{opN("items", 2)}))
					// into a detached row, attached afterwards
					add(cat(sc.base, pre, []C13Op{opK("newrow")}, plain, []C13Op{from(1, sc.kind, sc.a, sc.b), opR("addrow", 1)}, post, []C13Op{opN("items", 2)}))
				}
			}
		}
	}
}

// The table object whose RegisterPropertyCallback method is called does not
// matter: every firing single registration made through another table's
// method and through a rendering wrapper's.
func c13GenThrough(r *RNG, tier string, add func([]C13Op)) {
	n := 0
	for _, shape := range c13Shapes {
		for _, c := range c13Combos() {
			for _, in := range c13Instances(shape, c.owner) {
				o := c13RegOp(c, in, 1)
				o.Through = "other"
				if n%3 == 2 {
					o.Through = "wrapper"
				}
				ops := c13Insert(shape, in.since, o)
				if !c13Fires(ops) {
					continue
				}
				n++
				add(ops)
				if tier == "thorough" && in.since != len(shape) {
					add(c13Insert(shape, len(shape), o))
				}
			}
		}
	}
}

// A table in a cell: a render-time callback of table A - every firing
// combination, on the first, a middle and the last owner instance - runs a
// complete pass over another table B (fewer, as many, more rows than A; asked
// for directly and through a renderer) which has recording callbacks of its
// own.  A always also carries a plain callback on every cell, so that every
// row of A is accounted for; each table's log is judged against its own trace.
func c13GenNested(r *RNG, tier string, emit func(C13Spec)) {
	outers := [][]C13Op{
		{opN("items", 1), opN("items", 1), opN("items", 1)},
		{opN("headers", 2), opN("items", 2), opK("sep"), opN("items", 1)},
	}
	inner := func(rows int) []C13Op {
		ops := []C13Op{{K: "reg", Owner: "table", Time: "pre", Target: "itself", CB: 1}, {K: "reg", Owner: "table", Time: "render", Target: "cell", CB: 2}}
		for i := 0; i < rows; i++ {
			ops = append(ops, opN("items", 1+i%2))
		}
		return append(ops, C13Op{K: "reg", Owner: "row", R: rows - 1, Time: "post", Target: "itself", CB: 3},
			C13Op{K: "reg", Owner: "row", R: 0, Time: "pre", Target: "cell", CB: 4})
	}
	n := 0
	for _, shape := range outers {
		for _, c := range c13Combos() {
			if c.time == "add" {
				continue
			}
			ins := c13Instances(shape, c.owner)
			if len(ins) > 3 {
				ins = []c13Inst{ins[0], ins[len(ins)/2], ins[len(ins)-1]}
			}
			for _, in := range ins {
				o := c13RegOp(c, in, 1)
				o.Nest = true
				o.Kind = []string{"", "twin", "val"}[n%3]
				ops := append(append([]C13Op{}, shape...), o, C13Op{K: "reg", Owner: "table", Time: "post", Target: "cell", CB: 2})
				if !c13Fires(append(append([]C13Op{}, shape...), o)) {
					continue
				}
				sizes := []int{1, 3, 6}
				if tier == "thorough" {
					sizes = []int{1, 2, 3, 4, 6, 70}
				}
				for _, rows := range sizes {
					for _, iv := range []string{"", c13Vias[n%len(c13Vias)]} {
						sp := C13Spec{Ops: ops, Passes: 1 + n%2, Inner: &C13Spec{Ops: inner(rows), Via: iv}}
						if n%7 == 6 {
							sp.Via = c13Vias[(n/7)%len(c13Vias)]
						}
						emit(sp)
						n++
					}
				}
			}
		}
	}
}

// Long tables (47 / 48 / 49 / 100 rows, separators count) rendered through
// every entry point of every renderer: each call is exactly one pass.
func c13GenLong(r *RNG, tier string, emit func(C13Spec)) {
	regs := func(k, rows int) []C13Op {
		mid := rows / 2
		switch k % 6 {
		case 0:
			return []C13Op{{K: "reg", Owner: "table", Time: "pre", Target: "itself", CB: 1}, {K: "reg", Owner: "column", N: 1, Time: "post", Target: "itself", CB: 2}}
		case 1:
			return []C13Op{{K: "reg", Owner: "table", Time: "render", Target: "cell", CB: 1}}
		case 2:
			return []C13Op{{K: "reg", Owner: "column", N: 1, Time: "post", Target: "cell", CB: 1}}
		case 3:
			return []C13Op{{K: "reg", Owner: "row", R: mid, Time: "pre", Target: "itself", CB: 1}, {K: "reg", Owner: "row", R: mid, Time: "post", Target: "cell", CB: 2}}
		case 4:
			return []C13Op{{K: "reg", Owner: "cell", R: mid, N: 1, Time: "render", Target: "itself", CB: 1}}
		}
		return []C13Op{{K: "reg", Owner: "table", Time: "post", Target: "cell", CB: 1, Fail: true}, {K: "reg", Owner: "table", Time: "pre", Target: "cell", CB: 2, Kind: "twin"}}
	}
	k := 0
	for _, rows := range []int{47, 48, 49, 100} {
		var shape []C13Op
		for i := 0; i < rows; i++ {
			switch {
			case i%10 == 9 && i != rows/2:
				shape = append(shape, opK("sep"))
			case i == 3:
				shape = append(shape, opN("items", 2))
			default:
				shape = append(shape, opN("items", 1))
			}
		}
		vias := append([]string{""}, c13Vias...)
		for vi, via := range vias {
			if tier != "thorough" && rows == 100 && vi%4 != 1 {
				continue // the boundary sizes get every entry point; the 100-row table a quarter of them per run
			}
			variants := 1
			if tier == "thorough" {
				variants = 6
			}
			for v := 0; v < variants; v++ {
				rg := regs(k+v, rows)
				if tier != "thorough" {
					rg = regs(vi, rows)
				}
				ops := append(append([]C13Op{}, shape...), rg...)
				if vi%2 == 1 { // registered before the rows exist where the owner allows it
					if rg[0].Owner == "table" {
						ops = append(append([]C13Op{}, rg...), shape...)
					}
				}
				emit(C13Spec{Ops: ops, Passes: 1 + (vi+v)%2, Via: via})
			}
			k++
		}
	}
}

// A callback that panics in one render pass (the caller recovers): that pass
// is void; every other pass, before and after, must be complete.
func c13GenPanics(r *RNG, tier string, emit func(C13Spec)) {
	n := 0
	for _, shape := range c13Shapes {
		for _, c := range c13Combos() {
			if c.time == "add" {
				continue
			}
			ins := c13Instances(shape, c.owner)
			if tier != "thorough" && len(ins) > 2 {
				ins = []c13Inst{ins[0], ins[len(ins)-1]}
			}
			for _, in := range ins {
				o := c13RegOp(c, in, 1)
				if !c13Fires(append(append([]C13Op{}, shape...), o)) {
					continue
				}
				for _, pp := range [][2]int{{1, 2}, {2, 3}, {1, 3}} { // (panics in pass, passes)
					if tier != "thorough" && n%3 != pp[0]+pp[1]-3 {
						continue
					}
					o.Panic = pp[0]
					o.Kind = []string{"", "twin", "val"}[n%3]
					ops := append(append([]C13Op{}, shape...), o)
					// a second, ordinary callback somewhere else
					if n%2 == 1 {
						ops = append(ops, C13Op{K: "reg", Owner: "table", Time: pick(r, []string{"pre", "render", "post"}), Target: pick(r, []string{"itself", "cell"}), CB: 2})
					}
					sp := C13Spec{Ops: ops, Passes: pp[1]}
					if n%5 == 4 {
						sp.Via = c13Vias[(n/5)%len(c13Vias)]
					}
					emit(sp)
				}
				n++
			}
		}
	}
}

// c13Fires: does the history expect at least one invocation (one render pass)
func c13Fires(ops []C13Op) bool {
	s := newC13Sim()
	for _, o := range ops {
		if !s.wf(o) {
			return false
		}
		s.step(o)
	}
	return len(s.add)+len(s.renderPass()) > 0
}

func c13Alias(owner, target string) string {
	switch {
	case owner == "row" && target == "itself":
		return "row"
	case owner == "row" && target == "row":
		return "itself"
	case owner == "cell" && target == "itself":
		return "cell"
	case owner == "cell" && target == "cell":
		return "itself"
	}
	return target
}

// Equal callbacks in one slot: two distinct callback objects with equal
// contents, the same object twice, two equal values - on every combination
// that can fire, registered next to each other and apart.  One invocation per
// registration is expected whatever the callbacks' contents.
func c13GenEqual(r *RNG, tier string, add func([]C13Op)) {
	for _, shape := range c13Shapes {
		for _, c := range c13Combos() {
			ins := c13Instances(shape, c.owner)
			if tier != "thorough" && len(ins) > 2 {
				ins = []c13Inst{ins[0], ins[len(ins)-1]}
			}
			for _, in := range ins {
				first := c13RegOp(c, in, 1)
				if !c13Fires(c13Insert(shape, in.since, first)) {
					continue
				}
				mk := func(kind string, cb int, target string) C13Op {
					o := c13RegOp(c, in, cb)
					o.Kind, o.Target = kind, target
					return o
				}
				variants := [][2]C13Op{
					{mk("twin", 1, c.target), mk("twin", 2, c.target)}, // distinct objects, equal contents
					{mk("", 1, c.target), mk("", 1, c.target)},         // the same object twice
					{mk("val", 1, c.target), mk("val", 1, c.target)},   // two equal values
					{mk("twin", 1, c.target), mk("", 2, c.target)},     // different contents (control)
				}
				if a := c13Alias(c.owner, c.target); a != c.target {
					variants = append(variants, [2]C13Op{mk("twin", 1, c.target), mk("twin", 2, a)})
				}
				for k, v := range variants {
					if k%2 == 0 || in.since == len(shape) {
						add(c13Insert(shape, in.since, v[0], v[1]))
					} else {
						add(c13Insert(c13Insert(shape, len(shape), v[1]), in.since, v[0]))
					}
				}
			}
		}
	}
}

// Column handles: t.Column(n) taken while the table is narrow, the table
// widened to 9 / 10 / 12 columns in four ways, column callbacks registered
// through the old handle before and after the growth and through a fresh
// handle after it; a further row is added afterwards so that add-time column
// callbacks have something to fire on.
func c13GenHandles(r *RNG, tier string, add func([]C13Op)) {
	colCombos := []c13Combo{{"column", "pre", "itself"}, {"column", "post", "itself"}, {"column", "add", "cell"},
		{"column", "pre", "cell"}, {"column", "post", "cell"}}
	widths := []int{10, 12}
	if tier == "thorough" {
		widths = []int{9, 10, 11, 12, 25}
		colCombos = nil
		for _, c := range c13Combos() {
			if c.owner == "column" {
				colCombos = append(colCombos, c)
			}
		}
	}
	widen := func(method, w, nextID int) []C13Op {
		switch method {
		case 0:
			return []C13Op{opN("items", w)}
		case 1:
			return []C13Op{opN("headers", w)}
		case 2:
			ops := []C13Op{opK("append")}
			for i := 0; i < w; i++ {
				ops = append(ops, opR("rowadd", nextID))
			}
			return ops
		}
		ops := []C13Op{opK("newrow")}
		for i := 0; i < w; i++ {
			ops = append(ops, opR("rowadd", nextID))
		}
		return append(ops, opR("addrow", nextID))
	}
	for method := 0; method < 4; method++ {
		for _, w := range widths {
			for col := 0; col <= 2; col++ {
				for _, c := range colCombos {
					reg := func(cb, h int, kind string) C13Op {
						return C13Op{K: "reg", Owner: "column", Time: c.time, Target: c.target, N: col, CB: cb, H: h, Kind: kind}
					}
					base := []C13Op{opN("items", 2), {K: "hcol", N: col}}
					tail := []C13Op{opN("items", 3)}
					cat := func(parts ...[]C13Op) []C13Op {
						var out []C13Op
						for _, p := range parts {
							out = append(out, p...)
						}
						return out
					}
					wd := widen(method, w, 1)
					add(cat(base, []C13Op{reg(1, 1, "")}, wd, tail))                                                // through the handle, before the growth
					add(cat(base, wd, []C13Op{reg(1, 1, "")}, tail))                                                // through the old handle, after the growth
					add(cat(base, wd, []C13Op{reg(1, 0, "")}, tail))                                                // through a fresh handle, after the growth
					add(cat(base, []C13Op{reg(1, 1, "twin")}, wd, []C13Op{reg(2, 1, "twin"), reg(3, 0, "")}, tail)) // all three
				}
			}
		}
	}
}

// Callbacks that return an error.  The trace does not depend on what a
// callback returns: every firing single registration in a failing variant, and
// every failing pre-cell registration that matches a cell paired with every
// registration that fires later (or in the same phase) for that cell, its row,
// its column or the table, in both registration orders.
func c13GenFailing(r *RNG, tier string, add func([]C13Op)) {
	for _, shape := range c13Shapes {
		for _, c := range c13Combos() {
			for _, in := range c13Instances(shape, c.owner) {
				o := c13RegOp(c, in, 1)
				o.Fail = true
				ops := c13Insert(shape, in.since, o)
				if c13Fires(ops) {
					add(ops)
				}
			}
		}
		cells := c13Instances(shape, "cell")
		if tier != "thorough" && len(cells) > 2 {
			cells = []c13Inst{cells[0], cells[len(cells)-1]}
		}
		failTimes := []string{"pre"}
		if tier == "thorough" {
			failTimes = []string{"add", "pre", "render", "post"}
		}
		for _, cell := range cells {
			row, col := cell.r, cell.n
			owners := []C13Op{
				{K: "reg", Owner: "table", Target: "cell"},
				{K: "reg", Owner: "column", N: col, Target: "cell"},
				{K: "reg", Owner: "row", R: row, Target: "cell"},
				{K: "reg", Owner: "cell", R: row, N: col, Target: "itself"},
				{K: "reg", Owner: "cell", R: row, N: col, Target: "cell"},
				{K: "reg", Owner: "row", R: row, Target: "itself"},
				{K: "reg", Owner: "column", N: col, Target: "itself"},
				{K: "reg", Owner: "table", Target: "itself"},
			}
			for _, ft := range failTimes {
				for _, f := range owners[:3] {
					f.Time, f.Fail, f.CB = ft, true, 1
					for _, g := range owners {
						for _, gt := range []string{"pre", "render", "post"} {
							g.Time, g.CB = gt, 2
							g.Fail = false
							both := append(append([]C13Op{}, shape...), f, g)
							if !c13WF(both) || !c13Fires(append(append([]C13Op{}, shape...), g)) || !c13Fires(append(append([]C13Op{}, shape...), f)) {
								continue
							}
							add(both)
							if tier == "thorough" || gt == "pre" || cell == cells[len(cells)-1] {
								// registration order matters within one phase; across phases it is sampled in quick
								add(append(append([]C13Op{}, shape...), g, f))
							}
						}
					}
				}
			}
		}
	}
}

// ---------------------------------------------------------------- shrinking

// dropOp removes op i; when it allocated a row, everything naming that row goes
// too and later ids move down
func c13DropOp(ops []C13Op, i int) []C13Op {
	id := -1
	if ops[i].allocates() {
		id = 0
		for _, o := range ops[:i] {
			if o.allocates() {
				id++
			}
		}
	}
	sidx := -1 // number of the dropped stamp
	if ops[i].K == "stamp" {
		sidx = 0
		for _, o := range ops[:i] {
			if o.K == "stamp" {
				sidx++
			}
		}
	}
	hidx := -1 // index of the dropped handle
	if ops[i].K == "hcol" {
		hidx = 0
		for _, o := range ops[:i] {
			if o.K == "hcol" {
				hidx++
			}
		}
	}
	var out []C13Op
	for j, o := range ops {
		if j == i {
			continue
		}
		if sidx >= 0 {
			if o.K == "reg" && o.Owner == "stamp" {
				if o.N == sidx {
					continue
				}
				if o.N > sidx {
					o.N--
				}
			}
			if o.K == "rowaddfrom" && o.From == "stamp" {
				if o.S == sidx {
					continue
				}
				if o.S > sidx {
					o.S--
				}
			}
		}
		if hidx >= 0 && o.K == "reg" && o.H > 0 {
			if o.H-1 == hidx {
				continue
			}
			if o.H-1 > hidx {
				o.H--
			}
		}
		if id >= 0 {
			if (o.K == "rowaddfrom" || o.K == "stamp") && o.From == "cell" {
				if o.SR == id {
					continue
				}
				if o.SR > id {
					o.SR--
				}
			}
			names := o.K == "rowadd" || o.K == "rowaddfrom" || o.K == "addrow" || (o.K == "reg" && (o.Owner == "row" || o.Owner == "cell"))
			if names {
				if o.R == id {
					continue
				}
				if o.R > id {
					o.R--
				}
			}
		}
		out = append(out, o)
	}
	return out
}

func c13Shrink(spec json.RawMessage) []json.RawMessage {
	var sp C13Spec
	if err := json.Unmarshal(spec, &sp); err != nil {
		return nil
	}
	if sp.Peer != nil {
		return c13ShrinkPair(sp)
	}
	var out []json.RawMessage
	emit := func(c C13Spec) {
		if c13WF(c.Ops) {
			c.Inner = sp.Inner // reductions of the outer table keep the inner one
			out = append(out, mustJSON(c))
		}
	}
	// registrations in bulk: one whole callback list, the later half of a long
	// one, everything registered for one time
	{
		without := func(drop map[int]bool) []C13Op {
			var ops []C13Op
			for i, o := range sp.Ops {
				if !drop[i] {
					ops = append(ops, o)
				}
			}
			return ops
		}
		lists := map[string][]int{}
		var keys []string
		for i, o := range sp.Ops {
			if o.K != "reg" {
				continue
			}
			for _, k := range []string{fmt.Sprint(o.Owner, "/", o.R, "/", o.N, "/", c13Norm(o.Owner, o.Target), "/", o.Time), "time/" + o.Time} {
				if _, ok := lists[k]; !ok {
					keys = append(keys, k)
				}
				lists[k] = append(lists[k], i)
			}
		}
		for _, k := range keys {
			idx := lists[k]
			if len(idx) < 2 {
				continue
			}
			drop := map[int]bool{}
			for _, i := range idx {
				drop[i] = true
			}
			emit(C13Spec{Ops: without(drop), Passes: sp.Passes, Via: sp.Via})
			if len(idx) >= 4 {
				half := map[int]bool{}
				for _, i := range idx[len(idx)/2:] {
					half[i] = true
				}
				emit(C13Spec{Ops: without(half), Passes: sp.Passes, Via: sp.Via})
			}
		}
	}
	for i := range sp.Ops {
		emit(C13Spec{Ops: c13DropOp(sp.Ops, i), Passes: sp.Passes, Via: sp.Via})
	}
	for i, o := range sp.Ops {
		if (o.K == "items" || o.K == "headers") && o.N > 0 {
			ops := append([]C13Op{}, sp.Ops...)
			ops[i].N--
			emit(C13Spec{Ops: ops, Passes: sp.Passes, Via: sp.Via})
		}
		if o.K == "headers" {
			ops := append([]C13Op{}, sp.Ops...)
			ops[i].K = "items"
			emit(C13Spec{Ops: ops, Passes: sp.Passes, Via: sp.Via})
		}
	}
	for i, o := range sp.Ops {
		if o.K != "reg" {
			continue
		}
		clear := func(f func(*C13Op)) {
			ops := append([]C13Op{}, sp.Ops...)
			f(&ops[i])
			emit(C13Spec{Ops: ops, Passes: sp.Passes, Via: sp.Via})
		}
		if o.Through != "" {
			clear(func(q *C13Op) { q.Through = "" })
		}
		if o.Fail {
			clear(func(q *C13Op) { q.Fail = false })
		}
		if o.Kind != "" {
			clear(func(q *C13Op) { q.Kind = "" })
		}
		if o.Panic != 0 {
			clear(func(q *C13Op) { q.Panic = 0 })
		}
	}
	if sp.Inner != nil {
		// the inner table: gone, or one step smaller
		for _, raw := range c13Shrink(mustJSON(C13Spec{Ops: sp.Inner.Ops, Passes: 0, Via: sp.Inner.Via})) {
			var in C13Spec
			if json.Unmarshal(raw, &in) == nil {
				in.Passes = 0
				out = append(out, mustJSON(C13Spec{Ops: sp.Ops, Passes: sp.Passes, Via: sp.Via, Inner: &in}))
			}
		}
		// without the inner table
		out = append(out, mustJSON(C13Spec{Ops: sp.Ops, Passes: sp.Passes, Via: sp.Via}))
	}
	if sp.Passes > 0 {
		emit(C13Spec{Ops: sp.Ops, Passes: sp.Passes - 1, Via: sp.Via})
	}
	if sp.Via != "" {
		emit(C13Spec{Ops: sp.Ops, Passes: sp.Passes})
	}
	return out
}

func init() {
	register(&Prop{
		ID:       "C13",
		Imports:  "From Tab Require Import Run.Glue Run.C13Run.",
		CaseType: "(input * res obs * list (input * res obs))",
		CaseFn:   "C13_case",
		ModelFn:  "C13_model",
		Rule: "histories through the public API: NewRow / Row.Add (detached and attached rows) / AddRow / AppendNewRow / AddRowItems / AddSeparator / AddHeaders " +
			"interleaved with RegisterPropertyCallback of recording callbacks, then 1-3 render passes (t.InvokeRenderCallbacks() or csv.Render); " +
			"all 48 (owner kind x time x target) registrations singly upon every owner instance (table, columns 0..n, every row incl. header and separator, every cell) " +
			"of 16 table shapes up to 2x2 (+header, empty header, separator, zero-cell row, detached build, row extended after attach), registered as soon as the owner exists and after the table is complete; " +
			"pairs of registrations (sampled in quick, all 2,304 ordered pairs per shape in thorough); " +
			"callback objects of three kinds (pointer with own contents, pointer with contents equal to every other of its kind, plain value), two equal callbacks and the same object twice in one slot (also through the Row itself/row and Cell itself/cell aliases) on every combination that can fire; " +
			"column handles taken while the table is narrow, the table widened to 10+ columns in four ways (wide row, wide header, cells added late to an attached row, wide detached row), column callbacks registered through the old handle before and after the growth and through a fresh handle, identities and properties compared through old handles too; " +
			"callbacks that return an error: every firing single registration, and every failing pre-cell cell-targeted registration paired, in both orders, with every registration that fires for the same cell / its row / its column / the table; " +
			"cell values with a history: a local Cell variable with 0-2 callbacks registered upon it added twice (one row, two rows, detached row) with further registrations on each stored copy in both orders; the value of a table cell (body, header) or of another table's cell added at another column position, into attached and detached rows, with column cell callbacks of every time on both columns (a stored copy is a new cell of its row that starts with the callbacks the value carried: shipped to the model as Row.Add plus those registrations); " +
			"local Cell variables that are COPIES of existing cells (c := *cellAt / row.Cells()[i] / Headers()[i], of a body cell, a header cell, a detached row's cell, another table's cell; the source with and without a callback of its own): a cell-level registration of every time and both target aliases upon &c, then c never added / added to another attached row / late into a full row / to a detached row attached later / twice / back into the source's own row, with a later registration upon the source and one upon the stored cell, and with column and row cell callbacks around it - the copy's callbacks belong to the copy (Model/CellValues.v, c13_value_ops_local, c13_value_add); seeded random histories with such variables; " +
			"a callback that panics in one render pass (the harness recovers): that pass is void, every other pass before and after it must be complete - every firing render-time combination x shape; " +
			"render passes asked for through every entry point of every renderer (package-level Render / RenderTo and the methods of a reused wrapper for csv, json, markdown, texttable; html's wrapper methods; auto.Render / RenderTo / Wrap with 7 styles: 42 paths besides t.InvokeRenderCallbacks()), in turn over all families, and on tables of 47 / 48 / 49 / 100 rows (separators count): exactly one pass per call; " +
			"a table in a cell: a render-time callback of the table (every firing combination, first / middle / last owner instance, three kinds of callback object) runs a complete pass over another table with recording callbacks of its own (1 / 3 / 6 rows against 3-4, asked for directly and through a renderer) from inside the pass - both tables' logs are judged, each against its own history; " +
			"registrations made through the RegisterPropertyCallback method of another table object and of a rendering wrapper (every firing single registration); " +
			"every invocation also reports what it can see - the number of cells of the row handed over, or of the row of the cell handed over - compared with the row 'with its cells' as the operation leaves it (add time) and as the table has it (render time); " +
			"seeded random histories of up to 12 operations with up to 4 registrations (kinds, failures, panics, re-registered objects, handles, cell values, rows past the column capacity); " +
			"a case is non-trivial when at least one invocation is expected or a registration must be refused; distinct = distinct spec; " +
			"cell values carrying up to 5 callbacks in one time list are copied (append capacity boundaries); " +
			"dense registrations: every callback list that takes part in the per-cell sequence and in the additions (table cell / itself / row, each column's cell / itself, each row's cell / itself, each cell's) holds several callbacks at once - 1-5, 8, 9, 17 in the table's lists, 0-4 in each column's (unequal between neighbouring columns), 0-3 in the row's and the cell's - per time, on tables of 2-3 columns x 2-3 rows (+header), rows built in three ways, registered as soon as the owner exists or after the table is complete, in three orders; seeded random fillings of all lists of 1-4 x 1-4 tables (up to 48 registrations); " +
			"two tables sharing rows: a *Row built once (detached / appended and filled / from items) and added to two tables, in both orders, each table with recording callbacks of its own - every (owner kind x time x target) registration upon either table or both, upon the shared row and its cell made through either table before and after the row is shared - both tables rendered (1-2 passes each, this table first / the other first / alternating, directly and through renderers), an invocation is logged by the table being built or rendered at that moment and each table's log is judged against its own history (the other table's AddRow of a shared row is the operation OOtherAddRow of this one's: no event, c13_other_table); seeded random pair histories; outside: cells added to a row after it is shared, column-level cell callbacks of the two render times in pair histories",
		Exhaustive: "all 48 owner-kind x time x target combinations x every owner instance x {earliest, last} registration point on 16 shapes; equal-callback pairs on every firing combination x shape; handle scenarios 4 widening methods x {10,12} columns x columns 0..2 x 5 column combinations x 4 registration points; failing pre-cell x 24 partner registrations x 2 orders on first and last cell of every shape; cell-value scenarios (stamp: 0-2 prior callbacks x 2 targets x 2 kinds x 3 layouts x 2 orders; moved cell: 6 sources x 2 positions x 3 times x 2 registration points x attached/detached); panicking callback on every firing render-time combination x shape; dense lists: 4 times x 10 count patterns x {2,3} columns x {2,3} rows; shared rows: 8 layouts x every combination x 3-5 placements of the registration",
		Gen:        c13Gen,
		Run:        c13Run,
		Shrink:     c13Shrink,
	})
}
