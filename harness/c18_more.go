package main

// C18, second part: items whose own text method fails, and cells made after
// (very many) other cells in the same process.

import (
	"encoding/json"
	"errors"
	"fmt"
	"os"
	"os/exec"
	"path/filepath"
	"strings"
	"sync"

	"github.com/mattn/go-runewidth"
	"go.pennock.tech/tabular"
	"go.pennock.tech/tabular/length"
)

// ---------------------------------------------------------------- items that fail

// c18Src is the state behind a mutable item: its text, and whether (and how)
// its text method panics at the moment
type c18Src struct {
	text string
	how  int
	p    *int     // never set
	arr  []string // never filled
}

type c18Oops struct{ code int }

func (d *c18Src) get() string {
	switch d.how {
	case 0:
		return d.text
	case 1:
		return fmt.Sprint(*d.p) // nil pointer dereference
	case 2:
		panic("item is broken")
	case 3:
		panic(errors.New("item is broken"))
	case 4:
		return d.arr[len(d.text)] // index out of range
	case 5:
		panic(c18Oops{42})
	default:
		var m map[string]int
		m[d.text] = 1 // assignment to entry in nil map
		return d.text
	}
}

const c18FailHows = 7 // 1..6 as above, 7 = a typed nil pointer of a type whose method has a value receiver

type c18PS struct{ d *c18Src }

func (x *c18PS) String() string { return x.d.get() }

type c18PE struct{ d *c18Src }

func (x *c18PE) Error() string { return x.d.get() }

type c18PG struct{ d *c18Src }

func (x *c18PG) GoString() string { return x.d.get() }

// value receivers: calling the method through a nil pointer panics before the body is entered
type c18VS struct{ s string }

func (v c18VS) String() string { return v.s }

type c18VE struct{ s string }

func (v c18VE) Error() string { return v.s }

type c18VG struct{ s string }

func (v c18VG) GoString() string { return v.s }

// c18FailItem: the item that carries s (kinds 1, 5: String; 2: Error; 3:
// GoString), a setter for its text and one for its failure mode
func c18FailItem(s string, kind int, how int) (item interface{}, set func(string), fail func(bool)) {
	if how == 7 {
		switch kind {
		case 2:
			return (*c18VE)(nil), func(string) {}, func(bool) {}
		case 3:
			return (*c18VG)(nil), func(string) {}, func(bool) {}
		}
		return (*c18VS)(nil), func(string) {}, func(bool) {}
	}
	if how < 1 || how > 6 {
		how = 1
	}
	d := &c18Src{text: s}
	set = func(t string) { d.text = t }
	fail = func(f bool) {
		if f {
			d.how = how
		} else {
			d.how = 0
		}
	}
	switch kind {
	case 2:
		return &c18PE{d}, set, fail
	case 3:
		return &c18PG{d}, set, fail
	}
	return &c18PS{d}, set, fail
}

// c18Try runs f; a panic is reported, not propagated
func c18Try(f func()) (panicked bool) {
	defer func() {
		if recover() != nil {
			panicked = true
		}
	}()
	f()
	return false
}

func c18Fail(fails []bool, k int) bool { return k < len(fails) && fails[k] }

func c18AnyFail(fails []bool) bool {
	for _, f := range fails {
		if f {
			return true
		}
	}
	return false
}

// ---------------------------------------------------------------- cells made after other cells

// C18Vol: a generated stream of distinct texts; the cells for indices
// [Lo,Hi) are made in this order in ONE fresh process.  Target < 0: every
// cell is compared with its own text (height = number of lines, width = widest
// line by length.StringCells); the first that deviates is the subject of the
// case (none: the last one).  Target >= 0: the stream is only played, then
// the cell for index Target is made and is the subject.
type C18Vol struct {
	Seed   uint64 `json:"seed"`
	Fam    int    `json:"fam"`
	Lo     int    `json:"lo"`
	Hi     int    `json:"hi"`
	Target int    `json:"target"`
	// every Upd-th text is not given to NewCell but to one long-lived cell: its item's text changes, Update()
	Upd int `json:"upd,omitempty"`
	// Pieces > 1: this spec is piece Piece of a run cut into Pieces ranges of Each texts; the pieces run in parallel, each in its own process
	Pieces int `json:"pieces,omitempty"`
	Piece  int `json:"piece,omitempty"`
	Each   int `json:"each,omitempty"`
}

// families of texts: every text of a family has the same number of bytes
// (units of equal byte length), and very different display widths and line
// counts.  All alphabets have a power of two of entries.
var c18VolUnits = [][]string{
	{"abc", "xyz", "a b", "1.2", "-->", "世", "界", "日", "本", "한", "가", "\u00e9a", "a\u00e9", "\u00f6x", "\u00f1.", "ｱ",
		"ｲ", "ｳ", "€", "—", "…", "→", "x\ny", "ab\n", "\nqr", "\u00e9\n", "\u200b", "e\u0301", "a\u0308", "\tzz", "~~~", "0o0"},
	{"ab", "\u00e9", "\u00f6", "x\n", "\n.", "\u00f1", "~~", "\u0301", "\u00e5", "\u00e7", "\u00fc", "zz", "a ", " b", "\t.", "\u00b5"},
	{"abcd", "\U0001F600", "\U0001F44D", "世a", "\u00e9\u00e9", "\u00f6\u00f1", "ab\nc", "\nxyz", "한x", "a\u200b", "\U0001F1E9", "wxyz", "e\u0301z", " .. ", "\U0001D4B3", "ｱ\n"},
}
var c18VolK = []int{5, 7, 6}
var c18VolBits = []uint{5, 4, 4}

func init() {
	for f, us := range c18VolUnits {
		if len(us) != 1<<c18VolBits[f] {
			panic(fmt.Sprintf("harness: C18 volume family %d has %d units", f, len(us)))
		}
		for _, u := range us {
			if len(u) != len(us[0]) {
				panic(fmt.Sprintf("harness: C18 volume family %d: unit %q is not %d bytes", f, u, len(us[0])))
			}
		}
	}
}

// the idx-th text of the stream: distinct for distinct idx below 2^(bits*k)
func c18VolText(seed uint64, fam int, idx int) string {
	fam = ((fam % len(c18VolUnits)) + len(c18VolUnits)) % len(c18VolUnits)
	bits, k := c18VolBits[fam], c18VolK[fam]
	mask := uint64(1)<<(bits*uint(k)) - 1
	x := (uint64(idx)*0x9E3779B97F4A7C15 + seed*0xD1B54A32D192ED03 + 0x2545F4914F6CDD1D) & mask // odd multiplier: a bijection on the low bits
	var sb strings.Builder
	for j := 0; j < k; j++ {
		sb.WriteString(c18VolUnits[fam][x&(1<<bits-1)])
		x >>= bits
	}
	return sb.String()
}

// the clause of the property, on one live cell, computed the cheap way (the
// case that is shipped is judged in Coq).  ref 0: a line's display width is
// what length.StringCells says; ref 1: what go-runewidth itself says.
func c18CellDeviates(c *tabular.Cell, text string, ref int) bool {
	h, w := 0, 0
	lines := c.Lines()
	for len(text) > 0 {
		i := strings.IndexByte(text, '\n')
		line := text
		if i >= 0 {
			line, text = text[:i], text[i+1:]
		} else {
			text = ""
		}
		if h >= len(lines) || lines[h] != line {
			return true
		}
		h++
		n := 0
		if ref == 1 {
			n = runewidth.StringWidth(line)
		} else {
			n = length.StringCells(line)
		}
		if n > w {
			w = n
		}
	}
	return len(lines) != h || c.Height() != h || c.TerminalCellWidth() != w
}

type c18Player struct {
	long *tabular.Cell
	set  func(string)
	n    int
	upd  int
}

func newC18Player(upd int) *c18Player {
	item, set, _ := c18FailItem("", 1, 1)
	c := tabular.NewCell(item)
	return &c18Player{long: &c, set: set, upd: upd}
}

// make the cell for one more text; returns the cell that now shows it and how it was made (0 NewCell of the string, 1 Update of the long-lived cell)
func (p *c18Player) play(text string) (*tabular.Cell, int) {
	p.n++
	if p.upd > 0 && p.n%p.upd == 0 {
		p.set(text)
		p.long.Update()
		return p.long, 1
	}
	c := tabular.NewCell(text)
	return &c, 0
}

// c18PlayHistory makes the cells the case's history asks for, in this
// process, and returns the subject: its text, the live cell, how it was made,
// how many cells were made before it, and whether it deviates
func c18PlayHistory(sp C18Spec) (text string, cell *tabular.Cell, via int, before int, deviates bool) {
	upd := 0
	if sp.Vol != nil {
		upd = sp.Vol.Upd
	}
	p := newC18Player(upd)
	one := func(t string, check bool) bool {
		c, v := p.play(t)
		if !check || (c.String() == t && !c18CellDeviates(c, t, p.n%2)) {
			return false
		}
		cp := *c
		text, cell, via, before, deviates = t, &cp, v, p.n-1, true
		return true
	}
	for _, t := range sp.Pre {
		if one(string(t), true) {
			return
		}
	}
	if v := sp.Vol; v != nil {
		for i := v.Lo; i < v.Hi; i++ {
			if one(c18VolText(v.Seed, v.Fam, i), v.Target < 0) {
				return
			}
		}
		last := ""
		if v.Target >= 0 {
			last = c18VolText(v.Seed, v.Fam, v.Target)
		} else if len(sp.S) > 0 || v.Hi <= v.Lo {
			last = string(sp.S)
		} else {
			// nothing deviated: the subject is one more cell for the last text's successor
			last = c18VolText(v.Seed, v.Fam, v.Hi)
		}
		c, vv := p.play(last)
		cp := *c
		return last, &cp, vv, p.n - 1, c.String() != last || c18CellDeviates(c, last, 0) || c18CellDeviates(c, last, 1)
	}
	c, vv := p.play(string(sp.S))
	cp := *c
	return string(sp.S), &cp, vv, p.n - 1, c.String() != string(sp.S) || c18CellDeviates(c, string(sp.S), 0) || c18CellDeviates(c, string(sp.S), 1)
}

// ---------------------------------------------------------------- child processes

type c18ChildRec struct {
	Observed   json.RawMessage `json:"observed"`
	Coq        string          `json:"coq"`
	Size       int             `json:"size"`
	Tags       []string        `json:"tags"`
	Nontrivial bool            `json:"nontrivial"`
}

// c18Child runs one spec in a child process (this binary, -specs mode)
func c18Child(spec json.RawMessage) (*c18ChildRec, string) {
	exe, err := os.Executable()
	if err != nil {
		panic("harness: os.Executable: " + err.Error())
	}
	dir, err := os.MkdirTemp("", "c18child")
	if err != nil {
		panic("harness: " + err.Error())
	}
	defer os.RemoveAll(dir)
	sf := filepath.Join(dir, "specs.json")
	if err := os.WriteFile(sf, mustJSON([]json.RawMessage{spec}), 0o644); err != nil {
		panic("harness: " + err.Error())
	}
	var out []byte
	for attempt := 0; ; attempt++ {
		cmd := exec.Command(exe, "C18", "-specs", sf, "-out", dir, "-keep-coq")
		cmd.Env = append(os.Environ(), "C18_CHILD=1")
		out, err = cmd.CombinedOutput()
		if err == nil {
			break
		}
		if _, exited := err.(*exec.ExitError); exited || attempt >= 2 {
			// the child ran and died (or cannot be started at all)
			return nil, err.Error() + ": " + string(out)
		}
	}
	b, err := os.ReadFile(filepath.Join(dir, "cases.json"))
	if err != nil {
		return nil, "no result: " + err.Error()
	}
	var recs []c18ChildRec
	if err := json.Unmarshal(b, &recs); err != nil || len(recs) != 1 {
		// a panic outside the observed steps is set aside by the child's main loop
		if cb, e2 := os.ReadFile(filepath.Join(dir, "crashes.json")); e2 == nil {
			return nil, "the child set the case aside: " + string(cb)
		}
		return nil, "unreadable result"
	}
	return &recs[0], ""
}

// pieces of one volume run are started together and collected one by one;
// only when this process runs the generated list (Gen was called), not for a
// replay or a shrink step of one piece
var c18AllPieces = false

var c18Futures = struct {
	sync.Mutex
	m map[string]chan c18ChildResult
}{m: map[string]chan c18ChildResult{}}

type c18ChildResult struct {
	rec *c18ChildRec
	why string
}

func c18PieceSpec(sp C18Spec, j int) C18Spec {
	c := sp
	v := *sp.Vol
	v.Piece = j
	v.Fam = j % len(c18VolUnits)
	v.Lo = j * v.Each
	v.Hi = (j + 1) * v.Each
	v.Upd = 0
	if j%2 == 1 {
		v.Upd = 4
	}
	c.Vol = &v
	return c
}

func c18ChildFor(spec json.RawMessage, sp C18Spec) (*c18ChildRec, string) {
	v := sp.Vol
	if !c18AllPieces || v == nil || v.Pieces <= 1 || v.Each <= 0 || v.Lo != v.Piece*v.Each || v.Hi != (v.Piece+1)*v.Each || mustJSONString(c18PieceSpec(sp, v.Piece)) != mustJSONString(sp) {
		return c18Child(spec)
	}
	c18Futures.Lock()
	ch, ok := c18Futures.m[sp.key()]
	if !ok {
		// the first piece to be asked for starts all that follow it
		for j := v.Piece; j < v.Pieces; j++ {
			pj := c18PieceSpec(sp, j)
			cj := make(chan c18ChildResult, 1)
			c18Futures.m[pj.key()] = cj
			go func(raw json.RawMessage) {
				r, why := c18Child(raw)
				cj <- c18ChildResult{r, why}
			}(mustJSON(pj))
		}
		ch = c18Futures.m[sp.key()]
	}
	delete(c18Futures.m, sp.key())
	c18Futures.Unlock()
	r := <-ch
	return r.rec, r.why
}

// ---------------------------------------------------------------- locating the earlier cell

// c18Locate: the spec's history makes a cell deviate.  Which earlier cell is
// to blame?  Every probe is a fresh process that plays a sub-range of the
// stream and then makes the subject's cell.  Returns smaller specs that still
// deviate, smallest last.
func c18Locate(sp C18Spec) []C18Spec {
	v := sp.Vol
	if v == nil {
		return nil
	}
	probe := func(c C18Spec) (bool, int) {
		rec, _ := c18Child(mustJSON(c))
		if rec == nil {
			return false, 0
		}
		var o struct {
			Sig    string `json:"sig"`
			Before int    `json:"cells_made_before"`
		}
		if json.Unmarshal(rec.Observed, &o) != nil {
			return false, 0
		}
		return o.Sig == c18SigAfter, o.Before
	}
	mk := func(lo, hi, target int) C18Spec {
		c := C18Spec{Kind: 0, Vol: &C18Vol{Seed: v.Seed, Fam: v.Fam, Lo: lo, Hi: hi, Target: target, Upd: v.Upd}}
		return c
	}
	var out []C18Spec
	lo, hi, target := v.Lo, v.Hi, v.Target
	if target < 0 {
		// find the subject: the index of the first cell that deviates
		one := sp
		vv := *v
		vv.Pieces, vv.Piece, vv.Each = 0, 0, 0
		one.Vol = &vv
		dev, before := probe(one)
		if !dev {
			return nil
		}
		target = v.Lo + before
		hi = target
	}
	if ok, _ := probe(mk(lo, hi, target)); !ok {
		return nil
	}
	out = append(out, mk(lo, hi, target))
	for hi-lo > 1 {
		mid := lo + (hi-lo)/2
		if ok, _ := probe(mk(lo, mid, target)); ok {
			hi = mid
		} else if ok, _ := probe(mk(mid, hi, target)); ok {
			lo = mid
		} else {
			break
		}
		out = append(out, mk(lo, hi, target))
	}
	if hi-lo <= 8 {
		// small enough to be written out: the earlier texts, then the subject
		c := c18Spec(c18VolText(v.Seed, v.Fam, target), 0)
		for i := lo; i < hi; i++ {
			c.Pre = append(c.Pre, []byte(c18VolText(v.Seed, v.Fam, i)))
			c.PreQ = append(c.PreQ, fmt.Sprintf("%q", c18VolText(v.Seed, v.Fam, i)))
		}
		if ok, _ := probe(c); ok {
			out = append(out, c)
		}
	}
	return out
}

const c18SigAfter = "cell-made-after-other-cells"

// ---------------------------------------------------------------- small families for lossy shortcuts

// texts that a shortcut keyed by less than the whole text would confuse: same
// bytes in another order (line breaks moved), same length with the same head
// and tail, same length and same number of runes, one byte changed
func c18Confusable(r *RNG) [][]string {
	var out [][]string
	heads := []string{"total: ", "世界 ", "ab\ncd ", ""}
	tails := []string{" (end)", " \u00e9", "\nzz", ""}
	for i := 0; i < 6; i++ {
		h, t := pick(r, heads), pick(r, tails)
		a := h + "wide wide" + t
		b := h + "世界世" + t                   // 9 bytes, 6 cells
		c := h + "a\nb\nc\nd\ne" + t         // 9 bytes, 5 lines
		d := h + "e\u0301e\u0301e\u0301" + t // 9 bytes, 3 cells
		out = append(out, []string{a, b, c, d}, []string{d, c, b, a})
	}
	// anagrams: the same bytes, the breaks elsewhere
	base := []string{"aaaa", "\n", "bb", "\n", "世", "c"}
	for i := 0; i < 6; i++ {
		var seq []string
		for j := 0; j < 4; j++ {
			p := append([]string{}, base...)
			for k := len(p) - 1; k > 0; k-- {
				q := r.Intn(k + 1)
				p[k], p[q] = p[q], p[k]
			}
			seq = append(seq, strings.Join(p, ""))
		}
		out = append(out, seq)
	}
	// one byte changed; same length and rune count, other width
	out = append(out,
		[]string{"abcdefgh", "abcd\nfgh", "abcdefgh"},
		[]string{"\u00e9\u00e9\u00e9\u00e9", "\u00e9\u00e9\u0301\u00e9", "\u00e9\u00e9\u00e9\u00e9"},
		[]string{"ｱｲｳ", "世界日", "\u200b\u200b\u200b", "ｱｲｳ"},
		[]string{"x", "y", "x\n", "\nx", "x"},
		[]string{"same", "same", "same\n", "same"},
		// the same first line, the same last line
		[]string{"title\nshort", "title\na much longer second line", "title\nshort"},
		[]string{"x\ncommon tail", "a very long first line\ncommon tail", "x\ncommon tail"},
		[]string{"k\n\u4e16\u754c\u4e16\u754c\nend", "k\nabcdefgh\nend", "k\n\u4e16\u754c\u4e16\u754c\nend"},
	)
	return out
}

// ---------------------------------------------------------------- generators

func c18FailSpec(s string, kind int, next []string, fails []bool, how int) C18Spec {
	sp := c18SpecFull(s, kind, next, 0)
	sp.Fails, sp.FailHow = fails, how
	return sp
}

// items whose text method fails: at creation (every way of failing, every
// method), and in the life of a long-lived cell - every pattern of failing and
// healthy calls over three updates, the text growing and shrinking in between
func c18GenFailing(tier string) []C18Spec {
	var out []C18Spec
	texts := []string{"", "a", "ab\ncd", "世界\nx\n", "wide wide wide"}
	for _, kind := range []int{1, 2, 3} {
		for how := 1; how <= c18FailHows; how++ {
			out = append(out, c18FailSpec(texts[(kind+how)%len(texts)], kind, nil, []bool{true}, how))
		}
		// and the caller tries again on whatever came out
		out = append(out, c18FailSpec("ab", kind, []string{"longer\ntext", "x"}, []bool{true, false, true}, 1+kind))
	}
	chains := [][]string{
		{"a much longer text", "x\ny\nz", ""},
		{"", "世界世界", "a"},
		{"l1\nl2\nl3\nl4", "é", "back to one wide line"},
	}
	i := 0
	for _, kind := range []int{1, 5, 2, 3} {
		for pat := 1; pat < 8; pat++ {
			fails := []bool{false, pat&1 != 0, pat&2 != 0, pat&4 != 0}
			for ci, ch := range chains {
				if tier != "thorough" && kind != 1 && kind != 5 && (pat+ci)%3 != 0 {
					continue
				}
				out = append(out, c18FailSpec(texts[i%len(texts)], kind, ch, fails, 1+i%6))
				i++
			}
		}
	}
	// fails again and again, then recovers; never healthy after the first text
	out = append(out,
		c18FailSpec("n=42", 1, []string{"n=?", "n=??", "n=???", "n=1234567"}, []bool{false, true, true, true, false}, 1),
		c18FailSpec("short", 5, []string{"this text is never shown", "nor this one\nwith two lines"}, []bool{false, true, true}, 2),
		c18FailSpec("", 1, []string{"from empty"}, []bool{false, true}, 3),
		c18FailSpec("two\nlines", 2, []string{""}, []bool{false, true}, 4),
	)
	return out
}

// cells made after other cells of the same process
func c18GenHistories(r *RNG, tier string) []C18Spec {
	var out []C18Spec
	for _, seq := range c18Confusable(r) {
		sp := c18Spec(seq[len(seq)-1], 0)
		for _, t := range seq[:len(seq)-1] {
			sp.Pre = append(sp.Pre, []byte(t))
			sp.PreQ = append(sp.PreQ, fmt.Sprintf("%q", t))
		}
		out = append(out, sp)
	}
	// volume: pieces of one stream, started together, each in its own process
	pieces, each := 12, 200000
	if tier == "thorough" {
		pieces, each = 16, 1000000
	}
	c18AllPieces = true
	base := C18Spec{Vol: &C18Vol{Seed: r.U64() >> 16, Target: -1, Pieces: pieces, Each: each}}
	for j := 0; j < pieces; j++ {
		out = append(out, c18PieceSpec(base, j))
	}
	return out
}

func mustJSONString(v interface{}) string { return string(mustJSON(v)) }
