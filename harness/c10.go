package main

// C10: a table renders the same whatever wrapper created it or is wrapped
// around it, through every entry point.

import (
	"bytes"
	"encoding/json"
	"fmt"
	htmltemplate "html/template"
	"io"
	"sync"

	"go.pennock.tech/tabular"
	"go.pennock.tech/tabular/auto"
	"go.pennock.tech/tabular/csv"
	"go.pennock.tech/tabular/html"
	tjson "go.pennock.tech/tabular/json"
	"go.pennock.tech/tabular/markdown"
	"go.pennock.tech/tabular/texttable"
	"go.pennock.tech/tabular/texttable/decoration"
)

var c10Paths = []string{"core", "csv.New", "html.New", "json.New", "markdown.New", "texttable.New",
	"auto:csv", "auto:HTML", "auto:json.x", "auto:markdown", "auto:utf8-light", "auto:texttable.ascii-simple", "auto:none", "auto:texttable"}

var c10Kinds = []string{"csv", "html", "json", "markdown", "text"}

func c10Create(path string) tabular.Table {
	switch path {
	case "core":
		return tabular.New()
	case "csv.New":
		return csv.New()
	case "html.New":
		return html.New()
	case "json.New":
		return tjson.New()
	case "markdown.New":
		return markdown.New()
	case "texttable.New":
		return texttable.New()
	}
	return auto.New(path[len("auto:"):])
}

func c10WrapKind(t tabular.Table, k string) tabular.Table {
	switch k {
	case "csv":
		return csv.Wrap(t)
	case "html":
		return html.Wrap(t)
	case "json":
		return tjson.Wrap(t)
	case "markdown":
		return markdown.Wrap(t)
	case "text":
		return texttable.Wrap(t)
	}
	panic("kind " + k)
}

// C10Variant: one way of getting from the table spec to bytes of the format.
type C10Variant struct {
	Path       string   `json:"path"`
	Nest       []string `json:"nest,omitempty"`
	BuildFirst bool     `json:"build_first"`   // build through the created object before nesting (else through the outermost wrapper)
	Entry      int      `json:"entry"`         // 0 Wrap.Render 1 pkg Render 2 Wrap.RenderTo 3 auto.Render 4 pkg RenderTo 5 auto.RenderTo (2, 4, 5 into a *bytes.Buffer); 6, 7, 8 = 2, 4, 5 into a writer that is an io.Writer and nothing more; 9, 10 auto.Wrap(t, style).Render / RenderTo; 11 the created (outermost) object itself when it is of the target's kind, given the target's options (else as 0); with Retune > 0 or from 9 on, Entry%3 picks Render / RenderTo into a buffer / into a plain writer (c10_r6.go)
	Pre        []string `json:"pre,omitempty"` // formats rendered (and discarded) from the same object before the target
	// Poison: before anything else, renders of ANOTHER table fail in every format
	// (json on an unencodable item; the others on a failing writer)
	Poison bool `json:"poison,omitempty"`
	// TargetFirst: the target format's wrapper is made before the Pre renders
	// (and before any later Wrap registers its callbacks) and used at the end
	TargetFirst bool `json:"target_first,omitempty"`
	// Reentrant (html with a row-class generator): the generator renders another table
	Reentrant bool `json:"reentrant,omitempty"`
	// Tune (bit set): other holders of the same table obtain wrappers of the
	// target's kind of their own - right after the nesting, i.e. around the
	// still empty table when the build comes later - and set them up for their
	// own purposes with every public option the kind has (html: Caption, Class,
	// Id, a row-class generator; text: another decoration); the target render
	// is a default-options (or own-options) rendering and must not notice.
	// 1: wrappers from the kind's own Wrap; 2: wrappers from auto.Wrap under
	// every spelling of the style; 4: the created object itself and every
	// nesting layer; 8: each of them renders once (after the mutations, just
	// before the target); 16: and once right after being set up; 32: the same
	// holders also keep wrappers, set up alike, around ANOTHER table.
	Tune int `json:"tune,omitempty"`
	// StageRenders: while the table is being filled, after each body row listed in
	// the table's Stages every wrapper object that exists by then (the created
	// object and, when the build comes after the nesting, every layer) renders
	// the partial table once
	StageRenders bool `json:"stage_renders,omitempty"`
	// Sty shifts the choice among the spellings of the style string that the
	// auto entry points are given
	Sty int `json:"sty,omitempty"`
	// Retune (c10_r6.go): the wrapper object the target render goes through has a
	// history of its own: it is given other options and renders, that many
	// times, before it is given the target's options and renders for the comparison
	Retune int `json:"retune,omitempty"`
	// ObsLate (c10_r6.go): the spec's observer callbacks are all registered after
	// nesting and building (else those on the table and its default column are
	// registered on the created object before anything else happens to it)
	ObsLate bool `json:"obs_late,omitempty"`
}

// rendersBefore: something renders the table before the target render does
func (v C10Variant) rendersBefore() bool {
	return len(v.Pre) > 0 || v.Tune&24 != 0 || v.StageRenders || v.Retune > 0
}

var c10Once sync.Once

// an application-registered decoration whose name has upper-case letters
func c10Register() {
	c10Once.Do(func() {
		d := decoration.UTF8BoxLight()
		d.TopLeft, d.TopRight = "*", "*"
		decoration.RegisterDecorationName("Acme-Box", d)
		// late plug-in registration: two dotted style names are USED through every
		// auto entry point before they are registered (one while nothing of it is
		// known, one while only its first section is), and registered afterwards
		d2 := decoration.UTF8BoxHeavy()
		d2.TopLeft, d2.TopRight = "#", "#"
		decoration.RegisterDecorationName("c10pre", d2)
		early := tabular.New()
		early.AddHeaders("h")
		early.AddRowItems("v")
		for _, style := range []string{"c10late.framed", "texttable.c10late.framed", "c10pre.boxed", "texttable.c10pre.boxed"} {
			style := style
			capture(func() (string, error) { return auto.Render(early, style) })
			capture(func() (string, error) { return "", auto.RenderTo(early, &collectWriter{failAt: -1}, style) })
			capture(func() (string, error) { return auto.Wrap(early, style).Render() })
			capture(func() (string, error) { return auto.New(style).Render() })
		}
		d3 := decoration.UTF8BoxDouble()
		d3.TopLeft, d3.TopRight = "+", "+"
		decoration.RegisterDecorationName("c10late.framed", d3)
		d4 := decoration.UTF8BoxLightCurved()
		d4.TopLeft, d4.TopRight = "@", "@"
		decoration.RegisterDecorationName("c10pre.boxed", d4)
	})
}

// c10Summary: an item whose text is worked out when the table is rendered, by
// a render-time callback registered on its cell.
type c10Summary struct{ text string }

func (s *c10Summary) String() string { return s.text }

type c10Fill struct{ t tabular.Table }

func (f c10Fill) UpdateProperties(po tabular.PropertyOwner) error {
	cell, ok := po.(*tabular.Cell)
	if !ok {
		return nil
	}
	if sm, ok := cell.Item().(*c10Summary); ok {
		sm.text = fmt.Sprintf("of %d rows in all", f.t.NRows())
		cell.Update()
	}
	return nil
}

// c10AddFill appends a row whose last cell fills itself in at render time.
func c10AddFill(obj tabular.Table, how int) {
	obj.AddRowItems("total", &c10Summary{text: "-"})
	cell, err := obj.CellAt(tabular.CellLocation{Row: obj.NRows(), Column: 2})
	if err != nil {
		return
	}
	switch how {
	case 4:
		// registered through another table object (a helper's scratch table)
		tabular.New().RegisterPropertyCallback(cell, tabular.CB_AT_RENDER, tabular.CB_ON_ITSELF, c10Fill{obj})
	case 1:
		obj.RegisterPropertyCallback(cell, tabular.CB_AT_RENDER, tabular.CB_ON_ITSELF, c10Fill{obj})
	case 2:
		obj.RegisterPropertyCallback(obj, tabular.CB_AT_RENDER_POSTCELL, tabular.CB_ON_CELL, c10Fill{obj})
	default:
		if rows := obj.AllRows(); len(rows) > 0 {
			obj.RegisterPropertyCallback(rows[len(rows)-1], tabular.CB_AT_RENDER_POSTCELL, tabular.CB_ON_CELL, c10Fill{obj})
		}
	}
}

func c10Poison() {
	bad := tabular.New()
	bad.AddHeaders("h1", "h2")
	bad.AddRowItems("fine", "too")
	bad.AddRowItems("x", make(chan int))
	capture(func() (string, error) { return tjson.Render(bad) })
	for _, w := range []RenderW{csv.Wrap(bad), markdown.Wrap(bad), html.Wrap(bad), texttable.Wrap(bad), tjson.Wrap(bad)} {
		w := w
		capture(func() (string, error) { return "", w.RenderTo(&collectWriter{failAt: -2}) })
	}
}

type C10Spec struct {
	Table    TableSpec    `json:"table"`
	Fmt      string       `json:"fmt"` // csv html json markdown text
	Decor    string       `json:"decor,omitempty"`
	Variants []C10Variant `json:"variants"`
	// Fill (1..3): the table ends with a row whose last cell is filled in by a
	// render-time callback of the application (on the cell at render time / on
	// the table for every cell after the cell's own / on the row for its cells, post-cell)
	Fill int `json:"fill,omitempty"`
	// HdrMut: the header items are mutable Stringers; after the build (and, for
	// variants that made the target's wrapper early, after one render through
	// it) every header item gets a new text and its cell is updated in place
	// (Headers()[i].Update()); what is compared is the render after that.
	HdrMut bool `json:"hdr_mut,omitempty"`
	// Obs (c10_r6.go): application callbacks that only observe (and may report an error)
	Obs []C10Obs `json:"obs,omitempty"`
}

// c10MutateHeader changes every mutable header item and updates its cell.
func c10MutateHeader(t tabular.Table, objs map[[2]int]*objData) {
	h := t.Headers()
	for i := range h {
		if od := objs[[2]int{-1, i}]; od != nil {
			od.s = "new-" + od.s
			h[i].Update()
		}
	}
}

// c10Styles: the spellings of the style string under which auto is
// documented to produce the target format with the target's options.
func c10Styles(sp C10Spec) []string {
	switch sp.Fmt {
	case "text":
		if sp.Decor == "" {
			// the default decoration: by its name, qualified, and as the bare package name
			return []string{"utf8-heavy", "texttable.utf8-heavy", "texttable", "TextTable"}
		}
		return []string{sp.Decor, "texttable." + sp.Decor}
	case "json":
		return []string{"json", "JSON.whatever"}
	case "csv":
		return []string{"csv", "Csv"}
	case "html":
		return []string{"html", "HTML"}
	case "markdown":
		return []string{"markdown", "Markdown"}
	}
	return []string{sp.Fmt}
}

func c10StyleN(sp C10Spec, n int) string {
	st := c10Styles(sp)
	if n < 0 {
		n = -n
	}
	return st[n%len(st)]
}

func c10Style(sp C10Spec, alt bool) string {
	if alt {
		return c10StyleN(sp, 1)
	}
	return c10StyleN(sp, 0)
}

func c10Render(sp C10Spec, v C10Variant) Outcome {
	c10Register()
	return capture(func() (string, error) {
		if v.Poison {
			c10Poison()
		}
		obj := c10Create(v.Path)
		if !v.ObsLate {
			c10RegisterObs(sp.Obs, obj, v.ObsLate, 0)
		}
		var objs map[[2]int]*objData
		layers := []tabular.Table{obj}
		var stage func()
		if v.StageRenders {
			stage = func() {
				for _, l := range layers {
					if rw, ok := l.(RenderW); ok {
						capture(rw.Render)
					}
				}
			}
		}
		if v.BuildFirst {
			objs = sp.Table.buildStaged(obj, stage)
			if sp.Fill > 0 {
				c10AddFill(obj, sp.Fill)
			}
		}
		for _, k := range v.Nest {
			obj = c10WrapKind(obj, k)
			layers = append(layers, obj)
		}
		var tuned []RenderW
		if v.Tune != 0 {
			tuned = c10Tune(sp, v.Tune, obj, layers)
		}
		if !v.BuildFirst {
			objs = sp.Table.buildStaged(obj, stage)
			if sp.Fill > 0 {
				c10AddFill(obj, sp.Fill)
			}
		}
		c10RegisterObs(sp.Obs, obj, v.ObsLate, 1)
		setGen := func(ht *html.HTMLTable) {
			if sp.Decor == "gen" {
				ht.SetRowClassGenerator(func(n int, _ interface{}) htmltemplate.HTMLAttr {
					if v.Reentrant {
						other := tabular.New()
						other.AddHeaders("o1", "o2")
						other.AddRowItems("inner", n)
						capture(func() (string, error) { return html.Wrap(other).Render() })
					}
					return htmltemplate.HTMLAttr(fmt.Sprintf("r%d", n))
				}, nil)
			}
		}
		htmlWrap := func() *html.HTMLTable {
			ht := html.Wrap(obj)
			setGen(ht)
			return ht
		}
		var early RenderW
		if v.TargetFirst {
			switch sp.Fmt {
			case "csv":
				early = csv.Wrap(obj)
			case "html":
				early = htmlWrap()
			case "json":
				early = tjson.Wrap(obj)
			case "markdown":
				early = markdown.Wrap(obj)
			case "text":
				tt := texttable.Wrap(obj)
				if sp.Decor != "" {
					tt.SetDecorationNamed(sp.Decor)
				}
				early = tt
			}
		}
		for _, k := range v.Pre {
			pre := k
			capture(func() (string, error) {
				switch pre {
				case "csv":
					return csv.Render(obj)
				case "html":
					return html.Wrap(obj).Render()
				case "json":
					return tjson.Render(obj)
				case "markdown":
					return markdown.Render(obj)
				case "text":
					return texttable.Render(obj)
				}
				// "auto:N" / "autoto:N": the auto entry points under the N-th spelling of the target's style
				var n int
				if _, err := fmt.Sscanf(pre, "auto:%d", &n); err == nil {
					return auto.Render(obj, c10StyleN(sp, n))
				}
				if _, err := fmt.Sscanf(pre, "autoto:%d", &n); err == nil {
					return "", auto.RenderTo(obj, &collectWriter{failAt: -1}, c10StyleN(sp, n))
				}
				return texttable.Render(obj)
			})
		}
		toBuf := func(f func(w *bytes.Buffer) error) (string, error) {
			b := &bytes.Buffer{}
			if err := f(b); err != nil {
				return "", err
			}
			return b.String(), nil
		}
		// a destination that is an io.Writer and nothing more
		toPlain := func(f func(w io.Writer) error) (string, error) {
			cw := &collectWriter{failAt: -1}
			if err := f(cw); err != nil {
				return "", err
			}
			return string(cw.acc), nil
		}
		if sp.HdrMut {
			// the header changes in place between two renders of the same object
			if early != nil {
				capture(early.Render)
			}
			c10MutateHeader(obj, objs)
		}
		if len(sp.Table.Mutations) > 0 {
			// items change in place (and their cells are updated) between two renders of the same object
			if early != nil {
				capture(early.Render)
			}
			c10Mutate(obj, sp.Table, objs)
		}
		if v.Tune&8 != 0 {
			for _, w := range tuned {
				capture(w.Render)
			}
		}
		entry := v.Entry
		if v.Retune > 0 || entry >= 9 {
			return c10RenderOwn(sp, v, obj, early, setGen)
		}
		if early != nil {
			switch entry % 3 {
			case 0:
				return early.Render()
			case 1:
				return toBuf(func(w *bytes.Buffer) error { return early.RenderTo(w) })
			}
			return toPlain(func(w io.Writer) error { return early.RenderTo(w) })
		}
		if entry >= 6 {
			// entries 6..8: entries 2, 4, 5 writing into a plain io.Writer
			plainOf := map[int]int{6: 2, 7: 4, 8: 5}[entry]
			if sp.Fmt == "html" && plainOf == 4 {
				plainOf = 2
			}
			if sp.Fmt == "html" && sp.Decor == "gen" && plainOf == 5 {
				plainOf = 2
			}
			if sp.Fmt == "text" && sp.Decor != "" && plainOf == 4 {
				plainOf = 2
			}
			switch plainOf {
			case 5:
				return toPlain(func(w io.Writer) error { return auto.RenderTo(obj, w, c10StyleN(sp, len(v.Nest)+1+v.Sty)) })
			case 4:
				switch sp.Fmt {
				case "csv":
					return toPlain(func(w io.Writer) error { return csv.RenderTo(obj, w) })
				case "json":
					return toPlain(func(w io.Writer) error { return tjson.RenderTo(obj, w) })
				case "markdown":
					return toPlain(func(w io.Writer) error { return markdown.RenderTo(obj, w) })
				default:
					return toPlain(func(w io.Writer) error { return texttable.RenderTo(obj, w) })
				}
			}
			switch sp.Fmt {
			case "csv":
				return toPlain(func(w io.Writer) error { return csv.Wrap(obj).RenderTo(w) })
			case "html":
				return toPlain(func(w io.Writer) error { return htmlWrap().RenderTo(w) })
			case "json":
				return toPlain(func(w io.Writer) error { return tjson.Wrap(obj).RenderTo(w) })
			case "markdown":
				return toPlain(func(w io.Writer) error { return markdown.Wrap(obj).RenderTo(w) })
			}
			return toPlain(func(w io.Writer) error {
				tt := texttable.Wrap(obj)
				if sp.Decor != "" {
					tt.SetDecorationNamed(sp.Decor)
				}
				return tt.RenderTo(w)
			})
		}
		if sp.Fmt == "html" && (entry == 1 || entry == 4) {
			entry -= 1 // html has no package-level functions
		}
		if sp.Fmt == "html" && sp.Decor == "gen" && entry >= 3 {
			entry -= 3 // auto cannot carry a generator
		}
		if sp.Fmt == "text" && sp.Decor != "" && (entry == 1 || entry == 4) {
			entry -= 1 // package-level functions use the default decoration
		}
		switch entry {
		case 3:
			return auto.Render(obj, c10StyleN(sp, len(v.Nest)+v.Sty))
		case 5:
			return toBuf(func(w *bytes.Buffer) error { return auto.RenderTo(obj, w, c10StyleN(sp, len(v.Nest)+1+v.Sty)) })
		}
		switch sp.Fmt {
		case "csv":
			switch entry {
			case 0:
				return csv.Wrap(obj).Render()
			case 1:
				return csv.Render(obj)
			case 2:
				return toBuf(func(w *bytes.Buffer) error { return csv.Wrap(obj).RenderTo(w) })
			default:
				return toBuf(func(w *bytes.Buffer) error { return csv.RenderTo(obj, w) })
			}
		case "html":
			if entry == 0 {
				return htmlWrap().Render()
			}
			return toBuf(func(w *bytes.Buffer) error { return htmlWrap().RenderTo(w) })
		case "json":
			switch entry {
			case 0:
				return tjson.Wrap(obj).Render()
			case 1:
				return tjson.Render(obj)
			case 2:
				return toBuf(func(w *bytes.Buffer) error { return tjson.Wrap(obj).RenderTo(w) })
			default:
				return toBuf(func(w *bytes.Buffer) error { return tjson.RenderTo(obj, w) })
			}
		case "markdown":
			switch entry {
			case 0:
				return markdown.Wrap(obj).Render()
			case 1:
				return markdown.Render(obj)
			case 2:
				return toBuf(func(w *bytes.Buffer) error { return markdown.Wrap(obj).RenderTo(w) })
			default:
				return toBuf(func(w *bytes.Buffer) error { return markdown.RenderTo(obj, w) })
			}
		case "text":
			mk := func() *texttable.TextTable {
				tt := texttable.Wrap(obj)
				if sp.Decor != "" {
					tt.SetDecorationNamed(sp.Decor)
				}
				return tt
			}
			switch entry {
			case 0:
				return mk().Render()
			case 1:
				return texttable.Render(obj)
			case 2:
				return toBuf(func(w *bytes.Buffer) error { return mk().RenderTo(w) })
			default:
				return toBuf(func(w *bytes.Buffer) error { return texttable.RenderTo(obj, w) })
			}
		}
		panic("fmt " + sp.Fmt)
	})
}

func c10Variants(r *RNG, tier string) []C10Variant {
	vs := []C10Variant{{Path: "core", BuildFirst: true, Entry: 0}} // the reference
	n := 0
	add := func(p string, nest []string) {
		vs = append(vs, C10Variant{Path: p, Nest: nest, BuildFirst: n%3 != 0, Entry: n % 9})
		n++
	}
	for _, p := range c10Paths {
		add(p, nil)
		for _, k := range c10Kinds {
			add(p, []string{k})
		}
	}
	// every entry point on three paths
	for _, p := range []string{"core", "csv.New", "auto:utf8-light"} {
		for e := 0; e < 9; e++ {
			vs = append(vs, C10Variant{Path: p, BuildFirst: true, Entry: e})
			vs = append(vs, C10Variant{Path: p, Nest: []string{"markdown", "json"}, BuildFirst: false, Entry: e})
		}
	}
	// other formats rendered from the very same object first
	for i, p := range c10Paths {
		for j, k := range c10Kinds {
			vs = append(vs, C10Variant{Path: p, BuildFirst: true, Entry: (i + j) % 6, Pre: []string{k}})
		}
		vs = append(vs, C10Variant{Path: p, Nest: []string{c10Kinds[i%5]}, BuildFirst: i%2 == 0, Entry: i % 6, Pre: []string{"text", "markdown", "text"}})
		vs = append(vs, C10Variant{Path: p, BuildFirst: true, Entry: (i + 3) % 6, Pre: []string{"markdown", "text", "csv"}})
	}
	// failed renders of another table first; the target's wrapper made early; a re-entrant generator
	for i, p := range c10Paths {
		vs = append(vs, C10Variant{Path: p, BuildFirst: true, Entry: i % 6, Poison: true})
		vs = append(vs, C10Variant{Path: p, BuildFirst: i%2 == 0, Entry: (i % 2) * 2, TargetFirst: true, Pre: []string{"text", "text", "markdown"}})
		vs = append(vs, C10Variant{Path: p, BuildFirst: true, Entry: 2 - (i%2)*2, TargetFirst: true, Pre: []string{"markdown", "text", "text"}, Nest: []string{c10Kinds[i%5]}})
		vs = append(vs, C10Variant{Path: p, BuildFirst: true, Entry: (i % 2) * 2, Reentrant: true})
	}
	// many wrappers / many package-level renders before the target (each leaves a
	// callback on the core table): 17, 40 and 130 of one measuring kind
	rep := func(k string, n int) []string {
		out := make([]string, n)
		for i := range out {
			out[i] = k
		}
		return out
	}
	for i, cnt := range []int{17, 40, 130} {
		for j, k := range []string{"text", "markdown"} {
			vs = append(vs, C10Variant{Path: c10Paths[(i+j)%2*3], BuildFirst: true, Entry: (i + 2*j) % 6, Pre: rep(k, cnt)})
			vs = append(vs, C10Variant{Path: "core", Nest: rep(k, cnt), BuildFirst: j == 0, Entry: (i + j) % 3 * 2})
		}
	}
	mixed := append(append(rep("text", 9), rep("markdown", 9)...), "csv", "json", "html")
	vs = append(vs, C10Variant{Path: "core", BuildFirst: true, Entry: 1, Pre: mixed})
	vs = append(vs, C10Variant{Path: "texttable.New", Nest: mixed, BuildFirst: false, Entry: 0})
	// depth 2 and 3 nestings
	deep := 12
	if tier == "thorough" {
		deep = 14 * 25
	}
	for i := 0; i < deep; i++ {
		p := c10Paths[i%len(c10Paths)]
		var nest []string
		if tier == "thorough" {
			nest = []string{c10Kinds[(i/14)%5], c10Kinds[(i/70)%5]}
			if r.Pct(30) {
				nest = append(nest, pick(r, c10Kinds))
			}
		} else {
			nest = []string{pick(r, c10Kinds), pick(r, c10Kinds), pick(r, c10Kinds)}[:2+r.Intn(2)]
		}
		add(p, nest)
	}
	vs = append(vs, c10MoreVariants(r)...)
	vs = append(vs, c10R6Variants(r, tier)...)
	return vs
}

func c10Text(r *RNG) ItemSpec {
	return Str(pick(r, []string{"a", "bb", "x y", "", "q\"r", "l1\nl2", "é", "<&>", "p|q", "1,2", "日本", "wide　x", "caf\xe9", "\xff\xfe b"}))
}

var c10Fmts = []struct{ f, d string }{{"csv", ""}, {"html", ""}, {"html", "gen"}, {"json", ""}, {"markdown", ""}, {"text", ""}, {"text", "ascii-simple"}, {"text", "Acme-Box"},
	{"text", "c10late.framed"}, {"text", "c10pre.boxed"}}

func init() {
	kindCode := map[string]int{"csv": 0, "html": 1, "json": 2, "markdown": 3, "text": 4}
	register(&Prop{
		ID:       "C10",
		Imports:  "From Tab Require Import Run.Glue Run.C10Run.",
		CaseType: "(nat * view * list (res (list N)) * list nat)",
		CaseFn:   "C10_case2",
		ModelFn:  "C10_model2",
		Rule: "for each table (fixed shapes + random) and each target format (csv, html, json, markdown, text default decoration, text ascii-simple) the same TableSpec is built and rendered along many paths: " +
			"14 creation paths (tabular.New, the five sub-package New, auto.New of 8 style strings) x nestings of further wrappers (depth 0 and 1 exhaustively over the 5 kinds, deeper ones sampled) x building before or after nesting x other formats rendered from the same object first (each single format on every path, two mixed sequences) x 6 entry points " +
			"(Wrap(t).Render, package Render, Wrap(t).RenderTo into a buffer, auto.Render, package RenderTo, auto.RenderTo, and the three RenderTo forms into a writer that is an io.Writer and nothing more; style strings in several spellings); the first variant is the reference (core table, the format's own Wrap(t).Render()); " +
			"17 / 40 / 130 wrappers or package-level renders of one measuring kind before the target; two decorations whose dotted names were used through auto before they were registered; cells with invalid UTF-8; a cell filled in by the application's render-time callback (registered on the cell, on the table, on the row, or through another table object; each variant on a fresh table); header items changed in place (Update) between two renders of the target's wrapper; " +
			"header and body items changed in place after the build (Cell.Update; new text of the same display size, wider, narrower, taller, shorter, empty to non-empty and back, same width in other bytes; rows built by every method, late cells, a second AddHeaders) on every path, with and without a render before the change; " +
			"other holders' wrappers of the target's kind around the same table (from the kind's Wrap, from auto.Wrap under every spelling of the style, the created object and the nesting layers themselves, and around another table) set up with every public option (html Id/Class/Caption/TemplateName/row-class generator, text decoration by name and hand-made), made around the empty or the finished table, rendered or not, before the target render; " +
			"the bare style strings texttable / TextTable / HTML / Markdown; second and later auto.Render/RenderTo of one table; the partial table rendered after each row through every wrapper that exists by then; " +
			"a case is one (table, format) with all its variants; non-trivial when the reference render succeeds with non-empty output; distinct = distinct (format, reference output)",
		Exhaustive: "creation paths x nesting depth <= 1 for every (table, format)",
		Gen: func(r *RNG, tier string) []json.RawMessage {
			hdr := func(names ...string) *[]ItemSpec {
				h := make([]ItemSpec, len(names))
				for i, s := range names {
					h[i] = Str(s)
				}
				return &h
			}
			row := func(cells ...string) RowSpec {
				cs := make([]ItemSpec, len(cells))
				for i, s := range cells {
					cs[i] = Str(s)
				}
				return RowSpec{Cells: cs}
			}
			tables := []TableSpec{
				{Header: hdr("a", "b"), Rows: []RowSpec{row("1", "two"), {Sep: true}, row("x")}, Stages: []int{0, 1}},
				{Header: hdr("k", "v", "w"), Rows: []RowSpec{row("m\nl", "é", "3"), row("p", "q")}, Align: map[int]int{0: 2, 2: 3}, Skip: map[int]int{0: 1}, Stages: []int{0}},
				{Header: nil, Rows: []RowSpec{row("n1", "n2")}},
				{Header: hdr("n", "v\xe9"), Rows: []RowSpec{row("caf\xe9", "\xff"), row("ok", "b\x80c\"q")}}, // bytes that are not valid UTF-8
			}
			n := 2
			if tier == "thorough" {
				n = 40
			}
			for i := 0; i < n; i++ {
				ts := randTable(r, 3, 3, c10Text, []int{0, 0, 1, 3})
				w := 1
				for _, rw := range ts.Rows {
					if len(rw.Cells) > w {
						w = len(rw.Cells)
					}
				}
				h := make([]ItemSpec, w)
				for j := range h {
					h[j] = Str(fmt.Sprintf("h%d", j))
				}
				ts.Header = &h
				tables = append(tables, ts)
			}
			var out []json.RawMessage
			for _, ts := range tables {
				for _, fd := range c10Fmts {
					out = append(out, mustJSON(C10Spec{Table: ts, Fmt: fd.f, Decor: fd.d, Variants: c10Variants(r, tier)}))
				}
			}
			// a cell filled in by the application's own render-time callback
			for i, fd := range c10Fmts {
				if fd.d == "gen" || len(fd.d) > 12 {
					continue
				}
				// (each variant renders its own fresh table exactly once: an earlier
				// render would already have filled the cell in)
				var vs []C10Variant
				for _, v := range c10Variants(r, tier) {
					if !v.rendersBefore() {
						vs = append(vs, v)
					}
				}
				out = append(out, mustJSON(C10Spec{Table: tables[i%2], Fmt: fd.f, Decor: fd.d, Fill: 1 + i%4, Variants: vs}))
				if fd.f == "text" || fd.f == "markdown" {
					out = append(out, mustJSON(C10Spec{Table: tables[(i+1)%2], Fmt: fd.f, Decor: fd.d, Fill: 1 + (i+1)%4, Variants: vs}))
					out = append(out, mustJSON(C10Spec{Table: tables[i%2], Fmt: fd.f, Decor: fd.d, Fill: 1 + (i+2)%4, Variants: vs}))
					out = append(out, mustJSON(C10Spec{Table: tables[(i+1)%2], Fmt: fd.f, Decor: fd.d, Fill: 1 + (i+3)%4, Variants: vs}))
				}
			}
			for _, f := range []string{"csv", "html", "json"} {
				var vs []C10Variant
				for _, v := range c10Variants(r, tier) {
					if !v.rendersBefore() {
						vs = append(vs, v)
					}
				}
				out = append(out, mustJSON(C10Spec{Table: tables[0], Fmt: f, Fill: 4, Variants: vs}))
			}
			// headers changed in place between two renders of one wrapper
			for i, fd := range c10Fmts {
				if fd.d == "gen" || len(fd.d) > 12 {
					continue
				}
				ts := tables[i%2]
				h := make([]ItemSpec, len(*ts.Header))
				for j := range h {
					h[j] = ItemSpec{K: "obj", Mask: 1, S: []byte(fmt.Sprintf("hd%d", j))}
				}
				ts.Header = &h
				out = append(out, mustJSON(C10Spec{Table: ts, Fmt: fd.f, Decor: fd.d, HdrMut: true, Variants: c10Variants(r, tier)}))
			}
			// observer callbacks of the application, reporting errors or not (c10_r6.go)
			for _, sp := range c10R6Specs(r, tier, tables[:2]) {
				out = append(out, mustJSON(sp))
			}
			// items changed in place after they were added (every relation between the
			// old and the new text's sizes), on every path and through every entry point
			for i, ts := range c10MutTables(r) {
				for j, fd := range c10Fmts {
					if fd.d == "gen" || len(fd.d) > 12 {
						continue
					}
					if i >= 4 && (i+j)%2 == 0 && fd.f != "text" {
						continue
					}
					out = append(out, mustJSON(C10Spec{Table: ts, Fmt: fd.f, Decor: fd.d, Variants: c10Variants(r, tier)}))
				}
			}
			return out
		},
		Run: func(spec json.RawMessage) CaseOut {
			var sp C10Spec
			if err := json.Unmarshal(spec, &sp); err != nil {
				panic(err)
			}
			t := tabular.New()
			objs := sp.Table.buildStaged(t, nil)
			if sp.HdrMut {
				c10MutateHeader(t, objs)
			}
			c10Mutate(t, sp.Table, objs)
			if sp.Fill > 0 {
				c10AddFill(t, sp.Fill)
				t.InvokeRenderCallbacks() // the view a renderer reads after the callbacks have run
			}
			view := extractView(t)
			var outs, idx []string // the distinct outcomes, and each variant's index into them
			seen := map[string]int{}
			var ref Outcome
			type diff struct {
				Variant C10Variant
				Got     Outcome
			}
			var diffs []diff
			sig := ""
			for i, v := range sp.Variants {
				o := c10Render(sp, v)
				if i == 0 {
					ref = o
				} else if o.Kind != ref.Kind || !bytes.Equal(o.Out, ref.Out) {
					if len(diffs) < 4 {
						diffs = append(diffs, diff{v, o})
					}
					if sig == "" {
						sig = sp.Fmt + ":differs-from-reference"
					}
				}
				key := o.Kind + "\x00" + string(o.Out)
				k, ok := seen[key]
				if !ok {
					k = len(outs)
					seen[key] = k
					outs = append(outs, o.Coq())
				}
				idx = append(idx, cqNat(k))
			}
			desc := map[string]interface{}{"reference": ref, "variants": len(sp.Variants), "differing_shown": diffs, "sig": sig}
			tags := append(shapeTags(view), "fmt="+sp.Fmt, "ref="+ref.Kind)
			if sp.Decor != "" {
				tags = append(tags, "decor="+sp.Decor)
			}
			if sp.Fill > 0 {
				tags = append(tags, "cell-filled-by-render-callback")
			}
			return CaseOut{
				Coq:        fmt.Sprintf("(%s, %s, %s, %s)", cqNat(kindCode[sp.Fmt]), view.Coq(true), cqList(outs), cqList(idx)),
				Desc:       desc,
				Size:       sp.Table.Size()*100 + len(sp.Variants),
				Tags:       tags,
				Key:        sp.Fmt + sp.Decor + "|" + string(ref.Out) + ref.Kind,
				Nontrivial: ref.Kind == "ok" && len(ref.Out) > 0,
			}
		},
		Shrink: func(spec json.RawMessage) []json.RawMessage {
			var sp C10Spec
			if err := json.Unmarshal(spec, &sp); err != nil {
				return nil
			}
			var out []json.RawMessage
			with := func(ts TableSpec, vs []C10Variant) {
				c := sp
				c.Table, c.Variants = ts, vs
				out = append(out, mustJSON(c))
			}
			// keep the reference plus one variant at a time
			if len(sp.Variants) > 2 {
				for i := 1; i < len(sp.Variants); i++ {
					with(sp.Table, []C10Variant{sp.Variants[0], sp.Variants[i]})
				}
				return out
			}
			for _, ts := range shrinkTable(sp.Table) {
				with(ts, sp.Variants)
			}
			if len(sp.Variants) == 2 {
				v := sp.Variants[1]
				one := func(v2 C10Variant) { with(sp.Table, []C10Variant{sp.Variants[0], v2}) }
				for i := range v.Nest {
					v2 := v
					v2.Nest = append(append([]string{}, v.Nest[:i]...), v.Nest[i+1:]...)
					one(v2)
				}
				for i := range v.Pre {
					v2 := v
					v2.Pre = append(append([]string{}, v.Pre[:i]...), v.Pre[i+1:]...)
					one(v2)
				}
				for _, bit := range []int{1, 2, 4, 8, 16, 32} {
					if v.Tune&bit != 0 {
						v2 := v
						v2.Tune &^= bit
						one(v2)
					}
				}
				if v.Poison {
					v2 := v
					v2.Poison = false
					one(v2)
				}
				if v.StageRenders {
					v2 := v
					v2.StageRenders = false
					one(v2)
				}
				if v.TargetFirst {
					v2 := v
					v2.TargetFirst = false
					one(v2)
				}
				if v.Sty > 3 {
					v2 := v
					v2.Sty = v.Sty % 4
					one(v2)
				}
				if v.Retune > 0 {
					v2 := v
					v2.Retune--
					one(v2)
				}
				if v.ObsLate {
					v2 := v
					v2.ObsLate = false
					one(v2)
				}
			}
			if len(sp.Variants) <= 2 {
				for i := range sp.Obs {
					c := sp
					c.Obs = append(append([]C10Obs{}, sp.Obs[:i]...), sp.Obs[i+1:]...)
					out = append(out, mustJSON(c))
				}
			}
			return out
		},
	})
}
