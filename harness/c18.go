package main

// C18 - line and width metrics are mutually consistent.
//
// Per case: one string s and a way of storing it in a cell.  The real
// functions are run (length.Lines, String*, LongestLine*, Cell.String /
// Lines / Height / TerminalCellWidth) and their results are shipped together
// with oracle tables taken from the real go-runewidth / uniseg: the grapheme
// clusters of s and of each of its lines, and RuneWidth of every rune.

import (
	"encoding/json"
	"fmt"
	"os"
	"sort"
	"strings"
	"sync"
	"unicode/utf8"

	"github.com/mattn/go-runewidth"
	"github.com/rivo/uniseg"
	"go.pennock.tech/tabular"
	"go.pennock.tech/tabular/length"
	"go.pennock.tech/tabular/texttable"
	"go.pennock.tech/tabular/texttable/decoration"
)

type C18Spec struct {
	S     []byte   `json:"s"`
	Q     string   `json:"q,omitempty"` // preview of S
	Kind  int      `json:"kind,omitempty"`
	Next  [][]byte `json:"next,omitempty"`   // texts the item is changed to, Update() after each (kinds 1,2,3,5; otherwise only Update())
	NextQ []string `json:"next_q,omitempty"` // preview of Next
	// render probe: 0 none, 1 only body cell, 2 only header cell; one column of
	// three cells (the item, a wide ASCII text, a twin item with the same text
	// that declares its own display width): 3 body rows item/wide/twin,
	// 4 header item + body rows wide/twin, 5 body rows twin/wide/item
	RMode int `json:"rmode,omitempty"`
	// Conc > 0: while the string is measured (LongestLine*, NewCell) Conc other
	// goroutines measure other multi-line strings; the first deviating result is
	// what gets reported
	Conc int `json:"conc,omitempty"`
	// Grid: a whole table of texts rendered through ONE texttable wrapper, again
	// after every change made in place
	Grid *C18Grid `json:"grid,omitempty"`
	// Fails: the item's text method (String / Error / GoString, by Kind 1, 2, 3, 5)
	// panics when it is called: Fails[0] while the cell is created (NewCell hands
	// back no cell: nothing further happens), Fails[1+k] at the Update() after
	// Next[k] (the caller recovers and goes on).  FailHow: 1 nil pointer
	// dereference inside the method, 2 panic(string), 3 panic(error), 4 index
	// out of range, 5 panic(struct value), 6 write to a nil map, 7 the item is a
	// typed nil pointer of a type whose method has a value receiver
	Fails   []bool `json:"fails,omitempty"`
	FailHow int    `json:"fail_how,omitempty"`
	// Pre: cells with these texts are made first, in the same (fresh) process;
	// Vol: the same with a generated stream of texts
	Pre  [][]byte `json:"pre,omitempty"`
	PreQ []string `json:"pre_q,omitempty"`
	Vol  *C18Vol  `json:"vol,omitempty"`
}

type C18GridOp struct {
	Op  string   `json:"op"`          // set: the item of cell (R,C) changes to T, then Update() on the cell from CellAt / Headers (R = -1: header); add: Row.Add of a cell with text T to row R; hdr: AddHeaders(H...); fail: the item of cell (R,C) starts to panic in String(), Update() on the cell (recovered), the item is healthy again
	R   int      `json:"r,omitempty"` // 0-based body row, -1 = the header
	C   int      `json:"c,omitempty"` // 0-based column
	T   []byte   `json:"t,omitempty"`
	H   [][]byte `json:"h,omitempty"`
	How int      `json:"how,omitempty"` // fail: FailHow 1..6
}

type C18Grid struct {
	Header *[][]byte   `json:"header,omitempty"`
	Rows   [][][]byte  `json:"rows"`
	Ops    []C18GridOp `json:"ops,omitempty"`
}

type c18Stage struct {
	NCols  int
	Header *[]string
	Rows   [][]string
}

func (st c18Stage) clone() c18Stage {
	c := c18Stage{NCols: st.NCols}
	if st.Header != nil {
		h := append([]string{}, (*st.Header)...)
		c.Header = &h
	}
	for _, r := range st.Rows {
		c.Rows = append(c.Rows, append([]string{}, r...))
	}
	return c
}

func (st c18Stage) Coq() string {
	h := "None"
	if st.Header != nil {
		h = cqSome(cqStrs(*st.Header))
	}
	rows := make([]string, len(st.Rows))
	for i, r := range st.Rows {
		rows[i] = cqStrs(r)
	}
	return fmt.Sprintf("(mkStage %s %s %s)", cqNat(st.NCols), h, cqList(rows))
}

func (st c18Stage) texts() []string {
	var out []string
	if st.Header != nil {
		out = append(out, *st.Header...)
	}
	for _, r := range st.Rows {
		out = append(out, r...)
	}
	return out
}

// c18RunGrid builds the table (every cell holds a pointer item with a String
// method, so that its text can change), renders it through one wrapper, and
// again after every change; it keeps its own record of what the table holds.
func c18RunGrid(g *C18Grid, dry bool) (stages []c18Stage, renders []string) {
	// dry: only the record is kept (the case's input), nothing is built
	t := tabular.New()
	mk := func(text string) (interface{}, *c18Src) {
		d := &c18Src{text: text}
		return &c18PS{d}, d
	}
	var hdata []*c18Src
	var rdata [][]*c18Src
	cur := c18Stage{}
	grow := func(n int) {
		if n > cur.NCols {
			cur.NCols = n
		}
	}
	setHeaders := func(texts [][]byte) {
		items := make([]interface{}, len(texts))
		hdata = make([]*c18Src, len(texts))
		h := make([]string, len(texts))
		for i, b := range texts {
			items[i], hdata[i] = mk(string(b))
			h[i] = string(b)
		}
		if !dry {
			t.AddHeaders(items...)
		}
		cur.Header = &h
		grow(len(texts))
	}
	if g.Header != nil {
		setHeaders(*g.Header)
	}
	for _, r := range g.Rows {
		items := make([]interface{}, len(r))
		ds := make([]*c18Src, len(r))
		txt := make([]string, len(r))
		for i, b := range r {
			items[i], ds[i] = mk(string(b))
			txt[i] = string(b)
		}
		if !dry {
			t.AddRowItems(items...)
		}
		rdata = append(rdata, ds)
		cur.Rows = append(cur.Rows, txt)
		grow(len(r))
	}
	var tt *texttable.TextTable
	if !dry {
		tt = texttable.Wrap(t)
		if _, err := tt.SetDecorationNamed(decoration.D_ASCII_SIMPLE); err != nil {
			panic("harness: ascii-simple decoration is not registered: " + err.Error())
		}
	}
	render := func() {
		stages = append(stages, cur.clone())
		if dry {
			return
		}
		out, err := tt.Render()
		if err != nil {
			out = "render error: " + err.Error()
		}
		renders = append(renders, out)
	}
	render()
	for _, op := range g.Ops {
		switch op.Op {
		case "set":
			if op.R == -1 {
				if cur.Header == nil || op.C < 0 || op.C >= len(*cur.Header) {
					continue
				}
				if !dry {
					hdata[op.C].text = string(op.T)
					(&t.Headers()[op.C]).Update()
				}
				(*cur.Header)[op.C] = string(op.T)
			} else {
				if op.R < 0 || op.R >= len(cur.Rows) || op.C < 0 || op.C >= len(cur.Rows[op.R]) {
					continue
				}
				if !dry {
					rdata[op.R][op.C].text = string(op.T)
					c, err := t.CellAt(tabular.CellLocation{Row: op.R + 1, Column: op.C + 1})
					if err != nil {
						panic("CellAt: " + err.Error())
					}
					c.Update()
				}
				cur.Rows[op.R][op.C] = string(op.T)
			}
		case "add":
			if op.R < 0 || op.R >= len(cur.Rows) {
				continue
			}
			it, d := mk(string(op.T))
			if !dry {
				t.AllRows()[op.R].Add(tabular.NewCell(it))
			}
			rdata[op.R] = append(rdata[op.R], d)
			cur.Rows[op.R] = append(cur.Rows[op.R], string(op.T))
			grow(len(cur.Rows[op.R]))
		case "hdr":
			setHeaders(op.H)
		case "fail":
			// the record does not change: an Update() cut short by the item leaves the cell as it was
			how := op.How
			if how < 1 || how > 6 {
				how = 1
			}
			if op.R == -1 {
				if cur.Header == nil || op.C < 0 || op.C >= len(*cur.Header) {
					continue
				}
				if !dry {
					hdata[op.C].how = how
					hc := &t.Headers()[op.C]
					c18Try(func() { hc.Update() })
					hdata[op.C].how = 0
				}
			} else {
				if op.R < 0 || op.R >= len(cur.Rows) || op.C < 0 || op.C >= len(cur.Rows[op.R]) {
					continue
				}
				if !dry {
					rdata[op.R][op.C].how = how
					c, err := t.CellAt(tabular.CellLocation{Row: op.R + 1, Column: op.C + 1})
					if err != nil {
						panic("CellAt: " + err.Error())
					}
					c18Try(func() { c.Update() })
					rdata[op.R][op.C].how = 0
				}
			}
		default:
			continue
		}
		render()
	}
	return stages, renders
}

// the companions of the item in render modes 3-5, derived from s alone: the
// width the twin declares and the wide text
func c18Companions(s string) (decl int, wide string) {
	m := 0
	for _, l := range ownLines(s) {
		if w := runewidth.StringWidth(l); w > m {
			m = w
		}
	}
	decl = m + 1 + len(s)%2
	return decl, strings.Repeat("w", decl+3)
}

func c18Spec(s string, kind int) C18Spec {
	return C18Spec{S: []byte(s), Q: fmt.Sprintf("%q", s), Kind: kind}
}

func c18SpecFull(s string, kind int, next []string, rmode int) C18Spec {
	sp := c18Spec(s, kind)
	for _, n := range next {
		sp.Next = append(sp.Next, []byte(n))
		sp.NextQ = append(sp.NextQ, fmt.Sprintf("%q", n))
	}
	sp.RMode = rmode
	return sp
}

type meas struct{ B, R, C int }

func (m meas) Coq() string {
	return fmt.Sprintf("(%s, %s, %s)", cqNat(m.B), cqNat(m.R), cqNat(m.C))
}

type C18CellObs struct {
	Text  string   `json:"text"`
	Lines []string `json:"lines"`
	H     int      `json:"height"`
	W     int      `json:"width"`
	LW    []int    `json:"line_cells"` // length.StringCells of every line of Text
}

func (c C18CellObs) Coq() string {
	lw := make([]string, len(c.LW))
	for i, w := range c.LW {
		lw[i] = cqNat(w)
	}
	return fmt.Sprintf("(mkCO18 %s %s %s %s %s)", cqStr(c.Text), cqStrs(c.Lines), cqZ(int64(c.H)), cqZ(int64(c.W)), cqList(lw))
}

type C18Obs struct {
	Panic      string       `json:"panic,omitempty"`
	Lines      []string     `json:"lines"`
	LMeas      []meas       `json:"line_measures"`
	Whole      meas         `json:"whole"`
	Long       meas         `json:"longest"`
	Cell       C18CellObs   `json:"cell"`
	Steps      []C18CellObs `json:"cell_after_updates,omitempty"`
	Render     string       `json:"rendered,omitempty"`
	RenderLast string       `json:"rendered_after_last_update,omitempty"`
	Grid       []string     `json:"grid_rendered,omitempty"`
	GridW      []c18LW      `json:"-"`
	Sig        string       `json:"sig,omitempty"`
	NoCell     bool         `json:"no_cell_came_into_existence,omitempty"`
	Panicked   []bool       `json:"update_panicked,omitempty"`
	// cells made after other cells: the text the observation is about, how its cell was made, how many cells the process made before
	Subject  *string `json:"subject,omitempty"`
	SubjectB []byte  `json:"subject_bytes,omitempty"`
	Via      string  `json:"made_by,omitempty"`
	Before   int     `json:"cells_made_before,omitempty"`
}

type c18LW struct {
	L string
	W int
}

func cqStrs(xs []string) string {
	out := make([]string, len(xs))
	for i, x := range xs {
		out[i] = cqStr(x)
	}
	return cqList(out)
}

func (o C18Obs) Coq() string {
	if o.Panic != "" {
		return "Panic"
	}
	ms := make([]string, len(o.LMeas))
	for i, m := range o.LMeas {
		ms[i] = m.Coq()
	}
	st := make([]string, len(o.Steps))
	for i, c := range o.Steps {
		st[i] = c.Coq()
	}
	gw := make([]string, len(o.GridW))
	for i, p := range o.GridW {
		gw[i] = cqPair(cqStr(p.L), cqNat(p.W))
	}
	pk := make([]string, len(o.Panicked))
	for i, b := range o.Panicked {
		pk[i] = cqBool(b)
	}
	return fmt.Sprintf("(Ok (mkObs18 %s %s %s %s %s %s %s %s %s %s %s %s))", cqStrs(o.Lines), cqList(ms), o.Whole.Coq(), o.Long.Coq(),
		o.Cell.Coq(), cqList(st), cqStr(o.Render), cqStr(o.RenderLast), cqStrs(o.Grid), cqList(gw), cqBool(o.NoCell), cqList(pk))
}

// the item that carries s into the cell, and how to change its text
func c18Item(s string, kind int) (interface{}, func(string)) {
	switch kind {
	case 1, 5:
		v, d := newObj(1, objData{s: s})
		return v, func(t string) { d.s = t }
	case 2:
		v, d := newObj(4, objData{e: s})
		return v, func(t string) { d.e = t }
	case 3:
		v, d := newObj(2, objData{g: s})
		return v, func(t string) { d.g = t }
	case 4:
		return tabular.NewCell(s), func(string) {}
	}
	return s, func(string) {}
}

func c18ObserveCell(c *tabular.Cell) C18CellObs {
	o := C18CellObs{Text: c.String(), Lines: c.Lines(), H: c.Height(), W: c.TerminalCellWidth(), LW: []int{}}
	if o.Lines == nil {
		o.Lines = []string{}
	}
	for _, l := range ownLines(o.Text) {
		o.LW = append(o.LW, length.StringCells(l))
	}
	return o
}

func c18Render(t tabular.Table) string {
	tt := texttable.Wrap(t)
	if _, err := tt.SetDecorationNamed(decoration.D_ASCII_SIMPLE); err != nil {
		panic("harness: ascii-simple decoration is not registered: " + err.Error())
	}
	out, err := tt.Render()
	if err != nil {
		return "render error: " + err.Error()
	}
	return out
}

func c18Observe(sp C18Spec) (o C18Obs) { return c18ObserveWith(sp, nil) }

// made != nil: the cell for s exists already (it was made in the course of the case's history)
func c18ObserveWith(sp C18Spec, made *tabular.Cell) (o C18Obs) {
	defer func() {
		if r := recover(); r != nil {
			o = C18Obs{Panic: fmt.Sprint(r)}
		}
	}()
	s, kind := string(sp.S), sp.Kind
	m := func(x string) meas {
		return meas{length.StringBytes(x), length.StringRunes(x), length.StringCells(x)}
	}
	o.Lines = length.Lines(s)
	if o.Lines == nil {
		o.Lines = []string{}
	}
	for _, l := range o.Lines {
		o.LMeas = append(o.LMeas, m(l))
	}
	o.Whole = m(s)
	o.Long = meas{length.LongestLineBytes(s), length.LongestLineRunes(s), length.LongestLineCells(s)}
	item, set := c18Item(s, kind)
	setFail := func(bool) {}
	failing := c18AnyFail(sp.Fails) || sp.FailHow != 0
	if failing && (kind == 1 || kind == 2 || kind == 3 || kind == 5) {
		item, set, setFail = c18FailItem(s, kind, sp.FailHow)
	}
	var c *tabular.Cell
	var home tabular.Table
	if made != nil {
		c = made
	} else if c18Fail(sp.Fails, 0) && kind != 5 {
		// the item's method fails right now: either the panic comes through and there is no cell, or there is one
		setFail(true)
		var nc tabular.Cell
		if c18Try(func() { nc = tabular.NewCell(item) }) {
			o.NoCell = true
			o.Cell = C18CellObs{Lines: []string{}, LW: []int{}}
			return o
		}
		c = &nc
	} else if kind == 5 {
		// the cell lives in a table and is reached through CellAt
		home = tabular.New()
		home.AddRowItems(item)
		var err error
		if c, err = home.CellAt(tabular.CellLocation{Row: 1, Column: 1}); err != nil {
			panic("CellAt(1,1): " + err.Error())
		}
	} else {
		nc := tabular.NewCell(item)
		c = &nc
	}
	o.Cell = c18ObserveCell(c)
	for k, t := range sp.Next {
		set(string(t))
		if c18Fail(sp.Fails, 1+k) {
			setFail(true)
			o.Panicked = append(o.Panicked, c18Try(func() { c.Update() }))
		} else {
			setFail(false)
			c.Update()
			o.Panicked = append(o.Panicked, false)
		}
		o.Steps = append(o.Steps, c18ObserveCell(c))
	}
	if home != nil {
		o.RenderLast = c18Render(home)
	}
	if sp.RMode != 0 {
		// a fresh item in a fresh table
		it2, _ := c18Item(s, kind)
		decl, wide := c18Companions(s)
		twin, _ := newObj(1|16, objData{s: s, w: decl})
		t := tabular.New()
		switch sp.RMode {
		case 1:
			t.AddRowItems(it2)
		case 2:
			t.AddHeaders(it2)
		case 3:
			t.AddRowItems(it2)
			t.AddRowItems(wide)
			t.AddRowItems(twin)
		case 4:
			t.AddHeaders(it2)
			t.AddRowItems(wide)
			t.AddRowItems(twin)
		case 5:
			t.AddRowItems(twin)
			t.AddRowItems(wide)
			t.AddRowItems(it2)
		default:
			panic(fmt.Sprintf("harness: unknown render mode %d", sp.RMode))
		}
		o.Render = c18Render(t)
	}
	if sp.Conc > 0 {
		c18Concurrent(sp, &o)
	}
	if sp.Grid != nil {
		stages, renders := c18RunGrid(sp.Grid, false)
		o.Grid = renders
		seen := map[string]bool{}
		for _, st := range stages {
			for _, t := range st.texts() {
				for _, l := range ownLines(t) {
					if !seen[l] {
						seen[l] = true
						o.GridW = append(o.GridW, c18LW{l, length.StringCells(l)})
					}
				}
			}
		}
	}
	return o
}

// c18Concurrent measures s again and again while other goroutines measure
// other multi-line strings; a result that differs from the sequential one
// replaces it in the observation (so the property's equalities judge it).
func c18Concurrent(sp C18Spec, o *C18Obs) {
	s := string(sp.S)
	want, wantW := o.Long, o.Cell.W
	stop := make(chan struct{})
	var wg sync.WaitGroup
	var mu sync.Mutex
	deviated := false
	for g := 0; g < sp.Conc; g++ {
		wg.Add(1)
		go func(g int) { // measures something else all the time
			defer wg.Done()
			defer func() { recover() }()
			decoy := strings.Repeat(strings.Repeat("x", 3+g%7)+"\n", 2+g%5) + strings.Repeat("界", g%4)
			for {
				select {
				case <-stop:
					return
				default:
				}
				length.LongestLineBytes(decoy)
				length.LongestLineRunes(decoy)
				length.LongestLineCells(decoy)
				c := tabular.NewCell(decoy)
				_ = c.TerminalCellWidth()
			}
		}(g)
	}
	var cw sync.WaitGroup
	for g := 0; g < 1+sp.Conc/2; g++ {
		cw.Add(1)
		go func() { // measures s and compares with the sequential result
			defer cw.Done()
			defer func() { recover() }()
			for i := 0; i < 1500; i++ {
				got := meas{length.LongestLineBytes(s), length.LongestLineRunes(s), length.LongestLineCells(s)}
				w := wantW
				if sp.Kind == 0 {
					c := tabular.NewCell(s)
					w = c.TerminalCellWidth()
				}
				if got != want || w != wantW {
					mu.Lock()
					if !deviated {
						deviated = true
						o.Long, o.Cell.W = got, w
						o.Sig = "while-other-goroutines-measure"
					}
					mu.Unlock()
					return
				}
			}
		}()
	}
	cw.Wait()
	close(stop)
	wg.Wait()
}

// the harness's own line splitter (terminator semantics), used only to decide
// for which strings oracle data is shipped
func ownLines(s string) []string {
	var out []string
	cur := ""
	for i := 0; i < len(s); i++ {
		if s[i] == '\n' {
			out = append(out, cur)
			cur = ""
		} else {
			cur += string(s[i : i+1])
		}
	}
	if cur != "" {
		out = append(out, cur)
	}
	return out
}

// oracle tables from the real libraries
func c18Oracle(strs []string) (segTab string, rwTab string, cwTab string) {
	seen := map[string]bool{}
	seenCl := map[string]bool{}
	rws := map[rune]int{}
	var segs, cws []string
	for _, x := range strs {
		if seen[x] {
			continue
		}
		seen[x] = true
		var cls []string
		g := uniseg.NewGraphemes(x)
		for g.Next() {
			var rs []string
			for _, r := range g.Runes() {
				rs = append(rs, cqZ(int64(r)))
				rws[r] = runewidth.RuneWidth(r)
			}
			cls = append(cls, cqList(rs))
			if !seenCl[g.Str()] {
				seenCl[g.Str()] = true
				cws = append(cws, cqPair(cqList(rs), cqNat(runewidth.StringWidth(g.Str()))))
			}
		}
		segs = append(segs, cqPair(cqStr(x), cqList(cls)))
	}
	var keys []int
	for r := range rws {
		keys = append(keys, int(r))
	}
	sort.Ints(keys)
	var ws []string
	for _, k := range keys {
		w := rws[rune(k)]
		if w < 0 {
			panic("negative rune width from the library")
		}
		ws = append(ws, cqPair(cqZ(int64(k)), cqNat(w)))
	}
	return cqList(segs), cqList(ws), cqList(cws)
}

func c18Tags(s string, kind int) []string {
	tags := []string{fmt.Sprintf("kind=%d", kind)}
	n := len(s)
	switch {
	case n == 0:
		tags = append(tags, "len=0")
	case n <= 4:
		tags = append(tags, "len=1-4")
	case n <= 12:
		tags = append(tags, "len=5-12")
	default:
		tags = append(tags, "len>12")
	}
	nl := strings.Count(s, "\n")
	switch {
	case nl == 0:
		tags = append(tags, "lf=0")
	case nl == 1:
		tags = append(tags, "lf=1")
	default:
		tags = append(tags, "lf>=2")
	}
	t := 0
	for t < len(s) && s[len(s)-1-t] == '\n' {
		t++
	}
	if t > 2 {
		t = 2
	}
	tags = append(tags, fmt.Sprintf("trailing-lf=%d", t))
	if strings.HasPrefix(s, "\n") {
		tags = append(tags, "leading-lf")
	}
	if !utf8.ValidString(s) {
		tags = append(tags, "invalid-utf8")
	}
	wide, zero, multi := false, false, false
	for _, r := range s {
		if r >= 0x80 {
			multi = true
		}
		switch runewidth.RuneWidth(r) {
		case 2:
			wide = true
		case 0:
			if r != '\n' {
				zero = true
			}
		}
	}
	if multi {
		tags = append(tags, "multibyte")
	}
	if wide {
		tags = append(tags, "double-width")
	}
	if zero {
		tags = append(tags, "zero-width")
	}
	if strings.Contains(s, "\r") {
		tags = append(tags, "cr")
	}
	return tags
}

var c18Atoms = []string{
	"a", "b", " ", "\t", "\r", "\n", "\n", "\n\n", "\r\n", "世", "界", "é", "é", "́", "̈",
	"‍", "👨‍👩‍👧", "❤️", "️", "​", "🇩🇪", "🇩", "😀", "ｱ", "한", "가", "กำ",
	"\xff", "\xc3", "\xe4\xb8", "\xf0\x9f", "\xed\xa0\x80", "\xc0\x80", "\xf4\x90\x80\x80", "\x80", "\x00", "\x7f", "­", "\u0085",
	"Ź̈", "　", "―", " ",
}

// more atoms: emoji + skin tone, decomposed Hangul, Devanagari with a spacing
// mark, bidi controls, ZWJ profession, flag, lone jamo, stacked marks
var c18Atoms2 = []string{"\U0001F44D\U0001F3FD", "\u1112\u1161\u11ab", "\u0915\u093e", "\u202a\u202c", "\U0001F469\u200d\U0001F680",
	"\U0001F1EF\U0001F1F5", "\u1100", "e\u030a\u035c"}

// grapheme clusters of two or more runes of non-zero width, and non-empty
// texts of no width at all
var c18Clusters = []string{"\U0001F44D\U0001F3FD", "\U0001F468\u200d\U0001F469\u200d\U0001F467", "\U0001F1E9\U0001F1EA",
	"\u1112\u1161\u11ab", "\u0915\u093e", "\u0e01\u0e33", "\u2764\ufe0f"}
var c18ZeroWide = []string{"\u200b", "\u0301", "\u202a\u202c", "\u200d", "\u00ad", "\x00", "\r"}

func init() { c18Atoms = append(c18Atoms, c18Atoms2...) }

func c18Rand(r *RNG) string {
	var sb strings.Builder
	n := 1 + r.Intn(8)
	for i := 0; i < n && sb.Len() < 24; i++ {
		switch {
		case r.Pct(80):
			sb.WriteString(pick(r, c18Atoms))
		case r.Pct(50):
			sb.WriteByte(byte(r.Intn(256)))
		default:
			// a random scalar value, possibly astral
			sb.WriteString(string(rune(r.Intn(0x30000))))
		}
	}
	if r.Pct(25) {
		sb.WriteString(strings.Repeat("\n", 1+r.Intn(3)))
	}
	return sb.String()
}

// the texts a mutable item is taken through: -> "", -> longer with more
// lines, -> shorter, -> more lines, -> fewer lines, -> "" again
func c18Chain(s string) []string {
	return []string{"", s + "\nzz\n世", s[:len(s)/2], "a\nb\nc\n", "a", ""}
}

// the widest line is plain ASCII and at least as many bytes as every other
// line, another line has characters whose display width is not their byte count
func c18AsciiWidest(s string) bool {
	ls := ownLines(s)
	if len(ls) < 2 {
		return false
	}
	wi, other := -1, false
	for i, l := range ls {
		if wi < 0 || runewidth.StringWidth(l) > runewidth.StringWidth(ls[wi]) {
			wi = i
		}
	}
	for _, c := range []byte(ls[wi]) {
		if c < 0x20 || c >= 0x7f {
			return false
		}
	}
	for i, l := range ls {
		if i != wi && runewidth.StringWidth(l) != len(l) {
			other = true
		}
		if len(l) > len(ls[wi]) {
			return false
		}
	}
	return other
}

var c18Words = []string{"hello world", "total", "abcdefgh", "x y z w", "ab"}
var c18Shorts = []string{"café", "£12", "世", "é", "á", "​", "❤️", "\xff", "ｱ", "한", "a\tb", "­x", "ｶﾞ"}

func (sp C18Spec) key() string {
	var sb strings.Builder
	fmt.Fprintf(&sb, "%d:%d:%d:%s", sp.Kind, sp.RMode, sp.Conc, sp.S)
	for _, n := range sp.Next {
		fmt.Fprintf(&sb, "\x00>%s", n)
	}
	if sp.Grid != nil {
		sb.Write(mustJSON(sp.Grid))
	}
	if len(sp.Fails) > 0 || sp.FailHow != 0 {
		fmt.Fprintf(&sb, "\x00f%v:%d", sp.Fails, sp.FailHow)
	}
	for _, n := range sp.Pre {
		fmt.Fprintf(&sb, "\x00<%s", n)
	}
	if sp.Vol != nil {
		sb.Write(mustJSON(sp.Vol))
	}
	return sb.String()
}

func (sp C18Spec) size() int {
	n := len(sp.S)*8 + sp.Kind + 10*len(sp.Next)
	for _, t := range sp.Next {
		n += len(t)
	}
	if sp.RMode != 0 {
		n += 1 + sp.RMode/3
	}
	if g := sp.Grid; g != nil {
		if g.Header != nil {
			n += 3
			for _, t := range *g.Header {
				n += 5 + len(t)
			}
		}
		for _, r := range g.Rows {
			n += 3
			for _, t := range r {
				n += 5 + len(t)
			}
		}
		for _, op := range g.Ops {
			n += 10 + len(op.T)
			for _, t := range op.H {
				n += 2 + len(t)
			}
		}
	}
	for _, f := range sp.Fails {
		if f {
			n += 2
		}
	}
	n += sp.FailHow
	for _, t := range sp.Pre {
		n += 10 + len(t)
	}
	if v := sp.Vol; v != nil {
		n += 2000 + (v.Hi - v.Lo)
	}
	return n + sp.Conc
}

func (sp C18Spec) with(s string) C18Spec {
	c := sp
	c.S = []byte(s)
	c.Q = fmt.Sprintf("%q", s)
	return c
}

func bs(xs ...string) [][]byte {
	out := make([][]byte, len(xs))
	for i, x := range xs {
		out[i] = []byte(x)
	}
	return out
}

func c18GridSpec(g C18Grid) C18Spec {
	sp := c18Spec("", 0)
	sp.Grid = &g
	return sp
}

var c18GridTexts = []string{"a", "", "ab\ncd", "x\ny\nz", "\u4e16\u754c", "wide text here", "e\u0301\n\u0301", "q\n", "1\n22\n333\n", "\u200b", "caf\u00e9"}

func c18RandGrid(r *RNG) C18Grid {
	text := func() []byte {
		if r.Pct(75) {
			return []byte(pick(r, c18GridTexts))
		}
		return []byte(c18Rand(r))
	}
	ncols := 1 + r.Intn(4)
	var g C18Grid
	if r.Pct(60) {
		h := make([][]byte, 1+r.Intn(ncols))
		for i := range h {
			h[i] = text()
		}
		g.Header = &h
	}
	for n := 1 + r.Intn(4); n > 0; n-- {
		row := make([][]byte, r.Intn(ncols+1))
		for i := range row {
			row[i] = text()
		}
		g.Rows = append(g.Rows, row)
	}
	for n := r.Intn(4); n > 0; n-- {
		if r.Pct(15) {
			// some cell's item fails while its cell is updated
			g.Ops = append(g.Ops, C18GridOp{Op: "fail", R: r.Intn(len(g.Rows)+1) - 1, C: r.Intn(ncols), How: 1 + r.Intn(6)})
			continue
		}
		switch r.Intn(4) {
		case 0:
			g.Ops = append(g.Ops, C18GridOp{Op: "add", R: r.Intn(len(g.Rows)), T: text()})
		case 1:
			if g.Header != nil {
				h := make([][]byte, len(*g.Header))
				for i := range h {
					h[i] = text()
				}
				g.Ops = append(g.Ops, C18GridOp{Op: "hdr", H: h})
				continue
			}
			fallthrough
		default:
			rr := r.Intn(len(g.Rows)+1) - 1
			g.Ops = append(g.Ops, C18GridOp{Op: "set", R: rr, C: r.Intn(ncols), T: text()})
		}
	}
	return g
}

func c18GridTags(g *C18Grid) []string {
	tags := []string{"grid", fmt.Sprintf("grid-changes-in-place=%d", min(len(g.Ops), 3))}
	for _, op := range g.Ops {
		if op.Op == "fail" {
			tags = append(tags, "grid-item-method-panics-at-update")
			break
		}
	}
	stages, _ := c18RunGrid(g, true)
	shortMulti, empty := false, false
	for _, st := range stages {
		for _, r := range st.Rows {
			if len(r) == 0 {
				empty = true
			}
			if len(r) > 0 && len(r) < st.NCols {
				for _, t := range r {
					if len(ownLines(t)) >= 2 {
						shortMulti = true
					}
				}
			}
		}
	}
	if shortMulti {
		tags = append(tags, "grid-short-row-with-multi-line-cell")
	}
	if empty {
		tags = append(tags, "grid-row-without-cells")
	}
	if len(stages) > 1 {
		tags = append(tags, "grid-rendered-again-through-the-same-wrapper")
	}
	return tags
}

func c18GridShrink(sp C18Spec) []C18Spec {
	g := sp.Grid
	var out []C18Spec
	clone := func() C18Grid {
		var c C18Grid
		b, _ := json.Marshal(g)
		json.Unmarshal(b, &c)
		return c
	}
	for i := range g.Ops {
		c := clone()
		c.Ops = append(c.Ops[:i:i], c.Ops[i+1:]...)
		out = append(out, c18GridSpec(c))
	}
	if g.Header != nil {
		if len(g.Ops) == 0 {
			c := clone()
			c.Header = nil
			out = append(out, c18GridSpec(c))
		}
		if len(*g.Header) > 0 {
			c := clone()
			h := (*c.Header)[:len(*c.Header)-1]
			c.Header = &h
			out = append(out, c18GridSpec(c))
		}
	}
	for i := range g.Rows {
		if len(g.Rows) > 1 {
			c := clone()
			c.Rows = append(c.Rows[:i:i], c.Rows[i+1:]...)
			out = append(out, c18GridSpec(c))
		}
		if len(g.Rows[i]) > 0 {
			c := clone()
			c.Rows[i] = c.Rows[i][:len(c.Rows[i])-1]
			out = append(out, c18GridSpec(c))
		}
		for j := range g.Rows[i] {
			if t := g.Rows[i][j]; len(t) > 1 {
				c := clone()
				c.Rows[i][j] = t[:len(t)/2]
				out = append(out, c18GridSpec(c))
				c2 := clone()
				c2.Rows[i][j] = []byte("a")
				out = append(out, c18GridSpec(c2))
			}
		}
	}
	if g.Header != nil {
		for j, t := range *g.Header {
			if len(t) > 1 {
				c := clone()
				(*c.Header)[j] = []byte("h")
				out = append(out, c18GridSpec(c))
			}
		}
	}
	for i, op := range g.Ops {
		if len(op.T) > 1 {
			c := clone()
			c.Ops[i].T = op.T[:len(op.T)/2]
			out = append(out, c18GridSpec(c))
		}
	}
	return out
}

// the Coq term of the case's input, for the text s the observation is about
func c18InputTerm(sp C18Spec, s string) string {
	strs := append([]string{s}, ownLines(s)...)
	nexts := make([]string, len(sp.Next))
	for i, t := range sp.Next {
		nexts[i] = cqStr(string(t))
		strs = append(strs, string(t))
		strs = append(strs, ownLines(string(t))...)
	}
	var stageTerms []string
	if sp.Grid != nil {
		stages, _ := c18RunGrid(sp.Grid, true)
		for _, st := range stages {
			stageTerms = append(stageTerms, st.Coq())
			for _, t := range st.texts() {
				strs = append(strs, ownLines(t)...)
			}
		}
	}
	segTab, rwTab, cwTab := c18Oracle(strs)
	decl, wide := 0, ""
	if sp.RMode >= 3 {
		decl, wide = c18Companions(s)
	}
	fails := make([]string, len(sp.Fails))
	for i, f := range sp.Fails {
		// a cell that lives in a table is created from the healthy item
		fails[i] = cqBool(f && !(i == 0 && sp.Kind == 5))
	}
	return fmt.Sprintf("(mkIn18 %s %s %s %s %s %s %s %s %s %s %s)", cqStr(s), cqNat(sp.Kind), cqList(nexts), cqNat(sp.RMode), cqStr(wide), cqNat(decl), segTab, rwTab, cwTab, cqList(stageTerms), cqList(fails))
}

func c18CaseTags(sp C18Spec, s string) []string {
	tags := append(c18Tags(s, sp.Kind), fmt.Sprintf("updates=%d", min(len(sp.Next), 4)), fmt.Sprintf("rmode=%d", sp.RMode))
	if c18AsciiWidest(s) {
		tags = append(tags, "widest-line-ascii-other-line-not")
	}
	if sp.Conc > 0 {
		tags = append(tags, "concurrent-measuring")
	}
	if sp.Grid != nil {
		tags = append(tags, c18GridTags(sp.Grid)...)
	}
	for i, t := range sp.Next {
		prev := s
		if i > 0 {
			prev = string(sp.Next[i-1])
		}
		if len(t) == 0 && len(prev) > 0 && sp.Kind != 0 && sp.Kind != 4 {
			tags = append(tags, "update-to-empty")
			break
		}
	}
	if c18Fail(sp.Fails, 0) {
		tags = append(tags, "item-method-panics-at-creation")
	}
	if len(sp.Fails) > 1 && c18AnyFail(sp.Fails[1:]) {
		tags = append(tags, "item-method-panics-at-update")
		for k := 1; k+1 < len(sp.Fails); k++ {
			if sp.Fails[k] && !sp.Fails[k+1] && k < len(sp.Next) {
				tags = append(tags, "item-recovers-after-failed-update")
				break
			}
		}
	}
	if c18AnyFail(sp.Fails) {
		tags = append(tags, fmt.Sprintf("fail-how=%d", sp.FailHow))
	}
	if len(sp.Pre) > 0 {
		tags = append(tags, "after-other-cells-in-this-process")
	}
	if v := sp.Vol; v != nil {
		n := v.Hi - v.Lo
		switch {
		case n >= 100000:
			tags = append(tags, "after>=100000-other-cells-in-this-process")
		case n >= 1000:
			tags = append(tags, "after>=1000-other-cells-in-this-process")
		default:
			tags = append(tags, "after-other-cells-in-this-process")
		}
		tags = append(tags, fmt.Sprintf("volume-family=%d", v.Fam))
	}
	return tags
}

func c18RunHere(sp C18Spec) CaseOut {
	s := string(sp.S)
	var o C18Obs
	if sp.Vol != nil || len(sp.Pre) > 0 {
		// the history first; the subject may be another text than sp.S
		text, cell, via, before, deviates := c18PlayHistory(sp)
		plain := C18Spec{S: []byte(text), Kind: via}
		o = c18ObserveWith(plain, cell)
		s = text
		q := fmt.Sprintf("%q", text)
		o.Subject, o.SubjectB, o.Before = &q, []byte(text), before
		o.Via = []string{"NewCell(text)", "the text of a long-lived cell's item changed + Update()"}[via]
		if deviates {
			o.Sig = c18SigAfter
		}
		sp2 := sp
		sp2.Kind = via
		return CaseOut{
			Coq:        cqPair(c18InputTerm(plain, s), o.Coq()),
			Desc:       o,
			Size:       sp.size(),
			Tags:       c18CaseTags(sp2, s),
			Key:        sp.key(),
			Nontrivial: len(s) > 0,
		}
	}
	o = c18Observe(sp)
	return CaseOut{
		Coq:        cqPair(c18InputTerm(sp, s), o.Coq()),
		Desc:       o,
		Size:       sp.size(),
		Tags:       c18CaseTags(sp, s),
		Key:        sp.key(),
		Nontrivial: len(s) > 0,
	}
}

func c18RunInChild(spec json.RawMessage, sp C18Spec) CaseOut {
	rec, why := c18ChildFor(spec, sp)
	if rec == nil {
		if len(why) > 600 {
			why = why[:600]
		}
		sig := "while-other-goroutines-measure"
		if sp.Conc == 0 {
			sig = c18SigAfter
		}
		s := string(sp.S)
		return CaseOut{
			Coq:        cqPair(c18InputTerm(C18Spec{S: sp.S, Kind: sp.Kind}, s), "Panic"),
			Desc:       C18Obs{Panic: "the measuring process died: " + why, Sig: sig},
			Size:       sp.size(),
			Tags:       c18CaseTags(sp, s),
			Key:        sp.key(),
			Nontrivial: true,
		}
	}
	return CaseOut{Coq: rec.Coq, Desc: rec.Observed, Size: rec.Size, Tags: rec.Tags, Key: sp.key(), Nontrivial: rec.Nontrivial}
}

func init() {
	register(&Prop{
		ID:       "C18",
		Imports:  "From Tab Require Import Run.Glue Run.C18Run.",
		CaseType: "(c18_in * res c18_obs)",
		CaseFn:   "C18_case",
		ModelFn:  "C18_model",
		Rule: "one string per case, measured by length.Lines / StringBytes / StringRunes / StringCells / LongestLine{Bytes,Runes,Cells} and stored in a cell " +
			"(as a string; for short strings also behind String(), Error(), GoString(), as a nested Cell, and behind String() in a cell that lives in a table and is reached through CellAt) whose String / Lines / Height / TerminalCellWidth are read; " +
			"for the mutable item kinds the text is then taken through a chain (-> empty, -> longer with more lines, -> shorter, -> more lines, -> fewer lines, -> empty) with Update() and the same reads after every step; " +
			"render probe: the item as the only body (or header) cell of a table, or in a one-column table together with a wider ASCII text and a twin item with the same text that declares its own display width (three orders), rendered by texttable with the ascii-simple decoration, the bytes compared with rules of width+2 dashes and content lines padded by width - StringCells(line) (for the table-held cell also after the last Update); " +
			"a few multi-line strings are measured repeatedly while 8-32 other goroutines measure other multi-line strings; " +
			"failing items: the item's own String / Error / GoString panics at the moment the cell calls it (nil pointer dereference inside the method, panic with a string / an error / a struct value, index out of range, write to a nil map, and a typed nil pointer of a type whose method has a value receiver) - while the cell is created (either the panic reaches the caller and no cell exists, or the cell that exists must be consistent) and at Update() calls in the life of a long-lived cell (every pattern of failing and healthy calls over three updates with the text growing and shrinking in between; the caller recovers, and after EVERY call, completed or cut short, Height = len(Lines) and TerminalCellWidth = widest line of what String() shows now; for the table-held cell the table is rendered afterwards), and the same inside whole tables of the grid probe (a cell's item fails during Update(), the table is rendered again through the same wrapper and must show exactly what it showed before); " +
			"cells made after other cells of the same process: short sequences of texts a shortcut keyed by less than the whole text would confuse (equal length with equal head and tail, the same bytes in another order with the line breaks moved, equal length and rune count with another width, one byte changed), each sequence in a fresh process, and a volume stream - 12 (quick) / 16 (thorough) fresh processes make 200,000 (1,000,000) cells each for pairwise distinct texts of equal byte length and widely differing display widths and line counts (three families: units of 2, 3 and 4 bytes), half of them through NewCell only, half with every fourth text going through one long-lived cell (item changed + Update()); every cell is compared on the spot with the lines of its own text (length.StringCells per line), the first one that deviates (else one more cell after the stream) is the case that is shipped and judged; on a deviation the earlier cell that is to blame is located by bisection with fresh processes and the replay is the pair of texts; " +
			"grid probe: whole tables of texts (1-4 columns, with and without headers, full, short and empty rows, multi-line cells in short rows) rendered through ONE texttable wrapper, and again after every change made in place (a cell's item changed + Update() via CellAt / Headers, Row.Add to a row already in the table, the headers replaced by as many new ones); every rendering is compared with the layout computed from length.StringCells per line: column width = widest cell of the column, every cell line padded to it; " +
			"every string of up to 4 (quick) or 5 (thorough) symbols over {LF, 'a', U+4E16 (3 bytes, double width), U+0301 (combining), byte 0xFF}, multi-line strings whose widest line is plain ASCII next to a shorter line with multi-byte / wide / combining / zero-width characters, and random strings up to ~30 bytes over " +
			"CJK, combining marks, ZWJ emoji sequences, VS16, regional indicators, tabs, CR, CRLF, NUL, DEL, soft hyphen and ill-formed UTF-8 (truncated, overlong, surrogate, > U+10FFFF, stray continuation), with leading/repeated/trailing newlines; " +
			"grapheme clusters and rune widths of every string measured and of each of its lines are taken from the real uniseg / go-runewidth and the three oracle assumptions are checked on them; " +
			"a case is non-trivial when the string is not empty; distinct = distinct (string, item kind, update chain, failure pattern, render mode, history)",
		Exhaustive: "all strings of length <= 4 (quick: 781) / <= 5 (thorough: 3906) over the 5-symbol alphabet stored as a string and rendered as a body cell, and all of length <= 3 also in the five other item kinds (rendered as a header cell; the six-step update chain for the Stringer kinds, and for the error / GoStringer kinds up to length 2)",
		Gen: func(r *RNG, tier string) []json.RawMessage {
			var out []json.RawMessage
			add := func(sp C18Spec) { out = append(out, mustJSON(sp)) }
			alpha := []string{"\n", "a", "世", "́", "\xff"}
			maxLen := 4
			if tier == "thorough" {
				maxLen = 5
			}
			var rec func(prefix string, n int)
			rec = func(prefix string, n int) {
				add(c18SpecFull(prefix, 0, nil, 1))
				if n <= 3 {
					add(c18SpecFull(prefix, 0, nil, 3+n%3))
					for _, k := range []int{1, 2, 3, 5} {
						if n <= 2 || k == 1 || k == 5 {
							add(c18SpecFull(prefix, k, c18Chain(prefix), 2))
						} else {
							add(c18SpecFull(prefix, k, nil, 2))
						}
					}
					add(c18SpecFull(prefix, 4, []string{""}, 2))
				}
				if n == maxLen {
					return
				}
				for _, a := range alpha {
					rec(prefix+a, n+1)
				}
			}
			rec("", 0)
			// widest line ASCII, another line not
			i := 0
			for _, w := range c18Words {
				for _, sh := range c18Shorts {
					if len(sh) > len(w) {
						continue
					}
					for _, s := range []string{w + "\n" + sh, sh + "\n" + w + "\n", w + "\n" + sh + "\n" + sh + "a", "a\n" + w + "\n\n" + sh} {
						add(c18SpecFull(s, 0, nil, 1+i%2))
						i++
					}
					add(c18SpecFull(w+"\n"+sh, 5, []string{sh + "\n" + w, "", w + "\n" + sh + "\nb"}, 1))
					add(c18SpecFull(sh, 1, []string{w + "\n" + sh, sh}, 2))
				}
			}
			// clusters of several non-zero-width runes on one line of a multi-line text;
			// non-empty texts without width next to something wider
			for j, c := range c18Clusters {
				for _, t := range []string{"a\n" + c, c + "\nb", c + c + "\n\n", "ab\n" + c + "x\n" + c} {
					add(c18SpecFull(t, 0, nil, 1+(i+j)%5))
					i++
				}
				add(c18SpecFull("x", 1, []string{"a\n" + c, c}, 3))
			}
			for j, z := range c18ZeroWide {
				for _, t := range []string{z, z + z, "ab\n" + z, z + "\nab\n" + z + z} {
					add(c18SpecFull(t, 0, nil, 3+(i+j)%3))
					add(c18SpecFull(t, 0, nil, 1+(i+j)%2))
					i++
				}
			}
			// whole tables: short rows holding multi-line cells ...
			for ncols := 2; ncols <= 3; ncols++ {
				full := []string{"F0", "F-one", "F2"}[:ncols]
				for k := 1; k < ncols; k++ {
					for pos := 0; pos < k; pos++ {
						short := make([]string, k)
						for j := range short {
							short[j] = "s"
						}
						short[pos] = "L1\nline 2\nl3"
						for v := 0; v < 4; v++ {
							g := C18Grid{}
							if v&1 != 0 {
								h := bs([]string{"H0", "H1", "H2"}[:ncols]...)
								g.Header = &h
							}
							if v&2 != 0 {
								g.Rows = [][][]byte{bs(short...), bs(full...)}
							} else {
								g.Rows = [][][]byte{bs(full...), bs(short...), bs()}
							}
							add(c18GridSpec(g))
						}
					}
				}
			}
			// ... and one wrapper rendering again after a change made in place
			h2 := bs("h1", "h2")
			base := func(withHeader bool) C18Grid {
				g := C18Grid{Rows: [][][]byte{bs("a", "b"), bs("c")}}
				if withHeader {
					g.Header = &h2
				}
				return g
			}
			opSeqs := [][]C18GridOp{
				{{Op: "set", R: 0, C: 0, T: []byte("much wider than before")}},
				{{Op: "set", R: 0, C: 1, T: []byte("two\nlines now")}, {Op: "set", R: 0, C: 1, T: []byte("")}},
				{{Op: "add", R: 1, T: []byte("added and wide")}},
				{{Op: "set", R: 1, C: 0, T: []byte("\u4e16\u754c\u4e16\u754c")}, {Op: "add", R: 1, T: []byte("x\ny")}},
				{{Op: "hdr", H: bs("a much longer heading", "h2")}},
				{{Op: "set", R: -1, C: 1, T: []byte("heading grew")}},
				{{Op: "hdr", H: bs("H", "second heading")}, {Op: "set", R: 0, C: 0, T: []byte("wider cell")}, {Op: "add", R: 1, T: []byte("z")}},
				{{Op: "set", R: 0, C: 0, T: []byte("wide wide wide")}, {Op: "set", R: 0, C: 0, T: []byte("a")}},
				{{Op: "fail", R: 0, C: 0, How: 1}},
				{{Op: "fail", R: 0, C: 1, How: 2}, {Op: "set", R: 0, C: 1, T: []byte("healthy again and wider")}},
				{{Op: "set", R: 1, C: 0, T: []byte("two\nlines")}, {Op: "fail", R: 1, C: 0, How: 3}, {Op: "fail", R: 1, C: 0, How: 4}},
				{{Op: "fail", R: -1, C: 0, How: 5}, {Op: "add", R: 1, T: []byte("x")}},
				{{Op: "fail", R: -1, C: 1, How: 6}, {Op: "set", R: -1, C: 1, T: []byte("")}},
			}
			for _, ops := range opSeqs {
				for _, wh := range []bool{true, false} {
					g := base(wh)
					g.Ops = ops
					add(c18GridSpec(g))
				}
			}
			ngrid := 120
			if tier == "thorough" {
				ngrid = 4000
			}
			for j := 0; j < ngrid; j++ {
				add(c18GridSpec(c18RandGrid(r)))
			}
			// measured while other goroutines measure other multi-line strings
			nconc := 16
			if tier == "thorough" {
				nconc = 60
			}
			for j := 0; j < nconc; j++ {
				w, sh := c18Words[j%len(c18Words)], c18Shorts[j%len(c18Shorts)]
				sp := c18SpecFull(strings.Repeat(w+"\n", 1+j%3)+sh+"\n"+w+w, 0, nil, 0)
				sp.Conc = 8 + 8*(j%4)
				add(sp)
			}
			n := 600
			if tier == "thorough" {
				n = 60000
			}
			for i := 0; i < n; i++ {
				kind := 0
				if r.Pct(35) {
					kind = 1 + r.Intn(5)
				}
				var next []string
				if kind != 0 && kind != 4 {
					for k := r.Intn(4); k > 0; k-- {
						switch {
						case r.Pct(30):
							next = append(next, "")
						case r.Pct(30):
							next = append(next, pick(r, c18Words)+"\n"+pick(r, c18Shorts))
						default:
							next = append(next, c18Rand(r))
						}
					}
				}
				s := c18Rand(r)
				if r.Pct(10) {
					s = pick(r, c18Words) + "\n" + c18Rand(r)
				}
				rmode := 1 + r.Intn(5)
				if r.Pct(10) {
					rmode = 0
				}
				sp := c18SpecFull(s, kind, next, rmode)
				if (kind == 1 || kind == 2 || kind == 3 || kind == 5) && r.Pct(25) {
					// the item's text method fails at some of the calls
					sp.RMode = 0
					sp.FailHow = 1 + r.Intn(6)
					sp.Fails = make([]bool, 1+len(next))
					for k := 1; k < len(sp.Fails); k++ {
						sp.Fails[k] = r.Pct(50)
					}
					if kind != 5 && r.Pct(15) {
						sp.Fails[0] = true
						if r.Pct(40) {
							sp.FailHow = 7
						}
					}
				}
				add(sp)
			}
			for _, sp := range c18GenFailing(tier) {
				add(sp)
			}
			for _, sp := range c18GenHistories(r, tier) {
				add(sp)
			}
			return out
		},
		Run: func(spec json.RawMessage) CaseOut {
			var sp C18Spec
			if err := json.Unmarshal(spec, &sp); err != nil {
				panic(err)
			}
			if (sp.Conc > 0 || sp.Vol != nil || len(sp.Pre) > 0) && os.Getenv("C18_CHILD") == "" {
				// a data race inside the library can take the whole process down
				// (torn string headers), and what a process has measured before is part
				// of a history case: run it in a child of its own
				return c18RunInChild(spec, sp)
			}
			return c18RunHere(sp)
		},
		Shrink: func(spec json.RawMessage) []json.RawMessage {
			var sp C18Spec
			if err := json.Unmarshal(spec, &sp); err != nil {
				return nil
			}
			var out []json.RawMessage
			add := func(c C18Spec) { out = append(out, mustJSON(c)) }
			if sp.Grid != nil {
				for _, c := range c18GridShrink(sp) {
					add(c)
				}
				return out
			}
			if sp.Vol != nil {
				// which earlier cell is to blame: probes in fresh processes
				for _, c := range c18Locate(sp) {
					add(c)
				}
				return out
			}
			if len(sp.Pre) > 0 {
				for i := range sp.Pre {
					c := sp
					c.Pre = append(append([][]byte{}, sp.Pre[:i]...), sp.Pre[i+1:]...)
					c.PreQ = nil
					for _, t := range c.Pre {
						c.PreQ = append(c.PreQ, fmt.Sprintf("%q", t))
					}
					add(c)
				}
				return out
			}
			s := string(sp.S)
			dropFail := func(fs []bool, k int) []bool { // without entry k
				if k >= len(fs) {
					return fs
				}
				return append(append([]bool{}, fs[:k]...), fs[k+1:]...)
			}
			if c18AnyFail(sp.Fails) {
				if sp.FailHow > 1 && sp.FailHow != 7 {
					c := sp
					c.FailHow = 1
					add(c)
				}
				for k, f := range sp.Fails {
					if f {
						c := sp
						c.Fails = append([]bool{}, sp.Fails...)
						c.Fails[k] = false
						add(c)
					}
				}
			}
			if len(sp.Next) > 0 {
				c := sp
				c.Next, c.NextQ = nil, nil
				if len(c.Fails) > 1 {
					c.Fails = c.Fails[:1]
				}
				add(c)
				for i := range sp.Next {
					c := sp
					c.Next = append(append([][]byte{}, sp.Next[:i]...), sp.Next[i+1:]...)
					c.NextQ = nil
					c.Fails = dropFail(sp.Fails, 1+i)
					add(c)
					if len(sp.Next[i]) > 1 {
						c := sp
						c.Next = append([][]byte{}, sp.Next...)
						c.Next[i] = sp.Next[i][:len(sp.Next[i])/2]
						c.NextQ = nil
						add(c)
					}
				}
			}
			if sp.RMode != 0 {
				c := sp
				c.RMode = 0
				add(c)
				if sp.RMode > 2 {
					c := sp
					c.RMode = 1
					add(c)
				}
				if sp.RMode > 3 {
					c := sp
					c.RMode = 3
					add(c)
				}
			}
			if sp.Conc > 0 {
				c := sp
				c.Conc = 0
				add(c)
			}
			if sp.Kind != 0 {
				c := sp
				c.Kind = 0
				add(c)
				if sp.Kind != 1 {
					c := sp
					c.Kind = 1
					add(c)
				}
			}
			if len(s) > 1 {
				add(sp.with(s[:len(s)/2]))
				add(sp.with(s[len(s)/2:]))
			}
			for i := 0; i < len(s); i++ {
				add(sp.with(s[:i] + s[i+1:]))
			}
			for i := 0; i < len(s); i++ {
				if s[i] != 'a' && s[i] != '\n' {
					add(sp.with(s[:i] + "a" + s[i+1:]))
				}
			}
			return out
		},
	})
}
