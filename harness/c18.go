package main

// C18 - line and width metrics are mutually consistent.
//
// Per case: one string s and a way of storing it in a cell.  The real
// functions are run (length.Lines, String*, LongestLine*, Cell.String /
// Lines / Height / TerminalCellWidth) and their results are shipped together
// with oracle tables taken from the real go-runewidth / uniseg: the grapheme
// clusters of s and of each of its lines, and RuneWidth of every rune.

import (
	"encoding/json"
	"fmt"
	"sort"
	"strings"
	"unicode/utf8"

	"github.com/mattn/go-runewidth"
	"github.com/rivo/uniseg"
	"go.pennock.tech/tabular"
	"go.pennock.tech/tabular/length"
)

type C18Spec struct {
	S    []byte `json:"s"`
	Q    string `json:"q,omitempty"` // preview of S
	Kind int    `json:"kind,omitempty"`
}

func c18Spec(s string, kind int) C18Spec {
	return C18Spec{S: []byte(s), Q: fmt.Sprintf("%q", s), Kind: kind}
}

type meas struct{ B, R, C int }

func (m meas) Coq() string {
	return fmt.Sprintf("(%s, %s, %s)", cqNat(m.B), cqNat(m.R), cqNat(m.C))
}

type C18Obs struct {
	Panic  string   `json:"panic,omitempty"`
	Lines  []string `json:"lines"`
	LMeas  []meas   `json:"line_measures"`
	Whole  meas     `json:"whole"`
	Long   meas     `json:"longest"`
	CText  string   `json:"cell_text"`
	CLines []string `json:"cell_lines"`
	CH     int      `json:"cell_height"`
	CW     int      `json:"cell_width"`
	Sig    string   `json:"sig,omitempty"`
}

func cqStrs(xs []string) string {
	out := make([]string, len(xs))
	for i, x := range xs {
		out[i] = cqStr(x)
	}
	return cqList(out)
}

func (o C18Obs) Coq() string {
	if o.Panic != "" {
		return "Panic"
	}
	ms := make([]string, len(o.LMeas))
	for i, m := range o.LMeas {
		ms[i] = m.Coq()
	}
	return fmt.Sprintf("(Ok (mkObs18 %s %s %s %s %s %s %s %s))", cqStrs(o.Lines), cqList(ms), o.Whole.Coq(), o.Long.Coq(),
		cqStr(o.CText), cqStrs(o.CLines), cqZ(int64(o.CH)), cqZ(int64(o.CW)))
}

// the item that carries s into the cell
func c18Item(s string, kind int) interface{} {
	switch kind {
	case 1:
		v, _ := newObj(1, objData{s: s})
		return v
	case 2:
		v, _ := newObj(4, objData{e: s})
		return v
	case 3:
		v, _ := newObj(2, objData{g: s})
		return v
	case 4:
		return tabular.NewCell(s)
	}
	return s
}

func c18Observe(s string, kind int) (o C18Obs) {
	defer func() {
		if r := recover(); r != nil {
			o = C18Obs{Panic: fmt.Sprint(r)}
		}
	}()
	m := func(x string) meas {
		return meas{length.StringBytes(x), length.StringRunes(x), length.StringCells(x)}
	}
	o.Lines = length.Lines(s)
	if o.Lines == nil {
		o.Lines = []string{}
	}
	for _, l := range o.Lines {
		o.LMeas = append(o.LMeas, m(l))
	}
	o.Whole = m(s)
	o.Long = meas{length.LongestLineBytes(s), length.LongestLineRunes(s), length.LongestLineCells(s)}
	c := tabular.NewCell(c18Item(s, kind))
	o.CText = c.String()
	o.CLines = c.Lines()
	if o.CLines == nil {
		o.CLines = []string{}
	}
	o.CH = c.Height()
	o.CW = c.TerminalCellWidth()
	return o
}

// the harness's own line splitter (terminator semantics), used only to decide
// for which strings oracle data is shipped
func ownLines(s string) []string {
	var out []string
	cur := ""
	for i := 0; i < len(s); i++ {
		if s[i] == '\n' {
			out = append(out, cur)
			cur = ""
		} else {
			cur += string(s[i : i+1])
		}
	}
	if cur != "" {
		out = append(out, cur)
	}
	return out
}

// oracle tables from the real libraries
func c18Oracle(strs []string) (segTab string, rwTab string, cwTab string) {
	seen := map[string]bool{}
	seenCl := map[string]bool{}
	rws := map[rune]int{}
	var segs, cws []string
	for _, x := range strs {
		if seen[x] {
			continue
		}
		seen[x] = true
		var cls []string
		g := uniseg.NewGraphemes(x)
		for g.Next() {
			var rs []string
			for _, r := range g.Runes() {
				rs = append(rs, cqZ(int64(r)))
				rws[r] = runewidth.RuneWidth(r)
			}
			cls = append(cls, cqList(rs))
			if !seenCl[g.Str()] {
				seenCl[g.Str()] = true
				cws = append(cws, cqPair(cqList(rs), cqNat(runewidth.StringWidth(g.Str()))))
			}
		}
		segs = append(segs, cqPair(cqStr(x), cqList(cls)))
	}
	var keys []int
	for r := range rws {
		keys = append(keys, int(r))
	}
	sort.Ints(keys)
	var ws []string
	for _, k := range keys {
		w := rws[rune(k)]
		if w < 0 {
			panic("negative rune width from the library")
		}
		ws = append(ws, cqPair(cqZ(int64(k)), cqNat(w)))
	}
	return cqList(segs), cqList(ws), cqList(cws)
}

func c18Tags(s string, kind int) []string {
	tags := []string{fmt.Sprintf("kind=%d", kind)}
	n := len(s)
	switch {
	case n == 0:
		tags = append(tags, "len=0")
	case n <= 4:
		tags = append(tags, "len=1-4")
	case n <= 12:
		tags = append(tags, "len=5-12")
	default:
		tags = append(tags, "len>12")
	}
	nl := strings.Count(s, "\n")
	switch {
	case nl == 0:
		tags = append(tags, "lf=0")
	case nl == 1:
		tags = append(tags, "lf=1")
	default:
		tags = append(tags, "lf>=2")
	}
	t := 0
	for t < len(s) && s[len(s)-1-t] == '\n' {
		t++
	}
	if t > 2 {
		t = 2
	}
	tags = append(tags, fmt.Sprintf("trailing-lf=%d", t))
	if strings.HasPrefix(s, "\n") {
		tags = append(tags, "leading-lf")
	}
	if !utf8.ValidString(s) {
		tags = append(tags, "invalid-utf8")
	}
	wide, zero, multi := false, false, false
	for _, r := range s {
		if r >= 0x80 {
			multi = true
		}
		switch runewidth.RuneWidth(r) {
		case 2:
			wide = true
		case 0:
			if r != '\n' {
				zero = true
			}
		}
	}
	if multi {
		tags = append(tags, "multibyte")
	}
	if wide {
		tags = append(tags, "double-width")
	}
	if zero {
		tags = append(tags, "zero-width")
	}
	if strings.Contains(s, "\r") {
		tags = append(tags, "cr")
	}
	return tags
}

var c18Atoms = []string{
	"a", "b", " ", "\t", "\r", "\n", "\n", "\n\n", "\r\n", "世", "界", "é", "é", "́", "̈",
	"‍", "👨‍👩‍👧", "❤️", "️", "​", "🇩🇪", "🇩", "😀", "ｱ", "한", "가", "กำ",
	"\xff", "\xc3", "\xe4\xb8", "\xf0\x9f", "\xed\xa0\x80", "\xc0\x80", "\xf4\x90\x80\x80", "\x80", "\x00", "\x7f", "­", "\u0085",
	"Ź̈", "　", "―", " ",
}

func c18Rand(r *RNG) string {
	var sb strings.Builder
	n := 1 + r.Intn(8)
	for i := 0; i < n && sb.Len() < 24; i++ {
		switch {
		case r.Pct(80):
			sb.WriteString(pick(r, c18Atoms))
		case r.Pct(50):
			sb.WriteByte(byte(r.Intn(256)))
		default:
			// a random scalar value, possibly astral
			sb.WriteString(string(rune(r.Intn(0x30000))))
		}
	}
	if r.Pct(25) {
		sb.WriteString(strings.Repeat("\n", 1+r.Intn(3)))
	}
	return sb.String()
}

func init() {
	register(&Prop{
		ID:       "C18",
		Imports:  "From Tab Require Import Run.Glue Run.C18Run.",
		CaseType: "(c18_in * res c18_obs)",
		CaseFn:   "C18_case",
		ModelFn:  "C18_model",
		Rule: "one string per case, measured by length.Lines / StringBytes / StringRunes / StringCells / LongestLine{Bytes,Runes,Cells} and stored in a cell " +
			"(as a string; for short strings also behind String(), Error(), GoString() and as a nested Cell) whose String / Lines / Height / TerminalCellWidth are read; " +
			"every string of up to 4 (quick) or 5 (thorough) symbols over {LF, 'a', U+4E16 (3 bytes, double width), U+0301 (combining), byte 0xFF}, and random strings up to ~30 bytes over " +
			"CJK, combining marks, ZWJ emoji sequences, VS16, regional indicators, tabs, CR, CRLF, NUL, DEL, soft hyphen and ill-formed UTF-8 (truncated, overlong, surrogate, > U+10FFFF, stray continuation), with leading/repeated/trailing newlines; " +
			"grapheme clusters and rune widths of the string and of each line are taken from the real uniseg / go-runewidth and the three oracle assumptions are checked on them; " +
			"a case is non-trivial when the string is not empty; distinct = distinct (string, item kind)",
		Exhaustive: "all strings of length <= 4 (quick: 781) / <= 5 (thorough: 3906) over the 5-symbol alphabet stored as a string, and all of length <= 3 also in the four other item kinds",
		Gen: func(r *RNG, tier string) []json.RawMessage {
			var out []json.RawMessage
			add := func(s string, kind int) { out = append(out, mustJSON(c18Spec(s, kind))) }
			alpha := []string{"\n", "a", "世", "́", "\xff"}
			maxLen := 4
			if tier == "thorough" {
				maxLen = 5
			}
			var rec func(prefix string, n int)
			rec = func(prefix string, n int) {
				add(prefix, 0)
				if n <= 3 {
					for k := 1; k <= 4; k++ {
						add(prefix, k)
					}
				}
				if n == maxLen {
					return
				}
				for _, a := range alpha {
					rec(prefix+a, n+1)
				}
			}
			rec("", 0)
			n := 1500
			if tier == "thorough" {
				n = 60000
			}
			for i := 0; i < n; i++ {
				kind := 0
				if r.Pct(30) {
					kind = 1 + r.Intn(4)
				}
				add(c18Rand(r), kind)
			}
			return out
		},
		Run: func(spec json.RawMessage) CaseOut {
			var sp C18Spec
			if err := json.Unmarshal(spec, &sp); err != nil {
				panic(err)
			}
			s := string(sp.S)
			o := c18Observe(s, sp.Kind)
			strs := append([]string{s}, ownLines(s)...)
			segTab, rwTab, cwTab := c18Oracle(strs)
			in := fmt.Sprintf("(mkIn18 %s %s %s %s %s)", cqStr(s), cqNat(sp.Kind), segTab, rwTab, cwTab)
			return CaseOut{
				Coq:        cqPair(in, o.Coq()),
				Desc:       o,
				Size:       len(s)*8 + sp.Kind,
				Tags:       c18Tags(s, sp.Kind),
				Key:        fmt.Sprintf("%d:%s", sp.Kind, s),
				Nontrivial: len(s) > 0,
			}
		},
		Shrink: func(spec json.RawMessage) []json.RawMessage {
			var sp C18Spec
			if err := json.Unmarshal(spec, &sp); err != nil {
				return nil
			}
			var out []json.RawMessage
			s := string(sp.S)
			if sp.Kind != 0 {
				out = append(out, mustJSON(c18Spec(s, 0)))
			}
			if len(s) > 1 {
				out = append(out, mustJSON(c18Spec(s[:len(s)/2], sp.Kind)), mustJSON(c18Spec(s[len(s)/2:], sp.Kind)))
			}
			for i := 0; i < len(s); i++ {
				out = append(out, mustJSON(c18Spec(s[:i]+s[i+1:], sp.Kind)))
			}
			for i := 0; i < len(s); i++ {
				if s[i] != 'a' && s[i] != '\n' {
					out = append(out, mustJSON(c18Spec(s[:i]+"a"+s[i+1:], sp.Kind)))
				}
			}
			return out
		},
	})
}
