package main

// Shared by C17 and C19: the decoration registry is process-global and has no
// "unregister", so every registry world (a sequence of registrations) runs in
// its own child process: the harness re-executes its own binary in a worker
// mode (`vharness C17worker` / `vharness C19worker`, spec on stdin, JSON
// observations on stdout).  The child runs with
// GORACE="halt_on_error=1 exitcode=66"; a race report on its stderr becomes
// part of the observation (race=true + the report text).

import (
	"bytes"
	"context"
	"encoding/json"
	"fmt"
	"os"
	"os/exec"
	"strconv"
	"strings"
	"sync"
	"time"

	"go.pennock.tech/tabular"
	"go.pennock.tech/tabular/texttable"
	"go.pennock.tech/tabular/texttable/decoration"
)

// ---- names travel through JSON in Go-quoted form (byte exact, readable)

func qname(s string) string {
	q := strconv.Quote(s)
	return q[1 : len(q)-1]
}

func unq(s string) string {
	u, err := strconv.Unquote(`"` + s + `"`)
	if err != nil {
		panic(fmt.Sprintf("bad quoted name %q: %v", s, err))
	}
	return u
}

// ---- decoration palette: a decoration is shipped as its palette index
// (Decoration is a comparable struct; the library itself compares with ==).
//   0 = EmptyDecoration, 1..6 = the six documented built-ins (by constructor),
//   7.. = complete application decorations with distinct glyphs.

const decUnknown = 9999

var (
	paletteOnce sync.Once
	regPalette  []decoration.Decoration
	regUsable   []bool
	outToID     map[string]int
)

func customDecoration(h, v, x string) decoration.Decoration {
	d := decoration.Decoration{Horizontal: h, Vertical: v, CrossPiece: x}
	d.Populate()
	return d
}

// A decoration written out field by field, the way an application that does
// not call Populate would: every field the renderer uses is set, the
// "unused-for-render" templates (Horizontal, Vertical, TopDown, VBorder) are not.
func explicitDecoration() decoration.Decoration {
	return decoration.Decoration{
		CrossPiece: "x", HOuter: "=", HRule: ".", VHeader: "H", VBodyBorder: "B", VBodyInner: "i",
		TopLeft: "1", TopRight: "2", BottomLeft: "3", BottomRight: "4", LeftBodyRule: "l", RightBodyRule: "r",
		HTopDown: "t", BTopDown: "T", BBottomUp: "u", HBCross: "c", HBLeft: "[", HBRight: "]",
	}
}

func goodTable() tabular.Table {
	t := tabular.New()
	t.AddHeaders("h1", "h2")
	t.AddRowItems("a", "b")
	return t
}

// Table shapes of a C17 world: 0 = the good table; the others have no column at all.
const c17Shapes = 5

var shapeNames = []string{"good", "no-rows", "separators-only", "row-left-empty", "rows-of-no-items"}

func fillShape(t tabular.Table, shape int) {
	switch shape {
	case 0:
		t.AddHeaders("h1", "h2")
		t.AddRowItems("a", "b")
	case 1:
	case 2:
		t.AddSeparator()
		t.AddSeparator()
	case 3:
		t.AppendNewRow()
	case 4:
		t.AddRowItems()
		t.AddSeparator()
		t.AddRowItems()
	}
}

func shapeTable(shape int) tabular.Table {
	t := tabular.New()
	fillShape(t, shape)
	return t
}

var (
	// per shape: output -> the smallest palette decoration producing it, and
	// palette decoration -> that representative
	shapeOutToID []map[string]int
	shapeRep     [][]int
)

func paletteInit() {
	paletteOnce.Do(func() {
		defer func() {
			shapeOutToID = make([]map[string]int, c17Shapes)
			shapeRep = make([][]int, c17Shapes)
			shapeOutToID[0] = outToID
			for s := 0; s < c17Shapes; s++ {
				shapeRep[s] = make([]int, len(regPalette))
				for i := range shapeRep[s] {
					shapeRep[s][i] = i
				}
				if s == 0 {
					continue
				}
				shapeOutToID[s] = map[string]int{}
				for i, d := range regPalette {
					if i == 0 {
						continue
					}
					out, err := texttable.Wrap(shapeTable(s)).SetDecoration(d).Render()
					if err != nil {
						continue
					}
					if first, seen := shapeOutToID[s][out]; seen {
						shapeRep[s][i] = first
					} else {
						shapeOutToID[s][out] = i
					}
				}
			}
		}()
		regPalette = []decoration.Decoration{
			decoration.EmptyDecoration,
			decoration.ASCIIBoxSimple(),
			decoration.NoBox(),
			decoration.UTF8BoxLight(),
			decoration.UTF8BoxLightCurved(),
			decoration.UTF8BoxHeavy(),
			decoration.UTF8BoxDouble(),
			customDecoration("=", "!", "#"),
			customDecoration("~", ":", "*"),
			customDecoration("_", "I", "o"),
			// not the zero value, so not EmptyDecoration - whichever fields are set:
			explicitDecoration(),                               // 10: render fields only, no Populate
			{Horizontal: "h", Vertical: "v"},                   // 11: only the two templates, nothing the renderer draws
			{HOuter: "-"},                                      // 12: one single field
			{VBodyInner: "/", VHeader: "\\", VBodyBorder: "!"}, // 13: verticals only
		}
		outToID = map[string]int{}
		for i, d := range regPalette {
			if i == 0 {
				regUsable = append(regUsable, false)
				continue
			}
			// usable = anything but the zero value: the text renderer draws empty glyphs for
			// empty fields and refuses only EmptyDecoration.  (The flag is NOT taken from a
			// trial rendering: a library that wrongly refuses one of these must disagree with
			// the model, not adjust it.)  The direct rendering (SetDecoration, no registry)
			// only names the output.
			regUsable = append(regUsable, true)
			out, err := texttable.Wrap(goodTable()).SetDecoration(d).Render()
			if err != nil {
				continue
			}
			if _, dup := outToID[out]; dup {
				panic(fmt.Sprintf("palette decoration %d renders like another one", i))
			}
			outToID[out] = i
		}
	})
}

func decID(d decoration.Decoration) int {
	for i, p := range regPalette {
		if d == p {
			return i
		}
	}
	return decUnknown
}

func cqDec(id int) string {
	if id == 0 {
		return "DEmpty"
	}
	u := false
	if id > 0 && id < len(regUsable) {
		u = regUsable[id]
	}
	return fmt.Sprintf("(DVal %d%%N %s)", id, cqBool(u))
}

// ---- result of a render-like call, canonicalised: which palette decoration
// (or which direct renderer) produced exactly this output

type RRes struct {
	K     string `json:"k"` // ok | err | panic
	ID    int    `json:"id,omitempty"`
	Empty bool   `json:"empty,omitempty"` // on err: the returned string is ""
	Out   string `json:"out,omitempty"`   // only when the output is not recognised
	Msg   string `json:"msg,omitempty"`
}

func (r RRes) Coq() string {
	switch r.K {
	case "ok":
		return fmt.Sprintf("(ROk %d%%N)", r.ID)
	case "err":
		return "(RErr " + cqBool(r.Empty) + ")"
	default:
		return "RPanic"
	}
}

// constructor form (cheaper to elaborate in bulk; Run/C19Run.v)
func (r RRes) CoqC() string {
	switch r.K {
	case "ok":
		return fmt.Sprintf("(RK %d)", r.ID)
	case "err":
		return "(RE " + cqBool(r.Empty) + ")"
	default:
		return "RP"
	}
}

func renderRes(f func() (string, error), ids map[string]int) (r RRes) {
	defer func() {
		if p := recover(); p != nil {
			r = RRes{K: "panic", Msg: fmt.Sprint(p)}
		}
	}()
	out, err := f()
	if err != nil {
		return RRes{K: "err", Empty: out == "", Msg: err.Error()}
	}
	id, ok := ids[out]
	if !ok {
		return RRes{K: "ok", ID: decUnknown, Out: fmt.Sprintf("%q", out)}
	}
	return RRes{K: "ok", ID: id}
}

// ---- the registry as found at world start

type InitEnt struct {
	N string `json:"n"`
	D int    `json:"d"`
}

func dumpRegistry() []InitEnt {
	var out []InitEnt
	for _, n := range decoration.RegisteredDecorationNames() {
		out = append(out, InitEnt{N: qname(n), D: decID(decoration.Named(n))})
	}
	return out
}

// the registry as documented (styles.go), for worlds that must not consult it
// before their first registration
func assumedInit() []InitEnt {
	return []InitEnt{{"ascii-simple", 1}, {"none", 2}, {"utf8-double", 6}, {"utf8-heavy", 5}, {"utf8-light", 3}, {"utf8-light-curved", 4}}
}

// ---- name table for Coq terms: each distinct byte string is bound once

type nameTable struct {
	idx   map[string]int
	names []string
	uses  []int
}

func newNameTable() *nameTable { return &nameTable{idx: map[string]int{}} }

// ref takes the raw (unquoted) name.  Names used once or twice are written
// inline (a chain of several hundred lets elaborates slowly); names used often
// are let-bound once.
func (nt *nameTable) ref(raw string) string {
	i, ok := nt.idx[raw]
	if !ok {
		i = len(nt.names)
		nt.idx[raw] = i
		nt.names = append(nt.names, raw)
		nt.uses = append(nt.uses, 0)
	}
	nt.uses[i]++
	return fmt.Sprintf("\x00n%d\x00", i)
}

func (nt *nameTable) wrap(body string) string {
	var sb strings.Builder
	sb.WriteString("(")
	repl := make([]string, 0, 2*len(nt.names))
	for i, n := range nt.names {
		key := fmt.Sprintf("\x00n%d\x00", i)
		if nt.uses[i] >= 4 {
			fmt.Fprintf(&sb, "let n%d := %s in ", i, cqStr(n))
			repl = append(repl, key, fmt.Sprintf("n%d", i))
		} else {
			repl = append(repl, key, cqStr(n))
		}
	}
	sb.WriteString(strings.NewReplacer(repl...).Replace(body))
	sb.WriteString(")")
	return sb.String()
}

// ---- child processes

type childResult struct {
	Stdout []byte
	Stderr string
	Exit   int
	Race   bool
	Crash  bool // any abnormal end other than a race report
}

func runChild(mode string, spec []byte) childResult {
	exe, err := os.Executable()
	if err != nil {
		exe = os.Args[0]
	}
	ctx, cancel := context.WithTimeout(context.Background(), 300*time.Second)
	defer cancel()
	cmd := exec.CommandContext(ctx, exe, mode)
	cmd.Stdin = bytes.NewReader(spec)
	var so, se bytes.Buffer
	cmd.Stdout = &so
	cmd.Stderr = &se
	env := []string{}
	for _, e := range os.Environ() {
		if !strings.HasPrefix(e, "GORACE=") {
			env = append(env, e)
		}
	}
	cmd.Env = append(env, "GORACE=halt_on_error=1 exitcode=66 atexit_sleep_ms=0")
	err = cmd.Run()
	res := childResult{Stdout: so.Bytes(), Stderr: se.String()}
	if err != nil {
		res.Exit = -1
		if ee, ok := err.(*exec.ExitError); ok {
			res.Exit = ee.ExitCode()
		}
	}
	if strings.Contains(res.Stderr, "WARNING: DATA RACE") || res.Exit == 66 {
		res.Race = true
	} else if err != nil {
		res.Crash = true
	}
	return res
}

// children run in parallel ahead of time (Gen), Run looks the result up
var (
	childCacheMu sync.Mutex
	childCache   = map[string]childResult{}
)

func prefetchChildren(mode string, specs []json.RawMessage, workers int) {
	var wg sync.WaitGroup
	ch := make(chan json.RawMessage)
	for w := 0; w < workers; w++ {
		wg.Add(1)
		go func() {
			defer wg.Done()
			for s := range ch {
				r := runChild(mode, s)
				childCacheMu.Lock()
				childCache[mode+"\x00"+string(s)] = r
				childCacheMu.Unlock()
			}
		}()
	}
	for _, s := range specs {
		ch <- s
	}
	close(ch)
	wg.Wait()
}

func childFor(mode string, spec json.RawMessage) childResult {
	childCacheMu.Lock()
	r, ok := childCache[mode+"\x00"+string(spec)]
	childCacheMu.Unlock()
	if ok {
		return r
	}
	return runChild(mode, spec)
}

func trunc(s string, n int) string {
	if len(s) > n {
		return s[:n] + "…"
	}
	return s
}
