package main

// C06, the wrapper as a LONG-LIVED object.  A case of this kind is a history
// over several tables and several *html.HTMLTable wrappers, using everything
// the package exports: html.Wrap, html.New (the table built through the
// wrapper's promoted methods), a by-value copy of a wrapper (w2 := *w1), the
// exported embedded field re-assigned (w.Table = other), Id / Class / Caption /
// TemplateName and the row-class generator with its context set again, tables
// built further or re-headed between renders (directly or through a wrapper
// that points at them), Render and RenderTo, renders that fail part-way.
// EVERY successful render is judged: against the view computed from the SPEC of
// the table the wrapper points at at that moment (as built so far) and the
// settings the wrapper has at that moment.  Coq reads the expectation off the
// history (Spec/HtmlWrapSpec.v) and runs the wrapper machine of
// Model/HtmlWrap.v for the correspondence.
//
// The row-class generator's values come from its CONTEXT argument (the script
// registered together with the function), so that a render which reaches a
// generator or a context of an earlier registration shows other class values
// than the ones expected from the spec.

import (
	"encoding/json"
	"fmt"
	"html/template"
	"strings"

	"go.pennock.tech/tabular"
	"go.pennock.tech/tabular/csv"
	"go.pennock.tech/tabular/html"
	"go.pennock.tech/tabular/texttable"
)

type c06HOp struct {
	// wrap  : wrapper W := html.Wrap(table T)
	// new   : wrapper W := html.New(); Spec is built through W; W.Table is a new table (next index)
	// copy  : wrapper W := *(wrapper From), by value
	// point : W.Table = table T
	// conf  : W.Id, W.Class, W.Caption = R...; W.SetRowClassGenerator(...) per R.Gen (Ctx: how)
	// name  : W.TemplateName = Name
	// grow  : Row is added to table T (Via: to the table W points at, through W's promoted methods)
	// rehead: AddHeaders(Hdr...) on table T (Via: through W)
	// render: W.Render() (To 0) / W.RenderTo(a collecting writer that is not a *bytes.Buffer) (To 1); judged
	// fail  : a render of W that fails (Fault); not judged
	K     string      `json:"k"`
	W     int         `json:"w"`
	From  int         `json:"from,omitempty"`
	T     int         `json:"t,omitempty"`
	Via   bool        `json:"via,omitempty"`
	R     *c06Render  `json:"r,omitempty"`
	Ctx   int         `json:"ctx,omitempty"` // 0: a fresh closure that owns its script, registered with the script as context; 1: the case's one shared function, the script only in the context
	Name  string      `json:"name,omitempty"`
	Row   *RowSpec    `json:"row,omitempty"`
	Hdr   *[]ItemSpec `json:"hdr,omitempty"`
	Spec  *TableSpec  `json:"spec,omitempty"`
	To    int         `json:"to,omitempty"`
	Fault *c06Fault   `json:"fault,omitempty"`
	// Nest (wrap, point): what the wrapper is given is not the table itself but
	// another wrapper around it: 1 html.Wrap(t), 2 csv.Wrap(t), 3 texttable.Wrap(t)
	Nest int `json:"nest,omitempty"`
}

func c06Nest(t tabular.Table, how int) (tabular.Table, string) {
	switch how {
	case 1:
		return html.Wrap(t), "html.Wrap(%s)"
	case 2:
		return csv.Wrap(t), "csv.Wrap(%s)"
	case 3:
		return texttable.Wrap(t), "texttable.Wrap(%s)"
	}
	return t, "%s"
}

type c06Hist struct {
	Tables []TableSpec `json:"tables"` // built completely, through the public API, before the first op
	Ops    []c06HOp    `json:"ops"`
}

func (h *c06Hist) fillQ() {
	for i := range h.Ops {
		if rd := h.Ops[i].R; rd != nil {
			rd.Q = fmt.Sprintf("id=%q class=%q caption=%q", rd.Id, rd.Class, rd.Caption)
			if rd.Gen != nil {
				rd.Gen.Q = nil
				for _, v := range rd.Gen.Vals {
					rd.Gen.Q = append(rd.Gen.Q, fmt.Sprintf("%q", v))
				}
			}
		}
	}
}

// the script a generator is registered with (its context)
type c06Script struct{ vals [][]byte }

type c06HTable struct {
	t    tabular.Table
	spec TableSpec // everything built into it so far
}

type c06HWrap struct {
	ht   *html.HTMLTable
	pos  int // the wrapper's number on the Coq side (order of creation)
	cur  int // the table it points at
	rd   c06Render
	used bool // rendered (or copied from a rendered wrapper) before
}

type c06HRun struct {
	cur     *c06Rec // the harness-level render in progress
	panicAt int
	shared  func(int, interface{}) template.HTMLAttr
}

func (hr *c06HRun) genCall(own *c06Script, n int, ctx interface{}) template.HTMLAttr {
	rec := hr.cur
	if rec == nil {
		rec = &c06Rec{}
	}
	if hr.panicAt >= 0 && len(rec.calls) == hr.panicAt {
		panic("c06: scripted panic of the row-class generator")
	}
	sc, _ := ctx.(*c06Script)
	var ret []byte
	switch {
	case sc == nil:
		ret = []byte("generator called with a context that was never registered")
	case own != nil && sc != own:
		ret = []byte("generator called with the context of another registration")
	case len(sc.vals) > 0:
		ret = sc.vals[len(rec.calls)%len(sc.vals)]
	}
	rec.calls = append(rec.calls, n)
	rec.rets = append(rec.rets, ret)
	return template.HTMLAttr(ret)
}

func (hr *c06HRun) configure(w *c06HWrap, rd c06Render, mode int) {
	w.ht.Id, w.ht.Class, w.ht.Caption = string(rd.Id), string(rd.Class), string(rd.Caption)
	w.rd = rd
	if rd.Gen == nil {
		w.ht.SetRowClassGenerator(nil, nil)
		return
	}
	sc := &c06Script{vals: rd.Gen.Vals}
	if mode == 1 {
		w.ht.SetRowClassGenerator(hr.shared, sc)
		return
	}
	w.ht.SetRowClassGenerator(func(n int, ctx interface{}) template.HTMLAttr { return hr.genCall(sc, n, ctx) }, sc)
}

func (hr *c06HRun) render(w *c06HWrap, to int) (Outcome, *c06Rec) {
	rec := &c06Rec{}
	prev := hr.cur
	hr.cur = rec
	defer func() { hr.cur = prev }()
	if to == 1 {
		cw := &collectWriter{failAt: -1}
		return capture(func() (string, error) { err := w.ht.RenderTo(cw); return string(cw.acc), err }), rec
	}
	return capture(w.ht.Render), rec
}

func (hr *c06HRun) failing(w *c06HWrap, f *c06Fault) Outcome {
	rec := &c06Rec{}
	prev := hr.cur
	hr.cur = rec
	defer func() { hr.cur, hr.panicAt = prev, -1 }()
	kind := f.Kind
	if kind == "gen-panic" && w.rd.Gen == nil {
		kind = "writer"
	}
	switch kind {
	case "writer":
		return capture(func() (string, error) { return "", w.ht.RenderTo(&c06FaultWriter{at: f.At}) })
	case "short":
		return capture(func() (string, error) { return "", w.ht.RenderTo(&c06FaultWriter{at: f.At, short: true}) })
	}
	hr.panicAt = f.At
	return capture(w.ht.Render)
}

func specRows(ts TableSpec) int {
	n := 0
	for _, r := range ts.Rows {
		n++
		if r.Twice {
			n++
		}
	}
	return n
}

// an upper bound on the generator calls of any render of the history
func (h *c06Hist) maxCalls() int {
	m, grows := 0, 0
	for _, ts := range h.Tables {
		if n := specRows(ts); n > m {
			m = n
		}
	}
	for _, op := range h.Ops {
		if op.Spec != nil {
			if n := specRows(*op.Spec); n > m {
				m = n
			}
		}
		if op.K == "grow" {
			grows += 2
		}
	}
	return m + grows + 2
}

func cqScript(g *c06Gen, n int) string {
	if g == nil {
		return "None"
	}
	xs := make([]string, n)
	for i := range xs {
		if len(g.Vals) > 0 {
			xs[i] = cqBytes(g.Vals[i%len(g.Vals)])
		} else {
			xs[i] = cqBytes(nil)
		}
	}
	return "(Some " + cqList(xs) + ")"
}

func c06RunHist(h *c06Hist) CaseOut {
	hr := &c06HRun{panicAt: -1}
	hr.shared = func(n int, ctx interface{}) template.HTMLAttr { return hr.genCall(nil, n, ctx) }
	L := h.maxCalls()

	var tables []*c06HTable
	wraps := map[int]*c06HWrap{}
	var ops, obsTerms []string
	var steps []interface{}
	tagset := map[string]bool{"wrapper-history": true}
	var all [][]byte
	size := 0
	okAll, callsOK := true, true
	nRenders := 0

	putTable := func(i int) {
		ops = append(ops, fmt.Sprintf("HTable %s %s", cqNat(i), tables[i].spec.SpecView().Coq(true)))
	}
	for i, ts := range h.Tables {
		t := tabular.New()
		ts.Build(t)
		tables = append(tables, &c06HTable{t: t, spec: ts})
		putTable(i)
		size += 2 + ts.Size()
		steps = append(steps, fmt.Sprintf("t%d := tabular.New(); <built from tables[%d]>", i, i))
	}
	newWrap := func(id int, ht *html.HTMLTable, cur int) *c06HWrap {
		w := &c06HWrap{ht: ht, pos: len(wraps), cur: cur}
		wraps[id] = w
		return w
	}
	// which table an op that builds further acts on, and through what
	target := func(op c06HOp) (int, tabular.Table, string) {
		if op.Via {
			if w := wraps[op.W]; w != nil {
				return w.cur, w.ht, fmt.Sprintf("w%d", op.W)
			}
			return -1, nil, ""
		}
		if op.T < 0 || op.T >= len(tables) {
			return -1, nil, ""
		}
		return op.T, tables[op.T].t, fmt.Sprintf("t%d", op.T)
	}

	for _, op := range h.Ops {
		w := wraps[op.W]
		size += 3
		switch op.K {
		case "wrap":
			if w != nil || op.T < 0 || op.T >= len(tables) {
				continue
			}
			inner, how := c06Nest(tables[op.T].t, op.Nest)
			newWrap(op.W, html.Wrap(inner), op.T)
			ops = append(ops, "HWrap "+cqNat(op.T))
			if op.Nest != 0 {
				tagset["given-another-wrapper-as-its-table"] = true
			}
			steps = append(steps, fmt.Sprintf("w%d := html.Wrap(%s)", op.W, fmt.Sprintf(how, fmt.Sprintf("t%d", op.T))))
		case "new":
			if w != nil || op.Spec == nil {
				continue
			}
			ht := html.New()
			op.Spec.Build(ht) // through the wrapper's promoted methods
			tables = append(tables, &c06HTable{t: ht.Table, spec: *op.Spec})
			i := len(tables) - 1
			putTable(i)
			newWrap(op.W, ht, i)
			ops = append(ops, "HWrap "+cqNat(i))
			size += op.Spec.Size()
			tagset["wrapper-from-html.New"] = true
			steps = append(steps, fmt.Sprintf("w%d := html.New(); <built through w%d from this op's spec>; t%d := w%d.Table", op.W, op.W, i, op.W))
		case "copy":
			src := wraps[op.From]
			if w != nil || src == nil {
				continue
			}
			cp := *src.ht
			nw := newWrap(op.W, &cp, src.cur)
			nw.rd, nw.used = src.rd, src.used
			ops = append(ops, "HCopy "+cqNat(src.pos))
			if src.used {
				tagset["rendered-wrapper-copied-by-value"] = true
			}
			steps = append(steps, fmt.Sprintf("c := *w%d; w%d := &c", op.From, op.W))
		case "point":
			if w == nil || op.T < 0 || op.T >= len(tables) {
				continue
			}
			if w.used && op.T != w.cur {
				tagset["rendered-wrapper-pointed-at-another-table"] = true
			}
			inner, how := c06Nest(tables[op.T].t, op.Nest)
			w.ht.Table = inner
			w.cur = op.T
			ops = append(ops, fmt.Sprintf("HPoint %s %s", cqNat(w.pos), cqNat(op.T)))
			if op.Nest != 0 {
				tagset["given-another-wrapper-as-its-table"] = true
			}
			steps = append(steps, fmt.Sprintf("w%d.Table = %s", op.W, fmt.Sprintf(how, fmt.Sprintf("t%d", op.T))))
		case "conf":
			if w == nil || op.R == nil {
				continue
			}
			rd := *op.R
			rd.Inner, rd.Fault = nil, nil
			hr.configure(w, rd, op.Ctx)
			ops = append(ops, fmt.Sprintf("HConf %s %s %s %s %s", cqNat(w.pos), cqBytes(rd.Id), cqBytes(rd.Class), cqBytes(rd.Caption), cqScript(rd.Gen, L)))
			all = append(all, rd.Id, rd.Class, rd.Caption)
			size += len(rd.Id) + len(rd.Class) + len(rd.Caption)
			g := "no generator"
			if rd.Gen != nil {
				all = append(all, rd.Gen.Vals...)
				for _, x := range rd.Gen.Vals {
					size += 1 + len(x)
				}
				g = fmt.Sprintf("generator returning %q in turn", rd.Gen.Vals)
				if op.Ctx == 1 {
					g += " (shared function, script in the context)"
					tagset["gen=shared-function-other-context"] = true
				}
				if w.used {
					tagset["generator-set-again-after-render"] = true
				}
			}
			steps = append(steps, fmt.Sprintf("w%d.Id, w%d.Class, w%d.Caption = %q, %q, %q; w%d: %s", op.W, op.W, op.W, rd.Id, rd.Class, rd.Caption, op.W, g))
		case "name":
			if w == nil {
				continue
			}
			w.ht.TemplateName = op.Name
			if w.used {
				tagset["template-name-changed-after-render"] = true
			}
			steps = append(steps, fmt.Sprintf("w%d.TemplateName = %q", op.W, op.Name))
		case "grow", "rehead":
			i, through, how := target(op)
			if i < 0 {
				continue
			}
			if op.K == "grow" {
				if op.Row == nil {
					continue
				}
				TableSpec{Rows: []RowSpec{*op.Row}}.Build(through)
				tables[i].spec.Rows = append(append([]RowSpec{}, tables[i].spec.Rows...), *op.Row)
				size += 1 + len(op.Row.Cells)
				steps = append(steps, fmt.Sprintf("<one more row added to t%d through %s>", i, how))
			} else {
				if op.Hdr == nil {
					continue
				}
				hd := *op.Hdr
				TableSpec{Header: &hd}.Build(through)
				if tables[i].spec.Header == nil {
					tables[i].spec.Header = &hd
				} else {
					tables[i].spec.Header2 = &hd
				}
				size += 1 + len(hd)
				tagset["re-headed-between-renders"] = true
				steps = append(steps, fmt.Sprintf("<AddHeaders on t%d through %s>", i, how))
			}
			if op.Via {
				tagset["built-further-through-the-wrapper"] = true
			}
			putTable(i)
		case "render":
			if w == nil {
				continue
			}
			o, rec := hr.render(w, op.To)
			v := tables[w.cur].spec.SpecView()
			want := c06Positional(v)
			if w.rd.Gen == nil {
				want = nil
			}
			ops = append(ops, "HRender "+cqNat(w.pos))
			switch o.Kind {
			case "ok":
				cs := make([]string, len(rec.calls))
				for k, c := range rec.calls {
					if c < 0 {
						c = 1 << 20
					}
					cs[k] = cqNat(c)
				}
				obsTerms = append(obsTerms, "(Ok ("+cqBytes(o.Out)+", "+cqList(cs)+"))")
				if !intsEqual(rec.calls, want) {
					callsOK = false
				}
			case "err":
				obsTerms = append(obsTerms, "Err")
				okAll = false
			default:
				obsTerms = append(obsTerms, "Panic")
				okAll = false
			}
			if w.used {
				tagset["re-render"] = true
			}
			w.used = true
			nRenders++
			tagset["outcome="+o.Kind] = true
			if op.To == 1 {
				tagset["render-via-renderto"] = true
			}
			all = append(all, c06ViewTexts(v)...)
			ro := c06RenderObs{Outcome: o, Calls: rec.calls}
			for _, x := range rec.rets {
				ro.Returns = append(ro.Returns, fmt.Sprintf("%q", x))
			}
			steps = append(steps, map[string]interface{}{
				"step": fmt.Sprintf("w%d.Render()  [w%d.Table is t%d]", op.W, op.W, w.cur), "observed": ro,
				"expected_calls": want, "expected_header": viewRowQ(v.Header), "expected_rows": viewRowsQ(v)})
		case "fail":
			if w == nil || op.Fault == nil {
				continue
			}
			fo := hr.failing(w, op.Fault)
			ops = append(ops, "HRenderFails "+cqNat(w.pos))
			w.used = true
			tagset["failed-render:"+op.Fault.Kind] = true
			steps = append(steps, map[string]interface{}{"step": fmt.Sprintf("w%d: a render that fails", op.W), "fault": op.Fault, "kind": fo.Kind, "err": fo.ErrS, "panic": fo.Panic})
		}
	}
	tagset[fmt.Sprintf("hist:renders=%d", minInt(nRenders, 6))] = true
	tagset[fmt.Sprintf("hist:wrappers=%d", minInt(len(wraps), 4))] = true
	tagset[fmt.Sprintf("hist:tables=%d", minInt(len(tables), 4))] = true
	cls := c06Classes(all...)
	var tags []string
	for k := range tagset {
		tags = append(tags, k)
	}
	tags = append(tags, cls...)
	sig := "html-wrapper-history"
	switch {
	case !okAll:
		sig = "html-wrapper-history-render-fails"
	case !callsOK:
		sig = "html-wrapper-history-rowclass-call-numbers"
	}
	term := "(CHist\n   [" + strings.Join(ops, ";\n    ") + "]\n   [" + strings.Join(obsTerms, ";\n    ") + "])"
	return CaseOut{
		Coq:        term,
		Desc:       map[string]interface{}{"history": steps, "sig": sig},
		Size:       size,
		Tags:       tags,
		Key:        term,
		Nontrivial: len(cls) > 0 && nRenders > 0,
	}
}

func minInt(a, b int) int {
	if a < b {
		return a
	}
	return b
}

func viewRowQ(r *[]VCell) interface{} {
	if r == nil {
		return nil
	}
	out := make([]string, len(*r))
	for i, c := range *r {
		out[i] = fmt.Sprintf("%q", c.Text)
	}
	return out
}

func viewRowsQ(v View) []interface{} {
	out := make([]interface{}, len(v.Rows))
	for i, r := range v.Rows {
		if r == nil {
			out[i] = "separator"
		} else {
			out[i] = viewRowQ(r)
		}
	}
	return out
}

// ---------------------------------------------------------------- shrinking

func c06ShrinkHist(h *c06Hist) []json.RawMessage {
	var out []json.RawMessage
	clone := func() *c06Hist {
		var c c06Hist
		json.Unmarshal(mustJSON(h), &c)
		return &c
	}
	emit := func(c *c06Hist) {
		s := c06Spec{Hist: c}
		s.fillQ()
		out = append(out, mustJSON(s))
	}
	// drop one op (ops that name a wrapper or a table that no longer exists are skipped by the run)
	for i := range h.Ops {
		c := clone()
		c.Ops = append(append([]c06HOp{}, c.Ops[:i]...), c.Ops[i+1:]...)
		emit(c)
	}
	// drop the last table when nothing names it
	if n := len(h.Tables); n > 1 {
		usedLast := false
		for _, op := range h.Ops {
			if (op.K == "wrap" || op.K == "point" || ((op.K == "grow" || op.K == "rehead") && !op.Via)) && op.T >= n-1 {
				usedLast = true
			}
			if op.K == "new" {
				usedLast = true
			}
		}
		if !usedLast {
			c := clone()
			c.Tables = c.Tables[:n-1]
			emit(c)
		}
	}
	for i := range h.Tables {
		for _, ts := range shrinkTable(h.Tables[i]) {
			c := clone()
			c.Tables[i] = ts
			emit(c)
		}
	}
	for i, op := range h.Ops {
		if op.Spec != nil {
			for _, ts := range shrinkTable(*op.Spec) {
				c := clone()
				t := ts
				c.Ops[i].Spec = &t
				emit(c)
			}
		}
		if op.Row != nil && len(op.Row.Cells) > 0 {
			c := clone()
			c.Ops[i].Row.Cells = c.Ops[i].Row.Cells[:len(op.Row.Cells)-1]
			emit(c)
		}
		if op.Row != nil && (op.Row.How != 0 || op.Row.Twice) {
			c := clone()
			c.Ops[i].Row.How, c.Ops[i].Row.Twice = 0, false
			emit(c)
		}
		if op.Via {
			c := clone()
			c.Ops[i].Via = false
			c.Ops[i].T = 0
			emit(c)
		}
		if op.To != 0 {
			c := clone()
			c.Ops[i].To = 0
			emit(c)
		}
		if op.Nest != 0 {
			c := clone()
			c.Ops[i].Nest = 0
			emit(c)
		}
		if op.Ctx != 0 {
			c := clone()
			c.Ops[i].Ctx = 0
			emit(c)
		}
		if op.Fault != nil && op.Fault.At > 0 {
			c := clone()
			c.Ops[i].Fault.At--
			emit(c)
		}
		if rd := op.R; rd != nil {
			fields := []func(*c06Render) *[]byte{
				func(r *c06Render) *[]byte { return &r.Id },
				func(r *c06Render) *[]byte { return &r.Class },
				func(r *c06Render) *[]byte { return &r.Caption },
			}
			for _, f := range fields {
				cur := *f(rd)
				if len(cur) == 0 {
					continue
				}
				for _, nv := range [][]byte{nil, cur[:len(cur)/2]} {
					c := clone()
					*f(c.Ops[i].R) = append([]byte{}, nv...)
					emit(c)
				}
			}
			if g := rd.Gen; g != nil {
				c := clone()
				c.Ops[i].R.Gen = nil
				emit(c)
				for j := range g.Vals {
					c := clone()
					c.Ops[i].R.Gen.Vals = append(append([][]byte{}, g.Vals[:j]...), g.Vals[j+1:]...)
					emit(c)
					if len(g.Vals[j]) > 1 {
						c := clone()
						c.Ops[i].R.Gen.Vals[j] = append([]byte{}, g.Vals[j][:len(g.Vals[j])/2]...)
						emit(c)
					}
				}
			}
		}
	}
	return out
}

// ---------------------------------------------------------------- generation

func c06GenHist(r *RNG, tier string, add func(c06Spec)) {
	hows := []int{0, 0, 1, 2, 3}
	text := c06Text(false)
	strs := func(xs ...string) []ItemSpec {
		out := make([]ItemSpec, len(xs))
		for i, x := range xs {
			out[i] = Str(x)
		}
		return out
	}
	confs := func() []c06Render {
		return []c06Render{
			{Id: []byte("i"), Gen: &c06Gen{Vals: [][]byte{[]byte("a"), []byte("b")}}},
			{Caption: []byte("c<" + c06Str(r, false)), Gen: &c06Gen{}},
			{Class: []byte("k2")},
			{Class: []byte("k"), Gen: &c06Gen{Vals: [][]byte{[]byte("x"), []byte("y"), []byte(c06Str(r, false))}}},
		}
	}

	// (h1) EVERY word up to a small length over the events of a wrapper's life,
	// on two tables of different shapes, followed by a render of every wrapper:
	//   R render the current wrapper          X a render of it that fails
	//   P point it at the other table         C copy it by value, go on with the copy
	//   S go on with the next existing wrapper
	//   F set its fields / generator (next of four settings)
	//   G build the table it points at further (alternately through the wrapper)
	//   W a fresh wrapper around the other table, go on with it
	// Words without any render before the end are left out (a fresh wrapper:
	// every other stream covers that).
	maxLen := 3
	if tier == "thorough" {
		maxLen = 4
	}
	letters := []byte("RXPCSFGW")
	var words func(prefix []byte)
	emitWord := func(word []byte) {
		hA := strs("A1", "A<2>")
		hB := strs("B1", "B&2", "B3")
		tA := TableSpec{Header: &hA, Rows: []RowSpec{{Cells: strs("a1", "a2")}, {How: 1, Cells: []ItemSpec{Str("a3"), text(r)}}}}
		tB := TableSpec{Header: &hB, Rows: []RowSpec{{How: 2, Cells: strs("b1", "b2", "b3")}, {Sep: true}, {Cells: []ItemSpec{text(r), Str("b5"), Str("b6")}}, {How: 3, Cells: strs("b7")}}}
		if len(word)%2 == 1 {
			tB.Header = nil
		}
		cf := confs()
		h := &c06Hist{Tables: []TableSpec{tA, tB}}
		cur, nW, nF, nG := 0, 1, 0, 0
		at := map[int]int{0: 0}
		h.Ops = append(h.Ops, c06HOp{K: "wrap", W: 0, T: 0}, c06HOp{K: "conf", W: 0, R: &cf[3]})
		for k, l := range word {
			switch l {
			case 'R':
				h.Ops = append(h.Ops, c06HOp{K: "render", W: cur, To: k % 2})
			case 'X':
				h.Ops = append(h.Ops, c06HOp{K: "fail", W: cur, Fault: &c06Fault{Kind: []string{"writer", "short", "gen-panic"}[(k+len(word))%3], At: k % 3}})
			case 'P':
				at[cur] = 1 - at[cur]
				h.Ops = append(h.Ops, c06HOp{K: "point", W: cur, T: at[cur]})
			case 'C':
				h.Ops = append(h.Ops, c06HOp{K: "copy", W: nW, From: cur})
				at[nW] = at[cur]
				cur = nW
				nW++
			case 'S':
				cur = (cur + 1) % nW
			case 'F':
				c := cf[nF%3]
				h.Ops = append(h.Ops, c06HOp{K: "conf", W: cur, R: &c, Ctx: nF % 2})
				nF++
			case 'G':
				row := RowSpec{How: nG % 4, Cells: []ItemSpec{Str(fmt.Sprintf("g%d", nG)), text(r)}}
				if nG%3 == 2 {
					row = RowSpec{Sep: true}
				}
				h.Ops = append(h.Ops, c06HOp{K: "grow", W: cur, T: at[cur], Via: nG%2 == 0, Row: &row})
				nG++
			case 'W':
				at[nW] = 1 - at[cur]
				h.Ops = append(h.Ops, c06HOp{K: "wrap", W: nW, T: at[nW]})
				cur = nW
				nW++
			}
		}
		for w := 0; w < nW; w++ {
			h.Ops = append(h.Ops, c06HOp{K: "render", W: (cur + w) % nW})
		}
		add(c06Spec{Hist: h})
	}
	words = func(prefix []byte) {
		if strings.ContainsAny(string(prefix), "RX") {
			emitWord(prefix)
		}
		if len(prefix) == maxLen {
			return
		}
		for _, l := range letters {
			words(append(append([]byte{}, prefix...), l))
		}
	}
	words(nil)

	// (h2) the SECOND use of a wrapper, for every shape of the second table
	// (header in {none,0,1,2 cells} x up to 2 rows over {separator,0,1,2 cells}):
	// a wrapper renders a first table of another, random shape, is pointed at
	// the second one (or copied by value and the copy pointed there), renders,
	// is pointed back and renders again
	nth := 0
	enumShapes(2, 2, func(hc int, rows []int) {
		second := shapeSpec(r, hc, rows, text, hows)
		first := randTable(r, 3, 3, text, hows)
		cf := c06RandRender(r, false)
		h := &c06Hist{Tables: []TableSpec{first, second}}
		h.Ops = []c06HOp{{K: "wrap", W: 0, T: 0}, {K: "conf", W: 0, R: &cf, Ctx: nth % 2}, {K: "render", W: 0, To: nth % 2}}
		w := 0
		if nth%3 == 1 {
			h.Ops = append(h.Ops, c06HOp{K: "copy", W: 1, From: 0})
			w = 1
		}
		h.Ops = append(h.Ops, c06HOp{K: "point", W: w, T: 1}, c06HOp{K: "render", W: w})
		if nth%2 == 0 {
			cf2 := c06RandRender(r, false)
			h.Ops = append(h.Ops, c06HOp{K: "conf", W: w, R: &cf2})
		}
		h.Ops = append(h.Ops, c06HOp{K: "point", W: w, T: 0}, c06HOp{K: "render", W: w, To: 1}, c06HOp{K: "render", W: 0})
		add(c06Spec{Hist: h})
		nth++
	})

	// (h3) random histories: 2-3 random tables with hostile texts (NUL in a
	// share of them), 1-3 wrappers, 6-14 events
	n := 130
	if tier == "thorough" {
		n = 3000
	}
	for i := 0; i < n; i++ {
		add(c06Spec{Hist: c06RandHist(r, i%8 == 7)})
	}
}

func c06RandHist(r *RNG, nul bool) *c06Hist {
	hows := []int{0, 0, 1, 2, 3}
	text := c06Text(nul)
	h := &c06Hist{}
	nT := 2 + r.Intn(2)
	for i := 0; i < nT; i++ {
		h.Tables = append(h.Tables, randTable(r, 4, 4, text, hows))
	}
	nW := 0
	wrapNew := func() {
		if r.Pct(20) {
			sp := randTable(r, 3, 3, text, hows)
			h.Ops = append(h.Ops, c06HOp{K: "new", W: nW, Spec: &sp})
			nT++
		} else {
			op := c06HOp{K: "wrap", W: nW, T: r.Intn(nT)}
			if r.Pct(15) {
				op.Nest = 1 + r.Intn(3)
			}
			h.Ops = append(h.Ops, op)
		}
		nW++
	}
	conf := func(w int) {
		rd := c06RandRender(r, nul)
		h.Ops = append(h.Ops, c06HOp{K: "conf", W: w, R: &rd, Ctx: r.Intn(2)})
	}
	wrapNew()
	if r.Pct(80) {
		conf(0)
	}
	h.Ops = append(h.Ops, c06HOp{K: "render", W: 0, To: r.Intn(2)})
	nOps := 5 + r.Intn(9)
	for k := 0; k < nOps; k++ {
		w := r.Intn(nW)
		switch x := r.Intn(100); {
		case x < 30:
			h.Ops = append(h.Ops, c06HOp{K: "render", W: w, To: r.Intn(2)})
		case x < 48:
			op := c06HOp{K: "point", W: w, T: r.Intn(nT)}
			if r.Pct(15) {
				op.Nest = 1 + r.Intn(3)
			}
			h.Ops = append(h.Ops, op)
			if r.Pct(60) {
				h.Ops = append(h.Ops, c06HOp{K: "render", W: w, To: r.Intn(2)})
			}
		case x < 58:
			if nW < 4 {
				h.Ops = append(h.Ops, c06HOp{K: "copy", W: nW, From: w})
				nW++
			}
		case x < 64:
			if nW < 4 {
				wrapNew()
			}
		case x < 76:
			conf(w)
		case x < 86:
			row := RowSpec{How: pick(r, hows), Cells: make([]ItemSpec, r.Intn(4))}
			for j := range row.Cells {
				row.Cells[j] = text(r)
			}
			if r.Pct(15) {
				row = RowSpec{Sep: true}
			} else if (row.How == 1 || row.How == 3) && r.Pct(15) {
				row.Twice = true
			}
			h.Ops = append(h.Ops, c06HOp{K: "grow", W: w, T: r.Intn(nT), Via: r.Bool(), Row: &row})
		case x < 90:
			hd := make([]ItemSpec, r.Intn(4))
			for j := range hd {
				hd[j] = text(r)
			}
			h.Ops = append(h.Ops, c06HOp{K: "rehead", W: w, T: r.Intn(nT), Via: r.Bool(), Hdr: &hd})
		case x < 95:
			h.Ops = append(h.Ops, c06HOp{K: "fail", W: w, Fault: &c06Fault{Kind: pick(r, []string{"writer", "short", "gen-panic"}), At: r.Intn(4)}})
		default:
			h.Ops = append(h.Ops, c06HOp{K: "name", W: w, Name: pick(r, []string{"", "t", "table", "{{.}}"})})
		}
	}
	// every wrapper is rendered once more at the end
	for w := 0; w < nW; w++ {
		h.Ops = append(h.Ops, c06HOp{K: "render", W: w})
	}
	return h
}
