module verif/harness

go 1.21

require (
	github.com/mattn/go-runewidth v0.0.14
	github.com/rivo/uniseg v0.4.4
	go.pennock.tech/tabular v0.0.0
)

replace go.pennock.tech/tabular => /repo
