module verif/harness

go 1.21

require go.pennock.tech/tabular v0.0.0

require (
	github.com/mattn/go-runewidth v0.0.14 // indirect
	github.com/rivo/uniseg v0.4.4 // indirect
)

replace go.pennock.tech/tabular => /repo
