package main

// C04: every cell line in its own slot, aligned as the column asks; declared
// width / height honoured.  Inputs: the C03 grids crossed with alignment
// assignments (own column property, column-0 default) and with items that
// override TerminalCellWidth() and/or Height().

import (
	"encoding/json"

	"go.pennock.tech/tabular/length"
)

// an item with text s; declW / declH nil = the type has no such method
func sizedItem(s string, declW, declH *int) ItemSpec {
	if declW == nil && declH == nil {
		return Str(s)
	}
	it := ItemSpec{K: "obj", Mask: 1, S: []byte(s)}
	if declH != nil {
		it.Mask |= 8
		it.H = *declH
	}
	if declW != nil {
		it.Mask |= 16
		it.W = *declW
	}
	return it
}

func intp(n int) *int { return &n }

// declared width classes relative to the text's real width, height classes
// relative to its real line count
func widthClasses(s string) []*int {
	w := length.LongestLineCells(s)
	out := []*int{nil, intp(-1), intp(0), intp(w), intp(w + 3), intp(w + 4)}
	if w > 1 {
		out = append(out, intp(w/2))
	} else {
		out = append(out, intp(1))
	}
	return out
}

func heightClasses(s string) []*int {
	n := len(length.Lines(s))
	out := []*int{nil, intp(-1), intp(0), intp(1), intp(n), intp(n + 2)}
	if n > 1 {
		out = append(out, intp(n-1))
	}
	return out
}

func sizedRandItem(r *RNG) ItemSpec {
	s := textString(r)
	if r.Pct(60) {
		return Str(s)
	}
	var w, h *int
	if r.Pct(60) {
		w = pick(r, widthClasses(s))
	}
	if r.Pct(60) {
		h = pick(r, heightClasses(s))
	}
	return sizedItem(s, w, h)
}

func c04RandAlign(r *RNG, ncols int) map[int]int {
	m := map[int]int{}
	for c := 0; c <= ncols; c++ {
		if a := r.Intn(4); a != 0 {
			m[c] = a
		}
	}
	return m
}

// fixed hostile grids of 1, 2 and 3 columns: odd and even slack for centring,
// wide / combining / zero-width / multi-line texts, a short row, a zero-cell row
func hostileGrid(ncols int) TableSpec {
	hs := []ItemSpec{Str("h"), Str("日本"), Str("x\ny")}[:ncols]
	rows := [][]string{
		{"abc", "é", ""},
		{"a", "​", "long text"},
		{},
		{"ab\ncd\n", "ＡＢ", "́x"},
		{"abcd"},
	}
	ts := TableSpec{Header: &hs}
	for i, r := range rows {
		if len(r) > ncols {
			r = r[:ncols]
		}
		cs := make([]ItemSpec, len(r))
		for j, s := range r {
			cs[j] = Str(s)
		}
		ts.Rows = append(ts.Rows, RowSpec{Cells: cs, How: []int{0, 1, 3}[i%3]})
		if i == 1 {
			ts.Rows = append(ts.Rows, RowSpec{Sep: true})
		}
	}
	return ts
}

func c04Gen(r *RNG, tier string) []json.RawMessage {
	var out []json.RawMessage
	// NewRNG(seed) starts consecutive seeds one step apart on the same splitmix
	// stream (the runs re-synchronise after a few draws); re-key from the first
	// output so that different seeds give unrelated streams
	r = NewRNG(r.U64())
	reg := registeredDecs()
	add := func(t TableSpec, d DecSpec) { out = append(out, mustJSON(TextSpec{Table: t, Decs: []DecSpec{d}})) }
	k := 0
	nextReg := func() DecSpec { k++; return reg[k%len(reg)] }

	// every assignment of {unset, left, right, centre} to column 0 and to each column, for 1, 2 and 3 columns
	for ncols := 1; ncols <= 3; ncols++ {
		total := 1
		for i := 0; i <= ncols; i++ {
			total *= 4
		}
		for code := 0; code < total; code++ {
			ts := hostileGrid(ncols)
			ts.Align = map[int]int{}
			c := code
			for col := 0; col <= ncols; col++ {
				if a := c % 4; a != 0 {
					ts.Align[col] = a
				}
				c /= 4
			}
			add(ts, nextReg())
		}
	}

	// every declared width class x every declared height class, on several texts
	texts := []string{"abc", "\x1b[31mred\x1b[0m", "a\nbb\nccc", "日本", "", "x\n", "​"}
	for _, s := range texts {
		for _, w := range widthClasses(s) {
			for _, h := range heightClasses(s) {
				if w == nil && h == nil {
					continue
				}
				hd := []ItemSpec{Str("name"), Str("v")}
				ts := TableSpec{Header: &hd, Rows: []RowSpec{
					{Cells: []ItemSpec{sizedItem(s, w, h), Str("q")}},
					{Cells: []ItemSpec{Str("wider text"), sizedItem(s, w, h)}, How: 1},
				}, Align: map[int]int{}}
				if a := r.Intn(4); a != 0 {
					ts.Align[1] = a
				}
				if a := r.Intn(4); a != 0 {
					ts.Align[0] = a
				}
				add(ts, nextReg())
			}
		}
	}
	// a sized item in the header
	for _, s := range []string{"hd", "a\nb"} {
		for _, w := range widthClasses(s) {
			for _, h := range heightClasses(s) {
				hd := []ItemSpec{sizedItem(s, w, h), Str("v")}
				add(TableSpec{Header: &hd, Rows: []RowSpec{{Cells: []ItemSpec{Str("x"), Str("y\nz")}}}}, nextReg())
			}
		}
	}

	// random grids with random alignments, sized items, registered and custom decorations
	n := 330
	if tier == "thorough" {
		n = 9000
	}
	for i := 0; i < n; i++ {
		ts := randTable(r, 5, 4, sizedRandItem, textHows)
		nc := 0
		if ts.Header != nil {
			nc = len(*ts.Header)
		}
		for _, row := range ts.Rows {
			if len(row.Cells) > nc {
				nc = len(row.Cells)
			}
		}
		ts.Align = c04RandAlign(r, nc)
		d := nextReg()
		if r.Pct(25) {
			d = randDecoration(r)
		}
		add(ts, d)
	}
	return out
}

func init() {
	register(&Prop{
		ID:       "C04",
		Imports:  "From Tab Require Import Run.Glue Run.C04Run.",
		CaseType: "text_case",
		CaseFn:   "C04_case",
		ModelFn:  "C04_model",
		Rule: "the C03 tables crossed with alignment assignments (Column(n).SetProperty(align.PropertyType, Left|Right|Center) for column 0 = all-columns default and each own column) " +
			"and with items of generated types implementing TerminalCellWidth() and/or Height(): declared width in {-1, 0, smaller, equal, larger (odd and even slack)}, declared height in {-1, 0, 1, fewer, equal, more}; " +
			"every assignment of {unset,L,R,C} to column 0 and each column for 1, 2 and 3 columns (4^2 + 4^3 + 4^4 = 336) on a fixed hostile grid; every width class x height class on 7 texts, in body and header; random grids to 4x5 with random alignments, sized items, registered and custom decorations; " +
			"multi-line items declaring a width below one of their lines are outside the statement (tagged excluded:..., still compared with the model); a case is non-trivial when the table has at least one column and no excluded item",
		Exhaustive: "all 336 alignment assignments for <= 3 columns on the fixed grid; all width-class x height-class pairs on 7 body texts and 2 header texts",
		Gen:        c04Gen,
		Run:        runTextSpec,
		Shrink:     shrinkTextJSON,
	})
}
