package main

// C04: every cell line in its own slot, aligned as the column asks; declared
// width / height honoured.  Inputs: the C03 grids crossed with alignment
// assignments (own column property, column-0 default) and with items that
// override TerminalCellWidth() and/or Height().

import (
	"encoding/json"

	"go.pennock.tech/tabular/length"
)

// an item with text s; declW / declH nil = the type has no such method
func sizedItem(s string, declW, declH *int) ItemSpec {
	if declW == nil && declH == nil {
		return Str(s)
	}
	it := ItemSpec{K: "obj", Mask: 1, S: []byte(s)}
	if declH != nil {
		it.Mask |= 8
		it.H = *declH
	}
	if declW != nil {
		it.Mask |= 16
		it.W = *declW
	}
	return it
}

func intp(n int) *int { return &n }

// declared width classes relative to the text's real width, height classes
// relative to its real line count
func widthClasses(s string) []*int {
	w := length.LongestLineCells(s)
	out := []*int{nil, intp(-1), intp(0), intp(w), intp(w + 3), intp(w + 4)}
	if w > 1 {
		out = append(out, intp(w/2))
	} else {
		out = append(out, intp(1))
	}
	return out
}

func heightClasses(s string) []*int {
	n := len(length.Lines(s))
	out := []*int{nil, intp(-1), intp(0), intp(1), intp(n), intp(n + 2)}
	if n > 1 {
		out = append(out, intp(n-1))
	}
	return out
}

func sizedRandItem(r *RNG) ItemSpec {
	s := textString(r)
	if r.Pct(60) {
		return Str(s)
	}
	var w, h *int
	if r.Pct(60) {
		w = pick(r, widthClasses(s))
	}
	if r.Pct(60) {
		h = pick(r, heightClasses(s))
	}
	return sizedItem(s, w, h)
}

func c04RandAlign(r *RNG, ncols int) map[int]int {
	m := map[int]int{}
	for c := 0; c <= ncols; c++ {
		if a := r.Intn(4); a != 0 {
			m[c] = a
		}
	}
	return m
}

// fixed hostile grids of 1, 2 and 3 columns: odd and even slack for centring,
// wide / combining / zero-width / multi-line texts, a short row, a zero-cell row
func hostileGrid(ncols int) TableSpec {
	hs := []ItemSpec{Str("h"), Str("日本"), Str("x\ny")}[:ncols]
	rows := [][]string{
		{"abc", "é", ""},
		{"a", "​", "long text"},
		{},
		{"ab\ncd\n", "ＡＢ", "́x"},
		{"abcd"},
	}
	ts := TableSpec{Header: &hs}
	for i, r := range rows {
		if len(r) > ncols {
			r = r[:ncols]
		}
		cs := make([]ItemSpec, len(r))
		for j, s := range r {
			cs[j] = Str(s)
		}
		ts.Rows = append(ts.Rows, RowSpec{Cells: cs, How: []int{0, 1, 3}[i%3]})
		if i == 1 {
			ts.Rows = append(ts.Rows, RowSpec{Sep: true})
		}
	}
	return ts
}

func c04Gen(r *RNG, tier string) []json.RawMessage {
	var out []json.RawMessage
	// NewRNG(seed) starts consecutive seeds one step apart on the same splitmix
	// stream (the runs re-synchronise after a few draws); re-key from the first
	// output so that different seeds give unrelated streams
	r = NewRNG(r.U64())
	reg := registeredDecs()
	var curHooks []HookSpec
	var curNest *NestSpec
	var curCbs []AlignCb
	var curBetween []BetweenWrite
	curRenders, curPre := 0, 0
	add := func(t TableSpec, d DecSpec) {
		out = append(out, mustJSON(C04Spec{TextSpec: TextSpec{Table: t, Decs: []DecSpec{d}, Hooks: curHooks, Nest: curNest},
			AlignCbs: curCbs, Renders: curRenders, PreRenders: curPre, Between: curBetween}))
	}
	k := 0
	nextReg := func() DecSpec { k++; return reg[k%len(reg)] }

	// the render pass: callbacks of the application that write alignments while the table is being rendered
	out = append(out, c04PassGen(r, tier, nextReg)...)

	// items of every kind, cells holding cells; items that re-declare their sizes (c04_r6.go)
	out = append(out, c04R6Gen(r, tier, nextReg)...)

	// every assignment of {unset, left, right, centre} to column 0 and to each column, for 1, 2 and 3 columns
	for ncols := 1; ncols <= 3; ncols++ {
		total := 1
		for i := 0; i <= ncols; i++ {
			total *= 4
		}
		for code := 0; code < total; code++ {
			ts := hostileGrid(ncols)
			ts.Align = map[int]int{}
			c := code
			for col := 0; col <= ncols; col++ {
				if a := c % 4; a != 0 {
					ts.Align[col] = a
				}
				c /= 4
			}
			add(ts, nextReg())
		}
	}

	// every declared width class x every declared height class, on several texts
	texts := []string{"abc", "\x1b[31mred\x1b[0m", "a\nbb\nccc", "日本", "", "x\n", "​"}
	for _, s := range texts {
		for _, w := range widthClasses(s) {
			for _, h := range heightClasses(s) {
				if w == nil && h == nil {
					continue
				}
				hd := []ItemSpec{Str("name"), Str("v")}
				ts := TableSpec{Header: &hd, Rows: []RowSpec{
					{Cells: []ItemSpec{sizedItem(s, w, h), Str("q")}},
					{Cells: []ItemSpec{Str("wider text"), sizedItem(s, w, h)}, How: 1},
				}, Align: map[int]int{}}
				if a := r.Intn(4); a != 0 {
					ts.Align[1] = a
				}
				if a := r.Intn(4); a != 0 {
					ts.Align[0] = a
				}
				add(ts, nextReg())
			}
		}
	}
	// a sized item in the header
	for _, s := range []string{"hd", "a\nb"} {
		for _, w := range widthClasses(s) {
			for _, h := range heightClasses(s) {
				hd := []ItemSpec{sizedItem(s, w, h), Str("v")}
				add(TableSpec{Header: &hd, Rows: []RowSpec{{Cells: []ItemSpec{Str("x"), Str("y\nz")}}}}, nextReg())
			}
		}
	}

	// the all-columns default set on Column(0) BEFORE the table has its
	// columns, rows added, then the default changed / unset / left alone, and
	// own settings on some columns: every (early, late) pair, with the header
	// absent, added first, or added after the rows
	for early := 1; early <= 3; early++ {
		for late := -1; late <= 3; late++ { // -1 = not touched again, 0 = unset (SetProperty(key, nil))
			for hv := 0; hv < 3; hv++ {
				ts := hostileGrid(3)
				switch hv {
				case 0:
					ts.Header = nil
				case 1:
					ts.HeaderAt = len(ts.Rows)
				}
				ts.AlignEarly = map[int]int{0: early}
				ts.Align = map[int]int{}
				if late >= 0 {
					ts.Align[0] = late
				}
				if (early+late+hv)%2 == 0 {
					ts.Align[2] = 1 + (early+hv)%3 // an own setting on column 2 as well
				}
				add(ts, nextReg())
			}
		}
	}
	// own settings made early (the header's columns exist), then changed or unset at the end
	for early := 1; early <= 3; early++ {
		for late := 0; late <= 3; late++ {
			ts := hostileGrid(3)
			ts.AlignEarly = map[int]int{0: 1 + early%3, 1: early, 3: early}
			ts.Align = map[int]int{1: late}
			add(ts, nextReg())
		}
	}
	// long runs of padding under every alignment: a cell of 63..300 display
	// cells above short, empty and missing cells
	for i, n := range longSizes {
		for a := 0; a <= 3; a++ {
			hd := []ItemSpec{Str("h"), Str("w")}
			ts := TableSpec{Header: &hd, Rows: []RowSpec{
				{Cells: []ItemSpec{Str(longText((i+a)%3, n)), Str("s")}},
				{Cells: []ItemSpec{Str("ab"), Str(longText(i%3, n+1))}},
				{Cells: []ItemSpec{Str("")}},
			}, Align: map[int]int{}}
			if a != 0 {
				ts.Align[0] = a
				ts.Align[2] = 1 + a%3
			}
			add(ts, []DecSpec{{Name: "ascii-simple"}, {Name: "none"}}[(i+a)%2])
		}
	}
	// a declared width far beyond the text, and a declared height of many lines
	for _, n := range []int{65, 130, 300} {
		for a := 1; a <= 3; a++ {
			ts := TableSpec{Rows: []RowSpec{
				{Cells: []ItemSpec{sizedItem("abc", intp(n), nil), Str("x")}},
				{Cells: []ItemSpec{Str("y"), sizedItem("t", nil, intp(n))}},
			}, Align: map[int]int{0: a}}
			add(ts, DecSpec{Name: "ascii-simple"})
		}
	}

	// items WITHOUT text that declare a width and / or a height of every
	// class: the row occupies the declared lines, the column the declared width
	for _, w := range []*int{nil, intp(-1), intp(0), intp(1), intp(4), intp(65)} {
		for _, h := range []*int{nil, intp(-1), intp(0), intp(1), intp(2), intp(3), intp(7)} {
			if w == nil && h == nil {
				continue
			}
			hd := []ItemSpec{Str("n"), Str("v")}
			ts := TableSpec{Header: &hd, Rows: []RowSpec{
				{Cells: []ItemSpec{sizedItem("", w, h), Str("q")}},
				{Cells: []ItemSpec{Str("r"), sizedItem("", w, h)}, How: 1},
			}, Align: map[int]int{}}
			if a := r.Intn(4); a != 0 {
				ts.Align[r.Intn(3)] = a
			}
			add(ts, nextReg())
			hd2 := []ItemSpec{sizedItem("", w, h), Str("v")}
			add(TableSpec{Header: &hd2, Rows: []RowSpec{{Cells: []ItemSpec{Str("x"), Str("y")}}}}, nextReg())
		}
	}
	// render, same-size mutation + Update, render again: texts with and
	// without declared sizes, under every alignment, in body and header
	for _, s := range []string{"abc", "ab\ncd\nef", "日本語", "ＡＢ x1", "q"} {
		for a := 0; a <= 3; a++ {
			for v := 0; v < 3; v++ {
				var it ItemSpec
				switch v {
				case 0:
					it = ItemSpec{K: "obj", Mask: 1, S: []byte(s)}
				case 1:
					it = sizedItem(s, intp(length.LongestLineCells(s)+2), nil)
				case 2:
					it = sizedItem(s, nil, intp(len(length.Lines(s))+1))
				}
				hd := []ItemSpec{it, Str("v")}
				ts := TableSpec{Header: &hd, Rows: []RowSpec{
					{Cells: []ItemSpec{Str("wider than all"), it}},
					{Cells: []ItemSpec{it}, How: 1},
				}, Align: map[int]int{}}
				if a != 0 {
					ts.Align[(a+v)%3] = a
				}
				if mutateSameSize(&ts, 100, nil) == 0 {
					continue
				}
				if v == 1 {
					ts.Stages = []int{0}
				}
				add(ts, nextReg())
			}
		}
	}
	// the application's own callbacks, failing, registered before the Wrap, on the hostile grid with alignments
	for when := 0; when < 4; when++ {
		for pat := 0; pat < 3; pat++ {
			ts := hostileGrid(3)
			ts.Align = map[int]int{0: 1 + (when+pat)%3, 2: 1 + when%3}
			curHooks = []HookSpec{{When: when, Target: 1, ErrMod: 1 + pat, ErrRem: pat % 2, SetProp: pat == 1}}
			add(ts, nextReg())
		}
	}
	curHooks = nil

	// random grids with random alignments, sized items, registered and custom decorations
	n := 330
	if tier == "thorough" {
		n = 9000
	}
	for i := 0; i < n; i++ {
		ts := randTable(r, 5, 4, sizedRandItem, textHows)
		nc := 0
		if ts.Header != nil {
			nc = len(*ts.Header)
		}
		for _, row := range ts.Rows {
			if len(row.Cells) > nc {
				nc = len(row.Cells)
			}
		}
		ts.Align = c04RandAlign(r, nc)
		switch {
		case r.Pct(20):
			lateEnrich(r, &ts, func(r *RNG) ItemSpec {
				if r.Pct(30) {
					return sizedRandItem(r)
				}
				return widerText(r)
			})
		case r.Pct(35):
			enrichSpec(r, &ts, sizedRandItem)
			if len(ts.AlignEarly) > 0 && r.Pct(30) {
				ts.Align[0] = 0 // the early default is removed again
			}
		case r.Pct(15):
			mutateSameSize(&ts, 60, r)
		}
		curHooks, curNest = nil, nil
		if r.Pct(12) {
			curHooks = randHooks(r)
		}
		if r.Pct(6) {
			curNest = randNest(r)
		}
		d := nextReg()
		if r.Pct(25) {
			d = randDecoration(r)
		}
		curCbs, curRenders, curPre = nil, 0, 0
		if c04PlainHistory(ts) && r.Pct(30) {
			// render-time callbacks writing alignments, further renders through the same wrapper
			curCbs, curRenders, curPre = c04RandPass(r, ts, nc)
			if curRenders+curPre > 1 && r.Pct(40) {
				curBetween = c04RandBetween(r, nc, curRenders)
			}
		}
		add(ts, d)
		curHooks, curNest = nil, nil
		curCbs, curBetween, curRenders, curPre = nil, nil, 0, 0
	}
	return out
}

func init() {
	register(&Prop{
		ID:       "C04",
		Imports:  "From Tab Require Import Run.Glue Run.C04Run.",
		CaseType: "c04_case",
		CaseFn:   "C04_case",
		ModelFn:  "C04_model",
		Rule: "the C03 tables crossed with alignment assignments (Column(n).SetProperty(align.PropertyType, Left|Right|Center) for column 0 = all-columns default and each own column) " +
			"and with items of generated types implementing TerminalCellWidth() and/or Height(): declared width in {-1, 0, smaller, equal, larger (odd and even slack)}, declared height in {-1, 0, 1, fewer, equal, more}; " +
			"every assignment of {unset,L,R,C} to column 0 and each column for 1, 2 and 3 columns (4^2 + 4^3 + 4^4 = 336) on a fixed hostile grid; every width class x height class on 7 texts, in body and header; random grids to 4x5 with random alignments, sized items, registered and custom decorations; " +
			"alignment histories: the column-0 default set before the columns exist, rows added, then the default changed, unset (SetProperty(key, nil)) or left alone, for every (early, late) pair with the header absent / first / last, and own settings made early then changed or unset; staged renders through one reused wrapper with shape-preserving changes in between (late cells, same-count second header) on a fifth of the random grids; paddings of 63..300 blanks under every alignment, declared widths / heights of 65..300; " +
			"items without text declaring every class of width x height (body and header); render, same-size mutation (same width per line, same line count, other bytes) + Update through CellAt / Headers, render again through the same wrapper, for plain and sized items under every alignment; the application's own failing callbacks registered before the Wrap; another table rendered from inside the writer; BuildRenderW's StageFaults / FinalVia / FaultAt / Scribble / PropOps via enrichSpec; " +
			"THE RENDER PASS: the application's own render-time property callbacks that set, change or clear align.PropertyType on a column (own column or the column-0 default; also a column that does not exist) while the table is being rendered - owners: the table, a column (column 0 included), the text wrapper named as owner, a row (separator and cell-less rows included), a cell, a header cell; on itself / on cells; pre-cell, cell and post-cell time; the column reached through the application's table or through the owner handed to the callback; registered after Wrap, before Wrap or on the empty table; values that change from render to render or from invocation to invocation (nil and 'no write' included); zero to two renders through the wrapper before the registration and one to three afterwards (the last is judged); alignments set, changed or cleared DIRECTLY between two renders through the one wrapper (no callback: every ordered pair of values on the default and on own columns), also combined with callbacks that write later; every owner kind x time x written column x two value histories on the fixed hostile grid, pairs and triples of callbacks in one pass, every ordered pair of values across two renders, small tables, and on about a quarter of the random grids - the callbacks log their writes in execution order and the render is judged (model and oracle) on the built view with those writes applied in Coq (Model/TextPass.v after_callbacks: last write wins, nil clears): the padding must follow the alignments in force when the callbacks have finished; " +
			"ITEMS OF EVERY KIND, CELLS HOLDING CELLS (c04_r6.go): nil, runes, ints, bools, floats, slices, maps, structs, by-value Stringers, error values, objects with GoString / Error only, and every such item (strings and size-declaring objects included) held in tabular.Cell values - by value, by pointer, to depth 3 in every nesting order - entering through AddHeaders, AddRowItems, Row.Add(NewCell(..)) before / after the row joined the table, NewRowSizedFor, under every alignment; a cell holding a cell must show the inner item's lines with the inner cell's width and height (expected from the spec: deepShown); " +
			"ITEMS THAT RE-DECLARE: build, render, then one to three rounds of { items change their text and / or the width and / or the height they declare - every non-empty subset of the three, for items declaring a width, a height or both, single-line, multi-line, escape-coded and empty texts, in the header, in AddRowItems rows and in pre-built rows; Cell.Update through CellAt / Headers, or deliberately no Update (the cell keeps what it last read; updated one round later or never) ; render through the same wrapper }: the last render is judged on the view in which every cell shows its item as of the cell's last read (shownTable; Model/TextMut.v c04_update_rereads, c04_mutate_not_shown); also on random grids; " +
			"the expected view (texts, effective alignments) is computed from the SPEC alone (TableSpec.SpecView) and the sizes of items that declare them from the spec's declared numbers (not from the library's Cell), not read back from the table under test; " +
			"multi-line items declaring a width below one of their lines are outside the statement (tagged excluded:..., still compared with the model); a case is non-trivial when the table has at least one column and no excluded item",
		Exhaustive: "all 336 alignment assignments for <= 3 columns on the fixed grid; all width-class x height-class pairs on 7 body texts and 2 header texts; render-time alignment callbacks: owner kind (9) x time x written column (0..3) x 2 value histories; item kinds (16 non-string kinds + 6 texts + declared-size classes) x 6 ways of holding the item in cells; re-declarations: {width, height, both} x every non-empty subset of {text, width, height} changing x {header, AddRowItems row, pre-built row} x 4 texts",
		Gen:        c04Gen,
		Run:        runC04Spec,
		Shrink:     shrinkC04JSON,
	})
}
