package main

// C02: row/column counts, row order and cell addressing follow the build
// history.  A case is a history over the shared op language (coq/Base/Ops.v);
// it is replayed on a real table through the public API only and after EVERY
// op the table is dumped: NRows, NColumns, Headers, per row IsSeparator /
// Cells()==nil / Location / every cell's Location and item, CellAt over the
// bounding box +-1 (row 0, column 0 and negatives included), Column(n)==nil
// for n in -1..NColumns+1.  The dump is shipped as bytes in the encoding of
// Base/Ops.v (enc_obs); Coq compares it with the model's dump (corr) and with
// the dump the history spec expects (ok).

import (
	"encoding/json"
	"fmt"
	"strconv"
	"strings"

	"go.pennock.tech/tabular"
)

type C02Op struct {
	O  string `json:"o"`            // NewRow NewRowSizedFor AppendNewRow RowAdd AddRow AddRowItems AddSeparator AddHeaders MutateAllRowsCopy
	R  int    `json:"r,omitempty"`  // row variable (names start at 1); 0 with RowAdd = by index
	I  int    `json:"i,omitempty"`  // RowAdd with R == 0: AllRows()[I]
	X  int    `json:"x,omitempty"`  // item id of the added cell
	Xs []int  `json:"xs,omitempty"` // item ids
	// T: which of the program's two tables the call is made on (0, 1).  One
	// *Row may be passed to both tables' AddRow.
	T int `json:"t,omitempty"`
	// K, Ks: how the item (of RowAdd / of each of Xs) reaches the library:
	// 0 a string (through NewCell for Row.Add); 1 a tabular.Cell value made by
	// NewCell(text); 2 a tabular.Cell copied by value out of a row the program
	// already built (its id is then that cell's: X selects the source); 3 a
	// *tabular.Cell pointing at such a copy; 4.. a value of some other dynamic
	// type, containers among them (c02OtherItem: a []string, a []interface{},
	// nil, a []tabular.Cell, ...): whatever its type, ONE argument is ONE cell
	K  int   `json:"k,omitempty"`
	Ks []int `json:"ks,omitempty"`
	// N: OtherAddRow only (never in a program; derived per table): the row's
	// position in the other table
	N int `json:"n,omitempty"`
	// OnAdd only (c02_more.go): an add-time callback which makes building
	// calls itself.  W where it is registered, A what it does when it fires, F
	// on which targets, B how many times in all, C the column (W == 3), R2 the
	// row variable it adds to (A == 4)
	W  int `json:"w,omitempty"`
	A  int `json:"a,omitempty"`
	F  int `json:"f,omitempty"`
	B  int `json:"b,omitempty"`
	C  int `json:"c,omitempty"`
	R2 int `json:"r2,omitempty"`
	// E (c02_r6.go): what the callback RETURNS: 0 nil; 1 an error for every
	// target its filter F selects; 2 an error for every second such target
	E int `json:"e,omitempty"`
}

type C02Spec struct {
	Ops []C02Op `json:"ops"`
	// LastOnly: dump the table only after the last op (long histories: rows
	// of hundreds of cells, tables of hundreds of rows)
	LastOnly bool `json:"last_only,omitempty"`
	// Via (c02_r6.go): how the table value the program builds and looks at is
	// obtained - the core table, or a stack of rendering wrappers around it
	Via *C02Via `json:"via,omitempty"`
}

// the text of the item with id x: id 0 is the empty string; equal ids are
// equal texts (repeated header and cell contents are part of the input space)
func c02Text(x int) string {
	if x == 0 {
		return ""
	}
	return strconv.Itoa(x)
}

// ---------------------------------------------------------------- scope (which ops denote a Go call)

type c02Scope struct {
	kind     map[int]int // row variable -> 1 detached, 2 attached
	pos      map[int]int // attached row variable -> index in the table
	rowNamed []int       // per table row: its variable or 0
	rowSep   []bool
	next     int // next fresh variable
	nextID   int
}

func newC02Scope() *c02Scope {
	return &c02Scope{kind: map[int]int{}, pos: map[int]int{}, next: 1, nextID: 1}
}

func (s *c02Scope) clone() *c02Scope {
	c := &c02Scope{kind: map[int]int{}, pos: map[int]int{}, next: s.next, nextID: s.nextID}
	for k, v := range s.kind {
		c.kind[k] = v
	}
	for k, v := range s.pos {
		c.pos[k] = v
	}
	c.rowNamed = append([]int{}, s.rowNamed...)
	c.rowSep = append([]bool{}, s.rowSep...)
	return c
}

// valid mirrors Spec/History.v op_wf
func (s *c02Scope) valid(op C02Op) bool {
	switch op.O {
	case "NewRow", "NewRowSizedFor", "AppendNewRow":
		return op.R >= 1 && s.kind[op.R] == 0
	case "RowAdd":
		if op.R == 0 {
			return op.I >= 0 && op.I < len(s.rowNamed)
		}
		return s.kind[op.R] != 0
	case "AddRow":
		return s.kind[op.R] == 1
	case "AddRowItems", "AddSeparator", "AddHeaders", "MutateAllRowsCopy", "HeaderAdd":
		return true
	case "OnAdd":
		if op.W == 1 || op.W == 4 || op.W == 5 {
			return s.kind[op.R] != 0
		}
		return true
	}
	return false
}

func (s *c02Scope) apply(op C02Op) {
	switch op.O {
	case "NewRow", "NewRowSizedFor":
		s.kind[op.R] = 1
	case "AppendNewRow":
		s.kind[op.R] = 2
		s.pos[op.R] = len(s.rowNamed)
		s.rowNamed = append(s.rowNamed, op.R)
		s.rowSep = append(s.rowSep, false)
	case "AddRow":
		if s.kind[op.R] == 1 {
			s.kind[op.R] = 2
			s.pos[op.R] = len(s.rowNamed)
			s.rowNamed = append(s.rowNamed, op.R)
			s.rowSep = append(s.rowSep, false)
		}
	case "AddRowItems":
		s.rowNamed = append(s.rowNamed, 0)
		s.rowSep = append(s.rowSep, false)
	case "AddSeparator":
		s.rowNamed = append(s.rowNamed, 0)
		s.rowSep = append(s.rowSep, true)
	}
	if op.R >= s.next {
		s.next = op.R + 1
	}
	if op.X >= s.nextID {
		s.nextID = op.X + 1
	}
	for _, x := range op.Xs {
		if x >= s.nextID {
			s.nextID = x + 1
		}
	}
}

func c02Valid(ops []C02Op) bool {
	s := newC02Scope()
	for _, op := range ops {
		if !s.valid(op) {
			return false
		}
		s.apply(op)
	}
	return true
}

// c02ProgValid: every op of the program denotes a Go call the harness makes.
// Programs over two tables use row variables only (no AllRows()[i].Add) and
// attach a row at most once PER TABLE.
func c02ProgValid(ops []C02Op) bool {
	two := false
	for _, op := range ops {
		if op.T == 1 {
			two = true
		}
	}
	if !two {
		return c02Valid(ops)
	}
	exists := map[int]bool{}
	var in [2]map[int]bool
	in[0], in[1] = map[int]bool{}, map[int]bool{}
	for _, op := range ops {
		switch op.O {
		case "NewRow", "NewRowSizedFor":
			if op.R < 1 || exists[op.R] {
				return false
			}
			exists[op.R] = true
		case "AppendNewRow":
			if op.R < 1 || exists[op.R] {
				return false
			}
			exists[op.R] = true
			in[op.T][op.R] = true
		case "RowAdd":
			if op.R == 0 || !exists[op.R] {
				return false
			}
		case "AddRow":
			if !exists[op.R] || in[op.T][op.R] {
				return false
			}
			in[op.T][op.R] = true
		case "AddRowItems", "AddSeparator", "AddHeaders", "MutateAllRowsCopy":
		default:
			return false
		}
	}
	return true
}

func (s *c02Scope) id() int {
	x := (s.nextID-1)%200 + 1
	s.nextID++
	return x
}

func (s *c02Scope) ids(n int) []int {
	xs := make([]int, n)
	for i := range xs {
		xs[i] = s.id()
	}
	return xs
}

// alphabet: every op that is valid now.  full=false drops the ops whose
// behaviour another op of the alphabet already exhibits (NewRowSizedFor = NewRow,
// the two-cell variants).
func (s *c02Scope) alphabet(full bool) []C02Op {
	var out []C02Op
	sizes := []int{0, 1, 2}
	if !full {
		sizes = []int{0, 1}
	}
	for _, n := range sizes {
		out = append(out, C02Op{O: "AddHeaders", Xs: s.ids(n)})
	}
	for _, n := range sizes {
		out = append(out, C02Op{O: "AddRowItems", Xs: s.ids(n)})
	}
	out = append(out, C02Op{O: "AddSeparator"})
	out = append(out, C02Op{O: "AppendNewRow", R: s.next})
	out = append(out, C02Op{O: "NewRow", R: s.next})
	if full {
		out = append(out, C02Op{O: "NewRowSizedFor", R: s.next})
	}
	// Row.Add on every existing row: variables by name, the rest as AllRows()[i]
	for r := 1; r < s.next; r++ {
		if s.kind[r] != 0 {
			out = append(out, C02Op{O: "RowAdd", R: r, X: s.id()})
		}
	}
	for i, r := range s.rowNamed {
		if r == 0 {
			out = append(out, C02Op{O: "RowAdd", I: i, X: s.id()})
		}
	}
	for r := 1; r < s.next; r++ {
		if s.kind[r] == 1 {
			out = append(out, C02Op{O: "AddRow", R: r})
		}
	}
	out = append(out, C02Op{O: "MutateAllRowsCopy"})
	return out
}

// every valid history of exactly n ops (its prefixes are dumped too, so all
// shorter histories are covered)
func c02Enum(n int, full bool, f func([]C02Op)) {
	var rec func(s *c02Scope, h []C02Op)
	rec = func(s *c02Scope, h []C02Op) {
		if len(h) == n {
			f(append([]C02Op{}, h...))
			return
		}
		for _, op := range s.alphabet(full) {
			s2 := s.clone()
			s2.apply(op)
			rec(s2, append(h, op))
		}
	}
	rec(newC02Scope(), nil)
}

func c02Random(r *RNG, maxLen, maxCells int) []C02Op {
	s := newC02Scope()
	var h []C02Op
	n := 1 + r.Intn(maxLen)
	cellCount := func() int {
		switch r.Intn(6) {
		case 0:
			return 0
		case 1:
			return maxCells - r.Intn(3) // around the capacity of `columns` (10)
		default:
			return r.Intn(4)
		}
	}
	push := func(op C02Op) {
		if len(h) < n && s.valid(op) {
			s.apply(op)
			h = append(h, op)
		}
	}
	anyRow := func() (C02Op, bool) {
		// a row to add to: a variable (detached or attached) or a table row by index
		var cands []C02Op
		for v := 1; v < s.next; v++ {
			if s.kind[v] != 0 {
				cands = append(cands, C02Op{O: "RowAdd", R: v})
			}
		}
		for i := range s.rowNamed {
			cands = append(cands, C02Op{O: "RowAdd", I: i})
		}
		if len(cands) == 0 {
			return C02Op{}, false
		}
		return pick(r, cands), true
	}
	defer func() {
		// in half of the histories item texts repeat or are empty
		if r.Bool() {
			var seen []int
			reuse := func(x int) int {
				if len(seen) > 0 && r.Pct(35) {
					x = pick(r, seen)
				} else if r.Pct(10) {
					x = 0
				}
				seen = append(seen, x)
				return x
			}
			for i := range h {
				if h[i].O == "RowAdd" {
					h[i].X = reuse(h[i].X)
				}
				for j := range h[i].Xs {
					h[i].Xs[j] = reuse(h[i].Xs[j])
				}
			}
		}
		// in a third of the histories some items are cells already, in a
		// sixth they are of any dynamic type (containers, nil, numbers, ...)
		if m := r.Intn(6); m <= 2 {
			kindOf := func() int {
				if m == 2 {
					return 1 + r.Intn(c02MaxKind)
				}
				return 1 + r.Intn(3)
			}
			for i := range h {
				if h[i].O == "RowAdd" && r.Pct(30) {
					h[i].K = kindOf()
				}
				if (h[i].O == "AddRowItems" || h[i].O == "AddHeaders") && len(h[i].Xs) > 0 && r.Pct(50) {
					ks := make([]int, len(h[i].Xs))
					for j := range ks {
						if r.Pct(40) || (m == 2 && len(ks) == 1) {
							ks[j] = kindOf()
						}
					}
					h[i].Ks = ks
				}
			}
		}
	}()
	for len(h) < n {
		switch k := r.Intn(20); {
		case k < 2:
			push(C02Op{O: "AddHeaders", Xs: s.ids(cellCount())})
		case k < 5:
			push(C02Op{O: "AddRowItems", Xs: s.ids(cellCount())})
		case k < 6:
			push(C02Op{O: "AddSeparator"})
		case k < 8:
			push(C02Op{O: "AppendNewRow", R: s.next})
		case k < 9:
			push(C02Op{O: "NewRow", R: s.next})
		case k < 10:
			push(C02Op{O: "NewRowSizedFor", R: s.next})
		case k < 16:
			// a burst of Row.Add on one row
			if op, ok := anyRow(); ok {
				for j := 1 + r.Intn(maxCells); j > 0; j-- {
					op.X = s.id()
					push(op)
					if r.Pct(25) {
						break
					}
				}
			}
		case k < 19:
			var det []int
			for v := 1; v < s.next; v++ {
				if s.kind[v] == 1 {
					det = append(det, v)
				}
			}
			if len(det) > 0 {
				push(C02Op{O: "AddRow", R: pick(r, det)})
			}
		default:
			push(C02Op{O: "MutateAllRowsCopy"})
		}
	}
	return h
}

// ---------------------------------------------------------------- execution and dump

// encZ mirrors Base/Ops.v enc_z: one byte for -5..244, two for 245..1524
func encZ(b []byte, zs ...int) []byte {
	for _, z := range zs {
		switch {
		case z < -5 || z > 1524:
			b = append(b, 255)
		case z <= 244:
			b = append(b, byte(z+5))
		default:
			b = append(b, byte(250+(z-245)/256), byte((z-245)%256))
		}
	}
	return b
}

func encLen(b []byte, n int) []byte { return append(b, byte(n/250), byte(n%250)) }

func encBool(v bool) byte {
	if v {
		return 1
	}
	return 0
}

func cellID(c *tabular.Cell) int {
	switch v := c.Item().(type) {
	case tabular.Cell:
		return cellID(&v)
	case *tabular.Cell:
		if v != nil {
			return cellID(v)
		}
	}
	if id, ok := c02OtherItemID(c.Item()); ok {
		return id
	}
	s := c.String()
	if s == "" {
		return 0
	}
	n, err := strconv.Atoi(s)
	if err != nil || n <= 0 || n > 240 || strconv.Itoa(n) != s {
		return 244 // not a text the harness put in
	}
	return n
}

func encCells(b []byte, cs []tabular.Cell) []byte {
	b = encLen(b, len(cs))
	for i := range cs {
		loc := cs[i].Location()
		b = encZ(b, loc.Row, loc.Column, cellID(&cs[i]))
	}
	return b
}

type c02Dump struct {
	NRows, NCols int
	Header       *[]string `json:"Header,omitempty"`
	Rows         []string
	Hits         int
	Cols         string
	bytes        []byte
	staleCols    bool // a row has more cells than NColumns()
	staleHeader  bool // the header has more cells than NColumns()
	badLoc       bool // a cell found by CellAt(r,c) reports another Location()
}

// dumpTable reads everything C02 talks about through the public API.
func dumpTable(t tabular.Table) c02Dump {
	var d c02Dump
	var b []byte
	d.NRows, d.NCols = t.NRows(), t.NColumns()
	b = encZ(b, d.NRows, d.NCols)
	cellsStr := func(cs []tabular.Cell) string {
		var sb strings.Builder
		for i := range cs {
			if i >= 12 && i < len(cs)-6 {
				if i == 12 {
					fmt.Fprintf(&sb, " ...(%d cells)...", len(cs))
				}
				continue
			}
			l := cs[i].Location()
			fmt.Fprintf(&sb, " %q@(%d,%d)", cs[i].String(), l.Row, l.Column)
		}
		return sb.String()
	}
	if h := t.Headers(); h == nil {
		b = append(b, 0)
	} else {
		b = append(b, 1)
		b = encCells(b, h)
		d.staleHeader = len(h) > d.NCols
		hs := []string{cellsStr(h)}
		d.Header = &hs
	}
	rows := t.AllRows()
	b = encLen(b, len(rows))
	w := d.NCols
	for _, r := range rows {
		cs := r.Cells()
		loc := r.Location()
		b = append(b, encBool(r.IsSeparator()), encBool(cs == nil))
		b = encZ(b, loc.Row, loc.Column)
		b = encCells(b, cs)
		if len(cs) > w {
			w = len(cs)
		}
		if len(cs) > d.NCols {
			d.staleCols = true
		}
		if len(d.Rows) < 40 {
			d.Rows = append(d.Rows, fmt.Sprintf("sep=%v nil=%v loc=(%d,%d) cells:%s", r.IsSeparator(), cs == nil, loc.Row, loc.Column, cellsStr(cs)))
		}
	}
	var hits []byte
	n := 0
	for r := -1; r <= d.NRows+1; r++ {
		for c := -1; c <= w+1; c++ {
			cell, err := t.CellAt(tabular.CellLocation{Row: r, Column: c})
			switch {
			case cell != nil && err == nil:
				l := cell.Location()
				hits = encZ(hits, r, c, l.Row, l.Column, cellID(cell))
				if l.Row != r || l.Column != c {
					d.badLoc = true
				}
				n++
			case cell == nil && err != nil:
			default: // (cell, err) both or neither: not an answer
				hits = encZ(hits, r, c, -9, -9, 0)
				n++
			}
		}
	}
	d.Hits = n
	b = encLen(b, n)
	b = append(b, hits...)
	b = encLen(b, d.NCols+3)
	var cols strings.Builder
	for k := -1; k <= d.NCols+1; k++ {
		ex := t.Column(k) != nil
		b = append(b, encBool(ex))
		if ex {
			cols.WriteByte('1')
		} else {
			cols.WriteByte('0')
		}
	}
	d.Cols = cols.String()
	d.bytes = b
	return d
}

type c02Result struct {
	Sig     string   `json:"sig"`
	Go      string   `json:"go"`
	Panic   string   `json:"panic,omitempty"`
	PanicAt int      `json:"panic_at_op,omitempty"`
	Last    *c02Dump `json:"last_dump,omitempty"`
	Last2   *c02Dump `json:"last_dump_table2,omitempty"`
	// programs with callbacks (c02_more.go): the building calls made from
	// inside another one, and the whole history, one bracket per program call
	Nested  int    `json:"nested_building_calls,omitempty"`
	History string `json:"history_with_nested_calls,omitempty"`
	// errors the program's add-time callbacks returned (c02_r6.go)
	CBErrors int `json:"errors_returned_by_callbacks,omitempty"`
}

func c02GoLine(op C02Op) string {
	t := "t"
	if op.T == 1 {
		t = "t2"
	}
	item := func(k, x int) string {
		switch k {
		case 1:
			return fmt.Sprintf("tabular.NewCell(%q)", c02Text(x))
		case 2:
			return fmt.Sprintf("copyOfCell#%d /* a tabular.Cell copied by value from a row built so far */", x)
		case 3:
			return fmt.Sprintf("&copyOfCell#%d", x)
		}
		if k >= 4 {
			it, _ := c02OtherItem(k, x)
			return fmt.Sprintf("%#v", it)
		}
		return fmt.Sprintf("%q", c02Text(x))
	}
	items := func(xs, ks []int) string {
		ss := make([]string, len(xs))
		for i, x := range xs {
			k := 0
			if i < len(ks) {
				k = ks[i]
			}
			ss[i] = item(k, x)
		}
		return strings.Join(ss, ", ")
	}
	cell := func(k, x int) string {
		if k == 2 {
			return item(2, x)
		}
		return "tabular.NewCell(" + item(k, x) + ")"
	}
	switch op.O {
	case "NewRow":
		return fmt.Sprintf("r%d := tabular.NewRow()", op.R)
	case "NewRowSizedFor":
		return fmt.Sprintf("r%d := %s.NewRowSizedFor()", op.R, t)
	case "AppendNewRow":
		return fmt.Sprintf("r%d := %s.AppendNewRow()", op.R, t)
	case "RowAdd":
		if op.R == 0 {
			return fmt.Sprintf("%s.AllRows()[%d].Add(%s)", t, op.I, cell(op.K, op.X))
		}
		return fmt.Sprintf("r%d.Add(%s)", op.R, cell(op.K, op.X))
	case "AddRow":
		return fmt.Sprintf("%s.AddRow(r%d)", t, op.R)
	case "AddRowItems":
		return fmt.Sprintf("%s.AddRowItems(%s)", t, items(op.Xs, op.Ks))
	case "AddSeparator":
		return t + ".AddSeparator()"
	case "AddHeaders":
		return fmt.Sprintf("%s.AddHeaders(%s)", t, items(op.Xs, op.Ks))
	case "MutateAllRowsCopy":
		return "rr := " + t + ".AllRows(); reverse(rr); if len(rr) > 0 { rr[0] = nil }; rr = rr[:0]"
	case "OnAdd", "HeaderAdd":
		return c02CBGoLine(op)
	}
	return "// ?" + op.O
}

// c02Derive splits a program over up to two tables into one history per
// table, in the op language of Base/Ops.v: the calls on that table; the
// Row.Add calls on row variables (the model knows whether the row is in this
// table, elsewhere or nowhere); where the OTHER table's AddRow / AppendNewRow
// takes a row, OtherAddRow with the row's position there.  per[k][t] is the
// number of ops program op k contributes to table t's history.  Ops that
// denote no Go call (shrink artefacts) are dropped from both.
func c02Derive(ops []C02Op) (hist [2][]C02Op, per [][2]int, ntables int) {
	ntables = 1
	for _, op := range ops {
		if op.T == 1 {
			ntables = 2
		}
	}
	exists := map[int]bool{}
	var in [2]map[int]bool
	in[0], in[1] = map[int]bool{}, map[int]bool{}
	var nrows [2]int
	per = make([][2]int, len(ops))
	for k, op := range ops {
		T := op.T
		emit := func(t int, o C02Op) {
			o.T = 0
			hist[t] = append(hist[t], o)
			per[k][t]++
		}
		both := func(o C02Op) {
			for t := 0; t < ntables; t++ {
				emit(t, o)
			}
		}
		other := 1 - T
		switch op.O {
		case "NewRow":
			exists[op.R] = true
			both(op)
		case "NewRowSizedFor":
			exists[op.R] = true
			emit(T, op)
			if ntables == 2 {
				emit(other, C02Op{O: "NewRow", R: op.R})
			}
		case "AppendNewRow":
			exists[op.R] = true
			in[T][op.R] = true
			nrows[T]++
			emit(T, op)
			if ntables == 2 {
				emit(other, C02Op{O: "NewRow", R: op.R})
				emit(other, C02Op{O: "OtherAddRow", R: op.R, N: nrows[T]})
			}
		case "RowAdd":
			if op.R != 0 {
				if exists[op.R] {
					both(op)
				}
			} else if op.I >= 0 && op.I < nrows[T] {
				emit(T, op) // only rows without a variable are addressed so: the other table cannot hold them
			}
		case "AddRow":
			if exists[op.R] && !in[T][op.R] {
				in[T][op.R] = true
				nrows[T]++
				emit(T, op)
				if ntables == 2 {
					emit(other, C02Op{O: "OtherAddRow", R: op.R, N: nrows[T]})
				}
			}
		case "AddRowItems", "AddSeparator":
			nrows[T]++
			emit(T, op)
		case "AddHeaders", "MutateAllRowsCopy":
			emit(T, op)
		}
	}
	return
}

type c02Outcome struct {
	dumps    [2][]byte
	res      c02Result
	panicked bool
	ntables  int
	hist     [2][]C02Op // per-table histories, item ids resolved
}

// c02Exec runs the program on real tables and dumps each table after every op
// of ITS history (or once at the end).
func c02Exec(prog []C02Op, lastOnly bool) (out c02Outcome) {
	return c02ExecVia(prog, lastOnly, nil)
}

// c02ExecVia: the same, the building calls made on and the table looked at
// through the values via yields (c02_r6.go)
func c02ExecVia(prog []C02Op, lastOnly bool, via *C02Via) (out c02Outcome) {
	ops := make([]C02Op, len(prog))
	for i, op := range prog {
		op.Xs = append([]int{}, op.Xs...)
		ops[i] = op
	}
	_, per, ntables := c02Derive(ops)
	out.ntables = ntables
	tb0, ob0, mk0 := via.make("t")
	tabs := []tabular.Table{tb0}
	obsTabs := []tabular.Table{ob0}
	if ntables == 2 {
		tb1, ob1, _ := via.make("t2")
		tabs = append(tabs, tb1)
		obsTabs = append(obsTabs, ob1)
	}
	vars := map[int]*tabular.Row{}
	var varOrder []int
	var in [2]map[int]bool
	in[0], in[1] = map[int]bool{}, map[int]bool{}
	res := &out.res
	lines := []string{mk0}
	if ntables == 2 {
		_, _, mk1 := via.make("t2")
		lines = append(lines, mk1)
	}
	for i := 0; i < len(ops); {
		j := i + 1
		for j < len(ops) && c02SameCall(ops[i], ops[j]) {
			j++
		}
		if j-i >= 4 {
			lines = append(lines, fmt.Sprintf("%s /* %d such calls, see the spec for the items */", c02GoLine(ops[i]), j-i))
		} else {
			for _, op := range ops[i:j] {
				lines = append(lines, c02GoLine(op))
			}
		}
		i = j
	}
	res.Go = strings.Join(lines, "; ")
	k := 0
	defer func() {
		if r := recover(); r != nil {
			out.panicked = true
			res.Panic = fmt.Sprint(r)
			res.PanicAt = k
			res.Sig = "panic"
		}
	}()
	// every cell the program has built so far, by value (tables, then the
	// rows held in variables)
	allCells := func() []tabular.Cell {
		var cs []tabular.Cell
		seen := map[*tabular.Row]bool{}
		for _, t := range tabs {
			cs = append(cs, t.Headers()...)
			for _, r := range t.AllRows() {
				if r != nil && !seen[r] {
					seen[r] = true
					cs = append(cs, r.Cells()...)
				}
			}
		}
		for _, v := range varOrder {
			if r := vars[v]; !seen[r] {
				seen[r] = true
				cs = append(cs, r.Cells()...)
			}
		}
		return cs
	}
	// the item for id x of kind k, and the id it really carries
	mkItem := func(kind, x int) (interface{}, int) {
		if kind == 2 || kind == 3 {
			if cs := allCells(); len(cs) > 0 {
				src := cs[x%len(cs)] // a copy by value, stale location and all
				if kind == 3 {
					return &src, cellID(&src)
				}
				return src, cellID(&src)
			}
			kind = 1
		}
		if kind == 1 {
			return tabular.NewCell(c02Text(x)), x
		}
		if kind >= 4 {
			return c02OtherItem(kind, x)
		}
		return c02Text(x), x
	}
	items := func(op *C02Op) []interface{} {
		its := make([]interface{}, len(op.Xs))
		for i := range op.Xs {
			kind := 0
			if i < len(op.Ks) {
				kind = op.Ks[i]
			}
			its[i], op.Xs[i] = mkItem(kind, op.Xs[i])
		}
		return its
	}
	dump := func(t int) {
		d := dumpTable(obsTabs[t])
		if lastOnly {
			out.dumps[t] = d.bytes
		} else {
			out.dumps[t] = append(out.dumps[t], d.bytes...)
		}
		if res.Sig == "" {
			res.Sig = d.sig()
		}
		if t == 0 || res.Last == nil {
			res.Last = &d
		} else {
			res.Last2 = &d
		}
	}
	for k = 0; k < len(ops); k++ {
		op := &ops[k]
		t := tabs[op.T%ntables]
		switch op.O {
		case "NewRow":
			vars[op.R] = tabular.NewRow()
			varOrder = append(varOrder, op.R)
		case "NewRowSizedFor":
			vars[op.R] = t.NewRowSizedFor()
			varOrder = append(varOrder, op.R)
		case "AppendNewRow":
			vars[op.R] = t.AppendNewRow()
			varOrder = append(varOrder, op.R)
			in[op.T][op.R] = true
		case "RowAdd":
			var row *tabular.Row
			if op.R == 0 {
				if rr := t.AllRows(); op.I >= 0 && op.I < len(rr) {
					row = rr[op.I]
				}
			} else {
				row = vars[op.R]
			}
			if row != nil {
				it, id := mkItem(op.K, op.X)
				op.X = id
				if c, ok := it.(tabular.Cell); ok && op.K == 2 {
					row.Add(c) // the copied cell itself
				} else {
					row.Add(tabular.NewCell(it))
				}
			}
		case "AddRow":
			if row := vars[op.R]; row != nil && !in[op.T][op.R] {
				t.AddRow(row)
				in[op.T][op.R] = true
			}
		case "AddRowItems":
			t.AddRowItems(items(op)...)
		case "AddSeparator":
			t.AddSeparator()
		case "AddHeaders":
			t.AddHeaders(items(op)...)
		case "MutateAllRowsCopy":
			rr := t.AllRows()
			for i, j := 0, len(rr)-1; i < j; i, j = i+1, j-1 {
				rr[i], rr[j] = rr[j], rr[i]
			}
			if len(rr) > 0 {
				rr[0] = nil
			}
			rr = rr[:0]
			_ = rr
		}
		if lastOnly {
			continue
		}
		for tt := 0; tt < ntables; tt++ {
			for n := per[k][tt]; n > 0; n-- {
				dump(tt)
			}
		}
	}
	if lastOnly {
		for tt := 0; tt < ntables; tt++ {
			dump(tt)
		}
	}
	out.hist, _, _ = c02Derive(ops) // with the ids the copied cells turned out to carry
	return
}

// a rough class of what is wrong with a dump, to group failures (the verdict
// itself is Coq's)
func (d *c02Dump) sig() string {
	switch {
	case d.staleCols:
		return "ncolumns-below-row-size"
	case d.staleHeader:
		return "ncolumns-below-header-size"
	case d.badLoc:
		return "cell-location-differs-from-its-address"
	}
	return ""
}

// the same call up to the item: Row.Add on the same row, or an identical op
// that names no new row
func c02SameCall(a, b C02Op) bool {
	if a.O != b.O || a.R != b.R || a.I != b.I || a.T != b.T || a.K != b.K || len(a.Ks)+len(b.Ks) > 0 {
		return false
	}
	switch a.O {
	case "RowAdd":
		return true
	case "AddSeparator", "MutateAllRowsCopy":
		return true
	case "AddRowItems", "AddHeaders":
		if len(a.Xs) != len(b.Xs) {
			return false
		}
		for i := range a.Xs {
			if a.Xs[i] != b.Xs[i] {
				return false
			}
		}
		return true
	}
	return false
}

func c02CoqIDs(xs []int) string {
	if len(xs) >= 8 {
		b := make([]byte, len(xs))
		for i, x := range xs {
			b[i] = byte(x)
		}
		return cqBytes(b)
	}
	ss := make([]string, len(xs))
	for i, x := range xs {
		ss[i] = cqN(uint64(x))
	}
	return cqList(ss)
}

// c02CoqHistory writes the history run-length compressed (Run/C02Run.v adds,
// times): literal elaboration, not evaluation, is what long histories cost.
func c02CoqHistory(ops []C02Op) string {
	var segs []string
	var lit []string
	flush := func() {
		if len(lit) > 0 {
			segs = append(segs, cqList(lit))
			lit = nil
		}
	}
	for i := 0; i < len(ops); {
		j := i + 1
		for j < len(ops) && c02SameCall(ops[i], ops[j]) {
			j++
		}
		switch {
		case j-i >= 4 && ops[i].O == "RowAdd":
			flush()
			xs := make([]int, 0, j-i)
			for _, op := range ops[i:j] {
				xs = append(xs, op.X)
			}
			ref := fmt.Sprintf("(RName %s)", cqNat(ops[i].R))
			if ops[i].R == 0 {
				ref = fmt.Sprintf("(RIdx %s)", cqNat(ops[i].I))
			}
			segs = append(segs, fmt.Sprintf("adds %s %s", ref, c02CoqIDs(xs)))
		case j-i >= 4:
			flush()
			segs = append(segs, fmt.Sprintf("times %s [%s]", cqNat(j-i), c02CoqOp(ops[i])))
		default:
			for _, op := range ops[i:j] {
				lit = append(lit, c02CoqOp(op))
			}
		}
		i = j
	}
	flush()
	if len(segs) == 0 {
		return "[]"
	}
	if len(segs) == 1 {
		return segs[0]
	}
	return "(" + strings.Join(segs, " ++ ") + ")"
}

func c02CoqOp(op C02Op) string {
	ids := c02CoqIDs
	switch op.O {
	case "NewRow", "NewRowSizedFor", "AppendNewRow", "AddRow":
		return fmt.Sprintf("%s %s", op.O, cqNat(op.R))
	case "RowAdd":
		if op.R == 0 {
			return fmt.Sprintf("RowAdd (RIdx %s) %s", cqNat(op.I), cqN(uint64(op.X)))
		}
		return fmt.Sprintf("RowAdd (RName %s) %s", cqNat(op.R), cqN(uint64(op.X)))
	case "AddRowItems", "AddHeaders":
		return fmt.Sprintf("%s %s", op.O, ids(op.Xs))
	case "OtherAddRow":
		return fmt.Sprintf("OtherAddRow (RName %s) %s", cqNat(op.R), cqNat(op.N))
	}
	return op.O
}

func c02Tags(ops []C02Op, res c02Result) []string {
	tags := []string{fmt.Sprintf("len=%d", min(len(ops), 26)/5*5)}
	s := newC02Scope()
	seen := map[string]bool{}
	add := func(t string) {
		if !seen[t] {
			seen[t] = true
			tags = append(tags, t)
		}
	}
	rowsBefore := false
	usedID := map[int]bool{}
	tabsOf := map[int]map[int]bool{}
	for _, op := range ops {
		add("op=" + op.O)
		switch op.O {
		case "RowAdd":
			i := -1
			if op.R == 0 {
				i = op.I
				add("rowadd-by-index")
			} else if s.kind[op.R] == 2 {
				i = s.pos[op.R]
			} else if s.kind[op.R] == 1 {
				add("rowadd-detached")
			}
			if i >= 0 && i < len(s.rowSep) {
				if s.rowSep[i] {
					add("rowadd-on-separator")
				} else {
					add("rowadd-attached")
				}
			}
		case "AddHeaders":
			if rowsBefore {
				add("headers-after-rows")
			}
			if len(op.Xs) == 0 {
				add("empty-header")
			}
		case "AddRowItems":
			if len(op.Xs) == 0 {
				add("zero-cell-row")
			}
		}
		if len(op.Xs) > 9 {
			add("more-than-9-cells-at-once")
		}
		ids := op.Xs
		if op.O == "RowAdd" {
			ids = []int{op.X}
		}
		if op.T == 1 {
			add("two-tables")
		}
		if op.O == "OnAdd" {
			add("callback-makes-building-calls")
			add(fmt.Sprintf("callback-registered=%d", op.W))
			add(fmt.Sprintf("callback-does=%d", op.A))
			if op.E != 0 {
				add("callback-returns-an-error")
			}
		}
		for _, kind := range append([]int{op.K}, op.Ks...) {
			switch kind {
			case 1:
				add("item-is-a-fresh-Cell")
			case 2:
				add("item-is-a-copied-Cell")
			case 3:
				add("item-is-a-pointer-to-a-Cell")
			}
			if kind >= 4 {
				add("item-is-of-another-dynamic-type")
				if c02IsContainerKind(kind) {
					add("item-is-a-container")
					if len(op.Xs) == 1 && (op.O == "AddHeaders" || op.O == "AddRowItems") {
						add("lone-container-argument")
					}
				}
			}
		}
		if op.O == "AddRow" || op.O == "AppendNewRow" {
			if tabsOf[op.R] == nil {
				tabsOf[op.R] = map[int]bool{}
			}
			tabsOf[op.R][op.T] = true
			if len(tabsOf[op.R]) == 2 {
				add("row-in-two-tables")
			}
		} else if op.O == "RowAdd" && len(tabsOf[op.R]) == 2 {
			add("rowadd-on-a-row-in-two-tables")
		}
		for _, x := range ids {
			if x == 0 {
				add("empty-text")
			} else if usedID[x] {
				add("repeated-text")
			}
			usedID[x] = true
		}
		if op.O == "AddHeaders" {
			hs := map[int]bool{}
			for j, x := range op.Xs {
				if hs[x] {
					add("header-repeats-a-text")
					if j == len(op.Xs)-1 {
						add("header-ends-in-a-repeat")
					}
				}
				hs[x] = true
			}
		}
		s.apply(op)
		rowsBefore = len(s.rowNamed) > 0
	}
	if res.Last != nil {
		add(fmt.Sprintf("ncols=%d", min(res.Last.NCols, 12)/3*3))
		if res.Last.NCols > 9 {
			add("crosses-columns-capacity")
		}
		if res.Last.NCols > 255 {
			add("more-than-255-columns")
		}
		if res.Last.NRows > 255 {
			add("more-than-255-rows")
		}
	}
	if res.Panic != "" {
		add("outcome=panic")
	}
	if res.Nested > 0 {
		add("building-calls-made-from-inside-a-building-call")
	}
	return tags
}

func c02Size(ops []C02Op) int {
	n := 0
	for _, op := range ops {
		n += 2 + 2*len(op.Xs)
		if op.O == "NewRowSizedFor" || (op.O == "RowAdd" && op.R == 0) {
			n++ // prefer the plainer form
		}
		if op.K != 0 || op.T != 0 {
			n++
		}
		if op.O == "OnAdd" {
			n += op.B
			if op.F != 0 {
				n++
			}
			if op.A != 9 {
				n++
			}
			n += op.E
		}
		for _, k := range op.Ks {
			if k != 0 {
				n++
			}
		}
	}
	return n
}

// c02DropOp removes op k and what depends on it (the ops on a row variable it
// creates), renumbering AllRows indices after a dropped attach.
func c02DropOp(ops []C02Op, k int) []C02Op {
	s := newC02Scope()
	for _, op := range ops[:k] {
		s.apply(op)
	}
	before := len(s.rowNamed)
	s.apply(ops[k])
	attachPos := -1
	if len(s.rowNamed) > before {
		attachPos = before
	}
	creates := 0
	if o := ops[k].O; o == "NewRow" || o == "NewRowSizedFor" || o == "AppendNewRow" {
		creates = ops[k].R
	}
	var c []C02Op
	c = append(c, ops[:k]...)
	for _, op := range ops[k+1:] {
		if creates != 0 && op.R == creates && (op.O == "RowAdd" || op.O == "AddRow" || (op.O == "OnAdd" && (op.W == 1 || op.W == 4 || op.W == 5))) {
			continue
		}
		if attachPos >= 0 && op.O == "RowAdd" && op.R == 0 {
			if op.I == attachPos {
				continue
			}
			if op.I > attachPos {
				op.I--
			}
		}
		c = append(c, op)
	}
	return c
}

// one-step reductions: drop one op, drop one item; on long histories whole
// halves of a run of like calls and of an item list (a run is then only
// shortened from its ends, so the candidate count stays small)
func c02Shrink(ops []C02Op) [][]C02Op {
	var out [][]C02Op
	keep := func(c []C02Op) {
		if c02ProgValid(c) {
			out = append(out, c)
		}
	}
	inner := make([]bool, len(ops)) // strictly inside a long run
	for i := 0; i < len(ops); {
		j := i + 1
		for j < len(ops) && c02SameCall(ops[i], ops[j]) {
			j++
		}
		if n := j - i; n >= 8 {
			for k := i + 1; k < j-1; k++ {
				inner[k] = true
			}
			// drop the first half of the run, or its last 2^k ops for every k
			parts := [][2]int{{i, i + n/2}}
			for w := 2; w < n; w *= 2 {
				parts = append(parts, [2]int{j - w, j})
			}
			for _, part := range parts {
				c := append([]C02Op{}, ops...)
				for k := part[1] - 1; k >= part[0]; k-- {
					c = c02DropOp(c, k)
				}
				keep(c)
			}
		}
		i = j
	}
	for k := range ops {
		if !inner[k] {
			keep(c02DropOp(ops, k))
		}
		xs := ops[k].Xs
		setXs := func(nx []int) {
			c := append([]C02Op{}, ops...)
			c[k].Xs = append([]int{}, nx...)
			if len(ops[k].Ks) > 0 {
				// the kinds follow their items when one item is dropped from a short list
				c[k].Ks = nil
				if d := len(xs) - len(nx); d == 1 && len(ops[k].Ks) == len(xs) {
					for j := range xs {
						if j >= len(nx) || xs[j] != nx[j] {
							c[k].Ks = append(append([]int{}, ops[k].Ks[:j]...), ops[k].Ks[j+1:]...)
							break
						}
					}
				}
			}
			out = append(out, c)
		}
		if n := len(xs); n >= 8 {
			setXs(xs[n/2:])
			for w := 1; w < n; w *= 2 {
				setXs(xs[:n-w])
			}
		} else {
			for j := range xs {
				setXs(append(append([]int{}, xs[:j]...), xs[j+1:]...))
			}
		}
		if ops[k].O == "NewRowSizedFor" {
			c := append([]C02Op{}, ops...)
			c[k].O = "NewRow"
			out = append(out, c)
		}
		// a Cell-typed item -> the plain string
		if ops[k].K != 0 {
			c := append([]C02Op{}, ops...)
			c[k].K = 0
			out = append(out, c)
		}
		for j, kind := range ops[k].Ks {
			if kind != 0 && j < len(ops[k].Xs) {
				c := append([]C02Op{}, ops...)
				ks := append([]int{}, ops[k].Ks...)
				ks[j] = 0
				c[k].Ks = ks
				out = append(out, c)
			}
		}
		// a callback that fires fewer times, for every target
		if ops[k].O == "OnAdd" {
			if ops[k].B > 1 {
				c := append([]C02Op{}, ops...)
				c[k].B = ops[k].B / 2
				out = append(out, c)
			}
			if ops[k].F != 0 {
				c := append([]C02Op{}, ops...)
				c[k].F = 0
				out = append(out, c)
			}
			// a callback that returns nil / makes no building call
			if ops[k].E != 0 {
				c := append([]C02Op{}, ops...)
				c[k].E = ops[k].E - 1
				out = append(out, c)
				if ops[k].A != 9 {
					c := append([]C02Op{}, ops...)
					c[k].A = 9
					out = append(out, c)
				}
			}
		}
		// everything on the first table
		if ops[k].T == 1 {
			c := append([]C02Op{}, ops...)
			c[k].T = 0
			keep(c)
		}
		// AllRows()[i].Add -> r.Add when the row has a variable
		if ops[k].O == "RowAdd" && ops[k].R == 0 && !inner[k] {
			s := newC02Scope()
			for _, op := range ops[:k] {
				s.apply(op)
			}
			if ops[k].I < len(s.rowNamed) && s.rowNamed[ops[k].I] != 0 {
				c := append([]C02Op{}, ops...)
				c[k].R, c[k].I = s.rowNamed[ops[k].I], 0
				out = append(out, c)
			}
		}
	}
	return out
}

// ---------------------------------------------------------------- contents and sizes

// every list over the items {1, 2, 0 (the empty text)} of length lo..hi:
// repeated and blank contents
func c02Patterns(lo, hi int) [][]int {
	var out [][]int
	var rec func(p []int)
	rec = func(p []int) {
		if len(p) >= lo {
			out = append(out, append([]int{}, p...))
		}
		if len(p) == hi {
			return
		}
		for _, x := range []int{1, 2, 0} {
			rec(append(p, x))
		}
	}
	rec(nil)
	return out
}

func c02Adds(r, i int, xs []int) []C02Op {
	out := make([]C02Op, len(xs))
	for k, x := range xs {
		out[k] = C02Op{O: "RowAdd", R: r, I: i, X: x}
	}
	return out
}

func c02Cat(parts ...[]C02Op) []C02Op {
	var out []C02Op
	for _, p := range parts {
		out = append(out, p...)
	}
	return out
}

// histories in which header and cell contents repeat or are empty (what a
// library that keys anything on the text would trip over), exhaustively over
// short patterns and a few shapes around them
func c02Contents(add func([]C02Op), thorough bool) {
	one := func(o C02Op) []C02Op { return []C02Op{o} }
	hdr := func(p []int) []C02Op { return one(C02Op{O: "AddHeaders", Xs: p}) }
	items := func(p []int) []C02Op { return one(C02Op{O: "AddRowItems", Xs: p}) }
	hi := 3
	if thorough {
		hi = 4
	}
	for _, p := range c02Patterns(0, hi) {
		add(hdr(p))
		for _, q := range [][]int{{}, {1}, {1, 1}, {0, 0, 0}} {
			add(c02Cat(hdr(p), items(q)))
		}
		for _, q := range [][]int{{1}, {0, 0}} {
			add(c02Cat(items(q), hdr(p)))
		}
		add(c02Cat(one(C02Op{O: "AppendNewRow", R: 1}), hdr(p), c02Adds(1, 0, []int{1})))
		if len(p) > 0 {
			add(items(p))
			add(c02Cat(one(C02Op{O: "NewRow", R: 1}), c02Adds(1, 0, p), one(C02Op{O: "AddRow", R: 1})))
			add(c02Cat(one(C02Op{O: "AppendNewRow", R: 1}), c02Adds(1, 0, p)))
			add(c02Cat(items(p[:1]), c02Adds(0, 0, p[1:])))
		}
	}
	// header patterns of 4 and 5 cells on their own (trailing repeats and blanks)
	for _, p := range c02Patterns(4, 5) {
		if !thorough && len(p) == 5 && p[0] != 1 {
			continue // by symmetry of the two non-empty items
		}
		add(hdr(p))
	}
	// a header replaced by another
	for _, p := range c02Patterns(0, 2) {
		for _, q := range c02Patterns(0, 2) {
			add(c02Cat(hdr(p), hdr(q)))
		}
	}
}

// rows and tables whose sizes sit at and beyond 2^8 (and 2^10): the table is
// dumped once, after the last op
func c02Sizes(r *RNG, add func([]C02Op), thorough bool) {
	seqIDs := func(n, from int) []int {
		xs := make([]int, n)
		for i := range xs {
			xs[i] = (from+i)%200 + 1
		}
		return xs
	}
	one := func(o C02Op) []C02Op { return []C02Op{o} }
	sep := one(C02Op{O: "AddSeparator"})
	sizes := []int{255, 256, 257, 300, 600}
	if thorough {
		sizes = append(sizes, 254, 258, 511, 512, 513, 767, 768, 769, 260+r.Intn(740))
	}
	for _, n := range sizes {
		xs := seqIDs(n, n)
		// AddRowItems; AddHeaders; pre-built row; AppendNewRow then Add; Add
		// before and after attaching; Add through AllRows()[i]
		add(c02Cat(sep, one(C02Op{O: "AddRowItems", Xs: xs})))
		add(one(C02Op{O: "AddHeaders", Xs: xs}))
		add(c02Cat(one(C02Op{O: "NewRow", R: 1}), c02Adds(1, 0, xs), sep, one(C02Op{O: "AddRow", R: 1})))
		add(c02Cat(sep, one(C02Op{O: "AppendNewRow", R: 1}), c02Adds(1, 0, xs)))
		k := 250 + r.Intn(5)
		if k >= n {
			k = n / 2
		}
		add(c02Cat(one(C02Op{O: "NewRowSizedFor", R: 1}), c02Adds(1, 0, xs[:k]), one(C02Op{O: "AddRow", R: 1}), c02Adds(1, 0, xs[k:])))
		add(c02Cat(one(C02Op{O: "AddRowItems", Xs: xs[:1]}), c02Adds(0, 0, xs[1:])))
	}
	for _, n := range []int{1030} {
		xs := seqIDs(n, 7)
		add(one(C02Op{O: "AddRowItems", Xs: xs}))
		add(c02Cat(one(C02Op{O: "AddHeaders", Xs: xs[:n-1]}), one(C02Op{O: "AppendNewRow", R: 1}), c02Adds(1, 0, xs)))
	}
	// many rows
	rowCounts := []int{255, 256, 257, 300}
	if thorough {
		rowCounts = append(rowCounts, 600, 1030)
	}
	for _, n := range rowCounts {
		rep := func(o C02Op, n int) []C02Op {
			out := make([]C02Op, n)
			for i := range out {
				out[i] = o
			}
			return out
		}
		item := C02Op{O: "AddRowItems", Xs: []int{3}}
		// the last rows are added to afterwards, by variable and by index
		add(c02Cat(rep(C02Op{O: "AddSeparator"}, n-1), one(C02Op{O: "AppendNewRow", R: 1}), c02Adds(1, 0, []int{1, 2})))
		add(c02Cat(rep(item, n), c02Adds(0, n-1, []int{4}), c02Adds(0, 0, []int{5})))
		add(c02Cat(one(C02Op{O: "NewRow", R: 1}), c02Adds(1, 0, []int{1}), rep(item, n/2), rep(C02Op{O: "AddSeparator"}, n-n/2-1), one(C02Op{O: "AddRow", R: 1}), c02Adds(1, 0, []int{2})))
	}
}

// items that are already cells: a tabular.Cell made by NewCell, a Cell copied
// by value out of the header / a table row / a pre-built row (stale location
// and all), a *Cell to such a copy - as AddRowItems / AddHeaders items and as
// the argument of Row.Add, in every position of a short list and for every
// source cell of a small table
func c02Kinds(add func([]C02Op)) {
	one := func(o C02Op) []C02Op { return []C02Op{o} }
	prefix := []C02Op{
		{O: "AddHeaders", Xs: []int{1, 2}},
		{O: "AddSeparator"},
		{O: "AddRowItems", Xs: []int{3, 4}},
		{O: "NewRow", R: 1}, {O: "RowAdd", R: 1, X: 5},
		{O: "AppendNewRow", R: 2}, {O: "RowAdd", R: 2, X: 6},
	}
	const nsrc = 6 // cells the prefix has built
	for kind := 1; kind <= 3; kind++ {
		sels := []int{7}
		if kind >= 2 {
			sels = []int{0, 1, 2, 3, 4, 5}
		}
		for _, x := range sels {
			for _, o := range []string{"AddRowItems", "AddHeaders"} {
				add(c02Cat(prefix, one(C02Op{O: o, Xs: []int{x}, Ks: []int{kind}})))
				add(c02Cat(prefix, one(C02Op{O: o, Xs: []int{x, 8}, Ks: []int{kind, 0}})))
				add(c02Cat(prefix, one(C02Op{O: o, Xs: []int{8, x}, Ks: []int{0, kind}})))
				add(c02Cat(prefix, one(C02Op{O: o, Xs: []int{8, x, x}, Ks: []int{0, kind, kind}})))
			}
			add(c02Cat(prefix, one(C02Op{O: "RowAdd", R: 1, X: x, K: kind}), one(C02Op{O: "AddRow", R: 1})))
			add(c02Cat(prefix, one(C02Op{O: "RowAdd", R: 2, X: x, K: kind})))
			add(c02Cat(prefix, one(C02Op{O: "RowAdd", I: 1, X: x, K: kind})))
			add(c02Cat(prefix, one(C02Op{O: "RowAdd", I: 0, X: x, K: kind}))) // on the separator
		}
		// with nothing built yet
		for _, o := range []string{"AddRowItems", "AddHeaders"} {
			add(one(C02Op{O: o, Xs: []int{1}, Ks: []int{kind}}))
			add([]C02Op{{O: o, Xs: []int{1, 2}, Ks: []int{kind, kind}}, {O: o, Xs: []int{0, 1}, Ks: []int{kind, kind}}})
		}
		add([]C02Op{{O: "AppendNewRow", R: 1}, {O: "RowAdd", R: 1, X: 1, K: kind}, {O: "RowAdd", R: 1, X: 0, K: kind}})
	}
	_ = nsrc
}

// programs over two tables that pass one *Row to both tables' AddRow (and
// add cells to it before, between and after): every table is judged on its
// own history.  What the code does: the row object is shared; it reports the
// position in, and its Row.Add widens, the table it was added to LAST.
func c02TwoTables(r *RNG, add func([]C02Op), thorough bool) {
	on := func(t int, ops ...C02Op) []C02Op {
		out := make([]C02Op, len(ops))
		for i, o := range ops {
			o.T = t
			out[i] = o
		}
		return out
	}
	adds := func(n int, from int) []C02Op {
		var out []C02Op
		for i := 0; i < n; i++ {
			out = append(out, C02Op{O: "RowAdd", R: 1, X: from + i})
		}
		return out
	}
	preA := [][]C02Op{nil, on(0, C02Op{O: "AddSeparator"}), on(0, C02Op{O: "AddRowItems", Xs: []int{1}}, C02Op{O: "AddSeparator"}, C02Op{O: "AddRowItems", Xs: []int{2}})}
	preB := [][]C02Op{nil, on(1, C02Op{O: "AddRowItems", Xs: []int{3, 4}}), on(1, C02Op{O: "AddHeaders", Xs: []int{5}}, C02Op{O: "AddSeparator"}, C02Op{O: "AddSeparator"})}
	final := c02Cat(on(0, C02Op{O: "MutateAllRowsCopy"}), on(1, C02Op{O: "MutateAllRowsCopy"}))
	for _, pa := range preA {
		for _, pb := range preB {
			for mk := 0; mk < 4; mk++ {
				for before := 0; before <= 2; before++ {
					for between := 0; between <= 1; between++ {
						for after := 0; after <= 2; after++ {
							var create []C02Op
							attachA := on(0, C02Op{O: "AddRow", R: 1})
							switch mk {
							case 0:
								create = []C02Op{{O: "NewRow", R: 1}}
							case 1:
								create = on(0, C02Op{O: "NewRowSizedFor", R: 1})
							case 2:
								create = on(1, C02Op{O: "NewRowSizedFor", R: 1})
							case 3:
								create, attachA = on(0, C02Op{O: "AppendNewRow", R: 1}), nil
							}
							add(c02Cat(pa, pb, create, adds(before, 10), attachA, adds(between, 20),
								on(1, C02Op{O: "AddRow", R: 1}), adds(after, 30), final))
						}
					}
				}
			}
		}
	}
	// random programs: a few row variables wandering between the two tables
	n := 120
	if thorough {
		n = 3000
	}
	for i := 0; i < n; i++ {
		var h []C02Op
		exists := map[int]bool{}
		var in [2]map[int]bool
		in[0], in[1] = map[int]bool{}, map[int]bool{}
		next, id := 1, 1
		nid := func() int { id++; return (id-2)%200 + 1 }
		for len(h) < 4+r.Intn(14) {
			t := r.Intn(2)
			var vs []int
			for v := 1; v < next; v++ {
				vs = append(vs, v)
			}
			switch k := r.Intn(12); {
			case k < 1:
				h = append(h, C02Op{O: "AddHeaders", T: t, Xs: []int{nid(), nid()}[:r.Intn(3)]})
			case k < 2:
				h = append(h, C02Op{O: "AddRowItems", T: t, Xs: []int{nid(), nid(), nid()}[:r.Intn(4)]})
			case k < 3:
				h = append(h, C02Op{O: "AddSeparator", T: t})
			case k < 5 && next <= 3:
				o := pick(r, []string{"NewRow", "NewRowSizedFor", "AppendNewRow"})
				h = append(h, C02Op{O: o, T: t, R: next})
				if o == "AppendNewRow" {
					in[t][next] = true
				}
				exists[next] = true
				next++
			case k < 8 && len(vs) > 0:
				v := pick(r, vs)
				for j := 1 + r.Intn(3); j > 0; j-- {
					h = append(h, C02Op{O: "RowAdd", R: v, X: nid()})
				}
			case k < 11 && len(vs) > 0:
				v := pick(r, vs)
				if !in[t][v] {
					in[t][v] = true
					h = append(h, C02Op{O: "AddRow", T: t, R: v})
				}
			case k == 11:
				h = append(h, C02Op{O: "MutateAllRowsCopy", T: t})
			}
		}
		h = append(h, final...)
		if c02ProgValid(h) {
			add(h)
		}
	}
}

func init() {
	register(&Prop{
		ID:       "C02",
		Imports:  "From Tab Require Import Run.Glue Run.C02Run.",
		CaseType: "(list (list (op N) * sched * res (list N)))",
		CaseFn:   "C02_case",
		ModelFn:  "C02_model",
		Rule: "build histories over {AddHeaders, AddRowItems, AddSeparator, AppendNewRow, NewRow, NewRowSizedFor, Row.Add on any existing row (a row variable, detached or attached, or AllRows()[i] incl. separators), " +
			"AddRow of any still-detached row, mutate the AllRows() copy}; every op denotes a Go call and a pre-built row is attached at most once (wf_hist); item texts may repeat and may be empty; " +
			"an item may be a string, a tabular.Cell made by NewCell, a Cell copied by value out of a row built earlier, or a *Cell to such a copy, " +
			"or a value of any other dynamic type - a []string, []interface{}, []tabular.Cell, []int, []byte, [][]string, typed nil slice, array, pointer to a slice, map, struct, nil, int, Stringer, error - of 0..3 elements, alone or beside other arguments (one argument is one cell); " +
			"a program may register add-time callbacks which make building calls themselves when they fire (on the table for rows or for cells, on a pre-built row for itself or for its cells, on a column for its cells; " +
			"the callback appends one or two cells to the row it is called for, to another row, adds a separator, a row, a pre-built row, a new header, for header rows only / body rows only / both, a bounded number of times) " +
			"and may add cells later to a header row such a callback was handed (also one that has been replaced): every call, the program's or a callback's, is logged when it is made and that log is the history; the table is then dumped after every call of the PROGRAM (Spec/HistorySegs.v); " +
			"a program may build two tables and pass one *Row to both tables' AddRow (each table is then judged on its own history, in which the other table's AddRow is the op OtherAddRow); " +
			"the table VALUE may be the core table or a stack of 1..3 rendering wrappers around it (csv, html, json, markdown, texttable by Wrap or by the package's New, auto.New / auto.Wrap of 8 style strings), all building calls made on one level of the stack and the table looked at through the same or another level (c02_r6.go); " +
			"an add-time callback may return an error (for every / every second target) and may make no building call at all; " +
			"the table is dumped after every op (after the last op only for the histories that build rows of 255..1030 cells or tables of 255..300 rows); " +
			"a case is non-trivial when the table ends with at least one row or a header; distinct = distinct history",
		Exhaustive: "all valid histories of exactly 3 ops over the full alphabet (cell counts 0/1/2, distinct items) and exactly 4 ops over the reduced alphabet (cell counts 0/1, no NewRowSizedFor) in the quick tier, " +
			"4 (full) and 5 (reduced) in the thorough tier; each is dumped after every op, so all shorter histories are covered as prefixes; " +
			"all header / row contents of length <= 3 (4 thorough) over {two texts, the empty text} in 12 shapes, all header contents of length 4 (and 5) alone, all pairs of successive headers of length <= 2; " +
			"every item type x every container length as the lone argument / first / second of two for AddHeaders, AddRowItems and Row.Add in 6 shapes; " +
			"for each wrapper of the five sub-packages (by Wrap, by New) all histories of exactly 2 ops over the full alphabet, for auto.New of 8 styles over the reduced one (thorough: 3 ops, 52 ways of getting and using one wrapper); header width none/0..2 x row width 0..3 x 4 entry points x header before/after the row, on the core table (to 3 x 4) and through every wrapper; " +
			"for each place of registration of a callback that returns an error all continuations of exactly 2 ops (3 thorough); " +
			"for each of 40 callback registrations (where x what it does x for which targets) all continuations of exactly 2 ops (3 for the body-row 'total cell' callback; one more in the thorough tier) in which the callback can fire",
		Gen: func(r *RNG, tier string) []json.RawMessage {
			var out []json.RawMessage
			add := func(h []C02Op) { out = append(out, mustJSON(C02Spec{Ops: h})) }
			var big []json.RawMessage
			addLast := func(h []C02Op) { big = append(big, mustJSON(C02Spec{Ops: h, LastOnly: true})) }
			thorough := tier == "thorough"
			c02Contents(add, thorough)
			c02Kinds(add)
			c02OtherItems(add)
			c02Callbacks(r, add, thorough)
			c02TwoTables(r, add, thorough)
			c02Sizes(r, addLast, thorough)
			c02R6(r, func(sp C02Spec) { out = append(out, mustJSON(sp)) }, thorough)
			if thorough {
				c02Enum(4, true, add)
				c02Enum(5, false, add)
			} else {
				c02Enum(3, true, add)
				c02Enum(4, false, add)
			}
			n := 150
			if thorough {
				n = 3000
			}
			for i := 0; i < n; i++ {
				add(c02Random(r, 25, 12))
			}
			// the long histories cost the most to evaluate: spread them
			// evenly, so that no one shard carries them all
			mixed := make([]json.RawMessage, 0, len(out)+len(big))
			step := len(out)/(len(big)+1) + 1
			for i, c := range out {
				if i%step == 0 && len(big) > 0 {
					mixed = append(mixed, big[0])
					big = big[1:]
				}
				mixed = append(mixed, c)
			}
			return append(mixed, big...)
		},
		Run: func(spec json.RawMessage) CaseOut {
			var cs C02Spec
			if err := json.Unmarshal(spec, &cs); err != nil {
				panic(err)
			}
			if c02HasCallbacks(cs.Ops) {
				return c02RunCB(cs, spec)
			}
			o := c02ExecVia(cs.Ops, cs.LastOnly, cs.Via)
			var parts []string
			for t := 0; t < o.ntables; t++ {
				obs := "(Ok " + cqBytes(o.dumps[t]) + ")"
				if o.panicked {
					obs = "Panic"
				}
				sched := "Every"
				if cs.LastOnly {
					sched = "Last"
				}
				parts = append(parts, "("+c02CoqHistory(o.hist[t])+", "+sched+", "+obs+")")
			}
			h := cqList(parts)
			tags := append(c02Tags(cs.Ops, o.res), cs.Via.tags()...)
			if cs.LastOnly {
				tags = append(tags, "dumped-after-last-op-only")
			}
			key := string(spec)
			return CaseOut{
				Coq:        h,
				Desc:       o.res,
				Size:       c02Size(cs.Ops),
				Tags:       tags,
				Key:        key,
				Nontrivial: o.res.Last != nil && (o.res.Last.NRows > 0 || o.res.Last.Header != nil),
			}
		},
		Shrink: func(spec json.RawMessage) []json.RawMessage {
			var cs C02Spec
			if err := json.Unmarshal(spec, &cs); err != nil {
				return nil
			}
			var out []json.RawMessage
			for _, h := range c02Shrink(cs.Ops) {
				out = append(out, mustJSON(C02Spec{Ops: h, LastOnly: cs.LastOnly, Via: cs.Via}))
			}
			for _, v := range cs.Via.shrink() {
				out = append(out, mustJSON(C02Spec{Ops: cs.Ops, LastOnly: cs.LastOnly, Via: v}))
			}
			return out
		},
	})
}
