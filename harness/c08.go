package main

// C08 - Markdown output keeps GFM table structure and neutralises content.

import (
	"encoding/json"
	"fmt"
	"html"
	"strings"

	"go.pennock.tech/tabular"
	"go.pennock.tech/tabular/length"
	"go.pennock.tech/tabular/markdown"
)

// pipe / backslash / entity-hostile alphabet
var mdAtoms = []string{
	"", "|", `\`, `\|`, `\\`, `\\|`, "&", "&#x7c;", "&amp;", "&#124;", "&#x0a;", "&", "<", ">", `"`, "'",
	"\n", "x\ny", "z\n", `a\`, `|\`, " a ", "  ", " ", "a|b", "<b>|</b>", "abc", "-", ":---:", "---",
	"世界", "e\u0301", "\u200b", "\uff57", "👍", "\xff", "&lt", "&;", "`|`", "a b",
}

// Text that some *other* layer would interpret if the renderer ever handed
// cell content to it: printf verbs (content used as a format string), template
// actions, regexp / os.Expand references, Go / URL / numeric-entity escapes in
// source form, and white space other than U+0020 (which the property's trim
// must keep: only U+0020 is padding) or runs of it (collapsing).  Every one of
// them is placed in every field position, like the atoms above.
var mdMetaAtoms = []string{
	"%", "100%", "50% off", "%d", "%s", "%v", "%%", "%!", "%!d(MISSING)", "a%", "%|", "|%", "%\n", "5 %d 7",
	"%[1]s", "%-5d", "%+v", "%#v", "% x", "%5", "%.", "%*d", `%\`, "%&", "%<", "%%%",
	"{{.}}", "{{", "$1", "${1}", "$$", "$", `\n`, `\t`, `\x7c`, `\u007c`, `\174`, "%7C", "%0A", "&#37;", "&#x25;", "&percnt;",
	"\ta\t", "\t", "\u00a0a\u00a0", "\u3000", "a  b", " a  b ", "\v", "\f", "\x00", "a\x00b", "aB", "ß",
}

func mdText(r *RNG) ItemSpec {
	switch p := r.Intn(100); {
	case p < 40:
		return Str(pick(r, mdAtoms))
	case p < 52:
		return Str(pick(r, mdMetaAtoms))
	case p < 75:
		n := 2 + r.Intn(2)
		s := ""
		for i := 0; i < n; i++ {
			if r.Pct(25) {
				s += pick(r, mdMetaAtoms)
			} else {
				s += pick(r, mdAtoms)
			}
		}
		return Str(s)
	case p < 77:
		// CR is a documented non-goal (DESIGN 13.6): a small counted stream,
		// judged on every clause except "no CR in the output"
		return Str(pick(r, []string{"\r", "a\r\nb", "\r|"}))
	default:
		n := r.Intn(9)
		b := make([]byte, n)
		alpha := []byte{'|', '\\', '&', '<', '>', '"', '\'', '\n', ' ', ' ', 'a', 'b', ';', '#', 'x', '7', 'c', '-', ':', 0xc3, 0xa9, 0, '%', '%', 'd', 's', '!', '$', '{', '\t'}
		for i := range b {
			b[i] = alpha[r.Intn(len(alpha))]
		}
		return Str(string(b))
	}
}

// the escaping the renderer applies (mdCellEscape is unexported; this is its
// body, using the real html.EscapeString): only used to key the width oracle
func mdEsc(s string) string {
	return strings.Replace(strings.Replace(html.EscapeString(s), "|", "&#x7c;", -1), "\n", "&#x0a;", -1)
}

// width oracle: (escaped text, length.StringCells) for every string the model
// measures: the escaped text of every header and body cell, and the control
// cells of every column for each alignment
func mdWidthTable(v View) string {
	seen := map[string]bool{}
	var xs []string
	add := func(s string) {
		if seen[s] {
			return
		}
		seen[s] = true
		xs = append(xs, cqPair(cqStr(s), cqNat(length.StringCells(s))))
	}
	widths := make([]int, v.NCols)
	row := func(cs []VCell, set bool) {
		for i, c := range cs {
			add(mdEsc(c.Text))
			if i < len(widths) && (set || c.TW > widths[i]) {
				widths[i] = c.TW
			}
		}
	}
	if v.Header != nil {
		row(*v.Header, true)
	}
	for _, r := range v.Rows {
		if r != nil {
			row(*r, false)
		}
	}
	for _, w := range widths {
		if w < 3 {
			w = 3
		}
		d := strings.Repeat("-", w)
		add(" " + d + " ")
		add(" " + d + ":")
		add(":" + d + ":")
	}
	return cqList(xs)
}

func mdCellCoq(c VCell) string {
	return "(TW " + cqStr(c.Text) + " " + cqZ(int64(c.TW)) + ")"
}

func mdViewCoq(v View) string {
	cells := func(cs []VCell) string {
		xs := make([]string, len(cs))
		for i, c := range cs {
			xs[i] = mdCellCoq(c)
		}
		return cqList(xs)
	}
	var sb strings.Builder
	sb.WriteString("(mkView " + cqNat(v.NCols) + " ")
	if v.Header == nil {
		sb.WriteString("None ")
	} else {
		sb.WriteString(cqSome(cells(*v.Header)) + " ")
	}
	rows := make([]string, len(v.Rows))
	for i, r := range v.Rows {
		if r == nil {
			rows[i] = "None"
		} else {
			rows[i] = cqSome(cells(*r))
		}
	}
	sb.WriteString(cqList(rows) + " ")
	as := make([]string, len(v.Align))
	ss := make([]string, len(v.Skip))
	for i, a := range v.Align {
		if a > 3 {
			a = 0
		}
		as[i] = cqAlign[a]
		ss[i] = "None"
	}
	sb.WriteString(cqList(as) + " " + cqList(ss) + ")")
	return sb.String()
}

func viewWF(v View) bool {
	if v.Header != nil && len(*v.Header) > v.NCols {
		return false
	}
	for _, r := range v.Rows {
		if r != nil && len(*r) > v.NCols {
			return false
		}
	}
	return true
}

// mdSig names the class of a misbehaviour, only to group failing cases (the
// verdict itself is the Coq oracle's).
func mdSig(v View, o Outcome) string {
	zero := v.Header != nil && len(*v.Header) == 0
	for _, r := range v.Rows {
		if r != nil && len(*r) == 0 {
			zero = true
		}
	}
	switch o.Kind {
	case "panic":
		if zero {
			return "panic-zero-cell-row-or-empty-header"
		}
		return "panic"
	case "err":
		if v.NCols > 0 && v.Header != nil && viewWF(v) {
			return "error-on-valid-table"
		}
		return ""
	}
	if v.NCols == 0 || v.Header == nil {
		return "rendered-without-header-or-columns"
	}
	out := string(o.Out)
	lines := strings.Split(out, "\n")
	nbody := 0
	for _, r := range v.Rows {
		if r != nil {
			nbody++
		}
	}
	if len(lines) != 3+nbody || lines[len(lines)-1] != "" {
		return "line-count"
	}
	for _, l := range lines[:len(lines)-1] {
		if strings.Count(l, "|") != v.NCols+1 {
			return "pipe-count"
		}
	}
	cells := strings.Split(lines[1], "|")
	for i := 0; i < v.NCols && i+1 < len(cells); i++ {
		c := strings.Trim(cells[i+1], " ")
		own, dflt := v.Align[i+1], v.Align[0]
		eff := own
		if eff == 0 {
			eff = dflt
		}
		wantL, wantR := eff == 3, eff == 2 || eff == 3
		if strings.HasPrefix(c, ":") != wantL || strings.HasSuffix(c, ":") != wantR {
			if own == 0 && dflt != 0 {
				return "delimiter-ignores-column0-default"
			}
			return "delimiter-alignment-mismatch"
		}
	}
	return ""
}

func mdTextTags(v View) []string {
	cls := map[string]bool{}
	scan := func(cs []VCell) {
		for _, c := range cs {
			s := c.Text
			if strings.Contains(s, "|") {
				cls["text:pipe"] = true
			}
			if strings.Contains(s, `\`) {
				cls["text:backslash"] = true
			}
			if strings.HasSuffix(s, `\`) {
				cls["text:trailing-backslash"] = true
			}
			if strings.Contains(s, "\n") {
				cls["text:LF"] = true
			}
			if strings.Contains(s, "\r") {
				cls["text:CR(out-of-domain)"] = true
			}
			if strings.Contains(s, "&") {
				cls["text:ampersand"] = true
			}
			if strings.ContainsAny(s, "<>\"'") {
				cls["text:markup"] = true
			}
			if strings.HasPrefix(s, " ") || strings.HasSuffix(s, " ") {
				cls["text:outer-space"] = true
			}
			if len(s) != c.TW && !strings.Contains(s, "\n") {
				cls["text:width<>bytes"] = true
			}
		}
	}
	if v.Header != nil {
		scan(*v.Header)
	}
	for _, r := range v.Rows {
		if r != nil {
			scan(*r)
		}
	}
	for i, a := range v.Align {
		if a != 0 {
			if i == 0 {
				cls["align:column0-default"] = true
			} else {
				cls["align:own"] = true
			}
		}
	}
	var out []string
	for k := range cls {
		out = append(out, k)
	}
	return out
}

type mdDesc struct {
	Outcome
	Sig string `json:"sig"`
}

func randAlign(r *RNG, maxCol int) map[int]int {
	m := map[int]int{}
	for c := 0; c <= maxCol; c++ {
		if a := r.Intn(4); a != 0 && r.Pct(60) {
			m[c] = a
		}
	}
	if len(m) == 0 {
		return nil
	}
	return m
}

// mdSpec is a table spec plus rows that the shared builder cannot express:
// rows of no cells made as a ZERO VALUE (new(tabular.Row), &tabular.Row{},
// a declared variable) and handed to AddRow, before the build proper
// (ZeroFirst) and after it (ZeroLast).  Their Cells() is a nil slice where a
// row from NewRow / AppendNewRow / AddRowItems() has an empty non-nil one; they
// are not separators, so each must come out as a line of padding columns.
// (DESIGN 13.10 leaves zero-value literals outside the theorems' domain; the
// expectation here is positional - computed from the spec, never asked of the
// library.)  ZeroFirst is ignored when the spec has mutations (those address
// rows by their position in the table).
type mdSpec struct {
	TableSpec
	ZeroFirst int `json:"zero_first,omitempty"`
	ZeroLast  int `json:"zero_last,omitempty"`
}

func (ms mdSpec) zeroFirst() int {
	if len(ms.Mutations) > 0 {
		return 0
	}
	return ms.ZeroFirst
}

func addZeroValueRows(t tabular.Table, n int) {
	for k := 0; k < n; k++ {
		switch k % 3 {
		case 0:
			t.AddRow(new(tabular.Row))
		case 1:
			t.AddRow(&tabular.Row{})
		default:
			var row tabular.Row
			t.AddRow(&row)
		}
	}
}

// view from the spec alone, the zero-value rows at their positions
func (ms mdSpec) view() View {
	v := ms.TableSpec.SpecView()
	var rows []*[]VCell
	for k := 0; k < ms.zeroFirst(); k++ {
		rows = append(rows, &[]VCell{})
	}
	rows = append(rows, v.Rows...)
	for k := 0; k < ms.ZeroLast; k++ {
		rows = append(rows, &[]VCell{})
	}
	v.Rows = rows
	return v
}

func init() {
	register(&Prop{
		ID:       "C08",
		Imports:  "From Tab Require Import Run.Glue Run.C08Run.",
		CaseType: "((view * list (list N * nat)) * res (list N))",
		CaseFn:   "C08_case",
		ModelFn:  "C08_model",
		Rule: "tables built through the public API (AddHeaders / AddRowItems / NewRow+Add+AddRow / AppendNewRow+Add / NewRowSizedFor / AddSeparator, plus the shared enrichments: second header, staged renders through one wrapper, property histories, mutations, write faults), rendered by markdown.Wrap(t).Render(); the expected view is computed from the spec, never read back from the table; " +
			"zero-value rows (new(tabular.Row), &tabular.Row{}) added with AddRow before and after the build in about one table in six and in every first/last pattern of three small tables (outside DESIGN 13.10's domain, judged positionally: a line of padding columns each); " +
			"texts additionally from an alphabet of strings another layer would interpret (printf verbs, template actions, $-references, escapes in source form, URL/numeric entities) and of white space other than U+0020, each in every field position; " +
			"every shape with header in {none,0,1,2 cells} and up to 3 rows over {separator,0,1,2 cells} with texts from a pipe/backslash/entity/LF/space/wide-character alphabet and a random alignment assignment; " +
			"every alignment assignment {unset,L,R,C} on column 0 and each column of four fixed hostile grids with <= 2 columns; every atom of the alphabet in first/last/padded position; random tables to 6x6 with random alignments; " +
			"a case is non-trivial when the table has a column and a header (rendering is attempted); distinct = distinct (view, outcome, output)",
		Exhaustive: "shapes (header x row-sequence up to length 3); all 4^(ncols+1) alignment assignments on four fixed grids with 1 and 2 columns; every alphabet atom (hostile and interpretable) in 7 field positions; zero-value rows in all 8 first/last count patterns of 3 small tables",
		Gen: func(r *RNG, tier string) []json.RawMessage {
			// NewRNG(seed) starts seed k at seed 1's state advanced by k-1 steps, so
			// the streams of different seeds re-synchronise after a few cases and
			// then generate the same list; restart from a hashed state instead
			r = &RNG{s: r.U64()}
			var out []json.RawMessage
			addM := func(ms mdSpec) { out = append(out, mustJSON(ms)) }
			// a zero-value row before and/or after about one table in six
			zeros := func(ts TableSpec) mdSpec {
				ms := mdSpec{TableSpec: ts}
				if r.Pct(16) {
					switch r.Intn(3) {
					case 0:
						ms.ZeroFirst = 1 + r.Intn(2)
					case 1:
						ms.ZeroLast = 1 + r.Intn(2)
					default:
						ms.ZeroFirst, ms.ZeroLast = 1, 1
					}
				}
				return ms
			}
			add := func(ts TableSpec) { addM(zeros(ts)) }
			hows := []int{0, 0, 1, 2, 3}
			maxRows := 3
			if tier == "thorough" {
				maxRows = 4
			}
			enumShapes(maxRows, 2, func(h int, rows []int) {
				ts := shapeSpec(r, h, rows, mdText, hows)
				if r.Pct(50) {
					ts.Align = randAlign(r, 2)
				}
				add(ts)
			})
			// every alignment assignment on fixed hostile grids
			grids := []TableSpec{
				{Header: &[]ItemSpec{Str("h|"), Str(`b\`)}, Rows: []RowSpec{{Cells: []ItemSpec{Str(" a "), Str("世界")}}, {Cells: []ItemSpec{Str("x")}}, {Cells: []ItemSpec{}}}},
				{Header: &[]ItemSpec{Str("wide header"), Str("")}, Rows: []RowSpec{{Cells: []ItemSpec{Str(`\|`), Str("&#x7c;<")}}, {Sep: true}, {Cells: []ItemSpec{Str("e\u0301"), Str("a\nbcdefg")}}}},
				{Header: &[]ItemSpec{Str("|")}, Rows: []RowSpec{{Cells: []ItemSpec{Str("e\u0301\n")}}, {Cells: []ItemSpec{}}}},
				{Header: &[]ItemSpec{Str("long header")}, Rows: []RowSpec{{Cells: []ItemSpec{Str(`a\`)}}, {Cells: []ItemSpec{Str("\uff57")}}}},
			}
			for gi, g := range grids {
				ncols := len(*g.Header)
				n := 1
				for i := 0; i <= ncols; i++ {
					n *= 4
				}
				for code := 0; code < n; code++ {
					ts := g
					ts.Align = map[int]int{}
					c := code
					for col := 0; col <= ncols; col++ {
						if a := c % 4; a != 0 {
							ts.Align[col] = a
						}
						c /= 4
					}
					_ = gi
					add(ts)
				}
			}
			// every atom in each field position: header (first, middle, last), body
			// first / middle / last, last cell of a short row (followed by padding)
			for _, s := range append(append([]string{}, mdAtoms...), mdMetaAtoms...) {
				h := []ItemSpec{Str("h1"), Str(s), Str("h3")}
				addM(mdSpec{TableSpec: TableSpec{Header: &h, Rows: []RowSpec{
					{Cells: []ItemSpec{Str(s), Str("m"), Str("z")}},
					{Cells: []ItemSpec{Str("a"), Str(s)}},
					{Cells: []ItemSpec{Str("a"), Str("m"), Str(s)}}},
					Align: randAlign(r, 3)}})
				h2 := []ItemSpec{Str(s), Str("h2"), Str(s)}
				addM(mdSpec{TableSpec: TableSpec{Header: &h2, Rows: []RowSpec{
					{Cells: []ItemSpec{Str("a"), Str(s), Str("z")}},
					{Cells: []ItemSpec{Str(s)}}},
					Align: randAlign(r, 3)}})
			}
			// zero-value rows at every position pattern of a small table
			for code := 1; code < 9; code++ {
				h := []ItemSpec{Str("h1"), Str("h2")}
				for _, rows := range [][]RowSpec{nil, {{Cells: []ItemSpec{Str("a"), Str("b")}}}, {{Sep: true}, {Cells: []ItemSpec{}}, {Cells: []ItemSpec{Str("a")}}}} {
					addM(mdSpec{TableSpec: TableSpec{Header: &h, Rows: rows, HeaderAt: len(rows) * (code % 2)}, ZeroFirst: code % 3, ZeroLast: code / 3})
				}
			}
			n := 300
			if tier == "thorough" {
				n = 12000
			}
			for i := 0; i < n; i++ {
				ts := randTable(r, 6, 6, mdText, hows)
				if r.Pct(70) {
					ts.Align = randAlign(r, 6)
				}
				enrichSpec(r, &ts, mdText)
				add(ts)
			}
			return out
		},
		Run: func(spec json.RawMessage) CaseOut {
			var ms mdSpec
			if err := json.Unmarshal(spec, &ms); err != nil {
				panic(err)
			}
			ts := ms.TableSpec
			t := tabular.New()
			addZeroValueRows(t, ms.zeroFirst())
			// BuildRenderW makes the wrapper after the build unless earlier renders
			// are part of the history; the trailing zero-value rows join the table
			// there, between build and render.  With a history the shared builder
			// offers no such point: they are left out (of the table and the view).
			if len(ts.Stages) > 0 || len(ts.Mutations) > 0 || ts.StageFaults {
				ms.ZeroLast = 0
			}
			o := ts.BuildRenderW(t, func(t tabular.Table) RenderW {
				addZeroValueRows(t, ms.ZeroLast)
				return markdown.Wrap(t)
			})
			v := ms.view() // judged against what was put in, not what the table now holds
			vc := mdViewCoq(v)
			return CaseOut{
				Coq:        cqPair(cqPair(vc, mdWidthTable(v)), o.Coq()),
				Desc:       mdDesc{Outcome: o, Sig: mdSig(v, o)},
				Size:       ts.Size() + 2*(ms.ZeroFirst+ms.ZeroLast),
				Tags:       append(append(append(shapeTags(v), mdTextTags(v)...), mdZeroTags(ms)...), "outcome="+o.Kind),
				Key:        vc + o.Kind + string(o.Out),
				Nontrivial: v.NCols > 0 && v.Header != nil,
			}
		},
		Shrink: mdShrink,
	})
}

// mdShrink: the shared one-step reductions, plus replacing one text (or all
// texts) by "x", which the shared shrinker (halving) reaches only slowly
func mdZeroTags(ms mdSpec) []string {
	var out []string
	if ms.zeroFirst() > 0 {
		out = append(out, "zero-value-row:first")
	}
	if ms.ZeroLast > 0 {
		out = append(out, "zero-value-row:last")
	}
	return out
}

// mdShrink shrinks the table part and keeps the zero-value rows, and proposes
// dropping those one at a time.
func mdShrink(spec json.RawMessage) []json.RawMessage {
	var ms mdSpec
	if err := json.Unmarshal(spec, &ms); err != nil {
		return nil
	}
	var out []json.RawMessage
	for _, c := range mdShrinkTable(mustJSON(ms.TableSpec)) {
		var ts TableSpec
		if err := json.Unmarshal(c, &ts); err != nil {
			continue
		}
		out = append(out, mustJSON(mdSpec{TableSpec: ts, ZeroFirst: ms.ZeroFirst, ZeroLast: ms.ZeroLast}))
	}
	if ms.ZeroFirst > 0 {
		out = append(out, mustJSON(mdSpec{TableSpec: ms.TableSpec, ZeroFirst: ms.ZeroFirst - 1, ZeroLast: ms.ZeroLast}))
	}
	if ms.ZeroLast > 0 {
		out = append(out, mustJSON(mdSpec{TableSpec: ms.TableSpec, ZeroFirst: ms.ZeroFirst, ZeroLast: ms.ZeroLast - 1}))
	}
	return out
}

func mdShrinkTable(spec json.RawMessage) []json.RawMessage {
	out := shrinkTableJSON(spec)
	var ts TableSpec
	if err := json.Unmarshal(spec, &ts); err != nil {
		return out
	}
	clone := func() TableSpec {
		b, _ := json.Marshal(ts)
		var c TableSpec
		json.Unmarshal(b, &c)
		return c
	}
	simple := func(it ItemSpec) bool { return it.K == "str" && (string(it.B) == "x" || len(it.B) == 0) }
	all := clone()
	changed := false
	if ts.Header != nil {
		for j, h := range *ts.Header {
			if !simple(h) {
				c := clone()
				(*c.Header)[j] = Str("x")
				out = append(out, mustJSON(c))
				(*all.Header)[j] = Str("x")
				changed = true
			}
		}
	}
	for i, r := range ts.Rows {
		for j, it := range r.Cells {
			if !simple(it) {
				c := clone()
				c.Rows[i].Cells[j] = Str("x")
				out = append(out, mustJSON(c))
				all.Rows[i].Cells[j] = Str("x")
				changed = true
			}
		}
	}
	if changed {
		out = append(out, mustJSON(all))
	}
	return out
}

var _ = fmt.Sprintf
