package main

// C08 - Markdown output keeps GFM table structure and neutralises content.

import (
	"encoding/json"
	"fmt"
	"html"
	"strings"

	"go.pennock.tech/tabular"
	"go.pennock.tech/tabular/length"
	"go.pennock.tech/tabular/markdown"
	"go.pennock.tech/tabular/properties/align"
)

// pipe / backslash / entity-hostile alphabet
var mdAtoms = []string{
	"", "|", `\`, `\|`, `\\`, `\\|`, "&", "&#x7c;", "&amp;", "&#124;", "&#x0a;", "&", "<", ">", `"`, "'",
	"\n", "x\ny", "z\n", `a\`, `|\`, " a ", "  ", " ", "a|b", "<b>|</b>", "abc", "-", ":---:", "---",
	"世界", "e\u0301", "\u200b", "\uff57", "👍", "\xff", "&lt", "&;", "`|`", "a b",
}

// Text that some *other* layer would interpret if the renderer ever handed
// cell content to it: printf verbs (content used as a format string), template
// actions, regexp / os.Expand references, Go / URL / numeric-entity escapes in
// source form, and white space other than U+0020 (which the property's trim
// must keep: only U+0020 is padding) or runs of it (collapsing).  Every one of
// them is placed in every field position, like the atoms above.
var mdMetaAtoms = []string{
	"%", "100%", "50% off", "%d", "%s", "%v", "%%", "%!", "%!d(MISSING)", "a%", "%|", "|%", "%\n", "5 %d 7",
	"%[1]s", "%-5d", "%+v", "%#v", "% x", "%5", "%.", "%*d", `%\`, "%&", "%<", "%%%",
	"{{.}}", "{{", "$1", "${1}", "$$", "$", `\n`, `\t`, `\x7c`, `\u007c`, `\174`, "%7C", "%0A", "&#37;", "&#x25;", "&percnt;",
	"\ta\t", "\t", "\u00a0a\u00a0", "\u3000", "a  b", " a  b ", "\v", "\f", "\x00", "a\x00b", "aB", "ß",
}

func mdText(r *RNG) ItemSpec {
	switch p := r.Intn(100); {
	case p < 40:
		return Str(pick(r, mdAtoms))
	case p < 52:
		return Str(pick(r, mdMetaAtoms))
	case p < 75:
		n := 2 + r.Intn(2)
		s := ""
		for i := 0; i < n; i++ {
			if r.Pct(25) {
				s += pick(r, mdMetaAtoms)
			} else {
				s += pick(r, mdAtoms)
			}
		}
		return Str(s)
	case p < 77:
		// CR is a documented non-goal (DESIGN 13.6): a small counted stream,
		// judged on every clause except "no CR in the output"
		return Str(pick(r, []string{"\r", "a\r\nb", "\r|"}))
	default:
		n := r.Intn(9)
		b := make([]byte, n)
		alpha := []byte{'|', '\\', '&', '<', '>', '"', '\'', '\n', ' ', ' ', 'a', 'b', ';', '#', 'x', '7', 'c', '-', ':', 0xc3, 0xa9, 0, '%', '%', 'd', 's', '!', '$', '{', '\t'}
		for i := range b {
			b[i] = alpha[r.Intn(len(alpha))]
		}
		return Str(string(b))
	}
}

// the escaping the renderer applies (mdCellEscape is unexported; this is its
// body, using the real html.EscapeString): only used to key the width oracle
func mdEsc(s string) string {
	return strings.Replace(strings.Replace(html.EscapeString(s), "|", "&#x7c;", -1), "\n", "&#x0a;", -1)
}

// width oracle: (escaped text, length.StringCells) for every string the model
// measures: the escaped text of every header and body cell, and the control
// cells of every column for each alignment
func mdWidthTable(v View) string {
	seen := map[string]bool{}
	var xs []string
	add := func(s string) {
		if seen[s] {
			return
		}
		seen[s] = true
		xs = append(xs, cqPair(cqStr(s), cqNat(length.StringCells(s))))
	}
	widths := make([]int, v.NCols)
	row := func(cs []VCell, set bool) {
		for i, c := range cs {
			add(mdEsc(c.Text))
			if i < len(widths) && (set || c.TW > widths[i]) {
				widths[i] = c.TW
			}
		}
	}
	if v.Header != nil {
		row(*v.Header, true)
	}
	for _, r := range v.Rows {
		if r != nil {
			row(*r, false)
		}
	}
	for _, w := range widths {
		if w < 3 {
			w = 3
		}
		d := strings.Repeat("-", w)
		add(" " + d + " ")
		add(" " + d + ":")
		add(":" + d + ":")
	}
	return cqList(xs)
}

func mdCellCoq(c VCell) string {
	return "(TW " + cqStr(c.Text) + " " + cqZ(int64(c.TW)) + ")"
}

func mdViewCoq(v View) string {
	cells := func(cs []VCell) string {
		xs := make([]string, len(cs))
		for i, c := range cs {
			xs[i] = mdCellCoq(c)
		}
		return cqList(xs)
	}
	var sb strings.Builder
	sb.WriteString("(mkView " + cqNat(v.NCols) + " ")
	if v.Header == nil {
		sb.WriteString("None ")
	} else {
		sb.WriteString(cqSome(cells(*v.Header)) + " ")
	}
	rows := make([]string, len(v.Rows))
	for i, r := range v.Rows {
		if r == nil {
			rows[i] = "None"
		} else {
			rows[i] = cqSome(cells(*r))
		}
	}
	sb.WriteString(cqList(rows) + " ")
	as := make([]string, len(v.Align))
	ss := make([]string, len(v.Skip))
	for i, a := range v.Align {
		if a > 3 {
			a = 0
		}
		as[i] = cqAlign[a]
		ss[i] = "None"
	}
	sb.WriteString(cqList(as) + " " + cqList(ss) + ")")
	return sb.String()
}

func viewWF(v View) bool {
	if v.Header != nil && len(*v.Header) > v.NCols {
		return false
	}
	for _, r := range v.Rows {
		if r != nil && len(*r) > v.NCols {
			return false
		}
	}
	return true
}

// mdSig names the class of a misbehaviour, only to group failing cases (the
// verdict itself is the Coq oracle's).
func mdSig(v View, o Outcome) string {
	zero := v.Header != nil && len(*v.Header) == 0
	for _, r := range v.Rows {
		if r != nil && len(*r) == 0 {
			zero = true
		}
	}
	switch o.Kind {
	case "panic":
		if zero {
			return "panic-zero-cell-row-or-empty-header"
		}
		return "panic"
	case "err":
		if v.NCols > 0 && v.Header != nil && viewWF(v) {
			return "error-on-valid-table"
		}
		return ""
	}
	if v.NCols == 0 || v.Header == nil {
		return "rendered-without-header-or-columns"
	}
	out := string(o.Out)
	lines := strings.Split(out, "\n")
	nbody := 0
	for _, r := range v.Rows {
		if r != nil {
			nbody++
		}
	}
	if len(lines) != 3+nbody || lines[len(lines)-1] != "" {
		return "line-count"
	}
	for _, l := range lines[:len(lines)-1] {
		if strings.Count(l, "|") != v.NCols+1 {
			return "pipe-count"
		}
	}
	cells := strings.Split(lines[1], "|")
	for i := 0; i < v.NCols && i+1 < len(cells); i++ {
		c := strings.Trim(cells[i+1], " ")
		own, dflt := v.Align[i+1], v.Align[0]
		eff := own
		if eff == 0 {
			eff = dflt
		}
		wantL, wantR := eff == 3, eff == 2 || eff == 3
		if strings.HasPrefix(c, ":") != wantL || strings.HasSuffix(c, ":") != wantR {
			if own == 0 && dflt != 0 {
				return "delimiter-ignores-column0-default"
			}
			return "delimiter-alignment-mismatch"
		}
	}
	return ""
}

func mdTextTags(v View) []string {
	cls := map[string]bool{}
	scan := func(cs []VCell) {
		for _, c := range cs {
			s := c.Text
			if strings.Contains(s, "|") {
				cls["text:pipe"] = true
			}
			if strings.Contains(s, `\`) {
				cls["text:backslash"] = true
			}
			if strings.HasSuffix(s, `\`) {
				cls["text:trailing-backslash"] = true
			}
			if strings.Contains(s, "\n") {
				cls["text:LF"] = true
			}
			if strings.Contains(s, "\r") {
				cls["text:CR(out-of-domain)"] = true
			}
			if strings.Contains(s, "&") {
				cls["text:ampersand"] = true
			}
			if strings.ContainsAny(s, "<>\"'") {
				cls["text:markup"] = true
			}
			if strings.HasPrefix(s, " ") || strings.HasSuffix(s, " ") {
				cls["text:outer-space"] = true
			}
			if len(s) != c.TW && !strings.Contains(s, "\n") {
				cls["text:width<>bytes"] = true
			}
		}
	}
	if v.Header != nil {
		scan(*v.Header)
	}
	for _, r := range v.Rows {
		if r != nil {
			scan(*r)
		}
	}
	for i, a := range v.Align {
		if a != 0 {
			if i == 0 {
				cls["align:column0-default"] = true
			} else {
				cls["align:own"] = true
			}
		}
	}
	var out []string
	for k := range cls {
		out = append(out, k)
	}
	return out
}

type mdDesc struct {
	Outcome
	Sig string `json:"sig"`
}

func randAlign(r *RNG, maxCol int) map[int]int {
	m := map[int]int{}
	for c := 0; c <= maxCol; c++ {
		if a := r.Intn(4); a != 0 && r.Pct(60) {
			m[c] = a
		}
	}
	if len(m) == 0 {
		return nil
	}
	return m
}

// mdAlignCb is a property callback registered (after the build) for render
// time which sets or clears the alignment of a column WHILE the table is being
// rendered.  The delimiter row (and the padding) of a render must show the
// alignments as they stand after that render's callbacks ran.
//
//	Owner 0: the table, on itself       1: column OwnerIdx, on itself
//	      2: the table, on every cell   3: column OwnerIdx, on each of its cells
//	      4: the markdown wrapper named as owner (it stands for the table), on itself
//	      5: row OwnerIdx of AllRows(), on itself
//	      6: header cell OwnerIdx (CellAt row 0 is not addressable: body row 1's cell OwnerIdx), on itself
//	When  0 pre-cell, 1 render (cell targets only), 2 post-cell
//	Col   the column whose alignment is written (0 = the all-columns default);
//	      Self: written through the PropertyOwner handed to the callback when
//	      that is the column itself (Owner 1 with Col == OwnerIdx)
//	Seq   the value written at the k-th invocation (0 clears, 1 L, 2 R, 3 C);
//	      the last entry repeats
//
// Whatever a callback writes is logged in execution order; the expected
// alignment of a column is the last logged write, else what the build set.
type mdAlignCb struct {
	Owner    int   `json:"owner"`
	OwnerIdx int   `json:"owner_idx,omitempty"`
	When     int   `json:"when"`
	Col      int   `json:"col"`
	Seq      []int `json:"seq"`
}

type mdAlignWrite struct{ col, val int }

type mdAlignCbRun struct {
	spec  mdAlignCb
	t     tabular.Table
	count int
	log   *[]mdAlignWrite
}

func (c *mdAlignCbRun) UpdateProperties(po tabular.PropertyOwner) error {
	if len(c.spec.Seq) == 0 {
		return nil
	}
	k := c.count
	if k >= len(c.spec.Seq) {
		k = len(c.spec.Seq) - 1
	}
	c.count++
	val := c.spec.Seq[k]
	var target tabular.PropertyOwner
	if c.spec.Owner == 1 && c.spec.Col == c.spec.OwnerIdx {
		target = po // the column itself, as handed to the callback
	} else if col := c.t.Column(c.spec.Col); col != nil {
		target = col
	}
	if target == nil {
		return nil
	}
	if val == 0 {
		target.SetProperty(align.PropertyType, nil)
	} else {
		target.SetProperty(align.PropertyType, alignVals[val])
	}
	*c.log = append(*c.log, mdAlignWrite{c.spec.Col, val})
	return nil
}

// registers the callbacks; errors (no such column / row / cell, unsupported
// combination) just mean that the callback never runs and never logs
func mdRegisterAlignCbs(t tabular.Table, mt *markdown.MarkdownTable, cbs []mdAlignCb, log *[]mdAlignWrite) {
	for _, cb := range cbs {
		run := &mdAlignCbRun{spec: cb, t: t, log: log}
		when := tabular.CB_AT_RENDER_PRECELL
		switch cb.When {
		case 1:
			when = tabular.CB_AT_RENDER
		case 2:
			when = tabular.CB_AT_RENDER_POSTCELL
		}
		switch cb.Owner {
		case 0:
			t.RegisterPropertyCallback(t, when, tabular.CB_ON_ITSELF, run)
		case 1:
			if col := t.Column(cb.OwnerIdx); col != nil {
				t.RegisterPropertyCallback(col, when, tabular.CB_ON_ITSELF, run)
			}
		case 2:
			t.RegisterPropertyCallback(t, when, tabular.CB_ON_CELL, run)
		case 3:
			if col := t.Column(cb.OwnerIdx); col != nil {
				t.RegisterPropertyCallback(col, when, tabular.CB_ON_CELL, run)
			}
		case 4:
			mt.RegisterPropertyCallback(mt, when, tabular.CB_ON_ITSELF, run)
		case 5:
			if rows := t.AllRows(); cb.OwnerIdx < len(rows) && rows[cb.OwnerIdx] != nil {
				t.RegisterPropertyCallback(rows[cb.OwnerIdx], when, tabular.CB_ON_ITSELF, run)
			}
		case 6:
			if c, err := t.CellAt(tabular.CellLocation{Row: 1, Column: cb.OwnerIdx}); err == nil && c != nil {
				t.RegisterPropertyCallback(c, tabular.CB_AT_RENDER, tabular.CB_ON_ITSELF, run)
			}
		}
	}
}

func randAlignCb(r *RNG, maxCol int) mdAlignCb {
	cb := mdAlignCb{Owner: r.Intn(7), When: r.Intn(3), Col: r.Intn(maxCol + 1)}
	switch cb.Owner {
	case 1, 3:
		cb.OwnerIdx = r.Intn(maxCol + 1)
		if r.Pct(60) {
			cb.OwnerIdx = cb.Col
		}
	case 5:
		cb.OwnerIdx = r.Intn(3)
	case 6:
		cb.OwnerIdx = 1 + r.Intn(maxCol+1)
	}
	if (cb.Owner == 0 || cb.Owner == 1 || cb.Owner == 4 || cb.Owner == 5) && cb.When == 1 {
		cb.When = 2 * r.Intn(2) // "render" is never invoked for a container on itself
	}
	n := 1 + r.Intn(3)
	for i := 0; i < n; i++ {
		cb.Seq = append(cb.Seq, r.Intn(4))
	}
	return cb
}

// ---- items other than strings whose text carries the metacharacters: the
// renderer must escape by what the text IS, not by what type produced it
var mdRunes = []int32{'|', '\n', '<', '>', '&', '"', '\'', '\\', '`', '*', '_', '%', ' ', '\t', ':', '-', '#', ';', 0, 'a', '7',
	0x4e16, 0x0301, 0xff57, 0x1f44d, 0xfffd, -1, 0x110000, 0xd800}

var mdCore = []string{"|", "\n", "<b>", "&", `"`, "'", `a\`, "&#x7c;", "%d", " x ", "a|b\nc", "世|"}

func mdItemOfKind(kind int, s string) ItemSpec {
	b := []byte(s)
	switch kind {
	case 0:
		return ItemSpec{K: "valstr", B: b}
	case 1:
		return ItemSpec{K: "strerr", B: b}
	case 2:
		return ItemSpec{K: "obj", Mask: 1, S: b, G: []byte("g"), E: []byte("e")}
	case 3:
		return ItemSpec{K: "obj", Mask: 2, S: []byte("s"), G: b, E: []byte("e")}
	case 4:
		return ItemSpec{K: "obj", Mask: 4, S: []byte("s"), G: []byte("g"), E: b}
	case 5:
		return ItemSpec{K: "obj", Mask: 0, S: b, G: []byte("g|"), E: []byte("<e>")} // fmt %v of the struct
	case 6:
		return ItemSpec{K: "map", B: b, I: 3}
	case 7:
		return ItemSpec{K: "structx", B: b, I: 4}
	case 8:
		return ItemSpec{K: "cell", Inner: &ItemSpec{K: "str", B: b}}
	case 9:
		return ItemSpec{K: "pcell", Inner: &ItemSpec{K: "valstr", B: b}}
	case 10:
		return ItemSpec{K: "obj", Mask: 7, S: b, G: []byte("g"), E: []byte("e")}
	default:
		return ItemSpec{K: "obj", Mask: 17, S: b, W: len(b) % 7} // Stringer declaring its own width
	}
}

const mdItemKinds = 12

func mdPlainItem(r *RNG) ItemSpec {
	switch r.Intn(6) {
	case 0:
		return ItemSpec{K: "nil"}
	case 1:
		return ItemSpec{K: "int", I: int64(r.Intn(2000) - 1000)}
	case 2:
		return ItemSpec{K: "bool", I: int64(r.Intn(2))}
	case 3:
		return ItemSpec{K: "float", F: float64(r.Intn(1000)) / 8}
	case 4:
		return ItemSpec{K: "slice", I: int64(r.Intn(100))}
	default:
		return ItemSpec{K: "int", I: int64(pick(r, []int32{124, 10, 60, 38}))} // the code points as plain ints: digits
	}
}

// a cell item: mostly hostile strings, else the same texts through other types
func mdItem(r *RNG) ItemSpec {
	switch p := r.Intn(100); {
	case p < 72:
		return mdText(r)
	case p < 82:
		return ItemSpec{K: "rune", R: pick(r, mdRunes)}
	case p < 94:
		s := pick(r, mdCore)
		if r.Pct(40) {
			s = string(mdText(r).B)
		}
		return mdItemOfKind(r.Intn(mdItemKinds), s)
	default:
		return mdPlainItem(r)
	}
}

// mdSpec is a table spec plus rows that the shared builder cannot express:
// rows of no cells made as a ZERO VALUE (new(tabular.Row), &tabular.Row{},
// a declared variable) and handed to AddRow, before the build proper
// (ZeroFirst) and after it (ZeroLast).  Their Cells() is a nil slice where a
// row from NewRow / AppendNewRow / AddRowItems() has an empty non-nil one; they
// are not separators, so each must come out as a line of padding columns.
// (DESIGN 13.10 leaves zero-value literals outside the theorems' domain; the
// expectation here is positional - computed from the spec, never asked of the
// library.)  ZeroFirst is ignored when the spec has mutations (those address
// rows by their position in the table).
type mdSpec struct {
	TableSpec
	ZeroFirst int `json:"zero_first,omitempty"`
	ZeroLast  int `json:"zero_last,omitempty"`
	// render-time alignment callbacks, registered after the build (before the
	// wrapper is made, or after it: CbAfterWrap), and the number of renders
	// through the one wrapper (the last is judged).  With callbacks the spec's
	// own earlier renders (stages, mutations, faults, re-entry) are dropped, so
	// that every render happens after every direct SetProperty of the build.
	AlignCbs    []mdAlignCb `json:"align_cbs,omitempty"`
	CbAfterWrap bool        `json:"cb_after_wrap,omitempty"`
	Renders     int         `json:"renders,omitempty"`
	// a history of SetProperty calls on columns over several keys, made between
	// build and render (c08_r6.go); with it the spec's own earlier renders are
	// dropped, so that the wrapper is made (and the history runs) after the build
	ColProps []mdPropOp `json:"col_props,omitempty"`
}

// normalise applies the rules above; Run, view and the shrinker all go through it
func (ms mdSpec) normalise() mdSpec {
	if len(ms.AlignCbs) > 0 {
		ms.Stages, ms.Mutations, ms.StageFaults, ms.FaultAt, ms.Reenter = nil, nil, false, 0, 0
	} else {
		ms.Renders, ms.CbAfterWrap = 0, false
	}
	if len(ms.ColProps) > 0 {
		ms.Stages, ms.Mutations, ms.StageFaults = nil, nil, false
	}
	if len(ms.Stages) > 0 || len(ms.Mutations) > 0 || ms.StageFaults {
		ms.ZeroLast = 0 // no point between build and final render to add them at
	}
	if len(ms.Mutations) > 0 {
		ms.ZeroFirst = 0 // mutations address rows by table position
	}
	return ms
}

func (ms mdSpec) zeroFirst() int { return ms.normalise().ZeroFirst }

func addZeroValueRows(t tabular.Table, n int) {
	for k := 0; k < n; k++ {
		switch k % 3 {
		case 0:
			t.AddRow(new(tabular.Row))
		case 1:
			t.AddRow(&tabular.Row{})
		default:
			var row tabular.Row
			t.AddRow(&row)
		}
	}
}

// view from the spec alone, the zero-value rows at their positions
func (ms mdSpec) view() View {
	ms = ms.normalise()
	v := ms.TableSpec.SpecView()
	var rows []*[]VCell
	for k := 0; k < ms.ZeroFirst; k++ {
		rows = append(rows, &[]VCell{})
	}
	rows = append(rows, v.Rows...)
	for k := 0; k < ms.ZeroLast; k++ {
		rows = append(rows, &[]VCell{})
	}
	v.Rows = rows
	return v
}

func init() {
	register(&Prop{
		ID:       "C08",
		Imports:  "From Tab Require Import Run.Glue Run.C08Run.",
		CaseType: "((view * list (list N * nat)) * res (list N))",
		CaseFn:   "C08_case",
		ModelFn:  "C08_model",
		Rule: "tables built through the public API (AddHeaders / AddRowItems / NewRow+Add+AddRow / AppendNewRow+Add / NewRowSizedFor / AddSeparator, plus the shared enrichments: second header, staged renders through one wrapper, property histories, mutations, write faults), rendered by markdown.Wrap(t).Render(); the expected view is computed from the spec, never read back from the table; " +
			"zero-value rows (new(tabular.Row), &tabular.Row{}) added with AddRow before and after the build in about one table in six and in every first/last pattern of three small tables (outside DESIGN 13.10's domain, judged positionally: a line of padding columns each); " +
			"items of every kind whose text can carry the metacharacters (runes - every metacharacter as a rune literal -, Stringers, errors, GoStringers, %v of structs / maps / pointers, nested Cell and *Cell, nil / int / bool / float / slice), each in every field position; " +
			"render-time property callbacks that set or clear align.PropertyType during the render (owners: table, wrapper-as-table, column incl. column 0, row, cell; on itself / on cells; pre-cell, render, post-cell; value sequences that flip between renders; 1-3 renders through one wrapper; registered before or after Wrap) in every owner x time x column combination on a fixed table and on about one random table in seven - the expected delimiter row is the one for the alignments after the callbacks ran (last logged write, else the build's setting); " +
			"texts additionally from an alphabet of strings another layer would interpret (printf verbs, template actions, $-references, escapes in source form, URL/numeric entities) and of white space other than U+0020, each in every field position; " +
			"every shape with header in {none,0,1,2 cells} and up to 3 rows over {separator,0,1,2 cells} with texts from a pipe/backslash/entity/LF/space/wide-character alphabet and a random alignment assignment; " +
			"every alignment assignment {unset,L,R,C} on column 0 and each column of four fixed hostile grids with <= 2 columns; every atom of the alphabet in first/last/padded position; random tables to 6x6 with random alignments; " +
			"a case is non-trivial when the table has a column and a header (rendering is attempted); distinct = distinct (view, outcome, output)",
		Exhaustive: "shapes (header x row-sequence up to length 3); all 4^(ncols+1) alignment assignments on four fixed grids with 1 and 2 columns; every alphabet atom (hostile and interpretable) in 7 field positions; zero-value rows in all 8 first/last count patterns of 3 small tables; all 29 rune items and 12 core texts x item kinds in 7 field positions; render-time alignment callbacks: owner kind x time x written column x 2 value sequences; column-property histories: chain depth d <= 5 x position of the alignment x position of the entry touched x {re-set, remove}",
		Gen: func(r *RNG, tier string) []json.RawMessage {
			// NewRNG(seed) starts seed k at seed 1's state advanced by k-1 steps, so
			// the streams of different seeds re-synchronise after a few cases and
			// then generate the same list; restart from a hashed state instead
			r = &RNG{s: r.U64()}
			rp := &RNG{s: r.s ^ 0x9e3779b97f4a7c15} // column-property histories: a stream of their own
			var out []json.RawMessage
			addM := func(ms mdSpec) { out = append(out, mustJSON(ms)) }
			// a zero-value row before and/or after about one table in six
			zeros := func(ts TableSpec) mdSpec {
				ms := mdSpec{TableSpec: ts}
				if r.Pct(16) {
					switch r.Intn(3) {
					case 0:
						ms.ZeroFirst = 1 + r.Intn(2)
					case 1:
						ms.ZeroLast = 1 + r.Intn(2)
					default:
						ms.ZeroFirst, ms.ZeroLast = 1, 1
					}
				}
				return ms
			}
			add := func(ts TableSpec) {
				ms := zeros(ts)
				// render-time alignment callbacks on about one table in seven
				if r.Pct(14) {
					n := 1 + r.Intn(2)
					for i := 0; i < n; i++ {
						ms.AlignCbs = append(ms.AlignCbs, randAlignCb(r, 3))
					}
					ms.Renders = 1 + r.Intn(3)
					ms.CbAfterWrap = r.Bool()
				}
				// a history of column properties over several keys on about one table in six
				if rp.Pct(16) {
					ms.ColProps = randColProps(rp, 3)
				}
				addM(ms)
			}
			hows := []int{0, 0, 1, 2, 3}
			maxRows := 3
			if tier == "thorough" {
				maxRows = 4
			}
			enumShapes(maxRows, 2, func(h int, rows []int) {
				ts := shapeSpec(r, h, rows, mdItem, hows)
				if r.Pct(50) {
					ts.Align = randAlign(r, 2)
				}
				add(ts)
			})
			// every alignment assignment on fixed hostile grids
			grids := []TableSpec{
				{Header: &[]ItemSpec{Str("h|"), Str(`b\`)}, Rows: []RowSpec{{Cells: []ItemSpec{Str(" a "), Str("世界")}}, {Cells: []ItemSpec{Str("x")}}, {Cells: []ItemSpec{}}}},
				{Header: &[]ItemSpec{Str("wide header"), Str("")}, Rows: []RowSpec{{Cells: []ItemSpec{Str(`\|`), Str("&#x7c;<")}}, {Sep: true}, {Cells: []ItemSpec{Str("e\u0301"), Str("a\nbcdefg")}}}},
				{Header: &[]ItemSpec{Str("|")}, Rows: []RowSpec{{Cells: []ItemSpec{Str("e\u0301\n")}}, {Cells: []ItemSpec{}}}},
				{Header: &[]ItemSpec{Str("long header")}, Rows: []RowSpec{{Cells: []ItemSpec{Str(`a\`)}}, {Cells: []ItemSpec{Str("\uff57")}}}},
			}
			for gi, g := range grids {
				ncols := len(*g.Header)
				n := 1
				for i := 0; i <= ncols; i++ {
					n *= 4
				}
				for code := 0; code < n; code++ {
					ts := g
					ts.Align = map[int]int{}
					c := code
					for col := 0; col <= ncols; col++ {
						if a := c % 4; a != 0 {
							ts.Align[col] = a
						}
						c /= 4
					}
					_ = gi
					add(ts)
				}
			}
			// every atom in each field position: header (first, middle, last), body
			// first / middle / last, last cell of a short row (followed by padding)
			positions := func(it ItemSpec) {
				h := []ItemSpec{Str("h1"), it, Str("h3")}
				addM(mdSpec{TableSpec: TableSpec{Header: &h, Rows: []RowSpec{
					{Cells: []ItemSpec{it, Str("m"), Str("z")}},
					{Cells: []ItemSpec{Str("a"), it}},
					{Cells: []ItemSpec{Str("a"), Str("m"), it}}},
					Align: randAlign(r, 3)}})
				h2 := []ItemSpec{it, Str("h2"), it}
				addM(mdSpec{TableSpec: TableSpec{Header: &h2, Rows: []RowSpec{
					{How: 1 + r.Intn(3), Cells: []ItemSpec{Str("a"), it, Str("z")}},
					{Cells: []ItemSpec{it}}},
					Align: randAlign(r, 3)}})
			}
			for _, s := range append(append([]string{}, mdAtoms...), mdMetaAtoms...) {
				positions(Str(s))
			}
			// the same for items that are not strings: every metacharacter as a
			// rune, and the core hostile texts through every other item kind
			for _, c := range mdRunes {
				positions(ItemSpec{K: "rune", R: c})
			}
			for _, s := range mdCore {
				for k := 0; k < mdItemKinds; k++ {
					if tier == "thorough" || (k+len(s))%2 == 0 || k < 2 {
						positions(mdItemOfKind(k, s))
					}
				}
			}
			for i := 0; i < 6; i++ {
				positions(mdPlainItem(r))
			}
			// render-time alignment callbacks: every owner kind and time, writing the
			// column-0 default, the own column or another one, once or with a flip,
			// over one to three renders, on a table with and without direct settings
			{
				h := []ItemSpec{Str("h1"), Str(`h2\`)}
				rows := []RowSpec{{Cells: []ItemSpec{Str("a|"), Str("b")}}, {Cells: []ItemSpec{Str("c")}}}
				seqs := [][]int{{2}, {2, 0}, {0, 3}, {3, 1, 2}}
				for owner := 0; owner < 7; owner++ {
					for when := 0; when < 3; when++ {
						if when == 1 && owner != 2 && owner != 3 && owner != 6 {
							continue
						}
						if owner == 6 && when != 1 {
							continue
						}
						for col := 0; col <= 2; col++ {
							si := (owner + when + col) % len(seqs)
							for _, seq := range [][]int{seqs[si], seqs[(si+1)%len(seqs)]} {
								cb := mdAlignCb{Owner: owner, When: when, Col: col, Seq: seq}
								switch owner {
								case 1, 3:
									cb.OwnerIdx = col
									if len(seq) == 3 {
										cb.OwnerIdx = (col + 1) % 3
									}
								case 5:
									cb.OwnerIdx = col % 2
								case 6:
									cb.OwnerIdx = 1 + col%2
								}
								ms := mdSpec{TableSpec: TableSpec{Header: &h, Rows: rows}, AlignCbs: []mdAlignCb{cb}, Renders: len(seq), CbAfterWrap: (owner+col)%2 == 0}
								if (owner+when+col)%3 == 0 {
									ms.Align = map[int]int{col: 1 + (owner+when)%3}
								}
								addM(ms)
							}
						}
					}
				}
			}
			// column-property histories: every chain depth, the alignment at every
			// depth, a re-set / removal at every depth
			mdColPropsStream(rp, tier, addM)
			// zero-value rows at every position pattern of a small table
			for code := 1; code < 9; code++ {
				h := []ItemSpec{Str("h1"), Str("h2")}
				for _, rows := range [][]RowSpec{nil, {{Cells: []ItemSpec{Str("a"), Str("b")}}}, {{Sep: true}, {Cells: []ItemSpec{}}, {Cells: []ItemSpec{Str("a")}}}} {
					addM(mdSpec{TableSpec: TableSpec{Header: &h, Rows: rows, HeaderAt: len(rows) * (code % 2)}, ZeroFirst: code % 3, ZeroLast: code / 3})
				}
			}
			n := 300
			if tier == "thorough" {
				n = 12000
			}
			for i := 0; i < n; i++ {
				ts := randTable(r, 6, 6, mdItem, hows)
				if r.Pct(70) {
					ts.Align = randAlign(r, 6)
				}
				enrichSpec(r, &ts, mdItem)
				add(ts)
			}
			return out
		},
		Run: func(spec json.RawMessage) CaseOut {
			var ms mdSpec
			if err := json.Unmarshal(spec, &ms); err != nil {
				panic(err)
			}
			ms = ms.normalise()
			ts := ms.TableSpec
			t := tabular.New()
			addZeroValueRows(t, ms.ZeroFirst)
			// BuildRenderW makes the wrapper after the build unless earlier renders
			// are part of the history; trailing zero-value rows and render-time
			// alignment callbacks join the table there, between build and render
			var wlog []mdAlignWrite
			var w RenderW
			o := ts.BuildRenderW(t, func(t tabular.Table) RenderW {
				addZeroValueRows(t, ms.ZeroLast)
				if len(ms.AlignCbs) > 0 && !ms.CbAfterWrap {
					// the wrapper-as-owner kind needs a wrapper: a throw-away one
					mdRegisterAlignCbs(t, markdown.Wrap(t), ms.AlignCbs, &wlog)
				}
				mt := markdown.Wrap(t)
				mdApplyColProps(t, mt, ms.ColProps)
				if len(ms.AlignCbs) > 0 && ms.CbAfterWrap {
					mdRegisterAlignCbs(t, mt, ms.AlignCbs, &wlog)
				}
				w = mt
				return mt
			})
			for k := 1; k < ms.Renders && w != nil; k++ {
				o = capture(w.Render)
			}
			v := ms.view() // judged against what was put in, not what the table now holds
			// alignments: the last write of a render-time callback, else of the
			// column-property history, else the build's
			mdColPropsExpect(&v, ms.ColProps)
			for _, wr := range wlog {
				if wr.col < len(v.Align) {
					v.Align[wr.col] = wr.val
				}
			}
			vc := mdViewCoq(v)
			return CaseOut{
				Coq:        cqPair(cqPair(vc, mdWidthTable(v)), o.Coq()),
				Desc:       mdDesc{Outcome: o, Sig: mdSig(v, o)},
				Size:       ts.Size() + mdHeaderBytes(ts) + 2*(ms.ZeroFirst+ms.ZeroLast) + ms.cbSize() + 2*len(ms.ColProps),
				Tags:       append(append(append(append(shapeTags(v), mdTextTags(v)...), mdZeroTags(ms)...), mdCbTags(ms, ts, len(wlog))...), append(mdColPropsTags(ms), "outcome="+o.Kind)...),
				Key:        vc + o.Kind + string(o.Out),
				Nontrivial: v.NCols > 0 && v.Header != nil,
			}
		},
		Shrink: mdShrink,
	})
}

// mdShrink: the shared one-step reductions, plus replacing one text (or all
// texts) by "x", which the shared shrinker (halving) reaches only slowly
// the shared Size() does not count header texts, so the shrinker would see no
// gain in simplifying them
func mdHeaderBytes(ts TableSpec) int {
	n := 0
	for _, h := range []*[]ItemSpec{ts.Header, ts.Header2} {
		if h != nil {
			for _, it := range *h {
				n += len(it.B) + len(it.S)
				if it.K != "str" {
					n += 2
				}
			}
		}
	}
	return n
}

func (ms mdSpec) cbSize() int {
	n := 0
	for _, cb := range ms.AlignCbs {
		n += 3 + len(cb.Seq)
	}
	if len(ms.AlignCbs) > 0 {
		n += ms.Renders
	}
	return n
}

func mdCbTags(ms mdSpec, ts TableSpec, writes int) []string {
	var out []string
	if len(ms.AlignCbs) > 0 {
		out = append(out, fmt.Sprintf("render-align-callbacks:renders=%d", max(ms.Renders, 1)))
		if writes > 0 {
			out = append(out, "render-align-callbacks:wrote")
		}
		for _, cb := range ms.AlignCbs {
			out = append(out, fmt.Sprintf("render-align-callback:owner=%d", cb.Owner))
		}
	}
	kinds := map[string]bool{}
	scan := func(items []ItemSpec) {
		for _, it := range items {
			if it.K != "str" {
				kinds["item:"+it.K] = true
			}
		}
	}
	if ts.Header != nil {
		scan(*ts.Header)
	}
	for _, r := range ts.Rows {
		scan(r.Cells)
	}
	for k := range kinds {
		out = append(out, k)
	}
	return out
}

func mdZeroTags(ms mdSpec) []string {
	var out []string
	if ms.zeroFirst() > 0 {
		out = append(out, "zero-value-row:first")
	}
	if ms.ZeroLast > 0 {
		out = append(out, "zero-value-row:last")
	}
	return out
}

// mdShrink shrinks the table part and keeps the zero-value rows, and proposes
// dropping those one at a time.
func mdShrink(spec json.RawMessage) []json.RawMessage {
	var ms mdSpec
	if err := json.Unmarshal(spec, &ms); err != nil {
		return nil
	}
	ms = ms.normalise()
	var out []json.RawMessage
	with := func(f func(*mdSpec)) {
		b, _ := json.Marshal(ms)
		var c mdSpec
		json.Unmarshal(b, &c)
		f(&c)
		out = append(out, mustJSON(c))
	}
	for _, c := range mdShrinkTable(mustJSON(ms.TableSpec)) {
		var ts TableSpec
		if err := json.Unmarshal(c, &ts); err != nil {
			continue
		}
		with(func(m *mdSpec) { m.TableSpec = ts })
	}
	if ms.ZeroFirst > 0 {
		with(func(m *mdSpec) { m.ZeroFirst-- })
	}
	if ms.ZeroLast > 0 {
		with(func(m *mdSpec) { m.ZeroLast-- })
	}
	for i := range ms.AlignCbs {
		i := i
		with(func(m *mdSpec) { m.AlignCbs = append(append([]mdAlignCb{}, m.AlignCbs[:i]...), m.AlignCbs[i+1:]...) })
		if n := len(ms.AlignCbs[i].Seq); n > 1 {
			with(func(m *mdSpec) { m.AlignCbs[i].Seq = m.AlignCbs[i].Seq[:n-1] })
			with(func(m *mdSpec) { m.AlignCbs[i].Seq = m.AlignCbs[i].Seq[1:] })
		}
		if ms.AlignCbs[i].Owner != 0 {
			with(func(m *mdSpec) { m.AlignCbs[i].Owner, m.AlignCbs[i].OwnerIdx, m.AlignCbs[i].When = 0, 0, 0 })
		}
	}
	if len(ms.AlignCbs) > 0 && ms.Renders > 1 {
		with(func(m *mdSpec) { m.Renders-- })
	}
	if ms.CbAfterWrap {
		with(func(m *mdSpec) { m.CbAfterWrap = false })
	}
	mdShrinkColProps(ms, with)
	return out
}

func mdShrinkTable(spec json.RawMessage) []json.RawMessage {
	out := shrinkTableJSON(spec)
	var ts TableSpec
	if err := json.Unmarshal(spec, &ts); err != nil {
		return out
	}
	clone := func() TableSpec {
		b, _ := json.Marshal(ts)
		var c TableSpec
		json.Unmarshal(b, &c)
		return c
	}
	simple := func(it ItemSpec) bool { return it.K == "str" && (string(it.B) == "x" || len(it.B) == 0) }
	all := clone()
	changed := false
	if ts.Header != nil {
		for j, h := range *ts.Header {
			if !simple(h) {
				c := clone()
				(*c.Header)[j] = Str("x")
				out = append(out, mustJSON(c))
				(*all.Header)[j] = Str("x")
				changed = true
			}
		}
	}
	for i, r := range ts.Rows {
		for j, it := range r.Cells {
			if !simple(it) {
				c := clone()
				c.Rows[i].Cells[j] = Str("x")
				out = append(out, mustJSON(c))
				all.Rows[i].Cells[j] = Str("x")
				changed = true
			}
		}
	}
	if changed {
		out = append(out, mustJSON(all))
	}
	return out
}

var _ = fmt.Sprintf
