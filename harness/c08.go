package main

// C08 - Markdown output keeps GFM table structure and neutralises content.

import (
	"encoding/json"
	"fmt"
	"html"
	"strings"

	"go.pennock.tech/tabular"
	"go.pennock.tech/tabular/length"
	"go.pennock.tech/tabular/markdown"
)

// pipe / backslash / entity-hostile alphabet
var mdAtoms = []string{
	"", "|", `\`, `\|`, `\\`, `\\|`, "&", "&#x7c;", "&amp;", "&#124;", "&#x0a;", "&", "<", ">", `"`, "'",
	"\n", "x\ny", "z\n", `a\`, `|\`, " a ", "  ", " ", "a|b", "<b>|</b>", "abc", "-", ":---:", "---",
	"世界", "e\u0301", "\u200b", "\uff57", "👍", "\xff", "&lt", "&;", "`|`", "a b",
}

func mdText(r *RNG) ItemSpec {
	switch p := r.Intn(100); {
	case p < 50:
		return Str(pick(r, mdAtoms))
	case p < 75:
		n := 2 + r.Intn(2)
		s := ""
		for i := 0; i < n; i++ {
			s += pick(r, mdAtoms)
		}
		return Str(s)
	case p < 77:
		// CR is a documented non-goal (DESIGN 13.6): a small counted stream,
		// judged on every clause except "no CR in the output"
		return Str(pick(r, []string{"\r", "a\r\nb", "\r|"}))
	default:
		n := r.Intn(9)
		b := make([]byte, n)
		alpha := []byte{'|', '\\', '&', '<', '>', '"', '\'', '\n', ' ', ' ', 'a', 'b', ';', '#', 'x', '7', 'c', '-', ':', 0xc3, 0xa9, 0}
		for i := range b {
			b[i] = alpha[r.Intn(len(alpha))]
		}
		return Str(string(b))
	}
}

// the escaping the renderer applies (mdCellEscape is unexported; this is its
// body, using the real html.EscapeString): only used to key the width oracle
func mdEsc(s string) string {
	return strings.Replace(strings.Replace(html.EscapeString(s), "|", "&#x7c;", -1), "\n", "&#x0a;", -1)
}

// width oracle: (escaped text, length.StringCells) for every string the model
// measures: the escaped text of every header and body cell, and the control
// cells of every column for each alignment
func mdWidthTable(v View) string {
	seen := map[string]bool{}
	var xs []string
	add := func(s string) {
		if seen[s] {
			return
		}
		seen[s] = true
		xs = append(xs, cqPair(cqStr(s), cqNat(length.StringCells(s))))
	}
	widths := make([]int, v.NCols)
	row := func(cs []VCell, set bool) {
		for i, c := range cs {
			add(mdEsc(c.Text))
			if i < len(widths) && (set || c.TW > widths[i]) {
				widths[i] = c.TW
			}
		}
	}
	if v.Header != nil {
		row(*v.Header, true)
	}
	for _, r := range v.Rows {
		if r != nil {
			row(*r, false)
		}
	}
	for _, w := range widths {
		if w < 3 {
			w = 3
		}
		d := strings.Repeat("-", w)
		add(" " + d + " ")
		add(" " + d + ":")
		add(":" + d + ":")
	}
	return cqList(xs)
}

func mdCellCoq(c VCell) string {
	return "(TW " + cqStr(c.Text) + " " + cqZ(int64(c.TW)) + ")"
}

func mdViewCoq(v View) string {
	cells := func(cs []VCell) string {
		xs := make([]string, len(cs))
		for i, c := range cs {
			xs[i] = mdCellCoq(c)
		}
		return cqList(xs)
	}
	var sb strings.Builder
	sb.WriteString("(mkView " + cqNat(v.NCols) + " ")
	if v.Header == nil {
		sb.WriteString("None ")
	} else {
		sb.WriteString(cqSome(cells(*v.Header)) + " ")
	}
	rows := make([]string, len(v.Rows))
	for i, r := range v.Rows {
		if r == nil {
			rows[i] = "None"
		} else {
			rows[i] = cqSome(cells(*r))
		}
	}
	sb.WriteString(cqList(rows) + " ")
	as := make([]string, len(v.Align))
	ss := make([]string, len(v.Skip))
	for i, a := range v.Align {
		if a > 3 {
			a = 0
		}
		as[i] = cqAlign[a]
		ss[i] = "None"
	}
	sb.WriteString(cqList(as) + " " + cqList(ss) + ")")
	return sb.String()
}

func viewWF(v View) bool {
	if v.Header != nil && len(*v.Header) > v.NCols {
		return false
	}
	for _, r := range v.Rows {
		if r != nil && len(*r) > v.NCols {
			return false
		}
	}
	return true
}

// mdSig names the class of a misbehaviour, only to group failing cases (the
// verdict itself is the Coq oracle's).
func mdSig(v View, o Outcome) string {
	zero := v.Header != nil && len(*v.Header) == 0
	for _, r := range v.Rows {
		if r != nil && len(*r) == 0 {
			zero = true
		}
	}
	switch o.Kind {
	case "panic":
		if zero {
			return "panic-zero-cell-row-or-empty-header"
		}
		return "panic"
	case "err":
		if v.NCols > 0 && v.Header != nil && viewWF(v) {
			return "error-on-valid-table"
		}
		return ""
	}
	if v.NCols == 0 || v.Header == nil {
		return "rendered-without-header-or-columns"
	}
	out := string(o.Out)
	lines := strings.Split(out, "\n")
	nbody := 0
	for _, r := range v.Rows {
		if r != nil {
			nbody++
		}
	}
	if len(lines) != 3+nbody || lines[len(lines)-1] != "" {
		return "line-count"
	}
	for _, l := range lines[:len(lines)-1] {
		if strings.Count(l, "|") != v.NCols+1 {
			return "pipe-count"
		}
	}
	cells := strings.Split(lines[1], "|")
	for i := 0; i < v.NCols && i+1 < len(cells); i++ {
		c := strings.Trim(cells[i+1], " ")
		own, dflt := v.Align[i+1], v.Align[0]
		eff := own
		if eff == 0 {
			eff = dflt
		}
		wantL, wantR := eff == 3, eff == 2 || eff == 3
		if strings.HasPrefix(c, ":") != wantL || strings.HasSuffix(c, ":") != wantR {
			if own == 0 && dflt != 0 {
				return "delimiter-ignores-column0-default"
			}
			return "delimiter-alignment-mismatch"
		}
	}
	return ""
}

func mdTextTags(v View) []string {
	cls := map[string]bool{}
	scan := func(cs []VCell) {
		for _, c := range cs {
			s := c.Text
			if strings.Contains(s, "|") {
				cls["text:pipe"] = true
			}
			if strings.Contains(s, `\`) {
				cls["text:backslash"] = true
			}
			if strings.HasSuffix(s, `\`) {
				cls["text:trailing-backslash"] = true
			}
			if strings.Contains(s, "\n") {
				cls["text:LF"] = true
			}
			if strings.Contains(s, "\r") {
				cls["text:CR(out-of-domain)"] = true
			}
			if strings.Contains(s, "&") {
				cls["text:ampersand"] = true
			}
			if strings.ContainsAny(s, "<>\"'") {
				cls["text:markup"] = true
			}
			if strings.HasPrefix(s, " ") || strings.HasSuffix(s, " ") {
				cls["text:outer-space"] = true
			}
			if len(s) != c.TW && !strings.Contains(s, "\n") {
				cls["text:width<>bytes"] = true
			}
		}
	}
	if v.Header != nil {
		scan(*v.Header)
	}
	for _, r := range v.Rows {
		if r != nil {
			scan(*r)
		}
	}
	for i, a := range v.Align {
		if a != 0 {
			if i == 0 {
				cls["align:column0-default"] = true
			} else {
				cls["align:own"] = true
			}
		}
	}
	var out []string
	for k := range cls {
		out = append(out, k)
	}
	return out
}

type mdDesc struct {
	Outcome
	Sig string `json:"sig"`
}

func randAlign(r *RNG, maxCol int) map[int]int {
	m := map[int]int{}
	for c := 0; c <= maxCol; c++ {
		if a := r.Intn(4); a != 0 && r.Pct(60) {
			m[c] = a
		}
	}
	if len(m) == 0 {
		return nil
	}
	return m
}

func init() {
	register(&Prop{
		ID:       "C08",
		Imports:  "From Tab Require Import Run.Glue Run.C08Run.",
		CaseType: "((view * list (list N * nat)) * res (list N))",
		CaseFn:   "C08_case",
		ModelFn:  "C08_model",
		Rule: "tables built through the public API (AddHeaders / AddRowItems / NewRow+Add+AddRow / AppendNewRow+Add / NewRowSizedFor / AddSeparator), rendered by markdown.Wrap(t).Render(); " +
			"every shape with header in {none,0,1,2 cells} and up to 3 rows over {separator,0,1,2 cells} with texts from a pipe/backslash/entity/LF/space/wide-character alphabet and a random alignment assignment; " +
			"every alignment assignment {unset,L,R,C} on column 0 and each column of four fixed hostile grids with <= 2 columns; every atom of the alphabet in first/last/padded position; random tables to 6x6 with random alignments; " +
			"a case is non-trivial when the table has a column and a header (rendering is attempted); distinct = distinct (view, outcome, output)",
		Exhaustive: "shapes (header x row-sequence up to length 3); all 4^(ncols+1) alignment assignments on four fixed grids with 1 and 2 columns; every alphabet atom in 3 field positions",
		Gen: func(r *RNG, tier string) []json.RawMessage {
			// NewRNG(seed) starts seed k at seed 1's state advanced by k-1 steps, so
			// the streams of different seeds re-synchronise after a few cases and
			// then generate the same list; restart from a hashed state instead
			r = &RNG{s: r.U64()}
			var out []json.RawMessage
			add := func(ts TableSpec) { out = append(out, mustJSON(ts)) }
			hows := []int{0, 0, 1, 2, 3}
			maxRows := 3
			if tier == "thorough" {
				maxRows = 4
			}
			enumShapes(maxRows, 2, func(h int, rows []int) {
				ts := shapeSpec(r, h, rows, mdText, hows)
				if r.Pct(50) {
					ts.Align = randAlign(r, 2)
				}
				add(ts)
			})
			// every alignment assignment on fixed hostile grids
			grids := []TableSpec{
				{Header: &[]ItemSpec{Str("h|"), Str(`b\`)}, Rows: []RowSpec{{Cells: []ItemSpec{Str(" a "), Str("世界")}}, {Cells: []ItemSpec{Str("x")}}, {Cells: []ItemSpec{}}}},
				{Header: &[]ItemSpec{Str("wide header"), Str("")}, Rows: []RowSpec{{Cells: []ItemSpec{Str(`\|`), Str("&#x7c;<")}}, {Sep: true}, {Cells: []ItemSpec{Str("e\u0301"), Str("a\nbcdefg")}}}},
				{Header: &[]ItemSpec{Str("|")}, Rows: []RowSpec{{Cells: []ItemSpec{Str("e\u0301\n")}}, {Cells: []ItemSpec{}}}},
				{Header: &[]ItemSpec{Str("long header")}, Rows: []RowSpec{{Cells: []ItemSpec{Str(`a\`)}}, {Cells: []ItemSpec{Str("\uff57")}}}},
			}
			for gi, g := range grids {
				ncols := len(*g.Header)
				n := 1
				for i := 0; i <= ncols; i++ {
					n *= 4
				}
				for code := 0; code < n; code++ {
					ts := g
					ts.Align = map[int]int{}
					c := code
					for col := 0; col <= ncols; col++ {
						if a := c % 4; a != 0 {
							ts.Align[col] = a
						}
						c /= 4
					}
					_ = gi
					add(ts)
				}
			}
			// every atom in each field position
			for _, s := range mdAtoms {
				h := []ItemSpec{Str("h1"), Str(s), Str("h3")}
				add(TableSpec{Header: &h, Rows: []RowSpec{
					{Cells: []ItemSpec{Str(s), Str("m"), Str("z")}},
					{Cells: []ItemSpec{Str("a"), Str(s)}},
					{Cells: []ItemSpec{Str("a"), Str("m"), Str(s)}}},
					Align: randAlign(r, 3)})
			}
			n := 300
			if tier == "thorough" {
				n = 12000
			}
			for i := 0; i < n; i++ {
				ts := randTable(r, 6, 6, mdText, hows)
				if r.Pct(70) {
					ts.Align = randAlign(r, 6)
				}
				enrichSpec(r, &ts, mdText)
				add(ts)
			}
			return out
		},
		Run: func(spec json.RawMessage) CaseOut {
			var ts TableSpec
			if err := json.Unmarshal(spec, &ts); err != nil {
				panic(err)
			}
			t := tabular.New()
			o := ts.BuildRenderW(t, func(t tabular.Table) RenderW { return markdown.Wrap(t) })
			v := ts.SpecView() // judged against what was put in, not what the table now holds
			vc := mdViewCoq(v)
			return CaseOut{
				Coq:        cqPair(cqPair(vc, mdWidthTable(v)), o.Coq()),
				Desc:       mdDesc{Outcome: o, Sig: mdSig(v, o)},
				Size:       ts.Size(),
				Tags:       append(append(shapeTags(v), mdTextTags(v)...), "outcome="+o.Kind),
				Key:        vc + o.Kind + string(o.Out),
				Nontrivial: v.NCols > 0 && v.Header != nil,
			}
		},
		Shrink: mdShrink,
	})
}

// mdShrink: the shared one-step reductions, plus replacing one text (or all
// texts) by "x", which the shared shrinker (halving) reaches only slowly
func mdShrink(spec json.RawMessage) []json.RawMessage {
	out := shrinkTableJSON(spec)
	var ts TableSpec
	if err := json.Unmarshal(spec, &ts); err != nil {
		return out
	}
	clone := func() TableSpec {
		b, _ := json.Marshal(ts)
		var c TableSpec
		json.Unmarshal(b, &c)
		return c
	}
	simple := func(it ItemSpec) bool { return it.K == "str" && (string(it.B) == "x" || len(it.B) == 0) }
	all := clone()
	changed := false
	if ts.Header != nil {
		for j, h := range *ts.Header {
			if !simple(h) {
				c := clone()
				(*c.Header)[j] = Str("x")
				out = append(out, mustJSON(c))
				(*all.Header)[j] = Str("x")
				changed = true
			}
		}
	}
	for i, r := range ts.Rows {
		for j, it := range r.Cells {
			if !simple(it) {
				c := clone()
				c.Rows[i].Cells[j] = Str("x")
				out = append(out, mustJSON(c))
				all.Rows[i].Cells[j] = Str("x")
				changed = true
			}
		}
	}
	if changed {
		out = append(out, mustJSON(all))
	}
	return out
}

var _ = fmt.Sprintf
