package main

// C04, the render pass: RenderTo runs the table's render-time callbacks and
// only then reads what it renders.  The application's own property callbacks
// (on the table, on a column, on a row, on a cell, through the wrapper named as
// owner; pre-cell, cell and post-cell time) may set, change or clear
// align.PropertyType on a column - its own or the all-columns default on
// column 0 - WHILE the table is being rendered.  Every content line of that
// render must be padded according to the alignments in force once the
// callbacks have finished (what Column(n).GetProperty reports when the output
// is produced), whatever was in force when RenderTo was entered or during an
// earlier render through the same wrapper.
//
// The harness logs every write its callbacks perform, in execution order; the
// case ships the view as BUILT (from the spec alone) plus that log, and Coq
// applies the log (Model/TextPass.v after_callbacks: the last write wins, nil
// clears, no handle beyond NColumns()) before running model and oracle.

import (
	"encoding/json"
	"fmt"
	"sort"

	"go.pennock.tech/tabular"
	"go.pennock.tech/tabular/properties/align"
	"go.pennock.tech/tabular/texttable"
)

// AlignCb: one render-time callback of the application.
//
//	Owner 0 the table, on itself             1 column OwnerIdx, on itself
//	      2 the table, on every cell         3 column OwnerIdx, on each of its cells
//	      4 the text wrapper named as owner (it stands for the table), on itself
//	      5 row OwnerIdx of AllRows(), on itself
//	      6 row OwnerIdx of AllRows(), on each of its cells
//	      7 the cell Cell of row OwnerIdx of AllRows(), on itself (cell time)
//	      8 header cell OwnerIdx, on itself (cell time)
//	When  0 pre-cell, 1 cell time (CB_AT_RENDER), 2 post-cell
//	Col   the column whose alignment is written (0 = the all-columns default)
//	Seq   the value written: entry number (render - 1), or with PerCall entry
//	      number (invocation of this callback); the last entry repeats;
//	      0 clears (SetProperty(key, nil)), 1 left, 2 right, 3 centre, -1 no write
//	Via   0: the column is reached through the table the application holds
//	      (t.Column(Col)); 1: through what the callback is handed - the column
//	      itself when that is the owner, or the table / wrapper's Column(Col)
//	Reg   when it is registered: 0 after texttable.Wrap (and after the spec's
//	      PreRenders), 1 after the build but before Wrap, 2 on the empty table
//	      before the build (only owners that exist then: the table, column 0)
type AlignCb struct {
	Owner    int   `json:"owner"`
	OwnerIdx int   `json:"owner_idx,omitempty"`
	Cell     int   `json:"cell,omitempty"`
	When     int   `json:"when"`
	Col      int   `json:"col"`
	Seq      []int `json:"seq"`
	PerCall  bool  `json:"per_call,omitempty"`
	Via      int   `json:"via,omitempty"`
	Reg      int   `json:"reg,omitempty"`
}

// C04Spec is a text case plus the render pass history: PreRenders renders
// through the wrapper right after it was made (before the Reg-0 callbacks
// exist), then Renders renders (at least one); the last one is judged.
type C04Spec struct {
	TextSpec
	AlignCbs   []AlignCb `json:"align_cbs,omitempty"`
	Renders    int       `json:"renders,omitempty"`
	PreRenders int       `json:"pre_renders,omitempty"`
	// Between: alignments set directly (Column(Col).SetProperty, no callback)
	// between two renders through the one wrapper: after render number After
	// of the Renders (0 = after the PreRenders, before the first of them).
	Between []BetweenWrite `json:"between,omitempty"`
	// Redecl: after the (first) render, rounds of items changing their text /
	// declared width / declared height, Cell.Update, and a render through the
	// same wrapper (harness/c04_r6.go); the last render is judged.
	Redecl []Redecl `json:"redecl,omitempty"`
}

type BetweenWrite struct {
	After int `json:"after"`
	Col   int `json:"col"`
	Val   int `json:"val"` // 0 nil, 1 left, 2 right, 3 centre
}

type alignWrite struct{ col, val int }

type alignCbRun struct {
	spec   AlignCb
	t      tabular.Table
	calls  int
	render *int
	log    *[]alignWrite
}

func (c *alignCbRun) UpdateProperties(po tabular.PropertyOwner) error {
	k := *c.render - 1
	if c.spec.PerCall {
		k = c.calls
	}
	c.calls++
	if len(c.spec.Seq) == 0 {
		return nil
	}
	if k < 0 {
		k = 0
	}
	if k >= len(c.spec.Seq) {
		k = len(c.spec.Seq) - 1
	}
	val := c.spec.Seq[k]
	if val < 0 || val > 3 {
		return nil
	}
	var target tabular.PropertyOwner
	if c.spec.Via == 1 {
		if tb, ok := po.(tabular.Table); ok {
			if col := tb.Column(c.spec.Col); col != nil {
				target = col
			}
		} else if c.spec.Owner == 1 && c.spec.Col == c.spec.OwnerIdx && po != nil {
			target = po // the column itself, as handed to the callback
		}
	}
	if target == nil {
		if col := c.t.Column(c.spec.Col); col != nil {
			target = col
		}
	}
	if target == nil {
		return nil // no such column: no handle, nothing written
	}
	if val == 0 {
		target.SetProperty(align.PropertyType, nil)
	} else {
		target.SetProperty(align.PropertyType, alignVals[val])
	}
	*c.log = append(*c.log, alignWrite{c.spec.Col, val})
	return nil
}

// registerAlignCb makes the registration; a refusal (no such column / row /
// cell, a combination the library does not offer) means the callback never
// runs and never logs.
func registerAlignCb(t tabular.Table, tt *texttable.TextTable, run *alignCbRun) {
	cb := run.spec
	when := tabular.CB_AT_RENDER_PRECELL
	switch cb.When {
	case 1:
		when = tabular.CB_AT_RENDER
	case 2:
		when = tabular.CB_AT_RENDER_POSTCELL
	}
	switch cb.Owner {
	case 0:
		t.RegisterPropertyCallback(t, when, tabular.CB_ON_ITSELF, run)
	case 1:
		if col := t.Column(cb.OwnerIdx); col != nil {
			t.RegisterPropertyCallback(col, when, tabular.CB_ON_ITSELF, run)
		}
	case 2:
		t.RegisterPropertyCallback(t, when, tabular.CB_ON_CELL, run)
	case 3:
		if col := t.Column(cb.OwnerIdx); col != nil {
			t.RegisterPropertyCallback(col, when, tabular.CB_ON_CELL, run)
		}
	case 4:
		if tt != nil {
			tt.RegisterPropertyCallback(tt, when, tabular.CB_ON_ITSELF, run)
		}
	case 5, 6:
		if rows := t.AllRows(); cb.OwnerIdx >= 0 && cb.OwnerIdx < len(rows) && rows[cb.OwnerIdx] != nil {
			target := tabular.CB_ON_ITSELF
			if cb.Owner == 6 {
				target = tabular.CB_ON_CELL
			}
			t.RegisterPropertyCallback(rows[cb.OwnerIdx], when, target, run)
		}
	case 7:
		if c, err := t.CellAt(tabular.CellLocation{Row: cb.OwnerIdx + 1, Column: cb.Cell + 1}); err == nil && c != nil {
			t.RegisterPropertyCallback(c, tabular.CB_AT_RENDER, tabular.CB_ON_ITSELF, run)
		}
	case 8:
		if h := t.Headers(); cb.OwnerIdx >= 0 && cb.OwnerIdx < len(h) {
			t.RegisterPropertyCallback(&h[cb.OwnerIdx], tabular.CB_AT_RENDER, tabular.CB_ON_ITSELF, run)
		}
	}
}

// normalise: with callbacks that write alignments the expected alignments are
// "the build's, then the logged writes" - so no render may happen before the
// build's own settings are complete, and nothing may run the callbacks again
// after the judged render.
func (cs *C04Spec) normalise() {
	if cs.Renders < 1 {
		cs.Renders = 1
	}
	if cs.PreRenders < 0 {
		cs.PreRenders = 0
	}
	if len(cs.Redecl) > 0 {
		// the rounds follow the build's own render; the cells are addressed by
		// their place in the spec, so the build is a plain one
		cs.AlignCbs, cs.Between, cs.Renders, cs.PreRenders = nil, nil, 1, 0
		cs.Table.Header2, cs.Table.Scribble, cs.Table.Reenter, cs.Long = nil, false, 0, nil
	}
	if len(cs.AlignCbs) > 0 || len(cs.Between) > 0 || len(cs.Redecl) > 0 {
		cs.Table.Stages = nil
		cs.Table.Mutations = nil
		cs.Table.StageFaults = false
		cs.Table.FaultAt = 0
		if len(cs.Decs) > 1 {
			cs.Decs = cs.Decs[:1]
		}
	}
}

func (cs C04Spec) cbSize() int {
	n := 2*(cs.Renders-1) + 2*cs.PreRenders + 3*len(cs.Between)
	for _, rd := range cs.Redecl {
		n += 3 + rd.Round + len(rd.S)
		if rd.W != nil {
			n++
		}
		if rd.H != nil {
			n++
		}
	}
	for _, cb := range cs.AlignCbs {
		n += 4 + len(cb.Seq) + cb.OwnerIdx + cb.Cell + cb.Via + cb.Reg
		if cb.PerCall {
			n++
		}
		for _, v := range cb.Seq {
			if v > 0 {
				n++
			}
		}
	}
	return n
}

func runC04Spec(spec json.RawMessage) CaseOut {
	var cs C04Spec
	if err := json.Unmarshal(spec, &cs); err != nil {
		panic(err)
	}
	cs.normalise()
	var log []alignWrite
	ts := cs.TextSpec
	ts.viewFix = cs.viewFix()
	ts.ext = func() *textExt {
		log = nil
		render := 0
		var runs []*alignCbRun
		for _, cb := range cs.AlignCbs {
			runs = append(runs, &alignCbRun{spec: cb, render: &render, log: &log})
		}
		reg := func(t tabular.Table, tt *texttable.TextTable, phase int) {
			for _, run := range runs {
				if run.spec.Reg == phase {
					run.t = t
					registerAlignCb(t, tt, run)
				}
			}
		}
		var table tabular.Table
		between := func(after int) {
			for _, b := range cs.Between {
				if b.After != after || b.Val < 0 || b.Val > 3 || table == nil {
					continue
				}
				if col := table.Column(b.Col); col != nil {
					if b.Val == 0 {
						col.SetProperty(align.PropertyType, nil)
					} else {
						col.SetProperty(align.PropertyType, alignVals[b.Val])
					}
					log = append(log, alignWrite{b.Col, b.Val})
				}
			}
		}
		return &textExt{
			beforeBuild: func(t tabular.Table) { reg(t, nil, 2) },
			beforeWrap:  func(t tabular.Table) { reg(t, nil, 1) },
			afterWrap: func(t tabular.Table, tt *texttable.TextTable, w RenderW) {
				table = t
				for k := 0; k < cs.PreRenders; k++ {
					capture(w.Render)
				}
				reg(t, tt, 0)
				between(0)
			},
			onRender: func() { render++ },
			final: func(w RenderW, o Outcome) Outcome {
				for k := 1; k < cs.Renders; k++ {
					between(k)
					o = capture(w.Render)
				}
				for round := 1; round <= redeclRounds(cs.Redecl) && table != nil; round++ {
					runRedeclRound(cs.Table, table, cs.Redecl, round)
					o = capture(w.Render)
				}
				return o
			},
		}
	}
	tr := runText(ts)
	co := textCaseOut(ts, tr)
	ws := make([]string, len(log))
	for i, w := range log {
		ws[i] = cqPair(cqNat(w.col), cqAlign[w.val])
	}
	wsCoq := cqList(ws)
	co.Coq = "(" + co.Coq + ", " + wsCoq + ")"
	co.Key = co.Key + wsCoq
	co.Size += cs.cbSize()
	// the alignments in force when the judged output was produced
	after := append([]int{}, tr.view.Align...)
	for _, w := range log {
		if w.col >= 0 && w.col < len(after) {
			after[w.col] = w.val
		}
	}
	eff := func(al []int, i int) int {
		if i < len(al) && al[i] != 0 {
			return al[i]
		}
		if len(al) > 0 && al[0] != 0 {
			return al[0]
		}
		return 1
	}
	changed := false
	for i := 1; i <= tr.view.NCols; i++ {
		if eff(after, i) != eff(tr.view.Align, i) {
			changed = true
		}
	}
	tags := append(co.Tags, redeclTags(cs)...)
	if len(cs.AlignCbs) > 0 {
		tags = append(tags, "render-pass=callbacks-registered")
		for _, cb := range cs.AlignCbs {
			tags = append(tags, fmt.Sprintf("render-pass:owner=%d", cb.Owner), fmt.Sprintf("render-pass:time=%d", cb.When), fmt.Sprintf("render-pass:registered=%d", cb.Reg))
			if cb.Col == 0 {
				tags = append(tags, "render-pass:writes-column0-default")
			} else {
				tags = append(tags, "render-pass:writes-own-column")
			}
			if cb.Via == 1 {
				tags = append(tags, "render-pass:through-handed-owner")
			}
			if cb.PerCall {
				tags = append(tags, "render-pass:value-per-invocation")
			}
		}
		if len(log) > 0 {
			tags = append(tags, "render-pass=callbacks-wrote")
		}
		if changed {
			tags = append(tags, "render-pass=effective-alignment-differs-from-build")
		}
	}
	if cs.Renders > 1 {
		tags = append(tags, fmt.Sprintf("render-pass:renders=%d", cs.Renders))
	}
	if len(cs.Between) > 0 {
		tags = append(tags, "render-pass:alignment-set-directly-between-renders")
		if len(cs.AlignCbs) == 0 && changed {
			tags = append(tags, "render-pass=effective-alignment-differs-from-build")
		}
	}
	if cs.PreRenders > 0 {
		tags = append(tags, "render-pass:renders-before-registration")
	}
	sort.Strings(tags)
	co.Tags = dedup(tags)
	if d, ok := co.Desc.(map[string]interface{}); ok && len(cs.AlignCbs)+len(cs.Between) > 0 {
		lw := make([][2]int, len(log))
		for i, w := range log {
			lw[i] = [2]int{w.col, w.val}
		}
		d["alignment_writes_after_the_build(column,value 0=nil 1=left 2=right 3=centre)"] = lw
		d["alignments_as_built"] = tr.view.Align
		d["alignments_when_output_was_produced"] = after
	}
	return co
}

// one-step reductions: the text case's, plus fewer / simpler callbacks and renders
func shrinkC04JSON(spec json.RawMessage) []json.RawMessage {
	var cs C04Spec
	if err := json.Unmarshal(spec, &cs); err != nil {
		return nil
	}
	var out []json.RawMessage
	clone := func() C04Spec {
		var c C04Spec
		json.Unmarshal(mustJSON(cs), &c)
		return c
	}
	for i := range cs.AlignCbs {
		c := clone()
		c.AlignCbs = append(append([]AlignCb{}, cs.AlignCbs[:i]...), cs.AlignCbs[i+1:]...)
		out = append(out, mustJSON(c))
	}
	if cs.Renders > 1 {
		c := clone()
		c.Renders--
		out = append(out, mustJSON(c))
		c2 := clone()
		c2.Renders = 1
		out = append(out, mustJSON(c2))
	}
	if cs.PreRenders > 0 {
		c := clone()
		c.PreRenders = 0
		out = append(out, mustJSON(c))
	}
	out = append(out, shrinkRedecl(cs, clone)...)
	for i := range cs.Between {
		c := clone()
		c.Between = append(append([]BetweenWrite{}, cs.Between[:i]...), cs.Between[i+1:]...)
		out = append(out, mustJSON(c))
	}
	for i, cb := range cs.AlignCbs {
		if len(cb.Seq) > 1 {
			c := clone()
			c.AlignCbs[i].Seq = cb.Seq[1:]
			out = append(out, mustJSON(c))
			c2 := clone()
			c2.AlignCbs[i].Seq = cb.Seq[:len(cb.Seq)-1]
			out = append(out, mustJSON(c2))
		}
		if cb.PerCall {
			c := clone()
			c.AlignCbs[i].PerCall = false
			out = append(out, mustJSON(c))
		}
		if cb.Via != 0 {
			c := clone()
			c.AlignCbs[i].Via = 0
			out = append(out, mustJSON(c))
		}
		if cb.Reg != 0 {
			c := clone()
			c.AlignCbs[i].Reg = 0
			out = append(out, mustJSON(c))
		}
		if cb.Owner != 0 {
			c := clone()
			c.AlignCbs[i].Owner, c.AlignCbs[i].OwnerIdx, c.AlignCbs[i].Cell = 0, 0, 0
			if c.AlignCbs[i].When == 1 {
				c.AlignCbs[i].When = 0
			}
			out = append(out, mustJSON(c))
		}
		if cb.OwnerIdx > 0 {
			c := clone()
			c.AlignCbs[i].OwnerIdx--
			out = append(out, mustJSON(c))
		}
	}
	for _, s := range shrinkTextJSON(mustJSON(cs.TextSpec)) {
		var t TextSpec
		if err := json.Unmarshal(s, &t); err != nil {
			continue
		}
		c := clone()
		c.TextSpec = t
		out = append(out, mustJSON(c))
	}
	return out
}

// ---------------------------------------------------------------- generation

// the times at which a callback of this owner kind is ever invoked
func alignCbTimes(owner int) []int {
	switch owner {
	case 2:
		return []int{0, 1, 2}
	case 7, 8:
		return []int{1}
	}
	return []int{0, 2}
}

var alignSeqs = [][]int{{2}, {3}, {2, 3}, {3, 0}, {0}, {1, 2, 3}, {2, -1}, {0, 2}}

func c04RandAlignCb(r *RNG, ncols, nrows int) AlignCb {
	cb := AlignCb{Owner: r.Intn(9), Col: r.Intn(ncols + 1)}
	if r.Pct(15) {
		cb.Col = ncols + 1 + r.Intn(2) // no such column: no handle, no write
	}
	cb.When = pick(r, alignCbTimes(cb.Owner))
	switch cb.Owner {
	case 1, 3:
		cb.OwnerIdx = r.Intn(ncols + 1)
		if r.Pct(60) {
			cb.OwnerIdx = cb.Col
		}
	case 5, 6, 7:
		if nrows > 0 {
			cb.OwnerIdx = r.Intn(nrows)
		}
		cb.Cell = r.Intn(ncols + 1)
	case 8:
		cb.OwnerIdx = r.Intn(ncols + 1)
	}
	n := 1 + r.Intn(3)
	for k := 0; k < n; k++ {
		v := r.Intn(4)
		if r.Pct(10) {
			v = -1
		}
		cb.Seq = append(cb.Seq, v)
	}
	cb.PerCall = r.Pct(20)
	if r.Pct(40) {
		cb.Via = 1
	}
	switch {
	case r.Pct(20):
		cb.Reg = 1
	case r.Pct(15):
		cb.Reg = 2
	}
	return cb
}

// whether the spec's own history allows callbacks (see normalise)
func c04PlainHistory(ts TableSpec) bool {
	return len(ts.Stages) == 0 && len(ts.Mutations) == 0 && !ts.StageFaults && ts.FaultAt == 0
}

func c04RandBetween(r *RNG, ncols, renders int) []BetweenWrite {
	var out []BetweenWrite
	for k := 1 + r.Intn(3); k > 0; k-- {
		out = append(out, BetweenWrite{After: r.Intn(renders), Col: r.Intn(ncols + 1), Val: r.Intn(4)})
	}
	return out
}

func c04RandPass(r *RNG, ts TableSpec, ncols int) ([]AlignCb, int, int) {
	n := 1
	if r.Pct(35) {
		n = 2
	}
	if r.Pct(10) {
		n = 3
	}
	if r.Pct(15) {
		n = 0 // renders only (and direct settings between them)
	}
	var cbs []AlignCb
	for k := 0; k < n; k++ {
		cbs = append(cbs, c04RandAlignCb(r, ncols, len(ts.Rows)))
	}
	renders, pre := 1, 0
	if r.Pct(45) {
		renders = 2 + r.Intn(2)
	}
	if r.Pct(30) {
		pre = 1 + r.Intn(2)
	}
	return cbs, renders, pre
}

// the systematic part: on the fixed hostile grid (every column has cells
// short of the column width by 3 or more, so that left, right and centre all
// differ), every owner kind x every time it is invoked at x every written
// column (0 = the default, 1..3) x two value histories, with and without
// alignments set directly before, registered after / before Wrap / before the
// build, with renders before the registration, one to three renders.
func c04PassGen(r *RNG, tier string, nextReg func() DecSpec) []json.RawMessage {
	var out []json.RawMessage
	var curBetween []BetweenWrite
	add := func(t TableSpec, cbs []AlignCb, renders, pre int) {
		out = append(out, mustJSON(C04Spec{TextSpec: TextSpec{Table: t, Decs: []DecSpec{nextReg()}}, AlignCbs: cbs, Renders: renders, PreRenders: pre, Between: curBetween}))
	}
	k := 0
	for owner := 0; owner < 9; owner++ {
		for _, when := range alignCbTimes(owner) {
			for col := 0; col <= 3; col++ {
				for variant := 0; variant < 2; variant++ {
					k++
					seq := alignSeqs[(k+variant*3)%len(alignSeqs)]
					if variant == 0 {
						seq = [][]int{{2}, {3}}[k%2] // one render, one write: right or centre where nothing was set
					}
					cb := AlignCb{Owner: owner, When: when, Col: col, Seq: seq, Via: (k / 2) % 2}
					switch owner {
					case 1, 3:
						cb.OwnerIdx = col
						if variant == 1 && k%3 == 0 {
							cb.OwnerIdx = (col + 1) % 4 // another column's callback writes this one
						}
						if owner == 3 && cb.OwnerIdx == 0 {
							cb.OwnerIdx = 1 // column 0 has no cells of its own
						}
					case 5, 6:
						cb.OwnerIdx = []int{0, 4, 2, 3}[k%4] // index into AllRows: 2 is the separator, 3 a row without cells
					case 7:
						cb.OwnerIdx, cb.Cell = []int{0, 4, 1}[k%3], []int{0, 1, 2}[k%3]
					case 8:
						cb.OwnerIdx = k % 3
					}
					if (owner == 0 || (owner == 1 && cb.OwnerIdx == 0)) && variant == 1 {
						cb.Reg = 2 - k%2 // on the empty table / after the build, before Wrap
					} else if owner != 4 && variant == 1 && k%4 == 0 {
						cb.Reg = 1
					}
					ts := hostileGrid(3)
					ts.Align = map[int]int{}
					if variant == 1 {
						// alignments set directly during the build, which the callbacks then change or clear
						ts.Align[col] = 1 + (k+1)%3
						if k%2 == 0 {
							ts.Align[0] = 1 + k%3
						}
					}
					pre := 0
					if variant == 1 && k%3 != 1 {
						pre = 1 + k%2
					}
					add(ts, []AlignCb{cb}, len(seq), pre)
				}
			}
		}
	}
	// two and three callbacks in one pass: a default set early in the pass and
	// an own column cleared or set late (and the other way round); the same
	// column written at pre-cell, cell and post-cell time - the last one counts
	for a := 1; a <= 3; a++ {
		for b := 0; b <= 3; b++ {
			ts := hostileGrid(3)
			ts.Align = map[int]int{2: 1 + (a+b)%3}
			add(ts, []AlignCb{
				{Owner: 0, When: 0, Col: 0, Seq: []int{a}},
				{Owner: 1, OwnerIdx: 2, When: 2, Col: 2, Seq: []int{b}, Via: 1},
			}, 1, a%2)
			add(hostileGrid(3), []AlignCb{
				{Owner: 1, OwnerIdx: 1, When: 0, Col: 1, Seq: []int{a}},
				{Owner: 2, When: 1, Col: 1, Seq: []int{b, a}, PerCall: true},
				{Owner: 0, When: 2, Col: 1, Seq: []int{(a + b) % 4}},
			}, 1+b%2, 0)
		}
	}
	// a callback that changes its mind from render to render, through one
	// wrapper: every ordered pair of values (nil included), on an own column
	// and on the default
	for a := 0; a <= 3; a++ {
		for b := 0; b <= 3; b++ {
			if a == b {
				continue
			}
			for _, col := range []int{0, 2} {
				ts := hostileGrid(3)
				if (a+b+col)%2 == 0 {
					ts.Align = map[int]int{col: 1 + (a+b)%3}
				}
				add(ts, []AlignCb{{Owner: []int{1, 0, 2}[(a+b)%3], OwnerIdx: col, When: []int{0, 2}[(a+col/2)%2], Col: col, Seq: []int{a, b}}}, 2, (a*b)%2)
			}
		}
	}
	// no callback at all: render, set / change / clear an alignment directly,
	// render again through the same wrapper - every (before, after) pair on the
	// default and on an own column; and a direct setting between two renders
	// which a callback then overrides or leaves alone
	for a := 0; a <= 3; a++ {
		for b := 0; b <= 3; b++ {
			if a == b {
				continue
			}
			for _, col := range []int{0, 1, 3} {
				ts := hostileGrid(3)
				ts.Align = map[int]int{}
				if a != 0 {
					ts.Align[col] = a
				}
				if col != 0 && (a+b)%2 == 0 {
					ts.Align[0] = 1 + (a+b+col)%3
				}
				curBetween = []BetweenWrite{{After: (a + b + col) % 2, Col: col, Val: b}}
				add(ts, nil, 2, 1)
				if (a+b+col)%3 == 0 {
					curBetween = []BetweenWrite{{After: 1, Col: col, Val: b}}
					add(ts, []AlignCb{{Owner: 1, OwnerIdx: col, When: 2 * (a % 2), Col: col, Seq: []int{-1, -1, a}}}, 3, 0)
				}
			}
		}
	}
	curBetween = nil
	// small tables: one and two columns, no header / header only
	for _, seq := range [][]int{{2}, {3}, {1, 3}} {
		for hv := 0; hv < 3; hv++ {
			ts := TableSpec{Rows: []RowSpec{{Cells: []ItemSpec{Str("wide enough"), Str("x")}}, {Cells: []ItemSpec{Str("y")}, How: 1}}}
			hd := []ItemSpec{Str("a header"), Str("second")}
			switch hv {
			case 1:
				ts.Header = &hd
			case 2:
				ts = TableSpec{Header: &hd}
				hd[0] = Str("two\nlines, one wide")
			}
			add(ts, []AlignCb{{Owner: 1, OwnerIdx: 1, When: hv % 2 * 2, Col: 1, Seq: seq, Via: hv % 2}}, len(seq), 0)
			add(ts, []AlignCb{{Owner: 0, When: 2 - hv%2*2, Col: 0, Seq: seq}}, len(seq), hv%2)
		}
	}
	return out
}
