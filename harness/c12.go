package main

// C12 - properties behave as an independent key-to-value map per owner.
//
// A case is a history of ops over one table: set / set-nil / get on any owner
// (table, column n incl. 0, a column handle taken earlier, row, cell in a row,
// detached cell copy), by-value cell copies, Row.Add of a copy, growth of the
// table, handles taken before the growth.  After EVERY step every watched
// owner is read back: GetProperty under every key of the case's key universe
// and the chain length as %#v prints it.  The Coq side recomputes the expected
// trace from the history (Spec/PropMap.v) and runs the heap model.

import (
	"bufio"
	"bytes"
	"encoding/json"
	"fmt"
	"os"
	"os/exec"
	"reflect"
	"regexp"
	"runtime"
	"runtime/debug"
	"sort"
	"strings"
	"sync"
	"time"

	"go.pennock.tech/tabular"
	"go.pennock.tech/tabular/csv"
	"go.pennock.tech/tabular/html"
	tjson "go.pennock.tech/tabular/json"
)

// ---------------------------------------------------------------- keys

type c12pkey struct{ n int }
type c12skey struct{ A int }

var c12p0, c12p1 = &c12pkey{0}, &c12pkey{1}

type c12KeyDef struct {
	v    interface{}
	tag  int
	pay  uint64
	name string
}

// equal values of distinct dynamic types are distinct keys
var c12Keys = []c12KeyDef{
	{int(1), 0, 1, "int(1)"},
	{int64(1), 1, 1, "int64(1)"},
	{"1", 2, 49, `"1"`},
	{c12p0, 3, 0, "ptr0"},
	{c12skey{1}, 4, 1, "skey{1}"},
	{int(2), 0, 2, "int(2)"},
	{c12p1, 3, 1, "ptr1"},
	{c12skey{2}, 4, 2, "skey{2}"},
}

// more keys for the deep-chain stream: for every value v in 3..10 one key of
// each of eight dynamic types (so neighbours in a chain differ by type only or
// by value only).  Indexes 0..7 above are stable (corpus files name them).
type c12i32 int32

func init() {
	for v := 3; v <= 10; v++ {
		c12Keys = append(c12Keys,
			c12KeyDef{int(v), 0, uint64(v), fmt.Sprintf("int(%d)", v)},
			c12KeyDef{int64(v), 1, uint64(v), fmt.Sprintf("int64(%d)", v)},
			c12KeyDef{fmt.Sprint(v), 2, uint64(1000 + v), fmt.Sprintf("%q", fmt.Sprint(v))},
			c12KeyDef{&c12pkey{v}, 3, uint64(v), fmt.Sprintf("ptr%d", v)},
			c12KeyDef{c12skey{v}, 4, uint64(v), fmt.Sprintf("skey{%d}", v)},
			c12KeyDef{uint8(v), 5, uint64(v), fmt.Sprintf("uint8(%d)", v)},
			c12KeyDef{float64(v), 6, uint64(v), fmt.Sprintf("float64(%d)", v)},
			c12KeyDef{c12i32(v), 7, uint64(v), fmt.Sprintf("i32(%d)", v)},
		)
	}
	// pointer keys of DIFFERENT dynamic types holding the SAME address: a
	// pointer to a struct and to its first field, a named pointer type and its
	// underlying pointer type, typed nil pointers, pointers to distinct
	// zero-size types.  (tag = the type, payload = the address's identity.)
	c12PtrFamily = len(c12Keys)
	c12Keys = append(c12Keys,
		c12KeyDef{&c12outerVar, 8, 100, "&outer"},
		c12KeyDef{&c12outerVar.First, 9, 100, "&outer.First"},
		c12KeyDef{c12namedPtr(c12p0), 10, 0, "namedPtr(ptr0)"},
		c12KeyDef{(*int)(nil), 11, 0, "(*int)(nil)"},
		c12KeyDef{(*string)(nil), 12, 0, "(*string)(nil)"},
		c12KeyDef{c12z1p, 13, 1, "&zeroSize1"},
		c12KeyDef{c12z2p, 14, 1, "&zeroSize2"},
		c12KeyDef{c12namedPtr(nil), 10, 999, "namedPtr(nil)"},
	)
}

type c12outer struct {
	First int
	Rest  string
}
type c12namedPtr *c12pkey
type c12zero1 struct{}
type c12zero2 struct{}

var (
	c12outerVar  c12outer
	c12z1p       = new(c12zero1)
	c12z2p       = new(c12zero2)
	c12PtrFamily int // index of the first key of the same-address family
)

// key triples inside the same-address family (and its partners ptr0 = index 3)
func c12PtrTriples() [][3]int {
	f := c12PtrFamily
	return [][3]int{{f, f + 1, 0}, {3, f + 2, f + 3}, {f + 3, f + 4, f + 7}, {f + 5, f + 6, 3}, {f + 1, f, f + 2}, {f + 4, f + 3, f + 6}}
}

func c12KeyCoq(i int) string {
	k := c12Keys[i]
	return fmt.Sprintf("(%d,%d%%N)", k.tag, k.pay)
}

// ---------------------------------------------------------------- spec

type C12Owner struct {
	K string `json:"k"` // table col handle row cell det
	A int    `json:"a,omitempty"`
	B int    `json:"b,omitempty"`
	// the facade every Table method on the way to the owner is called on:
	// 0 = the core table, i = the i-th rendering wrapper made in the history
	W int `json:"w,omitempty"`
}

// VCoq is the owner as a watched vowner: (facade, owner)
func (o C12Owner) VCoq() string { return fmt.Sprintf("(%d, %s)", o.W, o.Coq()) }

func (o C12Owner) Coq() string {
	switch o.K {
	case "table":
		return "OTable"
	case "col":
		return fmt.Sprintf("(OCol %d)", o.A)
	case "handle":
		return fmt.Sprintf("(OHandle %d)", o.A)
	case "row":
		return fmt.Sprintf("(ORow %d)", o.A)
	case "cell":
		return fmt.Sprintf("(OCell %d %d)", o.A, o.B)
	case "det":
		return fmt.Sprintf("(ODet %d)", o.A)
	}
	panic("bad owner " + o.K)
}

func (o C12Owner) String() string {
	via := ""
	if o.W > 0 {
		via = fmt.Sprintf("@wrapper%d", o.W)
	}
	switch o.K {
	case "table":
		return "table" + via
	case "cell":
		return fmt.Sprintf("cell(%d,%d)%s", o.A, o.B, via)
	}
	return fmt.Sprintf("%s(%d)%s", o.K, o.A, via)
}

type C12Op struct {
	Op  string    `json:"op"` // set get copy newcell newrow rowadd addrow additems takecol
	O   *C12Owner `json:"o,omitempty"`
	Key int       `json:"key,omitempty"` // index into c12Keys
	V   int       `json:"v,omitempty"`   // 0 = nil, else the int value stored
	R   int       `json:"r,omitempty"`
	D   int       `json:"d,omitempty"`
	N   int       `json:"n,omitempty"`
	How string    `json:"how,omitempty"` // touch: update-changed update-same text render-csv render-html render-json headers gostring; wrap: the entry point
	W   int       `json:"w,omitempty"`   // ops without an owner: the facade the Table methods are called on (wrap: the facade that gets wrapped)
}

// facade is the facade the op's Table methods are called on
func (op C12Op) facade() int {
	if op.O != nil {
		return op.O.W
	}
	return op.W
}

func (op C12Op) Coq() string {
	if op.Op == "wrap" {
		return fmt.Sprintf("VWrap %d", c12EntryKind(op.How))
	}
	return fmt.Sprintf("VOp %d (%s)", op.facade(), op.coqOp())
}

func (op C12Op) coqOp() string {
	switch op.Op {
	case "set":
		v := "None"
		if op.V > 0 {
			v = fmt.Sprintf("(Some %d)", op.V)
		}
		return fmt.Sprintf("SetP %s %s %s", op.O.Coq(), c12KeyCoq(op.Key), v)
	case "get":
		return fmt.Sprintf("GetP %s %s", op.O.Coq(), c12KeyCoq(op.Key))
	case "copy":
		return "CopyCell " + op.O.Coq()
	case "newcell":
		return "NewCell"
	case "newrow":
		return "NewRow"
	case "rowadd":
		return fmt.Sprintf("RowAdd %d %d", op.R, op.D)
	case "addrow":
		return fmt.Sprintf("AddRow %d", op.R)
	case "additems":
		return fmt.Sprintf("AddRowItems %d", op.N)
	case "takecol":
		return fmt.Sprintf("TakeColumn %d", op.N)
	case "addheaders":
		return fmt.Sprintf("AddHeaders %d", op.N)
	case "addsep":
		return "AddSeparator"
	case "touch":
		return "Touch " + op.O.Coq()
	case "newcellof":
		return "NewCellOf " + op.O.Coq()
	}
	panic("bad op " + op.Op)
}

func (op C12Op) Go() string {
	s := op.goOp()
	if op.Op != "wrap" && op.O == nil && op.W > 0 {
		s += fmt.Sprintf("   // t = wrapper%d", op.W)
	}
	return s
}

func (op C12Op) goOp() string {
	switch op.Op {
	case "wrap":
		base := "t"
		if op.W > 0 {
			base = fmt.Sprintf("wrapper%d", op.W)
		}
		return fmt.Sprintf("wrapper(new) := %s   // around %s; a New entry point makes the table itself", op.How, base)
	case "set":
		v := "nil"
		if op.V > 0 {
			v = fmt.Sprint(op.V)
		}
		return fmt.Sprintf("%s.SetProperty(%s, %s)", op.O, c12Keys[op.Key].name, v)
	case "get":
		return fmt.Sprintf("%s.GetProperty(%s)", op.O, c12Keys[op.Key].name)
	case "copy":
		return fmt.Sprintf("det(new) := *%s", op.O)
	case "newcell":
		return `det(new) := tabular.NewCell("x")`
	case "newrow":
		return "row(new) := tabular.NewRow()"
	case "rowadd":
		return fmt.Sprintf("row(%d).Add(det(%d))", op.R, op.D)
	case "addrow":
		return fmt.Sprintf("t.AddRow(row(%d))", op.R)
	case "additems":
		return fmt.Sprintf("t.AddRowItems(<%d items>)", op.N)
	case "takecol":
		return fmt.Sprintf("handle(new) := t.Column(%d)", op.N)
	case "addheaders":
		return fmt.Sprintf("t.AddHeaders(<%d items>)", op.N)
	case "addsep":
		return "t.AddSeparator(); row(new) := t.AllRows()[last]"
	case "newcellof":
		return fmt.Sprintf("det(new) := tabular.NewCell(*%s)", op.O)
	case "touch":
		switch op.How {
		case "update-changed":
			return fmt.Sprintf("%s.Item().(*mut).s += \"!\"; %s.Update()", op.O, op.O)
		case "update-same":
			return fmt.Sprintf("%s.Update()", op.O)
		case "text":
			return fmt.Sprintf("%s.String(); .Height(); .TerminalCellWidth(); .Lines()", op.O)
		case "render-csv":
			return "csv.Wrap(t).Render()"
		case "render-html":
			return "html.Wrap(t).Render()"
		case "render-json":
			return "json.Wrap(t).Render()"
		case "headers":
			return "t.Headers() (every header cell's String())"
		}
		return fmt.Sprintf("fmt.Sprintf(\"%%#v\", %s)", op.O)
	}
	return "?"
}

type C12Spec struct {
	Keys  []int      `json:"keys"`
	Watch []C12Owner `json:"watch"`
	Ops   []C12Op    `json:"ops"`
	// what the value numbered v is in Go: 0 the int v; 1 a pointer, 2 a map,
	// 3 a slice - one fresh object per number, ALL with equal contents, told
	// apart by identity only; 4 mixed (v%4 picks among the four)
	VK int `json:"vk,omitempty"`
}

// ---------------------------------------------------------------- values
// "a get returns the value most recently set": for objects that means THAT
// object, not an earlier one with equal contents.  Every object value carries
// the same contents at the moment of the set; what was stored is recognised by
// identity.

type c12obj struct {
	Name string
}

var c12Vals = map[[2]int]interface{}{}
var c12ValIDs = map[uintptr]int{}

func c12ValKind(vk, v int) int {
	if vk == 4 {
		return v % 4
	}
	return vk
}

func c12Val(vk, v int) interface{} {
	kind := c12ValKind(vk, v)
	if kind == 0 {
		return v
	}
	if x, ok := c12Vals[[2]int{kind, v}]; ok {
		return x
	}
	var x interface{}
	switch kind {
	case 1:
		x = &c12obj{Name: "same"}
	case 2:
		x = map[string]int{"same": 1}
	default:
		x = append(make([]int, 0, 4), 1, 2)
	}
	c12Vals[[2]int{kind, v}] = x
	c12ValIDs[reflect.ValueOf(x).Pointer()] = v
	return x
}

var c12ValKindNames = []string{"ints", "distinct pointers to structs with equal contents", "distinct maps with equal contents", "distinct slices with equal contents", "ints / pointers / maps / slices by v%4"}

// ---------------------------------------------------------------- the real library

// what cells hold: an object whose text the caller can change (Cell.Update's
// documentation asks the mutator to call Update afterwards)
type c12mut struct{ s string }

func (m *c12mut) String() string { return m.s }

type c12Handle struct {
	h   tabular.PropertyOwner
	col int
}

type c12World struct {
	t       *tabular.ATable
	wraps   []tabular.Table // rendering wrappers made so far; facade i = wraps[i-1]
	nsteps  int
	rows    []*tabular.Row
	pos     []int // row number in the table (1-based), 0 = not in the table
	dets    []*tabular.Cell
	handles []c12Handle
	vk      int
}

var c12ColRe = regexp.MustCompile(`C\((\d+), "", \d+cbs\)`)

func c12CountLinks(s string) int { return strings.Count(s, "Value(") }

// chain lengths of the table and of every column, read off the table's %#v
func (w *c12World) tableLens() (int, map[int]int) {
	s := fmt.Sprintf("%#v", w.t)
	cols := map[int]int{}
	i := strings.Index(s, ".Columns{")
	if i < 0 {
		return -1, cols
	}
	tl := c12CountLinks(s[:i])
	rest := s[i+len(".Columns{"):]
	j := strings.Index(rest, "}.NoHeaders.Body[")
	if j < 0 {
		j = strings.Index(rest, "}.HeaderRow{")
	}
	if j < 0 {
		return tl, cols
	}
	rest = rest[:j]
	locs := c12ColRe.FindAllStringSubmatchIndex(rest, -1)
	for n, loc := range locs {
		end := len(rest)
		if n+1 < len(locs) {
			end = locs[n+1][0]
		}
		var num int
		fmt.Sscanf(rest[loc[2]:loc[3]], "%d", &num)
		cols[num] = c12CountLinks(rest[loc[1]:end])
	}
	return tl, cols
}

// fac returns facade i: the core table or a wrapper (nil: no such facade)
func (w *c12World) fac(i int) tabular.Table {
	if i == 0 {
		return w.t
	}
	if i < 0 || i > len(w.wraps) {
		return nil
	}
	return w.wraps[i-1]
}

func (w *c12World) cellPtr(r, c int, f tabular.Table) *tabular.Cell {
	if r < 0 || r >= len(w.rows) || c < 0 {
		return nil
	}
	if w.pos[r] > 0 {
		p, err := f.CellAt(tabular.CellLocation{Row: w.pos[r], Column: c + 1})
		if err != nil {
			return nil
		}
		return p
	}
	cells := w.rows[r].Cells()
	if c >= len(cells) {
		return nil
	}
	return &cells[c]
}

// resolve returns the owner as the library hands it out and a reader of its chain length
func (w *c12World) resolve(o C12Owner) (tabular.PropertyOwner, func() int, bool) {
	f := w.fac(o.W)
	if f == nil {
		return nil, nil, false
	}
	switch o.K {
	case "table":
		// (the chain length is always read off the core table's %#v)
		return f, func() int { n, _ := w.tableLens(); return n }, true
	case "col":
		c := f.Column(o.A)
		if c == nil {
			return nil, nil, false
		}
		return c, func() int { _, m := w.tableLens(); return m[o.A] }, true
	case "handle":
		if o.A < 0 || o.A >= len(w.handles) {
			return nil, nil, false
		}
		h := w.handles[o.A]
		// a *column cannot be printed on its own; the length reported for a
		// handle is that of the column it was taken for, as the table prints it
		return h.h, func() int { _, m := w.tableLens(); return m[h.col] }, true
	case "row":
		if o.A < 0 || o.A >= len(w.rows) {
			return nil, nil, false
		}
		r := w.rows[o.A]
		return r, func() int {
			s := fmt.Sprintf("%#v", r)
			if i := strings.Index(s, ".Cells{"); i >= 0 {
				s = s[:i]
			}
			return c12CountLinks(s)
		}, true
	case "cell":
		p := w.cellPtr(o.A, o.B, f)
		if p == nil {
			return nil, nil, false
		}
		return p, func() int { return c12CountLinks(fmt.Sprintf("%#v", p)) }, true
	case "det":
		if o.A < 0 || o.A >= len(w.dets) {
			return nil, nil, false
		}
		p := w.dets[o.A]
		return p, func() int { return c12CountLinks(fmt.Sprintf("%#v", p)) }, true
	}
	return nil, nil, false
}

func c12Enc(v interface{}) int {
	if v == nil {
		return 0
	}
	if i, ok := v.(int); ok && i >= 0 && i < 90 {
		return i + 1
	}
	switch v.(type) {
	case *c12obj, map[string]int, []int:
		if id, ok := c12ValIDs[reflect.ValueOf(v).Pointer()]; ok {
			return id + 1
		}
		return 96 // an object of ours, but not one that was ever handed to SetProperty
	}
	return 97
}

const (
	c12OK      = 0
	c12Invalid = 99
	c12Panic   = 98
)

func (w *c12World) step(op C12Op) int {
	first := w.nsteps == 0
	w.nsteps++
	if op.Op == "wrap" {
		base := w.fac(op.W)
		if base == nil {
			base = w.t
		}
		wr, core := c12MakeWrapper(op.How, base)
		if wr == nil {
			return c12Invalid
		}
		if core != nil {
			// a New entry point: the wrapper made its own table, which is the
			// table of the history (possible only before anything else happened)
			if !first {
				return c12Invalid
			}
			w.t = core
		}
		w.wraps = append(w.wraps, wr)
		return c12OK
	}
	f := w.fac(op.facade())
	if f == nil {
		return c12Invalid
	}
	switch op.Op {
	case "set":
		po, _, ok := w.resolve(*op.O)
		if !ok {
			return c12Invalid
		}
		var v interface{}
		if op.V > 0 {
			v = c12Val(w.vk, op.V)
		}
		if err := po.SetProperty(c12Keys[op.Key].v, v); err != nil {
			return 1
		}
		return c12OK
	case "get":
		po, _, ok := w.resolve(*op.O)
		if !ok {
			return c12Invalid
		}
		return c12Enc(po.GetProperty(c12Keys[op.Key].v))
	case "copy":
		var p *tabular.Cell
		switch op.O.K {
		case "cell":
			p = w.cellPtr(op.O.A, op.O.B, f)
		case "det":
			if op.O.A >= 0 && op.O.A < len(w.dets) {
				p = w.dets[op.O.A]
			}
		}
		if p == nil {
			return c12Invalid
		}
		c2 := *p
		w.dets = append(w.dets, &c2)
		return c12OK
	case "newcell":
		c := tabular.NewCell(&c12mut{"x"})
		w.dets = append(w.dets, &c)
		return c12OK
	case "newrow":
		w.rows = append(w.rows, tabular.NewRow())
		w.pos = append(w.pos, 0)
		return c12OK
	case "rowadd":
		if op.R < 0 || op.R >= len(w.rows) || op.D < 0 || op.D >= len(w.dets) || w.pos[op.R] > 0 {
			return c12Invalid
		}
		w.rows[op.R].Add(*w.dets[op.D])
		return c12OK
	case "addrow":
		if op.R < 0 || op.R >= len(w.rows) || w.pos[op.R] > 0 {
			return c12Invalid
		}
		f.AddRow(w.rows[op.R])
		w.pos[op.R] = f.NRows()
		return c12OK
	case "additems":
		items := make([]interface{}, op.N)
		for i := range items {
			items[i] = &c12mut{"x"}
		}
		f.AddRowItems(items...)
		all := f.AllRows()
		w.rows = append(w.rows, all[len(all)-1])
		w.pos = append(w.pos, len(all))
		return c12OK
	case "takecol":
		c := f.Column(op.N)
		if c == nil {
			return c12Invalid
		}
		w.handles = append(w.handles, c12Handle{c, op.N})
		return c12OK
	case "addheaders":
		items := make([]interface{}, op.N)
		for i := range items {
			items[i] = fmt.Sprintf("h%d", i)
		}
		f.AddHeaders(items...)
		return c12OK
	case "addsep":
		f.AddSeparator()
		all := f.AllRows()
		w.rows = append(w.rows, all[len(all)-1])
		w.pos = append(w.pos, len(all))
		return c12OK
	case "newcellof":
		var p *tabular.Cell
		switch op.O.K {
		case "cell":
			p = w.cellPtr(op.O.A, op.O.B, f)
		case "det":
			if op.O.A >= 0 && op.O.A < len(w.dets) {
				p = w.dets[op.O.A]
			}
		}
		if p == nil {
			return c12Invalid
		}
		c := tabular.NewCell(*p)
		w.dets = append(w.dets, &c)
		return c12OK
	case "touch":
		po, _, ok := w.resolve(*op.O)
		if !ok {
			return c12Invalid
		}
		var p *tabular.Cell
		switch op.O.K {
		case "cell":
			p = w.cellPtr(op.O.A, op.O.B, f)
		case "det":
			p = w.dets[op.O.A]
		}
		switch op.How {
		case "update-changed":
			if p != nil {
				if m, ok := p.Item().(*c12mut); ok {
					m.s += "!"
				}
				p.Update()
			}
		case "update-same":
			if p != nil {
				p.Update()
			}
		case "text":
			if p != nil {
				_ = p.String()
				_ = p.Height()
				_ = p.TerminalCellWidth()
				_ = p.Lines()
				_ = p.Empty()
			}
		case "render-csv":
			_, _ = csv.Wrap(w.t).Render()
		case "render-html":
			_, _ = html.Wrap(w.t).Render()
		case "render-json":
			_, _ = tjson.Wrap(w.t).Render()
		case "headers":
			for _, c := range f.Headers() {
				_ = c.String()
			}
		default:
			_ = fmt.Sprintf("%#v", po)
		}
		return c12OK
	}
	panic("bad op")
}

type c12Entry struct {
	Len  int
	Vals []int
}

func (w *c12World) dump(sp *C12Spec) []*c12Entry {
	out := make([]*c12Entry, len(sp.Watch))
	for i, o := range sp.Watch {
		po, lf, ok := w.resolve(o)
		if !ok {
			continue
		}
		e := &c12Entry{Len: lf()}
		for _, k := range sp.Keys {
			e.Vals = append(e.Vals, c12Enc(po.GetProperty(c12Keys[k].v)))
		}
		out[i] = e
	}
	return out
}

type c12StepObs struct {
	R    int
	Dump []*c12Entry
}

// c12ExecuteSteps runs the history in THIS process, handing over every step's
// observation as soon as it exists
func c12ExecuteSteps(sp *C12Spec, emit func(c12StepObs)) (panicMsg string) {
	w := &c12World{t: tabular.New(), vk: sp.VK}
	for _, op := range sp.Ops {
		var so c12StepObs
		func() {
			defer func() {
				if r := recover(); r != nil {
					panicMsg = fmt.Sprint(r)
					so = c12StepObs{R: c12Panic}
				}
			}()
			r := w.step(op)
			so = c12StepObs{R: r, Dump: w.dump(sp)}
		}()
		emit(so)
		if so.R == c12Panic {
			break
		}
	}
	return
}

// Every history runs in a process of its own.  Two reasons: a change to the
// library may keep package-level state (a free list of links, a memo), which
// must not leak from one case into the next or a replay would not reproduce;
// and a corrupted chain (a cycle) makes Value / %#v recurse until the Go
// runtime dies with a fatal "stack overflow", which recover() cannot catch -
// the harness must survive that and report it as what the implementation did.
// The worker is this same binary, started with C12_WORKER=1 (see the last
// init of this file); it reads one spec on stdin and writes one JSON line per
// step, then "END <panic message>".
func c12WorkerMain() {
	debug.SetMaxStack(32 << 20)
	in, err := os.ReadFile("/dev/stdin")
	if err != nil {
		os.Exit(3)
	}
	var sp C12Spec
	if err := json.Unmarshal(in, &sp); err != nil {
		os.Exit(3)
	}
	out := bufio.NewWriter(os.Stdout)
	pm := c12ExecuteSteps(&sp, func(so c12StepObs) {
		b, _ := json.Marshal(so)
		out.Write(b)
		out.WriteByte('\n')
		out.Flush()
	})
	fmt.Fprintf(out, "END %s\n", strings.ReplaceAll(pm, "\n", " "))
	out.Flush()
}

type c12Result struct {
	obs  []c12StepObs
	pmsg string
}

const c12CaseTimeout = 20 * time.Second

// On a machine that is badly overloaded a worker may not even get started
// within the time limit; a case that timed out is run once more with a much
// longer limit before "no answer" counts as what the implementation did.
func c12RunIsolated(spec []byte) c12Result {
	res, timedOut := c12RunIsolatedOnce(spec, c12CaseTimeout)
	if timedOut {
		res, _ = c12RunIsolatedOnce(spec, 6*c12CaseTimeout)
	}
	return res
}

func c12RunIsolatedOnce(spec []byte, limit time.Duration) (c12Result, bool) {
	self, err := os.Executable()
	if err != nil {
		panic(err)
	}
	cmd := exec.Command(self, "C12")
	cmd.Env = append(os.Environ(), "C12_WORKER=1")
	cmd.Stdin = bytes.NewReader(spec)
	var stdout, stderr bytes.Buffer
	cmd.Stdout = &stdout
	cmd.Stderr = &stderr
	if err := cmd.Start(); err != nil {
		panic(err)
	}
	done := make(chan error, 1)
	go func() { done <- cmd.Wait() }()
	timedOut := false
	select {
	case <-done:
	case <-time.After(limit):
		timedOut = true
		cmd.Process.Kill()
		<-done
	}
	var res c12Result
	ended := false
	for _, ln := range strings.Split(stdout.String(), "\n") {
		if strings.HasPrefix(ln, "END") {
			ended = true
			res.pmsg = strings.TrimSpace(strings.TrimPrefix(ln, "END"))
			break
		}
		if ln == "" {
			continue
		}
		var so c12StepObs
		if err := json.Unmarshal([]byte(ln), &so); err != nil {
			break
		}
		res.obs = append(res.obs, so)
	}
	if !ended {
		// the process died (or hung) in the middle of a step: that step's
		// outcome is "the program crashed"
		res.obs = append(res.obs, c12StepObs{R: c12Panic})
		res.pmsg = "the process did not survive this step"
		if timedOut {
			res.pmsg += fmt.Sprintf(" (no answer within %v: killed)", limit)
		}
		for _, ln := range strings.Split(stderr.String(), "\n") {
			if strings.Contains(ln, "fatal error") || strings.HasPrefix(ln, "panic:") || strings.Contains(ln, "goroutine stack exceeds") {
				res.pmsg += ": " + strings.TrimSpace(ln)
				break
			}
		}
	}
	return res, timedOut
}

// the generated specs are executed ahead of time by a pool of workers
var (
	c12Stash   []json.RawMessage
	c12Pool    sync.Once
	c12Futures map[string]chan c12Result
)

func c12Execute(spec []byte) c12Result {
	c12Pool.Do(func() {
		c12Futures = map[string]chan c12Result{}
		var todo []string
		for _, s := range c12Stash {
			k := string(s)
			if _, ok := c12Futures[k]; !ok {
				c12Futures[k] = make(chan c12Result, 1)
				todo = append(todo, k)
			}
		}
		c12Stash = nil
		n := runtime.NumCPU()
		if n > 16 {
			n = 16
		}
		if n < 2 {
			n = 2
		}
		jobs := make(chan string, len(todo))
		for _, k := range todo {
			jobs <- k
		}
		close(jobs)
		for i := 0; i < n; i++ {
			go func() {
				for k := range jobs {
					c12Futures[k] <- c12RunIsolated([]byte(k))
				}
			}()
		}
	})
	if ch, ok := c12Futures[string(spec)]; ok {
		r := <-ch
		ch <- r // the same spec may be asked for again
		return r
	}
	return c12RunIsolated(spec)
}

// ---------------------------------------------------------------- the harness's own abstract maps
// Used ONLY to name the class of a failure (sig) and to print "expected" in
// replays; the verdict is Coq's.

type c12Abs struct {
	maps    map[string]map[int]int
	ncols   int
	rows    [][2]int // in table?, ncells
	ndets   int
	handles []int
	nwraps  int
}

func (a *c12Abs) canon(o C12Owner) (string, bool) {
	// a wrapper stands for the table: the facade only has to exist
	if o.W < 0 || o.W > a.nwraps {
		return "", false
	}
	switch o.K {
	case "table":
		return "table", true
	case "col":
		if o.A >= 0 && o.A <= a.ncols {
			return fmt.Sprintf("col%d", o.A), true
		}
	case "handle":
		if o.A >= 0 && o.A < len(a.handles) {
			return fmt.Sprintf("col%d", a.handles[o.A]), true
		}
	case "row":
		if o.A >= 0 && o.A < len(a.rows) {
			return fmt.Sprintf("row%d", o.A), true
		}
	case "cell":
		if o.A >= 0 && o.A < len(a.rows) && o.B >= 0 && o.B < a.rows[o.A][1] {
			return fmt.Sprintf("cell%d.%d", o.A, o.B), true
		}
	case "det":
		if o.A >= 0 && o.A < a.ndets {
			return fmt.Sprintf("det%d", o.A), true
		}
	}
	return "", false
}

func (a *c12Abs) m(name string) map[int]int {
	if a.maps[name] == nil {
		a.maps[name] = map[int]int{}
	}
	return a.maps[name]
}

func c12CopyMap(m map[int]int) map[int]int {
	n := map[int]int{}
	for k, v := range m {
		n[k] = v
	}
	return n
}

func (a *c12Abs) step(op C12Op) int {
	if op.Op == "wrap" {
		a.nwraps++
		return c12OK
	}
	if f := op.facade(); f < 0 || f > a.nwraps {
		return c12Invalid
	}
	switch op.Op {
	case "set":
		n, ok := a.canon(*op.O)
		if !ok {
			return c12Invalid
		}
		if op.V > 0 {
			a.m(n)[op.Key] = op.V
		} else {
			delete(a.m(n), op.Key)
		}
		return c12OK
	case "get":
		n, ok := a.canon(*op.O)
		if !ok {
			return c12Invalid
		}
		if v, ok := a.m(n)[op.Key]; ok {
			return v + 1
		}
		return 0
	case "copy":
		if op.O.K != "cell" && op.O.K != "det" {
			return c12Invalid
		}
		n, ok := a.canon(*op.O)
		if !ok {
			return c12Invalid
		}
		a.maps[fmt.Sprintf("det%d", a.ndets)] = c12CopyMap(a.m(n))
		a.ndets++
		return c12OK
	case "newcell":
		a.maps[fmt.Sprintf("det%d", a.ndets)] = map[int]int{}
		a.ndets++
		return c12OK
	case "newrow":
		a.rows = append(a.rows, [2]int{0, 0})
		return c12OK
	case "rowadd":
		if op.R < 0 || op.R >= len(a.rows) || a.rows[op.R][0] == 1 || op.D < 0 || op.D >= a.ndets {
			return c12Invalid
		}
		a.maps[fmt.Sprintf("cell%d.%d", op.R, a.rows[op.R][1])] = c12CopyMap(a.m(fmt.Sprintf("det%d", op.D)))
		a.rows[op.R][1]++
		return c12OK
	case "addrow":
		if op.R < 0 || op.R >= len(a.rows) || a.rows[op.R][0] == 1 {
			return c12Invalid
		}
		a.rows[op.R][0] = 1
		if a.rows[op.R][1] > a.ncols {
			a.ncols = a.rows[op.R][1]
		}
		return c12OK
	case "additems":
		a.rows = append(a.rows, [2]int{1, op.N})
		if op.N > a.ncols {
			a.ncols = op.N
		}
		return c12OK
	case "takecol":
		if op.N < 0 || op.N > a.ncols {
			return c12Invalid
		}
		a.handles = append(a.handles, op.N)
		return c12OK
	case "addheaders":
		if op.N > a.ncols {
			a.ncols = op.N
		}
		return c12OK
	case "addsep":
		a.rows = append(a.rows, [2]int{1, 0})
		return c12OK
	case "touch":
		if _, ok := a.canon(*op.O); !ok {
			return c12Invalid
		}
		return c12OK
	case "newcellof":
		if op.O.K != "cell" && op.O.K != "det" {
			return c12Invalid
		}
		if _, ok := a.canon(*op.O); !ok {
			return c12Invalid
		}
		a.maps[fmt.Sprintf("det%d", a.ndets)] = map[int]int{}
		a.ndets++
		return c12OK
	}
	panic("bad op")
}

func (a *c12Abs) dump(sp *C12Spec) []*c12Entry {
	out := make([]*c12Entry, len(sp.Watch))
	for i, o := range sp.Watch {
		n, ok := a.canon(o)
		if !ok {
			continue
		}
		e := &c12Entry{Len: len(a.m(n))}
		for _, k := range sp.Keys {
			if v, ok := a.m(n)[k]; ok {
				e.Vals = append(e.Vals, v+1)
			} else {
				e.Vals = append(e.Vals, 0)
			}
		}
		out[i] = e
	}
	return out
}

func c12EntryEq(a, b *c12Entry) bool {
	if a == nil || b == nil {
		return a == b
	}
	if a.Len != b.Len || len(a.Vals) != len(b.Vals) {
		return false
	}
	for i := range a.Vals {
		if a.Vals[i] != b.Vals[i] {
			return false
		}
	}
	return true
}

// classify returns "" when the trace is what the abstract maps predict, else a
// short class name and a description of the first deviation
func c12Classify(sp *C12Spec, obs []c12StepObs) (sig string, what string) {
	a := &c12Abs{maps: map[string]map[int]int{}}
	for i, op := range sp.Ops {
		if i >= len(obs) {
			return "trace-cut-short", fmt.Sprintf("no observation for step %d", i)
		}
		r := a.step(op)
		if obs[i].R == c12Panic {
			return "panic", fmt.Sprintf("step %d (%s) panicked", i, op.Go())
		}
		if r != obs[i].R {
			kind := "get-wrong-value"
			if op.Op != "get" {
				kind = "step-result"
			} else if op.O.K == "col" || op.O.K == "handle" {
				kind = "column-handle-stale-after-growth"
			} else if op.O.K == "cell" || op.O.K == "det" {
				kind = "cell-copy-shares-chain"
			}
			return kind, fmt.Sprintf("step %d (%s) returned %d, abstract map says %d", i, op.Go(), obs[i].R, r)
		}
		exp := a.dump(sp)
		var bad []string
		kinds := map[string]bool{}
		lenOnly := true
		// does the owner the step itself set through (under that very name)
		// misreport its own map?  Then it is the owner's own map law that is
		// broken, not sharing with somebody else.
		ownBad := false
		isOwn := func(j int) bool {
			if op.Op != "set" || op.O == nil {
				return false
			}
			x, y := sp.Watch[j], *op.O
			x.W, y.W = 0, 0 // the same owner through whatever facade
			return x == y
		}
		for j := range exp {
			var got *c12Entry
			if j < len(obs[i].Dump) {
				got = obs[i].Dump[j]
			}
			if !c12EntryEq(exp[j], got) {
				kinds[sp.Watch[j].K] = true
				if exp[j] == nil || got == nil {
					bad = append(bad, fmt.Sprintf("%s: existence differs", sp.Watch[j]))
					lenOnly = false
					continue
				}
				valsSame := fmt.Sprint(exp[j].Vals) == fmt.Sprint(got.Vals)
				if !valsSame {
					lenOnly = false
				}
				// (a stale handle still reads its own value; only the length
				// shown for its column is off, so a handle counts only by values)
				if isOwn(j) && (!valsSame || op.O.K != "handle") {
					ownBad = true
				}
				bad = append(bad, fmt.Sprintf("%s reads len=%d vals=%v, its own map says len=%d vals=%v (keys %v; 0=nil, v+1)",
					sp.Watch[j], got.Len, got.Vals, exp[j].Len, exp[j].Vals, c12KeyNames(sp.Keys)))
			}
		}
		if len(bad) > 0 {
			what = fmt.Sprintf("after step %d (%s): %s", i, op.Go(), strings.Join(bad, "; "))
			switch {
			case op.Op == "touch" || op.Op == "addheaders" || op.Op == "newcellof" || op.Op == "get" || op.Op == "wrap":
				// nothing was set in this step at all
				sig = "map-changed-without-a-set"
				lenOnly = false
			case ownBad:
				sig = "owner-map-law"
				lenOnly = false
			case op.Op == "set" && op.O.W > 0 && (op.O.K == "table" || op.O.K == "col"):
				// the owner set through a rendering wrapper reads right; somebody else changed
				sig = "set-through-wrapper-changes-another-owner"
				lenOnly = false
			case kinds["col"] || kinds["handle"]:
				sig = "column-handle-stale-after-growth"
			case kinds["cell"] || kinds["det"]:
				sig = "cell-copy-shares-chain"
			default:
				sig = "owner-map-law"
			}
			// (a stale handle's own reads are right and only the length the
			// table prints for its column is off: same class, same sig)
			if lenOnly && sig != "column-handle-stale-after-growth" {
				sig += "-chain-length"
			}
			return
		}
	}
	return "", ""
}

func c12KeyNames(ks []int) []string {
	var out []string
	for _, k := range ks {
		out = append(out, c12Keys[k].name)
	}
	return out
}

// ---------------------------------------------------------------- Coq terms

func c12ObsCoq(obs []c12StepObs) string {
	var bs []byte
	clamp := func(n int) byte {
		if n < 0 || n > 250 {
			return 250
		}
		return byte(n)
	}
	for _, so := range obs {
		bs = append(bs, clamp(so.R))
		if so.R == c12Panic {
			break
		}
		for _, e := range so.Dump {
			if e == nil {
				bs = append(bs, 255)
				continue
			}
			bs = append(bs, clamp(e.Len))
			for _, v := range e.Vals {
				bs = append(bs, clamp(v))
			}
		}
	}
	return cqBytes(bs)
}

func c12CaseCoq(sp *C12Spec, obs []c12StepObs) string {
	var ks, ws, os []string
	for _, k := range sp.Keys {
		ks = append(ks, c12KeyCoq(k))
	}
	for _, w := range sp.Watch {
		ws = append(ws, w.VCoq())
	}
	for _, o := range sp.Ops {
		os = append(os, o.Coq())
	}
	return fmt.Sprintf("(([%s], [%s], [%s])%%nat, %s)", strings.Join(ks, ";"), strings.Join(ws, ";"), strings.Join(os, ";"), c12ObsCoq(obs))
}

// ---------------------------------------------------------------- generators

func own(k string, ab ...int) *C12Owner {
	o := &C12Owner{K: k}
	if len(ab) > 0 {
		o.A = ab[0]
	}
	if len(ab) > 1 {
		o.B = ab[1]
	}
	return o
}

// key triples used by the enumeration: equal-looking keys of distinct types together
var c12Triples = [][3]int{{0, 1, 3}, {2, 0, 4}, {1, 2, 0}, {3, 6, 1}, {4, 7, 5}, {0, 5, 2}}

// a scenario: a fixed prefix, two settable owners and a few structural ops
type c12Scenario struct {
	name   string
	prefix []C12Op
	a, b   *C12Owner
	bNeeds int     // index into extra of the op that creates b (-1: b exists after the prefix)
	extra  []C12Op // each usable at most once, in this order of availability
	needs  []int   // extra[i] usable only after extra[needs[i]] (-1: from the start)
	watch  []C12Owner
	minor  bool // plain independent owners: one step shorter
	nkeys  int  // keys enumerated (default 3)
}

func c12Scenarios() []c12Scenario {
	return []c12Scenario{
		{name: "cell-copy", prefix: []C12Op{{Op: "additems", N: 1}},
			a: own("cell", 0, 0), b: own("det", 0), bNeeds: 0,
			extra: []C12Op{{Op: "copy", O: own("cell", 0, 0)}}, needs: []int{-1},
			watch: []C12Owner{*own("cell", 0, 0), *own("det", 0), *own("row", 0)}},
		{name: "row-add", prefix: []C12Op{{Op: "newcell"}, {Op: "newrow"}},
			a: own("det", 0), b: own("cell", 0, 0), bNeeds: 0,
			extra: []C12Op{{Op: "rowadd", R: 0, D: 0}, {Op: "addrow", R: 0}}, needs: []int{-1, 0},
			watch: []C12Owner{*own("det", 0), *own("cell", 0, 0), *own("col", 1)}},
		{name: "copy-of-copy", prefix: []C12Op{{Op: "newcell"}},
			a: own("det", 0), b: own("det", 1), bNeeds: 0,
			extra: []C12Op{{Op: "copy", O: own("det", 0)}, {Op: "copy", O: own("det", 1)}}, needs: []int{-1, 0},
			watch: []C12Owner{*own("det", 0), *own("det", 1), *own("det", 2)}},
		{name: "handle-col1", minor: true, prefix: []C12Op{{Op: "additems", N: 1}, {Op: "takecol", N: 1}},
			a: own("handle", 0), b: own("col", 1), bNeeds: -1,
			extra: []C12Op{{Op: "additems", N: 25}}, needs: []int{-1},
			watch: []C12Owner{*own("handle", 0), *own("col", 1), *own("col", 0), *own("col", 2)}},
		{name: "handle-col0", minor: true, prefix: []C12Op{{Op: "takecol", N: 0}},
			a: own("handle", 0), b: own("col", 0), bNeeds: -1,
			extra: []C12Op{{Op: "additems", N: 25}}, needs: []int{-1},
			watch: []C12Owner{*own("handle", 0), *own("col", 0), *own("col", 1), *own("table")}},
		// a handle on a column that exists only because of the headers; the
		// headers are then replaced by shorter / longer ones and the body grows
		{name: "headers-handle", minor: true, prefix: []C12Op{{Op: "addheaders", N: 3}, {Op: "takecol", N: 3}},
			a: own("handle", 0), b: own("col", 3), bNeeds: -1,
			extra: []C12Op{{Op: "addheaders", N: 1}, {Op: "addheaders", N: 5}, {Op: "additems", N: 4}, {Op: "addheaders", N: 3}},
			needs: []int{-1, -1, -1, 0},
			watch: []C12Owner{*own("handle", 0), *own("col", 3), *own("col", 0), *own("col", 4)}},
		// things that are not sets must leave every map alone
		{name: "cell-untouched", minor: true, prefix: []C12Op{{Op: "additems", N: 1}},
			a: own("cell", 0, 0), b: own("det", 0), bNeeds: 0,
			extra: []C12Op{{Op: "copy", O: own("cell", 0, 0)},
				{Op: "touch", O: own("cell", 0, 0), How: "update-changed"},
				{Op: "touch", O: own("cell", 0, 0), How: "update-same"},
				{Op: "touch", O: own("det", 0), How: "update-changed"},
				{Op: "newcellof", O: own("cell", 0, 0)},
				{Op: "touch", O: own("table"), How: "render-csv"},
				{Op: "addheaders", N: 2}},
			needs: []int{-1, -1, -1, 0, -1, -1, -1},
			watch: []C12Owner{*own("cell", 0, 0), *own("det", 0), *own("det", 1), *own("row", 0), *own("col", 1)}},
		// every separator is a row of its own
		{name: "separators", minor: true, prefix: []C12Op{{Op: "addsep"}, {Op: "additems", N: 1}, {Op: "addsep"}},
			a: own("row", 0), b: own("row", 2), bNeeds: -1,
			extra: []C12Op{{Op: "addsep"}}, needs: []int{-1},
			watch: []C12Owner{*own("row", 0), *own("row", 2), *own("row", 1), *own("row", 3)}},
		{name: "table-row", minor: true, prefix: []C12Op{{Op: "additems", N: 1}},
			a: own("table"), b: own("row", 0), bNeeds: -1,
			watch: []C12Owner{*own("table"), *own("row", 0), *own("col", 0), *own("cell", 0, 0)}},
		{name: "col0-col1", minor: true, prefix: []C12Op{{Op: "additems", N: 2}},
			a: own("col", 0), b: own("col", 1), bNeeds: -1,
			watch: []C12Owner{*own("col", 0), *own("col", 1), *own("col", 2), *own("table")}},
	}
}

// every sequence of exactly n symbols (observation happens after every step,
// so every shorter history is a prefix of one of these); keys in order of first
// use (they are interchangeable; the concrete triple rotates), values fresh
func c12Enumerate(sc c12Scenario, n int, emit func(ops []C12Op, usedKeys int)) {
	var rec func(ops []C12Op, used int, done []bool)
	rec = func(ops []C12Op, used int, done []bool) {
		if len(ops) == n {
			emit(ops, used)
			return
		}
		val := len(ops) + 1
		owners := []*C12Owner{sc.a}
		if sc.bNeeds < 0 || done[sc.bNeeds] {
			owners = append(owners, sc.b)
		}
		for _, o := range owners {
			nk := sc.nkeys
			if nk == 0 {
				nk = 3
			}
			for k := 0; k <= used && k < nk; k++ {
				nu := used
				if k == used {
					nu = used + 1
				}
				for _, v := range []int{val, 0} {
					rec(append(append([]C12Op{}, ops...), C12Op{Op: "set", O: o, Key: k, V: v}), nu, done)
				}
			}
		}
		for i, e := range sc.extra {
			if done[i] || (sc.needs[i] >= 0 && !done[sc.needs[i]]) {
				continue
			}
			d2 := append([]bool{}, done...)
			d2[i] = true
			rec(append(append([]C12Op{}, ops...), e), used, d2)
		}
	}
	rec(nil, 0, make([]bool, len(sc.extra)))
}

func c12RemapKeys(ops []C12Op, triple [3]int) []C12Op {
	out := make([]C12Op, len(ops))
	for i, o := range ops {
		out[i] = o
		if o.Op == "set" || o.Op == "get" {
			out[i].Key = triple[o.Key]
		}
	}
	return out
}

func c12SortedKeys(ops []C12Op, extra ...int) []int {
	set := map[int]bool{}
	for _, o := range ops {
		if o.Op == "set" || o.Op == "get" {
			set[o.Key] = true
		}
	}
	for _, k := range extra {
		set[k] = true
	}
	var ks []int
	for k := range set {
		ks = append(ks, k)
	}
	sort.Ints(ks)
	return ks
}

// random history over all owner kinds
func c12Random(r *RNG, hostile bool) C12Spec {
	nkeys := 3 + r.Intn(3)
	perm := []int{0, 1, 2, 3, 4, 5, 6, 7}
	for i := len(perm) - 1; i > 0; i-- {
		j := r.Intn(i + 1)
		perm[i], perm[j] = perm[j], perm[i]
	}
	keys := append([]int{}, perm[:nkeys]...)
	if r.Pct(60) { // equal values of distinct types together
		keys = []int{0, 1}
		for _, k := range perm {
			if k > 1 && len(keys) < nkeys {
				keys = append(keys, k)
			}
		}
	}
	if r.Pct(25) { // pointer keys of different types holding the same address
		t := pick(r, c12PtrTriples())
		keys = []int{t[0], t[1], t[2]}
		for _, k := range perm {
			if len(keys) < nkeys && k != t[0] && k != t[1] && k != t[2] {
				keys = append(keys, k)
			}
		}
	}
	a := &c12Abs{maps: map[string]map[int]int{}}
	var ops []C12Op
	push := func(op C12Op) {
		a.step(op)
		ops = append(ops, op)
	}
	// fixture
	push(C12Op{Op: "additems", N: 1 + r.Intn(3)})
	if r.Pct(70) {
		push(C12Op{Op: "takecol", N: r.Intn(a.ncols + 1)})
	}
	if r.Pct(50) {
		push(C12Op{Op: "newrow"})
	}
	if r.Pct(50) {
		push(C12Op{Op: "newcell"})
	}
	owners := func() []*C12Owner {
		out := []*C12Owner{own("table"), own("col", 0)}
		for c := 1; c <= a.ncols && c <= 3; c++ {
			out = append(out, own("col", c))
		}
		if a.ncols > 3 {
			out = append(out, own("col", 4+r.Intn(a.ncols-3)))
		}
		for h := range a.handles {
			out = append(out, own("handle", h), own("handle", h))
		}
		for i, rw := range a.rows {
			out = append(out, own("row", i))
			for c := 0; c < rw[1] && c < 3; c++ {
				out = append(out, own("cell", i, c), own("cell", i, c))
			}
		}
		for d := 0; d < a.ndets; d++ {
			out = append(out, own("det", d), own("det", d))
		}
		return out
	}
	cellOwners := func() []*C12Owner {
		var out []*C12Owner
		for i, rw := range a.rows {
			for c := 0; c < rw[1] && c < 3; c++ {
				out = append(out, own("cell", i, c))
			}
		}
		for d := 0; d < a.ndets; d++ {
			out = append(out, own("det", d))
		}
		return out
	}
	n := 6 + r.Intn(9)
	if hostile {
		n = 14 + r.Intn(12)
	}
	grown := false
	val := 1
	var focus *C12Owner
	for len(ops) < n {
		p := r.Intn(100)
		switch {
		case p < 52:
			o := pick(r, owners())
			if hostile && focus != nil && r.Pct(70) {
				o = focus
			}
			focus = o
			v := 0
			if r.Pct(70) {
				v = val%80 + 1
				val++
			}
			push(C12Op{Op: "set", O: o, Key: pick(r, keys), V: v})
		case p < 57:
			push(C12Op{Op: "get", O: pick(r, owners()), Key: pick(r, keys)})
		case p < 60:
			// not a set: must change nobody's map
			switch r.Intn(4) {
			case 0:
				if cs := cellOwners(); len(cs) > 0 {
					push(C12Op{Op: "touch", O: pick(r, cs), How: pick(r, []string{"update-changed", "update-changed", "update-same", "text"})})
				}
			case 1:
				push(C12Op{Op: "touch", O: own("table"), How: pick(r, []string{"render-csv", "render-html", "render-json", "headers", "gostring"})})
			case 2:
				if cs := cellOwners(); len(cs) > 0 {
					push(C12Op{Op: "newcellof", O: pick(r, cs)})
				}
			default:
				if r.Bool() {
					push(C12Op{Op: "addsep"})
				} else {
					push(C12Op{Op: "addheaders", N: r.Intn(a.ncols + 3)})
				}
			}
		case p < 72:
			if cs := cellOwners(); len(cs) > 0 {
				push(C12Op{Op: "copy", O: pick(r, cs)})
			}
		case p < 76:
			push(C12Op{Op: "newcell"})
		case p < 79:
			push(C12Op{Op: "newrow"})
		case p < 86:
			var det []int
			for i, rw := range a.rows {
				if rw[0] == 0 {
					det = append(det, i)
				}
			}
			if len(det) > 0 && a.ndets > 0 {
				push(C12Op{Op: "rowadd", R: pick(r, det), D: r.Intn(a.ndets)})
			}
		case p < 90:
			var det []int
			for i, rw := range a.rows {
				if rw[0] == 0 {
					det = append(det, i)
				}
			}
			if len(det) > 0 {
				push(C12Op{Op: "addrow", R: pick(r, det)})
			}
		case p < 95:
			push(C12Op{Op: "takecol", N: r.Intn(a.ncols + 1)})
		default:
			if !grown {
				push(C12Op{Op: "additems", N: pick(r, []int{25, 25, 10, 9, 12})})
				grown = true
			} else {
				push(C12Op{Op: "additems", N: 1 + r.Intn(4)})
			}
		}
		// growth in the middle of most histories, with handles taken before it
		if !grown && len(ops) >= n/2 && r.Pct(60) {
			if len(a.handles) == 0 {
				push(C12Op{Op: "takecol", N: r.Intn(a.ncols + 1)})
			}
			push(C12Op{Op: "additems", N: 25})
			grown = true
		}
	}
	sp := C12Spec{Ops: ops, Keys: c12SortedKeys(ops), VK: r.Intn(5)}
	sp.Watch = c12WatchFor(ops, a)
	return sp
}

// watch every owner the history names, every detached copy and row cell that
// shares with one, plus table / column 0 / column 1
func c12WatchFor(ops []C12Op, a *c12Abs) []C12Owner {
	seen := map[string]bool{}
	var out []C12Owner
	add := func(o C12Owner) {
		s := o.String()
		if !seen[s] {
			seen[s] = true
			out = append(out, o)
		}
	}
	add(*own("table"))
	add(*own("col", 0))
	add(*own("col", 1))
	for _, op := range ops {
		if op.O != nil {
			add(*op.O)
		}
		if op.Op == "takecol" {
			add(*own("col", op.N))
		}
	}
	for h := range a.handles {
		add(*own("handle", h))
	}
	for d := 0; d < a.ndets; d++ {
		add(*own("det", d))
	}
	for i, rw := range a.rows {
		for c := 0; c < rw[1] && c < 3; c++ {
			add(*own("cell", i, c))
		}
	}
	return out
}

// deterministic hostile histories: deep chains, removal at every depth through
// every copy, the same key re-set many times
func c12Hostile() []C12Spec {
	var out []C12Spec
	mk := func(ops []C12Op) {
		a := &c12Abs{maps: map[string]map[int]int{}}
		for _, op := range ops {
			a.step(op)
		}
		out = append(out, C12Spec{Ops: ops, Keys: c12SortedKeys(ops), Watch: c12WatchFor(ops, a), VK: len(out) % 5})
	}
	allKeys := []int{0, 1, 2, 3, 4, 5, 6, 7}
	// re-setting one key never grows the chain
	for _, o := range []*C12Owner{own("table"), own("col", 0), own("col", 1), own("row", 0), own("cell", 0, 0), own("det", 0)} {
		ops := []C12Op{{Op: "additems", N: 1}, {Op: "newcell"}}
		for i := 0; i < 3; i++ {
			ops = append(ops, C12Op{Op: "set", O: o, Key: i, V: i + 1})
		}
		for i := 0; i < 12; i++ {
			ops = append(ops, C12Op{Op: "set", O: o, Key: i % 3, V: 10 + i})
		}
		mk(ops)
	}
	// a chain of 8 keys, a copy, then remove / re-set each depth through the copy and through the original
	for depth := 0; depth < 8; depth++ {
		for _, via := range []int{0, 1} {
			for _, v := range []int{0, 50} {
				ops := []C12Op{{Op: "newcell"}}
				for _, k := range allKeys {
					ops = append(ops, C12Op{Op: "set", O: own("det", 0), Key: k, V: k + 1})
				}
				ops = append(ops, C12Op{Op: "copy", O: own("det", 0)})
				ops = append(ops, C12Op{Op: "set", O: own("det", via), Key: allKeys[depth], V: v})
				ops = append(ops, C12Op{Op: "set", O: own("det", 1-via), Key: allKeys[(depth+3)%8], V: v})
				mk(ops)
			}
		}
	}
	// the value handed to Row.Add, then the row goes into the table
	for depth := 0; depth < 4; depth++ {
		ops := []C12Op{{Op: "newcell"}, {Op: "newrow"}}
		for k := 0; k < 4; k++ {
			ops = append(ops, C12Op{Op: "set", O: own("det", 0), Key: k, V: k + 1})
		}
		ops = append(ops, C12Op{Op: "rowadd", R: 0, D: 0}, C12Op{Op: "rowadd", R: 0, D: 0}, C12Op{Op: "addrow", R: 0})
		ops = append(ops, C12Op{Op: "set", O: own("det", 0), Key: depth, V: 0})
		ops = append(ops, C12Op{Op: "set", O: own("cell", 0, 0), Key: (depth + 1) % 4, V: 9})
		ops = append(ops, C12Op{Op: "copy", O: own("cell", 0, 1)})
		ops = append(ops, C12Op{Op: "set", O: own("det", 1), Key: (depth + 2) % 4, V: 0})
		mk(ops)
	}
	// headers first / repeated / shorter / longer / empty, with a handle on every
	// column taken while the table is that wide only because of its headers,
	// then growth of the body back to that width and beyond
	for _, w := range []int{2, 4} {
		for _, body := range []int{0, 1} {
			var ops []C12Op
			if body > 0 {
				ops = append(ops, C12Op{Op: "additems", N: body})
			}
			ops = append(ops, C12Op{Op: "addheaders", N: w})
			for c := 0; c <= w; c++ {
				ops = append(ops, C12Op{Op: "takecol", N: c}, C12Op{Op: "set", O: own("handle", c), Key: 0, V: c + 1})
			}
			ops = append(ops, C12Op{Op: "addheaders", N: 1}, C12Op{Op: "addheaders", N: 1}, C12Op{Op: "addheaders", N: 0})
			ops = append(ops, C12Op{Op: "set", O: own("handle", w), Key: 1, V: 20})
			ops = append(ops, C12Op{Op: "additems", N: w})
			for c := 0; c <= w; c++ {
				ops = append(ops, C12Op{Op: "set", O: own("col", c), Key: 2, V: 30 + c})
			}
			ops = append(ops, C12Op{Op: "addheaders", N: w + 2}, C12Op{Op: "addheaders", N: 2})
			nr := 1 // rows made so far
			if body > 0 {
				nr = 2
			}
			ops = append(ops, C12Op{Op: "newrow"}, C12Op{Op: "newcell"}, C12Op{Op: "rowadd", R: nr, D: 0}, C12Op{Op: "addrow", R: nr})
			for c := 0; c <= w; c += 2 {
				ops = append(ops, C12Op{Op: "set", O: own("handle", c), Key: 0, V: 0})
			}
			mk(ops)
		}
	}
	// loaded owners of every kind, then everything that is not a set
	{
		ops := []C12Op{{Op: "additems", N: 2}, {Op: "takecol", N: 2}}
		loaded := []*C12Owner{own("table"), own("col", 0), own("col", 1), own("handle", 0), own("row", 0), own("cell", 0, 0), own("cell", 0, 1)}
		for i, o := range loaded {
			for k := 0; k < 3; k++ {
				ops = append(ops, C12Op{Op: "set", O: o, Key: k, V: 3*i + k + 1})
			}
		}
		ops = append(ops, C12Op{Op: "copy", O: own("cell", 0, 0)}) // det 0
		for _, o := range []*C12Owner{own("cell", 0, 0), own("det", 0), own("cell", 0, 1)} {
			for _, how := range []string{"text", "update-same", "update-changed", "gostring"} {
				ops = append(ops, C12Op{Op: "touch", O: o, How: how})
			}
		}
		for _, how := range []string{"render-csv", "render-html", "render-json", "headers", "gostring"} {
			ops = append(ops, C12Op{Op: "touch", O: own("table"), How: how})
		}
		ops = append(ops, C12Op{Op: "addheaders", N: 2}, C12Op{Op: "touch", O: own("table"), How: "headers"},
			C12Op{Op: "touch", O: own("table"), How: "render-json"},
			C12Op{Op: "newcellof", O: own("cell", 0, 0)}, C12Op{Op: "newcellof", O: own("det", 0)},
			C12Op{Op: "newrow"}, C12Op{Op: "newcell"}, C12Op{Op: "rowadd", R: 1, D: 0}, C12Op{Op: "rowadd", R: 1, D: 3},
			C12Op{Op: "touch", O: own("cell", 1, 0), How: "update-changed"},
			C12Op{Op: "addrow", R: 1}, C12Op{Op: "addheaders", N: 1}, C12Op{Op: "addheaders", N: 4},
			C12Op{Op: "touch", O: own("det", 0), How: "update-changed"}, C12Op{Op: "touch", O: own("row", 0), How: "gostring"},
			C12Op{Op: "touch", O: own("col", 1), How: "gostring"})
		mk(ops)
	}
	// handles for every column of a 9-column table, growth by one column at a time
	{
		ops := []C12Op{{Op: "additems", N: 9}}
		for c := 0; c <= 9; c++ {
			ops = append(ops, C12Op{Op: "takecol", N: c})
			ops = append(ops, C12Op{Op: "set", O: own("handle", c), Key: 0, V: c + 1})
		}
		ops = append(ops, C12Op{Op: "additems", N: 10})
		for c := 0; c <= 9; c++ {
			ops = append(ops, C12Op{Op: "set", O: own("handle", c), Key: 1, V: c + 20})
		}
		ops = append(ops, C12Op{Op: "additems", N: 25})
		for c := 0; c <= 9; c += 3 {
			ops = append(ops, C12Op{Op: "set", O: own("handle", c), Key: 0, V: 0})
		}
		mk(ops)
	}
	return out
}

// ---------------------------------------------------------------- deep chains
// One owner holding 20-40 distinct keys (several dynamic types), then sets,
// set-nils and re-sets of keys at chosen depths below the newest link: the
// newest, the 16th/17th/18th/19th link, the middle, the oldest.  Every key is
// read back and the chain length (= number of live keys) is read after every
// step.  For cell owners a by-value copy is taken of the loaded cell and the
// deep sets go through the copy and through the original alternately.

type c12DeepOwner struct {
	name   string
	prefix []C12Op
	o      *C12Owner
	cell   bool
}

func c12DeepOwners() []c12DeepOwner {
	return []c12DeepOwner{
		{"table", []C12Op{{Op: "additems", N: 2}}, own("table"), false},
		{"col0", []C12Op{{Op: "additems", N: 2}}, own("col", 0), false},
		{"col2", []C12Op{{Op: "additems", N: 2}}, own("col", 2), false},
		{"handle", []C12Op{{Op: "additems", N: 1}, {Op: "takecol", N: 1}, {Op: "additems", N: 25}}, own("handle", 0), false},
		{"row", []C12Op{{Op: "additems", N: 2}}, own("row", 0), false},
		{"detached-row", []C12Op{{Op: "newrow"}}, own("row", 0), false},
		{"separator", []C12Op{{Op: "addsep"}, {Op: "addsep"}}, own("row", 1), false},
		{"cell", []C12Op{{Op: "additems", N: 2}}, own("cell", 0, 1), true},
		{"det", []C12Op{{Op: "newcell"}}, own("det", 0), true},
	}
}

// keys for a deep chain: n keys starting at a rotating offset of the extended
// table, so all types of one value sit next to each other
func c12DeepKeys(n, rot int) []int {
	total := len(c12Keys)
	out := make([]int, 0, n)
	for i := 0; i < n; i++ {
		out = append(out, (rot*7+i)%total)
	}
	return out
}

// c12Deep builds one history: load n keys on the owner, then for each entry of
// plan = (depth below the newest link, kind) one op; kind 0 = set nil,
// 1 = re-set to a fresh value, 2 = set nil then set again.  A negative depth
// counts from the oldest link (-1 = oldest).
func c12Deep(d c12DeepOwner, n, rot int, plan [][2]int, withCopy bool) C12Spec {
	ops := append([]C12Op{}, d.prefix...)
	keys := c12DeepKeys(n, rot)
	var order []int // live keys, newest first (what the chain should be)
	val := 1
	set := func(o *C12Owner, k, v int) {
		ops = append(ops, C12Op{Op: "set", O: o, Key: k, V: v})
	}
	for _, k := range keys {
		set(d.o, k, val%80+1)
		val++
		order = append([]int{k}, order...)
	}
	target := d.o
	ndets := 0
	for _, op := range d.prefix {
		if op.Op == "newcell" {
			ndets++
		}
	}
	var cp *C12Owner
	if withCopy && d.cell {
		ops = append(ops, C12Op{Op: "copy", O: d.o})
		cp = own("det", ndets)
	}
	for i, pl := range plan {
		if len(order) == 0 {
			break
		}
		depth := pl[0]
		if depth < 0 {
			depth = len(order) + depth
		}
		if depth < 0 {
			depth = 0
		}
		if depth >= len(order) {
			depth = len(order) - 1
		}
		k := order[depth]
		if cp != nil && i%2 == 1 {
			// through the copy: the original must not notice, and the copy's
			// order is the order at copy time; keep it simple and only set nil
			// through the copy on the key currently chosen (the expectation
			// is recomputed by the abstract maps anyway)
			set(cp, k, 0)
			continue
		}
		order = append(append([]int{}, order[:depth]...), order[depth+1:]...)
		switch pl[1] {
		case 0:
			set(target, k, 0)
		case 1:
			set(target, k, val%80+1)
			val++
			order = append([]int{k}, order...)
		default:
			set(target, k, 0)
			set(target, k, val%80+1)
			val++
			order = append([]int{k}, order...)
		}
	}
	watch := []C12Owner{*d.o}
	if cp != nil {
		watch = append(watch, *cp)
	}
	return C12Spec{Ops: ops, Keys: c12SortedKeys(ops), Watch: watch, VK: rot % 5}
}

// the deterministic part: every owner kind, boundary depths around the 16th
// link, the middle and the oldest link, with nil / re-set / nil-then-set
func c12DeepFixed() []C12Spec {
	var out []C12Spec
	plans := [][][2]int{
		{{-1, 0}, {-1, 1}, {17, 0}, {16, 1}, {15, 0}, {0, 0}, {-1, 2}, {18, 1}, {19, 0}, {-2, 1}},
		{{17, 1}, {17, 1}, {17, 1}, {-1, 1}, {-1, 1}, {-1, 0}, {16, 0}, {18, 0}, {10, 2}, {0, 1}},
		{{-1, 2}, {-1, 2}, {-3, 0}, {20, 1}, {17, 0}, {17, 0}, {1, 0}, {-1, 1}},
	}
	rot := 0
	for i, d := range c12DeepOwners() {
		n := 20 + (i*5)%21 // 20..40
		for j, pl := range plans {
			out = append(out, c12Deep(d, n+j, rot, pl, j == 1))
			rot++
		}
	}
	// re-setting the same 24 keys round-robin never grows the stored state,
	// and setting them all to nil empties it
	for _, d := range []c12DeepOwner{c12DeepOwners()[4], c12DeepOwners()[6]} {
		var plan [][2]int
		for i := 0; i < 48; i++ {
			plan = append(plan, [2]int{-1, 1})
		}
		for i := 0; i < 24; i++ {
			plan = append(plan, [2]int{-1, 0})
		}
		out = append(out, c12Deep(d, 24, rot, plan, false))
		rot++
	}
	return out
}

func c12DeepRandom(r *RNG) C12Spec {
	ds := c12DeepOwners()
	d := ds[r.Intn(len(ds))]
	n := 18 + r.Intn(23) // 18..40
	depths := []int{0, 1, 15, 16, 17, 18, 19, n / 2, -1, -2, -3, r.Intn(n)}
	var plan [][2]int
	for i, m := 0, 6+r.Intn(8); i < m; i++ {
		plan = append(plan, [2]int{pick(r, depths), r.Intn(3)})
	}
	return c12Deep(d, n, r.Intn(1000), plan, r.Pct(50))
}

// ---------------------------------------------------------------- shrinking

func c12Shrink(spec json.RawMessage) []json.RawMessage {
	var sp C12Spec
	if err := json.Unmarshal(spec, &sp); err != nil {
		return nil
	}
	var out []json.RawMessage
	emit := func(ops []C12Op, watch []C12Owner) {
		out = append(out, mustJSON(C12Spec{Ops: ops, Keys: c12SortedKeys(ops), Watch: watch, VK: sp.VK}))
	}
	for i := range sp.Ops {
		ops := append(append([]C12Op{}, sp.Ops[:i]...), sp.Ops[i+1:]...)
		emit(ops, sp.Watch)
	}
	for i, op := range sp.Ops {
		if op.Op == "additems" && op.N > 1 {
			for _, n := range []int{op.N - 1, 10, 1} {
				if n < op.N {
					ops := append([]C12Op{}, sp.Ops...)
					ops[i].N = n
					emit(ops, sp.Watch)
				}
			}
		}
		if op.Op == "takecol" && op.N > 0 {
			ops := append([]C12Op{}, sp.Ops...)
			ops[i].N = 0
			emit(ops, sp.Watch)
		}
		if op.Op == "addheaders" && op.N > 0 {
			ops := append([]C12Op{}, sp.Ops...)
			ops[i].N = op.N - 1
			emit(ops, sp.Watch)
		}
	}
	for i := range sp.Watch {
		w := append(append([]C12Owner{}, sp.Watch[:i]...), sp.Watch[i+1:]...)
		emit(sp.Ops, w)
	}
	// call on / read through the core table instead of a wrapper
	for i, op := range sp.Ops {
		if op.facade() > 0 && op.Op != "wrap" {
			ops := append([]C12Op{}, sp.Ops...)
			if op.O != nil {
				o := *op.O
				o.W = 0
				ops[i].O = &o
			}
			ops[i].W = 0
			emit(ops, sp.Watch)
		}
		if op.Op == "wrap" && op.W > 0 {
			ops := append([]C12Op{}, sp.Ops...)
			ops[i].W = 0
			emit(ops, sp.Watch)
		}
	}
	for i, o := range sp.Watch {
		if o.W > 0 {
			w := append([]C12Owner{}, sp.Watch...)
			w[i].W = 0
			emit(sp.Ops, w)
		}
	}
	if sp.VK != 0 {
		out = append(out, mustJSON(C12Spec{Ops: sp.Ops, Keys: sp.Keys, Watch: sp.Watch}))
	}
	return out
}

func c12Size(sp *C12Spec) int {
	n := 100*len(sp.Ops) + 3*len(sp.Watch) + len(sp.Keys)
	for _, op := range sp.Ops {
		if op.Op == "additems" || op.Op == "addheaders" {
			n += op.N
		}
		if op.Op == "takecol" {
			n += op.N
		}
		n += 5 * op.facade()
		if op.Op == "wrap" {
			n += 5 * op.W
		}
	}
	for _, o := range sp.Watch {
		n += o.W
	}
	return n
}

// ---------------------------------------------------------------- registration

func c12LenBucket(n int) string {
	switch {
	case n >= 18:
		return "18+"
	case n > 8:
		return "9-17"
	}
	return fmt.Sprint(n)
}

func c12Tags(sp *C12Spec, obs []c12StepObs) []string {
	has := map[string]bool{}
	kinds := map[string]bool{}
	var tags []string
	handleBeforeGrowth, handle := false, false
	maxLen := 0
	for _, op := range sp.Ops {
		has[op.Op] = true
		if op.O != nil && op.Op == "set" {
			kinds[op.O.K] = true
			if op.V == 0 {
				has["set-nil"] = true
			}
		}
		if op.Op == "wrap" {
			tags = append(tags, "wrapper="+strings.SplitN(op.How, ":", 2)[0])
		}
		if op.Op == "set" && op.O.W > 0 {
			tags = append(tags, "set-through-wrapper-on="+op.O.K)
		}
		if op.Op == "takecol" {
			handle = true
		}
		if op.Op == "additems" && op.N >= 10 && handle {
			handleBeforeGrowth = true
		}
	}
	for _, so := range obs {
		for _, e := range so.Dump {
			if e != nil && e.Len > maxLen {
				maxLen = e.Len
			}
		}
	}
	for k := range has {
		tags = append(tags, "op="+k)
	}
	for k := range kinds {
		tags = append(tags, "set-on="+k)
	}
	if handleBeforeGrowth {
		tags = append(tags, "handle-held-across-growth")
	}
	types := map[int]bool{}
	for _, k := range sp.Keys {
		types[c12Keys[k].tag] = true
	}
	tags = append(tags, fmt.Sprintf("key-types=%d", len(types)), fmt.Sprintf("max-chain=%s", c12LenBucket(maxLen)),
		fmt.Sprintf("ops=%d", (len(sp.Ops)/5)*5))
	sort.Strings(tags)
	return c12DedupTags(tags)
}

func init() {
	register(&Prop{
		ID:       "C12",
		Imports:  "From Tab Require Import Run.Glue Run.C12Run.",
		CaseType: "c12_case",
		CaseFn:   "C12_case",
		ModelFn:  "C12_model",
		Rule: "histories of {SetProperty v (v per case: ints, or distinct pointers / maps / slices that all have equal contents and are told apart by identity only - a get must return the very object last set -, or a mix), SetProperty nil, GetProperty, AddSeparator (every separator row, taken from AllRows(), is an owner of its own), c2 := *cell, NewCell, NewCell(cell), NewRow, AddHeaders (first / repeated / shorter / longer / empty), things that are not sets and must change nobody's map (Cell.Update after mutating the item - text changed or not -, String/Height/Lines, CSV / HTML / JSON renders, Headers(), %#v), Row.Add(copy) on a row not yet in the table, AddRow, AddRowItems (growth to 25 columns), t.Column(n) handle taken and used later} " +
			"over owners table / column n incl. 0 / handle / row / cell through CellAt / detached cell copy, keys from {int 1, int64 1, \"1\", two pointers, two struct keys, int 2, and pointer keys of different types holding the same address: &struct / &struct.firstField, a named pointer type / *T, (*int)(nil) / (*string)(nil), pointers to two zero-size types} plus, for the deep-chain stream, the values 3..10 as int / int64 / string / pointer / struct / uint8 / float64 / named int32; " +
			"after every step every watched owner is read under every key and its chain length is read off %#v; every history runs in a process of its own (package-level state cannot leak between cases; a fatal crash such as a stack overflow on a cyclic chain is an observation, not a harness failure); " +
			"every history of exactly 4 (thorough: 5) steps after a fixed prefix in the 3 two-owner scenarios with sharing (cell copy, Row.Add of a copy, copy of a copy) and of 3 (4) steps in the scenarios with a handle held across growth to 25 columns (column 1, column 0), a handle on a headers-only column across AddHeaders shorter / longer and body growth, a cell and its copy under non-set operations (Update after mutating the item, renders, NewCell(cell), AddHeaders), and plain independent owners (keys in order of first use, concrete key triple rotating), deterministic deep-chain / re-set / Row.Add / per-column-handle histories, a deep-chain stream (one owner of every kind - table, column 0, column n, handle held across growth, row in and out of the table, cell, detached copy - loaded with 18-40 distinct keys of eight dynamic types, then set nil / re-set / nil-then-set of the newest, 16th-20th, middle and oldest links, for cells alternately through a by-value copy; 24 keys re-set round-robin twice then all set to nil), and random histories with growth in the middle; " +
			"THE TABLE UNDER ANY OF ITS NAMES: rendering wrappers made at any moment of the history by every exported constructor of something that is a tabular.Table (texttable / csv / json / html / markdown .Wrap and .New, auto.Wrap and auto.New with every style auto.ListStyles() lists, wrappers around wrappers); every op of the history language calls its Table methods (SetProperty / GetProperty of the table, Column, CellAt, AddRow, AddRowItems, AddHeaders, AddSeparator, AllRows) on any facade and every watched owner is read back through a facade (also through the core table): every history of 2 (thorough 3) sets over {the table, column 0} x 3 keys x {value, nil} through each entry point, the same with the set through the wrapper and column 0 through the core, deep chains on the table and on column 0 through each wrapper package, and random / deep-chain histories with every op and every read moved to a random facade; " +
			"non-trivial = at least one non-nil set took effect; distinct = distinct (history, trace)",
		Exhaustive: "all histories of exactly 4 (thorough 5) steps over 2 owners x 3 keys x {set fresh value, set nil} + the scenario's structural ops (copy / Row.Add / AddRow / growth to 25 columns), in 3 sharing scenarios; one step shorter in 7 scenarios (handles across growth / header replacement, non-set operations, plain independent owners)",
		Gen: func(r *RNG, tier string) []json.RawMessage {
			var out []json.RawMessage
			n := 4
			if tier == "thorough" {
				n = 5
			}
			ctr := 0
			for _, sc := range c12Scenarios() {
				sc := sc
				ln := n
				if sc.minor {
					ln = n - 1
				}
				c12Enumerate(sc, ln, func(ops []C12Op, used int) {
					triples := append(append([][3]int{}, c12Triples...), c12PtrTriples()...)
					triple := triples[ctr%len(triples)]
					ctr++
					all := append(append([]C12Op{}, sc.prefix...), c12RemapKeys(ops, triple)...)
					out = append(out, mustJSON(C12Spec{Ops: all, Keys: c12SortedKeys(all, triple[0], triple[1], triple[2]), Watch: sc.watch, VK: (ctr / len(triples)) % 5}))
				})
			}
			for _, sp := range c12Hostile() {
				out = append(out, mustJSON(sp))
			}
			for _, sp := range c12DeepFixed() {
				out = append(out, mustJSON(sp))
			}
			nd := 30
			if tier == "thorough" {
				nd = 1500
			}
			for i := 0; i < nd; i++ {
				out = append(out, mustJSON(c12DeepRandom(r)))
			}
			nr := 400
			if tier == "thorough" {
				nr = 6000
			}
			for i := 0; i < nr; i++ {
				out = append(out, mustJSON(c12Random(r, i%5 == 4)))
			}
			out = append(out, c12ViaGen(r, tier)...)
			c12Stash = out
			return out
		},
		Run: func(spec json.RawMessage) CaseOut {
			var sp C12Spec
			if err := json.Unmarshal(spec, &sp); err != nil {
				panic(err)
			}
			res := c12Execute(spec)
			obs, pmsg := res.obs, res.pmsg
			sig, what := c12Classify(&sp, obs)
			desc := map[string]interface{}{}
			var prog []string
			for _, op := range sp.Ops {
				prog = append(prog, op.Go())
			}
			desc["go"] = prog
			desc["keys"] = c12KeyNames(sp.Keys)
			desc["values"] = "value number v is: " + c12ValKindNames[sp.VK%5] + " (a get must return the very object last set)"
			if sig == "panic" && strings.Contains(pmsg, "did not survive") {
				sig = "process-crash"
			}
			if sig != "" {
				desc["sig"] = sig
				desc["deviation"] = what
			}
			if pmsg != "" {
				desc["panic"] = pmsg
			}
			if n := len(obs); n > 0 {
				var last []string
				for j, e := range obs[n-1].Dump {
					if e == nil {
						last = append(last, sp.Watch[j].String()+":absent")
					} else {
						last = append(last, fmt.Sprintf("%s:len=%d,vals=%v", sp.Watch[j], e.Len, e.Vals))
					}
				}
				desc["final"] = last
			}
			nontrivial := false
			for _, so := range obs {
				for _, e := range so.Dump {
					if e != nil && e.Len > 0 {
						nontrivial = true
					}
				}
			}
			term := c12CaseCoq(&sp, obs)
			return CaseOut{
				Coq:        term,
				Desc:       desc,
				Size:       c12Size(&sp),
				Tags:       c12Tags(&sp, obs),
				Key:        term,
				Nontrivial: nontrivial,
			}
		},
		Shrink: c12Shrink,
	})
}

// worker mode: must stay the LAST init of this file (the key table is complete
// by now); nothing of the normal harness runs in a worker
func init() {
	if os.Getenv("C12_WORKER") == "1" {
		c12WorkerMain()
		os.Exit(0)
	}
}
