package main

// C10, continued: other holders of the same table with wrappers of their own
// (set up with every public option the wrapper kinds have), items changed in
// place after they were added, and the generators for both.

import (
	"fmt"
	htmltemplate "html/template"

	"go.pennock.tech/tabular"
	"go.pennock.tech/tabular/auto"
	"go.pennock.tech/tabular/csv"
	"go.pennock.tech/tabular/html"
	tjson "go.pennock.tech/tabular/json"
	"go.pennock.tech/tabular/markdown"
	"go.pennock.tech/tabular/texttable"
	"go.pennock.tech/tabular/texttable/decoration"
)

// c10Tune: another part of the program holds wrappers around the same table
// and sets every public option on them.  Returns those wrappers (so that
// their holder can render them later).
func c10Tune(sp C10Spec, bits int, obj tabular.Table, layers []tabular.Table) []RenderW {
	var out []RenderW
	n := 0
	setUp := func(x interface{}) {
		n++
		switch w := x.(type) {
		case *html.HTMLTable:
			w.Caption, w.Class, w.Id = "another holder's caption", "their-class", fmt.Sprintf("their-id-%d", n)
			w.TemplateName = "their-template"
			w.SetRowClassGenerator(func(i int, ctx interface{}) htmltemplate.HTMLAttr {
				return htmltemplate.HTMLAttr(fmt.Sprintf("their-row-%d-%v", i, ctx))
			}, n)
		case *texttable.TextTable:
			// a decoration other than the target's: by name, or a hand-made one
			other := "ascii-simple"
			if sp.Decor == other {
				other = "utf8-light-curved"
			}
			if n%2 == 0 {
				d := decoration.UTF8BoxDouble()
				d.TopLeft, d.TopRight, d.BottomLeft, d.BottomRight = "T", "T", "T", "T"
				w.SetDecoration(d)
			} else {
				w.SetDecorationNamed(other)
			}
		}
		if rw, ok := x.(RenderW); ok {
			out = append(out, rw)
			if bits&16 != 0 {
				capture(rw.Render)
			}
		}
	}
	if bits&4 != 0 {
		for _, l := range layers {
			setUp(l)
		}
	}
	around := []tabular.Table{obj}
	if bits&32 != 0 {
		other := tabular.New()
		other.AddHeaders("their", "table")
		other.AddRowItems("not", "ours")
		around = append(around, other)
	}
	for _, t := range around {
		if bits&1 != 0 {
			switch sp.Fmt {
			case "csv":
				setUp(csv.Wrap(t))
			case "html":
				setUp(html.Wrap(t))
			case "json":
				setUp(tjson.Wrap(t))
			case "markdown":
				setUp(markdown.Wrap(t))
			case "text":
				setUp(texttable.Wrap(t))
			}
		}
		if bits&2 != 0 {
			for _, style := range c10Styles(sp) {
				setUp(auto.Wrap(t, style))
			}
		}
	}
	return out
}

// c10Mutate gives the mutable items named by the spec their new texts and
// updates each cell through CellAt / Headers, as cell.go asks.
func c10Mutate(t tabular.Table, ts TableSpec, objs map[[2]int]*objData) {
	for _, m := range ts.Mutations {
		od := objs[[2]int{m.Row, m.Col}]
		if od == nil {
			continue
		}
		od.s = string(m.S)
		if m.Row < 0 {
			if h := t.Headers(); m.Col < len(h) {
				h[m.Col].Update()
			}
		} else if c, err := t.CellAt(tabular.CellLocation{Row: ts.tableRow(m.Row) + 1, Column: m.Col + 1}); err == nil {
			c.Update()
		}
	}
}

func c10Mut(s string) ItemSpec { return ItemSpec{K: "obj", Mask: 1, S: []byte(s)} }

// c10MutTables: tables some of whose items are mutable, with the new texts
// they get after the build.  The new texts stand in every relation to the old
// ones: same display width and height, wider, narrower, taller, shorter, empty
// to non-empty and back, same width in other bytes (multi-byte for ASCII).
func c10MutTables(r *RNG) []TableSpec {
	h := func(items ...ItemSpec) *[]ItemSpec { return &items }
	var out []TableSpec
	// 1: every row-building method, a late cell; same-size changes only
	out = append(out, TableSpec{
		Header: h(Str("host"), c10Mut("state"), Str("n")),
		Rows: []RowSpec{
			{Cells: []ItemSpec{Str("alpha"), c10Mut("idle"), Str("1")}},
			{How: 1, Cells: []ItemSpec{Str("beta"), c10Mut("busy")}},
			{Sep: true},
			{How: 2, Cells: []ItemSpec{c10Mut("gamma"), Str("down")}, Late: []ItemSpec{c10Mut("l8")}},
			{How: 3, Cells: []ItemSpec{Str("delta"), c10Mut("a\nbc")}},
		},
		Mutations: []Mutation{
			{Row: 0, Col: 1, S: []byte("busy")},
			{Row: 1, Col: 1, S: []byte("idle")},
			{Row: 3, Col: 0, S: []byte("GAMMA")},
			{Row: 3, Col: 2, S: []byte("L9")},
			{Row: 4, Col: 1, S: []byte("x\nyz")},
			{Row: -1, Col: 1, S: []byte("STATE")},
		},
		Stages: []int{1, 3},
	})
	// 2: every kind of size change
	out = append(out, TableSpec{
		Header: h(c10Mut("k"), c10Mut("value")),
		Rows: []RowSpec{
			{Cells: []ItemSpec{c10Mut("ab"), c10Mut("wide text")}},
			{Cells: []ItemSpec{c10Mut("one\ntwo"), c10Mut("")}},
			{Cells: []ItemSpec{c10Mut("gone"), c10Mut("e")}},
			{Cells: []ItemSpec{Str("fixed"), c10Mut("ab")}},
		},
		Mutations: []Mutation{
			{Row: -1, Col: 0, S: []byte("key")},    // wider header
			{Row: 0, Col: 0, S: []byte("abcdef")},  // wider
			{Row: 0, Col: 1, S: []byte("thin")},    // narrower (it was the widest of its column)
			{Row: 1, Col: 0, S: []byte("one")},     // shorter
			{Row: 1, Col: 1, S: []byte("now set")}, // empty to non-empty
			{Row: 2, Col: 0, S: []byte("")},        // non-empty to empty
			{Row: 2, Col: 1, S: []byte("é")},       // same width, more bytes
			{Row: 3, Col: 1, S: []byte("日")},       // same width, one wide glyph for two narrow ones
		},
	})
	// 3: one cell, changed to a text of the same size, in a table with nothing else mutable
	out = append(out, TableSpec{
		Header:    h(Str("a"), Str("b")),
		Rows:      []RowSpec{{Cells: []ItemSpec{Str("1"), Str("two")}}, {Cells: []ItemSpec{Str("x"), c10Mut("was")}}},
		Mutations: []Mutation{{Row: 1, Col: 1, S: []byte("now")}},
	})
	// 4: the header replaced by a second AddHeaders whose texts have the sizes of
	// the first one's, after the rows; one body cell changed alike
	out = append(out, TableSpec{
		Header:    h(Str("aa"), c10Mut("bb")),
		Header2:   h(c10Mut("cc"), Str("dd")),
		Rows:      []RowSpec{{Cells: []ItemSpec{Str("r1"), c10Mut("r2")}}, {How: 2, Cells: []ItemSpec{c10Mut("r3")}}},
		Stages:    []int{0},
		Mutations: []Mutation{{Row: 0, Col: 1, S: []byte("R2")}, {Row: -1, Col: 0, S: []byte("CC")}},
	})
	// random: a random table; each cell mutable with probability 1/2 and then
	// changed in a randomly chosen way
	for i := 0; i < 2; i++ {
		ts := randTable(r, 3, 3, c10Text, []int{0, 0, 1, 2, 3})
		if len(ts.Rows) == 0 {
			ts.Rows = []RowSpec{{Cells: []ItemSpec{c10Text(r), c10Text(r)}}}
		}
		w := 1
		for _, rw := range ts.Rows {
			if len(rw.Cells) > w {
				w = len(rw.Cells)
			}
		}
		hd := make([]ItemSpec, w)
		for j := range hd {
			hd[j] = Str(fmt.Sprintf("h%d", j))
		}
		ts.Header = &hd
		change := func(old []byte) []byte {
			switch r.Intn(6) {
			case 0, 1: // same size: every ASCII letter or digit becomes its neighbour
				nw := make([]byte, len(old))
				for k, b := range old {
					switch {
					case b >= 'a' && b < 'z', b >= 'A' && b < 'Z', b >= '0' && b < '9':
						b++
					case b == 'z' || b == 'Z' || b == '9':
						b--
					}
					nw[k] = b
				}
				return nw
			case 2:
				return append([]byte("M"), old...)
			case 3:
				return append(append([]byte{}, old...), []byte("\nz")...)
			case 4:
				return nil
			}
			return []byte("other")
		}
		for ri := range ts.Rows {
			for ci := range ts.Rows[ri].Cells {
				if !r.Bool() {
					continue
				}
				old := ts.Rows[ri].Cells[ci]
				if old.K != "str" {
					continue
				}
				ts.Rows[ri].Cells[ci] = c10Mut(string(old.B))
				ts.Mutations = append(ts.Mutations, Mutation{Row: ri, Col: ci, S: change(old.B)})
			}
		}
		for ci := range hd {
			if r.Pct(40) {
				old := hd[ci].B
				hd[ci] = c10Mut(string(old))
				ts.Mutations = append(ts.Mutations, Mutation{Row: -1, Col: ci, S: change(old)})
			}
		}
		if len(ts.Mutations) > 0 {
			out = append(out, ts)
		}
	}
	return out
}

// c10MoreVariants: the paths added after the fifth round of seeded changes.
func c10MoreVariants(r *RNG) []C10Variant {
	var vs []C10Variant
	// other holders' wrappers, obtained in every way, set up with their own
	// options, rendered or not, around the finished or the still empty table;
	// the target through every entry point and every spelling of the style
	n := 0
	for i, p := range c10Paths {
		for _, tune := range []int{1 | 8, 2 | 8, 2, 4 | 8, 1 | 2 | 4 | 16, 2 | 16} {
			v := C10Variant{Path: p, BuildFirst: n%4 != 1, Entry: []int{3, 5, 0, 8, 1, 3, 4, 5, 2}[n%9], Tune: tune, Sty: n / 2}
			if n%5 == 2 {
				v.Nest = []string{c10Kinds[(i+n)%5]}
			}
			if n%7 == 3 {
				v.Pre = []string{fmt.Sprintf("auto:%d", n), "text"}
			}
			vs = append(vs, v)
			n++
		}
	}
	// every auto entry point x every spelling, after an auto wrapper of each spelling was set up by someone else
	for sty := 0; sty < 4; sty++ {
		for _, e := range []int{3, 5, 8} {
			vs = append(vs, C10Variant{Path: "core", BuildFirst: true, Entry: e, Tune: 2 | 8, Sty: sty})
			vs = append(vs, C10Variant{Path: c10Paths[6+(sty*3+e)%8], BuildFirst: sty%2 == 0, Entry: e, Tune: 2 | 4, Sty: sty})
		}
	}
	// wrappers around another table, set up alike and rendered last before the target
	for i, p := range []string{"core", "html.New", "texttable.New", "auto:HTML", "auto:texttable", "auto:utf8-light"} {
		vs = append(vs, C10Variant{Path: p, BuildFirst: i%2 == 0, Entry: []int{3, 0, 5, 1, 8, 2}[i], Tune: 32 | 1 | 2 | 8, Sty: i})
	}
	// the partial table rendered after each row through every wrapper that exists by then
	for i, p := range c10Paths {
		vs = append(vs, C10Variant{Path: p, BuildFirst: true, Entry: i % 9, StageRenders: true, Sty: i})
		vs = append(vs, C10Variant{Path: p, Nest: []string{c10Kinds[i%5], c10Kinds[(i/5+3)%5]}, Entry: (i + 4) % 9, StageRenders: true, Sty: i + 1})
		vs = append(vs, C10Variant{Path: c10Paths[(i*3)%len(c10Paths)], Nest: []string{c10Kinds[(i+2)%5]}, Entry: (i + 2) % 9, StageRenders: true, TargetFirst: i%2 == 0, Tune: (i % 3) * 9})
	}
	// second and later uses of the auto entry points on one table
	for i, p := range c10Paths {
		vs = append(vs, C10Variant{Path: p, BuildFirst: true, Entry: 3 + 2*(i%2), Sty: i, Pre: []string{fmt.Sprintf("auto:%d", i), fmt.Sprintf("autoto:%d", i+1), fmt.Sprintf("auto:%d", i+2)}})
		vs = append(vs, C10Variant{Path: p, BuildFirst: i%2 == 1, Entry: i % 9, Sty: i, Pre: []string{fmt.Sprintf("autoto:%d", i), "markdown", fmt.Sprintf("auto:%d", i+3)}, TargetFirst: i%3 == 0})
	}
	return vs
}
