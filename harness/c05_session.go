package main

// C05 sessions: one render after another.
//
// The property speaks about every successful render; nothing in it lets a
// render depend on what was rendered before.  A session is a history over a
// few tables - building calls, a row that a second table also takes and that
// is extended afterwards (so that one of the two tables holds a row longer
// than its column count and its render stops part-way, after the records that
// came before), tables growing wide enough to render again - with renders of
// any table through every entry point in between.  Every render of the session
// is judged on its own, against the table as the SPEC says it stood at that
// moment (never read back from the table under test).

import (
	"bytes"
	"encoding/json"
	"fmt"
	"sort"
	"strings"

	"go.pennock.tech/tabular"
	"go.pennock.tech/tabular/csv"
)

// SessOp is one step of a session.
//
//	header  T.AddHeaders(Cells...)
//	row     T.AddRowItems(Cells...)
//	sep     T.AddSeparator()
//	share   To.AddRow(T.AllRows()[Row])        (the row now sits in both tables; it follows To)
//	extend  T.AllRows()[Row].Add(cell) for each of Cells
//	render  render T through entry point Via; judged
//	faulty  T rendered into a writer that fails on call FailAt; not judged
type SessOp struct {
	Op     string     `json:"op"`
	T      int        `json:"t"`
	Cells  []ItemSpec `json:"cells,omitempty"`
	Row    int        `json:"row,omitempty"`
	To     int        `json:"to,omitempty"`
	Via    int        `json:"via,omitempty"`
	FailAt int        `json:"fail_at,omitempty"`
	// round 6: render into a destination with room for Room more bytes, whose
	// failing Write returns an error of classification ErrKind (Via viaRoom /
	// viaRoomStringWriter); op "meta": a call that changes table state which is
	// not content (Kind: see metaKindNames; object chosen by Row / Col; text Cells[0])
	Room    int `json:"room,omitempty"`
	ErrKind int `json:"err_kind,omitempty"`
	Kind    int `json:"kind,omitempty"`
	Col     int `json:"col,omitempty"`
}

// SessTable: how a table of the session comes to be.  Kind 0 = tabular.New(),
// rendered through csv.Wrap / the package functions; 1 = csv.New(), built
// through the wrapper's own methods.  Declares k > 0: the renderers are handed
// a tabular.Table whose NColumns() reports k whatever the rows say (the column
// count is the table's to state; rows longer than it are refused, shorter ones
// padded).
type SessTable struct {
	Kind     int `json:"kind,omitempty"`
	Declares int `json:"declares,omitempty"`
}

type C05Session struct {
	Tables []SessTable `json:"tables"`
	Ops    []SessOp    `json:"session"`
}

// entry points of a render step
const (
	viaPkgRender    = iota // csv.Render(t)
	viaFreshWrap           // csv.Wrap(t).Render()
	viaKeptWrap            // the wrapper made when the session began: w.Render()
	viaPkgRenderTo         // csv.RenderTo(t, &bytes.Buffer{})
	viaKeptCollect         // w.RenderTo(a collecting io.Writer that is not a buffer)
	viaCallerBuffer        // w.RenderTo(buf) with ONE bytes.Buffer the caller Resets and reuses
	viaRoom                // csv.RenderTo(t, a destination with room for op.Room bytes) (c05_r6.go)
	viaRoomStringWriter    // w.RenderTo(the same kind of destination, also offering WriteString)
	nVias
	nBufVias = viaRoom // the entry points whose destination takes everything
)

var viaNames = []string{"csv.Render", "Wrap.Render", "kept.Render", "csv.RenderTo(buffer)", "kept.RenderTo(writer)", "kept.RenderTo(reused buffer)", "csv.RenderTo(destination with limited room)", "kept.RenderTo(destination with limited room, WriteString)"}

func viaIsString(v int) bool { return v == viaPkgRender || v == viaFreshWrap || v == viaKeptWrap }

type declTable struct {
	tabular.Table
	n int
}

func (d declTable) NColumns() int { return d.n }

// ---------------------------------------------------------------- what the spec says

type sessRow struct {
	cells []ItemSpec
	owner int
	sep   bool
}

type sessTab struct {
	header *[]ItemSpec
	rows   []*sessRow
	ncols  int
}

func (st *sessTab) atLeast(n int) {
	if n > st.ncols {
		st.ncols = n
	}
}

// sessInterp replays the building steps on the spec side.  A row belongs to the
// table that took it last: cells added to it afterwards widen that table only.
type sessInterp struct{ tabs []*sessTab }

func newSessInterp(n int) *sessInterp {
	si := &sessInterp{}
	for i := 0; i < n; i++ {
		si.tabs = append(si.tabs, &sessTab{})
	}
	return si
}

func (si *sessInterp) valid(op SessOp) bool {
	if op.T < 0 || op.T >= len(si.tabs) {
		return false
	}
	switch op.Op {
	case "share":
		if op.To < 0 || op.To >= len(si.tabs) {
			return false
		}
		fallthrough
	case "extend":
		rows := si.tabs[op.T].rows
		return op.Row >= 0 && op.Row < len(rows) && !rows[op.Row].sep
	}
	return true
}

func (si *sessInterp) apply(op SessOp) {
	t := si.tabs[op.T]
	switch op.Op {
	case "header":
		h := append([]ItemSpec{}, op.Cells...)
		t.header = &h
		t.atLeast(len(h))
	case "row":
		t.rows = append(t.rows, &sessRow{cells: append([]ItemSpec{}, op.Cells...), owner: op.T})
		t.atLeast(len(op.Cells))
	case "sep":
		t.rows = append(t.rows, &sessRow{sep: true, owner: op.T})
	case "share":
		r := t.rows[op.Row]
		to := si.tabs[op.To]
		to.rows = append(to.rows, r)
		r.owner = op.To
		to.atLeast(len(r.cells))
	case "extend":
		r := t.rows[op.Row]
		for _, c := range op.Cells {
			r.cells = append(r.cells, c)
			si.tabs[r.owner].atLeast(len(r.cells))
		}
	}
}

func sessCells(items []ItemSpec) *[]VCell {
	vc := make([]VCell, len(items))
	for i, it := range items {
		if it.K == "str" {
			vc[i] = VCell{Text: string(it.B), Empty: len(it.B) == 0}
			continue
		}
		txt := c05ItemText(it) // the documented text of the item, computed on the spec side (c05_r6.go)
		vc[i] = VCell{Text: txt, Empty: txt == ""}
	}
	return &vc
}

func (si *sessInterp) view(t int, declares int) View {
	st := si.tabs[t]
	v := View{NCols: st.ncols}
	if declares > 0 {
		v.NCols = declares
	}
	if st.header != nil {
		v.Header = sessCells(*st.header)
	}
	for _, r := range st.rows {
		if r.sep {
			v.Rows = append(v.Rows, nil)
			continue
		}
		v.Rows = append(v.Rows, sessCells(r.cells))
	}
	v.Align = make([]int, v.NCols+1)
	v.Skip = make([]int, v.NCols+1)
	return v
}

// how a render of this view ends according to the property's reading: -1 it
// succeeds; k >= 0: it is refused when k records have been written
func viewRefusedAfter(v View) int {
	if v.NCols < 1 {
		return 0
	}
	k := 0
	if v.Header != nil {
		if len(*v.Header) > v.NCols {
			return 0
		}
		k++
	}
	for _, r := range v.Rows {
		if r == nil {
			continue
		}
		if len(*r) > v.NCols {
			return k
		}
		k++
	}
	return -1
}

// ---------------------------------------------------------------- running it

type sessRenderObs struct {
	Step    int     `json:"step"`
	Table   int     `json:"table"`
	Via     string  `json:"via"`
	Expect  string  `json:"spec_says"`
	Outcome Outcome `json:"got"`
}

func runC05Session(ss C05Session) CaseOut {
	n := len(ss.Tables)
	si := newSessInterp(n)
	tabs := make([]tabular.Table, n)  // what is built
	shown := make([]tabular.Table, n) // what the renderers are handed
	kept := make([]*csv.CSVTable, n)  // one wrapper per table, alive for the whole session
	for i, st := range ss.Tables {
		if st.Kind == 1 {
			ct := csv.New()
			tabs[i], shown[i], kept[i] = ct, ct, ct
		} else {
			tabs[i] = tabular.New()
			shown[i] = tabs[i]
		}
		if st.Declares > 0 {
			shown[i] = declTable{tabs[i], st.Declares}
			kept[i] = nil
		}
		if kept[i] == nil {
			kept[i] = csv.Wrap(shown[i])
		}
	}
	// Isolation between cases: whatever an earlier case of this process left in
	// package-level state that the next call picks up must not be charged to
	// this session, so one render of a table of its own comes first, unjudged.
	capture(func() (string, error) { return csv.Render(tabular.New().AddRowItems("")) })

	callerBuf := &bytes.Buffer{}
	var views []string
	viewIdx := map[string]int{}
	var steps []string
	var obs []sessRenderObs
	tags := map[string]bool{"session": true}
	nontrivial := false
	key := ""
	pendingPartial, pendingStart := false, false // a string-path render was refused (part-way / before any record) and no string-path render succeeded since
	for k, op := range ss.Ops {
		if !si.valid(op) {
			continue
		}
		switch op.Op {
		case "header":
			tabs[op.T].AddHeaders(c05MakeItems(op.Cells)...)
		case "row":
			tabs[op.T].AddRowItems(c05MakeItems(op.Cells)...)
		case "sep":
			tabs[op.T].AddSeparator()
		case "share":
			tabs[op.To].AddRow(tabs[op.T].AllRows()[op.Row])
			if op.To != op.T {
				tags["row-in-two-tables"] = true
			}
		case "extend":
			row := tabs[op.T].AllRows()[op.Row]
			for _, it := range c05MakeItems(op.Cells) {
				row.Add(tabular.NewCell(it))
			}
		case "meta":
			if applyMeta(tabs[op.T], op) {
				tags["meta="+metaKindNames[((op.Kind%len(metaKindNames))+len(metaKindNames))%len(metaKindNames)]] = true
			}
			continue
		case "faulty":
			cw := &collectWriter{failAt: op.FailAt}
			capture(func() (string, error) { return "", kept[op.T].RenderTo(cw) })
			tags["failing-writer-in-between"] = true
			continue
		case "render":
			via := ((op.Via % nVias) + nVias) % nVias
			v := si.view(op.T, ss.Tables[op.T].Declares)
			var o Outcome
			roomStep, roomFired := false, false
			t, w := shown[op.T], kept[op.T]
			switch via {
			case viaPkgRender:
				o = capture(func() (string, error) { return csv.Render(t) })
			case viaFreshWrap:
				o = capture(csv.Wrap(t).Render)
			case viaKeptWrap:
				o = capture(w.Render)
			case viaPkgRenderTo:
				o = capture(func() (string, error) { b := &bytes.Buffer{}; err := csv.RenderTo(t, b); return b.String(), err })
			case viaKeptCollect:
				o = capture(func() (string, error) {
					cw := &collectWriter{failAt: -1}
					err := w.RenderTo(cw)
					return string(cw.acc), err
				})
			case viaRoom:
				rw := &roomWriter{room: op.Room, errKind: op.ErrKind}
				o = capture(func() (string, error) { err := csv.RenderTo(t, rw); return string(rw.held), err })
				if o.Kind == "panic" {
					o.Out = rw.held
				}
				roomStep, roomFired = true, rw.fired
			case viaRoomStringWriter:
				rw := &roomStringWriter{roomWriter{room: op.Room, errKind: op.ErrKind}}
				o = capture(func() (string, error) { err := w.RenderTo(rw); return string(rw.held), err })
				roomStep, roomFired = true, rw.fired
			default:
				o = capture(func() (string, error) {
					callerBuf.Reset()
					err := w.RenderTo(callerBuf)
					return callerBuf.String(), err
				})
			}
			vc := v.Coq(true)
			vi, seen := viewIdx[vc]
			if !seen {
				vi = len(views)
				viewIdx[vc] = vi
				views = append(views, vc)
			}
			if roomStep {
				held := "[]"
				if o.Kind == "err" {
					held = cqBytes(o.Out)
				}
				steps = append(steps, fmt.Sprintf("(SW %s %s %s %s)", cqNat(vi), cqN(uint64(max(op.Room, 0))), o.Coq(), held))
				if roomFired {
					tags["write-failed-part-way="+writeErrNames[((op.ErrKind%len(writeErrNames))+len(writeErrNames))%len(writeErrNames)]] = true
					if o.Kind == "ok" {
						tags["render-succeeded-after-failed-write"] = true
					}
				}
			} else {
				steps = append(steps, "(S0 "+cqPair(cqNat(vi), o.Coq())+")")
			}
			key += fmt.Sprintf("|%d:%s", vi, o.Kind)
			ra := viewRefusedAfter(v)
			expect := "succeeds"
			switch {
			case ra == 0:
				expect = "refused before any record"
				tags["render-refused-at-start"] = true
			case ra > 0:
				expect = fmt.Sprintf("refused after %d records", ra)
				tags["render-refused-part-way"] = true
			}
			if v.NCols > 0 {
				nontrivial = true
			}
			if viaIsString(via) {
				switch {
				case ra > 0:
					pendingPartial = true
				case ra == 0:
					pendingStart = true
				default:
					if pendingPartial {
						tags["string-render-after-part-way-refusal"] = true
					}
					if pendingStart {
						tags["string-render-after-refusal-at-start"] = true
					}
					pendingPartial, pendingStart = false, false
				}
			}
			tags["via="+viaNames[via]] = true
			tags["outcome="+o.Kind] = true
			obs = append(obs, sessRenderObs{Step: k, Table: op.T, Via: viaNames[via], Expect: expect, Outcome: o})
			continue
		default:
			continue
		}
		si.apply(op)
	}
	for _, st := range ss.Tables {
		if st.Kind == 1 {
			tags["table-made-by-csv.New"] = true
		}
		if st.Declares > 0 {
			tags["table-declares-its-column-count"] = true
		}
	}
	var tl []string
	for t := range tags {
		tl = append(tl, t)
	}
	sort.Strings(tl)
	return CaseOut{
		Coq:        cqPair(cqList(views), cqList(steps)),
		Desc:       obs,
		Size:       ss.Size(),
		Tags:       tl,
		Key:        strings.Join(views, ";") + key,
		Nontrivial: nontrivial,
	}
}

func (ss C05Session) Size() int {
	n := 3 * len(ss.Tables)
	for _, t := range ss.Tables {
		n += 2*t.Kind + 2*min(t.Declares, 1)
	}
	for _, op := range ss.Ops {
		n += 3 + len(op.Cells)
		if op.Op == "render" {
			n += min(op.Via, 1)
		}
		for _, c := range op.Cells {
			n += len(c.B)
		}
	}
	return n
}

// one-step reductions of a session
func shrinkC05Session(ss C05Session) []C05Session {
	var out []C05Session
	clone := func() C05Session {
		b, _ := json.Marshal(ss)
		var c C05Session
		json.Unmarshal(b, &c)
		return c
	}
	for i := range ss.Ops {
		c := clone()
		c.Ops = append(c.Ops[:i:i], c.Ops[i+1:]...)
		out = append(out, c)
	}
	for i, op := range ss.Ops {
		if op.Op == "render" && op.Via != 0 && op.Via < nBufVias {
			c := clone()
			c.Ops[i].Via = 0
			out = append(out, c)
		}
		if op.Op == "render" && op.Via == viaRoomStringWriter {
			c := clone()
			c.Ops[i].Via = viaRoom
			out = append(out, c)
		}
		if op.Op == "render" && op.Via >= nBufVias && op.ErrKind > 1 {
			c := clone()
			c.Ops[i].ErrKind = 1
			out = append(out, c)
		}
		for j, cell := range op.Cells {
			if op.Op != "extend" || len(op.Cells) > 1 {
				c := clone()
				c.Ops[i].Cells = append(c.Ops[i].Cells[:j:j], c.Ops[i].Cells[j+1:]...)
				out = append(out, c)
			}
			if len(cell.B) > 0 && cell.K == "str" {
				c := clone()
				c.Ops[i].Cells[j] = Str(string(cell.B[:len(cell.B)/2]))
				out = append(out, c)
			}
			if cell.K != "str" && op.Op != "meta" {
				c := clone()
				c.Ops[i].Cells[j] = Str("x")
				out = append(out, c)
			}
		}
	}
	for i, t := range ss.Tables {
		if t.Kind != 0 {
			c := clone()
			c.Tables[i].Kind = 0
			out = append(out, c)
		}
		if t.Declares != 0 {
			c := clone()
			c.Tables[i].Declares = 0
			out = append(out, c)
		}
	}
	return out
}

// ---------------------------------------------------------------- generators

func sessCellsGen(r *RNG, n int, text func(*RNG) ItemSpec) []ItemSpec {
	cs := make([]ItemSpec, n)
	for i := range cs {
		cs[i] = text(r)
	}
	return cs
}

// refusalSession: table 0 gets (a header and) `before` rows that fit, then a row
// too long for it, then one more row; table 1 is unrelated.  How the long row
// comes about: mech 0 - table 2 also takes the row, which is then extended
// (table 2 learns of the new column, table 0 does not); mech 1 - table 0 states
// a column count of its own, smaller than the row.  Table 0 is rendered through
// viaFail (refused when 0, 1, 2 ... records are out), then (every other time
// after a render of table 1 into a failing writer) table 1 through viaNext;
// then table 0 gets a wider row - under mech 0 the long row now fits - and is
// rendered again, then table 1 once more through the package function.
func refusalSession(r *RNG, mech int, hdr bool, before, viaFail, viaNext int, text func(*RNG) ItemSpec) C05Session {
	ss := C05Session{Tables: []SessTable{{}, {}, {}}}
	if mech == 1 {
		ss.Tables[0].Declares = 2
	}
	add := func(op SessOp) { ss.Ops = append(ss.Ops, op) }
	if hdr {
		add(SessOp{Op: "header", T: 0, Cells: sessCellsGen(r, 2, text)})
	}
	for i := 0; i < before; i++ {
		add(SessOp{Op: "row", T: 0, Cells: sessCellsGen(r, 1+(i+before)%2, text)})
	}
	if mech == 1 {
		add(SessOp{Op: "row", T: 0, Cells: sessCellsGen(r, 3, text)})
	} else {
		add(SessOp{Op: "row", T: 0, Cells: sessCellsGen(r, 2, text)})
	}
	add(SessOp{Op: "row", T: 0, Cells: sessCellsGen(r, 1, text)})
	add(SessOp{Op: "header", T: 1, Cells: sessCellsGen(r, 1+r.Intn(3), text)})
	add(SessOp{Op: "row", T: 1, Cells: sessCellsGen(r, 1, text)})
	if mech == 0 {
		add(SessOp{Op: "share", T: 0, Row: before, To: 2})
		add(SessOp{Op: "extend", T: 0, Row: before, Cells: sessCellsGen(r, 1, text)})
	}
	add(SessOp{Op: "render", T: 0, Via: viaFail})
	if (viaFail+viaNext+before)%2 == 1 {
		add(SessOp{Op: "faulty", T: 1, FailAt: 1 + viaNext})
	}
	add(SessOp{Op: "render", T: 1, Via: viaNext})
	add(SessOp{Op: "row", T: 0, Cells: sessCellsGen(r, 3, text)})
	add(SessOp{Op: "render", T: 0, Via: viaNext})
	add(SessOp{Op: "render", T: 1, Via: viaPkgRender})
	return ss
}

// sizedSession: the refused render has written `first` bytes of records by the
// time it stops and the render after it is of a table of about `second` bytes
// (and the other way round), for destinations whose behaviour depends on how
// much they hold.
func sizedSession(r *RNG, first, second, via int) C05Session {
	ss := C05Session{Tables: []SessTable{{}, {}, {}}}
	add := func(op SessOp) { ss.Ops = append(ss.Ops, op) }
	big := func(n int) ItemSpec {
		if n%2 == 1 {
			return Str(strings.Repeat(`"`, n/4) + strings.Repeat("z", n-n/4))
		}
		return Str(strings.Repeat("w", n))
	}
	add(SessOp{Op: "header", T: 0, Cells: []ItemSpec{Str("k"), Str("v")}})
	add(SessOp{Op: "row", T: 0, Cells: []ItemSpec{Str("a"), big(first)}})
	add(SessOp{Op: "row", T: 0, Cells: []ItemSpec{Str("b"), Str("c")}})
	add(SessOp{Op: "share", T: 0, Row: 1, To: 2})
	add(SessOp{Op: "extend", T: 0, Row: 1, Cells: []ItemSpec{Str("d")}})
	add(SessOp{Op: "row", T: 1, Cells: []ItemSpec{big(second)}})
	add(SessOp{Op: "row", T: 1, Cells: []ItemSpec{Str("e")}})
	add(SessOp{Op: "render", T: 1, Via: via})
	add(SessOp{Op: "render", T: 0, Via: via})
	add(SessOp{Op: "render", T: 1, Via: via})
	add(SessOp{Op: "render", T: 0, Via: viaFreshWrap})
	add(SessOp{Op: "render", T: 1, Via: viaPkgRender})
	return ss
}

// randSession: a random history over 2..4 tables.
func randSession(r *RNG, text func(*RNG) ItemSpec) C05Session {
	nt := 2 + r.Intn(3)
	ss := C05Session{}
	for i := 0; i < nt; i++ {
		st := SessTable{}
		if r.Pct(25) {
			st.Kind = 1
		}
		if r.Pct(8) {
			st.Declares = 1 + r.Intn(4)
		}
		ss.Tables = append(ss.Tables, st)
	}
	nrows := make([]int, nt) // rows each table holds (separators included), as the spec side will count them
	isSep := make([][]bool, nt)
	nops := 6 + r.Intn(16)
	for k := 0; k < nops; k++ {
		t := r.Intn(nt)
		x := r.Intn(100)
		switch {
		case x < 28:
			ss.Ops = append(ss.Ops, SessOp{Op: "row", T: t, Cells: sessCellsGen(r, r.Intn(4), text)})
			nrows[t]++
			isSep[t] = append(isSep[t], false)
		case x < 36:
			ss.Ops = append(ss.Ops, SessOp{Op: "header", T: t, Cells: sessCellsGen(r, r.Intn(4), text)})
		case x < 40:
			ss.Ops = append(ss.Ops, SessOp{Op: "sep", T: t})
			nrows[t]++
			isSep[t] = append(isSep[t], true)
		case x < 52:
			if nrows[t] == 0 {
				continue
			}
			row := r.Intn(nrows[t])
			if isSep[t][row] {
				continue
			}
			to := r.Intn(nt)
			ss.Ops = append(ss.Ops, SessOp{Op: "share", T: t, Row: row, To: to})
			nrows[to]++
			isSep[to] = append(isSep[to], false)
			if r.Pct(70) {
				// and the row grows where it now lives
				ss.Ops = append(ss.Ops, SessOp{Op: "extend", T: t, Row: row, Cells: sessCellsGen(r, 1+r.Intn(3), text)})
			}
		case x < 60:
			if nrows[t] == 0 {
				continue
			}
			ss.Ops = append(ss.Ops, SessOp{Op: "extend", T: t, Row: r.Intn(nrows[t]), Cells: sessCellsGen(r, 1+r.Intn(2), text)})
		case x < 64:
			ss.Ops = append(ss.Ops, SessOp{Op: "faulty", T: t, FailAt: r.Intn(12)})
		case x < 70:
			// state that is not content (c05_r6.go)
			ss.Ops = append(ss.Ops, SessOp{Op: "meta", T: t, Kind: r.Intn(len(metaKindNames)), Row: r.Intn(4), Col: r.Intn(5), Cells: sessCellsGen(r, 1, text)})
		default:
			ss.Ops = append(ss.Ops, SessOp{Op: "render", T: t, Via: r.Intn(nVias), Room: r.Intn(50), ErrKind: r.Intn(len(writeErrNames))})
		}
	}
	// every table is rendered at the end, through the string-returning paths
	for t := 0; t < nt; t++ {
		ss.Ops = append(ss.Ops, SessOp{Op: "render", T: t, Via: r.Intn(3)})
	}
	return ss
}

func genC05Sessions(r *RNG, tier string, text func(*RNG) ItemSpec) []json.RawMessage {
	var out []json.RawMessage
	add := func(ss C05Session) { out = append(out, mustJSON(ss)) }
	// every place a render can be refused (before any record: a row too long
	// under no header; after the header; after one, two body records) x every
	// entry point for the refused render x every entry point for the next one
	for _, hdr := range []bool{false, true} {
		for before := 0; before <= 2; before++ {
			for vf := 0; vf < nBufVias; vf++ {
				for vn := 0; vn < nBufVias; vn++ {
					add(refusalSession(r, 0, hdr, before, vf, vn, text))
					if viaIsString(vf) && viaIsString(vn) {
						add(refusalSession(r, 1, hdr, before, vf, vn, text))
					}
				}
			}
		}
	}
	sizes := [][2]int{{40, 700}, {700, 40}, {5000, 30}, {30, 5000}}
	if tier == "thorough" {
		sizes = append(sizes, [2]int{4090, 4090}, [2]int{70000, 100}, [2]int{100, 66000})
	}
	for i, s := range sizes {
		add(sizedSession(r, s[0], s[1], i%3))
		if s[0]+s[1] < 10000 {
			add(sizedSession(r, s[0]+1, s[1]+1, (i+1)%3))
		}
	}
	n := 160
	if tier == "thorough" {
		n = 4000
	}
	for i := 0; i < n; i++ {
		add(randSession(r, text))
	}
	return out
}

// parseC05Spec: a session (it has a "session" member) or a bare TableSpec.
func parseC05Spec(spec json.RawMessage) (*C05Session, *TableSpec) {
	var probe map[string]json.RawMessage
	if err := json.Unmarshal(spec, &probe); err == nil {
		if _, ok := probe["session"]; ok {
			var ss C05Session
			if err := json.Unmarshal(spec, &ss); err != nil {
				panic(err)
			}
			return &ss, nil
		}
	}
	var ts TableSpec
	if err := json.Unmarshal(spec, &ts); err != nil {
		panic(err)
	}
	return nil, &ts
}
