package main

// C17: the decoration registry under concurrency; fails closed.
//
// A spec is a list of per-goroutine programs over
//   reg n d | named n | names | styles | set n | auto n | render i | reset i n | setdec i d
// (set n = texttable.Wrap(good table) + SetDecorationNamed(n) + Render(); auto n =
// the same selection through auto.New(n), n dot-free and no sub-package name;
// render i = Render() again on the i-th table this goroutine made; reset i n =
// SetDecorationNamed(n) + Render() on that table; setdec i d = SetDecoration(d)
// + Render() on it; styles = auto.ListStyles()).  Every listing returned by
// the library is scribbled over after it has been recorded (entries
// overwritten, appended to within its capacity, reversed): a listing is the
// caller's own copy and later listings must not notice.  Mode
// "seq" has one program, run in order; mode "conc" runs the programs
// concurrently, every operation stamped from one atomic counter before it
// starts and after it returned (so "a ended before b started" is exactly
// end(a) < start(b)), then reads every name back after the join; afterwards
// the same programs run once more with no stamps at all, so that the race
// detector sees them without the happens-before edges the counter adds.

import (
	"bytes"
	"encoding/json"
	"fmt"
	"os"
	"runtime"
	"sort"
	"strings"
	"sync"
	"sync/atomic"

	"go.pennock.tech/tabular/auto"
	"go.pennock.tech/tabular/texttable"
	"go.pennock.tech/tabular/texttable/decoration"
)

type C17Op struct {
	K string `json:"k"` // reg named names styles set auto render reset setdec
	N string `json:"n,omitempty"`
	D int    `json:"d,omitempty"`
	I int    `json:"i,omitempty"`
	// auto only: the qualifier put before the name ("texttable." in some ASCII case); the
	// name is then a decoration name whatever it spells (Props/C19.v c19_texttable_qualified)
	P string `json:"p,omitempty"`
}

type C17Spec struct {
	Mode  string    `json:"mode"` // seq | conc
	Progs [][]C17Op `json:"progs"`
	// Cold: the programs' first operation is the first thing this process asks of the registry
	// (no dump of its initial content, which is taken to be the six documented built-ins)
	Cold bool `json:"cold,omitempty"`
	// Shape of every table the world makes (c17_util.go: 0 the good table, 1.. tables without columns)
	Shape int `json:"shape,omitempty"`
	// Vary: every table the world makes has a content of its own (number of columns and
	// rows, cell widths: a function of goroutine, table number and pass - c17_r6.go), so that
	// no two goroutines ever draw the same widths; Shape is 0 then
	Vary bool `json:"vary,omitempty"`
}

type C17Ev struct {
	G      int      `json:"g"`
	Op     C17Op    `json:"op"`
	Dec    int      `json:"dec,omitempty"`
	Names  []string `json:"names,omitempty"`
	SetErr bool     `json:"seterr,omitempty"`
	R      *RRes    `json:"r,omitempty"`
	S      int64    `json:"s"`
	E      int64    `json:"e"`
	// Vary worlds: the content (seed) of the table rendered and the raw output, named by
	// a palette decoration only after the join (c17Resolve)
	Tab int `json:"tab,omitempty"`
	raw string
}

type C17Out struct {
	Init   []InitEnt `json:"init"`
	Events []C17Ev   `json:"events"`
	RawBad string    `json:"rawbad,omitempty"`
}

type c17op struct {
	C17Op
	name string
}

// the shape of every table this (child) process makes; whether its programs run one at a time
var (
	c17Shape      int
	c17Sequential bool
)

// Render() named by the palette (for this shape), cross-checked with RenderTo
func c17Render(tt *texttable.TextTable, seed int, ev *C17Ev) RRes {
	if seed != 0 {
		r, raw := c17RenderVaried(tt)
		ev.Tab, ev.raw = seed, raw
		return r
	}
	r := renderRes(tt.Render, shapeOutToID[c17Shape])
	if r.K == "panic" {
		return r
	}
	func() {
		defer func() {
			if p := recover(); p != nil {
				r = RRes{K: "panic", Msg: fmt.Sprint("RenderTo: ", p)}
			}
		}()
		out, err := tt.Render()
		var b bytes.Buffer
		err2 := tt.RenderTo(&b)
		if (err == nil) != (err2 == nil) || (err == nil && b.String() != out) {
			r = RRes{K: "panic", Msg: fmt.Sprintf("Render (%q, %v) and RenderTo (%q, %v) disagree", out, err, b.String(), err2)}
		}
	}()
	return r
}

func c17Exec(op c17op, cx *c17ctx) (ev C17Ev) {
	tabs := &cx.tabs
	ev.Op = op.C17Op
	switch op.K {
	case "reg":
		decoration.RegisterDecorationName(op.name, regPalette[op.D])
	case "named":
		ev.Dec = decID(decoration.Named(op.name))
	case "names", "styles":
		var l []string
		if op.K == "names" {
			l = decoration.RegisteredDecorationNames()
		} else {
			l = auto.ListStyles()
		}
		ev.Names = make([]string, len(l))
		for i, n := range l {
			ev.Names[i] = qname(n)
		}
		scribble(l)
	case "set":
		seed := cx.newSeed()
		tt := texttable.Wrap(c17Table(seed))
		_, err := tt.SetDecorationNamed(op.name)
		ev.SetErr = err != nil
		r := c17Render(tt, seed, &ev)
		ev.R = &r
		*tabs = append(*tabs, tt)
		cx.seeds = append(cx.seeds, seed)
	case "auto":
		// auto.New + fill and auto.Wrap of a filled table in turn; auto.Render and
		// auto.RenderTo of another such table must say the same
		style := op.P + op.name
		seed := cx.newSeed()
		var rt auto.RenderTable
		if len(*tabs)%2 == 0 {
			rt = auto.New(style)
			c17Fill(rt, seed)
		} else {
			rt = auto.Wrap(c17Table(seed), style)
		}
		tt, isText := rt.(*texttable.TextTable)
		if !isText {
			ev.R = &RRes{K: "panic", Msg: fmt.Sprintf("auto.New/Wrap(%q) is a %T", style, rt)}
			tt = texttable.Wrap(c17Table(seed))
		} else {
			r := c17Render(tt, seed, &ev)
			if c17Sequential {
				// (each of these looks the name up for itself: comparable only when nobody
				// else is registering meanwhile)
				out1, err1 := rt.Render()
				out2, err2 := auto.Render(c17Table(seed), style)
				var b bytes.Buffer
				err3 := auto.RenderTo(c17Table(seed), &b, style)
				if (err1 == nil) != (err2 == nil) || (err1 == nil) != (err3 == nil) || out1 != out2 || (err3 == nil && b.String() != out1) {
					r = RRes{K: "panic", Msg: fmt.Sprintf("auto.Render / auto.RenderTo (%q, %v / %q, %v) disagree with the wrapper's Render (%q, %v) for style %q", out2, err2, b.String(), err3, out1, err1, style)}
				}
			}
			ev.R = &r
		}
		*tabs = append(*tabs, tt)
		cx.seeds = append(cx.seeds, seed)
	case "render":
		if op.I >= 0 && op.I < len(*tabs) {
			r := c17Render((*tabs)[op.I], cx.seeds[op.I], &ev)
			ev.R = &r
		}
	case "reset":
		if op.I >= 0 && op.I < len(*tabs) {
			tt := (*tabs)[op.I]
			_, err := tt.SetDecorationNamed(op.name)
			ev.SetErr = err != nil
			r := c17Render(tt, cx.seeds[op.I], &ev)
			ev.R = &r
		}
	case "setdec":
		if op.I >= 0 && op.I < len(*tabs) {
			tt := (*tabs)[op.I]
			tt.SetDecoration(regPalette[op.D])
			r := c17Render(tt, cx.seeds[op.I], &ev)
			ev.R = &r
		}
	default:
		panic("unknown op " + op.K)
	}
	return ev
}

// scribble over a listing the library returned: overwrite, extend within the
// capacity it came with, reverse
func scribble(l []string) {
	for i := range l {
		l[i] = "\x00scribbled"
	}
	if c := cap(l); c > len(l) {
		l = l[:c]
		for i := range l {
			l[i] = "~scribbled-in-spare-capacity"
		}
	}
	l = append(l, "zz-appended", "csv", "csv")
	sort.Sort(sort.Reverse(sort.StringSlice(l)))
}

func c17Decode(progs [][]C17Op) [][]c17op {
	out := make([][]c17op, len(progs))
	for g, p := range progs {
		for _, o := range p {
			if (o.K == "reg" || o.K == "setdec") && (o.D < 0 || o.D >= len(regPalette)) {
				panic("decoration index out of range")
			}
			out[g] = append(out[g], c17op{o, unq(o.N)})
		}
	}
	return out
}

func c17Worker() {
	paletteInit()
	var spec C17Spec
	if err := json.NewDecoder(os.Stdin).Decode(&spec); err != nil {
		panic(err)
	}
	if spec.Shape < 0 || spec.Shape >= c17Shapes {
		panic("no such table shape")
	}
	c17Shape = spec.Shape
	c17Vary = spec.Vary
	if c17Vary && c17Shape != 0 {
		panic("varied tables have shape 0")
	}
	c17Sequential = spec.Mode == "seq"
	progs := c17Decode(spec.Progs)
	var out C17Out
	if spec.Cold {
		out.Init = assumedInit() // paletteInit uses constructors and SetDecoration only: nothing has looked a name up yet
	} else {
		out.Init = dumpRegistry()
	}
	var clock int64
	if spec.Mode == "seq" {
		for g, p := range progs {
			cx := &c17ctx{g: g}
			for _, o := range p {
				s := atomic.AddInt64(&clock, 1)
				ev := c17Exec(o, cx)
				ev.G, ev.S, ev.E = g, s, atomic.AddInt64(&clock, 1)
				out.Events = append(out.Events, ev)
			}
		}
		c17Resolve(out.Events)
		json.NewEncoder(os.Stdout).Encode(out)
		return
	}
	// ---- stamped concurrent phase
	per := make([][]C17Ev, len(progs))
	start := make(chan struct{})
	var wg sync.WaitGroup
	for g := range progs {
		wg.Add(1)
		go func(g int) {
			defer wg.Done()
			cx := &c17ctx{g: g}
			evs := make([]C17Ev, 0, len(progs[g]))
			<-start
			for _, o := range progs[g] {
				s := atomic.AddInt64(&clock, 1)
				ev := c17Exec(o, cx)
				ev.E = atomic.AddInt64(&clock, 1)
				ev.G, ev.S = g, s
				evs = append(evs, ev)
			}
			per[g] = evs
		}(g)
	}
	close(start)
	wg.Wait()
	for _, evs := range per {
		out.Events = append(out.Events, evs...)
	}
	// after the join: read everything back (events of a pseudo goroutine)
	universe := map[string]bool{}
	for _, e := range out.Init {
		universe[unq(e.N)] = true
	}
	for _, p := range progs {
		for _, o := range p {
			if o.K == "reg" || o.K == "named" || o.K == "set" || o.K == "reset" || o.K == "auto" {
				universe[o.name] = true
			}
		}
	}
	var uni []string
	for n := range universe {
		uni = append(uni, n)
	}
	sort.Strings(uni)
	none := &c17ctx{g: len(progs)}
	for _, n := range uni {
		s := atomic.AddInt64(&clock, 1)
		ev := c17Exec(c17op{C17Op{K: "named", N: qname(n)}, n}, none)
		ev.G, ev.S, ev.E = len(progs), s, atomic.AddInt64(&clock, 1)
		out.Events = append(out.Events, ev)
	}
	{
		s := atomic.AddInt64(&clock, 1)
		ev := c17Exec(c17op{C17Op{K: "names"}, ""}, none)
		ev.G, ev.S, ev.E = len(progs), s, atomic.AddInt64(&clock, 1)
		out.Events = append(out.Events, ev)
	}
	c17Resolve(out.Events)
	// ---- raw phase: same programs, no stamps, nothing shared but the registry
	allowed := map[string]map[int]bool{}
	allow := func(n string, d int) {
		if allowed[n] == nil {
			allowed[n] = map[int]bool{}
		}
		allowed[n][d] = true
	}
	for _, n := range uni {
		allow(n, decID(decoration.Named(n)))
	}
	for _, p := range progs {
		for _, o := range p {
			if o.K == "reg" {
				allow(o.name, o.D)
			}
		}
	}
	// round 0: the programs as they are (overwrites of the same names while others read);
	// rounds 1, 2: every registration goes to a fresh name of its own (name~round), so the
	// registry grows while others list it.  What is checked here needs no time stamps:
	//  - a lookup returns something registered under that name (rounds 1, 2: nobody
	//    writes the looked-up names any more, so exactly what it held before the round);
	//  - a listing is sorted and duplicate-free, has every name that was there when the
	//    round began and every name this goroutine itself registered earlier in the
	//    round, and nothing that nobody registers.
	for round := 0; round < 3; round++ {
		rprogs := progs
		if round > 0 {
			rprogs = make([][]c17op, len(progs))
			for g, p := range progs {
				for _, o := range p {
					if o.K == "reg" {
						o.name = fmt.Sprintf("%s~%d", o.name, round)
						o.N = qname(o.name)
					}
					rprogs[g] = append(rprogs[g], o)
				}
			}
		}
		before := map[string]bool{}
		for _, n := range decoration.RegisteredDecorationNames() {
			before[n] = true
		}
		held := map[string]int{}
		possible := map[string]bool{}
		for n := range before {
			possible[n] = true
		}
		for _, p := range rprogs {
			for _, o := range p {
				if o.K == "reg" {
					possible[o.name] = true
				} else if o.K == "named" {
					if _, ok := held[o.name]; !ok {
						held[o.name] = decID(decoration.Named(o.name))
					}
				}
			}
		}
		raw := make([][]C17Ev, len(rprogs))
		start2 := make(chan struct{})
		for g := range rprogs {
			wg.Add(1)
			go func(g int) {
				defer wg.Done()
				cx := &c17ctx{g: g, pass: 1 + round}
				evs := make([]C17Ev, 0, len(rprogs[g]))
				<-start2
				for _, o := range rprogs[g] {
					evs = append(evs, c17Exec(o, cx))
				}
				raw[g] = evs
			}(g)
		}
		close(start2)
		wg.Wait()
		bad := func(format string, a ...interface{}) {
			if out.RawBad == "" {
				out.RawBad = fmt.Sprintf("unstamped pass, round %d: ", round) + fmt.Sprintf(format, a...)
			}
		}
		for g, evs := range raw {
			own := map[string]bool{}
			for i, ev := range evs {
				o := rprogs[g][i]
				switch o.K {
				case "reg":
					own[o.name] = true
				case "named":
					if round == 0 {
						if !allowed[o.name][ev.Dec] {
							bad("goroutine %d op %d Named(%q) returned decoration %d, never registered under that name", g, i, o.name, ev.Dec)
						}
					} else if ev.Dec != held[o.name] {
						bad("goroutine %d op %d Named(%q) returned decoration %d, but the name holds %d and nobody registers it", g, i, o.name, ev.Dec, held[o.name])
					}
				case "names", "styles":
					got := map[string]bool{}
					prev := ""
					for k, q := range ev.Names {
						n := unq(q)
						if k > 0 && n < prev {
							bad("goroutine %d op %d: listing not sorted at %q", g, i, n)
						}
						four := n == "csv" || n == "html" || n == "json" || n == "markdown"
						if got[n] && !(o.K == "styles" && four) {
							bad("goroutine %d op %d: listing has %q twice", g, i, n)
						}
						if !possible[n] && !(o.K == "styles" && four) {
							bad("goroutine %d op %d: listing has %q, which nobody registered", g, i, n)
						}
						got[n] = true
						prev = n
					}
					for n := range before {
						if !got[n] {
							bad("goroutine %d op %d: listing lacks %q, registered before the round began", g, i, n)
						}
					}
					for n := range own {
						if !got[n] {
							bad("goroutine %d op %d: listing lacks %q, which this goroutine had registered", g, i, n)
						}
					}
				}
			}
		}
		// after the join nothing may be lost
		after := map[string]bool{}
		for _, n := range decoration.RegisteredDecorationNames() {
			after[n] = true
		}
		for n := range possible {
			if !after[n] {
				bad("after the join the listing lacks %q", n)
			}
		}
	}
	if msg := c17RendersByName(6, 14); msg != "" && out.RawBad == "" {
		out.RawBad = msg
	}
	if msg := c17Stress(3, 3, 160); msg != "" && out.RawBad == "" {
		out.RawBad = msg
	}
	if msg := c17Overwrite(2, 4, 1500); msg != "" && out.RawBad == "" {
		out.RawBad = msg
	}
	json.NewEncoder(os.Stdout).Encode(out)
}

// c17Overwrite: lookups under fire.  Each of `writers` goroutines owns one
// already registered name and overwrites it `versions` times, every version a
// decoration of its own (the version number is written into its Horizontal
// field), publishing the number of the last registration that has returned;
// `readers` goroutines look the names up in a tight loop (the same name many
// times in a row, then the next), reading the counter before and after each
// lookup: what Named returns must be a version registered under that name, not
// older than the last one that had returned before the call and not newer than
// one that could have started before it ended.  After the join, Named(name) is
// the LAST registration, also through SetDecorationNamed and auto.New.
func c17Overwrite(writers, readers, versions int) string {
	if runtime.GOMAXPROCS(0) < 4 {
		defer runtime.GOMAXPROCS(runtime.GOMAXPROCS(4))
	}
	version := func(k, v int) decoration.Decoration {
		return decoration.Decoration{Horizontal: fmt.Sprintf("%d:%d", k, v), Vertical: "|", HOuter: "-"}
	}
	decode := func(d decoration.Decoration) (k, v int, ok bool) {
		_, err := fmt.Sscanf(d.Horizontal, "%d:%d", &k, &v)
		return k, v, err == nil
	}
	names := make([]string, writers)
	for k := range names {
		names[k] = fmt.Sprintf("overwritten-%d", k) + strings.Repeat("!", k*83) // a short name and longer ones
		decoration.RegisterDecorationName(names[k], version(k, 0))
	}
	progress := make([]int32, writers) // last version whose registration has returned
	var active int32 = int32(writers)
	var first atomic.Value
	fail := func(format string, a ...interface{}) {
		first.CompareAndSwap(nil, "lookups under fire: "+fmt.Sprintf(format, a...))
	}
	start := make(chan struct{})
	var wg sync.WaitGroup
	for k := 0; k < writers; k++ {
		wg.Add(1)
		go func(k int) {
			defer wg.Done()
			<-start
			for v := 1; v <= versions; v++ {
				decoration.RegisterDecorationName(names[k], version(k, v))
				atomic.StoreInt32(&progress[k], int32(v))
				// leave the readers a moment with this version in force (a reader is judged
				// against the versions whose registration had returned before its call)
				for spin := 0; spin < 40+(v%7)*20; spin++ {
					atomic.LoadInt32(&active)
				}
				if v%16 == 0 {
					runtime.Gosched()
				}
			}
			atomic.AddInt32(&active, -1)
		}(k)
	}
	var lookups int64
	for l := 0; l < readers; l++ {
		wg.Add(1)
		go func(l int) {
			defer wg.Done()
			<-start
			for i := 0; i < 2000000; i++ {
				last := atomic.LoadInt32(&active) == 0
				k := (l + i/64) % writers
				lo := atomic.LoadInt32(&progress[k])
				d := decoration.Named(names[k])
				hi := atomic.LoadInt32(&progress[k])
				atomic.AddInt64(&lookups, 1)
				dk, dv, ok := decode(d)
				switch {
				case !ok || dk != k:
					fail("Named(%q) returned a decoration never registered under that name (%q)", names[k], d.Horizontal)
				case int32(dv) < lo:
					fail("Named(%q) returned version %d although the registration of version %d had returned before the call", names[k], dv, lo)
				case int32(dv) > hi+1:
					fail("Named(%q) returned version %d, but only versions up to %d can have been started", names[k], dv, hi+1)
				}
				if last || first.Load() != nil {
					return
				}
			}
		}(l)
	}
	close(start)
	wg.Wait()
	// all registrations are over: every route sees the last one
	for round := 0; round < 3; round++ {
		for k, n := range names {
			if _, dv, ok := decode(decoration.Named(n)); !ok || dv != versions {
				fail("after the join Named(%q) is version %d, the last registration was version %d", n, dv, versions)
			}
			want, _ := texttable.Wrap(goodTable()).SetDecoration(version(k, versions)).Render()
			tt := texttable.Wrap(goodTable())
			if _, err := tt.SetDecorationNamed(n); err != nil {
				fail("after the join SetDecorationNamed(%q): %v", n, err)
			}
			if got, _ := tt.Render(); got != want {
				fail("after the join a table selected by %q does not render with the last registration", n)
			}
			rt := auto.New(n)
			rt.AddHeaders("h1", "h2")
			rt.AddRowItems("a", "b")
			if got, _ := rt.Render(); got != want {
				fail("after the join auto.New(%q) does not render with the last registration", n)
			}
		}
	}
	if v := first.Load(); v != nil {
		return fmt.Sprintf("%s (%d lookups judged)", v.(string), atomic.LoadInt64(&lookups))
	}
	return ""
}

// c17Stress: the listing under fire.  `writers` goroutines register fresh names
// of their own, one after the other, and publish how far they got (an atomic
// counter, stored after the registration returned); `listers` goroutines list
// in a tight loop for as long as any writer is at work (alternating
// RegisteredDecorationNames and auto.ListStyles), reading the counters BEFORE
// each call.  Every single listing is judged on the spot: strictly sorted
// (hence duplicate-free, but for ListStyles' four names), only names somebody
// registers, every name that was there when the pass began and every name whose
// registration had returned before the call; and a lookup of such a name gives
// the decoration it was registered with.  After the join nothing is missing.
// (This pass uses atomics, so it is a functional check; the unstamped passes
// above are the ones the race detector sees undisturbed.)
func c17Stress(writers, listers, per int) string {
	if runtime.GOMAXPROCS(0) < 4 {
		defer runtime.GOMAXPROCS(runtime.GOMAXPROCS(4))
	}
	before := decoration.RegisteredDecorationNames()
	idx := make(map[string]int32, len(before)+writers*per)
	for i, n := range before {
		idx[n] = int32(i)
	}
	B := len(before)
	fresh := make([][]string, writers)
	decOf := func(k, j int) int { return 1 + (k+j)%(len(regPalette)-1) }
	for k := range fresh {
		for j := 0; j < per; j++ {
			// sorted positions all over the listing
			// sorted positions all over the listing, lengths from 12 to 130
			n := fmt.Sprintf("%c~stress%d-%03d", "am0zZ-u"[(j*5+k)%7], k, j) + strings.Repeat("+", (j*13+k*7)%120)
			fresh[k] = append(fresh[k], n)
			idx[n] = int32(B + k*per + j)
		}
	}
	progress := make([]int32, writers) // number of registrations that have returned
	var active int32 = int32(writers)
	var first atomic.Value
	fail := func(format string, a ...interface{}) {
		first.CompareAndSwap(nil, "listing under fire: "+fmt.Sprintf(format, a...))
	}
	start := make(chan struct{})
	var wg sync.WaitGroup
	for k := 0; k < writers; k++ {
		wg.Add(1)
		go func(k int) {
			defer wg.Done()
			<-start
			for j, n := range fresh[k] {
				decoration.RegisterDecorationName(n, regPalette[decOf(k, j)])
				atomic.StoreInt32(&progress[k], int32(j+1))
			}
			atomic.AddInt32(&active, -1)
		}(k)
	}
	var listings int64
	for l := 0; l < listers; l++ {
		wg.Add(1)
		go func(l int) {
			defer wg.Done()
			seen := make([]uint32, B+writers*per)
			done := make([]int32, writers)
			<-start
			for round := uint32(1); round < 20000; round++ {
				last := atomic.LoadInt32(&active) == 0 // one more listing after the writers are through
				for k := range done {
					done[k] = atomic.LoadInt32(&progress[k])
				}
				styles := (int(round)+l)%3 == 0
				var got []string
				if styles {
					got = auto.ListStyles()
				} else {
					got = decoration.RegisteredDecorationNames()
				}
				atomic.AddInt64(&listings, 1)
				for i, n := range got {
					four := styles && (n == "csv" || n == "html" || n == "json" || n == "markdown")
					if i > 0 && (got[i-1] > n || (got[i-1] == n && !four)) {
						fail("listing %d of lister %d is not strictly sorted at %q", round, l, n)
					}
					if id, ok := idx[n]; ok {
						seen[id] = round
					} else if !four {
						fail("listing %d of lister %d has %q, which nobody registers", round, l, n)
					}
				}
				for i := 0; i < B; i++ {
					if seen[i] != round {
						fail("listing %d of lister %d (%d names) lacks %q, registered before the pass began", round, l, len(got), before[i])
					}
				}
				for k := range done {
					for j := 0; j < int(done[k]); j++ {
						if seen[B+k*per+j] != round {
							fail("listing %d of lister %d (%d names) lacks %q, whose registration had returned before the call", round, l, len(got), fresh[k][j])
						}
					}
					if j := int(done[k]) - 1; j >= 0 {
						if d := decID(decoration.Named(fresh[k][j])); d != decOf(k, j) {
							fail("Named(%q) returned decoration %d after its registration with %d had returned", fresh[k][j], d, decOf(k, j))
						}
					}
				}
				if len(got) > 0 {
					got[0] = "\x00scribbled" // a listing is the caller's
				}
				if last || first.Load() != nil {
					return
				}
			}
		}(l)
	}
	close(start)
	wg.Wait()
	final := map[string]bool{}
	for _, n := range decoration.RegisteredDecorationNames() {
		final[n] = true
	}
	for n := range idx {
		if !final[n] {
			fail("after the join the listing lacks %q", n)
		}
	}
	if v := first.Load(); v != nil {
		return fmt.Sprintf("%s (%d listings judged)", v.(string), atomic.LoadInt64(&listings))
	}
	return ""
}

func init() {
	if len(os.Args) > 1 && os.Args[1] == "C17worker" {
		c17Worker()
		os.Exit(0)
	}
}

// ---------------------------------------------------------------- Coq terms

func c17OpCoq(nt *nameTable, o C17Op) string {
	switch o.K {
	case "reg":
		return fmt.Sprintf("(OReg %s %s)", nt.ref(unq(o.N)), cqDec(o.D))
	case "named":
		return "(ONamed " + nt.ref(unq(o.N)) + ")"
	case "names":
		return "ONames"
	case "styles":
		return "OStyles"
	case "set":
		return "(OSet " + nt.ref(unq(o.N)) + ")"
	case "auto":
		return "(OAutoNew " + nt.ref(unq(o.N)) + ")"
	case "render":
		return "(ORender " + cqNat(o.I) + ")"
	case "reset":
		return "(OReSet " + cqNat(o.I) + " " + nt.ref(unq(o.N)) + ")"
	case "setdec":
		return "(OSetDec " + cqNat(o.I) + " " + cqDec(o.D) + ")"
	}
	panic("op")
}

func c17ObsCoq(nt *nameTable, ev C17Ev) string {
	switch ev.Op.K {
	case "reg":
		return "VUnit"
	case "named":
		return "(VDec " + cqDec(ev.Dec) + ")"
	case "names", "styles":
		var l []string
		for _, q := range ev.Names {
			l = append(l, nt.ref(unq(q)))
		}
		return "(VNames " + cqList(l) + ")"
	case "set":
		return "(VSet " + cqBool(ev.SetErr) + " " + ev.R.Coq() + ")"
	case "reset":
		if ev.R == nil {
			return "VNone"
		}
		return "(VSet " + cqBool(ev.SetErr) + " " + ev.R.Coq() + ")"
	case "auto":
		return "(VRender " + ev.R.Coq() + ")"
	case "render", "setdec":
		if ev.R == nil {
			return "VNone"
		}
		return "(VRender " + ev.R.Coq() + ")"
	}
	panic("obs")
}

func c17InitCoq(nt *nameTable, init []InitEnt) string {
	var l []string
	for _, e := range init {
		l = append(l, cqPair(nt.ref(unq(e.N)), cqDec(e.D)))
	}
	return cqList(l)
}

type c17Desc struct {
	Sig    string      `json:"sig"`
	Race   bool        `json:"race"`
	Crash  bool        `json:"crash,omitempty"`
	Report string      `json:"report,omitempty"`
	RawBad string      `json:"rawbad,omitempty"`
	Init   []InitEnt   `json:"init,omitempty"`
	Events interface{} `json:"events,omitempty"`
}

func c17Run(spec json.RawMessage) CaseOut {
	paletteInit()
	var sp C17Spec
	if err := json.Unmarshal(spec, &sp); err != nil {
		panic(err)
	}
	cr := childFor("C17worker", spec)
	var out C17Out
	desc := c17Desc{Race: cr.Race, Crash: cr.Crash}
	if !cr.Race && !cr.Crash {
		if err := json.Unmarshal(cr.Stdout, &out); err != nil {
			cr.Crash = true
			desc.Crash = true
			cr.Stderr += "\nunparsable worker output: " + err.Error()
		}
	}
	if cr.Race {
		desc.Sig = "data-race"
		desc.Report = trunc(cr.Stderr, 6000)
	} else if cr.Crash {
		desc.Sig = "worker-crash"
		desc.Report = trunc(cr.Stderr, 6000)
	}
	if out.RawBad != "" {
		desc.RawBad = out.RawBad
		if desc.Sig == "" {
			desc.Sig = "unstamped-phase"
		}
	}
	desc.Init = out.Init
	if len(out.Events) <= 60 {
		desc.Events = out.Events
	} else {
		desc.Events = fmt.Sprintf("%d events (re-run with --replay to see them)", len(out.Events))
	}
	nt := newNameTable()
	var evs []string
	nOps, nReg, nRead := 0, 0, 0
	for _, ev := range out.Events {
		evs = append(evs, fmt.Sprintf("(Ev %s %s %s %s %s)", cqNat(ev.G), c17OpCoq(nt, ev.Op), c17ObsCoq(nt, ev), cqN(uint64(ev.S)), cqN(uint64(ev.E))))
	}
	for _, p := range sp.Progs {
		for _, o := range p {
			nOps++
			switch o.K {
			case "reg":
				nReg++
			case "named", "set", "reset", "auto":
				nRead++
			}
		}
	}
	initC := c17InitCoq(nt, out.Init)
	bad := cr.Race || cr.Crash || out.RawBad != ""
	var reps []string
	if sp.Shape > 0 && sp.Shape < c17Shapes {
		for i, rp := range shapeRep[sp.Shape] {
			if rp != i {
				reps = append(reps, cqPair(cqN(uint64(i)), cqN(uint64(rp))))
			}
		}
	}
	body := fmt.Sprintf("mkC17s %s %s %s %s [\n   %s]", cqList(reps), cqBool(sp.Mode == "seq"), cqBool(bad), initC, strings.Join(evs, ";\n   "))
	tags := []string{"mode=" + sp.Mode, fmt.Sprintf("goroutines=%d", len(sp.Progs))}
	if sp.Shape >= 0 && sp.Shape < c17Shapes {
		tags = append(tags, "tables="+shapeNames[sp.Shape])
	}
	if sp.Cold {
		tags = append(tags, "cold-start(first registry operation is the program's)")
	}
	if sp.Vary {
		tags = append(tags, "tables=own-content(columns, rows and widths differ per goroutine and table)")
	}
	for _, p := range sp.Progs {
		for _, o := range p {
			if o.N != "" || o.K == "reg" || o.K == "named" || o.K == "set" {
				tags = append(tags, c17LenTag(len(unq(o.N))))
			}
		}
	}
	switch {
	case nOps <= 3:
		tags = append(tags, "ops<=3")
	case nOps <= 12:
		tags = append(tags, "ops<=12")
	case nOps <= 200:
		tags = append(tags, "ops<=200")
	default:
		tags = append(tags, "ops>200")
	}
	for _, p := range sp.Progs {
		for _, o := range p {
			if o.K == "reg" && o.D == 0 {
				tags = append(tags, "registers-empty-decoration")
			}
			if (o.K == "reg" || o.K == "setdec") && o.D >= 10 {
				tags = append(tags, "decoration-written-field-by-field")
			}
			if o.K == "styles" || o.K == "reset" || o.K == "setdec" || o.K == "auto" {
				tags = append(tags, "op:"+o.K)
			}
		}
	}
	tags = uniq(tags)
	if cr.Race {
		tags = append(tags, "race-report")
	}
	return CaseOut{
		Coq:        nt.wrap(body),
		Desc:       desc,
		Size:       nOps + len(sp.Progs),
		Tags:       tags,
		Key:        string(spec),
		Nontrivial: nReg > 0 && nRead > 0,
	}
}

func uniq(xs []string) []string {
	seen := map[string]bool{}
	var out []string
	for _, x := range xs {
		if !seen[x] {
			seen[x] = true
			out = append(out, x)
		}
	}
	return out
}

// ---------------------------------------------------------------- generator

var c17Names = []string{"none", "x", "utf8-light", "y.z", "", "X", "\xff", "zz"}

// may this name go through auto.New and mean SetDecorationNamed(name)?  (dot-free,
// ASCII, not a sub-package name in any case: Props/C19.v c19_plain_is_set)
func autoOK(name string) bool {
	for i := 0; i < len(name); i++ {
		if name[i] == '.' || name[i] >= 128 {
			return false
		}
	}
	switch strings.ToLower(name) {
	case "csv", "html", "json", "markdown", "texttable":
		return false
	}
	return true
}

// after a "texttable." qualifier any dot-free ASCII name is a decoration name
func autoQualOK(name string) bool {
	for i := 0; i < len(name); i++ {
		if name[i] == '.' || name[i] >= 128 {
			return false
		}
	}
	return true
}

var c17Qualifiers = []string{"texttable.", "TextTable.", "TEXTTABLE.", "tExTtAbLe."}
var c17Keywords = []string{"csv", "html", "json", "markdown", "texttable", "CSV", "Html", "jSoN", "MARKDOWN", "TextTable"}

// a world about the format keywords used as decoration names: unknown as long as nobody
// registers them (directly, through auto after a texttable qualifier), the registered
// decoration afterwards; bare, they are formats and never reach the registry
func c17KeywordWorld(r *RNG) C17Spec {
	var p []C17Op
	for i, kw := range c17Keywords {
		p = append(p, C17Op{K: "auto", P: c17Qualifiers[i%len(c17Qualifiers)], N: kw})
		if i%3 == 0 {
			p = append(p, C17Op{K: "set", N: kw}, C17Op{K: "named", N: kw})
		}
	}
	for i, kw := range c17Keywords {
		if i%2 == 0 {
			p = append(p, C17Op{K: "reg", N: kw, D: 7 + i%7})
		}
		p = append(p, C17Op{K: "auto", P: pick(r, c17Qualifiers), N: kw}, C17Op{K: "auto", P: pick(r, c17Qualifiers), N: pick(r, c17Keywords)})
	}
	p = append(p, C17Op{K: "names"}, C17Op{K: "styles"})
	for i := range c17Keywords {
		p = append(p, C17Op{K: "render", I: i})
	}
	return C17Spec{Mode: "seq", Progs: [][]C17Op{p}}
}

// a name to read: one of the pool, or one that merely resembles it
func c17ReadName(r *RNG, names []string) string {
	n := pick(r, names)
	switch r.Intn(12) {
	case 0:
		return n + "x"
	case 1:
		return n + "such"
	case 2:
		if len(n) > 0 {
			return n[:len(n)-1]
		}
	case 3:
		// the registry is case-sensitive: another case is another (unregistered) name
		if u := strings.ToUpper(n); u != n {
			return u
		}
		return strings.ToLower(n)
	case 4:
		if len(n) > 0 && n[0] >= 'a' && n[0] <= 'z' {
			return strings.ToUpper(n[:1]) + n[1:]
		}
	}
	return n
}

func c17RandOp(r *RNG, names []string, decs []int, nsets *int, conc bool) C17Op {
	k := r.Intn(100)
	switch {
	case k < 26:
		return C17Op{K: "reg", N: qname(pick(r, names)), D: pick(r, decs)}
	case k < 50:
		return C17Op{K: "named", N: qname(c17ReadName(r, names))}
	case k < 60:
		return C17Op{K: "names"}
	case k < 66:
		return C17Op{K: "styles"}
	case k < 78 || *nsets == 0:
		*nsets++
		n := c17ReadName(r, names)
		if r.Pct(12) {
			return C17Op{K: "auto", P: pick(r, c17Qualifiers), N: pick(r, c17Keywords)}
		}
		if r.Pct(25) && autoQualOK(n) {
			return C17Op{K: "auto", P: pick(r, c17Qualifiers), N: qname(n)}
		}
		if r.Bool() && autoOK(n) {
			return C17Op{K: "auto", N: qname(n)}
		}
		return C17Op{K: "set", N: qname(n)}
	case k < 86:
		return C17Op{K: "reset", I: r.Intn(*nsets), N: qname(c17ReadName(r, names))}
	case k < 92:
		return C17Op{K: "setdec", I: r.Intn(*nsets), D: pick(r, decs)}
	default:
		return C17Op{K: "render", I: r.Intn(*nsets + 1)} // may be one past the end: no such table
	}
}

// every sequence "make a table selected by n0, then L-1 operations on it" over
// 2 names (one not registered when the sequence starts, one built-in) and 2
// decorations, many sequences per world: sequence i uses its own fresh unknown
// name and its own table, so the sequences are independent up to what they
// register under the built-in name - and the registry grows well past 20 names.
func c17TableSequences(L, perWorld int, add func(C17Spec)) int {
	var prog []C17Op
	inWorld, total, tab := 0, 0, 0
	flush := func() {
		if len(prog) > 0 {
			add(C17Spec{Mode: "seq", Progs: [][]C17Op{prog}})
		}
		prog, inWorld, tab = nil, 0, 0
	}
	var rec func(seq []C17Op, unknown string)
	alpha := func(unknown string, k int) []C17Op {
		return []C17Op{
			{K: "reset", I: k, N: unknown}, {K: "reset", I: k, N: "none"},
			{K: "setdec", I: k, D: 7}, {K: "setdec", I: k, D: 10},
			{K: "reg", N: unknown, D: 7}, {K: "reg", N: unknown, D: 8}, {K: "reg", N: "none", D: 8},
			{K: "render", I: k},
		}
	}
	emit := func(first string, rest []C17Op, unknown string, route string, qual string) {
		prog = append(prog, C17Op{K: route, N: first, P: qual})
		prog = append(prog, rest...)
		// leave the built-in as it was for the next sequence
		prog = append(prog, C17Op{K: "reg", N: "none", D: 2})
		tab++
		inWorld++
		total++
		if inWorld == perWorld {
			flush()
		}
	}
	seqNo := 0
	rec = func(seq []C17Op, unknown string) {
		if len(seq) == L-1 {
			for fi, first := range []string{unknown, "none", unknown, "none"} {
				// a fresh unknown name and table index per emitted sequence; the unknown
				// names resemble registered ones (a registered name plus a suffix)
				bases := []string{"nonesuch", "utf8-lighter", "ascii-simplex", "utf8-light-curved2", "none", "u"}
				u := fmt.Sprintf("%s%d", bases[seqNo%len(bases)], seqNo)
				seqNo++
				route := "set"
				if fi >= 2 {
					route = "auto"
				}
				qual := ""
				if route == "auto" && seqNo%3 == 0 {
					qual = c17Qualifiers[seqNo%len(c17Qualifiers)]
				}
				var rest []C17Op
				for _, o := range seq {
					c := o
					if c.N == unknown {
						c.N = u
					}
					if c.K != "reg" {
						c.I = tab
					}
					rest = append(rest, c)
				}
				f := first
				if f == unknown {
					f = u
				}
				emit(f, rest, u, route, qual)
			}
			return
		}
		for _, o := range alpha(unknown, 0) {
			rec(append(append([]C17Op{}, seq...), o), unknown)
		}
	}
	rec(nil, "\x00unknown")
	flush()
	return total
}

// worlds that grow: register N names one by one (sorted positions all over the
// place), and after every registration list through both routes, look a name
// up, and list again
func c17GrowthWorld(r *RNG, n int) C17Spec {
	var p []C17Op
	var have []string
	alphabet := "abmnuz-.~0AZ"
	for i := 0; i < n; i++ {
		var name string
		switch {
		case i%7 == 3:
			name = pick(r, []string{"csv", "markdown", "zz", "a", "utf8", "none.x", "html"})
		default:
			l := 1 + r.Intn(4)
			b := make([]byte, l)
			for j := range b {
				b[j] = alphabet[r.Intn(len(alphabet))]
			}
			name = string(b)
		}
		have = append(have, name)
		p = append(p, C17Op{K: "reg", N: qname(name), D: 1 + r.Intn(13)})
		switch r.Intn(3) {
		case 0:
			p = append(p, C17Op{K: "styles"}, C17Op{K: "names"})
		case 1:
			p = append(p, C17Op{K: "names"}, C17Op{K: "styles"}, C17Op{K: "styles"}, C17Op{K: "names"})
		default:
			p = append(p, C17Op{K: "names"}, C17Op{K: "names"})
		}
		if i%3 == 2 {
			p = append(p, C17Op{K: "named", N: qname(pick(r, have))}, C17Op{K: "set", N: qname(pick(r, have))})
		}
		// what merely resembles a registered name names nothing
		for _, nm := range []string{name + "x", name + "such", name[:len(name)-1], strings.ToUpper(name), pick(r, []string{"NONE", "Utf8-light", "ASCII-SIMPLE", "None"}), pick(r, []string{"none", "utf8-light", "ascii-simple", "utf8-double"}) + pick(r, []string{"r", "d", "2", "-v2"})} {
			if r.Pct(30) && autoQualOK(nm) {
				p = append(p, C17Op{K: "auto", P: pick(r, c17Qualifiers), N: qname(nm)})
			} else if r.Bool() && autoOK(nm) {
				p = append(p, C17Op{K: "auto", N: qname(nm)})
			} else {
				p = append(p, C17Op{K: "set", N: qname(nm)})
			}
		}
	}
	p = append(p, C17Op{K: "styles"}, C17Op{K: "names"}, C17Op{K: "styles"})
	return C17Spec{Mode: "seq", Progs: [][]C17Op{p}}
}

func c17Gen(r *RNG, tier string) []json.RawMessage {
	var out []json.RawMessage
	add := func(s C17Spec) {
		s.Cold = len(out)%2 == 1 // every other world: nothing has consulted the registry before its first operation
		// the shape of the world's tables: the good table, or one of four without any column
		// (what is drawn is the frame only; the refusal of an unknown name must not depend on it)
		s.Shape = []int{0, 1, 2, 3, 4, 0, 0}[len(out)%7]
		if s.Vary {
			s.Shape = 0 // tables of their own: like the good one, with other numbers and widths
		}
		out = append(out, mustJSON(s))
	}
	// (a) every sequential history of length L over a reduced alphabet
	// (shorter ones are prefixes of these: same observations)
	alpha := []C17Op{}
	for _, n := range []string{"none", "x"} {
		for _, d := range []int{7, 0} {
			alpha = append(alpha, C17Op{K: "reg", N: n, D: d})
		}
		alpha = append(alpha, C17Op{K: "named", N: n}, C17Op{K: "set", N: n})
	}
	alpha = append(alpha, C17Op{K: "names"}, C17Op{K: "render", I: 0})
	L := 3
	if tier == "thorough" {
		L = 4
	}
	var rec func(p []C17Op)
	rec = func(p []C17Op) {
		if len(p) == L {
			add(C17Spec{Mode: "seq", Progs: [][]C17Op{append([]C17Op{}, p...)}})
			return
		}
		for _, o := range alpha {
			rec(append(p, o))
		}
	}
	rec(nil)
	// (a2) per-table sequences, exhaustively
	if tier == "thorough" {
		c17TableSequences(5, 24, add)
	} else {
		c17TableSequences(4, 24, add)
	}
	// (a3) growing worlds
	growth := []int{4, 8, 14, 22, 9, 16}
	if tier == "thorough" {
		growth = []int{4, 8, 14, 22, 9, 16, 30, 40, 12, 18, 26, 35, 5, 6, 7, 10, 11, 13}
	}
	for _, n := range growth {
		add(c17GrowthWorld(r, n))
	}
	add(c17KeywordWorld(r))
	add(c17KeywordWorld(r))
	// (a4) names of every length, over four alphabets (c17_r6.go)
	c17NameWorlds(r, tier, add)
	// (b) random sequential histories over more names and the whole palette
	nseq := 150
	if tier == "thorough" {
		nseq = 2000
	}
	allDecs := []int{0, 1, 2, 3, 4, 5, 6, 7, 8, 9, 10, 11, 12, 13}
	for i := 0; i < nseq; i++ {
		n := 4 + r.Intn(12)
		nsets := 0
		var p []C17Op
		names := c17Names[:2+r.Intn(len(c17Names)-1)]
		for j := 0; j < n; j++ {
			p = append(p, c17RandOp(r, names, allDecs, &nsets, false))
		}
		add(C17Spec{Mode: "seq", Progs: [][]C17Op{p}, Vary: i%4 == 3})
	}
	// (c) concurrent runs
	nconc, gmin, gmax, omin, omax := 12, 4, 8, 40, 90
	if tier == "thorough" {
		nconc, gmin, gmax, omin, omax = 40, 4, 16, 50, 250
	}
	for i := 0; i < nconc; i++ {
		g := gmin + r.Intn(gmax-gmin+1)
		nops := omin + r.Intn(omax-omin+1)
		if g*nops > 1200 { // the checker is quadratic in the history
			nops = 1200 / g
		}
		names := c17Names[:2+r.Intn(len(c17Names)-1)]
		decs := allDecs[r.Intn(2):]
		// every other concurrent world: tables of their own (no two goroutines draw the same
		// widths) and some long names in the pool
		vary := i%2 == 0
		if vary {
			names = c17LongPool(r, names)
		}
		var progs [][]C17Op
		if i%3 == 2 {
			// registration bursts: half of the goroutines register NEW names of their own, one after
			// the other, the rest list and look up all the time: no listing may lose a name whose
			// registration was over, no registration may be lost
			var all []string
			for k := 0; k < g/2+1; k++ {
				var p []C17Op
				for j := 0; j < nops/3; j++ {
					nm := fmt.Sprintf("w%d-%c%d", k, 'a'+byte((j*7+k)%26), j)
					if vary {
						nm += strings.Repeat("=", (j*29+k*11)%150) // names of many lengths
					}
					all = append(all, nm)
					p = append(p, C17Op{K: "reg", N: qname(nm), D: 1 + (j+k)%13})
				}
				progs = append(progs, p)
			}
			for k := g/2 + 1; k < g; k++ {
				var p []C17Op
				for j := 0; j < nops/4; j++ {
					switch r.Intn(4) {
					case 0:
						p = append(p, C17Op{K: "styles"})
					case 1:
						p = append(p, C17Op{K: "named", N: qname(pick(r, all))})
					default:
						p = append(p, C17Op{K: "names"})
					}
				}
				progs = append(progs, p)
			}
			add(C17Spec{Mode: "conc", Progs: progs, Vary: vary})
			continue
		}
		for k := 0; k < g; k++ {
			nsets := 0
			var p []C17Op
			for j := 0; j < nops; j++ {
				o := c17RandOp(r, names, decs, &nsets, true)
				if o.K == "render" {
					o = C17Op{K: "named", N: qname(pick(r, names))}
				}
				p = append(p, o)
			}
			progs = append(progs, p)
		}
		add(C17Spec{Mode: "conc", Progs: progs, Vary: vary})
	}
	prefetchChildren("C17worker", out, 12)
	return out
}

func c17Shrink(spec json.RawMessage) []json.RawMessage {
	var sp C17Spec
	if err := json.Unmarshal(spec, &sp); err != nil {
		return nil
	}
	var out []json.RawMessage
	clone := func() C17Spec {
		var c C17Spec
		json.Unmarshal(mustJSON(sp), &c)
		return c
	}
	if len(sp.Progs) > 2 || (sp.Mode == "seq" && len(sp.Progs) > 1) {
		for g := range sp.Progs {
			c := clone()
			c.Progs = append(c.Progs[:g], c.Progs[g+1:]...)
			out = append(out, mustJSON(c))
		}
	}
	for g, p := range sp.Progs {
		if len(p) > 8 {
			c := clone()
			c.Progs[g] = c.Progs[g][:len(p)/2]
			out = append(out, mustJSON(c))
			c2 := clone()
			c2.Progs[g] = c2.Progs[g][len(p)/2:]
			out = append(out, mustJSON(c2))
			// drop one eighth at a time (a failing sequence may straddle the middle)
			w := len(p) / 8
			if w < 1 {
				w = 1
			}
			for lo := 0; lo < len(p); lo += w {
				hi := lo + w
				if hi > len(p) {
					hi = len(p)
				}
				c3 := clone()
				c3.Progs[g] = append(append([]C17Op{}, p[:lo]...), p[hi:]...)
				out = append(out, mustJSON(c3))
			}
			continue
		}
		for i := range p {
			c := clone()
			c.Progs[g] = append(c.Progs[g][:i], c.Progs[g][i+1:]...)
			out = append(out, mustJSON(c))
		}
	}
	prefetchChildren("C17worker", out, 12)
	return out
}

func init() {
	register(&Prop{
		ID:       "C17",
		Imports:  "From Tab Require Import Run.Glue Run.C17Run.",
		CaseType: "c17_case",
		CaseFn:   "C17_case",
		ModelFn:  "C17_model",
		Rule: "registry worlds, one child process each (the registry is process-global); all tables of a world have one shape - the good table (3 worlds in 7) or one without any column " +
			"(no rows; separators only; a row left empty; rows of no items: 1 in 7 each) - and every Render is cross-checked with RenderTo, every auto.New/auto.Wrap with auto.Render and auto.RenderTo (sequential worlds); " +
			"names are also asked in another case (the registry is case-sensitive): every sequential history of the enumerated length over " +
			"{reg n d, named n, set n | n in {none (built-in), x}, d in {a complete decoration, EmptyDecoration}} + names + render 0; every per-table sequence " +
			"'select by name (SetDecorationNamed or auto.New; the unknown name is a registered name plus a suffix), then 3 (thorough 4) of {SetDecorationNamed(unknown|built-in), SetDecoration(complete|field-by-field), Register(unknown,d|d'), Register(built-in,d'), Render}' " +
			"(24 sequences per world, fresh unknown name and table each); worlds growing to 4-22 (thorough 40) registered names with RegisteredDecorationNames / auto.ListStyles " +
			"after every registration; two worlds about the format keywords as decoration names (auto.New(\"TextTable.CSV\") names a decoration, unknown until registered); selections of names that merely resemble registered ones (n+x, n+such, n minus its last byte), directly and through auto.New; every other world is cold " +
			"(its first operation is the first thing the process asks of the registry; initial content taken to be the six documented built-ins); random sequential histories (4-15 ops, up to 8 names incl. a built-in, the empty string, a dotted name and a 0xFF byte, a palette of 14 decorations: " +
			"Empty, the 6 built-ins, 3 Populate()d ones, 4 written field by field without Populate); concurrent runs of 4-8 " +
			"(thorough 4-16) goroutines x 40-90 (50-250) ops with atomic-counter time stamps (every third run: half of the goroutines register new names of their own while the others list), " +
			"read-back of every name after the join, two passes judged on the spot (listings under fire: 3 goroutines registering 160 fresh names each while 3 list in a tight loop; " +
			"lookups under fire: 2 goroutines overwriting their own name with 1,500 versioned decorations while 4 look the names up, each result checked against the versions whose registration had returned / could have started, " +
			"and after the join every route must see the last version), and three unstamped passes for the race detector (the last two registering fresh names, every listing checked for the names that were there when the pass began); " +
			"every listing the library returns is overwritten, extended within its capacity and reversed after it was recorded; " +
			"name worlds (round 6): names of every length 0-130 (thorough 0-300) and 2^k-1, 2^k, 2^k+1 up to 2^12 (thorough 2^14) bytes, ten lengths per world, over four alphabets (one repeated letter: the names are prefixes of each other; arbitrary bytes; ASCII words; UTF-8 cut anywhere), " +
			"each looked up and selected through every route before and after its registration, with the names that resemble it (same length with the first/middle/last byte changed, one byte longer, one shorter), overwritten, listed and read back; long names also in every other concurrent world and in the passes under fire; " +
			"'vary' worlds (every other concurrent world, every fourth random history, every third name world): each table has a content of its own (2-4 columns, 1-3 rows, widths 1-251, a function of pass, goroutine and table number), outputs named after the join by the direct rendering of the same content; " +
			"every concurrent world also has a pass 'renders by name under fire' (6 goroutines x 14 tables of their own, selected by every registered name and an unregistered one through SetDecorationNamed / auto.New / auto.Wrap, rendered twice, nobody registering, no synchronisation in the harness; every output judged after the join against the direct rendering with the decoration the name held); " +
			"the harness is built with -race and a race report in the child is part of the observation; a case is non-trivial when it both registers and reads; distinct = distinct specs",
		Exhaustive: "all sequential histories of length 3 (thorough: 4) over the 10-operation alphabet (every shorter history is a prefix of one of them); all 2,048 (thorough 16,384) per-table sequences of length 4 (5) over the 8-operation table alphabet x 2 first names x 2 routes (SetDecorationNamed, auto.New)",
		Gen:        c17Gen,
		Run:        c17Run,
		Shrink:     c17Shrink,
	})
}
