package main

// C17: the decoration registry under concurrency; fails closed.
//
// A spec is a list of per-goroutine programs over
//   reg n d | named n | names | set n | render i
// (set n = texttable.Wrap(good table) + SetDecorationNamed(n) + Render();
// render i = Render() again on the i-th table this goroutine made).  Mode
// "seq" has one program, run in order; mode "conc" runs the programs
// concurrently, every operation stamped from one atomic counter before it
// starts and after it returned (so "a ended before b started" is exactly
// end(a) < start(b)), then reads every name back after the join; afterwards
// the same programs run once more with no stamps at all, so that the race
// detector sees them without the happens-before edges the counter adds.

import (
	"encoding/json"
	"fmt"
	"os"
	"sort"
	"strings"
	"sync"
	"sync/atomic"

	"go.pennock.tech/tabular/texttable"
	"go.pennock.tech/tabular/texttable/decoration"
)

type C17Op struct {
	K string `json:"k"` // reg named names set render
	N string `json:"n,omitempty"`
	D int    `json:"d,omitempty"`
	I int    `json:"i,omitempty"`
}

type C17Spec struct {
	Mode  string    `json:"mode"` // seq | conc
	Progs [][]C17Op `json:"progs"`
}

type C17Ev struct {
	G      int      `json:"g"`
	Op     C17Op    `json:"op"`
	Dec    int      `json:"dec,omitempty"`
	Names  []string `json:"names,omitempty"`
	SetErr bool     `json:"seterr,omitempty"`
	R      *RRes    `json:"r,omitempty"`
	S      int64    `json:"s"`
	E      int64    `json:"e"`
}

type C17Out struct {
	Init   []InitEnt `json:"init"`
	Events []C17Ev   `json:"events"`
	RawBad string    `json:"rawbad,omitempty"`
}

type c17op struct {
	C17Op
	name string
}

func c17Exec(op c17op, tabs *[]*texttable.TextTable) (ev C17Ev) {
	ev.Op = op.C17Op
	switch op.K {
	case "reg":
		decoration.RegisterDecorationName(op.name, regPalette[op.D])
	case "named":
		ev.Dec = decID(decoration.Named(op.name))
	case "names":
		l := decoration.RegisteredDecorationNames()
		ev.Names = make([]string, len(l))
		for i, n := range l {
			ev.Names[i] = qname(n)
		}
	case "set":
		tt := texttable.Wrap(goodTable())
		_, err := tt.SetDecorationNamed(op.name)
		ev.SetErr = err != nil
		r := renderRes(tt.Render, outToID)
		ev.R = &r
		*tabs = append(*tabs, tt)
	case "render":
		if op.I >= 0 && op.I < len(*tabs) {
			r := renderRes((*tabs)[op.I].Render, outToID)
			ev.R = &r
		}
	default:
		panic("unknown op " + op.K)
	}
	return ev
}

func c17Decode(progs [][]C17Op) [][]c17op {
	out := make([][]c17op, len(progs))
	for g, p := range progs {
		for _, o := range p {
			if o.K == "reg" && (o.D < 0 || o.D >= len(regPalette)) {
				panic("decoration index out of range")
			}
			out[g] = append(out[g], c17op{o, unq(o.N)})
		}
	}
	return out
}

func c17Worker() {
	paletteInit()
	var spec C17Spec
	if err := json.NewDecoder(os.Stdin).Decode(&spec); err != nil {
		panic(err)
	}
	progs := c17Decode(spec.Progs)
	out := C17Out{Init: dumpRegistry()}
	var clock int64
	if spec.Mode == "seq" {
		for g, p := range progs {
			var tabs []*texttable.TextTable
			for _, o := range p {
				s := atomic.AddInt64(&clock, 1)
				ev := c17Exec(o, &tabs)
				ev.G, ev.S, ev.E = g, s, atomic.AddInt64(&clock, 1)
				out.Events = append(out.Events, ev)
			}
		}
		json.NewEncoder(os.Stdout).Encode(out)
		return
	}
	// ---- stamped concurrent phase
	per := make([][]C17Ev, len(progs))
	start := make(chan struct{})
	var wg sync.WaitGroup
	for g := range progs {
		wg.Add(1)
		go func(g int) {
			defer wg.Done()
			var tabs []*texttable.TextTable
			evs := make([]C17Ev, 0, len(progs[g]))
			<-start
			for _, o := range progs[g] {
				s := atomic.AddInt64(&clock, 1)
				ev := c17Exec(o, &tabs)
				ev.E = atomic.AddInt64(&clock, 1)
				ev.G, ev.S = g, s
				evs = append(evs, ev)
			}
			per[g] = evs
		}(g)
	}
	close(start)
	wg.Wait()
	for _, evs := range per {
		out.Events = append(out.Events, evs...)
	}
	// after the join: read everything back (events of a pseudo goroutine)
	universe := map[string]bool{}
	for _, e := range out.Init {
		universe[unq(e.N)] = true
	}
	for _, p := range progs {
		for _, o := range p {
			if o.K != "names" && o.K != "render" {
				universe[o.name] = true
			}
		}
	}
	var uni []string
	for n := range universe {
		uni = append(uni, n)
	}
	sort.Strings(uni)
	var none []*texttable.TextTable
	for _, n := range uni {
		s := atomic.AddInt64(&clock, 1)
		ev := c17Exec(c17op{C17Op{K: "named", N: qname(n)}, n}, &none)
		ev.G, ev.S, ev.E = len(progs), s, atomic.AddInt64(&clock, 1)
		out.Events = append(out.Events, ev)
	}
	{
		s := atomic.AddInt64(&clock, 1)
		ev := c17Exec(c17op{C17Op{K: "names"}, ""}, &none)
		ev.G, ev.S, ev.E = len(progs), s, atomic.AddInt64(&clock, 1)
		out.Events = append(out.Events, ev)
	}
	// ---- raw phase: same programs, no stamps, nothing shared but the registry
	allowed := map[string]map[int]bool{}
	allow := func(n string, d int) {
		if allowed[n] == nil {
			allowed[n] = map[int]bool{}
		}
		allowed[n][d] = true
	}
	for _, n := range uni {
		allow(n, decID(decoration.Named(n)))
	}
	for _, p := range progs {
		for _, o := range p {
			if o.K == "reg" {
				allow(o.name, o.D)
			}
		}
	}
	raw := make([][]C17Ev, len(progs))
	start2 := make(chan struct{})
	for g := range progs {
		wg.Add(1)
		go func(g int) {
			defer wg.Done()
			var tabs []*texttable.TextTable
			evs := make([]C17Ev, 0, len(progs[g]))
			<-start2
			for _, o := range progs[g] {
				evs = append(evs, c17Exec(o, &tabs))
			}
			raw[g] = evs
		}(g)
	}
	close(start2)
	wg.Wait()
	for g, evs := range raw {
		for i, ev := range evs {
			o := progs[g][i]
			switch o.K {
			case "named":
				if !allowed[o.name][ev.Dec] {
					out.RawBad = fmt.Sprintf("unstamped phase: goroutine %d op %d Named(%q) returned decoration %d, never registered under that name", g, i, o.name, ev.Dec)
				}
			case "names":
				if !sort.StringsAreSorted(ev.Names) {
					// quoted forms sort like the raw ones only for plain ASCII; re-check on raw
					rawNames := make([]string, len(ev.Names))
					for k, q := range ev.Names {
						rawNames[k] = unq(q)
					}
					if !sort.StringsAreSorted(rawNames) {
						out.RawBad = fmt.Sprintf("unstamped phase: goroutine %d op %d listing not sorted", g, i)
					}
				}
			}
		}
	}
	json.NewEncoder(os.Stdout).Encode(out)
}

func init() {
	if len(os.Args) > 1 && os.Args[1] == "C17worker" {
		c17Worker()
		os.Exit(0)
	}
}

// ---------------------------------------------------------------- Coq terms

func c17OpCoq(nt *nameTable, o C17Op) string {
	switch o.K {
	case "reg":
		return fmt.Sprintf("(OReg %s %s)", nt.ref(unq(o.N)), cqDec(o.D))
	case "named":
		return "(ONamed " + nt.ref(unq(o.N)) + ")"
	case "names":
		return "ONames"
	case "set":
		return "(OSet " + nt.ref(unq(o.N)) + ")"
	case "render":
		return "(ORender " + cqNat(o.I) + ")"
	}
	panic("op")
}

func c17ObsCoq(nt *nameTable, ev C17Ev) string {
	switch ev.Op.K {
	case "reg":
		return "VUnit"
	case "named":
		return "(VDec " + cqDec(ev.Dec) + ")"
	case "names":
		var l []string
		for _, q := range ev.Names {
			l = append(l, nt.ref(unq(q)))
		}
		return "(VNames " + cqList(l) + ")"
	case "set":
		return "(VSet " + cqBool(ev.SetErr) + " " + ev.R.Coq() + ")"
	case "render":
		if ev.R == nil {
			return "VNone"
		}
		return "(VRender " + ev.R.Coq() + ")"
	}
	panic("obs")
}

func c17InitCoq(nt *nameTable, init []InitEnt) string {
	var l []string
	for _, e := range init {
		l = append(l, cqPair(nt.ref(unq(e.N)), cqDec(e.D)))
	}
	return cqList(l)
}

type c17Desc struct {
	Sig    string      `json:"sig"`
	Race   bool        `json:"race"`
	Crash  bool        `json:"crash,omitempty"`
	Report string      `json:"report,omitempty"`
	RawBad string      `json:"rawbad,omitempty"`
	Init   []InitEnt   `json:"init,omitempty"`
	Events interface{} `json:"events,omitempty"`
}

func c17Run(spec json.RawMessage) CaseOut {
	paletteInit()
	var sp C17Spec
	if err := json.Unmarshal(spec, &sp); err != nil {
		panic(err)
	}
	cr := childFor("C17worker", spec)
	var out C17Out
	desc := c17Desc{Race: cr.Race, Crash: cr.Crash}
	if !cr.Race && !cr.Crash {
		if err := json.Unmarshal(cr.Stdout, &out); err != nil {
			cr.Crash = true
			desc.Crash = true
			cr.Stderr += "\nunparsable worker output: " + err.Error()
		}
	}
	if cr.Race {
		desc.Sig = "data-race"
		desc.Report = trunc(cr.Stderr, 6000)
	} else if cr.Crash {
		desc.Sig = "worker-crash"
		desc.Report = trunc(cr.Stderr, 6000)
	}
	if out.RawBad != "" {
		desc.RawBad = out.RawBad
		if desc.Sig == "" {
			desc.Sig = "unstamped-phase"
		}
	}
	desc.Init = out.Init
	if len(out.Events) <= 60 {
		desc.Events = out.Events
	} else {
		desc.Events = fmt.Sprintf("%d events (re-run with --replay to see them)", len(out.Events))
	}
	nt := newNameTable()
	var evs []string
	nOps, nReg, nRead := 0, 0, 0
	for _, ev := range out.Events {
		evs = append(evs, fmt.Sprintf("(Ev %s %s %s %s %s)", cqNat(ev.G), c17OpCoq(nt, ev.Op), c17ObsCoq(nt, ev), cqN(uint64(ev.S)), cqN(uint64(ev.E))))
	}
	for _, p := range sp.Progs {
		for _, o := range p {
			nOps++
			switch o.K {
			case "reg":
				nReg++
			case "named", "set":
				nRead++
			}
		}
	}
	initC := c17InitCoq(nt, out.Init)
	bad := cr.Race || cr.Crash || out.RawBad != ""
	body := fmt.Sprintf("mkC17 %s %s %s [\n   %s]", cqBool(sp.Mode == "seq"), cqBool(bad), initC, strings.Join(evs, ";\n   "))
	tags := []string{"mode=" + sp.Mode, fmt.Sprintf("goroutines=%d", len(sp.Progs))}
	switch {
	case nOps <= 3:
		tags = append(tags, "ops<=3")
	case nOps <= 12:
		tags = append(tags, "ops<=12")
	case nOps <= 200:
		tags = append(tags, "ops<=200")
	default:
		tags = append(tags, "ops>200")
	}
	for _, p := range sp.Progs {
		for _, o := range p {
			if o.K == "reg" && o.D == 0 {
				tags = append(tags, "registers-empty-decoration")
			}
		}
	}
	tags = uniq(tags)
	if cr.Race {
		tags = append(tags, "race-report")
	}
	return CaseOut{
		Coq:        nt.wrap(body),
		Desc:       desc,
		Size:       nOps + len(sp.Progs),
		Tags:       tags,
		Key:        string(spec),
		Nontrivial: nReg > 0 && nRead > 0,
	}
}

func uniq(xs []string) []string {
	seen := map[string]bool{}
	var out []string
	for _, x := range xs {
		if !seen[x] {
			seen[x] = true
			out = append(out, x)
		}
	}
	return out
}

// ---------------------------------------------------------------- generator

var c17Names = []string{"none", "x", "utf8-light", "y.z", "", "X", "\xff", "zz"}

func c17RandOp(r *RNG, names []string, decs []int, nsets *int, conc bool) C17Op {
	k := r.Intn(100)
	switch {
	case k < 30:
		return C17Op{K: "reg", N: qname(pick(r, names)), D: pick(r, decs)}
	case k < 60:
		return C17Op{K: "named", N: qname(pick(r, names))}
	case k < 72:
		return C17Op{K: "names"}
	case k < 90 || *nsets == 0:
		*nsets++
		return C17Op{K: "set", N: qname(pick(r, names))}
	default:
		return C17Op{K: "render", I: r.Intn(*nsets + 1)} // may be one past the end: no such table
	}
}

func c17Gen(r *RNG, tier string) []json.RawMessage {
	var out []json.RawMessage
	add := func(s C17Spec) { out = append(out, mustJSON(s)) }
	// (a) every sequential history of length L over a reduced alphabet
	// (shorter ones are prefixes of these: same observations)
	alpha := []C17Op{}
	for _, n := range []string{"none", "x"} {
		for _, d := range []int{7, 0} {
			alpha = append(alpha, C17Op{K: "reg", N: n, D: d})
		}
		alpha = append(alpha, C17Op{K: "named", N: n}, C17Op{K: "set", N: n})
	}
	alpha = append(alpha, C17Op{K: "names"}, C17Op{K: "render", I: 0})
	L := 3
	if tier == "thorough" {
		L = 4
	}
	var rec func(p []C17Op)
	rec = func(p []C17Op) {
		if len(p) == L {
			add(C17Spec{Mode: "seq", Progs: [][]C17Op{append([]C17Op{}, p...)}})
			return
		}
		for _, o := range alpha {
			rec(append(p, o))
		}
	}
	rec(nil)
	// (b) random sequential histories over more names and the whole palette
	nseq := 150
	if tier == "thorough" {
		nseq = 2000
	}
	allDecs := []int{0, 1, 2, 3, 4, 5, 6, 7, 8, 9}
	for i := 0; i < nseq; i++ {
		n := 4 + r.Intn(12)
		nsets := 0
		var p []C17Op
		names := c17Names[:2+r.Intn(len(c17Names)-1)]
		for j := 0; j < n; j++ {
			p = append(p, c17RandOp(r, names, allDecs, &nsets, false))
		}
		add(C17Spec{Mode: "seq", Progs: [][]C17Op{p}})
	}
	// (c) concurrent runs
	nconc, gmin, gmax, omin, omax := 12, 4, 8, 40, 90
	if tier == "thorough" {
		nconc, gmin, gmax, omin, omax = 40, 4, 16, 50, 250
	}
	for i := 0; i < nconc; i++ {
		g := gmin + r.Intn(gmax-gmin+1)
		nops := omin + r.Intn(omax-omin+1)
		if g*nops > 1200 { // the checker is quadratic in the history
			nops = 1200 / g
		}
		names := c17Names[:2+r.Intn(len(c17Names)-1)]
		decs := allDecs[r.Intn(2):]
		var progs [][]C17Op
		for k := 0; k < g; k++ {
			nsets := 0
			var p []C17Op
			for j := 0; j < nops; j++ {
				o := c17RandOp(r, names, decs, &nsets, true)
				if o.K == "render" {
					o = C17Op{K: "named", N: qname(pick(r, names))}
				}
				p = append(p, o)
			}
			progs = append(progs, p)
		}
		add(C17Spec{Mode: "conc", Progs: progs})
	}
	prefetchChildren("C17worker", out, 12)
	return out
}

func c17Shrink(spec json.RawMessage) []json.RawMessage {
	var sp C17Spec
	if err := json.Unmarshal(spec, &sp); err != nil {
		return nil
	}
	var out []json.RawMessage
	clone := func() C17Spec {
		var c C17Spec
		json.Unmarshal(mustJSON(sp), &c)
		return c
	}
	if len(sp.Progs) > 2 || (sp.Mode == "seq" && len(sp.Progs) > 1) {
		for g := range sp.Progs {
			c := clone()
			c.Progs = append(c.Progs[:g], c.Progs[g+1:]...)
			out = append(out, mustJSON(c))
		}
	}
	for g, p := range sp.Progs {
		if len(p) > 8 {
			c := clone()
			c.Progs[g] = c.Progs[g][:len(p)/2]
			out = append(out, mustJSON(c))
			c2 := clone()
			c2.Progs[g] = c2.Progs[g][len(p)/2:]
			out = append(out, mustJSON(c2))
			continue
		}
		for i := range p {
			c := clone()
			c.Progs[g] = append(c.Progs[g][:i], c.Progs[g][i+1:]...)
			out = append(out, mustJSON(c))
		}
	}
	prefetchChildren("C17worker", out, 12)
	return out
}

func init() {
	register(&Prop{
		ID:       "C17",
		Imports:  "From Tab Require Import Run.Glue Run.C17Run.",
		CaseType: "c17_case",
		CaseFn:   "C17_case",
		ModelFn:  "C17_model",
		Rule: "registry worlds, one child process each (the registry is process-global): every sequential history of the enumerated length over " +
			"{reg n d, named n, set n | n in {none (built-in), x}, d in {a complete decoration, EmptyDecoration}} + names + render 0; random sequential histories " +
			"(4-15 ops, up to 8 names incl. a built-in, the empty string, a dotted name and a 0xFF byte, the whole palette of 10 decorations); concurrent runs of 4-8 " +
			"(thorough 4-16) goroutines x 40-90 (50-250) ops with atomic-counter time stamps, read-back of every name after the join, and an unstamped second pass for the race detector; " +
			"the harness is built with -race and a race report in the child is part of the observation; a case is non-trivial when it both registers and reads; distinct = distinct specs",
		Exhaustive: "all sequential histories of length 3 (thorough: 4) over the 10-operation alphabet above (every shorter history is a prefix of one of them)",
		Gen:        c17Gen,
		Run:        c17Run,
		Shrink:     c17Shrink,
	})
}
