package main

// C03, histories of renders whose render-time callbacks CHANGE cells: an
// application callback (registered on the table, a column, a row or the cell
// itself, for any of the three render times, before or after texttable.Wrap)
// gives the item of the cell it is handed its next content and calls
// Cell.Update - as the Cell documentation asks of whoever mutates an item.
// The table is rendered several times through ONE wrapper; every render is
// observed.  What each render must show is decided in Coq from the input alone
// (Spec/TextPassSpec.v: every cell as the last measuring callback of that
// render found it); the harness only carries out the history.

import (
	"encoding/json"
	"fmt"
	"sort"
	"strings"

	"go.pennock.tech/tabular"
	"go.pennock.tech/tabular/length"
	"go.pennock.tech/tabular/texttable"
)

// LiveCell: the successive contents of a cell's item; one state = an ordinary
// string item, more = a mutable Stringer that an application callback advances.
type LiveCell struct {
	States [][]byte `json:"states"`
	Q      []string `json:"q,omitempty"` // human-readable preview
}

// How: 0 AddRowItems; 1 NewRow, Add..., AddRow; 3 NewRowSizedFor, Add..., AddRow
type LiveRow struct {
	Sep   bool       `json:"sep,omitempty"`
	How   int        `json:"how,omitempty"`
	Cells []LiveCell `json:"cells"`
}

// LiveReg: one registration, in registration order.  Measure: texttable.Wrap
// is called here (the first such wrapper, given the decoration, is the one
// rendered; further ones are other text wrappers on the same table).
// Otherwise an application callback on cells: Owner 0 the table, 1 column N
// (0 = the defaults column), 2 row N (1 = AllRows()[0]; the header row, 0, has
// no handle), 3 the cell at row N (0 = header) and 0-based position C;
// Time 0 pre-cell, 1 render, 2 post-cell.
//
// Variants that name the same callback list another way: Local (a body cell's
// own callback): registered on the local Cell value before Row.Add copies it
// into its row (the row is then built with NewRow / Add / AddRow); Itself (a
// cell's own): target CB_ON_ITSELF instead of CB_ON_CELL; Via (table-wide):
// the text wrapper, once made, is named as the owner instead of the table.
type LiveReg struct {
	Measure bool `json:"measure,omitempty"`
	Owner   int  `json:"owner,omitempty"`
	N       int  `json:"n,omitempty"`
	C       int  `json:"c,omitempty"`
	Time    int  `json:"time,omitempty"`
	Local   bool `json:"local,omitempty"`
	Itself  bool `json:"itself,omitempty"`
	Via     bool `json:"via,omitempty"`
}

type LiveSpec struct {
	Header  *[]LiveCell `json:"header"`
	Rows    []LiveRow   `json:"rows"`
	Regs    []LiveReg   `json:"regs"`
	Renders int         `json:"renders"`
	Dec     DecSpec     `json:"dec"`
	// EarlyWrap: the leading registrations that need nothing but the table
	// (wrappers, table-wide callbacks) are made before anything is built.
	EarlyWrap bool `json:"early_wrap,omitempty"`
	// RenderVia: which of the text wrappers (in the order they were made) is
	// the one rendered; all are given the decoration.
	RenderVia int `json:"render_via,omitempty"`
}

type c03Spec struct {
	Live *LiveSpec `json:"live,omitempty"`
}

func live(states ...string) LiveCell {
	lc := LiveCell{}
	for _, s := range states {
		lc.States = append(lc.States, []byte(s))
		lc.Q = append(lc.Q, fmt.Sprintf("%q", s))
	}
	return lc
}

type liveItem struct {
	od     *objData
	states [][]byte
	pos    int
}

// liveCB is the application's callback: the item of the cell it is given gets
// its next content (if it has one), and the cell is updated.
type liveCB struct{ items map[interface{}]*liveItem }

func (cb liveCB) UpdateProperties(po tabular.PropertyOwner) error {
	cell, ok := po.(*tabular.Cell)
	if !ok || cell == nil {
		return nil
	}
	if _, isStr := cell.Item().(string); !isStr {
		if li := cb.items[cell.Item()]; li != nil && li.pos+1 < len(li.states) {
			li.pos++
			li.od.s = string(li.states[li.pos])
		}
	}
	cell.Update()
	return nil
}

func (ls LiveSpec) ncols() int {
	n := 0
	if ls.Header != nil {
		n = len(*ls.Header)
	}
	for _, r := range ls.Rows {
		if !r.Sep && len(r.Cells) > n {
			n = len(r.Cells)
		}
	}
	return n
}

// the successive contents of a cell as the view cells a fresh Cell of each
// would be (text, widest line under the library's per-line measure, number of
// lines) - computed from the spec alone
func liveStates(c LiveCell) []VCell {
	if len(c.States) == 0 {
		c = live("")
	}
	items := make([]ItemSpec, len(c.States))
	for i, s := range c.States {
		items[i] = Str(string(s))
	}
	v := TableSpec{Rows: []RowSpec{{Cells: items}}}.SpecView()
	return *v.Rows[0]
}

func decInDomain(dd decDump) bool {
	complete, empty := true, true
	for _, f := range dd.fields {
		if f == "" {
			complete = false
		} else {
			empty = false
			if length.StringCells(f) != 1 {
				complete = false
			}
		}
	}
	return complete || (empty && dd.boxless)
}

func wtabCoq(keys map[string]bool) string {
	ks := make([]string, 0, len(keys))
	for k := range keys {
		ks = append(ks, k)
	}
	sort.Strings(ks)
	byW := map[int][]string{}
	var wsOrder []int
	for _, k := range ks {
		if strings.Contains(k, "\n") {
			panic("oracle key contains LF")
		}
		w := length.StringCells(k)
		if _, ok := byW[w]; !ok {
			wsOrder = append(wsOrder, w)
		}
		byW[w] = append(byW[w], k)
	}
	sort.Ints(wsOrder)
	ws := make([]string, len(wsOrder))
	for i, w := range wsOrder {
		ws[i] = cqPair(cqNat(w), cqStr(strings.Join(byW[w], "\n")))
	}
	return "(WT " + cqList(ws) + ")"
}

var liveTimes = []string{"TPre", "TRender", "TPost"}

func runLive(ls LiveSpec) CaseOut {
	if ls.Renders < 1 {
		ls.Renders = 1
	}
	// the wrapper to render is made by the first Measure registration
	hasMeasure := false
	for _, g := range ls.Regs {
		hasMeasure = hasMeasure || g.Measure
	}
	if !hasMeasure {
		ls.Regs = append([]LiveReg{{Measure: true}}, ls.Regs...)
	}
	t := tabular.New()
	d, _ := ls.Dec.build()
	dd := dumpDecoration(d)
	items := map[interface{}]*liveItem{}
	cb := liveCB{items}
	mk := func(cs []LiveCell) []interface{} {
		out := make([]interface{}, len(cs))
		for i, c := range cs {
			switch len(c.States) {
			case 0:
				out[i] = ""
			case 1:
				out[i] = string(c.States[0])
			default:
				v, od := newObj(1, objData{s: string(c.States[0])})
				items[v] = &liveItem{od: od, states: c.States}
				out[i] = v
			}
		}
		return out
	}
	var tt *texttable.TextTable // the first text wrapper made
	var wrappers []*texttable.TextTable
	var regs []string
	var tags []string
	measured := false
	var register func(g LiveReg, local *tabular.Cell)
	register = func(g LiveReg, local *tabular.Cell) {
		if g.Measure {
			w := texttable.Wrap(t).SetDecoration(d)
			wrappers = append(wrappers, w)
			if tt == nil {
				tt = w
			} else {
				tags = append(tags, "live-reg=second-text-wrapper")
			}
			measured = true
			regs = append(regs, "mkReg OwTable TRender AMeasure")
			return
		}
		if g.Time < 0 || g.Time > 2 {
			return
		}
		var owner tabular.PropertyOwner
		var coqOwner, kind string
		switch g.Owner {
		case 0:
			owner, coqOwner, kind = t, "OwTable", "table"
			if g.Via && tt != nil {
				owner, kind = tt, "table(wrapper-named-as-owner)"
			}
		case 1:
			col := t.Column(g.N)
			if col == nil {
				return
			}
			owner, coqOwner, kind = col, fmt.Sprintf("(OwColumn %s)", cqNat(g.N)), "column"
			if g.N == 0 {
				kind = "defaults-column(never-invoked)"
			}
		case 2:
			rows := t.AllRows()
			if g.N < 1 || g.N > len(rows) {
				return
			}
			owner, coqOwner, kind = rows[g.N-1], fmt.Sprintf("(OwRow %s)", cqNat(g.N)), "row"
		case 3:
			if g.C < 0 {
				return
			}
			if local != nil {
				owner = local
			} else if g.N == 0 {
				h := t.Headers()
				if g.C >= len(h) {
					return
				}
				owner = &h[g.C]
			} else {
				c, err := t.CellAt(tabular.CellLocation{Row: g.N, Column: g.C + 1})
				if err != nil {
					return
				}
				owner = c
			}
			coqOwner, kind = fmt.Sprintf("(OwCell %s %s)", cqNat(g.N), cqNat(g.C)), "cell"
			if g.Time != 1 {
				kind = "cell(never-invoked)"
			}
			if local != nil {
				kind += "(on-the-local-value-before-Row.Add)"
			}
		default:
			return
		}
		var err error
		switch {
		case g.Owner == 3 && g.Itself && g.Time == 0:
			err = t.RegisterPropertyCallback(owner, tabular.CB_AT_RENDER_PRECELL, tabular.CB_ON_ITSELF, cb)
		case g.Owner == 3 && g.Itself && g.Time == 1:
			err = t.RegisterPropertyCallback(owner, tabular.CB_AT_RENDER, tabular.CB_ON_ITSELF, cb)
		case g.Owner == 3 && g.Itself && g.Time == 2:
			err = t.RegisterPropertyCallback(owner, tabular.CB_AT_RENDER_POSTCELL, tabular.CB_ON_ITSELF, cb)
		case g.Time == 0:
			err = t.RegisterPropertyCallback(owner, tabular.CB_AT_RENDER_PRECELL, tabular.CB_ON_CELL, cb)
		case g.Time == 1:
			err = t.RegisterPropertyCallback(owner, tabular.CB_AT_RENDER, tabular.CB_ON_CELL, cb)
		case g.Time == 2:
			err = t.RegisterPropertyCallback(owner, tabular.CB_AT_RENDER_POSTCELL, tabular.CB_ON_CELL, cb)
		}
		if err != nil {
			return // a registration the library refuses is not made
		}
		regs = append(regs, fmt.Sprintf("mkReg %s %s AAdvance", coqOwner, liveTimes[g.Time]))
		when := "after-wrap"
		if !measured {
			when = "before-wrap"
		}
		tags = append(tags, "live-reg="+kind+"-"+strings.ToLower(liveTimes[g.Time][1:])+"-"+when)
	}
	rest := ls.Regs
	if ls.EarlyWrap {
		for len(rest) > 0 && (rest[0].Measure || rest[0].Owner == 0) {
			register(rest[0], nil)
			rest = rest[1:]
		}
		tags = append(tags, "history=wrapper-made-before-the-build")
	}
	if ls.Header != nil {
		t.AddHeaders(mk(*ls.Header)...)
	}
	// callbacks registered on a local Cell value before it is added to its row
	isLocal := func(g LiveReg) bool { return !g.Measure && g.Owner == 3 && g.Local && g.N >= 1 }
	for i, r := range ls.Rows {
		if r.Sep {
			t.AddSeparator()
			continue
		}
		how := r.How
		for _, g := range rest {
			if isLocal(g) && g.N == i+1 && g.C < len(r.Cells) && how == 0 {
				how = 1
			}
		}
		if how == 0 {
			t.AddRowItems(mk(r.Cells)...)
			continue
		}
		var row *tabular.Row
		if how == 3 {
			row = t.NewRowSizedFor()
		} else {
			row = tabular.NewRow()
		}
		for c, it := range mk(r.Cells) {
			cell := tabular.NewCell(it)
			for _, g := range rest {
				if isLocal(g) && g.N == i+1 && g.C == c {
					register(g, &cell)
				}
			}
			row.Add(cell)
		}
		t.AddRow(row)
	}
	for _, g := range rest {
		if isLocal(g) && g.N <= len(ls.Rows) && !ls.Rows[g.N-1].Sep && g.C < len(ls.Rows[g.N-1].Cells) {
			continue // made during the build
		}
		g.Local = false
		register(g, nil)
	}
	if ls.RenderVia < 0 {
		ls.RenderVia = 0
	}
	rw := wrappers[ls.RenderVia%len(wrappers)]
	if rw != tt {
		tags = append(tags, "history=rendered-through-a-later-text-wrapper")
	}
	var outcomes []Outcome
	var obs []string
	for j := 0; j < ls.Renders; j++ {
		o := capture(rw.Render)
		outcomes = append(outcomes, o)
		obs = append(obs, o.Coq())
	}

	// the input, as Coq terms
	keys := map[string]bool{}
	for _, f := range dd.fields {
		keys[f] = true
	}
	nLive := 0
	cellsCoq := func(cs []LiveCell) string {
		xs := make([]string, len(cs))
		for i, c := range cs {
			st := liveStates(c)
			for _, s := range st {
				addLineKeys(keys, s.Text)
			}
			if len(st) > 1 {
				nLive++
				for k := 1; k < len(st); k++ {
					a, b := st[k-1], st[k]
					switch {
					case b.TW < a.TW:
						tags = append(tags, "live-change=narrower")
					case b.TW > a.TW:
						tags = append(tags, "live-change=wider")
					}
					switch {
					case b.H < a.H:
						tags = append(tags, "live-change=fewer-lines")
					case b.H > a.H:
						tags = append(tags, "live-change=more-lines")
					}
					if b.Text == "" {
						tags = append(tags, "live-change=to-empty")
					}
					if a.Text == "" {
						tags = append(tags, "live-change=from-empty")
					}
				}
			}
			xs[i] = "(LCl " + textCellsCoq(st) + ")"
		}
		return cqList(xs)
	}
	nc := ls.ncols()
	hdr := "None"
	if ls.Header != nil {
		hdr = cqSome(cellsCoq(*ls.Header))
	}
	rows := make([]string, len(ls.Rows))
	for i, r := range ls.Rows {
		if r.Sep {
			rows[i] = "None"
		} else {
			rows[i] = cqSome(cellsCoq(r.Cells))
		}
	}
	nones := make([]string, nc+1)
	for i := range nones {
		nones[i] = "None"
	}
	domain := nc >= 1 && decInDomain(dd)
	pt := "(mkPT " + cqNat(nc) + " " + hdr + " " + cqList(rows) + " " + cqList(nones) + " " + cqList(nones) + ")"
	coq := "(CLive (" + wtabCoq(keys) + ", " + pt + ", " + cqList(regs) + ", " + dd.Coq() + ", " + cqList(obs) + ", " + cqBool(domain) + "))"

	type odesc struct {
		Render  int     `json:"render"`
		Outcome Outcome `json:"outcome"`
	}
	var os []odesc
	for j, o := range outcomes {
		os = append(os, odesc{j, o})
		tags = append(tags, "outcome="+o.Kind)
	}
	tags = append(tags, "history=render-callbacks-change-cells", fmt.Sprintf("live-renders=%d", ls.Renders), fmt.Sprintf("ncols=%d", min(nc, 6)))
	if nLive == 0 {
		tags = append(tags, "live-cells=none")
	} else if nLive > 1 {
		tags = append(tags, "live-cells=several")
	}
	if ls.Header == nil {
		tags = append(tags, "no-header")
	}
	sort.Strings(tags)
	size := 3*len(ls.Regs) + 4*ls.Renders + 3
	if ls.Dec.Custom {
		size += 3 + len(ls.Dec.Fields)
	}
	count := func(cs []LiveCell) {
		for _, c := range cs {
			size++
			for _, s := range c.States {
				size += 2 + len(s)
			}
		}
	}
	if ls.Header != nil {
		size += 1
		count(*ls.Header)
	}
	for _, r := range ls.Rows {
		size++
		count(r.Cells)
	}
	if ls.EarlyWrap {
		size++
	}
	return CaseOut{
		Coq:        coq,
		Desc:       map[string]interface{}{"sig": "render-callbacks-change-cells", "renders": os, "ncols": nc, "registrations_made": regs},
		Size:       size,
		Tags:       dedup(tags),
		Key:        coq,
		Nontrivial: domain && nLive > 0 && len(regs) > 1,
	}
}

func runC03Spec(spec json.RawMessage) CaseOut {
	var cs c03Spec
	if err := json.Unmarshal(spec, &cs); err != nil {
		panic(err)
	}
	if cs.Live != nil {
		return runLive(*cs.Live)
	}
	co := runTextSpec(spec)
	co.Coq = "(CPlain " + co.Coq + ")"
	return co
}

func shrinkC03JSON(spec json.RawMessage) []json.RawMessage {
	var cs c03Spec
	if err := json.Unmarshal(spec, &cs); err != nil {
		return nil
	}
	if cs.Live == nil {
		return shrinkTextJSON(spec)
	}
	ls := *cs.Live
	var out []json.RawMessage
	clone := func() *LiveSpec {
		var c c03Spec
		json.Unmarshal(mustJSON(c03Spec{Live: &ls}), &c)
		return c.Live
	}
	emit := func(c *LiveSpec) { out = append(out, mustJSON(c03Spec{Live: c})) }
	for i := range ls.Regs {
		c := clone()
		c.Regs = append(append([]LiveReg{}, ls.Regs[:i]...), ls.Regs[i+1:]...)
		emit(c)
	}
	if ls.Renders > 1 {
		c := clone()
		c.Renders = ls.Renders - 1
		emit(c)
	}
	if ls.EarlyWrap {
		c := clone()
		c.EarlyWrap = false
		emit(c)
	}
	if ls.Dec.Custom || ls.Dec.Name != "ascii-simple" {
		c := clone()
		c.Dec = DecSpec{Name: "ascii-simple"}
		emit(c)
	}
	// registrations name rows and cells by position: dropping a row or a cell
	// re-targets them accordingly (those of the dropped one go)
	dropRow := func(c *LiveSpec, n int) { // n: model numbering, 0 = header
		var keep []LiveReg
		for _, g := range c.Regs {
			if !g.Measure && (g.Owner == 2 || g.Owner == 3) {
				if g.N == n {
					continue
				}
				if n > 0 && g.N > n {
					g.N--
				}
			}
			keep = append(keep, g)
		}
		c.Regs = keep
	}
	if ls.Header != nil {
		c := clone()
		c.Header = nil
		dropRow(c, 0)
		emit(c)
	}
	for i := range ls.Rows {
		c := clone()
		c.Rows = append(append([]LiveRow{}, c.Rows[:i]...), c.Rows[i+1:]...)
		dropRow(c, i+1)
		emit(c)
	}
	cellVariants := func(get func(*LiveSpec) *[]LiveCell) {
		cs := *get(&ls)
		if len(cs) > 0 {
			c := clone()
			p := get(c)
			*p = (*p)[:len(cs)-1]
			emit(c)
		}
		for j, cell := range cs {
			for k := range cell.States {
				if len(cell.States) > 1 {
					c := clone()
					p := &(*get(c))[j]
					p.States = append(append([][]byte{}, cell.States[:k]...), cell.States[k+1:]...)
					p.Q = nil
					emit(c)
				}
				if s := cell.States[k]; len(s) > 1 {
					for _, ns := range [][]byte{s[:len(s)/2], s[1:]} {
						c := clone()
						p := &(*get(c))[j]
						p.States[k] = append([]byte{}, ns...)
						p.Q = nil
						emit(c)
					}
				}
			}
		}
	}
	if ls.Header != nil {
		cellVariants(func(l *LiveSpec) *[]LiveCell { return l.Header })
	}
	for i := range ls.Rows {
		if !ls.Rows[i].Sep {
			i := i
			cellVariants(func(l *LiveSpec) *[]LiveCell { return &l.Rows[i].Cells })
		}
	}
	return out
}

// ---------------------------------------------------------------- generation

func liveJSON(ls LiveSpec) json.RawMessage { return mustJSON(c03Spec{Live: &ls}) }

func liveGen(r *RNG, tier string, reg []DecSpec) []json.RawMessage {
	var out []json.RawMessage
	M := LiveReg{Measure: true}
	app := func(owner, n, c, time int) LiveReg { return LiveReg{Owner: owner, N: n, C: c, Time: time} }
	// a fixed grid; the live cell in the last column of the first row, in the
	// first column of the last row (after a separator), in the header; its
	// contents: narrower, wider, taller, shorter, to and from nothing, wide
	// characters, three in a row - where the first is the widest / tallest of its
	// column / row or the last is
	changes := [][]string{
		{"the widest text of its column", "x"},
		{"x", "the widest text of its column"},
		{"one", "three\nlines, the second widest\nhere"},
		{"three\nlines, the second widest\nhere", "one"},
		{"gone at the next look", ""},
		{"", "arrived meanwhile"},
		{"日本語日本語日本語", "ab"},
		{"a", "bbbbbbbbbbbb", "cc"},
	}
	type place struct{ row, col int }
	places := []place{{1, 1}, {3, 0}, {0, 1}}
	k := 0
	for pi, p := range places {
		// every list a cell's render-time callbacks can come from, before and
		// after the wrapper's own; lists that are never consulted; two changes in
		// one pass; a second text wrapper made after the application's callback
		regsets := [][]LiveReg{
			{M, app(0, 0, 0, 1)},
			{app(0, 0, 0, 1), M},
			{M, app(3, p.row, p.col, 1)},
			{M, app(0, 0, 0, 2)},
			{M, app(0, 0, 0, 0)},
			{M, app(2, p.row, 0, 0)},
			{M, app(2, p.row, 0, 2)},
			{M, app(1, p.col+1, 0, 0)},
			{M, app(1, p.col+1, 0, 2)},
			{M, app(3, p.row, p.col, 1), M},
			{M, app(3, p.row, p.col, 0), app(1, 0, 0, 2)},
			{M, app(3, p.row, p.col, 1), app(3, p.row, p.col, 1)},
			{app(0, 0, 0, 2), M, app(0, 0, 0, 0)},
			// the same lists named another way
			{M, LiveReg{Owner: 3, N: p.row, C: p.col, Time: 1, Local: true}},
			{M, LiveReg{Owner: 3, N: p.row, C: p.col, Time: 1, Itself: true}},
			{M, LiveReg{Owner: 0, Time: 1, Via: true}},
			{LiveReg{Owner: 3, N: p.row, C: p.col, Time: 1, Local: true, Itself: true}, M, LiveReg{Owner: 0, Time: 2, Via: true}},
		}
		for ci, ch := range changes {
			for ri, rs := range regsets {
				if tier != "thorough" && (pi+ci+ri)%2 == 1 && ri != 2 {
					continue // quick tier: half of the grid, the cell's own callback always
				}
				k++
				hd := []LiveCell{live("h"), live("head two")}
				rows := []LiveRow{
					{Cells: []LiveCell{live("a"), live("bb")}},
					{Sep: true},
					{Cells: []LiveCell{live("c\nd"), live("e")}},
				}
				if p.row == 0 {
					hd[p.col] = live(ch...)
				} else {
					rows[p.row-1].Cells[p.col] = live(ch...)
				}
				rows[0].How, rows[2].How = []int{0, 1, 3}[k%3], []int{0, 3, 1, 0}[k%4]
				ls := LiveSpec{Header: &hd, Rows: rows, Regs: rs, Renders: 2, Dec: reg[k%len(reg)], EarlyWrap: k%5 == 0}
				if len(ch) > 2 {
					ls.Renders = 3
				}
				if ri == 9 && k%2 == 0 {
					ls.RenderVia = 1
				}
				out = append(out, liveJSON(ls))
			}
		}
	}
	// random tables: some cells live (two to four contents from the hostile
	// alphabet and wider texts), one to four application callbacks anywhere,
	// the wrapper made anywhere among them, sometimes a second text wrapper,
	// one to three renders, registered and custom decorations
	n := 120
	if tier == "thorough" {
		n = 3000
	}
	for i := 0; i < n; i++ {
		nc := 1 + r.Intn(4)
		text := func() string {
			if r.Pct(25) {
				return string(widerText(r).B)
			}
			return textString(r)
		}
		cell := func() LiveCell {
			if r.Pct(35) {
				st := make([]string, 2+r.Intn(3))
				for j := range st {
					st[j] = text()
				}
				return live(st...)
			}
			return live(textString(r))
		}
		cells := func(m int) []LiveCell {
			cs := make([]LiveCell, m)
			for j := range cs {
				cs[j] = cell()
			}
			return cs
		}
		ls := LiveSpec{Renders: 1 + r.Intn(3), EarlyWrap: r.Pct(25)}
		if r.Pct(70) {
			h := cells(1 + r.Intn(nc))
			ls.Header = &h
		}
		nr := 1 + r.Intn(5)
		for j := 0; j < nr; j++ {
			switch {
			case r.Pct(12):
				ls.Rows = append(ls.Rows, LiveRow{Sep: true})
			case r.Pct(70):
				ls.Rows = append(ls.Rows, LiveRow{Cells: cells(nc), How: pick(r, textHows)})
			default:
				ls.Rows = append(ls.Rows, LiveRow{Cells: cells(r.Intn(nc + 1)), How: pick(r, textHows)})
			}
		}
		na := 1 + r.Intn(4)
		for j := 0; j < na; j++ {
			g := LiveReg{Owner: r.Intn(4), Time: r.Intn(3)}
			switch g.Owner {
			case 1:
				g.N = r.Intn(nc + 1)
			case 2:
				g.N = 1 + r.Intn(nr)
			case 3:
				g.N, g.C = r.Intn(nr+1), r.Intn(nc)
				if r.Pct(70) {
					g.Time = 1
				}
				g.Local, g.Itself = r.Pct(25), r.Pct(25)
			case 0:
				g.Via = r.Pct(25)
			}
			ls.Regs = append(ls.Regs, g)
		}
		at := r.Intn(len(ls.Regs) + 1)
		ls.Regs = append(ls.Regs[:at], append([]LiveReg{M}, ls.Regs[at:]...)...)
		if r.Pct(15) {
			ls.Regs = append(ls.Regs, M)
			ls.RenderVia = r.Intn(2)
		}
		switch {
		case r.Pct(20):
			ls.Dec = randDecoration(r)
		case r.Pct(10):
			ls.Dec = derivedDecoration(r, reg)
		default:
			ls.Dec = pick(r, reg)
		}
		out = append(out, liveJSON(ls))
	}
	return out
}
