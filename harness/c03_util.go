package main

// Shared by C03 and C04: text alphabet, decorations as inputs (dumped from the
// real library by reflection), the width-oracle table, running the text
// renderer, spec shrinking.

import (
	"bytes"
	"encoding/json"
	"fmt"
	"io"
	"reflect"
	"sort"
	"strings"

	"go.pennock.tech/tabular"
	"go.pennock.tech/tabular/csv"
	"go.pennock.tech/tabular/html"
	tjson "go.pennock.tech/tabular/json"
	"go.pennock.tech/tabular/length"
	"go.pennock.tech/tabular/markdown"
	"go.pennock.tech/tabular/texttable"
	"go.pennock.tech/tabular/texttable/decoration"
)

// the 22 string fields of decoration.Decoration in the order of Model/Decoration.v d_fields
var decFieldNames = []string{
	"Horizontal", "Vertical", "CrossPiece", "TopDown", "VBorder",
	"HOuter", "HRule", "VHeader", "VBodyBorder", "VBodyInner",
	"TopLeft", "TopRight", "BottomLeft", "BottomRight",
	"LeftBodyRule", "RightBodyRule", "HTopDown", "BTopDown",
	"BBottomUp", "HBCross", "HBLeft", "HBRight",
}

// DecSpec names a decoration: a registered name (an unknown name gives the
// library's EmptyDecoration), or a custom one built from Fields (from NoBox()
// when Boxless) and then Populate()d unless NoPopulate.
type DecSpec struct {
	Name   string            `json:"name,omitempty"`
	Fields map[string]string `json:"fields,omitempty"`
	Custom bool              `json:"custom,omitempty"`
	// Base: a custom decoration derived from the registered one of this name
	// (an already populated value): Fields are set on it - an empty value
	// clears the field - and Populate re-derives what was cleared.
	Base       string `json:"base,omitempty"`
	Boxless    bool   `json:"boxless,omitempty"`
	NoPopulate bool   `json:"no_populate,omitempty"`
}

type TextSpec struct {
	Table TableSpec `json:"table"`
	Decs  []DecSpec `json:"decs"`
	// Hooks: the application's own property callbacks, registered on the table
	// before anything is built and before texttable.Wrap.  They never touch
	// anything the renderer shows, so the output must not depend on them.
	Hooks []HookSpec `json:"hooks,omitempty"`
	// Nest: while the judged render is writing, another (independent) table is
	// rendered from inside the writer's Write method.
	Nest *NestSpec `json:"nest,omitempty"`
	// Others: further wrappers made on the SAME table right after the text
	// wrapper (1 markdown, 2 csv, 3 html, 4 json, 5 a second text wrapper with
	// another decoration); with RenderOthers they are rendered (result
	// discarded) before every render of the text wrapper.  Only the text
	// wrapper's output is judged, and it must not depend on them.
	Others       []int `json:"others,omitempty"`
	RenderOthers bool  `json:"render_others,omitempty"`
	// Long: rows that end up holding MORE cells than the table has columns.
	// Before anything else is built: row := t.AppendNewRow(); row.Add(Cells...);
	// other.AddRow(row) (a second table); row.Add(Extra...) - the other table
	// learns of the new columns, t does not.  The extra cells must not be shown
	// and must not widen anything.
	Long []LongRow `json:"long,omitempty"`
	// ext: further steps of a property's own harness around the wrapper (C04:
	// render-time callbacks of the application that write column alignments,
	// renders before they are registered and further renders afterwards); one
	// fresh value per decoration.  Never part of the JSON form.
	ext func() *textExt
	// viewFix: a property's own harness completes the expected view (computed
	// from the spec alone) for histories SpecView does not know: items whose
	// declared sizes change between renders, items that are cells themselves.
	// Never part of the JSON form.
	viewFix func(*View)
}

// textExt: hooks of a property's own harness into the life of the wrapper.
type textExt struct {
	// beforeBuild: on the empty table, before any building call
	beforeBuild func(t tabular.Table)
	// beforeWrap: right before texttable.Wrap (after the build, unless earlier
	// renders are part of the spec's history: then the table is still empty)
	beforeWrap func(t tabular.Table)
	// afterWrap: right after the text wrapper was made and given its decoration
	afterWrap func(t tabular.Table, tt *texttable.TextTable, w RenderW)
	// onRender: at the start of every Render / RenderTo through the wrapper
	onRender func()
	// final: after BuildRenderW returned the outcome o of its last render; what
	// it returns is the judged outcome (further renders through the same wrapper)
	final func(w RenderW, o Outcome) Outcome
}

type LongRow struct {
	Cells []ItemSpec `json:"cells"`
	Extra []ItemSpec `json:"extra"`
}

func buildLongRows(t *tabular.ATable, long []LongRow) {
	for _, lr := range long {
		row := t.AppendNewRow()
		for _, it := range makeItems(lr.Cells) {
			row.Add(tabular.NewCell(it))
		}
		other := tabular.New()
		other.AddRow(row)
		for _, it := range makeItems(lr.Extra) {
			row.Add(tabular.NewCell(it))
		}
	}
}

// longView puts the long rows (all their cells) in front of the spec's view;
// the column count only counts the cells added while the row was t's alone.
func longView(ts TextSpec, v *View) {
	if len(ts.Long) == 0 {
		return
	}
	var front []*[]VCell
	for _, lr := range ts.Long {
		all := append(append([]ItemSpec{}, lr.Cells...), lr.Extra...)
		one := TableSpec{Rows: []RowSpec{{Cells: all}}}
		ov := one.SpecView()
		specSizes(one, &ov)
		front = append(front, ov.Rows[0])
		if len(lr.Cells) > v.NCols {
			v.NCols = len(lr.Cells)
		}
	}
	v.Rows = append(front, v.Rows...)
	for i := len(v.Align); i <= v.NCols; i++ {
		// columns the long rows created: they exist when the final properties are set
		v.Align = append(v.Align, ts.Table.Align[i])
		v.Skip = append(v.Skip, ts.Table.Skip[i])
	}
}

// HookSpec: When 0 add, 1 render-precell, 2 render, 3 render-postcell;
// Target 0 the table itself, 1 each cell, 2 each row.  The callback returns
// an error on its calls number ErrRem, ErrRem+ErrMod, ... (ErrMod 0: never)
// and, with SetProp, stores a value under a key of its own on what it is given.
type HookSpec struct {
	When    int  `json:"when"`
	Target  int  `json:"target"`
	ErrMod  int  `json:"err_mod,omitempty"`
	ErrRem  int  `json:"err_rem,omitempty"`
	SetProp bool `json:"set_prop,omitempty"`
}

// NestSpec: at write call number At (every call when At < 0) of the outer
// render, a table of Cols columns whose cells are Wide cells wide is rendered
// through a wrapper of its own.
type NestSpec struct {
	At   int `json:"at"`
	Cols int `json:"cols"`
	Wide int `json:"wide"`
}

type userHook struct {
	spec  HookSpec
	calls int
}

var userHookKey = &struct{ name string }{"verif user hook"}

func (h *userHook) UpdateProperties(po tabular.PropertyOwner) error {
	i := h.calls
	h.calls++
	if h.spec.SetProp && po != nil {
		po.SetProperty(userHookKey, i)
	}
	if h.spec.ErrMod > 0 && i%h.spec.ErrMod == h.spec.ErrRem%h.spec.ErrMod {
		return fmt.Errorf("user hook: call %d refused", i)
	}
	return nil
}

// the callback time and target types are unexported: one call per combination
func registerHook(t *tabular.ATable, when, target int, cb tabular.PropertyCallback) {
	switch when*3 + target {
	case 0:
		t.RegisterPropertyCallback(t, tabular.CB_AT_ADD, tabular.CB_ON_ITSELF, cb)
	case 1:
		t.RegisterPropertyCallback(t, tabular.CB_AT_ADD, tabular.CB_ON_CELL, cb)
	case 2:
		t.RegisterPropertyCallback(t, tabular.CB_AT_ADD, tabular.CB_ON_ROW, cb)
	case 3:
		t.RegisterPropertyCallback(t, tabular.CB_AT_RENDER_PRECELL, tabular.CB_ON_ITSELF, cb)
	case 4:
		t.RegisterPropertyCallback(t, tabular.CB_AT_RENDER_PRECELL, tabular.CB_ON_CELL, cb)
	case 5:
		t.RegisterPropertyCallback(t, tabular.CB_AT_RENDER_PRECELL, tabular.CB_ON_ROW, cb)
	case 6:
		t.RegisterPropertyCallback(t, tabular.CB_AT_RENDER, tabular.CB_ON_ITSELF, cb)
	case 7:
		t.RegisterPropertyCallback(t, tabular.CB_AT_RENDER, tabular.CB_ON_CELL, cb)
	case 8:
		t.RegisterPropertyCallback(t, tabular.CB_AT_RENDER, tabular.CB_ON_ROW, cb)
	case 9:
		t.RegisterPropertyCallback(t, tabular.CB_AT_RENDER_POSTCELL, tabular.CB_ON_ITSELF, cb)
	case 10:
		t.RegisterPropertyCallback(t, tabular.CB_AT_RENDER_POSTCELL, tabular.CB_ON_CELL, cb)
	case 11:
		t.RegisterPropertyCallback(t, tabular.CB_AT_RENDER_POSTCELL, tabular.CB_ON_ROW, cb)
	}
}

func registerHooks(t *tabular.ATable, hooks []HookSpec) {
	for _, h := range hooks {
		cb := &userHook{spec: h}
		// a registration the library refuses (returns an error) is simply not made
		registerHook(t, h.When, h.Target, cb)
	}
}

// textW is the wrapper handed to BuildRenderW: the TextTable itself, or the
// TextTable rendering into a writer that renders another table from inside Write.
type textW struct {
	tt     *texttable.TextTable
	d      decoration.Decoration
	nest   *NestSpec
	others []func() (string, error)
	// onRender (textExt): called at the start of every render through this wrapper
	onRender func()
}

func makeOthers(t tabular.Table, kinds []int) []func() (string, error) {
	var out []func() (string, error)
	for _, k := range kinds {
		switch k {
		case 1:
			out = append(out, markdown.Wrap(t).Render)
		case 2:
			out = append(out, csv.Wrap(t).Render)
		case 3:
			out = append(out, html.Wrap(t).Render)
		case 4:
			out = append(out, tjson.Wrap(t).Render)
		case 5:
			out = append(out, texttable.Wrap(t).SetDecoration(decoration.ASCIIBoxSimple()).Render)
		}
	}
	return out
}

func (w *textW) runOthers() {
	for _, f := range w.others {
		capture(f) // whatever they do (error, panic) is their own properties' concern
	}
}

type nestWriter struct {
	dst   io.Writer
	w     *textW
	calls int
}

func (nw *nestWriter) Write(p []byte) (int, error) {
	i := nw.calls
	nw.calls++
	if nw.w.nest.At < 0 || i == nw.w.nest.At {
		nw.w.renderNested()
	}
	return nw.dst.Write(p)
}

func (w *textW) renderNested() {
	inner := tabular.New()
	cell := longText(0, w.nest.Wide)
	row := make([]interface{}, w.nest.Cols)
	for i := range row {
		row[i] = cell
	}
	inner.AddHeaders(row...)
	inner.AddRowItems(row...)
	texttable.Wrap(inner).SetDecoration(w.d).Render()
}

func (w *textW) Render() (string, error) {
	if w.onRender != nil {
		w.onRender()
	}
	w.runOthers()
	if w.nest == nil {
		return w.tt.Render()
	}
	var b bytes.Buffer
	if err := w.tt.RenderTo(&nestWriter{dst: &b, w: w}); err != nil {
		return "", err
	}
	return b.String(), nil
}

func (w *textW) RenderTo(x io.Writer) error {
	if w.onRender != nil {
		w.onRender()
	}
	w.runOthers()
	if w.nest == nil {
		return w.tt.RenderTo(x)
	}
	return w.tt.RenderTo(&nestWriter{dst: x, w: w})
}

// specSizes replaces the sizes of the view's cells that SpecView still reads
// from the library's Cell (items declaring a width and/or a height) by what
// the documentation says they are, computed from the spec: the declared width,
// negative clamped to 0; the declared height, and where that is below 1, one
// line if the cell has any width, else none.
func specSizes(ts TableSpec, v *View) {
	fix := func(items []ItemSpec, cells *[]VCell) {
		if cells == nil {
			return
		}
		for i := range *cells {
			if i >= len(items) || items[i].K != "obj" {
				continue
			}
			it, c := items[i], &(*cells)[i]
			lines := strings.Split(c.Text, "\n")
			if lines[len(lines)-1] == "" {
				lines = lines[:len(lines)-1]
			}
			w := 0
			for _, l := range lines {
				if x := length.StringCells(l); x > w {
					w = x
				}
			}
			c.Widther = it.Mask&16 != 0
			if c.Widther {
				w = it.W
			}
			if w < 0 {
				w = 0
			}
			h := len(lines)
			if it.Mask&8 != 0 {
				h = it.H
			}
			if h < 1 {
				h = 0
				if w > 0 {
					h = 1
				}
			}
			c.TW, c.H = w, h
		}
	}
	hdr := ts.Header
	if ts.Header2 != nil {
		hdr = ts.Header2
	}
	if hdr != nil {
		fix(*hdr, v.Header)
	}
	k := 0
	for _, r := range ts.Rows {
		if r.Sep {
			k++
			continue
		}
		all := append(append([]ItemSpec{}, r.Cells...), r.Late...)
		n := 1
		if r.Twice && (r.How == 1 || r.How == 3) {
			n = 2
		}
		for j := 0; j < n; j++ {
			if k < len(v.Rows) {
				fix(all, v.Rows[k])
			}
			k++
		}
	}
}

type decDump struct {
	fields  []string
	boxless bool
	extra   []string // fields of the library's struct beyond the 22 glyphs and isBoxless
}

func dumpDecoration(d decoration.Decoration) decDump {
	rv := reflect.ValueOf(d)
	out := decDump{}
	for _, n := range decFieldNames {
		f := rv.FieldByName(n)
		if !f.IsValid() {
			panic("decoration has no field " + n)
		}
		out.fields = append(out.fields, f.String())
	}
	b := rv.FieldByName("isBoxless")
	if !b.IsValid() {
		panic("decoration has no field isBoxless")
	}
	out.boxless = b.Bool()
	// Fields the model does not know: a further STRING field could be a glyph
	// that reaches the output, which the model cannot follow (the case then
	// shows as model <> implementation wherever it matters); fields of other
	// kinds (flags, counters) are the library's private business and are
	// judged only through what is rendered.
	known := map[string]bool{"isBoxless": true}
	for _, n := range decFieldNames {
		known[n] = true
	}
	for i := 0; i < rv.NumField(); i++ {
		if f := rv.Type().Field(i); !known[f.Name] {
			out.extra = append(out.extra, f.Name+":"+f.Type.Kind().String())
		}
	}
	return out
}

func (dd decDump) Coq() string {
	packable := true
	for _, f := range dd.fields {
		if strings.Contains(f, "\n") {
			packable = false
		}
	}
	if packable {
		return "(DP " + cqBool(dd.boxless) + " " + cqStr(strings.Join(dd.fields, "\n")) + ")"
	}
	xs := make([]string, len(dd.fields))
	for i, f := range dd.fields {
		xs[i] = cqStr(f)
	}
	return "(mkDecor " + strings.Join(xs, " ") + " " + cqBool(dd.boxless) + ")"
}

// build returns the decoration handed to SetDecoration and, for custom ones,
// its fields before Populate.
func (ds DecSpec) build() (decoration.Decoration, *decDump) {
	if !ds.Custom {
		return decoration.Named(ds.Name), nil
	}
	var d decoration.Decoration
	if ds.Boxless {
		d = decoration.NoBox()
	}
	if ds.Base != "" {
		d = decoration.Named(ds.Base)
	}
	rv := reflect.ValueOf(&d).Elem()
	for k, val := range ds.Fields {
		f := rv.FieldByName(k)
		if !f.IsValid() {
			panic("no decoration field " + k)
		}
		f.SetString(val)
	}
	if ds.NoPopulate {
		return d, nil
	}
	pre := dumpDecoration(d)
	d.Populate()
	return d, &pre
}

// ---------------------------------------------------------------- texts

var textAtoms = []string{
	"a", "abc", "hello world", " ", "  x ", // ASCII
	"日本語", "中", // CJK wide
	"ＡＢ", "Ｚ", // full-width Latin
	"é", "́", "́x", "ạ̈", // combining (also leading: the measure is not additive)
	"​", "a​b", // ZWSP
	"‍", "x‍y", // ZWJ
	"️", "☺️", "❤️", // VS16
	"\U0001F468‍\U0001F469‍\U0001F467", "\U0001F3F3️‍\U0001F308", // ZWJ emoji sequences
	"\U0001F1EF\U0001F1F5", "\U0001F1E9\U0001F1EA\U0001F1EB", // flags
	"\t", "a\tb", // tab
	"\r", "a\r", "\r\n", // CR
	"\x1b[31mred\x1b[0m", "\x1b[1m", // escape codes
	"a\nbb", "x\n\ny", "one\ntwo\nthree", "日\nab\ń", // multi-line
	"a\n", "a\n\n", "\n", "\n\n", "", // trailing newlines, empty
	"\xff", "\xe6\x97", "\x00", // invalid UTF-8, NUL
	// many bytes per display cell: long ZWJ sequences, keycaps, stacked marks, runs of zero-width characters
	"\U0001F468\u200d\U0001F469\u200d\U0001F467\u200d\U0001F466",
	"1\ufe0f\u20e3", "#\ufe0f\u20e3*\ufe0f\u20e3",
	"e\u0301\u0302\u0303\u0304\u0305\u0306\u0307\u0308",
	"\U0001F9D1\U0001F3FD\u200d\U0001F91D\u200d\U0001F9D1\U0001F3FB",
}

// texts of few display cells and very many bytes
func denseTexts() []string {
	out := []string{
		"\U0001F468\u200d\U0001F469\u200d\U0001F467\u200d\U0001F466",
		"1\ufe0f\u20e3",
		"\U0001F9D1\U0001F3FD\u200d\U0001F91D\u200d\U0001F9D1\U0001F3FB",
		"\U0001F3F4\U000E0067\U000E0062\U000E0073\U000E0063\U000E0074\U000E007F", // tag sequence
	}
	for _, n := range []int{8, 16, 40} {
		out = append(out, "e"+strings.Repeat("\u0301", n))
		out = append(out, "x"+strings.Repeat("\u200b", n))
		out = append(out, strings.Repeat("\u200d", n))
	}
	out = append(out, "a\n"+"e"+strings.Repeat("\u0308", 12))
	return out
}

// lines whose rune count, byte count and display width are ordered
// differently: the width of a multi-line cell is the largest per-line measure
// whatever the order and make-up of its lines
var measureLines = []string{
	"abcd",                            // 4 runes, 4 cells
	"\uff42\uff42\uff42",              // 3 runes, 6 cells (full-width)
	"\u65e5\u672c",                    // 2 runes, 4 cells
	"e\u0301e\u0301e\u0301e\u0301",    // 8 runes, 4 cells (combining)
	"\u200b\u200b\u200b\u200b\u200bx", // 6 runes, 1 cell (zero-width)
	"abcdefg",                         // 7 runes, 7 cells
	"\U0001F468\u200d\U0001F469\u200d\U0001F467x", // 6 runes, few cells (ZWJ sequence)
	"",                         // empty
	"\uff57\uff57\uff57\uff57", // 4 runes, 8 cells
	"\x1b[1mzz\x1b[0m",         // escape codes
}

func mixedLines(r *RNG) string {
	n := 2 + r.Intn(3)
	ls := make([]string, n)
	for i := range ls {
		ls[i] = pick(r, measureLines)
	}
	s := strings.Join(ls, "\n")
	if r.Pct(20) {
		s += "\n"
	}
	return s
}

func textString(r *RNG) string {
	switch {
	case r.Pct(12):
		return mixedLines(r)
	case r.Pct(55):
		return pick(r, textAtoms)
	case r.Pct(70):
		n := 2 + r.Intn(2)
		var sb strings.Builder
		for i := 0; i < n; i++ {
			sb.WriteString(pick(r, textAtoms))
		}
		return sb.String()
	default:
		n := r.Intn(10)
		b := make([]byte, n)
		for i := range b {
			b[i] = byte(32 + r.Intn(95))
		}
		return string(b)
	}
}

func textItem(r *RNG) ItemSpec { return Str(textString(r)) }

// a text of exactly `cells` display cells: ASCII, or double-width characters
// (cells rounded down to even), or a mix
func longText(kind int, cells int) string {
	switch kind {
	case 1:
		return strings.Repeat("ｂ", cells/2)
	case 2:
		return strings.Repeat("日a", cells/3) + strings.Repeat("x", cells%3)
	default:
		var sb strings.Builder
		for i := 0; i < cells; i++ {
			sb.WriteByte("abcdefghij"[i%10])
		}
		return sb.String()
	}
}

// sizes around and beyond the block sizes a helper might work in
var longSizes = []int{63, 64, 65, 66, 70, 100, 127, 129, 130, 200, 257, 300}

// a text somewhat wider than anything the alphabet gives
func widerText(r *RNG) ItemSpec {
	if r.Pct(30) {
		return Str(longText(r.Intn(3), pick(r, longSizes)))
	}
	return Str(textString(r) + " " + pick(r, []string{"wider than before", "日本語日本語日本語", "ＷＩＤＥＲ", "x\nlonger second line"}))
}

func randHooks(r *RNG) []HookSpec {
	n := 1 + r.Intn(3)
	hs := make([]HookSpec, n)
	for i := range hs {
		hs[i] = HookSpec{When: r.Intn(4), Target: r.Intn(3), SetProp: r.Pct(40)}
		if r.Pct(70) {
			hs[i].Target = 1 // cell callbacks are the ones that share a list with the renderer's own
		}
		if r.Pct(75) {
			hs[i].ErrMod = 1 + r.Intn(3)
			hs[i].ErrRem = r.Intn(hs[i].ErrMod)
		}
	}
	return hs
}

func randNest(r *RNG) *NestSpec {
	n := &NestSpec{At: r.Intn(6), Cols: 1 + r.Intn(4), Wide: 1 + r.Intn(30)}
	if r.Pct(30) {
		n.At = -1
	}
	return n
}

// sameSizeText: a different text with the same number of lines and the same
// display width on every line ("" when there is no such text)
func sameSizeText(s string) string {
	out := []rune(s)
	changed := false
	for i, x := range out {
		var y rune
		switch {
		case x >= 'a' && x <= 'z':
			y = 'a' + (x-'a'+1)%26
		case x >= 'A' && x <= 'Z':
			y = 'A' + (x-'A'+1)%26
		case x >= '0' && x <= '9':
			y = '0' + (x-'0'+1)%10
		case x >= 0xff21 && x < 0xff3a, x >= 0xff41 && x < 0xff5a: // full-width Latin
			y = x + 1
		case x >= 0x4e00 && x < 0x9f00: // CJK ideographs, all two cells wide
			y = x + 1
		default:
			continue
		}
		out[i] = y
		changed = true
	}
	t := string(out)
	if !changed {
		return ""
	}
	a, b := strings.Split(s, "\n"), strings.Split(t, "\n")
	if len(a) != len(b) {
		return ""
	}
	for i := range a {
		if length.StringCells(a[i]) != length.StringCells(b[i]) {
			return ""
		}
	}
	return t
}

// mutateSameSize makes every item that has a same-size variant mutable and
// files a mutation to that variant: render, change the texts, Update the
// cells, render again through the same wrapper.
func mutateSameSize(ts *TableSpec, pct int, r *RNG) int {
	n := 0
	one := func(row, col int, it *ItemSpec) {
		txt := it.B
		if it.K == "obj" {
			if it.Mask&1 == 0 {
				return
			}
			txt = it.S
		} else if it.K != "str" {
			return
		}
		nw := sameSizeText(string(txt))
		if nw == "" || (r != nil && !r.Pct(pct)) {
			return
		}
		if it.K == "str" {
			*it = ItemSpec{K: "obj", Mask: 1, S: txt}
		}
		ts.Mutations = append(ts.Mutations, Mutation{Row: row, Col: col, S: []byte(nw)})
		n++
	}
	if ts.Header != nil && ts.Header2 == nil {
		for j := range *ts.Header {
			one(-1, j, &(*ts.Header)[j])
		}
	}
	for i := range ts.Rows {
		if ts.Rows[i].Twice {
			continue
		}
		for j := range ts.Rows[i].Cells {
			one(i, j, &ts.Rows[i].Cells[j])
		}
	}
	return n
}

// lateEnrich turns a spec into a multi-step history on one reused wrapper:
// a render after the last row, then changes that keep the table's shape
// (cells appended to a ragged row already in the table, filling existing
// columns; optionally a second AddHeaders of the same count), then the final
// render.  mk makes the new, preferably wider, items.
func lateEnrich(r *RNG, ts *TableSpec, mk func(*RNG) ItemSpec) bool {
	nc := 0
	if ts.Header != nil {
		nc = len(*ts.Header)
	}
	for _, row := range ts.Rows {
		if !row.Sep && len(row.Cells) > nc {
			nc = len(row.Cells)
		}
	}
	var ragged []int
	for i, row := range ts.Rows {
		if !row.Sep && len(row.Cells) < nc {
			ragged = append(ragged, i)
		}
	}
	if len(ts.Rows) == 0 {
		return false
	}
	did := false
	if len(ragged) > 0 {
		i := pick(r, ragged)
		n := 1 + r.Intn(nc-len(ts.Rows[i].Cells))
		for k := 0; k < n; k++ {
			ts.Rows[i].Late = append(ts.Rows[i].Late, mk(r))
		}
		if r.Pct(75) {
			ts.Rows[i].LateAfter = len(ts.Rows) + 1 // only at the end of the build, after every staged render
		} else {
			ts.Rows[i].LateAfter = r.Intn(len(ts.Rows)) // somewhere in the middle
		}
		did = true
	}
	if ts.Header != nil && (r.Pct(40) || !did) {
		h2 := make([]ItemSpec, len(*ts.Header))
		for k := range h2 {
			h2[k] = mk(r)
		}
		ts.Header2 = &h2
		did = true
	}
	if did {
		ts.Stages = []int{len(ts.Rows) - 1}
		if len(ts.Rows) > 1 && r.Pct(40) {
			ts.Stages = append([]int{r.Intn(len(ts.Rows) - 1)}, ts.Stages...)
		}
	}
	return did
}

// glyphs of display width 1 for custom decorations (single runes and
// multi-rune clusters), checked against the library's measure when used
var glyphAtoms = []string{"-", "|", "+", "*", "#", "=", ":", ".", "o", "~", "─", "│", "┼", "═", "║", "╬", "█", "░", "•", "é", "ẍ"}

func randDecoration(r *RNG) DecSpec {
	ds := DecSpec{Custom: true, Fields: map[string]string{}}
	for _, n := range decFieldNames {
		if r.Pct(35) {
			ds.Fields[n] = pick(r, glyphAtoms)
		}
	}
	switch {
	case r.Pct(10):
		ds.Boxless = true // NoBox() with glyphs set, then Populate: boxless but complete
	case r.Pct(10):
		ds.NoPopulate = true // incomplete: outside the statement, still a correspondence case
	}
	return ds
}

// a custom decoration derived from a registered (already populated) one
func derivedDecoration(r *RNG, reg []DecSpec) DecSpec {
	base := pick(r, reg).Name
	ds := DecSpec{Custom: true, Base: base, Fields: map[string]string{}}
	for _, n := range decFieldNames {
		switch {
		case r.Pct(25):
			ds.Fields[n] = "" // cleared, to be re-derived
		case r.Pct(8):
			ds.Fields[n] = pick(r, glyphAtoms)
		}
	}
	if r.Pct(10) {
		ds.NoPopulate = true
	}
	return ds
}

func registeredDecs() []DecSpec {
	var out []DecSpec
	for _, n := range decoration.RegisteredDecorationNames() {
		out = append(out, DecSpec{Name: n})
	}
	return out
}

// ---------------------------------------------------------------- running

func addLineKeys(keys map[string]bool, s string) {
	for _, l := range strings.Split(s, "\n") {
		keys[l] = true
	}
}

type textRun struct {
	view     View
	coq      string
	outcomes []Outcome
	decs     []decDump
	excluded int // multi-line items declaring a width below one of their lines
	domain   bool
	sig      string
}

func viewAllCells(v View) []VCell {
	var out []VCell
	if v.Header != nil {
		out = append(out, *v.Header...)
	}
	for _, r := range v.Rows {
		if r != nil {
			out = append(out, *r...)
		}
	}
	return out
}

func runText(ts TextSpec) textRun {
	var tr textRun
	// the expected table comes from the spec alone (texts, per-line measured
	// sizes, shape, column properties as the building calls define them), never
	// read back from the table under test
	tr.view = ts.Table.SpecView()
	specSizes(ts.Table, &tr.view)
	longView(ts, &tr.view)
	if ts.viewFix != nil {
		ts.viewFix(&tr.view)
	}
	keys := map[string]bool{}
	for _, c := range viewAllCells(tr.view) {
		addLineKeys(keys, c.Text)
	}
	var dcs []string
	anyPanic := false
	for _, ds := range ts.Decs {
		t := tabular.New()
		d, pre := ds.build()
		dd := dumpDecoration(d)
		tr.decs = append(tr.decs, dd)
		for _, f := range dd.fields {
			keys[f] = true
		}
		// one wrapper for the whole build: it renders the partial table at
		// every stage of the spec and the complete one at the end (the
		// observed outcome); without stages it is made after the build
		registerHooks(t, ts.Hooks)
		var ext *textExt
		if ts.ext != nil {
			ext = ts.ext()
		}
		if ext != nil && ext.beforeBuild != nil {
			ext.beforeBuild(t)
		}
		buildLongRows(t, ts.Long)
		var made *textW
		o := ts.Table.BuildRenderW(t, func(t tabular.Table) RenderW {
			if ext != nil && ext.beforeWrap != nil {
				ext.beforeWrap(t)
			}
			w := &textW{tt: texttable.Wrap(t).SetDecoration(d), d: d, nest: ts.Nest}
			others := makeOthers(t, ts.Others) // made after the text wrapper, on the same table
			if ts.RenderOthers {
				w.others = others
			}
			if ext != nil {
				w.onRender = ext.onRender
				if ext.afterWrap != nil {
					ext.afterWrap(t, w.tt, w)
				}
			}
			made = w
			return w
		})
		if ext != nil && ext.final != nil && made != nil {
			o = ext.final(made, o)
		}
		if o.Kind == "panic" {
			anyPanic = true
		}
		tr.outcomes = append(tr.outcomes, o)
		preS := "None"
		if pre != nil {
			preS = cqSome(pre.Coq())
		}
		dcs = append(dcs, "("+preS+", "+dd.Coq()+", "+o.Coq()+")")
	}
	// the width oracle: the library's own measure of every line and glyph
	ks := make([]string, 0, len(keys))
	for k := range keys {
		ks = append(ks, k)
	}
	sort.Strings(ks)
	byW := map[int][]string{}
	var wsOrder []int
	for _, k := range ks {
		if strings.Contains(k, "\n") {
			panic("oracle key contains LF")
		}
		w := length.StringCells(k)
		if _, ok := byW[w]; !ok {
			wsOrder = append(wsOrder, w)
		}
		byW[w] = append(byW[w], k)
	}
	sort.Ints(wsOrder)
	ws := make([]string, len(wsOrder))
	for i, w := range wsOrder {
		ws[i] = cqPair(cqNat(w), cqStr(strings.Join(byW[w], "\n")))
	}
	coqHead := "(WT " + cqList(ws) + ", " + textViewCoq(tr.view) + ", " + cqList(dcs) + ", "

	// input classes
	heightBelow, widthDiffers := false, false
	tr.domain = tr.view.NCols >= 1
	for _, c := range viewAllCells(tr.view) {
		ls := length.Lines(c.Text)
		if c.H < len(ls) {
			heightBelow = true
		}
		if c.Widther && len(ls) == 1 && c.TW != length.StringCells(ls[0]) {
			widthDiffers = true
		}
		if c.Widther && len(ls) != 1 {
			for _, l := range ls {
				if length.StringCells(l) > c.TW {
					tr.excluded++
					tr.domain = false
					break
				}
			}
		}
	}
	// the decoration is complete with glyphs of width 1, or NoBox()
	for _, dd := range tr.decs {
		complete, empty := true, true
		for _, f := range dd.fields {
			if f == "" {
				complete = false
			} else {
				empty = false
				if length.StringCells(f) != 1 {
					complete = false
				}
			}
		}
		if !(complete || (empty && dd.boxless)) {
			tr.domain = false
		}
	}
	// rows longer than the column count (a row extended through a second table)
	// are inside the statement: the extra cells are not shown (c03_refines_any_rows)
	tr.coq = coqHead + cqBool(tr.domain) + ")"
	switch {
	case anyPanic && heightBelow:
		tr.sig = "panic-declared-height-below-line-count"
	case anyPanic:
		tr.sig = "panic"
	case widthDiffers:
		tr.sig = "declared-width-single-line-item"
	}
	return tr
}

func textCellsCoq(cs []VCell) string {
	xs := make([]string, len(cs))
	for i, c := range cs {
		xs[i] = fmt.Sprintf("(TC %s %s %s %s)", cqStr(c.Text), cqZ(int64(c.TW)), cqZ(int64(c.H)), cqBool(c.Widther))
	}
	return cqList(xs)
}

// the view with text cells only (TC text tw h widther); Skipable is not text's concern
func textViewCoq(v View) string {
	var sb strings.Builder
	sb.WriteString("(mkView " + cqNat(v.NCols) + " ")
	if v.Header == nil {
		sb.WriteString("None ")
	} else {
		sb.WriteString(cqSome(textCellsCoq(*v.Header)) + " ")
	}
	rows := make([]string, len(v.Rows))
	for i, r := range v.Rows {
		if r == nil {
			rows[i] = "None"
		} else {
			rows[i] = cqSome(textCellsCoq(*r))
		}
	}
	sb.WriteString(cqList(rows) + " ")
	as := make([]string, len(v.Align))
	ss := make([]string, len(v.Align))
	for i, a := range v.Align {
		if a > 3 {
			panic("alignment value outside Left/Right/Center")
		}
		as[i] = cqAlign[a]
		ss[i] = "None"
	}
	sb.WriteString(cqList(as) + " " + cqList(ss) + ")")
	return sb.String()
}

func (tr textRun) tags() []string {
	tags := shapeTags(tr.view)
	kinds := map[string]bool{}
	for i, o := range tr.outcomes {
		kinds["outcome="+o.Kind] = true
		dd := tr.decs[i]
		complete, empty := true, true
		for _, f := range dd.fields {
			if f == "" {
				complete = false
			} else {
				empty = false
			}
		}
		switch {
		case empty && dd.boxless:
			kinds["dec=nobox"] = true
		case empty:
			kinds["dec=empty"] = true
		case complete && dd.boxless:
			kinds["dec=complete-boxless"] = true
		case complete:
			kinds["dec=complete"] = true
		default:
			kinds["dec=incomplete(outside)"] = true
		}
	}
	for k := range kinds {
		tags = append(tags, k)
	}
	if tr.excluded > 0 {
		tags = append(tags, "excluded:multiline-declared-width-below-a-line")
	}
	multi, wide, zero, nonadd, widther, heighter := false, false, false, false, false, false
	for _, c := range viewAllCells(tr.view) {
		ls := length.Lines(c.Text)
		if len(ls) > 1 {
			multi = true
		}
		if c.Widther {
			widther = true
		}
		if c.H != len(ls) {
			heighter = true
		}
		for _, l := range ls {
			w := length.StringCells(l)
			if w > len([]rune(l)) {
				wide = true
			}
			if w == 0 && l != "" {
				zero = true
			}
			if length.StringCells(" "+l+" ") != 2+w {
				nonadd = true
			}
		}
	}
	for k, b := range map[string]bool{"text=multi-line": multi, "text=wide": wide, "text=zero-width": zero,
		"text=non-additive-at-slot-edge": nonadd, "item=declares-width": widther, "item=height-differs-from-lines": heighter} {
		if b {
			tags = append(tags, k)
		}
	}
	for i, a := range tr.view.Align {
		if a != 0 {
			if i == 0 {
				tags = append(tags, "align=column0-default")
			} else {
				tags = append(tags, "align=own")
			}
		}
	}
	sort.Strings(tags)
	return dedup(tags)
}

func dedup(xs []string) []string {
	var out []string
	for i, x := range xs {
		if i == 0 || x != xs[i-1] {
			out = append(out, x)
		}
	}
	return out
}

func textSpecSize(ts TextSpec) int {
	n := ts.Table.Size() + 3*len(ts.Decs)
	count := func(cs []ItemSpec) {
		for _, c := range cs {
			if c.K == "obj" {
				n += 2
				for m := c.Mask; m > 0; m >>= 1 {
					n += m & 1
				}
				if c.H != 0 {
					n++
				}
				if c.W != 0 {
					n++
				}
			}
		}
	}
	if ts.Table.Header != nil {
		count(*ts.Table.Header)
		for _, c := range *ts.Table.Header {
			n += len(c.B) + len(c.S)
		}
	}
	for _, r := range ts.Table.Rows {
		count(r.Cells)
	}
	for _, d := range ts.Decs {
		n += len(d.Fields)
	}
	n += 3*len(ts.Hooks) + 2*len(ts.Others)
	for _, lr := range ts.Long {
		n += 2 + len(lr.Cells) + len(lr.Extra)
		for _, c := range append(append([]ItemSpec{}, lr.Cells...), lr.Extra...) {
			n += len(c.B)
		}
	}
	if ts.RenderOthers {
		n++
	}
	if ts.Nest != nil {
		n += 3
	}
	if ts.Table.Header2 != nil {
		for _, c := range *ts.Table.Header2 {
			n += len(c.B) + len(c.S)
		}
	}
	for _, r := range ts.Table.Rows {
		for _, c := range r.Late {
			n += len(c.B) + len(c.S)
		}
		if r.Twice {
			n++
		}
	}
	return n
}

func textCaseOut(ts TextSpec, tr textRun) CaseOut {
	type odesc struct {
		Dec     string  `json:"decoration"`
		Outcome Outcome `json:"outcome"`
	}
	var os []odesc
	kinds := ""
	for i, o := range tr.outcomes {
		name := ts.Decs[i].Name
		if ts.Decs[i].Custom {
			name = "custom"
		}
		os = append(os, odesc{name, o})
		kinds += o.Kind[:1]
	}
	tags := tr.tags()
	// the build history
	if len(ts.Table.Stages) > 0 {
		tags = append(tags, "history=staged-renders-through-one-wrapper")
	}
	late := false
	for _, row := range ts.Table.Rows {
		if len(row.Late) > 0 {
			late = true
			if len(ts.Table.Stages) > 0 && row.LateAfter >= len(ts.Table.Rows) {
				tags = append(tags, "history=render-then-late-cells-then-render")
			}
		}
		if row.Twice {
			tags = append(tags, "history=row-attached-twice")
		}
	}
	if late {
		tags = append(tags, "history=cells-added-after-attach")
	}
	if ts.Table.Header2 != nil {
		tags = append(tags, "history=second-AddHeaders")
	}
	if len(ts.Table.AlignEarly) > 0 {
		tags = append(tags, "history=alignment-set-before-rows")
		if a0, ok := ts.Table.Align[0]; ok {
			if e0, ok2 := ts.Table.AlignEarly[0]; ok2 && e0 != a0 {
				if a0 == 0 {
					tags = append(tags, "history=early-default-alignment-later-unset")
				} else {
					tags = append(tags, "history=early-default-alignment-later-changed")
				}
			}
		}
	}
	if len(ts.Hooks) > 0 {
		tags = append(tags, "history=user-callbacks-before-wrap")
		for _, h := range ts.Hooks {
			if h.ErrMod > 0 && h.Target == 1 && h.When > 0 {
				tags = append(tags, "history=failing-user-render-cell-callback")
			}
		}
	}
	if ts.Nest != nil {
		tags = append(tags, "history=other-table-rendered-during-write")
	}
	if len(ts.Others) > 0 {
		tags = append(tags, "history=other-wrappers-on-same-table-after-text-wrapper")
	}
	for _, row := range tr.view.Rows {
		if row != nil && len(*row) > tr.view.NCols {
			tags = append(tags, "row-longer-than-ncols(extended-through-a-second-table)")
		}
	}
	for i, d := range ts.Decs {
		if d.Base != "" {
			tags = append(tags, "dec=derived-from-registered-then-populate")
		}
		if i < len(tr.decs) && len(tr.decs[i].extra) > 0 {
			tags = append(tags, "dec=library-struct-has-fields-unknown-to-model")
		}
	}
	for _, c := range viewAllCells(tr.view) {
		for _, l := range length.Lines(c.Text) {
			if w := length.StringCells(l); len(l) > 4*(w+5) {
				tags = append(tags, "text=more-than-4-bytes-per-cell-of-a-one-column-line")
			}
		}
	}
	if len(ts.Table.Mutations) > 0 {
		tags = append(tags, "history=render-mutate-update-render")
	}
	if ts.Table.Scribble || ts.Table.FinalVia != 0 || ts.Table.FaultAt != 0 || ts.Table.StageFaults {
		tags = append(tags, "history=writer-variants-or-scribble")
	}
	if len(ts.Table.PropOps) > 0 {
		tags = append(tags, "history=property-op-sequence")
	}
	for _, c := range viewAllCells(tr.view) {
		if c.Text == "" && (c.H > 0 || c.TW > 0) {
			tags = append(tags, "item=no-text-but-declared-size")
		}
	}
	// sizes
	maxW, maxH, maxRowLen := 0, 0, 0
	for _, c := range viewAllCells(tr.view) {
		if c.TW > maxW {
			maxW = c.TW
		}
		if c.H > maxH {
			maxH = c.H
		}
	}
	for _, row := range tr.view.Rows {
		if row != nil && len(*row) > maxRowLen {
			maxRowLen = len(*row)
		}
	}
	if maxW > 64 {
		tags = append(tags, "size=cell-wider-than-64")
	}
	if maxH > 16 {
		tags = append(tags, "size=cell-taller-than-16")
	}
	if maxRowLen > 16 {
		tags = append(tags, "size=more-than-16-columns")
	}
	if len(tr.view.Rows) > 32 {
		tags = append(tags, "size=more-than-32-rows")
	}
	sort.Strings(tags)
	tags = dedup(tags)
	return CaseOut{
		Coq:        tr.coq,
		Desc:       map[string]interface{}{"sig": tr.sig, "renders": os, "ncols": tr.view.NCols},
		Size:       textSpecSize(ts),
		Tags:       tags,
		Key:        tr.coq,
		Nontrivial: tr.domain && len(tr.outcomes) > 0,
	}
}

// one-step reductions: the table's, plus fewer decorations, plus simpler items
func shrinkTextJSON(spec json.RawMessage) []json.RawMessage {
	var ts TextSpec
	if err := json.Unmarshal(spec, &ts); err != nil {
		return nil
	}
	var out []json.RawMessage
	clone := func() TextSpec {
		var c TextSpec
		json.Unmarshal(mustJSON(ts), &c)
		return c
	}
	if len(ts.Decs) > 1 {
		for i := range ts.Decs {
			c := clone()
			c.Decs = []DecSpec{ts.Decs[i]}
			out = append(out, mustJSON(c))
		}
	}
	for i, d := range ts.Decs {
		if d.Custom {
			c := clone()
			c.Decs[i] = DecSpec{Name: "ascii-simple"}
			out = append(out, mustJSON(c))
		}
	}
	for _, t := range shrinkTable(ts.Table) {
		c := clone()
		c.Table = t
		out = append(out, mustJSON(c))
	}
	for i := range ts.Hooks {
		c := clone()
		c.Hooks = append(append([]HookSpec{}, ts.Hooks[:i]...), ts.Hooks[i+1:]...)
		out = append(out, mustJSON(c))
	}
	if ts.Nest != nil {
		c := clone()
		c.Nest = nil
		out = append(out, mustJSON(c))
	}
	for i, lr := range ts.Long {
		c := clone()
		c.Long = append(append([]LongRow{}, ts.Long[:i]...), ts.Long[i+1:]...)
		out = append(out, mustJSON(c))
		if len(lr.Extra) > 1 {
			c := clone()
			c.Long[i].Extra = lr.Extra[:len(lr.Extra)-1]
			out = append(out, mustJSON(c))
		}
		if len(lr.Cells) > 0 {
			c := clone()
			c.Long[i].Cells = lr.Cells[:len(lr.Cells)-1]
			out = append(out, mustJSON(c))
		}
	}
	for i := range ts.Others {
		c := clone()
		c.Others = append(append([]int{}, ts.Others[:i]...), ts.Others[i+1:]...)
		out = append(out, mustJSON(c))
	}
	if ts.RenderOthers {
		c := clone()
		c.RenderOthers = false
		out = append(out, mustJSON(c))
	}
	if ts.Table.Header2 != nil {
		c := clone()
		c.Table.Header2 = nil
		out = append(out, mustJSON(c))
		for j := range *ts.Table.Header2 {
			if b := (*ts.Table.Header2)[j].B; len(b) > 1 {
				c := clone()
				(*c.Table.Header2)[j] = Str(string(b[:len(b)/2]))
				out = append(out, mustJSON(c))
			}
		}
	}
	for k := range ts.Table.AlignEarly {
		c := clone()
		delete(c.Table.AlignEarly, k)
		out = append(out, mustJSON(c))
	}
	for i, row := range ts.Table.Rows {
		if len(row.Late) > 0 {
			// the late cells as ordinary ones
			c := clone()
			c.Table.Rows[i].Cells = append(c.Table.Rows[i].Cells, c.Table.Rows[i].Late...)
			c.Table.Rows[i].Late = nil
			c.Table.Rows[i].LateAfter = 0
			out = append(out, mustJSON(c))
			for j, it := range row.Late {
				if len(it.B) > 1 {
					c := clone()
					c.Table.Rows[i].Late[j] = Str(string(it.B[:len(it.B)/2]))
					out = append(out, mustJSON(c))
				}
			}
		}
		if row.Twice {
			c := clone()
			c.Table.Rows[i].Twice = false
			out = append(out, mustJSON(c))
		}
	}
	// items: drop an override, shorten the text, move declared sizes towards 0/1
	itemVariants := func(it ItemSpec) []ItemSpec {
		var vs []ItemSpec
		if it.K != "obj" {
			return nil
		}
		vs = append(vs, Str(string(it.S)))
		for _, bit := range []int{8, 16} {
			if it.Mask&bit != 0 {
				c := it
				c.Mask &^= bit
				vs = append(vs, c)
			}
		}
		if len(it.S) > 0 {
			c := it
			c.S = it.S[:len(it.S)/2]
			vs = append(vs, c)
			c2 := it
			c2.S = it.S[1:]
			vs = append(vs, c2)
		}
		for _, h := range []int{0, 1, it.H / 2} {
			if h != it.H && it.Mask&8 != 0 {
				c := it
				c.H = h
				vs = append(vs, c)
			}
		}
		for _, w := range []int{0, 1, it.W / 2} {
			if w != it.W && it.Mask&16 != 0 {
				c := it
				c.W = w
				vs = append(vs, c)
			}
		}
		return vs
	}
	if ts.Table.Header != nil {
		for j, it := range *ts.Table.Header {
			for _, nv := range itemVariants(it) {
				c := clone()
				(*c.Table.Header)[j] = nv
				out = append(out, mustJSON(c))
			}
		}
	}
	for i, r := range ts.Table.Rows {
		for j, it := range r.Cells {
			for _, nv := range itemVariants(it) {
				c := clone()
				c.Table.Rows[i].Cells[j] = nv
				out = append(out, mustJSON(c))
			}
		}
	}
	return out
}

func runTextSpec(spec json.RawMessage) CaseOut {
	var ts TextSpec
	if err := json.Unmarshal(spec, &ts); err != nil {
		panic(err)
	}
	return textCaseOut(ts, runText(ts))
}
