package main

// C14, world histories: "any number of times, in any order of formats" is not
// only about ONE table.  An application holds several tables, each with its
// own long-lived wrappers, renders them in whatever order, and a render of one
// table may be in progress (its writer, its row-class generator or a
// render-time callback is running) while another table - or the same one - is
// rendered to completion, on the same goroutine or on another one.  Nothing
// of that may change what a table renders to, nor the table.
//
// The tables are built from item kinds beyond plain strings (values that
// declare their own width / height, Stringers, integers), share texts with one
// another under different item kinds, and have headers shorter or longer than
// their rows.

import (
	"bytes"
	"context"
	"encoding/json"
	"fmt"
	htmltemplate "html/template"
	"io"
	"os"
	"os/exec"
	"strings"
	"sync"
	"time"

	"go.pennock.tech/tabular"
	"go.pennock.tech/tabular/auto"
	"go.pennock.tech/tabular/csv"
	"go.pennock.tech/tabular/html"
	tjson "go.pennock.tech/tabular/json"
	"go.pennock.tech/tabular/markdown"
	"go.pennock.tech/tabular/texttable"
	"go.pennock.tech/tabular/texttable/decoration"
)

type C14WTable struct {
	Table TableSpec `json:"table"`
	Props bool      `json:"props,omitempty"` // user properties on the table, its columns, rows and cells
}

// C14Step: one render of table Tab in slot Slot (index into c14Slots, main slots only).
type C14Step struct {
	Tab  int `json:"tab"`
	Slot int `json:"slot"`
	// Route: 0 the table's long-lived wrapper of this slot (made at its first use), 1 a fresh Wrap, 2 auto.Wrap
	Route int `json:"route,omitempty"`
	// Via: 0 Render(); 1 RenderTo into a collecting io.Writer that is nothing more;
	// 2 RenderTo into a writer that fails on call FailAt (not judged; what follows is)
	Via    int `json:"via,omitempty"`
	FailAt int `json:"fail_at,omitempty"`
	// Inner: renders carried out to completion WHILE this render is in progress.
	// At >= 0: from the destination writer, during its At-th Write (implies RenderTo);
	// -1: from a table-level pre-cell render callback of this table; -2: post-cell;
	// -3: from the HTML row-class generator (slot html:B; elsewhere: writer, call 0);
	// -4: from a render-time callback run for a cell (the middle of the callback pass).
	// The callbacks change nothing and return nil.
	Inner []C14Step `json:"inner,omitempty"`
	At    int       `json:"at,omitempty"`
	// Go: the inner renders run on another goroutine while this one waits for them
	Go bool `json:"go,omitempty"`
}

type C14World struct {
	Tables []C14WTable `json:"tables"`
	Steps  []C14Step   `json:"steps"`
}

// c14Hook is a render-time callback (or row-class generator body) that does
// nothing unless armed; armed, it runs the pending function once.
type c14Hook struct {
	mu      sync.Mutex
	pending map[int]func() // by place: -1 pre-cell, -2 post-cell, -3 row class, -4 a cell
}

func (h *c14Hook) arm(place int, f func()) {
	h.mu.Lock()
	defer h.mu.Unlock()
	if h.pending == nil {
		h.pending = map[int]func(){}
	}
	h.pending[place] = f
}

func (h *c14Hook) fire(place int) {
	h.mu.Lock()
	f := h.pending[place]
	delete(h.pending, place)
	h.mu.Unlock()
	if f != nil {
		f()
	}
}

// disarm reports whether the function was still pending (never fired)
func (h *c14Hook) disarm(place int) bool {
	h.mu.Lock()
	defer h.mu.Unlock()
	_, ok := h.pending[place]
	delete(h.pending, place)
	return ok
}

type c14HookCB struct {
	h     *c14Hook
	place int
}

func (c c14HookCB) UpdateProperties(tabular.PropertyOwner) error { c.h.fire(c.place); return nil }

// hookWriter collects what it is given; during its at-th Write it runs f (once).
type c14HookWriter struct {
	acc   []byte
	calls int
	at    int
	f     func()
}

func (w *c14HookWriter) Write(p []byte) (int, error) {
	i := w.calls
	w.calls++
	if i == w.at && w.f != nil {
		f := w.f
		w.f = nil
		f()
	}
	w.acc = append(w.acc, p...)
	return len(p), nil
}

type c14Tab struct {
	spec  C14WTable
	t     tabular.Table
	keys  []interface{}
	hook  *c14Hook
	wraps map[int]RenderW
}

func c14SetUserProps(t tabular.Table, keys []interface{}) {
	t.SetProperty(keys[0], "table")
	for c := 0; c <= t.NColumns(); c++ {
		t.Column(c).SetProperty(keys[c%3], fmt.Sprintf("col%d", c))
	}
	for i, r := range t.AllRows() {
		r.SetProperty(keys[i%3], fmt.Sprintf("row%d", i))
		for j := range r.Cells() {
			if c, err := t.CellAt(tabular.CellLocation{Row: i + 1, Column: j + 1}); err == nil {
				c.SetProperty(keys[(i+j)%3], fmt.Sprintf("cell%d.%d", i, j))
			}
		}
	}
}

// c14Wrap makes a wrapper of the slot's kind around t (route 1: the format's
// own Wrap; route 2: auto.Wrap where a style string can say it).
func c14Wrap(t tabular.Table, slot string, route int, rowHook func()) RenderW {
	if route == 2 {
		style := map[string]string{"csv": "csv", "html:A": "html", "json": "json", "markdown": "markdown"}[slot]
		if strings.HasPrefix(slot, "text:") && slot != "text:custom" {
			style = slot[5:]
		}
		if style != "" {
			return auto.Wrap(t, style)
		}
	}
	switch {
	case slot == "csv":
		return csv.Wrap(t)
	case slot == "html:A":
		return html.Wrap(t)
	case slot == "html:B":
		h := html.Wrap(t)
		h.Id, h.Class, h.Caption = "id<1", "cl\"s", "Cap & tion"
		h.SetRowClassGenerator(func(n int, _ interface{}) htmltemplate.HTMLAttr {
			if rowHook != nil {
				rowHook()
			}
			return htmltemplate.HTMLAttr(fmt.Sprintf("r%d", n))
		}, nil)
		return h
	case slot == "json":
		return tjson.Wrap(t)
	case slot == "markdown":
		return markdown.Wrap(t)
	}
	tt := texttable.Wrap(t)
	if d := slot[5:]; d == "custom" {
		tt.SetDecoration(decoration.Decoration{Horizontal: "-", Vertical: "|", CrossPiece: "+"})
	} else {
		tt.SetDecorationNamed(d)
	}
	return tt
}

func c14CountSteps(steps []C14Step) int {
	n := 0
	for _, s := range steps {
		n += 1 + c14CountSteps(s.Inner)
	}
	return n
}

// c14StepsSize: a flat history is simpler than a nested one, one goroutine simpler than two
func c14StepsSize(steps []C14Step) int {
	n := 0
	for _, s := range steps {
		// a render weighs as much as a cell of a table: the reductions then take the long histories apart first
		n += 25 + s.Route + s.Via
		if len(s.Inner) > 0 {
			n += 30 + 2*c14StepsSize(s.Inner)
			if s.Go {
				n += 20
			}
		}
	}
	return n
}

// ---------------------------------------------------------------- one process per world
//
// A world is a self-contained programme: what it renders must not depend on
// what the process did before it.  Package-level state left behind by earlier
// cases (pools, memos, parsed templates) would make "the first time" mean "the
// first time after whatever ran before", hide a dependence on history behind an
// already disturbed first render, and make the reductions of a failing case
// judge one another's leftovers.  So every world runs in a fresh process of
// this binary (several at a time, started ahead of their turn).

type c14WorkerOut struct {
	Case  *CaseOut `json:"case,omitempty"`
	Panic string   `json:"panic,omitempty"` // a panic outside every observed step (building, reading back)
}

func init() {
	if len(os.Args) >= 2 && os.Args[1] == "C14worker" {
		c14Worker()
		os.Exit(0)
	}
}

func c14Worker() {
	in, err := io.ReadAll(os.Stdin)
	if err != nil {
		os.Exit(3)
	}
	var sp C14Spec
	if err := json.Unmarshal(in, &sp); err != nil || sp.World == nil {
		os.Exit(3)
	}
	out := func() (o c14WorkerOut) {
		defer func() {
			if r := recover(); r != nil {
				o = c14WorkerOut{Panic: fmt.Sprint(r)}
			}
		}()
		co := c14RunWorldHere(in, sp.World)
		return c14WorkerOut{Case: &co}
	}()
	os.Stdout.Write(mustJSON(out))
}

type c14Exit struct {
	out     []byte
	stderr  string
	code    int
	started bool
	timeout bool
}

func c14Exec(raw json.RawMessage) c14Exit {
	ctx, cancel := context.WithTimeout(context.Background(), 90*time.Second)
	defer cancel()
	exe, err := os.Executable()
	if err != nil {
		exe = os.Args[0]
	}
	cmd := exec.CommandContext(ctx, exe, "C14worker")
	cmd.Stdin = bytes.NewReader(raw)
	// one processor: the renders of a world follow one another (an inner render
	// runs while the outer one waits), and with one processor the same world
	// always runs the same way - a replay shows what the run showed
	for _, e := range os.Environ() {
		if !strings.HasPrefix(e, "GOMAXPROCS=") {
			cmd.Env = append(cmd.Env, e)
		}
	}
	cmd.Env = append(cmd.Env, "GOMAXPROCS=1")
	var so, se bytes.Buffer
	cmd.Stdout, cmd.Stderr = &so, &se
	err = cmd.Run()
	x := c14Exit{out: so.Bytes(), stderr: se.String(), started: true, timeout: ctx.Err() != nil}
	if err != nil {
		if ee, ok := err.(*exec.ExitError); ok {
			x.code = ee.ExitCode()
		} else {
			x.started = false
		}
	}
	return x
}

var c14Pre = struct {
	mu  sync.Mutex
	res map[string]chan c14Exit
	sem chan struct{}
}{res: map[string]chan c14Exit{}, sem: make(chan struct{}, 6)}

// c14Prefetch starts the worlds among these specs ahead of their turn
func c14Prefetch(specs []json.RawMessage) {
	if os.Getenv("C14_INPROCESS") == "1" {
		return
	}
	c14Pre.mu.Lock()
	defer c14Pre.mu.Unlock()
	for _, raw := range specs {
		if !bytes.Contains(raw, []byte(`"world":{`)) {
			continue
		}
		k := string(raw)
		if _, ok := c14Pre.res[k]; ok {
			continue
		}
		ch := make(chan c14Exit, 1)
		c14Pre.res[k] = ch
		go func(raw json.RawMessage) {
			c14Pre.sem <- struct{}{}
			defer func() { <-c14Pre.sem }()
			ch <- c14Exec(raw)
		}(raw)
	}
}

func c14RunWorld(raw json.RawMessage, w *C14World) CaseOut {
	if os.Getenv("C14_INPROCESS") == "1" {
		return c14RunWorldHere(raw, w)
	}
	c14Pre.mu.Lock()
	ch := c14Pre.res[string(raw)]
	delete(c14Pre.res, string(raw))
	c14Pre.mu.Unlock()
	var x c14Exit
	if ch != nil {
		x = <-ch
	} else {
		x = c14Exec(raw)
	}
	for try := 0; try < 2 && (!x.started || (x.code == -1 && !x.timeout)); try++ {
		// could not be started, or killed from outside (a loaded machine): once more
		time.Sleep(200 * time.Millisecond)
		x = c14Exec(raw)
	}
	if !x.started || (x.code == -1 && !x.timeout) || x.code == 3 {
		return c14RunWorldHere(raw, w) // no fresh process to be had: in this one, then
	}
	if x.code == 0 {
		var wo c14WorkerOut
		if err := json.Unmarshal(x.out, &wo); err == nil {
			if wo.Case != nil {
				wo.Case.Key = string(raw)
				return *wo.Case
			}
			if wo.Panic != "" {
				panic(wo.Panic) // set aside by main.go like any panic outside the observed steps
			}
		}
		return c14RunWorldHere(raw, w)
	}
	// The process died (a fatal runtime error, a panic on another goroutine) or never
	// finished: these renders did not give what the first ones gave.
	sig := "process-died-while-rendering"
	if x.timeout {
		sig = "renders-never-finished"
	}
	st := x.stderr
	if len(st) > 3000 {
		st = st[:3000]
	}
	return CaseOut{
		Coq:        fmt.Sprintf("([], [], %s, %s, [], [])", cqStr("alive"), c14After("alive", sig)),
		Desc:       map[string]interface{}{"sig": sig, "exit_code": x.code, "stderr": st},
		Size:       len(raw),
		Tags:       []string{"world", sig},
		Key:        string(raw),
		Nontrivial: true,
	}
}

func c14RunWorldHere(raw json.RawMessage, w *C14World) CaseOut {
	keys := []interface{}{"uk", userKey{1}, &userKey{2}}
	tabs := make([]*c14Tab, len(w.Tables))
	for i, ws := range w.Tables {
		tb := &c14Tab{spec: ws, t: tabular.New(), keys: keys, hook: &c14Hook{}, wraps: map[int]RenderW{}}
		ws.Table.Build(tb.t)
		if ws.Props {
			c14SetUserProps(tb.t, keys)
		}
		tabs[i] = tb
	}
	// the do-nothing callbacks through which a render in progress can be observed
	var needHook func(steps []C14Step)
	hooked := map[[2]int]bool{}
	needHook = func(steps []C14Step) {
		for _, s := range steps {
			if len(s.Inner) > 0 && (s.At == -1 || s.At == -2 || s.At == -4) && s.Tab < len(tabs) && !hooked[[2]int{s.Tab, s.At}] {
				hooked[[2]int{s.Tab, s.At}] = true
				tb := tabs[s.Tab]
				switch s.At {
				case -1:
					tb.t.RegisterPropertyCallback(tb.t, tabular.CB_AT_RENDER_PRECELL, tabular.CB_ON_ITSELF, c14HookCB{tb.hook, -1})
				case -2:
					tb.t.RegisterPropertyCallback(tb.t, tabular.CB_AT_RENDER_POSTCELL, tabular.CB_ON_ITSELF, c14HookCB{tb.hook, -2})
				case -4:
					tb.t.RegisterPropertyCallback(tb.t, tabular.CB_AT_RENDER, tabular.CB_ON_CELL, c14HookCB{tb.hook, -4})
				}
			}
			needHook(s.Inner)
		}
	}
	needHook(w.Steps)

	views := make([]View, len(tabs))
	snap := func() string {
		var sb strings.Builder
		for i, tb := range tabs {
			fmt.Fprintf(&sb, "== table %d\n%s", i, c14SnapshotWith(tb.t, keys, false))
		}
		return sb.String()
	}
	for i, tb := range tabs {
		views[i] = extractView(tb.t)
	}
	before := snap()

	var mu sync.Mutex // the recorder may be used from the goroutine of an inner render
	var renders, distinct []string
	seenOut := map[string]int{}
	ids := map[[2]int]int{{0, 0}: 0} // (table, slot) -> render id; id 0 is table 0's CSV
	var csvs []string
	first := map[int]Outcome{}
	count := map[int]int{}
	sig := ""
	type shown struct {
		Tab  int
		Slot string
		Out  Outcome
	}
	var outs []shown
	idOf := func(tab, slot int) int {
		k := [2]int{tab, slot}
		id, ok := ids[k]
		if !ok {
			id = len(ids)
			ids[k] = id
		}
		return id
	}
	addRender := func(id int, o Outcome) {
		key := o.Kind + "\x00" + string(o.Out)
		k, ok := seenOut[key]
		if !ok {
			k = len(distinct)
			seenOut[key] = k
			distinct = append(distinct, o.Coq())
		}
		renders = append(renders, cqPair(cqNat(id), cqNat(k)))
	}
	nested, usedGo, hung := false, false, false

	var runSteps func(steps []C14Step, depth int)
	runStep := func(s C14Step, depth int) {
		if s.Tab < 0 || s.Tab >= len(tabs) || s.Slot < 0 || s.Slot >= c14MainSlots {
			return
		}
		tb := tabs[s.Tab]
		slot := c14Slots[s.Slot]
		id := idOf(s.Tab, s.Slot)
		rowHook := func() { tb.hook.fire(-3) }
		mu.Lock()
		_, haveRef := first[id]
		mu.Unlock()
		if !haveRef && s.Via != 2 {
			// "the first time": the same table built afresh and rendered once through a fresh wrapper,
			// just before this table is first rendered in this slot
			ref := capture(func() (string, error) {
				ft := tabular.New()
				tb.spec.Table.Build(ft)
				return c14Wrap(ft, slot, 1, nil).Render()
			})
			mu.Lock()
			first[id] = ref
			addRender(id, ref)
			if slot == "csv" {
				csvs = append(csvs, cqPair(cqNat(id), cqNat(s.Tab)))
			}
			mu.Unlock()
		}
		var wr RenderW
		o := capture(func() (string, error) {
			if s.Route == 0 {
				if tb.wraps[s.Slot] == nil {
					tb.wraps[s.Slot] = c14Wrap(tb.t, slot, 1, rowHook)
				}
				wr = tb.wraps[s.Slot]
			} else {
				wr = c14Wrap(tb.t, slot, s.Route, rowHook)
			}
			if s.Via == 2 {
				return "", wr.RenderTo(&collectWriter{failAt: s.FailAt})
			}
			var inner func()
			if len(s.Inner) > 0 && depth < 3 {
				nested = true
				inner = func() {
					if !s.Go {
						runSteps(s.Inner, depth+1)
						return
					}
					usedGo = true
					done := make(chan struct{})
					go func() {
						defer close(done)
						runSteps(s.Inner, depth+1)
					}()
					select {
					case <-done:
					case <-time.After(20 * time.Second):
						mu.Lock()
						hung = true
						mu.Unlock()
					}
				}
			}
			at := s.At
			if at == -3 && slot != "html:B" {
				at = 0
			}
			if inner != nil && at < 0 {
				tb.hook.arm(at, inner)
				defer func() {
					if tb.hook.disarm(at) {
						inner() // never reached during the render: afterwards, then
					}
				}()
			}
			if s.Via == 1 || (inner != nil && at >= 0) {
				hw := &c14HookWriter{at: at}
				if inner != nil && at >= 0 {
					hw.f = inner
				}
				err := wr.RenderTo(hw)
				if hw.f != nil {
					f := hw.f
					hw.f = nil
					defer f()
				}
				if err != nil {
					return "", err
				}
				return string(hw.acc), nil
			}
			return wr.Render()
		})
		if s.Via == 2 {
			return
		}
		mu.Lock()
		defer mu.Unlock()
		count[id]++
		if f := first[id]; (f.Kind != o.Kind || string(f.Out) != string(o.Out)) && sig == "" {
			sig = "output-changed:" + strings.SplitN(slot, ":", 2)[0]
		}
		addRender(id, o)
		if len(outs) < 6 {
			outs = append(outs, shown{s.Tab, slot, o})
		}
	}
	runSteps = func(steps []C14Step, depth int) {
		for _, s := range steps {
			mu.Lock()
			h := hung
			mu.Unlock()
			if h {
				return
			}
			runStep(s, depth)
		}
	}
	runSteps(w.Steps, 0)

	mu.Lock()
	defer mu.Unlock()
	after := snap()
	if hung {
		// a render that never returns is no render at all
		sig = "render-blocked-by-a-render-of-another-table"
		after += "\nhung"
	}
	if before != after && sig == "" {
		sig = "snapshot-changed"
	}
	desc := map[string]interface{}{"renders_shown": outs, "sig": sig}
	if before != after {
		desc["before"] = before
		desc["after"] = after
	}
	repeated := false
	for _, c := range count {
		if c >= 2 {
			repeated = true
		}
	}
	tags := []string{"world", fmt.Sprintf("tables=%d", len(tabs)), fmt.Sprintf("renders=%d", min(c14CountSteps(w.Steps), 12))}
	anyCols, size := false, 0
	vs := make([]string, len(views))
	for i, v := range views {
		vs[i] = v.Coq(true)
		if v.NCols > 0 {
			anyCols = true
		}
		if v.Header != nil && len(*v.Header) < v.NCols {
			tags = append(tags, "header-shorter-than-columns")
		}
		if w.Tables[i].Props {
			tags = append(tags, "user-props")
		}
		size += w.Tables[i].Table.Size() * 20
	}
	if nested {
		tags = append(tags, "render-during-render")
	}
	if usedGo {
		tags = append(tags, "inner-render-on-another-goroutine")
	}
	if c14SharedTexts(w) {
		tags = append(tags, "same-text-under-different-item-kinds")
	}
	if len(vs) == 0 {
		vs = nil
	}
	return CaseOut{
		Coq:        fmt.Sprintf("(%s, %s, %s, %s, %s, %s)", cqList(vs), cqList(csvs), cqStr(before), c14After(before, after), cqList(distinct), cqList(renders)),
		Desc:       desc,
		Size:       size + c14StepsSize(w.Steps) + 20*len(w.Tables),
		Tags:       tags,
		Key:        string(raw),
		Nontrivial: repeated && anyCols,
	}
}

// c14SharedTexts: some text occurs in the world under two different item kinds
func c14SharedTexts(w *C14World) bool {
	kinds := map[string]string{}
	found := false
	see := func(it ItemSpec) {
		txt, k := string(it.B), it.K
		if it.K == "obj" {
			txt, k = string(it.S), fmt.Sprintf("obj%d", it.Mask)
		}
		if it.K != "str" && it.K != "obj" && it.K != "valstr" {
			return
		}
		if old, ok := kinds[txt]; ok && old != k {
			found = true
		}
		kinds[txt] = k
	}
	for _, t := range w.Tables {
		if t.Table.Header != nil {
			for _, it := range *t.Table.Header {
				see(it)
			}
		}
		for _, r := range t.Table.Rows {
			for _, it := range r.Cells {
				see(it)
			}
		}
	}
	return found
}

// ---------------------------------------------------------------- generation

// c14Word: a text out of a large space (so that two cases of one run rarely share texts)
func c14Word(r *RNG) string {
	const letters = "abcdefghijklmnopqrstuvwxyzABCDEFGHIJKLMNOPQRSTUVWXYZ0123456789"
	n := 1 + r.Intn(6)
	if r.Pct(25) {
		n = 7 + r.Intn(22)
	}
	var sb strings.Builder
	for i := 0; i < n; i++ {
		switch {
		case i > 0 && i < n-1 && r.Pct(8):
			sb.WriteByte(' ')
		case r.Pct(4):
			sb.WriteString(pick(r, []string{"é", "日", "ß", "\x1b[1m", "\x1b[0m", "|", "<", "&", "\"", ","}))
		default:
			sb.WriteByte(letters[r.Intn(len(letters))])
		}
	}
	return sb.String()
}

// c14Item: the text as one of the item kinds a cell can hold it in
func c14Item(r *RNG, txt string) ItemSpec {
	switch k := r.Intn(100); {
	case k < 50:
		return Str(txt)
	case k < 58:
		return ItemSpec{K: "valstr", B: []byte(txt)}
	case k < 66:
		return ItemSpec{K: "obj", Mask: 1, S: []byte(txt)} // a Stringer
	case k < 84:
		// declares its own terminal width (whatever its text measures)
		return ItemSpec{K: "obj", Mask: 17, S: []byte(txt), W: r.Intn(2*len(txt) + 3)}
	case k < 90:
		return ItemSpec{K: "obj", Mask: 9, S: []byte(txt), H: r.Intn(4)} // declares its height
	case k < 96:
		return ItemSpec{K: "obj", Mask: 25, S: []byte(txt), H: 1 + r.Intn(3), W: r.Intn(2*len(txt) + 3)}
	}
	return ItemSpec{K: "int", I: int64(r.Intn(100000))}
}

// c14WorldTables: n tables over one pool of words, so that the same text turns
// up again in another cell, another table, another item kind
func c14WorldTables(r *RNG, n int) []C14WTable {
	pool := make([]string, 3+r.Intn(4))
	for i := range pool {
		pool[i] = c14Word(r)
	}
	text := func(r *RNG) ItemSpec {
		switch {
		case r.Pct(60):
			return c14Item(r, pick(r, pool))
		case r.Pct(50):
			return c14Item(r, c14Word(r))
		}
		return c14Text(r)
	}
	out := make([]C14WTable, n)
	for i := range out {
		ts := randTable(r, 4, 4, text, []int{0, 0, 1, 2, 3})
		if r.Pct(7) {
			// now and then a table of many columns (more than a small fixed-size buffer would hold)
			ts = wideSpec(9+r.Intn(10), r.Intn(3), text, r)
		}
		if ts.Header == nil || r.Pct(25) {
			// mostly headed (a header-less table has no Markdown form), of any length against the rows
			h := make([]ItemSpec, 1+r.Intn(4))
			for j := range h {
				h[j] = text(r)
			}
			ts.Header = &h
		}
		if r.Pct(30) {
			ts.Align = map[int]int{r.Intn(4): 1 + r.Intn(3)}
		}
		out[i] = C14WTable{Table: ts, Props: r.Pct(30)}
	}
	return out
}

func c14RandSteps(r *RNG, nTabs, n, depth int) []C14Step {
	steps := make([]C14Step, n)
	// a run tends to stay within a few slots, so that repeats happen
	fav := []int{r.Intn(c14MainSlots), r.Intn(c14MainSlots), r.Intn(c14MainSlots)}
	for i := range steps {
		s := C14Step{Tab: r.Intn(nTabs), Slot: pick(r, fav), Route: pick(r, []int{0, 0, 0, 1, 2})}
		if r.Pct(15) {
			s.Slot = r.Intn(c14MainSlots)
		}
		switch {
		case r.Pct(8):
			s.Via, s.FailAt = 2, r.Intn(4)
		case r.Pct(25):
			s.Via = 1
		}
		if s.Via != 2 && depth < 2 && r.Pct(30-12*depth) {
			s.Inner = c14RandSteps(r, nTabs, 1+r.Intn(2), depth+1)
			if r.Pct(60) {
				s.Inner[0].Slot = s.Slot // most often the same format as the render it interrupts
			}
			s.At = pick(r, []int{0, 0, 1, 2, 5, -1, -2, -3, -4})
			s.Go = r.Pct(35)
		}
		steps[i] = s
	}
	return steps
}

func c14WorldGen(r *RNG, tier string) []json.RawMessage {
	var out []json.RawMessage
	emit := func(tabs []C14WTable, steps []C14Step) {
		out = append(out, mustJSON(C14Spec{World: &C14World{Tables: tabs, Steps: steps}}))
	}
	strs := func(words ...string) []ItemSpec {
		cs := make([]ItemSpec, len(words))
		for i, s := range words {
			cs[i] = Str(s)
		}
		return cs
	}
	// Small scope, every main slot: two tables of this run's words - a narrow one
	// whose header names fewer columns than its rows have, and a wide one holding
	// some of the same texts under other item kinds - rendered alternately through
	// long-lived wrappers, fresh ones and auto; then with the second table
	// rendered WHILE the first is (every place a render can be interrupted at).
	for rep := 0; rep < 2; rep++ {
		w := []string{c14Word(r), c14Word(r), c14Word(r), c14Word(r) + " " + c14Word(r), c14Word(r) + c14Word(r)}
		hA, hB := strs(w[0]), strs(w[3], w[4], w[3]+w[1], w[2])
		if rep == 1 {
			hA = strs(w[0], w[1])
		}
		a := C14WTable{Table: TableSpec{Header: &hA, Rows: []RowSpec{{Cells: strs(w[1], w[2], "x")}, {Cells: strs(w[2], w[0])}, {Sep: true}, {Cells: strs(w[1], "", w[0], "y")}}}}
		b := C14WTable{Props: rep == 1, Table: TableSpec{Header: &hB, Rows: []RowSpec{
			{Cells: []ItemSpec{Str(w[4]), {K: "obj", Mask: 17, S: []byte(w[1]), W: len(w[1]) + 3}, Str(w[3] + w[4]), {K: "obj", Mask: 1, S: []byte(w[2])}}},
			{Cells: []ItemSpec{{K: "obj", Mask: 17, S: []byte(w[0]), W: 1}, Str(w[4] + w[4]), {K: "valstr", B: []byte(w[1])}}, How: 1},
		}}}
		tabs := []C14WTable{a, b}
		for s := 0; s < c14MainSlots; s++ {
			emit(tabs, []C14Step{{Tab: 0, Slot: s}, {Tab: 1, Slot: s}, {Tab: 0, Slot: s}, {Tab: 1, Slot: s, Route: 1}, {Tab: 0, Slot: s, Route: 1}, {Tab: 1, Slot: s, Route: 2}, {Tab: 0, Slot: s, Route: 2, Via: 1}, {Tab: 1, Slot: s}})
			o := (s + 3 + 2*rep) % c14MainSlots
			emit(tabs, []C14Step{{Tab: 0, Slot: s}, {Tab: 1, Slot: o}, {Tab: 0, Slot: s}, {Tab: 1, Slot: s, Via: 2, FailAt: 1}, {Tab: 0, Slot: s}, {Tab: 1, Slot: o}})
			places := []int{0, -1, -3, 1, -4, 3, -2}
			for k := 0; k < 3; k++ {
				at := places[(3*s+k+rep)%len(places)]
				if s == 2 && k == 0 {
					at = -3 // the row-class generator exists in this slot only
				}
				emit(tabs, []C14Step{
					{Tab: 0, Slot: s, At: at, Go: (k+s+rep)%2 == 0, Inner: []C14Step{{Tab: 1, Slot: s, Route: (k + rep) % 2}}},
					{Tab: 1, Slot: s}, {Tab: 0, Slot: s},
					{Tab: 1, Slot: s, At: at, Go: (k+s+rep)%2 == 1, Inner: []C14Step{{Tab: 0, Slot: s}, {Tab: 0, Slot: o}}},
					{Tab: 0, Slot: s},
				})
			}
		}
	}
	n := 70
	if tier == "thorough" {
		n = 1000
	}
	for i := 0; i < n; i++ {
		nt := 2 + r.Intn(2)
		emit(c14WorldTables(r, nt), c14RandSteps(r, nt, 4+r.Intn(10), 0))
	}
	c14Prefetch(out)
	return out
}

// ---------------------------------------------------------------- shrinking

func c14ShrinkSteps(steps []C14Step) [][]C14Step {
	var out [][]C14Step
	// big steps first: one half of the history; everything flat, on one goroutine, by the plainest route
	for n, chunk := len(steps), len(steps)/2; chunk >= 2; chunk /= 2 {
		// without one run of consecutive renders
		for lo := 0; lo < n; lo += chunk {
			hi := min(lo+chunk, n)
			out = append(out, append(append([]C14Step{}, steps[:lo]...), steps[hi:]...))
		}
	}
	{
		var flat []C14Step
		changed := false
		var walk func(ss []C14Step)
		walk = func(ss []C14Step) {
			for _, s := range ss {
				in := s.Inner
				if len(in) > 0 || s.Go || s.At != 0 {
					changed = true
				}
				s.Inner, s.At, s.Go = nil, 0, false
				flat = append(flat, s)
				walk(in)
			}
		}
		walk(steps)
		if changed {
			out = append(out, flat)
		}
		plain := append([]C14Step{}, flat...)
		pch := false
		for i := range plain {
			if plain[i].Route != 0 || plain[i].Via == 1 {
				pch = true
				plain[i].Route = 0
				if plain[i].Via == 1 {
					plain[i].Via = 0
				}
			}
		}
		if pch {
			out = append(out, plain)
		}
	}
	for i := range steps {
		out = append(out, append(append([]C14Step{}, steps[:i]...), steps[i+1:]...))
	}
	for i, s := range steps {
		with := func(ns C14Step) []C14Step {
			c := append([]C14Step{}, steps...)
			c[i] = ns
			return c
		}
		if len(s.Inner) > 0 {
			// the inner renders afterwards instead of meanwhile
			flat := s
			flat.Inner, flat.At, flat.Go = nil, 0, false
			c := append(append([]C14Step{}, steps[:i]...), flat)
			c = append(c, s.Inner...)
			out = append(out, append(c, steps[i+1:]...))
			for _, in := range c14ShrinkSteps(s.Inner) {
				ns := s
				ns.Inner = in
				if len(in) == 0 {
					ns.At, ns.Go = 0, false
				}
				out = append(out, with(ns))
			}
			if s.Go {
				ns := s
				ns.Go = false
				out = append(out, with(ns))
			}
			if s.At > 0 {
				ns := s
				ns.At = 0
				out = append(out, with(ns))
			}
		}
		if s.Route != 0 {
			ns := s
			ns.Route = 0
			out = append(out, with(ns))
		}
		if s.Via == 1 {
			ns := s
			ns.Via = 0
			out = append(out, with(ns))
		}
	}
	return out
}

func c14StepsUse(steps []C14Step, tab int) bool {
	for _, s := range steps {
		if s.Tab == tab || c14StepsUse(s.Inner, tab) {
			return true
		}
	}
	return false
}

func c14ShrinkWorld(w *C14World) []json.RawMessage {
	var out []json.RawMessage
	emit := func(tabs []C14WTable, steps []C14Step) {
		out = append(out, mustJSON(C14Spec{World: &C14World{Tables: tabs, Steps: steps}}))
	}
	for _, st := range c14ShrinkSteps(w.Steps) {
		emit(w.Tables, st)
	}
	// a table no render names: the last one can go
	if n := len(w.Tables); n > 1 && !c14StepsUse(w.Steps, n-1) {
		emit(w.Tables[:n-1], w.Steps)
	}
	for i, t := range w.Tables {
		for _, ts := range shrinkTable(t.Table) {
			c := append([]C14WTable{}, w.Tables...)
			c[i].Table = ts
			emit(c, w.Steps)
		}
		// an item of another kind becomes the plain string of its text
		for ri, row := range t.Table.Rows {
			for ci, it := range row.Cells {
				if it.K == "obj" || it.K == "valstr" {
					txt := it.B
					if it.K == "obj" {
						txt = it.S
					}
					b, _ := json.Marshal(t.Table)
					var ts TableSpec
					json.Unmarshal(b, &ts)
					ts.Rows[ri].Cells[ci] = Str(string(txt))
					c := append([]C14WTable{}, w.Tables...)
					c[i].Table = ts
					emit(c, w.Steps)
				}
			}
		}
		if t.Props {
			c := append([]C14WTable{}, w.Tables...)
			c[i].Props = false
			emit(c, w.Steps)
		}
	}
	c14Prefetch(out)
	return out
}

var _ io.Writer = (*c14HookWriter)(nil)
