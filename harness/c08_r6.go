package main

// C08, round 6: histories of SetProperty on a column over SEVERAL keys.
//
// The alignment the delimiter row must show is one entry of the column's
// property set; the application (and the library) may hold any number of other
// entries on the same owner and set, re-set and remove them in any order.  The
// class exercised here: every chain depth up to mdMaxDepth, the alignment at
// every depth of the chain, and a re-set or removal of the key at every depth
// (above, at and below the alignment), on the defaults column and on own
// columns, through a fresh Column(n) lookup, through the wrapper's Column(n) and
// through a handle taken once; with keys of every Go kind a key can have
// (pointer, string, int, struct value, distinct pointers to equal structs, keys
// whose printed form equals another key's).  The expectation is positional: a
// column's alignment is the value of the last write under align.PropertyType to
// that column, whatever happened to other keys.  (Model: Model/ColProps.v.)

import (
	"fmt"

	"go.pennock.tech/tabular"
	"go.pennock.tech/tabular/markdown"
	"go.pennock.tech/tabular/properties"
	"go.pennock.tech/tabular/properties/align"
)

// mdPropOp: one SetProperty on column Col (0 = the all-columns default; a
// column the table does not have is skipped), made between build and render.
//
//	Via 0: t.Column(Col), looked up for this call   1: the wrapper's Column(Col)
//	    2: a handle taken at the first Via-2 use of that column and kept
//	Key 0: align.PropertyType (Val 0 nil, 1 Left, 2 Right, 3 Center)
//	    1: properties.Skipable (Val 0 nil, odd true, even false)
//	    2..: a key of the application (mdAppKeys[Key-2]; Val 0 nil, else the int)
type mdPropOp struct {
	Col int `json:"col"`
	Via int `json:"via,omitempty"`
	Key int `json:"key"`
	Val int `json:"val"`
}

type mdKeyStruct struct{ name string }

func (k *mdKeyStruct) String() string { return align.PropertyType.String() }

type mdKeyValue struct {
	a int
	b string
}

type mdKeyInt int

var (
	mdKeyP1 = &mdKeyStruct{"type"}
	mdKeyP2 = &mdKeyStruct{"type"} // equal content, distinct identity
)

// keys of the application: every kind of comparable value, among them pairs
// that differ only in type or only in identity, and ones that print like the
// library's own keys
var mdAppKeys = []interface{}{
	"note",
	3,
	mdKeyP1,
	mdKeyValue{1, "x"},
	align.PropertyType.String(), // a string that prints like the alignment key
	mdKeyP2,
	int64(3),
	mdKeyInt(3),
	mdKeyValue{1, "y"},
	[2]string{"a", "b"},
	true,
	'k',
	3.5,
	properties.Skipable.String(),
}

func mdNKeys() int { return 2 + len(mdAppKeys) }

func (op mdPropOp) key() interface{} {
	switch {
	case op.Key == 0:
		return align.PropertyType
	case op.Key == 1:
		return properties.Skipable
	default:
		return mdAppKeys[(op.Key-2)%len(mdAppKeys)]
	}
}

func (op mdPropOp) value() interface{} {
	if op.Val == 0 {
		return nil
	}
	switch op.Key {
	case 0:
		return alignVals[1+(op.Val-1)%3]
	case 1:
		return op.Val%2 == 1
	}
	return op.Val
}

// mdApplyColProps performs the history; a column that does not exist is a no-op
func mdApplyColProps(t tabular.Table, mt *markdown.MarkdownTable, ops []mdPropOp) {
	handles := map[int]tabular.PropertyOwner{}
	for _, op := range ops {
		var po tabular.PropertyOwner
		switch op.Via {
		case 1:
			if c := mt.Column(op.Col); c != nil {
				po = c
			}
		case 2:
			if h, ok := handles[op.Col]; ok {
				po = h
			} else if c := t.Column(op.Col); c != nil {
				handles[op.Col] = c
				po = c
			}
		default:
			if c := t.Column(op.Col); c != nil {
				po = c
			}
		}
		if po == nil {
			continue
		}
		po.SetProperty(op.key(), op.value())
	}
}

// mdColPropsExpect: the alignments after the history, from the spec alone
func mdColPropsExpect(v *View, ops []mdPropOp) {
	for _, op := range ops {
		if op.Key == 0 && op.Col >= 0 && op.Col < len(v.Align) {
			if op.Val == 0 {
				v.Align[op.Col] = 0
			} else {
				v.Align[op.Col] = 1 + (op.Val-1)%3
			}
		}
	}
}

// mdColPropsShape: for tags - the largest number of keys a column holds at any
// time, the largest depth (0 = newest entry) at which an entry was replaced or
// removed, and whether an alignment entry lay above such an entry
func mdColPropsShape(ops []mdPropOp, prior map[int][]int) (depth, touch int, alignAbove bool) {
	live := map[int][]int{} // column -> keys, newest first
	for c, ks := range prior {
		live[c] = append([]int{}, ks...)
	}
	touch = -1
	for _, op := range ops {
		ks := live[op.Col]
		for i, k := range ks {
			if k == op.Key {
				if i > touch {
					touch = i
				}
				for _, a := range ks[:i] {
					if a == 0 {
						alignAbove = true
					}
				}
				ks = append(append([]int{}, ks[:i]...), ks[i+1:]...)
				break
			}
		}
		if op.Val != 0 {
			ks = append([]int{op.Key}, ks...)
		}
		live[op.Col] = ks
		if len(ks) > depth {
			depth = len(ks)
		}
	}
	return
}

func mdColPropsTags(ms mdSpec) []string {
	if len(ms.ColProps) == 0 {
		return nil
	}
	d, tch, above := mdColPropsShape(ms.ColProps, nil)
	out := []string{fmt.Sprintf("col-props:depth=%d", min(d, 8))}
	if tch >= 0 {
		out = append(out, fmt.Sprintf("col-props:replaced-at-depth=%d", min(tch, 8)))
	}
	if above {
		out = append(out, "col-props:alignment-above-replaced-entry")
	}
	vias := map[int]bool{}
	for _, op := range ms.ColProps {
		vias[op.Via] = true
		if op.Col == 0 {
			out = append(out, "col-props:column0")
		}
	}
	for v := range vias {
		out = append(out, fmt.Sprintf("col-props:via=%d", v))
	}
	return mdDedup(out)
}

func mdDedup(xs []string) []string {
	seen := map[string]bool{}
	var out []string
	for _, x := range xs {
		if !seen[x] {
			seen[x] = true
			out = append(out, x)
		}
	}
	return out
}

const mdMaxDepthQuick, mdMaxDepthThorough = 5, 7

// mdDepthHistories enumerates, for every chain depth d <= maxDepth, every
// position p of the alignment among the d keys (in setting order) and every
// position q of the key touched afterwards, the history "set the d keys in
// order, then re-set (or remove) key q", and - for the entry below the top -
// the same followed by a second touch of the then-deepest entry.  keyAt picks
// the other keys (rotating through all key kinds).
func mdDepthHistories(maxDepth int, emit func(h []mdPropOp)) {
	n := 0
	for d := 1; d <= maxDepth; d++ {
		for p := 0; p < d; p++ {
			for q := 0; q < d; q++ {
				for _, remove := range []bool{false, true} {
					n++
					keys := make([]int, d)
					next := 1 + n%(mdNKeys()-1)
					for i := range keys {
						if i == p {
							keys[i] = 0
							continue
						}
						keys[i] = next
						next = 1 + next%(mdNKeys()-1)
					}
					var h []mdPropOp
					for i, k := range keys {
						h = append(h, mdPropOp{Key: k, Val: 1 + (n+i)%3})
					}
					val := 0
					if !remove {
						val = 1 + (n+1)%3
					}
					h = append(h, mdPropOp{Key: keys[q], Val: val})
					emit(h)
				}
			}
		}
	}
}

// packs histories onto the columns 0..ncols of one table, interleaved
func mdPackHistories(hs [][]mdPropOp, via int) []mdPropOp {
	var out []mdPropOp
	for i := 0; ; i++ {
		any := false
		for c, h := range hs {
			if i < len(h) {
				op := h[i]
				op.Col, op.Via = c, (via+c)%3
				out = append(out, op)
				any = true
			}
		}
		if !any {
			return out
		}
	}
}

func randColProps(r *RNG, maxCol int) []mdPropOp {
	n := 4 + r.Intn(9)
	c1, c2 := r.Intn(maxCol+1), r.Intn(maxCol+1)
	nk := 3 + r.Intn(4) // a small key universe, so that keys repeat
	base := r.Intn(mdNKeys())
	var out []mdPropOp
	for i := 0; i < n; i++ {
		op := mdPropOp{Col: c1, Via: r.Intn(3), Val: r.Intn(4)}
		if r.Pct(25) {
			op.Col = c2
		}
		if k := r.Intn(nk); k == 0 {
			op.Key = 0
		} else {
			op.Key = 1 + (base+k)%(mdNKeys()-1)
		}
		if r.Pct(70) && op.Val == 0 {
			op.Val = 1 + r.Intn(3)
		}
		out = append(out, op)
	}
	return out
}

// the systematic stream: fixed small tables, all depth histories
func mdColPropsStream(r *RNG, tier string, addM func(mdSpec)) {
	maxDepth := mdMaxDepthQuick
	if tier == "thorough" {
		maxDepth = mdMaxDepthThorough
	}
	var hs [][]mdPropOp
	mdDepthHistories(maxDepth, func(h []mdPropOp) { hs = append(hs, h) })
	h3 := []ItemSpec{Str("h|1"), Str("h2"), Str(`h3\`)}
	rows := []RowSpec{{Cells: []ItemSpec{Str("a"), Str("<b>"), Str("c")}}, {Cells: []ItemSpec{Str("d")}}}
	const per = 4 // columns 0..3
	for i, k := 0, 0; i < len(hs); i, k = i+per, k+1 {
		j := min(i+per, len(hs))
		group := append([][]mdPropOp{}, hs[i:j]...)
		// rotate so that every history class meets column 0 and own columns
		rot := k % len(group)
		group = append(group[rot:], group[:rot]...)
		ms := mdSpec{TableSpec: TableSpec{Header: &h3, Rows: rows}, ColProps: mdPackHistories(group, k)}
		if k%3 == 1 {
			// on top of settings made by the build itself (alignment and skipable)
			ms.Align = map[int]int{k % 4: 1 + k%3}
			ms.Skip = map[int]int{(k + 1) % 4: 1 + k%2}
		}
		addM(ms)
	}
}

func mdShrinkColProps(ms mdSpec, with func(func(*mdSpec))) {
	for i := range ms.ColProps {
		i := i
		with(func(m *mdSpec) {
			m.ColProps = append(append([]mdPropOp{}, m.ColProps[:i]...), m.ColProps[i+1:]...)
		})
		if ms.ColProps[i].Via != 0 {
			with(func(m *mdSpec) { m.ColProps[i].Via = 0 })
		}
	}
	// all operations of one column at once
	cols := map[int]bool{}
	for _, op := range ms.ColProps {
		cols[op.Col] = true
	}
	if len(cols) > 1 {
		for c := 0; c < 64; c++ {
			if !cols[c] {
				continue
			}
			c := c
			with(func(m *mdSpec) {
				var keep []mdPropOp
				for _, op := range m.ColProps {
					if op.Col != c {
						keep = append(keep, op)
					}
				}
				m.ColProps = keep
			})
		}
	}
}
