package main

// Shared-state inventory of the repository under test (C16, DESIGN section 6).
//
// Standard library only: go/parser + go/ast + go/types.  Every non-test .go
// file of every package of the repository is parsed and type-checked from
// source (repository packages and, when they can be found in the module
// cache, their third-party dependencies through the importer below; the
// standard library through go/importer's "source" importer).  Type errors are
// tolerated: an import that cannot be resolved becomes an empty package and
// the walk goes on with what is known.
//
// Facts (the Coq side is Model/Sched.v, `fact`):
//   var   every package-level `var`: package (directory relative to the module
//         root), name, type, whether the type is declared in sync / sync/atomic
//   acc   every place outside `init` functions and outside package-level
//         initialisers (function literals inside those are included: they run
//         later) where such a variable is assigned, has its address taken, has
//         a field / element / pointee assigned (or is the target of delete,
//         copy, clear), is the destination of append, or has a pointer-receiver
//         method called on it or on a part of it; and every read of a non-sync
//         field of a variable that carries a mutex (registry.table).
//
// `locked` (about the variable's OWN mutex: <var>.Lock(), <var>.mu.Lock(), ...):
//   lexical   the place lies between <var>.Lock() and <var>.Unlock() (or after
//             a Lock whose Unlock is deferred) in the same top-level function.
//             A mutation needs the exclusive lock (Lock); under RLock only
//             reads count as locked.  The body of a `go func() {...}()`
//             literal is a function of its own: the enclosing region does not
//             cover it.
//   callers   or the place is in a function that is only ever "called with
//             <var> locked": an unexported, receiver-less function of the
//             package, whose value is never taken (every mention of it is a
//             call), that has at least one call site outside `init`, and EVERY
//             such call site is a plain call (not `go`, not `defer`) lying in
//             a locked region of <var> or in another function that is itself
//             called with <var> locked (greatest fixpoint per variable and
//             lock mode).  This is what a helper documented "the caller must
//             hold the lock" amounts to.
//
// Synchronisation (`sync` = true, never counted as unguarded state): variables
// whose type is declared in sync or sync/atomic and calls of methods declared
// there; and method calls on values of the standard-library types below, which
// their documentation declares safe for concurrent use by multiple goroutines
// (an ASSUMPTION about the standard library, listed in the evidence):
//     *strings.Replacer   every method
//     *regexp.Regexp      every method except the configuration method Longest
// Only method CALLS are covered: assigning such a variable after init, or
// taking its address, is flagged like for any other variable.
//
// Not tracked (stated in the evidence): reference-typed values handed out by
// value (`return noProperty`), mutation through interface-typed variables,
// unsafe, cgo, reflection, linkname.
//
// This file is self-contained (tools/srcfacts compiles it together with a
// small command-line front end).

import (
	"fmt"
	"go/ast"
	"go/build"
	"go/importer"
	"go/parser"
	"go/token"
	"go/types"
	"os"
	"path/filepath"
	"runtime/debug"
	"sort"
	"strings"
)

type SrcVar struct {
	Pkg  string `json:"pkg"`
	Name string `json:"name"`
	Type string `json:"type"`
	Sync bool   `json:"sync"`
	Pos  string `json:"pos"`
}

type SrcAcc struct {
	Pkg    string `json:"pkg"`
	Var    string `json:"var"`
	Path   string `json:"path"`
	Meth   string `json:"meth,omitempty"`
	Kind   string `json:"kind"` // assign addr field-assign append-dst ptr-call read
	Func   string `json:"func"`
	Pos    string `json:"pos"`
	Line   int    `json:"line"`
	Sync   bool   `json:"sync"`
	Locked bool   `json:"locked"`
	Via    string `json:"locked_via,omitempty"` // lexical | callers
	col    int
	file   string
}

type SrcFacts struct {
	Repo       string   `json:"repo"`
	Module     string   `json:"module"`
	Packages   []string `json:"packages"`
	Files      int      `json:"files"`
	Vars       []SrcVar `json:"vars"`
	Accs       []SrcAcc `json:"accesses"`
	TypeErrors int      `json:"type_errors"`
	FakeImport []string `json:"unresolved_imports,omitempty"`
	Notes      []string `json:"notes,omitempty"`
	// functions only ever called with a variable locked ("var: func (mode)")
	CalledLocked []string `json:"called_with_lock_held,omitempty"`
	Assumptions  []string `json:"assumptions"`
}

// ---------------------------------------------------------------- locating the repository

// repoUnderTest: VERIF_REPO, else the replace target recorded in this
// binary's build information (check.py writes the replace line before
// building), else the replace line of harness/go.mod next to the binary.
func repoUnderTest() (string, error) {
	if p := os.Getenv("VERIF_REPO"); p != "" {
		return p, nil
	}
	if bi, ok := debug.ReadBuildInfo(); ok {
		for _, d := range bi.Deps {
			if d.Path == "go.pennock.tech/tabular" && d.Replace != nil && d.Replace.Path != "" {
				return d.Replace.Path, nil
			}
		}
	}
	for _, cand := range []string{
		filepath.Join(filepath.Dir(os.Args[0]), "harness", "go.mod"),
		filepath.Join(filepath.Dir(os.Args[0]), "go.mod"),
		"go.mod",
	} {
		b, err := os.ReadFile(cand)
		if err != nil {
			continue
		}
		for _, ln := range strings.Split(string(b), "\n") {
			f := strings.Fields(ln)
			if len(f) >= 4 && f[0] == "replace" && f[2] == "=>" {
				return f[3], nil
			}
		}
	}
	return "", fmt.Errorf("cannot tell which repository is under test (no VERIF_REPO, no replace in build info or go.mod)")
}

// ---------------------------------------------------------------- loading

type sfLoader struct {
	fset     *token.FileSet
	repo     string
	module   string
	requires map[string]string // module path -> version
	modcache string
	std      types.Importer
	pkgs     map[string]*types.Package
	infos    map[string]*types.Info
	files    map[string][]*ast.File
	busy     map[string]bool
	ctxt     build.Context
	nerr     int
	fake     map[string]bool
	nfiles   int
}

func (l *sfLoader) Import(path string) (*types.Package, error) { return l.ImportFrom(path, "", 0) }

func (l *sfLoader) ImportFrom(path, _ string, _ types.ImportMode) (*types.Package, error) {
	if path == "unsafe" {
		return types.Unsafe, nil
	}
	if p := l.pkgs[path]; p != nil {
		return p, nil
	}
	if path == "C" || l.busy[path] {
		return l.fakePkg(path), nil
	}
	if path == l.module || strings.HasPrefix(path, l.module+"/") {
		dir := filepath.Join(l.repo, strings.TrimPrefix(strings.TrimPrefix(path, l.module), "/"))
		if p := l.checkDir(dir, path, true); p != nil {
			return p, nil
		}
		return l.fakePkg(path), nil
	}
	first := path
	if i := strings.Index(path, "/"); i >= 0 {
		first = path[:i]
	}
	if !strings.Contains(first, ".") { // standard library
		if p, err := l.std.Import(path); err == nil && p != nil {
			l.pkgs[path] = p
			return p, nil
		}
		return l.fakePkg(path), nil
	}
	// third party: longest required module that prefixes the path
	best := ""
	for m := range l.requires {
		if (path == m || strings.HasPrefix(path, m+"/")) && len(m) > len(best) {
			best = m
		}
	}
	if best != "" && l.modcache != "" {
		dir := filepath.Join(l.modcache, escapeModPath(best)+"@"+l.requires[best], strings.TrimPrefix(strings.TrimPrefix(path, best), "/"))
		if st, err := os.Stat(dir); err == nil && st.IsDir() {
			if p := l.checkDir(dir, path, false); p != nil {
				return p, nil
			}
		}
	}
	return l.fakePkg(path), nil
}

func escapeModPath(p string) string {
	var sb strings.Builder
	for _, r := range p {
		if r >= 'A' && r <= 'Z' {
			sb.WriteByte('!')
			sb.WriteRune(r + 'a' - 'A')
		} else {
			sb.WriteRune(r)
		}
	}
	return sb.String()
}

func (l *sfLoader) fakePkg(path string) *types.Package {
	name := path
	if i := strings.LastIndex(path, "/"); i >= 0 {
		name = path[i+1:]
	}
	p := types.NewPackage(path, name)
	p.MarkComplete()
	l.pkgs[path] = p
	l.fake[path] = true
	return p
}

// parseDir parses the non-test files of dir that the build would compile.
func (l *sfLoader) parseDir(dir string) (map[string][]*ast.File, error) {
	ents, err := os.ReadDir(dir)
	if err != nil {
		return nil, err
	}
	byPkg := map[string][]*ast.File{}
	for _, e := range ents {
		n := e.Name()
		if e.IsDir() || !strings.HasSuffix(n, ".go") || strings.HasSuffix(n, "_test.go") {
			continue
		}
		if ok, err := l.ctxt.MatchFile(dir, n); err != nil || !ok {
			continue
		}
		f, err := parser.ParseFile(l.fset, filepath.Join(dir, n), nil, parser.SkipObjectResolution)
		if err != nil {
			return nil, err
		}
		byPkg[f.Name.Name] = append(byPkg[f.Name.Name], f)
	}
	return byPkg, nil
}

func (l *sfLoader) checkDir(dir, path string, keep bool) *types.Package {
	byPkg, err := l.parseDir(dir)
	if err != nil || len(byPkg) == 0 {
		return nil
	}
	// the package a directory provides to importers: the one that is not main, else the largest
	var name string
	for n, fs := range byPkg {
		if name == "" || (name == "main" && n != "main") || (n != "main" && len(fs) > len(byPkg[name])) {
			name = n
		}
	}
	files := byPkg[name]
	l.busy[path] = true
	defer delete(l.busy, path)
	info := &types.Info{
		Defs:       map[*ast.Ident]types.Object{},
		Uses:       map[*ast.Ident]types.Object{},
		Selections: map[*ast.SelectorExpr]*types.Selection{},
		Types:      map[ast.Expr]types.TypeAndValue{},
	}
	conf := types.Config{
		Importer:    l,
		FakeImportC: true,
		Error: func(error) {
			if keep {
				l.nerr++
			}
		},
	}
	pkg, _ := conf.Check(path, l.fset, files, info)
	if pkg == nil {
		return nil
	}
	l.pkgs[path] = pkg
	if keep {
		l.infos[path] = info
		l.files[path] = files
		l.nfiles += len(files)
	}
	return pkg
}

func readGoMod(repo string) (module string, requires map[string]string) {
	requires = map[string]string{}
	b, err := os.ReadFile(filepath.Join(repo, "go.mod"))
	if err != nil {
		return "", requires
	}
	inReq := false
	for _, ln := range strings.Split(string(b), "\n") {
		if i := strings.Index(ln, "//"); i >= 0 {
			ln = ln[:i]
		}
		f := strings.Fields(ln)
		switch {
		case len(f) >= 2 && f[0] == "module":
			module = strings.Trim(f[1], `"`)
		case len(f) >= 2 && f[0] == "require" && f[1] == "(":
			inReq = true
		case inReq && len(f) >= 1 && f[0] == ")":
			inReq = false
		case inReq && len(f) >= 2:
			requires[f[0]] = f[1]
		case len(f) >= 3 && f[0] == "require":
			requires[f[1]] = f[2]
		}
	}
	return
}

func modCacheDir() string {
	if p := os.Getenv("GOMODCACHE"); p != "" {
		return p
	}
	if p := os.Getenv("GOPATH"); p != "" {
		return filepath.Join(strings.Split(p, string(os.PathListSeparator))[0], "pkg", "mod")
	}
	if h, err := os.UserHomeDir(); err == nil {
		return filepath.Join(h, "go", "pkg", "mod")
	}
	return ""
}

// ---------------------------------------------------------------- the walk

func isSyncPkg(p *types.Package) bool {
	return p != nil && (p.Path() == "sync" || p.Path() == "sync/atomic")
}

func typeIsSync(t types.Type) bool {
	for i := 0; i < 4 && t != nil; i++ {
		switch x := t.(type) {
		case *types.Pointer:
			t = x.Elem()
			continue
		case *types.Named:
			return isSyncPkg(x.Obj().Pkg())
		}
		break
	}
	return false
}

// Standard-library types documented as safe for concurrent use by multiple
// goroutines; the value lists the methods that are NOT (configuration).
var sfConcurrencySafe = map[string]map[string]bool{
	"strings.Replacer": {},
	"regexp.Regexp":    {"Longest": true},
}

var sfAssumptions = []string{
	"methods of *strings.Replacer are safe for concurrent use by multiple goroutines (package strings documentation); calls of them on a package-level variable are treated as synchronisation, not as mutation",
	"methods of *regexp.Regexp except the configuration method Longest are safe for concurrent use by multiple goroutines (package regexp documentation); calls of them on a package-level variable are treated as synchronisation, not as mutation",
	"a function all of whose call sites in its package lie in a locked region of a variable (transitively) runs with that variable's lock held; call sites in _test.go files and in init functions are not considered",
	"the lock rule is lexical within a function: branches and early unlocks on other paths are not followed",
}

// safeMethod: f is a method of a whitelisted concurrency-safe type
func safeMethod(f *types.Func) bool {
	sig, ok := f.Type().(*types.Signature)
	if !ok || sig.Recv() == nil {
		return false
	}
	t := sig.Recv().Type()
	if p, ok := t.(*types.Pointer); ok {
		t = p.Elem()
	}
	n, ok := t.(*types.Named)
	if !ok || n.Obj().Pkg() == nil {
		return false
	}
	excl, ok := sfConcurrencySafe[n.Obj().Pkg().Path()+"."+n.Obj().Name()]
	return ok && !excl[f.Name()]
}

// carriesMutex: a struct with a field of a sync type
func carriesMutex(t types.Type) bool {
	if p, ok := t.(*types.Pointer); ok {
		t = p.Elem()
	}
	st, ok := t.Underlying().(*types.Struct)
	if !ok {
		return false
	}
	for i := 0; i < st.NumFields(); i++ {
		if typeIsSync(st.Field(i).Type()) {
			return true
		}
	}
	return false
}

type lockEvent struct {
	pos       token.Pos
	lock      bool
	exclusive bool // Lock / Unlock (not RLock / RUnlock)
	deferred  bool
}

type sfRawAcc struct {
	acc SrcAcc
	v   *types.Var
	pos token.Pos
}

type sfCall struct {
	callee *types.Func
	pos    token.Pos
	async  bool // go f() / defer f()
}

// sfFunc: what one function body contributes
type sfFunc struct {
	name   string
	obj    *types.Func // nil for literals
	decl   *ast.FuncDecl
	accs   []sfRawAcc
	events map[*types.Var][]lockEvent
	calls  []sfCall
}

// held: 0 = v not locked at pos in f, 1 = read-locked, 2 = exclusively locked
func (f *sfFunc) held(v *types.Var, pos token.Pos) int {
	evs := f.events[v]
	state, lastLock := 0, token.NoPos
	for _, ev := range evs {
		if ev.pos >= pos {
			break
		}
		if ev.lock {
			lastLock = ev.pos
			if ev.exclusive {
				state = 2
			} else {
				state = 1
			}
		} else if !ev.deferred {
			state = 0
		}
	}
	if state == 0 {
		return 0
	}
	for _, ev := range evs {
		if !ev.lock && ev.pos > lastLock {
			return state
		}
	}
	return 0 // never released: not a lock region we understand
}

type sfWalker struct {
	l       *sfLoader
	rel     string // package id: directory relative to the module root
	info    *types.Info
	pkg     *types.Package
	tracked map[*types.Var]string // package-level var -> package id
	out     *SrcFacts
	funcs   []*sfFunc
}

func (w *sfWalker) pkgLevel(o types.Object) *types.Var {
	v, ok := o.(*types.Var)
	if !ok || v == nil || v.IsField() {
		return nil
	}
	if _, ok := w.tracked[v]; ok {
		return v
	}
	return nil
}

// root finds the package-level variable an expression is a part of.
func (w *sfWalker) root(e ast.Expr) (v *types.Var, path []string, bare bool) {
	bare = true
	for {
		switch x := e.(type) {
		case *ast.ParenExpr:
			e = x.X
		case *ast.SelectorExpr:
			if id, ok := x.X.(*ast.Ident); ok {
				if _, isPkg := w.info.Uses[id].(*types.PkgName); isPkg {
					if pv := w.pkgLevel(w.info.Uses[x.Sel]); pv != nil {
						return pv, path, bare
					}
					return nil, nil, false
				}
			}
			path = append([]string{x.Sel.Name}, path...)
			bare = false
			e = x.X
		case *ast.IndexExpr:
			bare = false
			e = x.X
		case *ast.StarExpr:
			bare = false
			e = x.X
		case *ast.SliceExpr:
			bare = false
			e = x.X
		case *ast.TypeAssertExpr:
			bare = false
			e = x.X
		case *ast.Ident:
			o := w.info.Uses[x]
			if o == nil {
				o = w.info.Defs[x]
			}
			if pv := w.pkgLevel(o); pv != nil {
				return pv, path, bare
			}
			return nil, nil, false
		default:
			return nil, nil, false
		}
	}
}

func funcName(fd *ast.FuncDecl) string {
	if fd.Recv != nil && len(fd.Recv.List) > 0 {
		t := fd.Recv.List[0].Type
		for {
			switch x := t.(type) {
			case *ast.StarExpr:
				t = x.X
				continue
			case *ast.IndexExpr:
				t = x.X
				continue
			case *ast.ParenExpr:
				t = x.X
				continue
			}
			break
		}
		if id, ok := t.(*ast.Ident); ok {
			return id.Name + "." + fd.Name.Name
		}
	}
	return fd.Name.Name
}

// body walks one function body (nested literals included: "the same
// function" for the lexical lock rule - except the literal of a
// `go func() {...}()` statement, which is walked as a function of its own).
func (w *sfWalker) body(fn string, decl *ast.FuncDecl, body ast.Node) {
	if body == nil {
		return
	}
	f := &sfFunc{name: fn, decl: decl, events: map[*types.Var][]lockEvent{}}
	if decl != nil {
		f.obj, _ = w.info.Defs[decl.Name].(*types.Func)
	}
	w.funcs = append(w.funcs, f)
	deferred := map[*ast.CallExpr]bool{}
	async := map[*ast.CallExpr]bool{}
	mutated := map[ast.Expr]bool{}
	var goLits []*ast.FuncLit
	skip := map[*ast.FuncLit]bool{}

	add := func(e ast.Expr, kind, meth string, sync bool, forceField bool) {
		v, path, bare := w.root(e)
		if v == nil {
			return
		}
		k := kind
		if kind == "assign" && (!bare || forceField) {
			k = "field-assign"
		}
		p := w.l.fset.Position(e.Pos())
		f.accs = append(f.accs, sfRawAcc{SrcAcc{Pkg: w.tracked[v], Var: v.Name(), Path: strings.Join(path, "."), Meth: meth, Kind: k, Func: fn,
			Line: p.Line, col: p.Column, file: p.Filename, Sync: sync || typeIsSync(v.Type())}, v, e.Pos()})
		for x := e; x != nil; {
			mutated[x] = true
			switch y := x.(type) {
			case *ast.ParenExpr:
				x = y.X
			case *ast.IndexExpr:
				x = y.X
			case *ast.StarExpr:
				x = y.X
			case *ast.SliceExpr:
				x = y.X
			default:
				x = nil
			}
		}
	}

	ast.Inspect(body, func(n ast.Node) bool {
		switch x := n.(type) {
		case *ast.FuncLit:
			if skip[x] {
				return false
			}
		case *ast.GoStmt:
			async[x.Call] = true
			if fl, ok := x.Call.Fun.(*ast.FuncLit); ok {
				skip[fl] = true
				goLits = append(goLits, fl)
			}
		case *ast.DeferStmt:
			deferred[x.Call] = true
			async[x.Call] = true
		case *ast.AssignStmt:
			if x.Tok != token.DEFINE {
				for _, lhs := range x.Lhs {
					add(lhs, "assign", "", false, false)
				}
			}
		case *ast.IncDecStmt:
			add(x.X, "assign", "", false, false)
		case *ast.RangeStmt:
			if x.Tok == token.ASSIGN {
				if x.Key != nil {
					add(x.Key, "assign", "", false, false)
				}
				if x.Value != nil {
					add(x.Value, "assign", "", false, false)
				}
			}
		case *ast.UnaryExpr:
			if x.Op == token.AND {
				add(x.X, "addr", "", false, false)
			}
		case *ast.CallExpr:
			fun := x.Fun
			for {
				if p, ok := fun.(*ast.ParenExpr); ok {
					fun = p.X
					continue
				}
				break
			}
			if id, ok := fun.(*ast.Ident); ok {
				switch o := w.info.Uses[id].(type) {
				case *types.Builtin:
					if len(x.Args) > 0 {
						switch id.Name {
						case "append":
							add(x.Args[0], "append-dst", "", false, false)
						case "delete", "copy", "clear":
							add(x.Args[0], "assign", "", false, true)
						}
					}
				case *types.Func:
					if o.Pkg() == w.pkg {
						f.calls = append(f.calls, sfCall{callee: o, pos: x.Pos(), async: async[x]})
					}
				}
			}
			if sel, ok := fun.(*ast.SelectorExpr); ok {
				ptrRecv, syncM, lockM, known := false, false, false, false
				if s := w.info.Selections[sel]; s != nil {
					known = true
					if s.Kind() == types.MethodVal {
						if mf, ok := s.Obj().(*types.Func); ok {
							if sig, ok := mf.Type().(*types.Signature); ok && sig.Recv() != nil {
								_, ptrRecv = sig.Recv().Type().(*types.Pointer)
							}
							lockM = isSyncPkg(mf.Pkg())
							syncM = lockM || safeMethod(mf)
						}
					}
				}
				name := sel.Sel.Name
				isLockName := name == "Lock" || name == "Unlock" || name == "RLock" || name == "RUnlock"
				if !known && isLockName {
					// the method could not be resolved (sync not loadable): go by the name
					if v, _, _ := w.root(sel.X); v != nil {
						ptrRecv, syncM, lockM = true, true, true
					}
				}
				if ptrRecv {
					add(sel.X, "ptr-call", name, syncM, false)
					if lockM && isLockName {
						if v, _, _ := w.root(sel.X); v != nil {
							f.events[v] = append(f.events[v], lockEvent{pos: x.Pos(), lock: name == "Lock" || name == "RLock",
								exclusive: name == "Lock" || name == "Unlock", deferred: deferred[x]})
						}
					}
				}
			}
		}
		return true
	})

	// reads of the guarded parts of mutex-carrying variables
	ast.Inspect(body, func(n ast.Node) bool {
		if fl, ok := n.(*ast.FuncLit); ok && skip[fl] {
			return false
		}
		sel, ok := n.(*ast.SelectorExpr)
		if !ok || mutated[sel] {
			return true
		}
		v, path, _ := w.root(sel)
		if v == nil || len(path) == 0 || !carriesMutex(v.Type()) {
			return true
		}
		if s := w.info.Selections[sel]; s != nil {
			if s.Kind() != types.FieldVal || typeIsSync(s.Type()) {
				return true // a method value / the mutex itself
			}
		} else {
			return true
		}
		p := w.l.fset.Position(sel.Pos())
		f.accs = append(f.accs, sfRawAcc{SrcAcc{Pkg: w.tracked[v], Var: v.Name(), Path: strings.Join(path, "."), Kind: "read", Func: fn,
			Line: p.Line, col: p.Column, file: p.Filename}, v, sel.Pos()})
		return true
	})
	for v := range f.events {
		evs := f.events[v]
		sort.Slice(evs, func(i, j int) bool { return evs[i].pos < evs[j].pos })
	}
	for _, fl := range goLits {
		w.body(fn+".go-func", nil, fl.Body)
	}
}

// finish decides `locked` for every access of the package: lexically, or
// because the enclosing function is only ever called with the variable locked.
func (w *sfWalker) finish(files []*ast.File) {
	// every mention of a package function that is not a call takes its value
	callIdent := map[*ast.Ident]bool{}
	for _, file := range files {
		ast.Inspect(file, func(n ast.Node) bool {
			if c, ok := n.(*ast.CallExpr); ok {
				fun := c.Fun
				for {
					if p, ok := fun.(*ast.ParenExpr); ok {
						fun = p.X
						continue
					}
					break
				}
				if id, ok := fun.(*ast.Ident); ok {
					callIdent[id] = true
				}
			}
			return true
		})
	}
	valueTaken := map[*types.Func]bool{}
	for _, file := range files {
		ast.Inspect(file, func(n ast.Node) bool {
			if id, ok := n.(*ast.Ident); ok && !callIdent[id] {
				if fo, ok := w.info.Uses[id].(*types.Func); ok && fo.Pkg() == w.pkg {
					valueTaken[fo] = true
				}
			}
			return true
		})
	}
	type site struct {
		in *sfFunc
		c  sfCall
	}
	sites := map[*types.Func][]site{}
	vars := map[*types.Var]bool{}
	for _, f := range w.funcs {
		for _, c := range f.calls {
			sites[c.callee] = append(sites[c.callee], site{f, c})
		}
		for v := range f.events {
			vars[v] = true
		}
	}
	var cands []*sfFunc
	for _, f := range w.funcs {
		if f.obj == nil || f.decl == nil || f.decl.Recv != nil || ast.IsExported(f.decl.Name.Name) ||
			f.decl.Name.Name == "main" || f.decl.Name.Name == "init" || valueTaken[f.obj] || len(sites[f.obj]) == 0 {
			continue
		}
		cands = append(cands, f)
	}
	// greatest fixpoint per variable and mode (1 = some lock, 2 = exclusive)
	cl := map[*types.Var][3]map[*types.Func]bool{}
	for v := range vars {
		var sets [3]map[*types.Func]bool
		for mode := 1; mode <= 2; mode++ {
			set := map[*types.Func]bool{}
			for _, f := range cands {
				set[f.obj] = true
			}
			for changed := true; changed; {
				changed = false
				for _, f := range cands {
					if !set[f.obj] {
						continue
					}
					for _, s := range sites[f.obj] {
						ok := !s.c.async && (s.in.held(v, s.c.pos) >= mode || (s.in.obj != nil && set[s.in.obj]))
						if !ok {
							delete(set, f.obj)
							changed = true
							break
						}
					}
				}
			}
			sets[mode] = set
		}
		cl[v] = sets
		for _, f := range cands {
			if sets[1][f.obj] {
				mode := "shared"
				if sets[2][f.obj] {
					mode = "exclusive"
				}
				w.out.CalledLocked = append(w.out.CalledLocked, fmt.Sprintf("%s %s: %s (%s, %d call sites)", w.rel, v.Name(), f.name, mode, len(sites[f.obj])))
			}
		}
	}
	for _, f := range w.funcs {
		for _, ra := range f.accs {
			a := ra.acc
			need := 2
			if a.Kind == "read" {
				need = 1
			}
			switch {
			case f.held(ra.v, ra.pos) >= need:
				a.Locked, a.Via = true, "lexical"
			case f.obj != nil && cl[ra.v][need] != nil && cl[ra.v][need][f.obj]:
				a.Locked, a.Via = true, "callers"
			}
			if rel, err := filepath.Rel(w.l.repo, a.file); err == nil {
				a.Pos = fmt.Sprintf("%s:%d", filepath.ToSlash(rel), a.Line)
			} else {
				a.Pos = fmt.Sprintf("%s:%d", a.file, a.Line)
			}
			w.out.Accs = append(w.out.Accs, a)
		}
	}
}

func collectSrcFacts(repo string) (*SrcFacts, error) {
	repo, err := filepath.Abs(repo)
	if err != nil {
		return nil, err
	}
	module, requires := readGoMod(repo)
	if module == "" {
		return nil, fmt.Errorf("no module line in %s/go.mod", repo)
	}
	fset := token.NewFileSet()
	ctxt := build.Default
	ctxt.BuildTags = append(append([]string{}, ctxt.BuildTags...), "verif")
	l := &sfLoader{fset: fset, repo: repo, module: module, requires: requires, modcache: modCacheDir(),
		std:  importer.ForCompiler(fset, "source", nil),
		pkgs: map[string]*types.Package{}, infos: map[string]*types.Info{}, files: map[string][]*ast.File{},
		busy: map[string]bool{}, fake: map[string]bool{}, ctxt: ctxt}
	out := &SrcFacts{Repo: repo, Module: module}

	// every directory of the repository that holds Go files
	var dirs []string
	err = filepath.WalkDir(repo, func(p string, d os.DirEntry, err error) error {
		if err != nil {
			return err
		}
		if d.IsDir() {
			n := d.Name()
			if p != repo && (strings.HasPrefix(n, ".") || strings.HasPrefix(n, "_") || n == "testdata" || n == "vendor") {
				return filepath.SkipDir
			}
			dirs = append(dirs, p)
		}
		return nil
	})
	if err != nil {
		return nil, err
	}
	sort.Strings(dirs)
	rels := map[string]string{}
	for _, dir := range dirs {
		byPkg, err := l.parseDir(dir)
		if err != nil {
			return nil, err
		}
		if len(byPkg) == 0 {
			continue
		}
		rel, _ := filepath.Rel(repo, dir)
		rel = filepath.ToSlash(rel)
		path := module
		if rel != "." {
			path = module + "/" + rel
		}
		if len(byPkg) > 1 {
			out.Notes = append(out.Notes, fmt.Sprintf("%s: %d package clauses in one directory, the importable one is walked", rel, len(byPkg)))
		}
		if _, err := l.Import(path); err != nil {
			return nil, err
		}
		if l.infos[path] == nil {
			return nil, fmt.Errorf("package %s could not be loaded", path)
		}
		rels[path] = rel
		out.Packages = append(out.Packages, rel)
	}

	// package-level variables of all packages first (accesses cross packages)
	tracked := map[*types.Var]string{}
	var paths []string
	for p := range rels {
		paths = append(paths, p)
	}
	sort.Strings(paths)
	for _, path := range paths {
		info, rel := l.infos[path], rels[path]
		qual := func(p *types.Package) string { return p.Path() }
		for _, f := range l.files[path] {
			for _, d := range f.Decls {
				gd, ok := d.(*ast.GenDecl)
				if !ok || gd.Tok != token.VAR {
					continue
				}
				for _, sp := range gd.Specs {
					vs := sp.(*ast.ValueSpec)
					for _, id := range vs.Names {
						if id.Name == "_" {
							continue
						}
						v, _ := info.Defs[id].(*types.Var)
						ts, sy := "?", false
						if v != nil {
							tracked[v] = rel
							ts = types.TypeString(v.Type(), qual)
							sy = typeIsSync(v.Type())
						}
						pos := fset.Position(id.Pos())
						fr, _ := filepath.Rel(repo, pos.Filename)
						out.Vars = append(out.Vars, SrcVar{Pkg: rel, Name: id.Name, Type: ts, Sync: sy, Pos: fmt.Sprintf("%s:%d", filepath.ToSlash(fr), pos.Line)})
					}
				}
			}
		}
	}
	for _, path := range paths {
		w := &sfWalker{l: l, rel: rels[path], info: l.infos[path], pkg: l.pkgs[path], tracked: tracked, out: out}
		for _, f := range l.files[path] {
			for _, d := range f.Decls {
				switch x := d.(type) {
				case *ast.FuncDecl:
					if x.Body == nil {
						continue
					}
					if x.Recv == nil && x.Name.Name == "init" {
						// init itself runs before any goroutine of the program; literals in it may run later
						ast.Inspect(x.Body, func(n ast.Node) bool {
							if fl, ok := n.(*ast.FuncLit); ok {
								w.body("init.func", nil, fl.Body)
								return false
							}
							return true
						})
						continue
					}
					w.body(funcName(x), x, x.Body)
				case *ast.GenDecl:
					if x.Tok != token.VAR {
						continue
					}
					for _, sp := range x.Specs {
						for _, val := range sp.(*ast.ValueSpec).Values {
							ast.Inspect(val, func(n ast.Node) bool {
								if fl, ok := n.(*ast.FuncLit); ok {
									w.body("var-initialiser.func", nil, fl.Body)
									return false
								}
								return true
							})
						}
					}
				}
			}
		}
		w.finish(l.files[path])
	}
	sort.Strings(out.CalledLocked)
	out.Assumptions = sfAssumptions
	sort.SliceStable(out.Accs, func(i, j int) bool {
		a, b := out.Accs[i], out.Accs[j]
		if a.file != b.file {
			return a.file < b.file
		}
		if a.Line != b.Line {
			return a.Line < b.Line
		}
		if a.col != b.col {
			return a.col < b.col
		}
		return a.Kind < b.Kind
	})
	sort.SliceStable(out.Vars, func(i, j int) bool {
		if out.Vars[i].Pkg != out.Vars[j].Pkg {
			return out.Vars[i].Pkg < out.Vars[j].Pkg
		}
		return out.Vars[i].Pos < out.Vars[j].Pos
	})
	out.Files = l.nfiles
	out.TypeErrors = l.nerr
	for p := range l.fake {
		out.FakeImport = append(out.FakeImport, p)
	}
	sort.Strings(out.FakeImport)
	return out, nil
}

// ---------------------------------------------------------------- verdict mirror and Coq emission

// accOK mirrors Model/Sched.v fact_ok (for the human-readable description
// only; the verdict is the Coq evaluation of shared_ok on the emitted term).
func accOK(a SrcAcc) bool {
	regTable := a.Path != "" // a field of a mutex-carrying variable; Locked is about that variable's own mutex
	switch a.Kind {
	case "read":
		return a.Locked
	case "addr":
		return a.Sync
	default:
		return a.Sync || (regTable && a.Locked)
	}
}

func (f *SrcFacts) Offending() []SrcAcc {
	var out []SrcAcc
	for _, a := range f.Accs {
		if !accOK(a) {
			out = append(out, a)
		}
	}
	return out
}

func sfBytes(s string) string {
	b := []byte(s)
	if len(b) == 0 {
		return "(B 0%nat [])"
	}
	var sb strings.Builder
	fmt.Fprintf(&sb, "(B %d%%nat [", len(b))
	for i := 0; i < len(b); i += 7 {
		var w uint64
		for j := 6; j >= 0; j-- {
			w <<= 8
			if i+j < len(b) {
				w |= uint64(b[i+j])
			}
		}
		if i > 0 {
			sb.WriteString(";")
		}
		fmt.Fprintf(&sb, "%d", w)
	}
	sb.WriteString("]%uint63)")
	return sb.String()
}

var sfKinds = map[string]string{"assign": "AAssign", "addr": "AAddr", "field-assign": "AFieldAssign", "append-dst": "AAppendDst", "ptr-call": "APtrCall", "read": "ARead"}

func sfBool(b bool) string {
	if b {
		return "true"
	}
	return "false"
}

// CoqList: the facts as a Coq term of type `list fact`.
func (f *SrcFacts) CoqList() string {
	var xs []string
	for _, v := range f.Vars {
		xs = append(xs, fmt.Sprintf("FVar %s %s %s %s", sfBytes(v.Pkg), sfBytes(v.Name), sfBytes(v.Type), sfBool(v.Sync)))
	}
	for _, a := range f.Accs {
		xs = append(xs, fmt.Sprintf("FAcc %s %s %s %s %s %s %d%%nat %s %s", sfBytes(a.Pkg), sfBytes(a.Var), sfBytes(a.Path), sfBytes(a.Meth),
			sfKinds[a.Kind], sfBytes(a.Func), a.Line, sfBool(a.Sync), sfBool(a.Locked)))
	}
	if len(xs) == 0 {
		return "(@nil fact)"
	}
	return "[\n   " + strings.Join(xs, ";\n   ") + "]"
}

// CoqFile: a stand-alone SrcFacts.v (compile with `coqc -R <verif>/coq Tab`).
func (f *SrcFacts) CoqFile() string {
	var sb strings.Builder
	fmt.Fprintf(&sb, "(* generated by srcfacts from %s (module %s): %d packages, %d files, %d package-level vars, %d accesses.\n   Do not edit, do not commit: it is regenerated on every run. *)\n",
		f.Repo, f.Module, len(f.Packages), f.Files, len(f.Vars), len(f.Accs))
	sb.WriteString("From Tab Require Import Run.Glue Model.Sched.\n\n")
	for _, v := range f.Vars {
		fmt.Fprintf(&sb, "(* var  %-22s %-26s %s%s   %s *)\n", v.Pkg, v.Name, v.Type, map[bool]string{true: "  [sync]", false: ""}[v.Sync], v.Pos)
	}
	for _, a := range f.Accs {
		fmt.Fprintf(&sb, "(* acc  %-22s %s.%s %s %s in %s at %s sync=%v locked=%v %s *)\n", a.Pkg, a.Var, a.Path, a.Kind, a.Meth, a.Func, a.Pos, a.Sync, a.Locked, a.Via)
	}
	fmt.Fprintf(&sb, "\nDefinition facts : list fact := %s.\n\n", f.CoqList())
	sb.WriteString("Definition shared_ok_facts : bool := Eval vm_compute in shared_ok facts.\nPrint shared_ok_facts.\n")
	sb.WriteString("Definition offending_facts : list fact := Eval vm_compute in offending facts.\nPrint offending_facts.\n\n")
	sb.WriteString("(* fails to compile when the inventory is rejected *)\nTheorem srcfacts_confined : shared_ok facts = true.\nProof. vm_compute. reflexivity. Qed.\n")
	return sb.String()
}
