package main

// C10, round 6: two families of histories the check never produced.
//
//  1. OBSERVER CALLBACKS.  RegisterPropertyCallback accepts an application's
//     callback on four kinds of owner (table, column, row, cell), at four times
//     (add, pre-cell, render, post-cell), for three targets (itself, cell, row).
//     A callback may return an error; the library records it on the table and
//     carries on.  An observer reads what it is given and never changes it, so
//     it cannot change any rendering, whether it reports an error or not,
//     wherever it stands in a callback list relative to the callbacks that the
//     rendering wrappers register for themselves (that order depends on the
//     creation path: X.New registers at once, tabular.New when first wrapped).
//     C10Spec.Obs lists observers; every variant registers them on its own
//     table (C10Variant.ObsLate: when).
//
//  2. THE TARGET WRAPPER'S OWN HISTORY.  A wrapper is a mutable object.  Its
//     holder may set its options, render, set other options, render again ...
//     What it renders is its kind's output under the options it has NOW.
//     C10Variant.Retune = n: the wrapper the target render goes through first
//     gets n other settings of its options (text: the registered decorations in
//     turn, a hand-made one, an unknown name; html: Id/Class/Caption/
//     TemplateName/generator) with a render after each, then the target's
//     options.  New entry points: auto.Wrap(t, style).Render / RenderTo (9, 10)
//     and the created / outermost object itself when it is of the target's
//     kind (11).

import (
	"bytes"
	"errors"
	"fmt"
	htmltemplate "html/template"

	"go.pennock.tech/tabular"
	"go.pennock.tech/tabular/auto"
	"go.pennock.tech/tabular/csv"
	"go.pennock.tech/tabular/html"
	tjson "go.pennock.tech/tabular/json"
	"go.pennock.tech/tabular/markdown"
	"go.pennock.tech/tabular/texttable"
	"go.pennock.tech/tabular/texttable/decoration"
)

// C10Obs: one observer registration.
type C10Obs struct {
	Owner  string `json:"owner"`       // table | col (N: 0 = the default column) | row (N-th of AllRows) | cell (first cell of the N-th row that has cells) | hdr (N-th header cell)
	N      int    `json:"n,omitempty"` // which one
	When   int    `json:"when"`        // 0 CB_AT_ADD 1 CB_AT_RENDER_PRECELL 2 CB_AT_RENDER 3 CB_AT_RENDER_POSTCELL
	Target int    `json:"target"`      // 0 CB_ON_ITSELF 1 CB_ON_CELL 2 CB_ON_ROW
	Fail   int    `json:"fail"`        // 0 never reports; 1 always; 2 every second call; 3 for cells whose text has an odd number of bytes, and for anything that is not a cell
}

type c10Observer struct {
	mode  int
	calls *int
}

var errC10Observed = errors.New("c10 observer: reported")

func (o c10Observer) UpdateProperties(po tabular.PropertyOwner) error {
	*o.calls++
	switch o.mode {
	case 1:
		return errC10Observed
	case 2:
		if *o.calls%2 == 0 {
			return errC10Observed
		}
	case 3:
		if c, ok := po.(*tabular.Cell); !ok || len(c.String())%2 == 1 {
			return errC10Observed
		}
	}
	return nil
}

// c10RegisterObs registers the observers on the table behind obj.  phase 0:
// right after creation (only owners that exist on an empty table, and only
// when the variant does not defer them); phase 1: after nesting and building
// (everything not registered in phase 0).
func c10RegisterObs(obs []C10Obs, obj tabular.Table, late bool, phase int) {
	for _, o := range obs {
		canEarly := o.Owner == "table" || (o.Owner == "col" && o.N == 0)
		if phase == 0 && (late || !canEarly) {
			continue
		}
		if phase == 1 && canEarly && !late {
			continue
		}
		var owner tabular.PropertyOwner
		switch o.Owner {
		case "table":
			owner = obj
		case "col":
			if c := obj.Column(o.N); c != nil {
				owner = c
			}
		case "row":
			if rows := obj.AllRows(); len(rows) > 0 {
				owner = rows[o.N%len(rows)]
			}
		case "cell":
			n := o.N
			for i, r := range obj.AllRows() {
				if r.IsSeparator() || len(r.Cells()) == 0 {
					continue
				}
				if n == 0 {
					if c, err := obj.CellAt(tabular.CellLocation{Row: i + 1, Column: 1}); err == nil {
						owner = c
					}
					break
				}
				n--
			}
		case "hdr":
			if h := obj.Headers(); len(h) > 0 {
				owner = &h[o.N%len(h)]
			}
		}
		if owner == nil {
			continue
		}
		when := tabular.CB_AT_ADD
		switch o.When {
		case 1:
			when = tabular.CB_AT_RENDER_PRECELL
		case 2:
			when = tabular.CB_AT_RENDER
		case 3:
			when = tabular.CB_AT_RENDER_POSTCELL
		}
		target := tabular.CB_ON_ITSELF
		switch o.Target {
		case 1:
			target = tabular.CB_ON_CELL
		case 2:
			target = tabular.CB_ON_ROW
		}
		// combinations the library refuses return an error and register nothing
		obj.RegisterPropertyCallback(owner, when, target, c10Observer{mode: o.Fail, calls: new(int)})
	}
}

func c10IsKind(x interface{}, f string) bool {
	switch x.(type) {
	case *csv.CSVTable:
		return f == "csv"
	case *html.HTMLTable:
		return f == "html"
	case *tjson.JSONTable:
		return f == "json"
	case *markdown.MarkdownTable:
		return f == "markdown"
	case *texttable.TextTable:
		return f == "text"
	}
	return false
}

func c10TargetDecor(sp C10Spec) string {
	if sp.Decor == "" {
		return decoration.D_UTF8_HEAVY // texttable.Wrap's default, by its registered name
	}
	return sp.Decor
}

// c10OtherOptions: the holder sets options other than the target's on its wrapper.
func c10OtherOptions(sp C10Spec, w RenderW, n int) {
	if n < 0 {
		n = -n
	}
	switch x := w.(type) {
	case *texttable.TextTable:
		names := decoration.RegisteredDecorationNames()
		k := n % (len(names) + 2)
		switch {
		case k < len(names):
			if names[k] == c10TargetDecor(sp) {
				k = (k + 1) % len(names)
			}
			x.SetDecorationNamed(names[k])
		case k == len(names):
			d := decoration.UTF8BoxDouble()
			d.TopLeft, d.TopRight, d.BottomLeft, d.BottomRight = "T", "T", "T", "T"
			d.HOuter, d.HRule = "=", "~"
			x.SetDecoration(d)
		default:
			x.SetDecorationNamed("c10-no-such-decoration") // renders through it fail until it is given a decoration again
		}
	case *html.HTMLTable:
		x.Caption, x.Class, x.Id = fmt.Sprintf("caption %d", n), fmt.Sprintf("class-%d", n), fmt.Sprintf("id-%d", n)
		x.TemplateName = fmt.Sprintf("template-%d", n)
		if n%2 == 0 {
			x.SetRowClassGenerator(func(i int, ctx interface{}) htmltemplate.HTMLAttr {
				return htmltemplate.HTMLAttr(fmt.Sprintf("other-%d-%v", i, ctx))
			}, n)
		} else {
			x.SetRowClassGenerator(nil, nil)
		}
	}
}

// c10TargetOptions: the holder gives its wrapper the target's options.
func c10TargetOptions(sp C10Spec, w RenderW, alt bool, setGen func(*html.HTMLTable)) {
	switch x := w.(type) {
	case *texttable.TextTable:
		if alt && sp.Decor == "" {
			x.SetDecoration(decoration.UTF8BoxHeavy())
		} else {
			x.SetDecorationNamed(c10TargetDecor(sp))
		}
	case *html.HTMLTable:
		x.Caption, x.Class, x.Id, x.TemplateName = "", "", "", ""
		x.SetRowClassGenerator(nil, nil)
		setGen(x)
	}
}

// c10RenderOwn: the target render through a wrapper object with a history of its own.
func c10RenderOwn(sp C10Spec, v C10Variant, obj tabular.Table, early RenderW, setGen func(*html.HTMLTable)) (string, error) {
	w := early
	viaAuto := false
	if w == nil {
		switch {
		case v.Entry == 9 || v.Entry == 10:
			w = auto.Wrap(obj, c10StyleN(sp, len(v.Nest)+v.Sty))
			viaAuto = true
		case v.Entry == 11 && c10IsKind(obj, sp.Fmt):
			w = obj.(RenderW)
		default:
			w = c10WrapKind(obj, sp.Fmt).(RenderW)
		}
	}
	for j := 0; j < v.Retune; j++ {
		c10OtherOptions(sp, w, j*5+v.Sty)
		if j%2 == 0 {
			capture(w.Render)
		} else {
			capture(func() (string, error) { return "", w.RenderTo(&collectWriter{failAt: -1}) })
		}
	}
	if viaAuto && v.Retune == 0 {
		// the style string alone says what the options are
		if ht, ok := w.(*html.HTMLTable); ok {
			setGen(ht)
		}
	} else {
		c10TargetOptions(sp, w, (v.Retune+v.Sty)%2 == 1, setGen)
	}
	switch v.Entry % 3 {
	case 0:
		return w.Render()
	case 1:
		b := &bytes.Buffer{}
		if err := w.RenderTo(b); err != nil {
			return "", err
		}
		return b.String(), nil
	}
	cw := &collectWriter{failAt: -1}
	if err := w.RenderTo(cw); err != nil {
		return "", err
	}
	return string(cw.acc), nil
}

// c10R6Variants: wrapper objects with a history of their own, on every creation path.
func c10R6Variants(r *RNG, tier string) []C10Variant {
	var vs []C10Variant
	n := 0
	for i, p := range c10Paths {
		// the new entry points, plain
		for _, e := range []int{9, 10, 11} {
			v := C10Variant{Path: p, BuildFirst: n%3 != 0, Entry: e, Sty: n}
			if n%4 == 1 {
				v.Nest = []string{c10Kinds[(i+n)%5]}
			}
			vs = append(vs, v)
			n++
		}
		// every kind of wrapper object (own Wrap, auto.Wrap, the created object,
		// one made before the other renders), re-configured between renders
		for _, e := range []int{0, 2, 6, 9, 10, 11} {
			v := C10Variant{Path: p, BuildFirst: n%3 != 1, Entry: e, Sty: n, Retune: 1 + n%3}
			if n%5 == 2 {
				v.Nest = []string{c10Kinds[(i+n)%5]}
			}
			if n%7 == 4 {
				v.Pre = []string{"text", fmt.Sprintf("auto:%d", n)}
			}
			vs = append(vs, v)
			n++
		}
		vs = append(vs, C10Variant{Path: p, BuildFirst: i%2 == 0, Entry: i % 3, TargetFirst: true, Retune: 1 + i%4, Sty: i, Pre: []string{"markdown", "text"}})
		vs = append(vs, C10Variant{Path: p, BuildFirst: true, Entry: 9 + i%3, Retune: 2, Sty: i + 1, Tune: 1 | 2 | 8})
	}
	// long histories: every registered decoration (and the hand-made and the unknown one) in turn
	long := 12
	if tier == "thorough" {
		long = 40
	}
	for i, p := range []string{"core", "texttable.New", "auto:texttable.ascii-simple", "html.New", "auto:none", "markdown.New"} {
		vs = append(vs, C10Variant{Path: p, BuildFirst: i%2 == 0, Entry: []int{0, 11, 9, 2, 10, 11}[i], Retune: long, Sty: i})
	}
	if tier == "thorough" {
		for i := 0; i < 120; i++ {
			v := C10Variant{Path: pick(r, c10Paths), BuildFirst: r.Bool(), Entry: pick(r, []int{0, 2, 6, 9, 10, 11}), Retune: 1 + r.Intn(6), Sty: r.Intn(40), TargetFirst: r.Pct(20)}
			for r.Pct(40) && len(v.Nest) < 3 {
				v.Nest = append(v.Nest, pick(r, c10Kinds))
			}
			if r.Pct(30) {
				v.Pre = []string{pick(r, c10Kinds)}
			}
			vs = append(vs, v)
		}
	}
	return vs
}

// c10ObsSets: the observers an application may register.  Exhaustive over
// owner kind x time x target x reporting pattern, split into sets so that a
// failure names a small set; the pure families first.
func c10ObsSets(r *RNG, tier string) [][]C10Obs {
	var sets [][]C10Obs
	// on the table, for each time: every target, one reporting pattern per set
	for fail := 0; fail < 4; fail++ {
		for when := 0; when < 4; when++ {
			if fail == 0 && when != 2 {
				continue
			}
			var s []C10Obs
			for target := 0; target < 3; target++ {
				s = append(s, C10Obs{Owner: "table", When: when, Target: target, Fail: fail})
			}
			sets = append(sets, s)
		}
	}
	// on columns (the default column, the first, the second), rows, body cells
	// and header cells: every time x target, always reporting / by content
	for _, fail := range []int{1, 3} {
		for _, owner := range []string{"col", "row", "cell", "hdr"} {
			var s []C10Obs
			for when := 0; when < 4; when++ {
				for target := 0; target < 3; target++ {
					for n := 0; n < 3; n++ {
						if owner != "col" && n > 1 {
							continue
						}
						s = append(s, C10Obs{Owner: owner, N: n, When: when, Target: target, Fail: fail})
					}
				}
			}
			sets = append(sets, s)
		}
	}
	// everything at once, with every pattern
	var all []C10Obs
	for i, owner := range []string{"table", "col", "row", "cell", "hdr"} {
		for when := 0; when < 4; when++ {
			for target := 0; target < 3; target++ {
				all = append(all, C10Obs{Owner: owner, N: (when + target) % 2, When: when, Target: target, Fail: (i + when + target) % 4})
			}
		}
	}
	sets = append(sets, all)
	nr := 2
	if tier == "thorough" {
		nr = 30
	}
	for i := 0; i < nr; i++ {
		var s []C10Obs
		for j, k := 0, 1+r.Intn(5); j < k; j++ {
			s = append(s, C10Obs{Owner: pick(r, []string{"table", "table", "col", "row", "cell", "hdr"}), N: r.Intn(3), When: r.Intn(4), Target: r.Intn(3), Fail: r.Intn(4)})
		}
		sets = append(sets, s)
	}
	return sets
}

// c10ObsVariants: the variants an observer case is rendered along: the
// reference, the exhaustive block (creation paths x nesting depth <= 1), a
// sample of the rest, and the round-6 variants; every third registers the
// observers late.
func c10ObsVariants(r *RNG, tier string, salt int) []C10Variant {
	all := c10Variants(r, tier)
	ex := 1 + len(c10Paths)*(1+len(c10Kinds))
	var vs []C10Variant
	for i, v := range all {
		if i < ex || tier == "thorough" || (i+salt)%6 == 0 {
			vs = append(vs, v)
		}
	}
	for i := range vs {
		if i > 0 && (i+salt)%3 == 0 {
			vs[i].ObsLate = true
		}
	}
	return vs
}

// c10R6Specs: the observer cases.
func c10R6Specs(r *RNG, tier string, tables []TableSpec) []C10Spec {
	var out []C10Spec
	fmts := []struct{ f, d string }{{"text", ""}, {"markdown", ""}, {"text", "ascii-simple"}, {"csv", ""}, {"html", ""}, {"json", ""}, {"html", "gen"}}
	for i, set := range c10ObsSets(r, tier) {
		for j, fd := range fmts {
			// quick: every set against one of the two measuring formats, the other formats in turn
			if tier != "thorough" && ((j < 2 && j != i%2) || (j >= 2 && (i+j)%7 != 0)) {
				continue
			}
			ts := tables[(i+j)%len(tables)]
			out = append(out, C10Spec{Table: ts, Fmt: fd.f, Decor: fd.d, Obs: set, Variants: c10ObsVariants(r, tier, i+j)})
		}
	}
	return out
}
