package main

// C04, round 6: two families of inputs the earlier generators never made.
//
// ITEMS OF EVERY KIND, CELLS INCLUDED.  The property quantifies over the cells
// of a table whatever their items are; the earlier streams only stored strings
// and objects of the generated types.  A tabular.Cell is itself a legal item
// (NewCell(NewCell(x)); AddRowItems / AddHeaders wrap every argument in NewCell,
// so an application that makes its cells first and hands them to AddRowItems
// stores cells inside cells), by value or by pointer, to any depth; so are nil,
// runes, numbers, bools, slices, maps, structs, error values and by-value
// Stringers.  Whatever the item, the slot must hold the lines of the cell's
// text.  The expected view of a cell holding a cell is computed from the spec:
// text, width and height are those of the innermost item, and the item is a
// TerminalCellWidther (Cell has the method), so a single line is laid out as
// exactly that wide.
//
// ITEMS THAT RE-DECLARE THEIR SIZE.  An item that is mutated after it was added
// is picked up by Cell.Update (cell.go: "it is the mutator's responsibility to
// call Update").  What an item can change is its text, the width it declares
// and the height it declares - every subset of the three.  The earlier
// mutation histories only ever changed the text (to one of the same size).
// Here: build, render, then rounds of { change text / declared width /
// declared height of some items; Update the cells through CellAt / Headers (or
// deliberately not: then the cell must keep showing what it last read) ;
// render through the same wrapper }.  The last render is judged against the
// view in which every cell shows its item as of the cell's LAST READ.

import (
	"encoding/json"
	"fmt"
	"strings"

	"go.pennock.tech/tabular"
	"go.pennock.tech/tabular/length"
)

// every generated object type embeds objData, so this is in the method set of
// each of them: the harness reaches the mutable state of an item it finds in
// a cell of the table
func (d *objData) data() *objData { return d }

// Redecl: in round Round (1, 2, ...; a render follows every round) the item of
// the cell at (Row = index into Rows, -1 the header; Col) changes what it
// declares - SetS: its texts become S; W / H non-nil: its TerminalCellWidth()
// / Height() answers - and then the cell is updated (CellAt(...).Update() or
// (&Headers()[Col]).Update()) unless NoUpdate.  A Redecl that changes nothing
// is just an Update.  Only mutable ("obj") items can change; others are skipped.
type Redecl struct {
	Round    int    `json:"round"`
	Row      int    `json:"row"`
	Col      int    `json:"col"`
	SetS     bool   `json:"set_s,omitempty"`
	S        []byte `json:"s,omitempty"`
	W        *int   `json:"w,omitempty"`
	H        *int   `json:"h,omitempty"`
	NoUpdate bool   `json:"no_update,omitempty"`
}

func cloneTable(ts TableSpec) TableSpec {
	var c TableSpec
	b, _ := json.Marshal(ts)
	json.Unmarshal(b, &c)
	return c
}

func itemAt(ts *TableSpec, row, col int) *ItemSpec {
	if col < 0 {
		return nil
	}
	if row < 0 {
		if ts.Header != nil && col < len(*ts.Header) {
			return &(*ts.Header)[col]
		}
		return nil
	}
	if row < len(ts.Rows) && !ts.Rows[row].Sep && col < len(ts.Rows[row].Cells) {
		return &ts.Rows[row].Cells[col]
	}
	return nil
}

func (rd Redecl) applyTo(it *ItemSpec) {
	if rd.SetS {
		it.S, it.G, it.E = rd.S, rd.S, rd.S
	}
	if rd.W != nil {
		it.W = *rd.W
	}
	if rd.H != nil {
		it.H = *rd.H
	}
}

func redeclRounds(rds []Redecl) int {
	n := 0
	for _, rd := range rds {
		if rd.Round > n {
			n = rd.Round
		}
	}
	if n > 6 {
		n = 6
	}
	return n
}

// shownTable: the table spec in which every item is in the state its cell last
// read it in - computed from the spec alone
func shownTable(ts TableSpec, rds []Redecl) TableSpec {
	shown, live := cloneTable(ts), cloneTable(ts)
	for round := 1; round <= redeclRounds(rds); round++ {
		for _, rd := range rds {
			if rd.Round != round {
				continue
			}
			lit := itemAt(&live, rd.Row, rd.Col)
			if lit == nil || lit.K != "obj" {
				continue
			}
			rd.applyTo(lit)
			if !rd.NoUpdate {
				*itemAt(&shown, rd.Row, rd.Col) = *lit
			}
		}
	}
	return shown
}

// runRedeclRound performs one round on the real table
func runRedeclRound(ts TableSpec, t tabular.Table, rds []Redecl, round int) {
	for _, rd := range rds {
		if rd.Round != round {
			continue
		}
		if it := itemAt(&ts, rd.Row, rd.Col); it == nil || it.K != "obj" {
			continue
		}
		var cell *tabular.Cell
		if rd.Row < 0 {
			if h := t.Headers(); rd.Col < len(h) {
				cell = &h[rd.Col]
			}
		} else if c, err := t.CellAt(tabular.CellLocation{Row: ts.tableRow(rd.Row) + 1, Column: rd.Col + 1}); err == nil {
			cell = c
		}
		if cell == nil {
			continue // the table under test has no such cell: the render will not match the expected view
		}
		holder, ok := cell.Item().(interface{ data() *objData })
		if !ok {
			continue
		}
		od := holder.data()
		if rd.SetS {
			od.s, od.g, od.e = string(rd.S), string(rd.S), string(rd.S)
		}
		if rd.W != nil {
			od.w = *rd.W
		}
		if rd.H != nil {
			od.h = *rd.H
		}
		if !rd.NoUpdate {
			cell.Update()
		}
	}
}

// ---------------------------------------------------------------- expected view

// deepShown: what a cell made of this item shows - text, TerminalCellWidth(),
// Height(), whether Item() is a TerminalCellWidther - from the spec.  For a
// cell holding a cell these are the inner cell's; anything the spec cannot
// say (fmt %v of a map ...) is read off a FRESH library cell of the plain item.
func deepShown(it ItemSpec) (text string, tw, h int, widther bool) {
	switch it.K {
	case "cell", "pcell":
		if it.Inner == nil {
			return "", 0, 0, true
		}
		text, tw, h, _ = deepShown(*it.Inner)
		return text, tw, h, true
	case "str":
		text = string(it.B)
	case "obj":
		switch {
		case it.Mask&1 != 0:
			text = string(it.S)
		case it.Mask&2 != 0:
			text = string(it.G)
		case it.Mask&4 != 0:
			text = string(it.E)
		default:
			v, _ := it.Make()
			text = tabular.NewCell(v).String()
		}
	default:
		v, _ := it.Make()
		text = tabular.NewCell(v).String()
	}
	lines := strings.Split(text, "\n")
	if lines[len(lines)-1] == "" {
		lines = lines[:len(lines)-1]
	}
	for _, l := range lines {
		if x := length.StringCells(l); x > tw {
			tw = x
		}
	}
	h = len(lines)
	if it.K == "obj" {
		if it.Mask&16 != 0 {
			tw, widther = it.W, true
		}
		if it.Mask&8 != 0 {
			h = it.H
		}
	}
	if tw < 0 {
		tw = 0
	}
	if h < 1 {
		h = 0
		if tw > 0 {
			h = 1
		}
	}
	return
}

// forViewCells walks the spec's items together with the view's cells (the
// traversal of specSizes)
func forViewCells(ts TableSpec, v *View, f func(it ItemSpec, c *VCell)) {
	fix := func(items []ItemSpec, cells *[]VCell) {
		if cells == nil {
			return
		}
		for i := range *cells {
			if i < len(items) {
				f(items[i], &(*cells)[i])
			}
		}
	}
	hdr := ts.Header
	if ts.Header2 != nil {
		hdr = ts.Header2
	}
	if hdr != nil {
		fix(*hdr, v.Header)
	}
	k := 0
	for _, r := range ts.Rows {
		if r.Sep {
			k++
			continue
		}
		all := append(append([]ItemSpec{}, r.Cells...), r.Late...)
		n := 1
		if r.Twice && (r.How == 1 || r.How == 3) {
			n = 2
		}
		for j := 0; j < n; j++ {
			if k < len(v.Rows) {
				fix(all, v.Rows[k])
			}
			k++
		}
	}
}

// cellItemSizes: cells whose item is a cell show the inner cell's text and sizes
func cellItemSizes(ts TableSpec, v *View) {
	forViewCells(ts, v, func(it ItemSpec, c *VCell) {
		if it.K != "cell" && it.K != "pcell" {
			return
		}
		c.Text, c.TW, c.H, c.Widther = deepShown(it)
		c.Empty = c.Text == ""
	})
}

func hasCellItems(ts TableSpec) bool {
	found := false
	scan := func(items []ItemSpec) {
		for _, it := range items {
			if it.K == "cell" || it.K == "pcell" {
				found = true
			}
		}
	}
	if ts.Header != nil {
		scan(*ts.Header)
	}
	if ts.Header2 != nil {
		scan(*ts.Header2)
	}
	for _, r := range ts.Rows {
		scan(r.Cells)
		scan(r.Late)
	}
	return found
}

// c04ViewFix: the expected view of a C04 case, from the spec alone
func (cs C04Spec) viewFix() func(*View) {
	if len(cs.Redecl) == 0 && !hasCellItems(cs.Table) {
		return nil
	}
	return func(v *View) {
		ts := cs.Table
		if len(cs.Redecl) > 0 {
			ts = shownTable(cs.Table, cs.Redecl)
			*v = ts.SpecView()
			specSizes(ts, v)
		}
		cellItemSizes(ts, v)
	}
}

// ---------------------------------------------------------------- items

func cellOf(it ItemSpec) ItemSpec  { in := it; return ItemSpec{K: "cell", Inner: &in} }
func pcellOf(it ItemSpec) ItemSpec { in := it; return ItemSpec{K: "pcell", Inner: &in} }

// the ways an item can be held inside cells, to depth 3
var cellWraps = []func(ItemSpec) ItemSpec{
	cellOf,
	func(it ItemSpec) ItemSpec { return cellOf(cellOf(it)) },
	pcellOf,
	func(it ItemSpec) ItemSpec { return cellOf(pcellOf(it)) },
	func(it ItemSpec) ItemSpec { return pcellOf(cellOf(it)) },
	func(it ItemSpec) ItemSpec { return cellOf(cellOf(cellOf(it))) },
}

// one item of every kind the table generator knows (other than strings,
// objects and cells)
func otherKinds() []ItemSpec {
	return []ItemSpec{
		{K: "nil"}, {K: "rune", R: 'x'}, {K: "rune", R: 0x65e5}, {K: "rune", R: '\n'}, {K: "int", I: -1234567},
		{K: "bool", I: 1}, {K: "float", F: 2.5}, {K: "slice", I: 7}, {K: "map", B: []byte("key"), I: 3},
		{K: "structx", I: 4, B: []byte("two\nlines")}, {K: "valstr", B: []byte("by value\nstringer")},
		{K: "strerr", B: []byte("an error value")}, {K: "obj", Mask: 2, G: []byte("go\nstring")},
		{K: "obj", Mask: 4, E: []byte("err text")}, {K: "obj", Mask: 0}, {K: "obj", Mask: 6 | 16, G: []byte("gs"), E: []byte("e"), W: 5},
	}
}

// a random item of any kind, held in cells with some probability
func c04AnyItem(r *RNG) ItemSpec {
	var it ItemSpec
	switch {
	case r.Pct(80):
		it = sizedRandItem(r)
	default:
		it = pick(r, otherKinds())
	}
	if r.Pct(30) {
		it = pick(r, cellWraps)(it)
	}
	return it
}

// ---------------------------------------------------------------- generation

func c04R6Gen(r *RNG, tier string, nextReg func() DecSpec) []json.RawMessage {
	var out []json.RawMessage
	add := func(t TableSpec, rds []Redecl) {
		out = append(out, mustJSON(C04Spec{TextSpec: TextSpec{Table: t, Decs: []DecSpec{nextReg()}}, Redecl: rds}))
	}
	k := 0
	// every kind of item, bare and held in cells every way, entering the table
	// through every call: AddHeaders, AddRowItems, Row.Add(NewCell(..)) before
	// and after the row joined the table, NewRowSizedFor; under every alignment
	var items []ItemSpec
	for _, s := range []string{"abc", "a\nbb\nccc", "", "日本", "x\n", "\x1b[31mred\x1b[0m"} {
		items = append(items, Str(s))
	}
	for _, s := range []string{"abc", "a\nbb"} {
		for _, w := range widthClasses(s)[1:] {
			items = append(items, sizedItem(s, w, nil))
		}
		for _, h := range heightClasses(s)[1:] {
			items = append(items, sizedItem(s, nil, h))
		}
		items = append(items, sizedItem(s, intp(length.LongestLineCells(s)+2), intp(len(length.Lines(s))+1)))
	}
	items = append(items, otherKinds()...)
	table := func(x ItemSpec, a int) TableSpec {
		hd := []ItemSpec{Str("name"), x}
		if a%2 == 1 {
			hd = []ItemSpec{x, Str("v")}
		}
		ts := TableSpec{Header: &hd, Rows: []RowSpec{
			{Cells: []ItemSpec{x, Str("q")}},
			{Cells: []ItemSpec{Str("wider text"), x}, How: 1},
			{Cells: []ItemSpec{x}, How: 2},
			{Cells: []ItemSpec{Str("z"), x}, How: 3},
		}, Align: map[int]int{}}
		if a%4 != 0 {
			ts.Align[(a/4)%3] = a % 4
		}
		return ts
	}
	for _, it := range items {
		if it.K != "str" && it.K != "obj" {
			k++
			add(table(it, k), nil) // the bare item
		}
		for wi, wrap := range cellWraps {
			if tier != "thorough" && it.K == "obj" && it.Mask&24 != 0 && wi%2 != k%2 {
				continue // quick tier: half of the wraps for each sized object
			}
			k++
			add(table(wrap(it), k), nil)
		}
	}

	// items that re-declare: every non-empty subset of {text, declared width,
	// declared height} changes, for items declaring a width, a height or both;
	// in the header, in a row of AddRowItems, in a pre-built row; one round, two
	// rounds, and a round whose Update is only made in the next round
	type redeclText struct{ a, b string }
	texts := []redeclText{{"abc", "xy"}, {"\x1b[31mred\x1b[0m", "\x1b[1mbolder\x1b[0m"}, {"a\nbb", "cc\nd\ne"}, {"", "now text"}}
	for ti, tx := range texts {
		w0, h0 := length.LongestLineCells(tx.a), len(length.Lines(tx.a))
		for _, mask := range []int{16, 8, 24} {
			for subset := 1; subset < 8; subset++ {
				dt, dw, dh := subset&1 != 0, subset&2 != 0, subset&4 != 0
				if (dw && mask&16 == 0) || (dh && mask&8 == 0) {
					continue
				}
				for pos := 0; pos < 3; pos++ {
					k++
					var w, h *int
					if mask&16 != 0 {
						w = intp(w0 + k%3) // declares its real width, or a little more
					}
					if mask&8 != 0 {
						h = intp(h0 + k%2)
					}
					it := sizedItem(tx.a, w, h)
					it.Mask |= 1
					hd := []ItemSpec{Str("name"), Str("v")}
					ts := TableSpec{Header: &hd, Rows: []RowSpec{
						{Cells: []ItemSpec{Str("0123456789"), Str("x")}},
						{Cells: []ItemSpec{Str("y"), Str("q")}, How: pos % 2},
					}, Align: map[int]int{}}
					if a := k % 4; a != 0 {
						ts.Align[(k/4)%3] = a
					}
					row, col := 1, k%2
					if pos == 2 {
						row = -1
						hd[col] = it
					} else {
						ts.Rows[1].Cells[col] = it
					}
					rd := Redecl{Round: 1, Row: row, Col: col}
					if dt {
						rd.SetS, rd.S = true, []byte(tx.b)
					}
					if dw {
						rd.W = intp(*w + 2 + k%9) // wider: up to past the widest other cell
						if k%5 == 0 && *w > 0 {
							rd.W = intp(*w - 1)
						}
					}
					if dh {
						rd.H = intp(*h + 1 + k%3)
						if k%7 == 0 {
							rd.H = intp(*h - 1)
						}
					}
					rds := []Redecl{rd}
					switch (k + ti) % 3 {
					case 1: // and back again in a second round
						back := Redecl{Round: 2, Row: row, Col: col, SetS: dt, S: []byte(tx.a)}
						if dw {
							back.W = w
						}
						if dh {
							back.H = h
						}
						rds = append(rds, back)
					case 2: // changed without Update (the cell keeps what it read), updated one render later
						rds[0].NoUpdate = true
						if k%2 == 0 {
							rds = append(rds, Redecl{Round: 2, Row: row, Col: col})
						}
					}
					add(ts, rds)
				}
			}
		}
	}

	// random grids with items of any kind, some held in cells; random re-declarations
	n := 70
	if tier == "thorough" {
		n = 3000
	}
	for i := 0; i < n; i++ {
		ts := randTable(r, 5, 4, c04AnyItem, textHows)
		nc := 0
		if ts.Header != nil {
			nc = len(*ts.Header)
		}
		for _, row := range ts.Rows {
			if len(row.Cells) > nc {
				nc = len(row.Cells)
			}
		}
		ts.Align = c04RandAlign(r, nc)
		var rds []Redecl
		if r.Pct(60) {
			rds = c04RandRedecl(r, ts)
		} else if r.Pct(30) {
			enrichSpec(r, &ts, c04AnyItem)
		}
		add(ts, rds)
	}
	return out
}

// random re-declarations of the mutable items of a table
func c04RandRedecl(r *RNG, ts TableSpec) []Redecl {
	type pos struct{ row, col int }
	var ps []pos
	if ts.Header != nil {
		for j, it := range *ts.Header {
			if it.K == "obj" {
				ps = append(ps, pos{-1, j})
			}
		}
	}
	for i, row := range ts.Rows {
		for j, it := range row.Cells {
			if it.K == "obj" {
				ps = append(ps, pos{i, j})
			}
		}
	}
	if len(ps) == 0 {
		return nil
	}
	var out []Redecl
	rounds := 1 + r.Intn(3)
	for round := 1; round <= rounds; round++ {
		for n := 1 + r.Intn(2); n > 0; n-- {
			p := pick(r, ps)
			it := itemAt(&ts, p.row, p.col)
			rd := Redecl{Round: round, Row: p.row, Col: p.col, NoUpdate: r.Pct(15)}
			if r.Pct(40) {
				rd.SetS, rd.S = true, []byte(textString(r))
			}
			txt := string(it.S)
			if rd.SetS {
				txt = string(rd.S)
			}
			if it.Mask&16 != 0 && r.Pct(70) {
				rd.W = pick(r, widthClasses(txt)[1:])
			}
			if it.Mask&8 != 0 && r.Pct(70) {
				rd.H = pick(r, heightClasses(txt)[1:])
			}
			out = append(out, rd)
		}
	}
	return out
}

func redeclTags(cs C04Spec) []string {
	var tags []string
	if hasCellItems(cs.Table) {
		tags = append(tags, "item=a-cell-holding-a-cell")
	}
	if len(cs.Redecl) == 0 {
		return tags
	}
	tags = append(tags, fmt.Sprintf("redeclare:rounds=%d", redeclRounds(cs.Redecl)))
	live := cloneTable(cs.Table)
	for _, rd := range cs.Redecl {
		it := itemAt(&live, rd.Row, rd.Col)
		if it == nil || it.K != "obj" {
			continue
		}
		before := *it
		rd.applyTo(it)
		dt := rd.SetS && string(before.S) != string(it.S)
		dw := it.Mask&16 != 0 && before.W != it.W
		dh := it.Mask&8 != 0 && before.H != it.H
		tags = append(tags, fmt.Sprintf("redeclare:text-changes=%v,width-changes=%v,height-changes=%v", dt, dw, dh))
		if rd.NoUpdate {
			tags = append(tags, "redeclare:changed-without-Update")
		}
		if rd.Row < 0 {
			tags = append(tags, "redeclare:header-cell")
		}
	}
	return tags
}

func shrinkRedecl(cs C04Spec, clone func() C04Spec) []json.RawMessage {
	var out []json.RawMessage
	for i, rd := range cs.Redecl {
		c := clone()
		c.Redecl = append(append([]Redecl{}, cs.Redecl[:i]...), cs.Redecl[i+1:]...)
		out = append(out, mustJSON(c))
		if rd.Round > 1 {
			c := clone()
			c.Redecl[i].Round--
			out = append(out, mustJSON(c))
		}
		if rd.SetS {
			c := clone()
			c.Redecl[i].SetS, c.Redecl[i].S = false, nil
			out = append(out, mustJSON(c))
		}
		if rd.W != nil {
			c := clone()
			c.Redecl[i].W = nil
			out = append(out, mustJSON(c))
		}
		if rd.H != nil {
			c := clone()
			c.Redecl[i].H = nil
			out = append(out, mustJSON(c))
		}
		if rd.NoUpdate {
			c := clone()
			c.Redecl[i].NoUpdate = false
			out = append(out, mustJSON(c))
		}
	}
	return out
}
